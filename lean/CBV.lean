import CBV.Model.All
import CBV.Props.C10
