/-
C19 (round 6c) — which points of a disk sketch lie on the outer rim, and which faces have a side on it, computed on the
*positions* the sketch classes generate (C11's model of `FanPattern` / `OneCoreDisk` / `QuarterDisk` / `HalfDisk` /
`FourCoreDisk`: `CBV.C11.diskPts`, exact over any ordered field, executed over `Rat` with the float `cos π/4` as witness)
and on the `quad_map` regenerated from the source.  Core Lean only.
-/
import CBV.Model.C19Sk
import CBV.Model.C11Geo
import CBV.Gen.TC19

namespace CBV.C19
open CBV.C11 (P3 DiskCls diskPts)

/-- does the quad `q` have a side (consecutive points, cyclically) whose two ends both satisfy `p`? -/
def edgeOn (p : Nat → Bool) (q : List Nat) : Bool :=
  (List.range 4).any (fun j => p (q.getD j 0) && p (q.getD ((j + 1) % 4) 0))

/-- the faces that have a side with both ends in `p` -/
def shellByEdges (p : Nat → Bool) (quads : List (List Nat)) : List Nat :=
  (List.range quads.length).filter (fun f => edgeOn p (quads.getD f []))

/-- the first position that comes from `get_outer_points` in the positions list of the class (`[centre,] *inner, *outer`) -/
def rimStart (cl : DiskCls) : Nat := (if cl = .oneCore then 0 else 1) + cl.idx.length

/-- number of positions of the class -/
def nPositions (cl : DiskCls) : Nat := rimStart cl + cl.idx.length

/-- over `Rat` with float witnesses: the squared distance from the centre is the squared radius up to rounding (1e-9 relative) -/
def onCircleQ (c rp p : P3 Rat) : Bool :=
  let r2 := P3.nsq (P3.sub rp c)
  let e := P3.nsq (P3.sub p c) - r2
  decide (-(r2 / 1000000000) ≤ e) && decide (e ≤ r2 / 1000000000)

/-- (ids of the positions on the circle through the radius point, faces with a side on it) of a placed disk sketch -/
def rimShell (cl : DiskCls) (quads : List (List Nat)) (c rp u : P3 Rat) (h k dg : Rat) : List Nat × List Nat :=
  let pts := diskPts cl c rp u h k dg
  let on := fun i => onCircleQ c rp (pts.getD i c)
  ((List.range pts.length).filter on, shellByEdges on quads)

def handleRim (op : String) (args : List String) : Option String :=
  match op, args with
  | "c19.rimshell", [cls, c, rp, u, h, k, dg] => do
      let cl ← DiskCls.ofName? cls
      let quads ← lookup cls CBV.Gen.c19QuadMaps
      let c ← CBV.C11.parseP3? c; let rp ← CBV.C11.parseP3? rp; let u ← CBV.C11.parseP3? u
      let h ← parseRat? h; let k ← parseRat? k; let dg ← parseRat? dg
      if !CBV.C11.nearUnit u then none else
      let rs := rimShell cl quads c rp u h k dg
      -- point ids in the numbering by first appearance along the faces (what the harness uses)
      some s!"rim={showNats (canonPoints quads rs.1)} shell={showNats rs.2}"
  | _, _ => none

end CBV.C19
