/-
C06 — M-ASM: model of `Mesh.assemble` (vertex merging through the C05 model, blocks, edges,
patches, projected faces, geometry), of the renderer `Mesh.write` / `*.description` down to the
token stream of the written file, and of a parser of that token stream (bracket layer + schema
layer).  Core Lean only.

Opaque (taken from the implementation, they belong to C01–C04 / C07 / C08): the count and grading
entries of a `hex` line, the payload of a curved edge (kind, validity, tokens of its description),
`str(value)` of settings and geometry properties, `repr(float)` in the debug VTK.
-/
import CBV.Model.Common
import CBV.Gen.Tables
import CBV.Model.C05
import CBV.Model.C06Fmt
import CBV.Model.C06Repr
import CBV.Gen.TC06

namespace CBV.C06

/-! ## 1. tokens and the bracket layer -/

/-- A token of a blockMeshDict: brackets, `;`, a word, a `// …` comment (to the end of the line). -/
inductive Tok where
  | lp | rp | lb | rb | semi
  | word (s : String)
  | comment (s : String)
  deriving DecidableEq, Repr

/-- Bracket structure of a token stream. -/
inductive Tree where
  | atom (s : String)
  | semi
  | comment (s : String)
  | paren (ts : List Tree)
  | brace (ts : List Tree)
  deriving Repr

mutual
/-- tokens of a tree -/
def Tree.flat : Tree → List Tok
  | .atom s => [.word s]
  | .semi => [.semi]
  | .comment s => [.comment s]
  | .paren ts => .lp :: (flatList ts ++ [.rp])
  | .brace ts => .lb :: (flatList ts ++ [.rb])
/-- tokens of a sequence of trees -/
def flatList : List Tree → List Tok
  | [] => []
  | t :: ts => t.flat ++ flatList ts
end

inductive Open where
  | paren | brace
  deriving DecidableEq, Repr

/-- Shift–reduce parser of the bracket structure: `stk` holds the enclosing open brackets with
    the trees read before them (reversed), `cur` the trees of the innermost level (reversed). -/
def parseStk : List Tok → List (Open × List Tree) → List Tree → Option (List Tree)
  | [], [], cur => some cur.reverse
  | [], _ :: _, _ => none
  | .lp :: ts, stk, cur => parseStk ts ((.paren, cur) :: stk) []
  | .lb :: ts, stk, cur => parseStk ts ((.brace, cur) :: stk) []
  | .rp :: ts, (.paren, prev) :: stk, cur => parseStk ts stk (.paren cur.reverse :: prev)
  | .rp :: _, _, _ => none
  | .rb :: ts, (.brace, prev) :: stk, cur => parseStk ts stk (.brace cur.reverse :: prev)
  | .rb :: _, _, _ => none
  | .semi :: ts, stk, cur => parseStk ts stk (.semi :: cur)
  | .word s :: ts, stk, cur => parseStk ts stk (.atom s :: cur)
  | .comment s :: ts, stk, cur => parseStk ts stk (.comment s :: cur)

def parseTrees (ts : List Tok) : Option (List Tree) := parseStk ts [] []

/-! ## 2. the dictionary (what a blockMeshDict says) and its schema layer -/

/-- `(x y z) // i` or `project (x y z) (labels) // i` -/
structure VEntry where
  coords : List String
  proj : List String
  comment : String
  deriving Repr

/-- `hex ( v0 … v7 ) zone ( nx ny nz ) <grading keyword> ( … ) // i` -/
structure BEntry where
  verts : List Nat
  zone : String
  counts : List Tree
  gkind : String
  grading : List Tree
  comment : String
  deriving Repr

/-- `[// alternative specification] kind v1 v2 ( payload )` -/
structure EEntry where
  pre : Option String
  kind : String
  v1 : Nat
  v2 : Nat
  payload : List Tree
  deriving Repr

/-- `project (a b c d) label` -/
structure FEntry where
  quad : List Nat
  label : String
  deriving Repr

/-- `name { type kind; option; … faces ( (a b c d) … ); }` -/
structure PEntry where
  name : String
  kind : String
  settings : List (List Tree)
  quads : List (List Nat)
  deriving Repr

/-- `name { property; … }` -/
structure GEntry where
  name : String
  props : List (List Tree)
  deriving Repr

structure Dict where
  foamFile : List Tree
  headComment : String
  settings : List (String × List Tree)
  geometry : List GEntry
  vertices : List VEntry
  blocks : List BEntry
  edges : List EEntry
  faces : List FEntry
  patches : List PEntry
  default : Option (String × String)
  merged : List (String × String)
  footer : List String
  deriving Repr

def Tree.isSemi : Tree → Bool
  | .semi => true
  | _ => false

def atomsOf : List Tree → Option (List String)
  | [] => some []
  | .atom s :: ts => (atomsOf ts).map (s :: ·)
  | _ :: _ => none

def natsOf : List Tree → Option (List Nat)
  | [] => some []
  | .atom s :: ts => do
      let n ← s.toNat?
      let r ← natsOf ts
      some (n :: r)
  | _ :: _ => none

def commentsOf : List Tree → Option (List String)
  | [] => some []
  | .comment s :: ts => (commentsOf ts).map (s :: ·)
  | _ :: _ => none

def natAtoms (ns : List Nat) : List Tree := ns.map (fun n => Tree.atom (toString n))

/-- repeated application of an entry decoder until the input is used up (`fuel` ≥ length) -/
def decMany {α : Type} (step : List Tree → Option (α × List Tree)) : Nat → List Tree → Option (List α)
  | _, [] => some []
  | 0, _ :: _ => none
  | fuel + 1, t :: ts =>
      match step (t :: ts) with
      | some (x, rest) => (decMany step fuel rest).map (x :: ·)
      | none => none

/-- statements `tree … tree ;` -/
def encStmts (ss : List (List Tree)) : List Tree := ss.flatMap (· ++ [Tree.semi])

/-- splits at `;` (every statement must be terminated) -/
def splitSemi : List Tree → List Tree → Option (List (List Tree))
  | [], [] => some []
  | [], _ :: _ => none
  | t :: ts, acc =>
      if t.isSemi then (splitSemi ts []).map (acc.reverse :: ·) else splitSemi ts (t :: acc)

/-! ### entries -/

def encV (v : VEntry) : List Tree :=
  if v.proj.isEmpty then [.paren (v.coords.map .atom), .comment v.comment]
  else [.atom "project", .paren (v.coords.map .atom), .paren (v.proj.map .atom), .comment v.comment]

def stepV : List Tree → Option (VEntry × List Tree)
  | .atom "project" :: .paren cs :: .paren ls :: .comment c :: rest => do
      let cs ← atomsOf cs
      let ls ← atomsOf ls
      if ls.isEmpty then none else some (⟨cs, ls, c⟩, rest)
  | .paren cs :: .comment c :: rest => do
      let cs ← atomsOf cs
      some (⟨cs, [], c⟩, rest)
  | _ => none

def encB (b : BEntry) : List Tree :=
  if b.zone.isEmpty then
    [.atom "hex", .paren (natAtoms b.verts), .paren b.counts, .atom b.gkind, .paren b.grading, .comment b.comment]
  else
    [.atom "hex", .paren (natAtoms b.verts), .atom b.zone, .paren b.counts, .atom b.gkind, .paren b.grading,
      .comment b.comment]

def stepB : List Tree → Option (BEntry × List Tree)
  | .atom "hex" :: .paren vs :: .atom z :: .paren c :: .atom g :: .paren gr :: .comment cm :: rest => do
      let vs ← natsOf vs
      if z.isEmpty then none else some (⟨vs, z, c, g, gr, cm⟩, rest)
  | .atom "hex" :: .paren vs :: .paren c :: .atom g :: .paren gr :: .comment cm :: rest => do
      let vs ← natsOf vs
      some (⟨vs, "", c, g, gr, cm⟩, rest)
  | _ => none

def encE (e : EEntry) : List Tree :=
  (match e.pre with | some c => [Tree.comment c] | none => []) ++
    [.atom e.kind, .atom (toString e.v1), .atom (toString e.v2), .paren e.payload]

def stepE : List Tree → Option (EEntry × List Tree)
  | .comment c :: .atom k :: .atom a :: .atom b :: .paren p :: rest => do
      let a ← a.toNat?
      let b ← b.toNat?
      some (⟨some c, k, a, b, p⟩, rest)
  | .atom k :: .atom a :: .atom b :: .paren p :: rest => do
      let a ← a.toNat?
      let b ← b.toNat?
      some (⟨none, k, a, b, p⟩, rest)
  | _ => none

def encF (f : FEntry) : List Tree := [.atom "project", .paren (natAtoms f.quad), .atom f.label]

def stepF : List Tree → Option (FEntry × List Tree)
  | .atom "project" :: .paren q :: .atom l :: rest => do
      let q ← natsOf q
      some (⟨q, l⟩, rest)
  | _ => none

def encQuad (q : List Nat) : List Tree := [.paren (natAtoms q)]

def stepQuad : List Tree → Option (List Nat × List Tree)
  | .paren q :: rest => (natsOf q).map (·, rest)
  | _ => none

/-- `type kind ; option ; … ; faces ( quads ) ;` — the last statement holds the faces -/
def encP (p : PEntry) : List Tree :=
  [.atom p.name,
   .brace (encStmts ([[.atom "type", .atom p.kind]] ++ p.settings ++
      [[.atom "faces", .paren (p.quads.flatMap encQuad)]]))]

def decPBody (name : String) (ss : List (List Tree)) : Option PEntry :=
  match ss with
  | [.atom "type", .atom k] :: rest =>
      match rest.getLast? with
      | some [.atom "faces", .paren qs] => do
          let qs ← decMany stepQuad qs.length qs
          some ⟨name, k, rest.dropLast, qs⟩
      | _ => none
  | _ => none

def stepP : List Tree → Option (PEntry × List Tree)
  | .atom n :: .brace body :: rest => do
      let ss ← splitSemi body []
      let p ← decPBody n ss
      some (p, rest)
  | _ => none

def encG (g : GEntry) : List Tree := [.atom g.name, .brace (encStmts g.props)]

def stepG : List Tree → Option (GEntry × List Tree)
  | .atom n :: .brace body :: rest => do
      let ss ← splitSemi body []
      some (⟨n, ss⟩, rest)
  | _ => none

def encM (m : String × String) : List Tree := [.paren [.atom m.1, .atom m.2]]

def stepM : List Tree → Option ((String × String) × List Tree)
  | .paren [.atom a, .atom b] :: rest => some ((a, b), rest)
  | _ => none

/-- keywords at which the settings end -/
def isSectionKey (s : String) : Bool := s == "geometry" || s == "vertices"

def encSetting (s : String × List Tree) : List Tree := Tree.atom s.1 :: (s.2 ++ [Tree.semi])

/-- reads the value of a setting up to `;` -/
def spanSemi : List Tree → List Tree → Option (List Tree × List Tree)
  | [], _ => none
  | t :: ts, acc => if t.isSemi then some (acc.reverse, ts) else spanSemi ts (t :: acc)

def decSettings : Nat → List Tree → Option (List (String × List Tree) × List Tree)
  | 0, _ => none
  | fuel + 1, .atom k :: ts =>
      if isSectionKey k then some ([], .atom k :: ts)
      else do
        let (v, rest) ← spanSemi ts []
        let (ss, rest') ← decSettings fuel rest
        some ((k, v) :: ss, rest')
  | _ + 1, _ => none

/-- the whole file as trees -/
def encode (d : Dict) : List Tree :=
  [.atom "FoamFile", .brace d.foamFile, .comment d.headComment] ++
  d.settings.flatMap encSetting ++
  (if d.geometry.isEmpty then [] else [.atom "geometry", .brace (d.geometry.flatMap encG), .semi]) ++
  [.atom "vertices", .paren (d.vertices.flatMap encV), .semi,
   .atom "blocks", .paren (d.blocks.flatMap encB), .semi,
   .atom "edges", .paren (d.edges.flatMap encE), .semi,
   .atom "faces", .paren (d.faces.flatMap encF), .semi,
   .atom "boundary", .paren (d.patches.flatMap encP), .semi] ++
  (match d.default with
   | some (n, k) => [.atom "defaultPatch", .brace [.atom "name", .atom n, .semi, .atom "type", .atom k, .semi]]
   | none => []) ++
  [.atom "mergePatchPairs", .paren (d.merged.flatMap encM), .semi] ++
  d.footer.map .comment

def decTail (ff : List Tree) (hc : String) (settings : List (String × List Tree)) (geometry : List GEntry)
    (vs : List VEntry) (bs : List BEntry) (es : List EEntry) (fs : List FEntry) (ps : List PEntry)
    (dflt : Option (String × String)) : List Tree → Option Dict
  | .atom "mergePatchPairs" :: .paren m :: .semi :: tail => do
      let ms ← decMany stepM m.length m
      let ft ← commentsOf tail
      some ⟨ff, hc, settings, geometry, vs, bs, es, fs, ps, dflt, ms, ft⟩
  | _ => none

def decSections (ff : List Tree) (hc : String) (settings : List (String × List Tree)) (geometry : List GEntry) :
    List Tree → Option Dict
  | .atom "vertices" :: .paren v :: .semi :: .atom "blocks" :: .paren b :: .semi ::
    .atom "edges" :: .paren e :: .semi :: .atom "faces" :: .paren f :: .semi ::
    .atom "boundary" :: .paren p :: .semi :: rest => do
      let vs ← decMany stepV v.length v
      let bs ← decMany stepB b.length b
      let es ← decMany stepE e.length e
      let fs ← decMany stepF f.length f
      let ps ← decMany stepP p.length p
      match rest with
      | .atom "defaultPatch" :: .brace [.atom "name", .atom n, .semi, .atom "type", .atom k, .semi] :: rest' =>
          decTail ff hc settings geometry vs bs es fs ps (some (n, k)) rest'
      | _ => decTail ff hc settings geometry vs bs es fs ps none rest
  | _ => none

def decode : List Tree → Option Dict
  | .atom "FoamFile" :: .brace ff :: .comment hc :: ts => do
      let (settings, rest) ← decSettings (ts.length + 1) ts
      match rest with
      | .atom "geometry" :: .brace g :: .semi :: rest' => do
          let gs ← decMany stepG g.length g
          if gs.isEmpty then none else decSections ff hc settings gs rest'
      | _ => decSections ff hc settings [] rest
  | _ => none

/-- the written file as a token stream -/
def render (d : Dict) : List Tok := flatList (encode d)

/-- the parser of the token stream of a blockMeshDict -/
def parse (ts : List Tok) : Option Dict := (parseTrees ts).bind decode

/-! ## 2b. the text of the file: tokenizer and un-tokenizer

`lexText` is the tokenizer of a blockMeshDict text: the five punctuation characters, `// …` comments (to the end of the line,
trailing blanks removed), words (maximal runs of other non-blank characters; a `/` starts a comment only at the start of a
token), `/* … */` skipped.  One character per step. -/

/-- python `str.isspace` on ASCII -/
def isSpace (c : Char) : Bool :=
  c == ' ' || (9 ≤ c.toNat && c.toNat ≤ 13) || (28 ≤ c.toNat && c.toNat ≤ 31)

def isSpecial (c : Char) : Bool := c == '(' || c == ')' || c == '{' || c == '}' || c == ';'

def punct (c : Char) : Tok :=
  if c == '(' then .lp else if c == ')' then .rp else if c == '{' then .lb else if c == '}' then .rb else .semi

/-- `rstrip` -/
def rstrip (l : List Char) : List Char := (l.reverse.dropWhile isSpace).reverse

inductive LexSt where
  | top                       -- between tokens
  | slash                     -- a `/` at the start of a token
  | word (acc : List Char)    -- inside a word (characters so far, reversed)
  | line (acc : List Char)    -- inside a `//` comment (characters so far, reversed)
  | block                     -- inside `/* … */`
  | blockStar                 -- inside `/* … */`, after a `*`

def mkWord (acc : List Char) : Tok := .word (String.ofList acc.reverse)
def mkComment (acc : List Char) : Tok := .comment (String.ofList (rstrip acc.reverse))

def lex : LexSt → List Char → List Tok
  | .top, [] => []
  | .top, c :: r =>
      if isSpace c then lex .top r
      else if isSpecial c then punct c :: lex .top r
      else if c == '/' then lex .slash r
      else lex (.word [c]) r
  | .slash, [] => [mkWord ['/']]
  | .slash, c :: r =>
      if c == '/' then lex (.line ['/', '/']) r
      else if c == '*' then lex .block r
      else if isSpace c then mkWord ['/'] :: lex .top r
      else if isSpecial c then mkWord ['/'] :: punct c :: lex .top r
      else lex (.word [c, '/']) r
  | .word acc, [] => [mkWord acc]
  | .word acc, c :: r =>
      if isSpace c then mkWord acc :: lex .top r
      else if isSpecial c then mkWord acc :: punct c :: lex .top r
      else lex (.word (c :: acc)) r
  | .line acc, [] => [mkComment acc]
  | .line acc, c :: r => if c == '\n' then mkComment acc :: lex .top r else lex (.line (c :: acc)) r
  | .block, [] => []
  | .block, c :: r => if c == '*' then lex .blockStar r else lex .block r
  | .blockStar, [] => []
  | .blockStar, c :: r => if c == '/' then lex .top r else if c == '*' then lex .blockStar r else lex .block r

/-- the tokenizer of the text of a blockMeshDict -/
def lexText (cs : List Char) : List Tok := lex .top cs

/-- a character of a word: neither blank nor punctuation -/
def plainChar (c : Char) : Bool := !isSpace c && !isSpecial c

/-- a token as the writer can print it so that it reads back: a word is a non-empty run of plain characters that does not
    begin like a comment; a comment begins with `//`, stays on its line and has no trailing blank -/
def Tok.wf : Tok → Bool
  | .word s =>
      let cs := s.toList
      !cs.isEmpty && cs.all plainChar &&
        !(cs.head? == some '/' && (cs.tail.head? == some '/' || cs.tail.head? == some '*'))
  | .comment s =>
      let cs := s.toList
      cs.take 2 == ['/', '/'] && cs.all (fun c => c != '\n') && rstrip cs == cs
  | _ => true

def Tok.chars : Tok → List Char
  | .lp => ['('] | .rp => [')'] | .lb => ['{'] | .rb => ['}'] | .semi => [';']
  | .word s => s.toList
  | .comment s => s.toList

/-- a text with these tokens: every token followed by a blank, a comment by a line break -/
def Tok.sep : Tok → Char
  | .comment _ => '\n'
  | _ => ' '

def unlex : List Tok → List Char
  | [] => []
  | t :: ts => t.chars ++ t.sep :: unlex ts

/-! ## 3. the user-level declaration and `Mesh.assemble` -/

/-- One corner of an operation: exact position (for merging), `%.8f` strings are computed by
    `fmt8`; `neg` records the sign bit of each coordinate (python prints `-0.00000000`);
    `vtk` = `str()` of the three float64 coordinates (opaque); `proj` = `Point.projected_to`. -/
structure Corner where
  pos : V3
  neg : List Bool
  vtk : List String
  proj : List String
  deriving Repr

/-- Edge datum of one storage slot: `repr` is what `Edge.representation` prints (`line` for a
    line), `valid` = `Edge.is_valid`, `pre` the alternative specification written as a comment
    (text before / after the two indices), payload tokens for both directions. -/
structure EdgeDecl where
  repr : String
  valid : Bool
  preFwd : Option (String × String)
  fwd : List Tree
  preBwd : Option (String × String)
  bwd : List Tree
  deriving Repr

structure OpDecl where
  deleted : Bool
  corners : List Corner                 -- 8
  patches : List (Option String)        -- bottom, top, then SIDES_MAP order
  sideProj : List (Option String)       -- SIDES_MAP order
  bottomProj : Option String
  topProj : Option String
  zone : String
  counts : List Tree
  /-- `all(axis.is_simple)` (opaque: C01–C04) -/
  simple : Bool
  /-- `Wire.grading.description` of the 12 wires, keyed by the wire's corner pair (opaque values) -/
  wireGrading : List (Nat × Nat × List Tree)
  edges : List EdgeDecl                 -- bottom 0..3, top 0..3, side 0..3
  /-- run-time check: every `str(float)` the model printed for this operation's gradings passes the validator
      `reprOk` and is a shortest such decimal -/
  numsOk : Bool := true
  deriving Repr

structure Entity where
  ops : List OpDecl
  geometry : List GEntry
  deriving Repr

structure Modify where
  name : String
  kind : String
  settings : Option (List (List Tree))
  deriving Repr

structure Decl where
  foamFile : List Tree
  headComment : String
  footer : List String
  settings : List (String × List Tree)
  geomBefore : List GEntry
  geomAfter : List GEntry
  mergedBefore : List (String × String)
  mergedAfter : List (String × String)
  default : Option (String × String)
  modifyBefore : List Modify
  modifyAfter : List Modify
  depot : List Entity
  /-- the mesh was assembled, then cleared (`clear()` or `backport()`) and assembled again before it
      was written: the second assembly sees all merged pairs and adds the entities' geometry again -/
  reassembled : Bool := false
  deriving Repr

/-! ### numbers -/

-- `pow10`, `roundHalfEven`, `round8`, `fmt8`, `vectorTokens`: see `CBV.Model.C06Fmt`

/-- the number tokens of `vector_format(position)` in `Vertex.description` -/
def Corner.coords (c : Corner) : List String := vectorTokens c.pos c.neg

/-- What a curved edge prints between its brackets: `Point.description` of one point (arc: the
    third point), the `vector_format` of every point of `point_array` (spline, polyLine), or
    tokens that stay opaque (labels of a projected edge). -/
inductive Payload where
  | raw (ts : List Tree)
  | point (p : NumV3)
  | points (ps : List NumV3)
  deriving Repr

/-- `(x y z)` -/
def pointTree (p : NumV3) : Tree := .paren ((vectorTokens p.pos p.neg).map .atom)

/-- the trees after `kind v1 v2`: arcs print `(x y z)`, curves `( (x y z) … (x y z) )` -/
def Payload.trees : Payload → List Tree
  | .raw ts => [.paren ts]
  | .point p => [pointTree p]
  | .points ps => [.paren (ps.map pointTree)]

/-- the content of the brackets (what `EEntry.payload` holds) -/
def Payload.inner : Payload → List Tree
  | .raw ts => ts
  | .point p => (vectorTokens p.pos p.neg).map .atom
  | .points ps => ps.map pointTree

/-- a number of a `Grading.specification` as Python holds it: an `int` or a `float` (exact value, sign bit) -/
inductive PyNum where
  | int (n : Int)
  | flt (neg : Bool) (x : Rat)
  deriving Repr

/-- `str(number)` -/
def PyNum.str : PyNum → String
  | .int n => toString n
  | .flt neg x => pyRepr neg x

/-- the text printed for a float passes the validator and no shorter decimal would -/
def floatTextOk (neg : Bool) (x : Rat) : Bool :=
  let cs := pyReprChars neg x
  reprOk neg x cs &&
    (x == 0 ||
      match shortestFrom x (absR x) (decPoint (absR x)) 17 1 with
      | some (m, e) => let me := stripZeros 20 m e; reprShortest x me.1 me.2
      | none => false)

def PyNum.ok : PyNum → Bool
  | .int _ => true
  | .flt neg x => floatTextOk neg x

/-- one division of `Grading.specification`: `[length_ratio, count, total_expansion]` -/
structure Division where
  ratio : PyNum
  count : PyNum
  exp : PyNum
  deriving Repr

/-- `Grading.description`: one division prints its total expansion, several print
    `((ratio count expansion) … )` -/
def gradingTrees : List Division → List Tree
  | [d] => [.atom d.exp.str]
  | ds => [.paren (ds.map (fun d => .paren [.atom d.ratio.str, .atom d.count.str, .atom d.exp.str]))]

def gradingNumsOk (ds : List Division) : Bool := ds.all (fun d => d.ratio.ok && d.count.ok && d.exp.ok)

/-- `str()` of the three float64 coordinates, as `write_vtk` prints them -/
def vtkWords (pos : V3) (neg : List Bool) : List String :=
  [pyRepr (neg.getD 0 false) pos.x, pyRepr (neg.getD 1 false) pos.y, pyRepr (neg.getD 2 false) pos.z]

def vtkNumsOk (pos : V3) (neg : List Bool) : Bool :=
  floatTextOk (neg.getD 0 false) pos.x && floatTextOk (neg.getD 1 false) pos.y && floatTextOk (neg.getD 2 false) pos.z

/-! ### vertices: the C05 model with corners as points -/

def closeCorner (a b : Corner) : Bool := C05.closeV3 a.pos b.pos

def OpDecl.toC05 (o : OpDecl) : C05.Op Corner String :=
  { pts := o.corners, bottom := (o.patches.getD 0 none), top := (o.patches.getD 1 none),
    sides := (o.patches.drop 2) }

/-- non-deleted operations of the depot, flattened, in depot order -/
def liveOps (depot : List Entity) : List OpDecl :=
  depot.flatMap (fun e => e.ops.filter (fun o => !o.deleted))

/-! ### blocks, edges, patches, faces, geometry -/

/-- `[vertices[i] for i in FACE_MAP[orient]]` as vertex indices -/
def quadOf (verts : List Nat) (orient : String) : List Nat :=
  ((CBV.Gen.faceMap.lookup orient).getD []).map (fun i => verts.getD i 0)

/-- `Side.__eq__`: same set of vertex indices -/
def sameSet (a b : List Nat) : Bool := a.all (b.contains ·) && b.all (a.contains ·)

/-- orient names in the order of `Operation.patch_names` -/
def orients : List String := ["bottom", "top"] ++ CBV.Gen.sidesMap

/-- `PatchList.get` + `Patch.add_side` -/
def addPatchSide (ps : List PEntry) (name : String) (quad : List Nat) : List PEntry :=
  if ps.any (·.name == name) then
    ps.map (fun p => if p.name == name then
        (if p.quads.any (sameSet · quad) then p else { p with quads := p.quads ++ [quad] }) else p)
  else ps ++ [⟨name, "patch", [], [quad]⟩]

/-- `PatchList.add(vertices, operation)` -/
def addPatches (ps : List PEntry) (o : OpDecl) (verts : List Nat) : List PEntry :=
  (orients.zip o.patches).foldl (fun ps (orient, n) =>
    match n with
    | some name => addPatchSide ps name (quadOf verts orient)
    | none => ps) ps

/-- `PatchList.modify` -/
def modifyPatch (ps : List PEntry) (m : Modify) : List PEntry :=
  let upd (p : PEntry) : PEntry :=
    { p with kind := m.kind, settings := match m.settings with | some s => s | none => p.settings }
  if ps.any (·.name == m.name) then ps.map (fun p => if p.name == m.name then upd p else p)
  else ps ++ [upd ⟨m.name, "patch", [], []⟩]

/-- `FaceList.add_side` -/
def addFace (fs : List FEntry) (quad : List Nat) (label : String) : List FEntry :=
  if fs.any (fun f => sameSet f.quad quad) then fs else fs ++ [⟨quad, label⟩]

/-- `FaceList.add(vertices, operation)`: the four sides in `SIDES_MAP` order, then bottom, top -/
def addFaces (fs : List FEntry) (o : OpDecl) (verts : List Nat) : List FEntry :=
  let fs := (CBV.Gen.sidesMap.zip o.sideProj).foldl (fun fs (orient, l) =>
    match l with
    | some label => addFace fs (quadOf verts orient) label
    | none => fs) fs
  let fs := match o.bottomProj with | some l => addFace fs (quadOf verts "bottom") l | none => fs
  match o.topProj with | some l => addFace fs (quadOf verts "top") l | none => fs

/-- storage slot of the beam between two corners, as `Operation.edges` fills the frame:
    bottom `i` ↦ (i, i+1 mod 4), top `i` ↦ (i+4, (i+1 mod 4)+4), side `i` ↦ (i, i+4) -/
def slotOfPair (a b : Nat) : Option Nat :=
  let lo := min a b
  let hi := max a b
  if hi < 4 then (if hi = lo + 1 then some lo else if lo = 0 ∧ hi = 3 then some 3 else none)
  else if 4 ≤ lo then (if hi = lo + 1 then some lo else if lo = 4 ∧ hi = 7 then some 7 else none)
  else if hi = lo + 4 then some (8 + lo) else none

/-- whether the slot's own direction (i → i+1, bottom → top) is `a → b` -/
def slotForward (slot a b : Nat) : Bool :=
  if slot < 4 then b == (a + 1) % 4
  else if slot < 8 then b == (a - 4 + 1) % 4 + 4
  else a < b

/-- `EdgeList.add`: look for an edge between the same two vertices, otherwise create one and keep
    it when it is valid -/
def addEdge (es : List EEntry) (v1 v2 : Nat) (d : EdgeDecl) (forward : Bool) : List EEntry :=
  if es.any (fun e => (e.v1 == v1 && e.v2 == v2) || (e.v1 == v2 && e.v2 == v1)) then es
  else if d.valid && d.repr != "line" then
    let pre := if forward then d.preFwd else d.preBwd
    es ++ [⟨pre.map (fun (a, b) => a ++ toString v1 ++ " " ++ toString v2 ++ b), d.repr, v1, v2,
      if forward then d.fwd else d.bwd⟩]
  else es

/-- the order and direction in which `EdgeList.add_from_operation` walks the twelve beams (corner pairs; the closing
    beams of the faces are written `3 0` and `7 4`); compared with a probe of the current source in `T_C06_edge_order` -/
def edgeOrder : List (Nat × Nat) :=
  [(0, 1), (3, 0), (0, 4), (1, 2), (1, 5), (2, 3), (2, 6), (3, 7), (4, 5), (7, 4), (5, 6), (6, 7)]

/-- `EdgeList.add_from_operation`: the beams in enumeration order and direction -/
def addEdges (es : List EEntry) (o : OpDecl) (verts : List Nat) : List EEntry :=
  edgeOrder.foldl (fun es (a, b) =>
    match slotOfPair a b with
    | some slot =>
        match o.edges[slot]? with
        | some d => addEdge es (verts.getD a 0) (verts.getD b 0) d (slotForward slot a b)
        | none => es
    | none => es) es

/-- `GeometryList.add`: `{**old, **new}` -/
def addGeometry (gs : List GEntry) (g : GEntry) : List GEntry :=
  if gs.any (·.name == g.name) then gs.map (fun x => if x.name == g.name then g else x) else gs ++ [g]

def vertexEntry (v : C05.Vertex Corner) : VEntry :=
  ⟨v.pos.coords, v.pos.proj, "// " ++ toString v.index⟩

/-- the grading description of the wire between two corners -/
def wireGradingOf (o : OpDecl) (a b : Nat) : List Tree :=
  match o.wireGrading.find? (fun w => (w.1 == a && w.2.1 == b) || (w.1 == b && w.2.1 == a)) with
  | some w => w.2.2
  | none => []

/-- `Block.format_grading`: the wires of every axis in the order of `constants.AXIS_PAIRS`
    (generated); `simpleGrading` takes the first wire of each axis, `edgeGrading` all twelve -/
def gradingOf (o : OpDecl) : String × List Tree :=
  if o.simple then
    ("simpleGrading", CBV.Gen.axisPairs.flatMap (fun row =>
      match row.head? with
      | some (a, b) => wireGradingOf o a b
      | none => []))
  else
    ("edgeGrading", CBV.Gen.axisPairs.flatMap (fun row => row.flatMap (fun ab => wireGradingOf o ab.1 ab.2)))

def blockEntry (i : Nat) (o : OpDecl) (verts : List Nat) : BEntry :=
  ⟨verts, o.zone, o.counts, (gradingOf o).1, (gradingOf o).2, "// " ++ toString i⟩

/-- non-deleted operations in depot order -/
def declOps (d : Decl) : List OpDecl := liveOps d.depot

/-- the merged pairs the (last) assembly knows -/
def declMerged (d : Decl) : List (String × String) :=
  if d.reassembled then d.mergedBefore ++ d.mergedAfter else d.mergedBefore

/-- `Mesh._add_vertices` for all of them: the C05 model (slaves = merged pairs known at assembly) -/
def declVA (d : Decl) : C05.VList Corner String × List (List (C05.Vertex Corner)) :=
  C05.assemble closeCorner (C05.slavePatches (declMerged d)) {} ((declOps d).map OpDecl.toC05)

/-- `Block.indexes` of every block -/
def declBlocks (d : Decl) : List (List Nat) := (declVA d).2.map (·.map (·.index))

/-- operation and vertex numbers of every block -/
def declOb (d : Decl) : List (OpDecl × List Nat) := (declOps d).zip (declBlocks d)

def patchesOf (d : Decl) (ob : List (OpDecl × List Nat)) : List PEntry :=
  d.modifyAfter.foldl modifyPatch
    (ob.foldl (fun ps x => addPatches ps x.1 x.2) (d.modifyBefore.foldl modifyPatch []))

def facesOf (ob : List (OpDecl × List Nat)) : List FEntry := ob.foldl (fun fs x => addFaces fs x.1 x.2) []

def edgesOf (ob : List (OpDecl × List Nat)) : List EEntry := ob.foldl (fun es x => addEdges es x.1 x.2) []

def declGeometry (d : Decl) : List GEntry :=
  (if d.reassembled then d.depot.flatMap (·.geometry) else []).foldl addGeometry
    (d.geomAfter.foldl addGeometry
      ((d.depot.flatMap (·.geometry)).foldl addGeometry (d.geomBefore.foldl addGeometry [])))

def blocksOf (ob : List (OpDecl × List Nat)) : List BEntry :=
  ob.zipIdx.map (fun x => blockEntry x.2 x.1.1 x.1.2)

/-- the dictionary, given the vertex list and the vertex numbers of the blocks -/
def dictOf (d : Decl) (vl : C05.VList Corner String) (ob : List (OpDecl × List Nat)) : Dict :=
  { foamFile := d.foamFile, headComment := d.headComment, settings := d.settings,
    geometry := declGeometry d,
    vertices := vl.vertices.map vertexEntry,
    blocks := blocksOf ob,
    edges := edgesOf ob, faces := facesOf ob, patches := patchesOf d ob, default := d.default,
    merged := d.mergedBefore ++ d.mergedAfter, footer := d.footer }

/-- `Mesh.assemble` followed by the calls made after it, as the dictionary that `write` prints -/
def assembleDecl (d : Decl) : Dict :=
  let va := declVA d
  dictOf d va.1 ((declOps d).zip (va.2.map (·.map (·.index))))

/-! ### checks on the dictionary -/

/-- every index (hex corners, edge ends, projected quads, patch quads) refers to a listed vertex -/
def indicesOk (d : Dict) : Bool :=
  let n := d.vertices.length
  d.blocks.all (fun b => b.verts.all (· < n)) && d.edges.all (fun e => e.v1 < n && e.v2 < n) &&
  d.faces.all (fun f => f.quad.all (· < n)) && d.patches.all (fun p => p.quads.all (·.all (· < n)))

def atomsDeep : List Tree → List String
  | [] => []
  | .atom s :: ts => s :: atomsDeep ts
  | _ :: ts => atomsDeep ts

/-- labels used by `project` entries of vertices, edges and faces -/
def labelsUsed (d : Dict) : List String :=
  d.vertices.flatMap (·.proj) ++
  (d.edges.filter (·.kind == "project")).flatMap (fun e => atomsDeep e.payload) ++
  d.faces.map (·.label)

/-- every geometry that something is projected to is defined -/
def geometryOk (d : Dict) : Bool :=
  (labelsUsed d).all (fun l => d.geometry.any (·.name == l))

/-- a quad is a side of a block: `FACE_MAP[orient]` of its vertex list -/
def isSideOfBlock (d : Dict) (q : List Nat) : Bool :=
  d.blocks.any (fun b => CBV.Gen.faceMap.any (fun e => q == e.2.map (fun i => b.verts.getD i 0)))

def quadsOk (d : Dict) : Bool :=
  d.faces.all (fun f => isSideOfBlock d f.quad) && d.patches.all (fun p => p.quads.all (isSideOfBlock d))

/-! ## 4. the debug VTK -/

/-- token stream (whitespace separated words) of `write_vtk`; `pts` are the `str()` of the
    coordinates, `cells` the vertex indices of the blocks -/
def renderVtk (header : List String) (pts : List (List String)) (cells : List (List Nat)) : List String :=
  let n := cells.length
  header ++ ["DATASET", "UNSTRUCTURED_GRID", "POINTS", toString pts.length, "float"] ++ pts.flatten ++
  ["CELLS", toString n, toString (9 * n)] ++ cells.flatMap (fun c => "8" :: c.map toString) ++
  ["CELL_TYPES", toString n] ++ List.replicate n "12" ++
  ["CELL_DATA", toString n, "SCALARS", "block_ids", "float", "1", "LOOKUP_TABLE", "default"] ++
  (List.range n).map toString

/-- reads `k` groups of `m` words -/
def takeGroups : Nat → Nat → List String → Option (List (List String) × List String)
  | 0, _, ws => some ([], ws)
  | k + 1, m, ws =>
      if ws.length < m then none
      else (takeGroups k m (ws.drop m)).map (fun (gs, rest) => (ws.take m :: gs, rest))

def strsToNats : List String → Option (List Nat)
  | [] => some []
  | s :: ss => do
      let n ← s.toNat?
      let r ← strsToNats ss
      some (n :: r)

/-- `8 i0 … i7` groups -/
def decCells : List (List String) → Option (List (List Nat))
  | [] => some []
  | ("8" :: ix) :: cs => do
      let c ← strsToNats ix
      let r ← decCells cs
      some (c :: r)
  | _ :: _ => none

/-- parser of the VTK token stream: points and hexahedra -/
def parseVtk (hdrLen : Nat) (ws : List String) : Option (List (List String) × List (List Nat)) :=
  match ws.drop hdrLen with
  | "DATASET" :: "UNSTRUCTURED_GRID" :: "POINTS" :: np :: "float" :: rest => do
      let np ← np.toNat?
      let (pts, rest) ← takeGroups np 3 rest
      match rest with
      | "CELLS" :: nc :: _ :: rest => do
          let nc ← nc.toNat?
          let (cells, _) ← takeGroups nc 9 rest
          let cells ← decCells cells
          some (pts, cells)
      | _ => none
  | _ => none

/-! ## 5. line protocol

Words of a request are `=text` (text with `%xx` escapes) for strings, decimal numbers, `!` for an
absent optional value.  Lists are length-prefixed. -/

def hexVal (c : Char) : Option Nat :=
  if '0' ≤ c ∧ c ≤ '9' then some (c.toNat - '0'.toNat)
  else if 'a' ≤ c ∧ c ≤ 'f' then some (c.toNat - 'a'.toNat + 10)
  else if 'A' ≤ c ∧ c ≤ 'F' then some (c.toNat - 'A'.toNat + 10)
  else none

def unescapeAux : List Char → Option (List Char)
  | [] => some []
  | '%' :: a :: b :: rest => do
      let x ← hexVal a
      let y ← hexVal b
      let r ← unescapeAux rest
      some (Char.ofNat (16 * x + y) :: r)
  | '%' :: _ => none
  | c :: rest => (unescapeAux rest).map (c :: ·)

def unescape (s : String) : Option String := (unescapeAux s.toList).map String.ofList

def hexDigit (n : Nat) : Char := if n < 10 then Char.ofNat (48 + n) else Char.ofNat (87 + n)

def escape (s : String) : String :=
  String.join (s.toList.map (fun c =>
    if c.isAlphanum || c == '_' || c == '.' || c == '-' || c == '/' || c == '(' || c == ')' || c == '{' ||
        c == '}' || c == ';' || c == '*' || c == '+' || c == ':' || c == ',' then c.toString
    else "%" ++ (hexDigit (c.toNat / 16)).toString ++ (hexDigit (c.toNat % 16)).toString))

/-- a token of the file as a word of the protocol (and back) -/
def Tok.ofString (s : String) : Tok :=
  if s = "(" then .lp else if s = ")" then .rp else if s = "{" then .lb else if s = "}" then .rb
  else if s = ";" then .semi else if s.startsWith "//" then .comment s else .word s

def Tok.toString : Tok → String
  | .lp => "(" | .rp => ")" | .lb => "{" | .rb => "}" | .semi => ";"
  | .word s => s | .comment s => s

abbrev Rd := StateT (List String) Option

def rdWord : Rd String := do
  match (← get) with
  | [] => failure
  | w :: ws => set ws; pure w

def rdNat : Rd Nat := do
  let w ← rdWord
  match w.toNat? with
  | some n => pure n
  | none => failure

def rdStr : Rd String := do
  let w ← rdWord
  if w.startsWith "=" then
    match unescape (w.drop 1).toString with
    | some s => pure s
    | none => failure
  else failure

def rdOptStr : Rd (Option String) := do
  match (← get) with
  | "!" :: ws => set ws; pure none
  | _ => (some <$> rdStr)

def rdBool : Rd Bool := do
  let w ← rdWord
  if w = "1" then pure true else if w = "0" then pure false else failure

def rdRepeat {α : Type} (p : Rd α) : Nat → Rd (List α)
  | 0 => pure []
  | n + 1 => do
      let x ← p
      let xs ← rdRepeat p n
      pure (x :: xs)

def rdList {α : Type} (p : Rd α) : Rd (List α) := do
  let n ← rdNat
  rdRepeat p n

/-- a balanced token list, as trees -/
def rdTrees : Rd (List Tree) := do
  let ws ← rdList rdStr
  match parseTrees (ws.map Tok.ofString) with
  | some ts => pure ts
  | none => failure

def rdRat : Rd (Bool × Rat) := do
  let w ← rdWord
  match parseRat? w with
  | some q => pure (w.startsWith "-", q)
  | none => failure

def rdCorner : Rd Corner := do
  let (nx, x) ← rdRat
  let (ny, y) ← rdRat
  let (nz, z) ← rdRat
  let proj ← rdList rdStr
  pure ⟨⟨x, y, z⟩, [nx, ny, nz], vtkWords ⟨x, y, z⟩ [nx, ny, nz], proj⟩

def rdPre : Rd (Option (String × String)) := do
  match (← get) with
  | "!" :: ws => set ws; pure none
  | _ => do
      let a ← rdStr
      let b ← rdStr
      pure (some (a, b))

def rdNumV3 : Rd NumV3 := do
  let (nx, x) ← rdRat
  let (ny, y) ← rdRat
  let (nz, z) ← rdRat
  pure ⟨⟨x, y, z⟩, [nx, ny, nz]⟩

/-- `R <tokens>` (opaque), `P <x> <y> <z>` (one point), `L <n> <points>` (point list) -/
def rdPayload : Rd Payload := do
  let w ← rdWord
  if w = "R" then .raw <$> rdTrees
  else if w = "P" then .point <$> rdNumV3
  else if w = "L" then .points <$> rdList rdNumV3
  else failure

def rdEdge : Rd EdgeDecl := do
  let repr ← rdStr
  let valid ← rdBool
  let preF ← rdPre
  let fwd ← rdPayload
  let preB ← rdPre
  let bwd ← rdPayload
  pure ⟨repr, valid, preF, fwd.inner, preB, bwd.inner⟩

/-- `I<int>` or `F<rational>` (a leading `-` of the rational is the sign bit) -/
def rdPyNum : Rd PyNum := do
  let w ← rdWord
  if w.startsWith "I" then
    match (w.drop 1).toString.toInt? with
    | some n => pure (.int n)
    | none => failure
  else if w.startsWith "F" then
    let r := (w.drop 1).toString
    match parseRat? r with
    | some q => pure (.flt (r.startsWith "-") q)
    | none => failure
  else failure

def rdDivision : Rd Division := do
  let r ← rdPyNum
  let c ← rdPyNum
  let e ← rdPyNum
  pure ⟨r, c, e⟩

/-- a wire: its corner pair and its `Grading.specification`; the text is printed here -/
def rdWire : Rd ((Nat × Nat × List Tree) × Bool) := do
  let a ← rdNat
  let b ← rdNat
  let ds ← rdList rdDivision
  pure ((a, b, gradingTrees ds), gradingNumsOk ds)

def rdOp : Rd OpDecl := do
  let deleted ← rdBool
  let corners ← rdRepeat rdCorner 8
  let patches ← rdRepeat rdOptStr 6
  let sideProj ← rdRepeat rdOptStr 4
  let bp ← rdOptStr
  let tp ← rdOptStr
  let zone ← rdStr
  -- `str(axis.count)` of the three axes: the numbers come from C01–C04, their text is printed here
  let counts ← natAtoms <$> rdList rdNat
  let simple ← rdBool
  let wg ← rdRepeat rdWire 12
  let edges ← rdRepeat rdEdge 12
  pure ⟨deleted, corners, patches, sideProj, bp, tp, zone, counts, simple, wg.map (·.1), edges, wg.all (·.2)⟩

/-- `EighthSphere.geometry` (all sphere shapes): the `searchableSphere` a sphere shape brings — `origin` and `centre` are
    `vector_format(center_point)`, the radius is `f"{radius}"` (`str(float)`) -/
def sphereGeometry (label : String) (c : NumV3) (radius : PyNum) : GEntry :=
  ⟨label, [[.atom "type", .atom "searchableSphere"], [.atom "origin", pointTree c], [.atom "centre", pointTree c],
    [.atom "radius", .atom radius.str]]⟩

/-- a geometry entry: `=name <n> <property tokens>…` (opaque strings of the user) or `=name SPH <centre> <radius>` (a sphere
    shape: printed here; a radius that fails the validator makes the request ill-formed) -/
def rdGEntry : Rd GEntry := do
  let n ← rdStr
  match (← get) with
  | "SPH" :: ws => do
      set ws
      let c ← rdNumV3
      let r ← rdPyNum
      if !r.ok then failure
      pure (sphereGeometry n c r)
  | _ => do
      let props ← rdList rdTrees
      pure ⟨n, props⟩

def rdEntity : Rd Entity := do
  let ops ← rdList rdOp
  let g ← rdList rdGEntry
  pure ⟨ops, g⟩

def rdPair : Rd (String × String) := do
  let a ← rdStr
  let b ← rdStr
  pure (a, b)

def rdModify : Rd Modify := do
  let n ← rdStr
  let k ← rdStr
  match (← get) with
  | "!" :: ws => set ws; pure ⟨n, k, none⟩
  | _ => do
      let s ← rdList rdTrees
      pure ⟨n, k, some s⟩

/-- a setting: its key and the value as Python holds it — `N` + a number (`int` / `float`: `format_settings` prints
    `f"{value}"`, i.e. `str(int)` / the shortest round-trip repr, printed here) or `S` + the tokens of any other value -/
def rdSetting : Rd (String × List Tree × Bool) := do
  let k ← rdStr
  let w ← rdWord
  if w = "N" then do
    let n ← rdPyNum
    pure (k, [.atom n.str], n.ok)
  else if w = "S" then do
    let v ← rdTrees
    pure (k, v, true)
  else failure

def rdDefault : Rd (Option (String × String)) := do
  match (← get) with
  | "!" :: ws => set ws; pure none
  | _ => (some <$> rdPair)

/-- header and footer come from the generated tables -/
def headerTrees : Option (List Tree × String) :=
  match parseTrees (CBV.Gen.c06Header.map Tok.ofString) with
  | some [.atom "FoamFile", .brace ff, .comment hc] => some (ff, hc)
  | _ => none

def footerComments : Option (List String) :=
  (parseTrees (CBV.Gen.c06Footer.map Tok.ofString)).bind commentsOf

def rdDecl : Rd Decl := do
  let (ff, hc) ← (headerTrees : Option _)
  let ft ← (footerComments : Option _)
  let settings3 ← rdList rdSetting
  -- a setting number that fails the validator is an ill-formed request (never a default value)
  if !settings3.all (·.2.2) then failure
  let settings := settings3.map (fun x => (x.1, x.2.1))
  let gb ← rdList rdGEntry
  let ga ← rdList rdGEntry
  let mb ← rdList rdPair
  let ma ← rdList rdPair
  let dflt ← rdDefault
  let pb ← rdList rdModify
  let pa ← rdList rdModify
  let depot ← rdList rdEntity
  let re ← rdBool
  pure ⟨ff, hc, ft, settings, gb, ga, mb, ma, dflt, pb, pa, depot, re⟩

def showToks (ts : List Tok) : String := " ".intercalate (ts.map (fun t => escape t.toString))

def b2s (b : Bool) : String := if b then "1" else "0"

/-- does the verified parser read the rendering back as the same dictionary (compared through
    the rendering, since `Tree` has no decidable equality here) -/
def roundTripOk (d : Dict) : Bool :=
  match parse (render d) with
  | some d' => render d' == render d && d'.vertices.length == d.vertices.length
  | none => false

/-- `c06.render <declaration>` → flags and the token stream of the file -/
def handleRender (args : List String) : Option String := do
  let (decl, rest) ← rdDecl.run args
  if !rest.isEmpty then none
  let d := assembleDecl decl
  some (s!"ok idx={b2s (indicesOk d)} geom={b2s (geometryOk d)} quads={b2s (quadsOk d)} rt={b2s (roundTripOk d)} num={b2s ((declOps decl).all (·.numsOk))} T " ++
    showToks (render d))

/-- the words `write_vtk` prints before `DATASET` (compared with a probe of the current source in `T_C06_vtk_header`) -/
def vtkHeader : List String := ["#", "vtk", "DataFile", "Version", "2.0", "classy_blocks", "debug", "output", "ASCII"]

/-- `c06.vtk <declaration>` → token stream of the debug VTK -/
def handleVtk (args : List String) : Option String := do
  let (decl, rest) ← rdDecl.run args
  if !rest.isEmpty then none
  let va := declVA decl
  let pts := va.1.vertices.map (·.pos.vtk)
  let cells := va.2.map (·.map (·.index))
  let out := renderVtk vtkHeader pts cells
  let back := match parseVtk vtkHeader.length out with
    | some (p, c) => p == pts && c == cells
    | none => false
  let nums := va.1.vertices.all (fun v => vtkNumsOk v.pos.pos v.pos.neg)
  some (s!"ok rt={b2s back} num={b2s nums} T " ++ " ".intercalate (out.map escape))

/-- `c06.parse <tokens of a file>` → does it parse as a blockMeshDict; sizes and flags -/
def handleParse (args : List String) : Option String := do
  let toks ← args.mapM (fun w => (unescape w).map Tok.ofString)
  match parse toks with
  | some d =>
      some (s!"ok v={d.vertices.length} b={d.blocks.length} e={d.edges.length} f={d.faces.length} " ++
        s!"p={d.patches.length} g={d.geometry.length} idx={b2s (indicesOk d)} geom={b2s (geometryOk d)} " ++
        s!"quads={b2s (quadsOk d)} same={b2s (render d == toks)}")
  | none => some "noparse"

/-- first index at which two token lists differ -/
def firstDiff : List Tok → List Tok → Nat → Option Nat
  | [], [], _ => none
  | a :: as, b :: bs, i => if a == b then firstDiff as bs (i + 1) else some i
  | _, _, i => some i

/-- `c06.file =<text of the written file> <declaration>` → everything `c06.render` answers (the declaration is assembled once)
    and, on the raw text tokenized HERE: `same=` the tokens of the file equal the model's rendering (`at=` first difference),
    `wf=` every rendered token is well-formed (so `T_C06_lex_unlex` applies to the rendering), `relex=` tokenizing the
    un-tokenized rendering gives the rendering back (run-time instance); then the token stream of the rendering -/
def handleFile (args : List String) : Option String :=
  match args with
  | [] => none
  | t :: rest => do
      if !t.startsWith "=" then none
      let text ← unescape (t.drop 1).toString
      let (decl, extra) ← rdDecl.run rest
      if !extra.isEmpty then none
      let d := assembleDecl decl
      let want := render d
      let got := lexText text.toList
      let at_ := match firstDiff got want 0 with | some i => toString i | none => "-"
      some (s!"ok idx={b2s (indicesOk d)} geom={b2s (geometryOk d)} quads={b2s (quadsOk d)} rt={b2s (roundTripOk d)} " ++
        s!"num={b2s ((declOps decl).all (·.numsOk))} same={b2s (got == want)} wf={b2s (want.all Tok.wf)} " ++
        s!"relex={b2s (lexText (unlex want) == want)} at={at_} T " ++ showToks want)

def handle (op : String) (args : List String) : Option String :=
  match op with
  | "c06.file" => handleFile args
  | "c06.render" => handleRender args
  | "c06.vtk" => handleVtk args
  | "c06.parse" => handleParse args
  | _ => none

end CBV.C06
