/-
C16 — model of the curves (construct/curves/*.py) and of curve edges (items/edges/curve.py):

* `DiscreteCurve`: `_check_param`, `get_point`, `discretize` (slice semantics, flip for reversed
  parameters), `get_length` (polyline sum, 0 for a single point), `get_closest_param` (first minimum)
* `InterpolatorBase.params` (normalised chord length), `LinearInterpolator` (scipy `interp1d`, linear),
  `InterpolatedCurveBase.get_length` as repaired (polyline through the curve points at both parameters and
  all interpolation points whose parameter lies strictly between them, in either order)
* `FunctionCurveBase.discretize` (`np.linspace` of the parameter range, end point exact)
* `OnCurveEdge.point_array` (`discretize(...)[1:-1]`), `SplineEdge.length`

Generic over the point type `α` with a distance oracle `d : α → α → Rat` wherever no coordinates are needed.
Spline interpolation and `scipy.optimize.minimize` are oracles of the implementation (not modelled).
Core Lean only.
-/
import CBV.Model.Common
import CBV.Model.C08

namespace CBV.C16

open CBV.C08 (Vec sqrtQ witOk)

/-! ### polylines over a distance oracle -/

/-- `functions.polyline_length` over a distance oracle: the sum of the distances of consecutive points -/
def polyLenD {α : Type} (d : α → α → Rat) : List α → Rat
  | p :: q :: rest => d p q + polyLenD d (q :: rest)
  | _ => 0

/-! ### DiscreteCurve -/

/-- `CurveBase._check_param` with `bounds = (0, len - 1)` followed by `int(param)`; `none` = `ValueError` -/
def checkParam (n : Nat) (p : Rat) : Option Nat :=
  if 0 ≤ p ∧ p ≤ ((n : Int) - 1 : Int) then some p.floor.toNat else none

/-- `array[i : j + 1]` -/
def slice {α : Type} (pts : List α) (i j : Nat) : List α := (pts.drop i).take (j + 1 - i)

/-- `DiscreteCurve.discretize(param_from, param_to)` -/
def discretize {α : Type} (pts : List α) (pf pt : Rat) : Option (List α) := do
  let i ← checkParam pts.length pf
  let j ← checkParam pts.length pt
  -- param_start = int(min(param_from, param_to)); param_end = int(max(param_from, param_to))
  if pf > pt then some (slice pts j i).reverse else some (slice pts i j)

/-- `DiscreteCurve.get_point(param)` -/
def getPoint {α : Type} (pts : List α) (p : Rat) : Option α := do
  let i ← checkParam pts.length p
  pts[i]?

/-- `DiscreteCurve.get_length(param_from, param_to)` (as repaired: a single point has length 0) -/
def getLength {α : Type} (d : α → α → Rat) (pts : List α) (pf pt : Rat) : Option Rat :=
  (discretize pts pf pt).map (polyLenD d)

/-- index of the first minimum (`np.argmin`) -/
def argminAux : List Rat → Nat → Nat → Rat → Nat
  | [], _, best, _ => best
  | x :: xs, i, best, bx => if x < bx then argminAux xs (i + 1) i x else argminAux xs (i + 1) best bx

def argmin : List Rat → Nat
  | [] => 0
  | x :: xs => argminAux xs 1 0 x

/-- `DiscreteCurve.get_closest_param(point)`: `dist` is the distance of each curve point to the query -/
def closestParam {α : Type} (dist : α → Rat) (pts : List α) : Nat := argmin (pts.map dist)

/-! ### function curves: `np.linspace` discretisation -/

/-- `np.linspace(a, b, num=n)` (n ≥ 2): `a + i*step`, the end point is set to `b` exactly -/
def linspace (a b : Rat) (n : Nat) : List Rat :=
  ((List.range (n - 1)).map (fun (i : Nat) => a + (i : Rat) * ((b - a) / ((n : Rat) - 1)))) ++ [b]

/-- `FunctionCurveBase.discretize(param_from, param_to, count)` for a curve function `f` -/
def discretizeF {α : Type} (f : Rat → α) (a b : Rat) (n : Nat) : List α := (linspace a b n).map f

/-- `CurveBase._get_params(param_from, param_to)` of a curve with bounds `(lo, hi)`: `None` (and only `None`) is replaced by
    the bound, then both are checked (`_check_param`); `none` = `ValueError` -/
def getParamsF (lo hi : Rat) (pf pt : Option Rat) : Option (Rat × Rat) :=
  let a := pf.getD lo
  let b := pt.getD hi
  if lo ≤ a ∧ a ≤ hi ∧ lo ≤ b ∧ b ≤ hi then some (a, b) else none

/-- `FunctionCurveBase.discretize(param_from, param_to, count)` including its argument handling -/
def discretizeFB {α : Type} (f : Rat → α) (lo hi : Rat) (pf pt : Option Rat) (n : Nat) : Option (List α) :=
  (getParamsF lo hi pf pt).map (fun ab => discretizeF f ab.1 ab.2 n)

/-- `AnalyticCurve.get_length(param_from, param_to)`: the polyline through a 100-point discretisation -/
def getLengthA {α : Type} (d : α → α → Rat) (f : Rat → α) (lo hi : Rat) (pf pt : Option Rat) : Option Rat :=
  (discretizeFB f lo hi pf pt 100).map (polyLenD d)

/-! ### interpolated curves -/

/-- running sums `[c + d0, c + d0 + d1, …]` (`np.cumsum`) -/
def cumsumFrom (c : Rat) : List Rat → List Rat
  | [] => []
  | d :: ds => (c + d) :: cumsumFrom (c + d) ds

def total (ds : List Rat) : Rat := ds.foldr (· + ·) 0

/-- `InterpolatorBase.params` with `equalize=True`: `[0] ++ cumsum(lengths) / lengths[-1]`;
    `ds` are the distances of consecutive interpolation points -/
def knotParams (ds : List Rat) : List Rat := 0 :: (cumsumFrom 0 ds).map (· / total ds)

/-- `InterpolatorBase.params` with `equalize=False`: `np.linspace(0, 1, num=len(points))` -/
def knotParamsEven (n : Nat) : List Rat := (List.range n).map (fun (i : Nat) => (i : Rat) / ((n : Rat) - 1))

/-- the parameters at which `InterpolatedCurveBase.get_length(a, b)` evaluates the curve (repaired code):
    `[lower, *[t for t in params if lower < t < upper], upper]` -/
def lengthParams (ts : List Rat) (a b : Rat) : List Rat :=
  let lo := min a b
  let hi := max a b
  lo :: (ts.filter (fun t => decide (lo < t) && decide (t < hi))) ++ [hi]

/-- `InterpolatedCurveBase.get_length` for a curve function `f` with knot parameters `ts`; `none` = out of bounds (0, 1) -/
def getLengthI {α : Type} (d : α → α → Rat) (f : Rat → α) (ts : List Rat) (a b : Rat) : Option Rat :=
  if 0 ≤ a ∧ a ≤ 1 ∧ 0 ≤ b ∧ b ≤ 1 then some (polyLenD d ((lengthParams ts a b).map f)) else none

abbrev V := Vec Rat
instance : Inhabited V := ⟨⟨0, 0, 0⟩⟩

def lerpV (p q : V) (lam : Rat) : V :=
  ⟨p.x + lam * (q.x - p.x), p.y + lam * (q.y - p.y), p.z + lam * (q.z - p.z)⟩

/-- `scipy.interpolate.interp1d(params, points, axis=0)` (linear, `bounds_error=True`): `none` outside the knots -/
def lerp : List Rat → List V → Rat → Option V
  | t0 :: t1 :: ts, p0 :: p1 :: ps, t =>
      if t0 ≤ t ∧ t ≤ t1 then some (lerpV p0 p1 ((t - t0) / (t1 - t0))) else lerp (t1 :: ts) (p1 :: ps) t
  | _, _, _ => none

/-! ### analytic curves: the functions of `LineCurve` and `CircleCurve`, `AnalyticCurve.get_length` (round 6) -/

/-- `LineCurve._line_function(t)`: `point_1 + (point_2 - point_1) * t` -/
def linePoint (p1 p2 : V) (t : Rat) : V := lerpV p1 p2 t

/-- `CircleCurve._circle_function(t)` = `f.rotate(rim, t, normal, origin)` for the unit normal `n`, with `(ct, st)` standing for
    `(cos t, sin t)` (Rodrigues' formula): `origin + ct·v + st·(n × v) + (1 − ct)(n·v)·n`, `v = rim − origin` -/
def circlePoint (O rim n : V) (ct st : Rat) : V :=
  Vec.add O (Vec.add (Vec.add (Vec.smul ct (Vec.sub rim O)) (Vec.smul st (Vec.cross n (Vec.sub rim O))))
    (Vec.smul ((1 - ct) * Vec.dot n (Vec.sub rim O)) n))

/-- squared distance from the query `q` to the circle of `CircleCurve(O, rim, n)`, in closed form (`T_C16_circle_closest_real`:
    the closest circle point is the one at the query's own angle): `(R − ρ)² + h²` with `ρ` the distance of `q` from the axis,
    `h` its height over the circle's plane; `wRρ` witnesses `sqrt(R²ρ²)`.  Returns `(R²ρ², (R − ρ)² + h²)`. -/
def circleMinDist2 (O rim n q : V) (wRρ : Rat) : Rat × Rat :=
  let v := Vec.sub rim O
  let k := Vec.dot n v
  let centre := Vec.add O (Vec.smul k n)
  let u := Vec.sub q centre
  let h := Vec.dot u n
  let w := Vec.sub u (Vec.smul h n)
  let R2 := Vec.nsq (Vec.sub v (Vec.smul k n))
  let ρ2 := Vec.nsq w
  (R2 * ρ2, R2 + ρ2 - 2 * wRρ + h * h)

/-! ### closest parameter of the linear interpolant (repaired code: exact projection to every segment) -/

def dist2 (p q : V) : Rat := Vec.nsq (Vec.sub p q)

/-- `np.clip(x, 0, 1)` -/
def clip01 (x : Rat) : Rat := if x < 0 then 0 else if 1 < x then 1 else x

/-- relative position on the segment `p0 → p1` of the projection of `q`, limited to the segment:
    `clip(sum((point - start) * vector) / where(length > 0, length, 1), 0, 1)` -/
def segRatio (p0 p1 q : V) : Rat :=
  let v := Vec.sub p1 p0
  let l := Vec.nsq v
  clip01 (Vec.dot (Vec.sub q p0) v / (if 0 < l then l else 1))

/-- squared distance of `q` to the segment `p0 → p1` -/
def segDist2 (p0 p1 q : V) : Rat := dist2 (lerpV p0 p1 (segRatio p0 p1 q)) q

/-- the segments of a polyline -/
def segments (ps : List V) : List (V × V) := ps.zip ps.tail

/-- index of the segment that is closest to `q` (`np.argmin`, first minimum) -/
def closestSeg (ps : List V) (q : V) : Nat := argmin ((segments ps).map (fun s => segDist2 s.1 s.2 q))

/-- `LinearInterpolatedCurve.get_closest_param(point)` -/
def closestParamL (ts : List Rat) (ps : List V) (q : V) : Rat :=
  let i := closestSeg ps q
  let t0 := ts.getD i 0
  let t1 := ts.getD (i + 1) 0
  t0 + segRatio (ps.getD i default) (ps.getD (i + 1) default) q * (t1 - t0)

/-! ### curve edges -/

/-- `OnCurveEdge.point_array`: `data.discretize(param_start, param_end)[1:-1]` -/
def pointArray {α : Type} (disc : List α) : List α := disc.tail.dropLast

/-- `SplineEdge.length`: `DiscreteCurve([vertex_1, *point_array, vertex_2]).length` -/
def splineEdgeLength {α : Type} (d : α → α → Rat) (v1 v2 : α) (pts : List α) : Rat :=
  polyLenD d (v1 :: pts ++ [v2])

/-! ### line protocol -/

def parseVec? (s : String) : Option V := (parseV3? s).map (fun v => ⟨v.x, v.y, v.z⟩)
def showVec (v : V) : String := s!"{showRat v.x},{showRat v.y},{showRat v.z}"
def parseVecs? (s : String) : Option (List V) := (s.splitOn ";").mapM parseVec?

/-- distance oracle of the driver: a double-precision square root of the exact squared distance (re-checked) -/
def distQ (p q : V) : Rat := sqrtQ (dist2 p q)

def distOk (eps : Rat) (l : List V) : Bool :=
  (l.zip l.tail).all (fun (p, q) => witOk (distQ p q) (dist2 p q) eps)

/-- `c16.disc <n> a b` → indices of `discretize(a, b)` of an n-point discrete curve | `reject` -/
def handleDisc (args : List String) : Option String :=
  match args with
  | [n, a, b] => do
      let n ← parseNat? n; let a ← parseRat? a; let b ← parseRat? b
      some (match discretize (List.range n) a b with
        | some l => showNatList l
        | none => "reject")
  | _ => none

/-- `c16.dpoint <n> a` → index of `get_point(a)` | `reject` -/
def handleDPoint (args : List String) : Option String :=
  match args with
  | [n, a] => do
      let n ← parseNat? n; let a ← parseRat? a
      some (match getPoint (List.range n) a with
        | some i => toString i
        | none => "reject")
  | _ => none

/-- `c16.dlen p0;p1;… a b eps` → `ok <length>` | `reject` | `badwit` -/
def handleDLen (args : List String) : Option String :=
  match args with
  | [pts, a, b, eps] => do
      let pts ← parseVecs? pts; let a ← parseRat? a; let b ← parseRat? b; let eps ← parseRat? eps
      match discretize pts a b with
      | none => some "reject"
      | some l => if distOk eps l then some s!"ok {showRat (polyLenD distQ l)}" else some "badwit"
  | _ => none

/-- `c16.dclosest p0;p1;… q` → index of the closest point (squared distances, exact) -/
def handleDClosest (args : List String) : Option String :=
  match args with
  | [pts, q] => do
      let pts ← parseVecs? pts; let q ← parseVec? q
      some (toString (closestParam (fun p => dist2 p q) pts))
  | _ => none

/-- knots of the linear interpolant through `pts` (chord-length parameters from the distance oracle) -/
def knotsOf (pts : List V) : List Rat := knotParams ((pts.zip pts.tail).map (fun (p, q) => distQ p q))

/-- knots for `equalize=True` (chord length, from the distance oracle) or `equalize=False` (evenly spaced) -/
def knotsFor (even : Bool) (pts : List V) : List Rat := if even then knotParamsEven pts.length else knotsOf pts

/-- `c16.ipoint p0;p1;… t eps` → `ok <point at t>` | `reject` | `badwit` (LinearInterpolatedCurve.get_point) -/
def handleIPoint (even : Bool) (args : List String) : Option String :=
  match args with
  | [pts, t, eps] => do
      let pts ← parseVecs? pts; let t ← parseRat? t; let eps ← parseRat? eps
      if !distOk eps pts then some "badwit"
      else match lerp (knotsFor even pts) pts t with
        | some p => some s!"ok {showVec p}"
        | none => some "reject"
  | _ => none

/-- `c16.ilen p0;p1;… a b eps` → `ok <length> <number of break points>` | `reject` | `badwit` (LinearInterpolatedCurve.get_length) -/
def handleILen (even : Bool) (args : List String) : Option String :=
  match args with
  | [pts, a, b, eps] => do
      let pts ← parseVecs? pts; let a ← parseRat? a; let b ← parseRat? b; let eps ← parseRat? eps
      if !distOk eps pts then some "badwit"
      else
        let ts := knotsFor even pts
        if ¬ (0 ≤ a ∧ a ≤ 1 ∧ 0 ≤ b ∧ b ≤ 1) then some "reject"
        else
          let ps := (lengthParams ts a b).mapM (lerp ts pts)
          match ps with
          | none => some "reject"
          | some l =>
              if distOk eps l then some s!"ok {showRat (polyLenD distQ l)} {l.length - 2}" else some "badwit"
  | _ => none

/-- `c16.lclosest p0;p1;… q eps` → `ok <segment> <parameter> <squared distance>` | `badwit`
    (LinearInterpolatedCurve.get_closest_param; the parameter uses the chord-length knots of the distance oracle) -/
def handleLClosest (even : Bool) (args : List String) : Option String :=
  match args with
  | [pts, q, eps] => do
      let pts ← parseVecs? pts; let q ← parseVec? q; let eps ← parseRat? eps
      if pts.length < 2 then none
      else if !distOk eps pts then some "badwit"
      else
        let i := closestSeg pts q
        some s!"ok {i} {showRat (closestParamL (knotsFor even pts) pts q)} {showRat (segDist2 (pts.getD i default) (pts.getD (i + 1) default) q)}"
  | _ => none

/-- `c16.linspace a b n` → the parameter list of `FunctionCurveBase.discretize` -/
def handleLinspace (args : List String) : Option String :=
  match args with
  | [a, b, n] => do
      let a ← parseRat? a; let b ← parseRat? b; let n ← parseNat? n
      if n < 2 then none else some (showRatList (linspace a b n))
  | _ => none

def parseOptRat? (s : String) : Option (Option Rat) := if s = "none" then some none else (parseRat? s).map some

/-- `c16.params lo hi <a|none> <b|none> n` → `ok a b <linspace a b n>` | `reject` (argument handling of function curves) -/
def handleParams (args : List String) : Option String :=
  match args with
  | [lo, hi, a, b, n] => do
      let lo ← parseRat? lo; let hi ← parseRat? hi; let a ← parseOptRat? a; let b ← parseOptRat? b; let n ← parseNat? n
      if n < 2 then none
      else some (match getParamsF lo hi a b with
        | some (x, y) => s!"ok {showRat x} {showRat y} {showRatList (linspace x y n)}"
        | none => "reject")
  | _ => none

/-- `c16.linelen p1 p2 lo hi <a|none> <b|none> eps` → `ok <length>` | `reject` | `badwit`
    (`AnalyticCurve.get_length` of a `LineCurve`: argument handling, 100 samples, polyline) -/
def handleLineLen (args : List String) : Option String :=
  match args with
  | [p1, p2, lo, hi, a, b, eps] => do
      let p1 ← parseVec? p1; let p2 ← parseVec? p2; let lo ← parseRat? lo; let hi ← parseRat? hi
      let a ← parseOptRat? a; let b ← parseOptRat? b; let eps ← parseRat? eps
      match discretizeFB (linePoint p1 p2) lo hi a b 100 with
      | none => some "reject"
      | some l => if distOk eps l then some s!"ok {showRat (polyLenD distQ l)}" else some "badwit"
  | _ => none

/-- `c16.circle O rim n ct st` → `ok <curve point>` (`CircleCurve.get_point` with `(ct, st)` for `(cos t, sin t)`) -/
def handleCircle (args : List String) : Option String :=
  match args with
  | [o, rim, n, ct, st] => do
      let o ← parseVec? o; let rim ← parseVec? rim; let n ← parseVec? n; let ct ← parseRat? ct; let st ← parseRat? st
      some s!"ok {showVec (circlePoint o rim n ct st)}"
  | _ => none

/-- `c16.vcircle O rim n q ct st eps` → `ok <squared distance of the curve point at (ct, st) to q> <squared distance of q to the circle>`
    | `badwit` (validator of `CircleCurve.get_closest_param`: the answer against the analytic optimum) -/
def handleVCircle (args : List String) : Option String :=
  match args with
  | [o, rim, n, q, ct, st, eps] => do
      let o ← parseVec? o; let rim ← parseVec? rim; let n ← parseVec? n; let q ← parseVec? q
      let ct ← parseRat? ct; let st ← parseRat? st; let eps ← parseRat? eps
      let x := (circleMinDist2 o rim n q 0).1
      let w := sqrtQ x
      if !witOk w x eps then some "badwit"
      else some s!"ok {showRat (dist2 (circlePoint o rim n ct st) q)} {showRat (circleMinDist2 o rim n q w).2}"
  | _ => none

/-- `c16.parray <k>` → indices kept by `point_array` of a k-point discretisation -/
def handlePArray (args : List String) : Option String :=
  match args with
  | [k] => do
      let k ← parseNat? k
      some (showNatList (pointArray (List.range k)))
  | _ => none

def handle (op : String) (args : List String) : Option String :=
  match op with
  | "c16.disc" => handleDisc args
  | "c16.dpoint" => handleDPoint args
  | "c16.dlen" => handleDLen args
  | "c16.dclosest" => handleDClosest args
  | "c16.ipoint" => handleIPoint false args
  | "c16.ilen" => handleILen false args
  | "c16.ipointE" => handleIPoint true args
  | "c16.ilenE" => handleILen true args
  | "c16.lclosestE" => handleLClosest true args
  | "c16.lclosest" => handleLClosest false args
  | "c16.linspace" => handleLinspace args
  | "c16.parray" => handlePArray args
  | "c16.params" => handleParams args
  | "c16.linelen" => handleLineLen args
  | "c16.circle" => handleCircle args
  | "c16.vcircle" => handleVCircle args
  | _ => none

end CBV.C16
