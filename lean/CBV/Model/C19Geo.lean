/-
C19 (round 6) — where the addressed entities *are*: the point generator of `Grid.__init__`
(`np.linspace` on both directions, the four corner points of every face), the generic loop of
`TransformedStack.__init__` for ANY sketch and ANY transformation, `ExtrudedStack` (a translation by
`amount / repeats` per tier) over ℚ, and `Stack.chop`.
Core Lean only.
-/
import CBV.Model.C19Base

namespace CBV.C19

/-! ### `np.linspace` and the points of `Grid` -/

/-- `np.linspace(a, b, num = n + 1)[i]` for `i ≤ n`: `step = (b - a) / n`, `y = arange(num) * step + a`, and the last entry
    is overwritten with `b` (`endpoint=True`, `num > 1`) -/
def linspace (a b : Rat) (n i : Nat) : Rat :=
  if n ≠ 0 ∧ i = n then b else (i : Rat) * ((b - a) / (n : Rat)) + a

/-- the arguments of `Grid(point_1, point_2, count_1, count_2)` (only x and y of the points are read) -/
structure GridArgs where
  x0 : Rat
  y0 : Rat
  x1 : Rat
  y1 : Rat
  nx : Nat
  ny : Nat

/-- `[coords_1[a], coords_2[b], 0]` -/
def nodePos (g : GridArgs) (p : Nat × Nat) : V3 :=
  ⟨linspace g.x0 g.x1 g.nx p.1, linspace g.y0 g.y1 g.ny p.2, 0⟩

/-- the `points` list of the face made in the inner loop for `(ix, iy)` (`Face3.nodes` holds the index offsets) -/
def facePts (g : GridArgs) (f : Face3) : List V3 := f.nodes.map (nodePos g)

/-- `Grid(…).grid` with every face given by its four points -/
def gridFaces (g : GridArgs) : List (List (List V3)) := (gridSketch g.nx g.ny 0).map (·.map (facePts g))

/-! ### `TransformedStack.__init__` for any sketch and any transformation -/

/-- the loop of `TransformedStack.__init__` (`repeats` turns) on a sketch given by its `grid`; `τ` is
    `sketch.copy().transform(end_transforms)` on one face. Every shape is the nested list of (bottom face, top face). -/
def tstackLoop {α : Type} (τ : α → α) :
    Nat → List (List α) → List (List (List (α × α))) → Option (List (List (List (α × α))))
  | 0, _, shapes => some shapes
  | n + 1, s1, shapes =>
    match loftedGrid s1 (s1.map (·.map τ)) with
    | some g => tstackLoop τ n (s1.map (·.map τ)) (shapes ++ [g])
    | none => none

def tstack {α : Type} (τ : α → α) (repeats : Nat) (base : List (List α)) : Option (List (List (List (α × α)))) :=
  tstackLoop τ repeats base []

/-- `tr.Translation(v)` on the points of a face -/
def translate (v : V3) (pts : List V3) : List V3 := pts.map (· + v)

/-- `ExtrudedStack(Grid(…), amount, repeats)` with `amount` a vector: `extrude_vector = np.asarray(amount) / repeats`
    (a float amount is `base.normal * amount / repeats`: the same with `amount = normal * amount`) -/
def extrudedStack (g : GridArgs) (amount : V3) (repeats : Nat) : Option (List (List (List (List V3 × List V3)))) :=
  tstack (translate (V3.smul (1 / (repeats : Rat)) amount)) repeats (gridFaces g)

/-! ### `Stack.chop` -/

/-- `Stack.chop(**kwargs)`: `for shape in self.shapes: shape.grid[0][0].chop(2, **kwargs)`; the operations that receive the
    chop, in order; `none` = IndexError -/
def stackChop {β : Type} (shapes : List (List (List β))) : Option (List β) :=
  allSome (shapes.map (fun g => (g[0]?).bind (·[0]?)))

/-! ### line protocol -/

def showV (a : V3) : String := s!"{showRat a.x}_{showRat a.y}_{showRat a.z}"
def showPts (pts : List V3) : String := ";".intercalate (pts.map showV)

def handleGeo (op : String) (args : List String) : Option String :=
  match op, args with
  | "c19.geo", [x0, y0, x1, y1, nx, ny, nz, v] => do
      -- every operation of `ExtrudedStack(Grid((x0,y0),(x1,y1),nx,ny), v, nz).grid`: bottom points | top points
      let x0 ← parseRat? x0; let y0 ← parseRat? y0; let x1 ← parseRat? x1; let y1 ← parseRat? y1
      let nx ← nx.toNat?; let ny ← ny.toNat?; let nz ← nz.toNat?; let v ← parseV3? v
      if nz = 0 then none
      match extrudedStack ⟨x0, y0, x1, y1, nx, ny⟩ v nz with
      | some g => some (showList (g.map (fun sh => showList (sh.map (fun row =>
          showList (row.map (fun o => showPts o.1 ++ "|" ++ showPts o.2)))))))
      | none => some "IndexError"
  | "c19.chop", [nx, ny, nz] => do
      let nx ← nx.toNat?; let ny ← ny.toNat?; let nz ← nz.toNat?
      let g ← stackGrid nx ny nz
      match stackChop g with
      | some l => some (showList (l.map showLoft))
      | none => some "IndexError"
  | _, _ => none

end CBV.C19
