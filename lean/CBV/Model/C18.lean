/-
C18 — executable model of the vertex finders (modify/find/finder.py, geometric.py, shape.py,
util/functions.py: is_point_on_plane) and of the view-point re-orienter
(modify/reorient/viewpoint.py, as it is after the repairs: result check, handedness swap, 60° limit
between the two triangles of a face).
Core Lean only.  Square roots never appear: every comparison of the code that involves a norm
or a unit vector is replaced by the equivalent comparison of squares (sign aware).
-/
import CBV.Model.Common
import CBV.Gen.Tables
import CBV.Gen.TC18

namespace CBV.C18

/-! ## finders -/

/-- `constants.TOL` (exact rational image of the float, from the generated table). -/
def tol : Rat := mkRat (CBV.Gen.c18Tol.1 : Int) CBV.Gen.c18Tol.2

def dist2 (a b : V3) : Rat := V3.norm2 (a - b)

/-- `f.norm(vertex.position - position) < radius` (never true for a radius ≤ 0). -/
def inSphere (c : V3) (r : Rat) (v : V3) : Prop := 0 < r ∧ dist2 v c < r * r

instance (c : V3) (r : Rat) (v : V3) : Decidable (inSphere c r v) := by unfold inSphere; infer_instance

/-- `f.is_point_on_plane(origin, normal, point)`:
    `norm(origin - point) < TOL` (coincident-origin shortcut) or `|dot(point - origin, unit(normal))| < TOL`.
    For `normal = 0` the code computes `nan < TOL`, which is false — so is `0 < 0`. -/
def onPlane (o n v : V3) : Prop :=
  dist2 o v < tol * tol ∨ V3.dot (v - o) n * V3.dot (v - o) n < tol * tol * V3.norm2 n

instance (o n v : V3) : Decidable (onPlane o n v) := by unfold onPlane; infer_instance

/-- A finder is a filter over the vertex list; the answer is the list of vertex indices. -/
def findIdx (p : V3 → Bool) (vs : List V3) : List Nat :=
  (List.range vs.length).filter (fun i => p (vs.getD i V3.zero))

/-- `GeometricFinder.find_in_sphere` (`radius = none` is the default `TOL`). -/
def findInSphere (vs : List V3) (c : V3) (r : Option Rat) : List Nat :=
  findIdx (fun v => decide (inSphere c (r.getD tol) v)) vs

/-- `GeometricFinder.find_on_plane`. -/
def findOnPlane (vs : List V3) (o n : V3) : List Nat :=
  findIdx (fun v => decide (onPlane o n v)) vs

/-- two positions are the same to the merge tolerance: `f.norm(a - b) < TOL` -/
def near (a b : V3) : Prop := dist2 a b < tol * tol

instance (a b : V3) : Decidable (near a b) := by unfold near; infer_instance

/-- `RoundSolidFinder._find_from_points`: every vertex within TOL of one of the points. -/
def findFromPoints (vs : List V3) (ps : List V3) : List Nat :=
  findIdx (fun v => ps.any (fun p => decide (near v p))) vs

/-- A round sketch as far as the finder is concerned (generated table entry). -/
structure Sketch where
  name : String
  quads : List (List Nat)
  core : List Nat
  shell : List Nat
  r2 : List Nat
  deriving Repr, DecidableEq

def Sketch.ofEntry (e : String × List (List Nat) × List Nat × List Nat × List Nat) : Sketch :=
  ⟨e.1, e.2.1, e.2.2.1, e.2.2.2.1, e.2.2.2.2⟩

def sketches : List Sketch := CBV.Gen.c18Sketches.map Sketch.ofEntry

def sketchOf (name : String) : Option Sketch := sketches.find? (fun s => s.name == name)

/-- point numbers of all points of the core faces (`_find_from_faces(sketch.core)`) -/
def Sketch.corePts (s : Sketch) : List Nat := s.core.flatMap (fun f => s.quads.getD f [])

/-- point numbers of `face.points[1:3]` of the shell faces (`find_shell` after the repair) -/
def Sketch.shellOuterPts (s : Sketch) : List Nat :=
  s.shell.flatMap (fun f => ((s.quads.getD f []).drop 1).take 2)

def pickPts (pts : List V3) (idx : List Nat) : List V3 := idx.map (fun i => pts.getD i V3.zero)

/-- `RoundSolidFinder.find_core` on the end face whose sketch points are `pts`. -/
def findCore (vs : List V3) (s : Sketch) (pts : List V3) : List Nat :=
  findFromPoints vs (pickPts pts s.corePts)

/-- `RoundSolidFinder.find_shell`. -/
def findShell (vs : List V3) (s : Sketch) (pts : List V3) : List Nat :=
  findFromPoints vs (pickPts pts s.shellOuterPts)

/-! ### a finder that outlives changes of the mesh (history)

A finder object holds the mesh, not a copy (or an alias) of its vertex list: every query reads `mesh.vertices` anew.
The history model makes the vertex list of the mesh explicit: vertices are moved in place, a re-assembly
(`Mesh.backport()`, `Mesh.clear()` + `assemble()`, with or without deleted blocks) replaces the whole list. -/

inductive MeshEvent where
  | move (k : Nat) (p : V3)            -- `mesh.vertices[k].move_to(p)`
  | reassemble (vs : List V3)          -- the vertices of the new assembly
  deriving Repr

def MeshEvent.apply (vs : List V3) : MeshEvent → List V3
  | .move k p => vs.set k p
  | .reassemble vs' => vs'

/-- the vertex list of the mesh after a history of events -/
def meshAfter (vs : List V3) (es : List MeshEvent) : List V3 := es.foldl MeshEvent.apply vs

/-- `finder.find_in_sphere(c, r)` asked after the history `es` (finder created before it) -/
def findInSphereAfter (vs : List V3) (es : List MeshEvent) (c : V3) (r : Option Rat) : List Nat :=
  findInSphere (meshAfter vs es) c r

def findOnPlaneAfter (vs : List V3) (es : List MeshEvent) (o n : V3) : List Nat :=
  findOnPlane (meshAfter vs es) o n

/-! ### what "core" and "outer rim" mean, independently of the quad tables -/

def Sketch.nPts (s : Sketch) : Nat := s.r2.length

def Sketch.rMax (s : Sketch) : Nat := s.r2.foldl max 0

/-- point `k` lies on the outer rim of the sketch: at the largest distance from the centre (within 0.1 %) -/
def Sketch.isRim (s : Sketch) (k : Nat) : Bool := decide (k < s.nPts) && decide (999 * s.rMax ≤ 1000 * s.r2.getD k 0)

/-- a solid two-ring sketch: it has a core and every face belongs to the core or to the shell -/
def Sketch.solid (s : Sketch) : Bool := !s.core.isEmpty && s.core.length + s.shell.length == s.quads.length

/-- the table facts the round-shape finder relies on: the points `[1:3]` of the shell faces are exactly the rim
    points, no core point lies on the rim and, for solid sketches, every other point belongs to the core -/
def shapeOk (s : Sketch) : Bool :=
  (List.range s.nPts).all (fun k =>
      (s.shellOuterPts.contains k == s.isRim k) && !(s.corePts.contains k && s.isRim k)
        && (!s.solid || s.corePts.contains k || s.isRim k))
    && s.shellOuterPts.all (fun k => decide (k < s.nPts)) && s.corePts.all (fun k => decide (k < s.nPts))

/-! ### a finder session: queries interleaved with changes of the mesh

One finder object (`GeometricFinder` / `RoundSolidFinder`, created once) and everything that can happen between its
queries.  The state is the vertex list the mesh holds *now*; a re-assembly replaces it (what the new assembly contains
is the business of the assembly model, here it is an argument). -/

inductive SessOp where
  | move (k : Nat) (p : V3)                    -- `mesh.vertices[k].move_to(p)`
  | reassemble (vs : List V3)                  -- `mesh.backport()` / `delete(); clear(); assemble()`
  | sphere (c : V3) (r : Option Rat)           -- `finder.find_in_sphere(c, r)`
  | plane (o n : V3)                           -- `finder.find_on_plane(o, n)`
  | core (s : Sketch) (pts : List V3)          -- `finder.find_core(end)`, `pts` the sketch points of that end
  | shell (s : Sketch) (pts : List V3)         -- `finder.find_shell(end)`

/-- the vertex list after one operation (queries leave it alone) -/
def SessOp.next (vs : List V3) : SessOp → List V3
  | .move k p => vs.set k p
  | .reassemble vs' => vs'
  | _ => vs

/-- the answer of a query on the current vertex list (`none` for the operations that are not queries) -/
def SessOp.answer (vs : List V3) : SessOp → Option (List Nat)
  | .sphere c r => some (findInSphere vs c r)
  | .plane o n => some (findOnPlane vs o n)
  | .core s pts => some (findCore vs s pts)
  | .shell s pts => some (findShell vs s pts)
  | _ => none

/-- the vertex list after a sequence of operations -/
def stateAfter (vs : List V3) (ops : List SessOp) : List V3 := ops.foldl SessOp.next vs

/-- the answers of the queries of a session, in order -/
def runSession (vs : List V3) : List SessOp → List (List Nat)
  | [] => []
  | op :: ops =>
    match op.answer vs with
    | some a => a :: runSession (op.next vs) ops
    | none => runSession (op.next vs) ops

/-! ## view-point re-orientation -/

inductive Err where
  | notConvex    -- `DegenerateGeometryError("The operation is not convex!")`
  | degenerate   -- every other `DegenerateGeometryError`
  | index        -- `IndexError` of `common_2[0]`
  | badView      -- observer at the centre / ceiling on the observer's axis: the code computes with nan (not modelled)
  deriving DecidableEq, Repr

def Err.toStr : Err → String
  | .notConvex => "notconvex"
  | .degenerate => "degenerate"
  | .index => "index"
  | .badView => "badview"

/-- `Triangle`: three points. -/
structure Tri where
  p0 : V3
  p1 : V3
  p2 : V3
  deriving DecidableEq, Repr

def Tri.points (t : Tri) : List V3 := [t.p0, t.p1, t.p2]

/-- `Triangle.normal` without the normalisation. -/
def Tri.normalRaw (t : Tri) : V3 := V3.cross (t.p1 - t.p0) (t.p2 - t.p0)

/-- `Triangle.center` -/
def Tri.center (t : Tri) : V3 := V3.smul (1 / 3) (t.p0 + t.p1 + t.p2)

/-- `Triangle.flip`: `np.flip(points, axis=0)` -/
def Tri.flip (t : Tri) : Tri := ⟨t.p2, t.p1, t.p0⟩

/-- `Triangle.orient(hull_center)`; the sign of `dot(center - hull_center, normal)` does not depend on
    the normalisation of the normal. -/
def Tri.orient (t : Tri) (c : V3) : Tri :=
  if V3.dot (t.center - c) t.normalRaw < 0 then t.flip else t

def sumV (ps : List V3) : V3 := ps.foldr (fun p acc => p + acc) V3.zero

/-- `np.average(points, axis=0)` -/
def average (ps : List V3) : V3 := V3.smul (1 / (ps.length : Rat)) (sumV ps)

/-- `a/√A < b/√B` for `A, B > 0`, decided without square roots. -/
def alignLt (x y : Rat × Rat) : Prop :=
  if x.1 < 0 then (if y.1 < 0 then y.1 * y.1 * x.2 < x.1 * x.1 * y.2 else True)
  else (if y.1 < 0 then False else x.1 * x.1 * y.2 < y.1 * y.1 * x.2)

instance (x y : Rat × Rat) : Decidable (alignLt x y) := by unfold alignLt; infer_instance

/-- sort key of `_get_aligned`: `dot(t.normal, vector)` as (numerator, squared norm of the raw normal);
    the norm of `vector` is common to all triangles and positive. -/
def Tri.key (d : V3) (t : Tri) : Rat × Rat := (V3.dot t.normalRaw d, V3.norm2 t.normalRaw)

/-- index of the (first) triangle with the largest key, scanning from position `i` -/
def bestIdxAux (d : V3) : List Tri → Nat → Nat → Tri → Nat
  | [], _, bi, _ => bi
  | t :: ts, i, bi, bt => if alignLt (bt.key d) (t.key d) then bestIdxAux d ts (i + 1) i t else bestIdxAux d ts (i + 1) bi bt

def bestIdx (d : V3) : List Tri → Option Nat
  | [] => none
  | t :: ts => some (bestIdxAux d ts 1 0 t)

/-- `sorted(remaining, key)[-2:]` → (second best, best, the others). -/
def pick2 (d : V3) (l : List Tri) : Option (Tri × Tri × List Tri) := do
  let i ← bestIdx d l
  let a ← l[i]?
  let l1 := l.eraseIdx i
  let j ← bestIdx d l1
  let b ← l1[j]?
  some (b, a, l1.eraseIdx j)

/-- `Quadrangle.get_common_points`: `for p1 in l1: for p2 in l2: if close: append p1` -/
def commonPoints (l1 l2 : List V3) : List V3 :=
  l1.flatMap (fun p1 => l2.filterMap (fun p2 => if near p1 p2 then some p1 else none))

/-- `Quadrangle.get_unique_points` -/
def uniquePoints (l1 l2 : List V3) : List V3 :=
  let cp := commonPoints l1 l2
  (l1 ++ l2).filter (fun p => !(cp.any (fun c => decide (near p c))))

/-- repair 5ddf0fe: `np.dot(t0.normal, t1.normal) < 0.5` (unit normals more than 60° apart), without square roots -/
def tooSteep (t0 t1 : Tri) : Prop :=
  V3.dot t0.normalRaw t1.normalRaw < 0 ∨
    4 * (V3.dot t0.normalRaw t1.normalRaw * V3.dot t0.normalRaw t1.normalRaw) < V3.norm2 t0.normalRaw * V3.norm2 t1.normalRaw

instance (t0 t1 : Tri) : Decidable (tooSteep t0 t1) := by unfold tooSteep; infer_instance

/-- `Quadrangle.__init__` on `[t0, t1]`; the result is `Quadrangle.points`. -/
def mkQuad (t0 t1 : Tri) : Except Err (List V3) :=
  if tooSteep t0 t1 then .error .degenerate
  else
    let cp := commonPoints t0.points t1.points
    if cp.length ≠ 2 then .error .degenerate
    else
      let up := uniquePoints t0.points t1.points
      if up.length ≠ 2 then .error .degenerate else .ok (up ++ cp)

/-- `Quadrangle.get_common_point` -/
def commonPoint (q q1 q2 : List V3) : Except Err V3 :=
  let c2 := commonPoints (commonPoints q q1) q2
  if c2.length ≠ 1 then .error .degenerate   -- repair 70219c0: no common point is a documented rejection too
  else match c2 with
    | [] => .error .index                     -- `common_2[0]`, unreachable behind the guard
    | p :: _ => .ok p

/-- The six quads in the order the code builds them. -/
structure Quads where
  front : List V3
  back : List V3
  top : List V3
  bottom : List V3
  left : List V3
  right : List V3
  deriving Repr, DecidableEq

/-- The six directions of `_get_normals`, each up to a positive factor:
    `o = observer - centre`, `T = |o|² cd - (cd·o) o` (ceiling made perpendicular to the observer), `L = o × T`. -/
structure Dirs where
  o : V3
  t : V3
  l : V3
  deriving Repr, DecidableEq

def dirsOf (c obs ceil : V3) : Dirs :=
  let o := obs - c
  let cd := ceil - c
  let t := V3.smul (V3.norm2 o) cd - V3.smul (V3.dot cd o) o
  ⟨o, t, V3.cross o t⟩

/-- one pass of the loop `for key, normal in normals.items()`: the two best aligned remaining triangles
    become a quad -/
def quadStep (dir : V3) (rem : List Tri) : Except Err (List V3 × List Tri) :=
  match pick2 dir rem with
  | none => .error .index
  | some (b, a, rest) =>
    match mkQuad b a with
    | .ok q => .ok (q, rest)
    | .error e => .error e

/-- the loop of `reorient`: front, back, top, bottom, left, right (dict order, generated table `c18ViewOrder`) -/
def quadsOf (tris : List Tri) (d : Dirs) : Except Err Quads := do
  let x1 ← quadStep d.o tris
  let x2 ← quadStep (-d.o) x1.2
  let x3 ← quadStep d.t x2.2
  let x4 ← quadStep (-d.t) x3.2
  let x5 ← quadStep d.l x4.2
  let x6 ← quadStep (-d.l) x5.2
  pure ⟨x1.1, x2.1, x3.1, x4.1, x5.1, x6.1⟩

/-- `sorted_points`: each corner is the common point of three quads. -/
def cornersOf (q : Quads) : Except Err (List V3) := do
  let p0 ← commonPoint q.bottom q.front q.left
  let p1 ← commonPoint q.bottom q.front q.right
  let p2 ← commonPoint q.bottom q.back q.right
  let p3 ← commonPoint q.bottom q.back q.left
  let p4 ← commonPoint q.top q.front q.left
  let p5 ← commonPoint q.top q.front q.right
  let p6 ← commonPoint q.top q.back q.right
  let p7 ← commonPoint q.top q.back q.left
  pure [p0, p1, p2, p3, p4, p5, p6, p7]

/-- repair e299470: every original point is taken exactly once -/
def eachOnce (pts out : List V3) : Bool :=
  pts.all (fun q => (out.filter (fun p => decide (near p q))).length == 1)

def det3 (a b c : V3) : Rat := V3.dot (V3.cross a b) c

/-- repair 9e4eb19: `dot(cross(p1 - p0, p3 - p0), p4 - p0) < 0` → swap left and right -/
def swapLR (out : List V3) : List V3 := [1, 0, 3, 2, 5, 4, 7, 6].map (fun i => out.getD i V3.zero)

def fixHand (out : List V3) : List V3 :=
  let p (i : Nat) := out.getD i V3.zero
  if det3 (p 1 - p 0) (p 3 - p 0) (p 4 - p 0) < 0 then swapLR out else out

/-- everything of `reorient` after `_make_triangles`; works with coordinates only -/
def reorientCore (pts : List V3) (tris : List Tri) (c obs ceil : V3) : Except Err (List V3) :=
  let d := dirsOf c obs ceil
  if d.o = V3.zero ∨ d.t = V3.zero then .error .badView
  else
    match quadsOf tris d with
    | .error e => .error e
    | .ok q =>
      match cornersOf q with
      | .error e => .error e
      | .ok out => if eachOnce pts out then .ok (fixHand out) else .error .degenerate

/-- `np.take(points, indexes, axis=0)` for one simplex -/
def triOf (pts : List V3) (s : Nat × Nat × Nat) : Tri :=
  ⟨pts.getD s.1 V3.zero, pts.getD s.2.1 V3.zero, pts.getD s.2.2 V3.zero⟩

/-- `_make_triangles` given the simplices of `scipy.spatial.ConvexHull(points)` (oracle argument) -/
def makeTriangles (pts : List V3) (simplices : List (Nat × Nat × Nat)) : Except Err (List Tri) :=
  if simplices.length ≠ 12 then .error .notConvex
  else .ok ((simplices.map (triOf pts)).map (fun t => t.orient (average pts)))

/-- `ViewpointReorienter(observer, ceiling).reorient(operation)`: the new `point_array`. -/
def reorient (pts : List V3) (simplices : List (Nat × Nat × Nat)) (obs ceil : V3) : Except Err (List V3) :=
  match makeTriangles pts simplices with
  | .error e => .error e
  | .ok tris => reorientCore pts tris (average pts) obs ceil

/-! ### one re-orienter used for several blocks (history)

A `ViewpointReorienter` object holds the observer and the ceiling point and nothing else: the six view directions
are computed from the centre of the block at hand in every call.  The history model makes the object explicit:
a step takes the object and a block (points and hull simplices) and returns the object and the result. -/

structure Reorienter where
  obs : V3
  ceil : V3
  deriving DecidableEq, Repr

/-- one block: its eight points and the simplices scipy answered for them -/
abbrev Block := List V3 × List (Nat × Nat × Nat)

/-- `reorienter.reorient(operation)`: the object after the call and the new `point_array` -/
def Reorienter.step (r : Reorienter) (b : Block) : Reorienter × Except Err (List V3) :=
  (r, reorient b.1 b.2 r.obs r.ceil)

/-- `for operation in operations: reorienter.reorient(operation)` -/
def Reorienter.run (r : Reorienter) : List Block → Reorienter × List (Except Err (List V3))
  | [] => (r, [])
  | b :: bs =>
    let (r1, out) := r.step b
    let (r2, outs) := r1.run bs
    (r2, out :: outs)

/-- `p` coincides (to the merge tolerance) with a point of `l` -/
def nearMem (p : V3) (l : List V3) : Prop := ∃ x ∈ l, near p x

def Quads.get (q : Quads) : String → List V3
  | "front" => q.front
  | "back" => q.back
  | "top" => q.top
  | "bottom" => q.bottom
  | "left" => q.left
  | "right" => q.right
  | _ => []

/-- what the handedness repair does to the sides: left and right change places -/
def Quads.swapLR (q : Quads) : Quads := { q with left := q.right, right := q.left }

/-! ## the specification of a canonical numbering (validator) -/

/-- A numbered hexahedron: corner `i` (blockMesh numbering) ↦ position; only `0..7` matter. -/
abbrev Hex := Nat → V3

def Hex.ofList (l : List V3) : Hex := fun i => l.getD i V3.zero

def Hex.toList (P : Hex) : List V3 := (List.range 8).map P

def relabel (P : Hex) (s : Nat → Nat) : Hex := fun i => P (s i)

/-- an index list as a function -/
def perm (l : List Nat) : Nat → Nat := fun i => l.getD i 0

/-- the four corners of side `s` (0 bottom, 1 top, 2 left, 3 right, 4 front, 5 back — the order of
    `FACE_MAP`) in the cyclic order that is counter-clockwise seen from outside a right-handed block -/
def cyc : Nat → Nat → Nat
  | 0, 0 => 0 | 0, 1 => 3 | 0, 2 => 2 | 0, 3 => 1
  | 1, 0 => 4 | 1, 1 => 5 | 1, 2 => 6 | 1, 3 => 7
  | 2, 0 => 0 | 2, 1 => 4 | 2, 2 => 7 | 2, 3 => 3
  | 3, 0 => 1 | 3, 1 => 2 | 3, 2 => 6 | 3, 3 => 5
  | 4, 0 => 0 | 4, 1 => 1 | 4, 2 => 5 | 4, 3 => 4
  | 5, 0 => 2 | 5, 1 => 3 | 5, 2 => 7 | 5, 3 => 6
  | _, _ => 0

/-- twice the area vector of the quadrilateral `a b c d` (cross product of the diagonals) -/
def quadArea (a b c d : V3) : V3 := V3.cross (c - a) (d - b)

/-- outward area vector of side `s` of a right-handed block -/
def sideNormal (P : Hex) (s : Nat) : V3 := quadArea (P (cyc s 0)) (P (cyc s 1)) (P (cyc s 2)) (P (cyc s 3))

/-- the three neighbours of corner `i`, ordered so that the triple product is positive in a right-handed block -/
def nb : Nat → Nat → Nat
  | 0, 0 => 1 | 0, 1 => 3 | 0, 2 => 4
  | 1, 0 => 2 | 1, 1 => 0 | 1, 2 => 5
  | 2, 0 => 3 | 2, 1 => 1 | 2, 2 => 6
  | 3, 0 => 0 | 3, 1 => 2 | 3, 2 => 7
  | 4, 0 => 7 | 4, 1 => 5 | 4, 2 => 0
  | 5, 0 => 4 | 5, 1 => 6 | 5, 2 => 1
  | 6, 0 => 5 | 6, 1 => 7 | 6, 2 => 2
  | 7, 0 => 6 | 7, 1 => 4 | 7, 2 => 3
  | _, _ => 0

/-- triple product of the three edges that meet in corner `i` -/
def tp (P : Hex) (i : Nat) : Rat := det3 (P (nb i 0) - P i) (P (nb i 1) - P i) (P (nb i 2) - P i)

def Hex.center (P : Hex) : V3 :=
  V3.smul (1 / 8) (P 0 + P 1 + P 2 + P 3 + P 4 + P 5 + P 6 + P 7)

/-- alignment of a side with a direction, as the pair compared by `alignLt` -/
def sideKey (P : Hex) (d : V3) (s : Nat) : Rat × Rat := (V3.dot (sideNormal P s) d, V3.norm2 (sideNormal P s))

/-- The numbering the property asks for: the front side (4) is the one whose outward unit normal has the
    largest component towards the observer, the top side (1) the one — of the four sides around front/back —
    with the largest component towards the ceiling direction, and all eight corner triple products are positive. -/
structure Canonical (obs ceil : V3) (P : Hex) : Prop where
  front : ∀ s ∈ [0, 1, 2, 3, 5], alignLt (sideKey P (dirsOf P.center obs ceil).o s) (sideKey P (dirsOf P.center obs ceil).o 4)
  top : ∀ s ∈ [0, 2, 3], alignLt (sideKey P (dirsOf P.center obs ceil).t s) (sideKey P (dirsOf P.center obs ceil).t 1)
  rh : ∀ i ∈ List.range 8, 0 < tp P i

def frontOk (obs ceil : V3) (P : Hex) : Bool :=
  [0, 1, 2, 3, 5].all (fun s => decide (alignLt (sideKey P (dirsOf P.center obs ceil).o s) (sideKey P (dirsOf P.center obs ceil).o 4)))

def topOk (obs ceil : V3) (P : Hex) : Bool :=
  [0, 2, 3].all (fun s => decide (alignLt (sideKey P (dirsOf P.center obs ceil).t s) (sideKey P (dirsOf P.center obs ceil).t 1)))

def rhOk (P : Hex) : Bool := (List.range 8).all (fun i => decide (0 < tp P i))

/-- what the request `c18.canon` answers `ok` for -/
def canonicalOk (obs ceil : V3) (P : Hex) : Bool := frontOk obs ceil P && topOk obs ceil P && rhOk P

/-! ### the 48 relabellings of the hexahedron -/

def proper24 : List (List Nat) :=
  [[0, 1, 2, 3, 4, 5, 6, 7],
   [0, 3, 7, 4, 1, 2, 6, 5],
   [0, 4, 5, 1, 3, 7, 6, 2],
   [1, 0, 4, 5, 2, 3, 7, 6],
   [1, 2, 3, 0, 5, 6, 7, 4],
   [1, 5, 6, 2, 0, 4, 7, 3],
   [2, 1, 5, 6, 3, 0, 4, 7],
   [2, 3, 0, 1, 6, 7, 4, 5],
   [2, 6, 7, 3, 1, 5, 4, 0],
   [3, 0, 1, 2, 7, 4, 5, 6],
   [3, 2, 6, 7, 0, 1, 5, 4],
   [3, 7, 4, 0, 2, 6, 5, 1],
   [4, 0, 3, 7, 5, 1, 2, 6],
   [4, 5, 1, 0, 7, 6, 2, 3],
   [4, 7, 6, 5, 0, 3, 2, 1],
   [5, 1, 0, 4, 6, 2, 3, 7],
   [5, 4, 7, 6, 1, 0, 3, 2],
   [5, 6, 2, 1, 4, 7, 3, 0],
   [6, 2, 1, 5, 7, 3, 0, 4],
   [6, 5, 4, 7, 2, 1, 0, 3],
   [6, 7, 3, 2, 5, 4, 0, 1],
   [7, 3, 2, 6, 4, 0, 1, 5],
   [7, 4, 0, 3, 6, 5, 1, 2],
   [7, 6, 5, 4, 3, 2, 1, 0]]

def improper24 : List (List Nat) :=
  [[0, 1, 5, 4, 3, 2, 6, 7],
   [0, 3, 2, 1, 4, 7, 6, 5],
   [0, 4, 7, 3, 1, 5, 6, 2],
   [1, 0, 3, 2, 5, 4, 7, 6],
   [1, 2, 6, 5, 0, 3, 7, 4],
   [1, 5, 4, 0, 2, 6, 7, 3],
   [2, 1, 0, 3, 6, 5, 4, 7],
   [2, 3, 7, 6, 1, 0, 4, 5],
   [2, 6, 5, 1, 3, 7, 4, 0],
   [3, 0, 4, 7, 2, 1, 5, 6],
   [3, 2, 1, 0, 7, 6, 5, 4],
   [3, 7, 6, 2, 0, 4, 5, 1],
   [4, 0, 1, 5, 7, 3, 2, 6],
   [4, 5, 6, 7, 0, 1, 2, 3],
   [4, 7, 3, 0, 5, 6, 2, 1],
   [5, 1, 2, 6, 4, 0, 3, 7],
   [5, 4, 0, 1, 6, 7, 3, 2],
   [5, 6, 7, 4, 1, 2, 3, 0],
   [6, 2, 3, 7, 5, 1, 0, 4],
   [6, 5, 1, 2, 7, 4, 0, 3],
   [6, 7, 4, 5, 2, 3, 0, 1],
   [7, 3, 0, 4, 6, 2, 1, 5],
   [7, 4, 5, 6, 3, 0, 1, 2],
   [7, 6, 2, 3, 4, 5, 1, 0]]

def sym48 : List (List Nat) := proper24 ++ improper24

/-- sign pattern of a vector (to compare directions up to a positive factor) -/
def signV (v : V3) : List Int :=
  let sg (q : Rat) : Int := if 0 < q then 1 else if q < 0 then -1 else 0
  [sg v.x, sg v.y, sg v.z]

/-- the six view directions in the order the model's loop uses them -/
def Dirs.all (d : Dirs) : List (String × V3) :=
  [("front", d.o), ("back", -d.o), ("top", d.t), ("bottom", -d.t), ("left", d.l), ("right", -d.l)]

/-! ## validator for the hull oracle -/

/-- What is assumed of `scipy.spatial.ConvexHull(points).simplices` for a convex block, checked on the answer the
    implementation received: 12 triangles over the eight points, every point used, every edge shared by exactly two
    triangles (a closed surface), no degenerate triangle, and all points on one side of every triangle's plane up to
    the relative tolerance `eps` (distance ≤ eps · diameter; squares compared, no square roots). -/
def hullProblems (pts : List V3) (sim : List (Nat × Nat × Nat)) (eps : Rat) : List String :=
  let n := pts.length
  let g (i : Nat) := pts.getD i V3.zero
  let diam2 : Rat := pts.foldl (fun m p => pts.foldl (fun m q => max m (dist2 p q)) m) 0
  let edges := sim.flatMap (fun s => [(min s.1 s.2.1, max s.1 s.2.1), (min s.2.1 s.2.2, max s.2.1 s.2.2),
    (min s.1 s.2.2, max s.1 s.2.2)])
  let oneSided (s : Nat × Nat × Nat) : Bool :=
    let t := triOf pts s
    let nrm := t.normalRaw
    let small (d : Rat) : Bool := decide (d * d ≤ eps * eps * V3.norm2 nrm * diam2)
    let ds := pts.map (fun p => V3.dot nrm (p - t.p0))
    ds.all (fun d => decide (d ≤ 0) || small d) || ds.all (fun d => decide (0 ≤ d) || small d)
  (if sim.length = 12 then [] else ["count"]) ++
  (if sim.all (fun s => decide (s.1 < n ∧ s.2.1 < n ∧ s.2.2 < n ∧ s.1 ≠ s.2.1 ∧ s.2.1 ≠ s.2.2 ∧ s.1 ≠ s.2.2)) then []
    else ["index"]) ++
  (if (List.range n).all (fun i => sim.any (fun s => s.1 == i || s.2.1 == i || s.2.2 == i)) then [] else ["point-unused"]) ++
  (if edges.all (fun e => edges.count e == 2) then [] else ["not-closed"]) ++
  (if sim.all (fun s => decide (0 < V3.norm2 (triOf pts s).normalRaw)) then [] else ["degenerate-triangle"]) ++
  (if sim.all oneSided then [] else ["not-convex"]) ++
  (if (List.range n).all (fun i => (List.range n).all (fun j => i == j || !(decide (near (g i) (g j))))) then []
    else ["coincident-points"])

/-! ## the re-orienter in a clear view (hypotheses of `T_C18_clear_view`) -/

/-- both `A` and `B` are strictly better aligned with `d` than every triangle of `R` -/
def Clear (d : V3) (A B : Tri) (R : List Tri) : Prop :=
  ∀ x ∈ R, alignLt (x.key d) (A.key d) ∧ alignLt (x.key d) (B.key d)

instance (d : V3) (A B : Tri) (R : List Tri) : Decidable (Clear d A B R) := by unfold Clear; infer_instance


/-- the eight corners are pairwise distinct to the merge tolerance -/
def Sep (Q : Hex) : Prop := ∀ i j, i < 8 → j < 8 → near (Q i) (Q j) → i = j

/-- `get_common_points` on corner numbers -/
def commonIdx (l1 l2 : List Nat) : List Nat :=
  l1.flatMap (fun i => l2.filterMap (fun j => if i = j then some i else none))

/-- `get_unique_points` on corner numbers -/
def uniqueIdx (l1 l2 : List Nat) : List Nat :=
  (l1 ++ l2).filter (fun i => !((commonIdx l1 l2).any (fun c => decide (i = c))))


/-- a hull triangle by corner numbers -/
abbrev ITri := Nat × Nat × Nat

def ITri.idxs (t : ITri) : List Nat := [t.1, t.2.1, t.2.2]

/-- the triangle with the corners `t` of the block `Q` -/
def triP (Q : Hex) (t : ITri) : Tri := ⟨Q t.1, Q t.2.1, Q t.2.2⟩


/-- `Quadrangle.points` on corner numbers -/
def mkQuadIdx (a b : ITri) : List Nat := uniqueIdx a.idxs b.idxs ++ commonIdx a.idxs b.idxs

/-- the corners of side `s` (`FACE_MAP` order: 0 bottom, 1 top, 2 left, 3 right, 4 front, 5 back) -/
def corners (s : Nat) : List Nat := [cyc s 0, cyc s 1, cyc s 2, cyc s 3]

/-- `a`, `b` (vertices in any order) are the two triangles into which one of the two diagonals cuts side `s`:
    two common corners, two single ones, together the four corners of the side -/
def half1 (s : Nat) (a b : ITri) : Bool :=
  a.idxs.all (fun i => decide (i < 8)) && b.idxs.all (fun i => decide (i < 8)) &&
    (commonIdx a.idxs b.idxs).length == 2 && (uniqueIdx a.idxs b.idxs).length == 2 &&
    (mkQuadIdx a b).isPerm (corners s)

def halves (s : Nat) (a b : ITri) : Bool := half1 s a b && half1 s b a


/-- what is asked of the view: in every pass the two halves of the side the pass is meant for are strictly better
    aligned with the pass's direction than every triangle still left (front, back, top, bottom, left; the last pass
    takes what remains), and the halves of one side are at most 60° apart (they are accepted by `Quadrangle`) -/
structure ClearView (d : Dirs) (F1 F2 B1 B2 T1 T2 O1 O2 L1 L2 R1 R2 : Tri) : Prop where
  front : Clear d.o F1 F2 [B1, B2, T1, T2, O1, O2, L1, L2, R1, R2]
  back : Clear (-d.o) B1 B2 [T1, T2, O1, O2, L1, L2, R1, R2]
  top : Clear d.t T1 T2 [O1, O2, L1, L2, R1, R2]
  bottom : Clear (-d.t) O1 O2 [L1, L2, R1, R2]
  left : Clear d.l L1 L2 [R1, R2]
  flat : ¬ tooSteep F1 F2 ∧ ¬ tooSteep B1 B2 ∧ ¬ tooSteep T1 T2 ∧ ¬ tooSteep O1 O2 ∧ ¬ tooSteep L1 L2 ∧ ¬ tooSteep R1 R2
  nondeg : ∀ t ∈ [F1, F2, B1, B2, T1, T2, O1, O2, L1, L2, R1, R2], 0 < V3.norm2 t.normalRaw

instance (d : Dirs) (F1 F2 B1 B2 T1 T2 O1 O2 L1 L2 R1 R2 : Tri) :
    Decidable (ClearView d F1 F2 B1 B2 T1 T2 O1 O2 L1 L2 R1 R2) :=
  decidable_of_iff
    (Clear d.o F1 F2 [B1, B2, T1, T2, O1, O2, L1, L2, R1, R2] ∧ Clear (-d.o) B1 B2 [T1, T2, O1, O2, L1, L2, R1, R2] ∧
      Clear d.t T1 T2 [O1, O2, L1, L2, R1, R2] ∧ Clear (-d.t) O1 O2 [L1, L2, R1, R2] ∧ Clear d.l L1 L2 [R1, R2] ∧
      (¬ tooSteep F1 F2 ∧ ¬ tooSteep B1 B2 ∧ ¬ tooSteep T1 T2 ∧ ¬ tooSteep O1 O2 ∧ ¬ tooSteep L1 L2 ∧ ¬ tooSteep R1 R2) ∧
      (∀ t ∈ [F1, F2, B1, B2, T1, T2, O1, O2, L1, L2, R1, R2], 0 < V3.norm2 t.normalRaw))
    ⟨fun ⟨a, b, c, d, e, f, g⟩ => ⟨a, b, c, d, e, f, g⟩, fun ⟨a, b, c, d, e, f, g⟩ => ⟨a, b, c, d, e, f, g⟩⟩

/-- the six sides are cut into the given twelve triangles -/
def sidesCut (f1 f2 b1 b2 t1 t2 o1 o2 l1 l2 r1 r2 : ITri) : Bool :=
  halves 4 f1 f2 && halves 5 b1 b2 && halves 1 t1 t2 && halves 0 o1 o2 && halves 2 l1 l2 && halves 3 r1 r2


/-! ### a decidable check of the hypotheses of `T_C18_clear_view` (request `c18.clear`) -/

def sepOk (Q : Hex) : Bool :=
  (List.range 8).all (fun i => (List.range 8).all (fun j => i == j || !(decide (near (Q i) (Q j)))))

/-- `_make_triangles` without the count check -/
def orientedTris (pts : List V3) (sim : List ITri) : List Tri :=
  (sim.map (triOf pts)).map (fun t => t.orient (average pts))

/-- all hypotheses of `T_C18_clear_view` for the numbering `ql` and the twelve triangles `ix` (corner numbers of `ql`,
    two per side in the order front, back, top, bottom, left, right) -/
def clearOk (pts : List V3) (sim : List ITri) (obs ceil : V3) (ql : List V3) (ix : List ITri) : Bool :=
  match ix with
  | [f1, f2, b1, b2, t1, t2, o1, o2, l1, l2, r1, r2] =>
    let Q := Hex.ofList ql
    let d := dirsOf Q.center obs ceil
    ql.length == 8 && pts.isPerm ql && sepOk Q && sidesCut f1 f2 b1 b2 t1 t2 o1 o2 l1 l2 r1 r2
      && (orientedTris pts sim).isPerm (ix.map (triP Q))
      && decide (¬ (d.o = V3.zero ∨ d.t = V3.zero))
      && decide (ClearView d (triP Q f1) (triP Q f2) (triP Q b1) (triP Q b2) (triP Q t1) (triP Q t2) (triP Q o1)
          (triP Q o2) (triP Q l1) (triP Q l2) (triP Q r1) (triP Q r2))
  | _ => false

/-- corner number of a position in the numbering `ql` (the points are the same values) -/
def cornerOf (ql : List V3) (p : V3) : Nat := ql.findIdx (fun q => q == p)

def itriOf (ql : List V3) (t : Tri) : ITri := (cornerOf ql t.p0, cornerOf ql t.p1, cornerOf ql t.p2)

/-- the hull triangles sorted by the side of `ql` they lie in: front, back, top, bottom, left, right -/
def sortBySide (its : List ITri) : List ITri :=
  [4, 5, 1, 0, 2, 3].flatMap (fun s => its.filter (fun t => t.idxs.all (fun i => (corners s).contains i)))

/-- search for a numbering for which the view is clear.  By `T_C18_clear_view` a clear view makes `reorient` return
    `fixHand Q.toList`, so the only candidates are the model's own answer and its mirror image; a rejected input is
    never clear.  Only the witness is searched here; what it is worth is `clearOk` (theorem `T_C18_clear_check`). -/
def clearSearch (pts : List V3) (sim : List ITri) (obs ceil : V3) : Option (List V3) :=
  match reorient pts sim obs ceil with
  | .error _ => none
  | .ok out =>
    [out, swapLR out].findSome? (fun ql =>
      let ix := sortBySide ((orientedTris pts sim).map (itriOf ql))
      if clearOk pts sim obs ceil ql ix then some (fixHand ql) else none)

/-- the six sides in the order of the passes' names (front, back, top, bottom, left, right in `FACE_MAP` numbers) -/
def sides6 : List Nat := [4, 5, 1, 0, 2, 3]

/-- the two hull triangles of side `s` -/
def pairOf (Q : Hex) (hv : Nat → ITri × ITri) (s : Nat) : List Tri := [triP Q (hv s).1, triP Q (hv s).2]

/-- the halves of side `s` read off a list of twelve triangles sorted by side (front, back, top, bottom, left, right) -/
def hvOf (ix : List ITri) (s : Nat) : ITri × ITri :=
  let k := sides6.idxOf s
  (ix.getD (2 * k) (0, 0, 0), ix.getD (2 * k + 1) (0, 0, 0))

/-- validator of the hull oracle's answer against the block (request `c18.contract`): with the input numbering `pts` taken
    as the block's numbering, the oriented simplices are exactly the two halves of each of the six sides (either diagonal,
    any vertex order, twelve different triangles), the corners are pairwise distinct to TOL, and triangles of different
    sides are more than 60° apart.  Acceptance implies the hypotheses of `T_C18_returns_relabelling`
    (theorem `T_C18_contract_check`). -/
def contractOk (pts : List V3) (sim : List ITri) : Bool :=
  let Q := Hex.ofList pts
  let hv := hvOf (sortBySide ((orientedTris pts sim).map (itriOf pts)))
  pts.length == 8 && sepOk Q && sides6.all (fun s => halves s (hv s).1 (hv s).2)
    && (orientedTris pts sim).isPerm (sides6.flatMap (pairOf Q hv))
    && decide ((sides6.flatMap (pairOf Q hv)).Nodup)
    && sides6.all (fun s => sides6.all (fun s' => s == s' ||
        (pairOf Q hv s).all (fun X => (pairOf Q hv s').all (fun Y => decide (tooSteep X Y)))))

/-! ## line protocol -/

def parsePts? (s : String) : Option (List V3) :=
  if s = "-" then some [] else (s.splitOn ";").mapM parseV3?

def parseTri? (s : String) : Option (Nat × Nat × Nat) :=
  match s.splitOn "-" with
  | [a, b, c] => do
      let a ← a.toNat?; let b ← b.toNat?; let c ← c.toNat?
      some (a, b, c)
  | _ => none

def parseTris? (s : String) : Option (List (Nat × Nat × Nat)) :=
  if s = "-" then some [] else (s.splitOn ";").mapM parseTri?

/-- position of every output point in the input list (`8` when absent) -/
def indicesIn (pts out : List V3) : List Nat := out.map (fun p => pts.findIdx (fun q => decide (near p q)))

def handle (op : String) (args : List String) : Option String :=
  match op, args with
  | "c18.sphere", [c, r, vs] => do
      let c ← parseV3? c
      let r ← if r = "tol" then some none else (parseRat? r).map some
      let vs ← parsePts? vs
      some (showNatList (findInSphere vs c r))
  | "c18.plane", [o, n, vs] => do
      let o ← parseV3? o
      let n ← parseV3? n
      let vs ← parsePts? vs
      some (showNatList (findOnPlane vs o n))
  | "c18.shape", [name, part, pts, vs] => do
      let s ← sketchOf name
      let pts ← parsePts? pts
      let vs ← parsePts? vs
      if part = "core" then some (showNatList (findCore vs s pts))
      else if part = "shell" then some (showNatList (findShell vs s pts))
      else none
  | "c18.reorient", [obs, ceil, pts, tris] => do
      let obs ← parseV3? obs
      let ceil ← parseV3? ceil
      let pts ← parsePts? pts
      let tris ← parseTris? tris
      if pts.length ≠ 8 ∨ tris.any (fun t => t.1 ≥ 8 ∨ t.2.1 ≥ 8 ∨ t.2.2 ≥ 8) then none
      else match reorient pts tris obs ceil with
        | .ok out => some ("ok " ++ showNatList (indicesIn pts out))
        | .error e => some ("err " ++ e.toStr)
  | "c18.seq", obs :: ceil :: blocks => do
      -- one re-orienter, several blocks: `pts|tris` per block; answers joined by `|`
      let obs ← parseV3? obs
      let ceil ← parseV3? ceil
      let bs ← blocks.mapM (fun b =>
        match b.splitOn "|" with
        | [pts, tris] => do
            let pts ← parsePts? pts
            let tris ← parseTris? tris
            if pts.length ≠ 8 ∨ tris.any (fun t => t.1 ≥ 8 ∨ t.2.1 ≥ 8 ∨ t.2.2 ≥ 8) then none else some (pts, tris)
        | _ => none)
      if bs.isEmpty then none
      else
        let res := ((Reorienter.mk obs ceil).run bs).2
        some ("|".intercalate ((bs.zip res).map (fun x =>
          match x.2 with
          | .ok out => "ok " ++ showNatList (indicesIn x.1.1 out)
          | .error e => "err " ++ e.toStr)))
  | "c18.session", v0 :: ops => do
      -- `m:k:p`  `r:pts`  `s:c:r`  `p:o:n`  `c:sketch:pts`  `h:sketch:pts`; answers joined by `|`
      let v0 ← parsePts? v0
      let ops ← ops.mapM (fun t =>
        match t.splitOn ":" with
        | ["m", k, p] => do some (SessOp.move (← k.toNat?) (← parseV3? p))
        | ["r", pts] => do some (SessOp.reassemble (← parsePts? pts))
        | ["s", c, r] => do
            let r ← if r = "tol" then some none else (parseRat? r).map some
            some (SessOp.sphere (← parseV3? c) r)
        | ["p", o, n] => do some (SessOp.plane (← parseV3? o) (← parseV3? n))
        | ["c", name, pts] => do some (SessOp.core (← sketchOf name) (← parsePts? pts))
        | ["h", name, pts] => do some (SessOp.shell (← sketchOf name) (← parsePts? pts))
        | _ => none)
      some ("|".intercalate ((runSession v0 ops).map showNatList))
  | "c18.clear", [obs, ceil, pts, tris] => do
      -- is the view clear in the sense of `T_C18_clear_view`, and what does the theorem predict then?
      let obs ← parseV3? obs
      let ceil ← parseV3? ceil
      let pts ← parsePts? pts
      let tris ← parseTris? tris
      if pts.length ≠ 8 ∨ tris.any (fun t => t.1 ≥ 8 ∨ t.2.1 ≥ 8 ∨ t.2.2 ≥ 8) then none
      else match clearSearch pts tris obs ceil with
        | some out => some ("clear " ++ showNatList (indicesIn pts out))
        | none => some "unclear"
  | "c18.contract", [pts, tris] => do
      -- does the hull oracle's answer satisfy the contract of `T_C18_returns_relabelling` for this block?
      let pts ← parsePts? pts
      let tris ← parseTris? tris
      if pts.length ≠ 8 ∨ tris.any (fun t => t.1 ≥ 8 ∨ t.2.1 ≥ 8 ∨ t.2.2 ≥ 8) then none
      else some (if contractOk pts tris then "contract" else "nocontract")
  | "c18.hull", [eps, pts, tris] => do
      let eps ← parseRat? eps
      let pts ← parsePts? pts
      let tris ← parseTris? tris
      let bad := hullProblems pts tris eps
      some (if bad.isEmpty then "ok" else "fail " ++ ",".intercalate bad)
  | "c18.canon", [obs, ceil, pts] => do
      let obs ← parseV3? obs
      let ceil ← parseV3? ceil
      let pts ← parsePts? pts
      if pts.length ≠ 8 then none
      else
        let P := Hex.ofList pts
        let bad := (if frontOk obs ceil P then [] else ["front"]) ++ (if topOk obs ceil P then [] else ["top"])
          ++ (if rhOk P then [] else ["handedness"])
        some (if canonicalOk obs ceil P then "ok" else "fail " ++ ",".intercalate bad)
  | _, _ => none

end CBV.C18
