/-
C10 — the geometric part of the addressing code: which *points* the faces obtained from an operation by side
name have (`Operation.get_face / get_all_faces / get_closest_side / get_closest_face / get_normal_face / center`,
`Face.center / normal`), and the operations that compute their eight corners themselves (`Box`, `Extrude` by a
vector).  Exact rational arithmetic; comparisons the code makes on `norm` / `unit_vector` values are made on
monotone images of them (squared norm, signed square of a cosine), so no square root is needed.
Core Lean only.  (Also holds `pick`, `argmin`, `normalRaw`, which `CBV.Model.C10` and `CBV.Model.C07` use.)
-/
import CBV.Model.Common
import CBV.Gen.Tables
import CBV.Gen.TC10

namespace CBV.C10

/-- `[xs[i] for i in idx]` (python list comprehension over an index list). -/
def pick [Inhabited γ] (xs : List γ) (idx : List Nat) : List γ := idx.map (fun i => xs.getD i default)

/-- Index of the first minimum of a list (what a stable sort by key puts first; `np.argmin`). -/
def argminAux : List Rat → Nat → Nat → Rat → Nat
  | [], _, best, _ => best
  | d :: ds, i, best, bd => if d < bd then argminAux ds (i + 1) i d else argminAux ds (i + 1) best bd

def argmin (ds : List Rat) : Nat :=
  match ds with
  | [] => 0
  | d :: rest => argminAux rest 1 0 d

/-- `np.argmax`: index of the first maximum -/
def argmax (ds : List Rat) : Nat := argmin (ds.map (fun d => -d))

/-- Raw (unnormalised) normal as coded in `Face.normal`: the sum of the cross products of
    consecutive centre-to-corner vectors, times 16 to avoid the divisions (positive factor). -/
def normalRaw (p0 p1 p2 p3 : V3) : V3 :=
  let c := (p0 + p1 + p2 + p3)
  let s0 := V3.smul 4 p0 - c
  let s1 := V3.smul 4 p1 - c
  let s2 := V3.smul 4 p2 - c
  let s3 := V3.smul 4 p3 - c
  V3.cross s0 s1 + V3.cross s1 s2 + V3.cross s2 s3 + V3.cross s3 s0

/-- sum of a list of points -/
def vsum (ps : List V3) : V3 := ps.foldr (· + ·) V3.zero

/-- `np.average(points, axis=0)` -/
def avg (ps : List V3) : V3 := V3.smul (1 / (ps.length : Rat)) (vsum ps)

/-- `Face.normal` before normalisation, for a list of four points (zero for any other length) -/
def normalOf (f : List V3) : V3 :=
  match f with
  | [p0, p1, p2, p3] => normalRaw p0 p1 p2 p3
  | _ => V3.zero

/-- the eight points of an operation: `bottom_face.points + top_face.points` -/
structure GOp where
  pts : List V3
  deriving Repr

/-- `Operation.center` -/
def GOp.center (o : GOp) : V3 := avg o.pts

/-- `Operation.get_face(side)`: `Face([self.point_array[i] for i in constants.FACE_MAP[side]])` -/
def GOp.getFace (o : GOp) (side : String) : Option (List V3) :=
  (CBV.Gen.faceMap.lookup side).map (fun cs => cs.map (fun i => o.pts.getD i V3.zero))

/-- `Operation.get_all_faces()`: a dict in the order of `get_args(OrientType)` -/
def GOp.allFaces (o : GOp) : List (String × List V3) :=
  CBV.Gen.c10OrientOrder.filterMap (fun s => (o.getFace s).map (fun f => (s, f)))

/-- `Operation.get_closest_side(point)`: `sides[np.argmin(norm(point - face.center))]`
    (the squared norm has the same first minimum) -/
def GOp.closestSide (o : GOp) (p : V3) : String :=
  let fs := o.allFaces
  (fs.getD (argmin (fs.map (fun f => V3.norm2 (p - avg f.2)))) ("?", [])).1

/-- `Operation.get_closest_face(point)` -/
def GOp.closestFace (o : GOp) (p : V3) : Option (List V3) := o.getFace (o.closestSide p)

/-- the sides `get_normal_face` (and `Connector`) invert before looking at normals -/
def invertedSides : List String := ["bottom", "left", "front"]

/-- the faces `get_normal_face` chooses from: all faces, those of `invertedSides` with their points reversed
    (`Face.invert`) -/
def GOp.normalCandidates (o : GOp) : List (String × List V3) :=
  o.allFaces.map (fun (s, f) => (s, if invertedSides.contains s then f.reverse else f))

/-- signed square of `dot(unit_vector(v), unit_vector(n))`: a strictly increasing function of that cosine,
    rational.  Zero vectors give 0 (the code would produce nan; such inputs are not generated). -/
def cosSq (v n : V3) : Rat :=
  let d := V3.dot v n
  let den := V3.norm2 v * V3.norm2 n
  if den = 0 then 0 else (if 0 ≤ d then d * d else -(d * d)) / den

/-- `Operation.get_normal_face(point)`: the candidate with the largest
    `dot(unit_vector(point - face.center), face.normal)` (first maximum) -/
def GOp.normalFace (o : GOp) (p : V3) : String × List V3 :=
  let cs := o.normalCandidates
  cs.getD (argmax (cs.map (fun c => cosSq (p - avg c.2) (normalOf c.2)))) ("?", [])

/-- `Box(start_point, diagonal_point)`: the eight corners as the constructor computes them -/
def boxPoints (p q : V3) : List V3 :=
  let p0 : V3 := ⟨min p.x q.x, min p.y q.y, min p.z q.z⟩
  let p6 : V3 := ⟨max p.x q.x, max p.y q.y, max p.z q.z⟩
  let dx : V3 := ⟨p6.x - p0.x, 0, 0⟩
  let dy : V3 := ⟨0, p6.y - p0.y, 0⟩
  let dz : V3 := ⟨0, 0, p6.z - p0.z⟩
  let bottom := [p0, p0 + dx, p0 + dx + dy, p0 + dy]
  bottom ++ bottom.map (· + dz)      -- top_face = bottom_face.copy().translate(delta_z)

/-- `Extrude(base, amount)` with a vector amount: `top_face = base.copy().translate(amount)` -/
def extrudePoints (base : List V3) (v : V3) : List V3 := base ++ base.map (· + v)

/-- `f.rotate(point, angle, axis, origin)` = `origin + expm(angle · [axis/|axis|]×) (point − origin)` in Rodrigues' form, with
    the cosine `c` and sine `s` of the angle and the length `len` of the axis supplied (witnesses: `c² + s² = 1`,
    `len² = |axis|²`; the harness generates angles `2·atan t` and axes of rational length, so all three are rational) -/
def rotateP (c s : Rat) (axis : V3) (len : Rat) (o p : V3) : V3 :=
  let u := V3.smul (1 / len) axis
  let r := p - o
  o + (V3.smul c r + V3.smul s (V3.cross u r) + V3.smul ((1 - c) * V3.dot u r) u)

/-- `Revolve(base, angle, axis, origin)`: `top_face = base.copy().rotate(angle, axis, origin)` -/
def revolvePoints (base : List V3) (c s : Rat) (axis : V3) (len : Rat) (o : V3) : List V3 :=
  base ++ base.map (rotateP c s axis len o)

/-- `Wedge(face, angle)`: `base = face.copy().rotate(-angle / 2, [1,0,0], [0,0,0])`, then `Revolve(base, angle, [1,0,0], [0,0,0])`;
    `c2`, `s2`: cosine and sine of `angle / 2` (so the angle itself has cosine `c2² − s2²` and sine `2·s2·c2`) -/
def wedgePoints (face : List V3) (c2 s2 : Rat) : List V3 :=
  let ax : V3 := ⟨1, 0, 0⟩
  let base := face.map (rotateP c2 (-s2) ax 1 V3.zero)
  revolvePoints base (c2 * c2 - s2 * s2) (2 * s2 * c2) ax 1 V3.zero

/-- `Extrude(base, amount)` with a scalar amount: `extrude_vector = base.normal * amount`, `base.normal` the unit vector of the
    raw normal; `len`: the length of `normalOf base` (witness, `len² = |normalOf base|²`) -/
def extrudeScalar (base : List V3) (amount len : Rat) : List V3 :=
  extrudePoints base (V3.smul (amount / len) (normalOf base))

/-! ### line protocol -/

def showPts (ps : List V3) : String := "|".intercalate (ps.map V3.toStr)

def geoQuery (o : GOp) (q : String) : Option String :=
  match q.splitOn ":" with
  | ["center"] => some (V3.toStr o.center)
  | ["face", side] => (o.getFace side).map showPts
  | ["fcenter", side] => (o.getFace side).map (fun f => V3.toStr (avg f))
  | ["fnormal", side] => (o.getFace side).map (fun f => V3.toStr (normalOf f))
  | ["closest", p] => do some (o.closestSide (← parseV3? p))
  | ["closestface", p] => do (o.closestFace (← parseV3? p)).map showPts
  | ["nface", p] => do
      let r := o.normalFace (← parseV3? p)
      some (r.1 ++ "=" ++ showPts r.2)
  | _ => none

/-- `c10.geo p0 … p7 query;query;…` -/
def handleGeo (args : List String) : Option String :=
  match args with
  | [a, b, c, d, e, f, g, h, qs] => do
      let pts ← [a, b, c, d, e, f, g, h].mapM parseV3?
      let rs ← (qs.splitOn ";").mapM (geoQuery ⟨pts⟩)
      some (";".intercalate rs)
  | _ => none

/-- `c10.box p q` → the eight corners -/
def handleBox (args : List String) : Option String :=
  match args with
  | [p, q] => do some (showPts (boxPoints (← parseV3? p) (← parseV3? q)))
  | _ => none

/-- `c10.extrude p0 p1 p2 p3 v` → the eight corners -/
def handleExtrude (args : List String) : Option String :=
  match args with
  | [a, b, c, d, v] => do
      let base ← [a, b, c, d].mapM parseV3?
      some (showPts (extrudePoints base (← parseV3? v)))
  | _ => none

/-- `c10.revolve p0 p1 p2 p3 c s axis len origin` → the eight corners -/
def handleRevolve (args : List String) : Option String :=
  match args with
  | [a, b, c, d, co, si, ax, len, o] => do
      let base ← [a, b, c, d].mapM parseV3?
      let len ← parseRat? len
      if len = 0 then none
      else some (showPts (revolvePoints base (← parseRat? co) (← parseRat? si) (← parseV3? ax) len (← parseV3? o)))
  | _ => none

/-- `c10.wedge p0 p1 p2 p3 c2 s2` → the eight corners -/
def handleWedge (args : List String) : Option String :=
  match args with
  | [a, b, c, d, co, si] => do
      let face ← [a, b, c, d].mapM parseV3?
      some (showPts (wedgePoints face (← parseRat? co) (← parseRat? si)))
  | _ => none

/-- `c10.extrudes p0 p1 p2 p3 amount len` → the eight corners -/
def handleExtrudeScalar (args : List String) : Option String :=
  match args with
  | [a, b, c, d, am, len] => do
      let base ← [a, b, c, d].mapM parseV3?
      let len ← parseRat? len
      if len = 0 then none else some (showPts (extrudeScalar base (← parseRat? am) len))
  | _ => none

end CBV.C10
