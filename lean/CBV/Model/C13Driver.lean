/-
C13 (round 6) — the book-keeping classes of `optimize/iteration.py` and the report section of
`OptimizerBase.optimize` as executable model code over ℚ, and the small expression fragment in
which `cbv/tables/c13.py` regenerates the guards of the optimiser's control code from the source.

  `IterData`, `Driver`        `IterationData`, `IterationDriver` (`begin_iteration`, `end_iteration`,
                              `initial_improvement`, `last_improvement`, `converged` with the
                              `ZeroDivisionError` of `… / iterations[0].initial_quality` as an outcome)
  `Driver.summary`            the `if self.report:` block of `optimize` (IndexError without iterations,
                              ZeroDivisionError for a start quality 0)
  `Reporter`                  `ClampOptimizationData` (`undo`, `rollback`, `skip`, `improvement`, the comment)
  `Expr`, `parseRPN`, `Expr.eval`, `evalCascade`   meaning of the regenerated source expressions

Core Lean only.
-/
import CBV.Model.Common
import CBV.Gen.Tables

namespace CBV.C13

/-! ### constants (`util/constants.py`); `T_C13_tie_consts` proves they are the regenerated ones -/

def vsmall : Rat := 1 / 1000000
def vbig : Rat := 1000000000000
def tolGeom : Rat := 1 / 10000000

/-- default arguments of `optimize` / `auto_optimize` -/
def defaultMaxIter : Nat := 20
def defaultTol : Rat := 1 / 10
def defaultMethod : String := "SLSQP"
def methods : List String := ["SLSQP", "L-BFGS-B", "Nelder-Mead", "Powell"]

def ratAbs (x : Rat) : Rat := if x < 0 then -x else x

/-! ### `IterationData`, `IterationDriver` -/

structure IterData where
  index : Nat
  initial : Rat
  final : Rat
  deriving DecidableEq, Repr

/-- `IterationData.improvement` -/
def IterData.improvement (d : IterData) : Rat :=
  if ratAbs (d.initial - d.final) < vsmall then vsmall else d.initial - d.final

structure Driver where
  maxIter : Int
  tol : Rat
  its : List IterData
  deriving DecidableEq, Repr

/-- `IterationDriver(max_iterations, tolerance)` -/
def Driver.new (maxIter : Int) (tol : Rat) : Driver := { maxIter := maxIter, tol := tol, its := [] }

/-- `begin_iteration(quality)`: `IterationData(len(self.iterations), quality)` with `final_quality = VBIG`, appended -/
def Driver.beginIter (d : Driver) (q : Rat) : Driver :=
  { d with its := d.its ++ [{ index := d.its.length, initial := q, final := vbig }] }

/-- `end_iteration(quality)`: `self.iterations[-1].final_quality = quality` (`none` = IndexError) -/
def Driver.endIter (d : Driver) (q : Rat) : Option Driver :=
  match d.its.getLast? with
  | none => none
  | some l => some { d with its := d.its.dropLast ++ [{ l with final := q }] }

/-- `initial_improvement` -/
def Driver.initialImprovement (d : Driver) : Rat :=
  match d.its.head? with
  | none => vbig
  | some i => i.improvement

/-- `last_improvement` -/
def Driver.lastImprovement (d : Driver) : Rat :=
  if d.its.length < 2 then d.initialImprovement
  else match d.its.getLast? with
    | none => vbig
    | some l => l.improvement

inductive Conv where
  | yes | no | zeroDiv
  deriving DecidableEq, Repr

/-- `converged`: iteration limit first, then "can't decide without data", then the tolerance rule
    (a start quality 0 makes python raise `ZeroDivisionError`) -/
def Driver.converged (d : Driver) : Conv :=
  if d.maxIter ≤ (d.its.length : Int) then .yes
  else if d.its.length < 2 then .no
  else match d.its.head? with
    | none => .no
    | some i0 =>
        if i0.initial = 0 then .zeroDiv
        else if d.lastImprovement / i0.initial < d.tol then .yes else .no

/-- the driver after the iterations with the given `(initial, final)` qualities -/
def Driver.ofHist (maxIter : Int) (tol : Rat) (hist : List (Rat × Rat)) : Driver :=
  { maxIter := maxIter, tol := tol, its := hist.mapIdx (fun i h => { index := i, initial := h.1, final := h.2 }) }

inductive Summary where
  /-- `start_quality, end_quality, abs_improvement, rel_improvement` -/
  | ok (start stop abs rel : Rat)
  | off
  | indexError
  | zeroDiv
  deriving DecidableEq, Repr

/-- the `if self.report:` block of `optimize` -/
def Driver.summary (report : Bool) (d : Driver) : Summary :=
  if !report then .off
  else match d.its.getLast?, d.its.head? with
    | some l, some f =>
        if f.initial = 0 then .zeroDiv
        else .ok f.initial l.final (f.initial - l.final) ((f.initial - l.final) / f.initial)
    | _, _ => .indexError

/-! ### `ClampOptimizationData` -/

structure Reporter (Q : Type) where
  index : Nat
  gridInitial : Q
  junctionInitial : Q
  junctionFinal : Q
  gridFinal : Q
  skipped : Bool
  rolledBack : Bool
  deriving DecidableEq, Repr

/-- `ClampOptimizationData(index, grid_initial, junction_initial)`; `big` is the default `VBIG` -/
def Reporter.new {Q : Type} (big : Q) (index : Nat) (gi ji : Q) : Reporter Q :=
  { index := index, gridInitial := gi, junctionInitial := ji, junctionFinal := big, gridFinal := big,
    skipped := false, rolledBack := false }

def Reporter.setFinal {Q : Type} (r : Reporter Q) (jf gf : Q) : Reporter Q := { r with junctionFinal := jf, gridFinal := gf }
def Reporter.undo {Q : Type} (r : Reporter Q) : Reporter Q :=
  { r with junctionFinal := r.junctionInitial, gridFinal := r.gridInitial }
def Reporter.rollback {Q : Type} (r : Reporter Q) : Reporter Q := { r with rolledBack := true }.undo
def Reporter.skip {Q : Type} (r : Reporter Q) : Reporter Q := { r with skipped := true }.undo
def Reporter.improvement {Q : Type} [Sub Q] (r : Reporter Q) : Q := r.gridInitial - r.gridFinal
/-- the status column of `report_end` -/
def Reporter.comment {Q : Type} (r : Reporter Q) : String :=
  if r.skipped then "Skip" else if r.rolledBack then "Rollback" else ""

/-! ### the expression fragment of the regenerated tables -/

inductive Expr where
  | var (i : Nat)
  | num (r : Rat)
  | tt
  | ff
  | add (a b : Expr)
  | sub (a b : Expr)
  | mul (a b : Expr)
  | div (a b : Expr)
  | neg (a : Expr)
  | abs (a : Expr)
  | not (a : Expr)
  | lt (a b : Expr)
  | le (a b : Expr)
  | gt (a b : Expr)
  | ge (a b : Expr)
  | eq (a b : Expr)
  | ne (a b : Expr)
  deriving DecidableEq, Repr

/-- the atoms the control code reads (as the translator normalises them: a parameter reads `<argN>`, a local
    assigned once reads as its defining expression, `<ClassName>` for a constructor call); an atom of the source
    that is not listed makes the parse fail -/
def atoms : List String :=
  ["$self.grid_initial", "$self.grid_final", "$<ClampOptimizationData>.improvement", "$self.initial_quality", "$self.final_quality",
   "$len(self.iterations)", "$self.max_iterations", "$self.tolerance", "$self.last_improvement",
   "$self.iterations[0].initial_quality", "$self.initial_improvement", "$self.iterations[0].improvement",
   "$self.iterations[-1].improvement", "$len(self.junctions[<arg1>].links)"]

def atomIndex (s : String) : List String → Nat → Option Nat
  | [], _ => none
  | a :: as, i => if a = s then some i else atomIndex s as (i + 1)

abbrev Tok := String × Int × Nat

def binOp (s : String) : Option (Expr → Expr → Expr) :=
  if s = "+" then some .add else if s = "-" then some .sub else if s = "*" then some .mul
  else if s = "/" then some .div else if s = "<" then some .lt else if s = "<=" then some .le
  else if s = ">" then some .gt else if s = ">=" then some .ge else if s = "==" then some .eq
  else if s = "!=" then some .ne else none

def unOp (s : String) : Option (Expr → Expr) :=
  if s = "neg" then some .neg else if s = "abs" then some .abs else if s = "not" then some .not else none

/-- one token of the postfix form against the stack -/
def pushTok (stack : List Expr) (t : Tok) : Option (List Expr) :=
  if t.1 = "#" then some (.num ((t.2.1 : Rat) / (t.2.2 : Rat)) :: stack)
  else if t.1 = "#true" then some (.tt :: stack)
  else if t.1 = "#false" then some (.ff :: stack)
  else match binOp t.1, unOp t.1 with
    | some f, _ => match stack with
        | b :: a :: rest => some (f a b :: rest)
        | _ => none
    | none, some f => match stack with
        | a :: rest => some (f a :: rest)
        | _ => none
    | none, none => (atomIndex t.1 atoms 0).map (fun i => .var i :: stack)

def parseFrom : List Tok → List Expr → Option (List Expr)
  | [], st => some st
  | t :: ts, st => match pushTok st t with
      | some st' => parseFrom ts st'
      | none => none

def parseRPN (ts : List Tok) : Option Expr :=
  match parseFrom ts [] with
  | some [e] => some e
  | _ => none

def parseCascade : List (List Tok × List Tok) → Option (List (Expr × Expr))
  | [] => some []
  | (g, v) :: rest => match parseRPN g, parseRPN v, parseCascade rest with
      | some g', some v', some r => some ((g', v') :: r)
      | _, _, _ => none

inductive Val where
  | num (r : Rat)
  | bool (b : Bool)
  /-- TypeError / ZeroDivisionError -/
  | err
  deriving DecidableEq, Repr

def Val.arith (f : Rat → Rat → Val) : Val → Val → Val
  | .num x, .num y => f x y
  | _, _ => .err

/-- python's meaning of the fragment over exact numbers -/
def Expr.eval (env : Nat → Rat) : Expr → Val
  | .var i => .num (env i)
  | .num r => .num r
  | .tt => .bool true
  | .ff => .bool false
  | .add a b => Val.arith (fun x y => .num (x + y)) (a.eval env) (b.eval env)
  | .sub a b => Val.arith (fun x y => .num (x - y)) (a.eval env) (b.eval env)
  | .mul a b => Val.arith (fun x y => .num (x * y)) (a.eval env) (b.eval env)
  | .div a b => Val.arith (fun x y => if y = 0 then .err else .num (x / y)) (a.eval env) (b.eval env)
  | .neg a => match a.eval env with
      | .num x => .num (-x)
      | _ => .err
  | .abs a => match a.eval env with
      | .num x => .num (ratAbs x)
      | _ => .err
  | .not a => match a.eval env with
      | .bool b => .bool (!b)
      | _ => .err
  | .lt a b => Val.arith (fun x y => .bool (decide (x < y))) (a.eval env) (b.eval env)
  | .le a b => Val.arith (fun x y => .bool (decide (x ≤ y))) (a.eval env) (b.eval env)
  | .gt a b => Val.arith (fun x y => .bool (decide (y < x))) (a.eval env) (b.eval env)
  | .ge a b => Val.arith (fun x y => .bool (decide (y ≤ x))) (a.eval env) (b.eval env)
  | .eq a b => Val.arith (fun x y => .bool (decide (x = y))) (a.eval env) (b.eval env)
  | .ne a b => Val.arith (fun x y => .bool (decide (x ≠ y))) (a.eval env) (b.eval env)

/-- `if g₁: return v₁ … return vₙ` -/
def evalCascade (env : Nat → Rat) : List (Expr × Expr) → Val
  | [] => .err
  | (g, v) :: rest => match g.eval env with
      | .bool true => v.eval env
      | .bool false => evalCascade env rest
      | _ => .err

/-! the model's own reading of the source expressions (what `Driver`, `Reporter`, `optimizeClamp` and
`gridUpdate` implement); `T_C13_tie_*` prove `parse (regenerated table) = this` and `eval this = model function` -/

def exprReporterImprovement : List (Expr × Expr) := [(.tt, .sub (.var 0) (.var 1))]
def exprRollbackTest : Expr := .le (.var 2) (.num 0)
def exprIterImprovement : List (Expr × Expr) :=
  [(.lt (.abs (.sub (.var 3) (.var 4))) (.num vsmall), .num vsmall), (.tt, .sub (.var 3) (.var 4))]
def exprInitialImprovement : List (Expr × Expr) := [(.lt (.var 5) (.num 1), .num vbig), (.tt, .var 11)]
def exprLastImprovement : List (Expr × Expr) := [(.lt (.var 5) (.num 2), .var 10), (.tt, .var 12)]
def exprConverged : List (Expr × Expr) :=
  [(.ge (.var 5) (.var 6), .tt), (.lt (.var 5) (.num 2), .ff), (.lt (.div (.var 8) (.var 9)) (.var 7), .tt), (.tt, .ff)]
def exprUpdateGuard : Expr := .gt (.var 13) (.num 0)
def exprProbeEpsilon : Expr := .mul (.num 10) (.num tolGeom)

/-! ### line protocol -/

def Conv.show : Conv → String
  | .yes => "yes" | .no => "no" | .zeroDiv => "ZeroDivisionError"

def Summary.show : Summary → String
  | .ok a b c d => s!"{showRat a}:{showRat b}:{showRat c}:{showRat d}"
  | .off => "off" | .indexError => "IndexError" | .zeroDiv => "ZeroDivisionError"

def Driver.showState (d : Driver) : String :=
  s!"conv={d.converged.show},n={d.its.length},init={showRat d.initialImprovement},last={showRat d.lastImprovement}"

/-- the ops of a `c13.driver` request, one after the other -/
def driverRun (d : Driver) (acc : List String) : List (Bool × Rat) → Driver × List String × Bool
  | [] => (d, acc, true)
  | (true, q) :: rest => driverRun (d.beginIter q) (acc ++ [(d.beginIter q).showState]) rest
  | (false, q) :: rest => match d.endIter q with
      | some d' => driverRun d' (acc ++ [d'.showState]) rest
      | none => (d, acc ++ ["IndexError"], false)

/-- `c13.driver <max_iterations> <tolerance> <ops> <report 0|1>` with ops `b:<q>` (begin_iteration) and
    `e:<q>` (end_iteration) joined by `;` (`-` = none) → the state after `__init__` and after every op
    (`IndexError` ends the list), then the summary block; joined by `|` -/
def handleDriver (args : List String) : Option String :=
  match args with
  | [mx, tol, ops, rep] => do
      let mx ← parseInt? mx
      let tol ← parseRat? tol
      let rep ← (if rep = "1" then some true else if rep = "0" then some false else none)
      let ops ← (if ops = "-" then some [] else (ops.splitOn ";").mapM (fun o => match o.splitOn ":" with
        | ["b", q] => do some (true, (← parseRat? q))
        | ["e", q] => do some (false, (← parseRat? q))
        | _ => none))
      let d0 := Driver.new mx tol
      let (d, out, ok) := driverRun d0 [d0.showState] ops
      some ("|".intercalate (out ++ (if ok then ["sum=" ++ (d.summary rep).show] else [])))
  | _ => none

/-- `c13.reporter <index> <grid_initial> <junction_initial> <ops>` with ops `f:<jf>:<gf>` (the two assignments
    after `minimize`), `r` (rollback), `s` (skip), `u` (undo) joined by `;` (`-` = none)
    → `index,gi,ji,jf,gf,skipped,rolled_back,improvement,comment` -/
def handleReporter (args : List String) : Option String :=
  match args with
  | [idx, gi, ji, ops] => do
      let idx ← parseNat? idx
      let gi ← parseRat? gi
      let ji ← parseRat? ji
      let ops ← (if ops = "-" then some [] else (ops.splitOn ";").mapM (fun o => match o.splitOn ":" with
        | ["f", a, b] => do
            let a ← parseRat? a
            let b ← parseRat? b
            some (fun (r : Reporter Rat) => r.setFinal a b)
        | ["r"] => some Reporter.rollback
        | ["s"] => some Reporter.skip
        | ["u"] => some Reporter.undo
        | _ => none))
      let r := ops.foldl (fun r f => f r) (Reporter.new vbig idx gi ji)
      some (s!"{r.index},{showRat r.gridInitial},{showRat r.junctionInitial},{showRat r.junctionFinal},"
        ++ s!"{showRat r.gridFinal},{r.skipped},{r.rolledBack},{showRat r.improvement},{r.comment}")
  | _ => none

end CBV.C13
