/-
C12 — executable model of the life cycle of `Mesh` (mesh.py) and of the lists it drives
(lists/vertex_list.py, edge_list.py, block_list.py, patch_list.py, face_list.py,
items/wires/manager.py as far as `grade()` is concerned), as the code is *after* the repairs
  * `BlockList.grade_blocks` resets every axis before grading (repeated `write()`),
  * `PatchList.clear` keeps the patch entries (types/settings of `modify_patch` survive),
  * `Mesh.backport` pairs blocks with `Mesh.assembled` (the operations they were created from).

Abstractions (see notes/C12.md): a point is a triple of rationals (`Pt`, the exact values of the float64
coordinates); two corners are the same vertex iff their coordinates are equal (the harness sends the same
triple for points within TOL and keeps distinct points at least 1e-3 apart); `move_to` / `translate` are
assignments / additions of coordinates and the file prints them with `%.8f` (`fmt8`).  An operation is
(identity, 8 points, patch names, projections, 12 edge data — line / arc / spline / polyLine / project with
their payload —, count-only chops, cell zone), the depot is a list of entities holding one or several
operations, every axis of every operation carries its own chops (propagation between blocks is M-PROP,
C01/C02/C04), the written dictionary is a list of tokens, section by section, in the order `Mesh.write`
emits them (regenerated from the source: `CBV.Gen.c12WriteSections`).  Core Lean only.
-/
import CBV.Model.Common
import CBV.Gen.Tables

namespace CBV.C12

/-! ### data -/

/-- A count-only chop: printed length ratio and cell count (total expansion is 1). -/
structure Chop where
  ratio : String
  count : Nat
  deriving DecidableEq, Repr

/-- a point: the exact rational values of its three float64 coordinates -/
abbrev Pt := CBV.V3

/-- `n` as a point on the x axis (keeps examples readable; `0` is the default of the totalised look-ups) -/
instance (n : Nat) : OfNat Pt n := ⟨⟨(n : Rat), 0, 0⟩⟩

/-- `Point.translate` / `position + displacement` -/
def Pt.add (p d : Pt) : Pt := ⟨p.x + d.x, p.y + d.y, p.z + d.z⟩

def pow10 : Nat → Nat
  | 0 => 1
  | n + 1 => 10 * pow10 n

/-- nearest integer to a non-negative rational, ties to even -/
def roundHalfEven (x : Rat) : Nat :=
  let fl := x.floor.toNat
  let fr := x - (fl : Rat)
  if fr < 1 / 2 then fl else if 1 / 2 < fr then fl + 1 else if fl % 2 = 0 then fl else fl + 1

/-- python `f"{x:.8f}"` of the float whose exact value is `q` (printf rounds the exact binary value, ties to even) -/
def fmt8 (q : Rat) : String :=
  let n := roundHalfEven ((if q < 0 then -q else q) * ((pow10 8 : Nat) : Rat))
  let s := toString (n % pow10 8)
  (if q < 0 then "-" else "") ++ toString (n / pow10 8) ++ "." ++ "".pushn '0' (8 - s.length) ++ s

/-- `constants.vector_format` -/
def Pt.descr (p : Pt) : String := s!"({fmt8 p.x} {fmt8 p.y} {fmt8 p.z})"

/-- Edge data of an operation (`construct/edges.py`), the kinds whose written form does not depend on where the end
    vertices are: a line (never written), an arc through a point, a spline / polyLine through points, an edge projected
    to surfaces.  `backport()` moves the corner points of an operation and must not touch any of this. -/
inductive EdgeData where
  | line
  | arc (p : Pt)
  | spline (ps : List Pt)
  | polyLine (ps : List Pt)
  | project (labels : List String)
  | invalid   -- data `factory.create` raises on (e.g. `Angle(0, axis)`: "Angle should be between 0 and 2*pi")
  deriving DecidableEq, Repr

def insertStr (l : String) : List String → List String
  | [] => [l]
  | x :: xs => if l < x then l :: x :: xs else x :: insertStr l xs

/-- python `sorted(labels)` (`Project.convert_label`) -/
def sortStr (xs : List String) : List String := xs.foldr insertStr []

/-- `Edge.representation` -/
def EdgeData.kind : EdgeData → String
  | .line => "line"
  | .arc _ => "arc"
  | .spline _ => "spline"
  | .polyLine _ => "polyLine"
  | .project _ => "project"
  | .invalid => "invalid"

/-- what `Edge.description` prints after the two vertex indices -/
def EdgeData.payload : EdgeData → String
  | .line => ""
  | .arc p => p.descr
  | .spline ps => "(" ++ " ".intercalate (ps.map Pt.descr) ++ ")"
  | .polyLine ps => "(" ++ " ".intercalate (ps.map Pt.descr) ++ ")"
  | .project ls => "(" ++ " ".intercalate (sortStr ls) ++ ")"
  | .invalid => ""

structure Op where
  id : Nat
  corners : List Pt
  bottomPatch : Option String
  topPatch : Option String
  sidePatches : List (Option String)
  bottomProj : Option String
  topProj : Option String
  sideProj : List (Option String)
  cornerProj : List (List String)
  bottomEdges : List EdgeData
  topEdges : List EdgeData
  sideEdges : List EdgeData
  chops : List (List Chop)
  zone : String
  deriving DecidableEq, Repr

/-- `Vertex` + its `DuplicatedEntry`: location, `projected_to`, sorted slave patches. -/
structure Vtx where
  loc : Pt
  proj : List String
  slaves : List String
  deriving DecidableEq, Repr

/-- `Block`: the operation it was made from (ghost), its 8 vertex indices, the chops per axis, the cell
    zone and the grading state: axis-level specification and the four wire specifications per axis. -/
structure Block where
  opId : Nat
  verts : List Nat
  chops : List (List Chop)
  zone : String
  aspec : List (List Chop)
  wspec : List (List (List Chop))
  deriving DecidableEq, Repr

structure Edge where
  v1 : Nat
  v2 : Nat
  data : EdgeData
  deriving DecidableEq, Repr

structure Patch where
  name : String
  sides : List (List Nat)
  kind : String
  settings : List String
  deriving DecidableEq, Repr

structure PFace where
  verts : List Nat
  label : String
  deriving DecidableEq, Repr

/-- what `assemble()` fills and `clear()` empties: the five lists and `Mesh.assembled` -/
structure Lists where
  assembled : List Nat := []
  verts : List Vtx := []
  blocks : List Block := []
  edges : List Edge := []
  faces : List PFace := []
  patches : List Patch := []
  deriving DecidableEq, Repr

structure Mesh where
  depot : List Op := []        -- the operations of all depot entities, flattened in order
  groups : List Nat := []      -- how many operations each depot entity (Operation: 1; Shape / Stack / Assembly: n) holds
  deleted : List Nat := []
  lists : Lists := {}
  modified : List String := []
  dflt : Option (String × String) := none
  merged : List (String × String) := []
  geometry : List (String × List String) := []   -- `GeometryList.geometry` (a dict: insertion order, one entry per name)
  deriving DecidableEq, Repr

/-! ### vertex list -/

/-- `VertexList.find_duplicated`: the first entry at the same place with the same slave patches. -/
def vfind (loc : Pt) (sl : List String) : List Vtx → Option Nat
  | [] => none
  | v :: vs => if v.loc = loc ∧ v.slaves = sl then some 0 else (vfind loc sl vs).map (· + 1)

/-- `VertexList.add(point, slave_patches)` (the list branch, the only one `Mesh` uses). -/
def vadd (vs : List Vtx) (loc : Pt) (proj sl : List String) : List Vtx × Nat :=
  match vfind loc sl vs with
  | some i => (vs, i)
  | none => (vs ++ [⟨loc, proj, sl⟩], vs.length)

def insertSorted (l : String) : List String → List String
  | [] => [l]
  | x :: xs => if l < x then l :: x :: xs else if l = x then x :: xs else x :: insertSorted l xs

/-- sorted list of the distinct members (python: `sorted(set(...))`) -/
def sortDedup (xs : List String) : List String := xs.foldr insertSorted []

/-- `Operation.get_patches_at_corner`, as a list with `None` removed -/
def patchesAtCorner (o : Op) (c : Nat) : List String :=
  let i := c % 4
  [if c < 4 then o.bottomPatch else o.topPatch, o.sidePatches.getD i none,
    o.sidePatches.getD ((i + 3) % 4) none].filterMap id

/-- the slave patches of a corner, sorted -/
def cornerSlaves (slaves : List String) (o : Op) (c : Nat) : List String :=
  sortDedup ((patchesAtCorner o c).filter (· ∈ slaves))

/-- `Mesh._add_vertices`: the loop over the corners, threaded through the vertex list. -/
def addVertsAux (slaves : List String) (o : Op) : List Nat → List Vtx → List Vtx × List Nat
  | [], vs => (vs, [])
  | c :: rest, vs =>
      let r := vadd vs (o.corners.getD c 0) (o.cornerProj.getD c []) (cornerSlaves slaves o c)
      let r2 := addVertsAux slaves o rest r.1
      (r2.1, r.2 :: r2.2)

def enumFrom {α : Type} (n : Nat) : List α → List (Nat × α)
  | [] => []
  | x :: xs => (n, x) :: enumFrom (n + 1) xs

/-- `for corner in range(8)` -/
def addVerts (slaves : List String) (o : Op) (vs : List Vtx) : List Vtx × List Nat :=
  addVertsAux slaves o [0, 1, 2, 3, 4, 5, 6, 7] vs

/-! ### edge list -/

def samePair (a b c d : Nat) : Bool := (a == c && b == d) || (a == d && b == c)

/-- `Operation.edges[c1][c2]`: bottom i ↦ (i, i+1 mod 4), top i ↦ (i+4, (i+1 mod 4)+4), side i ↦ (i, i+4). -/
def opEdge (o : Op) (c1 c2 : Nat) : EdgeData :=
  let slots : List (Nat × Nat × EdgeData) :=
    (enumFrom 0 o.bottomEdges).map (fun (i, d) => (i, (i + 1) % 4, d)) ++
    (enumFrom 0 o.topEdges).map (fun (i, d) => (i + 4, (i + 1) % 4 + 4, d)) ++
    (enumFrom 0 o.sideEdges).map (fun (i, d) => (i, i + 4, d))
  match slots.find? (fun s => samePair s.1 s.2.1 c1 c2) with
  | some s => s.2.2
  | none => .line

/-- `EdgeList.add`: an existing edge on the same vertex pair wins; a new one is appended if valid. -/
def eadd (es : List Edge) (v1 v2 : Nat) (d : EdgeData) : List Edge :=
  if es.any (fun e => samePair e.v1 e.v2 v1 v2) then es
  else match d with
    | .line => es
    | d => if v1 = v2 then es else es ++ [⟨v1, v2, d⟩]

/-- `EdgeList.add_from_operation`: the 12 beams in the order of `Frame.get_all_beams` (generated). -/
def addEdges (es : List Edge) (o : Op) (vi : List Nat) : List Edge :=
  CBV.Gen.beamOrder.foldl (fun es (c1, c2) => eadd es (vi.getD c1 0) (vi.getD c2 0) (opEdge o c1 c2)) es

/-! ### patch list -/

def Patch.fresh (n : String) : Patch := { name := n, sides := [], kind := "patch", settings := [] }

/-- `PatchList.get(name)` followed by a mutation of the patch: the first entry with that name,
    or a new entry at the end. -/
def upsert (ps : List Patch) (n : String) (f : Patch → Patch) : List Patch :=
  match ps with
  | [] => [f (Patch.fresh n)]
  | p :: rest => if p.name = n then f p :: rest else p :: upsert rest n f

def sameSet (a b : List Nat) : Bool := a.all (b.contains ·) && b.all (a.contains ·)

/-- `Patch.add_side`: a side on the same vertices is not added again. -/
def Patch.addSide (side : List Nat) (p : Patch) : Patch :=
  if p.sides.any (sameSet · side) then p else { p with sides := p.sides ++ [side] }

/-- `Side(orient, vertices)`: the vertices at `FACE_MAP[orient]` (generated). -/
def sideVerts (orient : String) (vi : List Nat) : List Nat :=
  ((CBV.Gen.faceMap.lookup orient).getD []).map (fun c => vi.getD c 0)

/-- `Operation.patch_names`: bottom, top, then the sides in `SIDES_MAP` order. -/
def patchNames (o : Op) : List (String × String) :=
  (match o.bottomPatch with | some n => [("bottom", n)] | none => []) ++
  (match o.topPatch with | some n => [("top", n)] | none => []) ++
  (enumFrom 0 o.sidePatches).filterMap (fun (i, p) => p.map (fun n => (CBV.Gen.sidesMap.getD i "?", n)))

/-- the (patch name, side) items an operation contributes -/
def patchItems (o : Op) (vi : List Nat) : List (String × List Nat) :=
  (patchNames o).map (fun (orient, n) => (n, sideVerts orient vi))

def addItems (ps : List Patch) (items : List (String × List Nat)) : List Patch :=
  items.foldl (fun ps it => upsert ps it.1 (Patch.addSide it.2)) ps

/-- `PatchList.modify` -/
def modifyPatch (ps : List Patch) (n kind : String) (settings : Option (List String)) : List Patch :=
  upsert ps n (fun p => { p with kind := kind, settings := settings.getD p.settings })

/-- `PatchList.clear` (repaired): sides go, entries stay -/
def clearPatches (ps : List Patch) : List Patch := ps.map (fun p => { p with sides := [] })

/-! ### face list -/

def fadd (fs : List PFace) (side : List Nat) (label : String) : List PFace :=
  if fs.any (fun f => sameSet f.verts side) then fs else fs ++ [⟨side, label⟩]

/-- `FaceList.add`: the four sides in `SIDES_MAP` order, then bottom, then top. -/
def faceItems (o : Op) (vi : List Nat) : List (List Nat × String) :=
  (enumFrom 0 o.sideProj).filterMap (fun (i, p) => p.map (fun l => (sideVerts (CBV.Gen.sidesMap.getD i "?") vi, l))) ++
  (match o.bottomProj with | some l => [(sideVerts "bottom" vi, l)] | none => []) ++
  (match o.topProj with | some l => [(sideVerts "top" vi, l)] | none => [])

def addFaces (fs : List PFace) (items : List (List Nat × String)) : List PFace :=
  items.foldl (fun fs it => fadd fs it.1 it.2) fs

/-! ### Mesh -/

def slavePatches (m : Mesh) : List String := m.merged.map (·.2)

/-- the body of the loop of `Mesh.assemble` for one operation that is not deleted
    (`slaves` = `patch_list.slave_patches`, which does not change during assembly) -/
def addOp (slaves : List String) (l : Lists) (o : Op) : Lists :=
  let r := addVerts slaves o l.verts
  let vi := r.2
  { verts := r.1
    edges := addEdges l.edges o vi
    blocks := l.blocks ++ [{ opId := o.id, verts := vi, chops := o.chops, zone := o.zone, aspec := [], wspec := [] }]
    assembled := l.assembled ++ [o.id]
    patches := addItems l.patches (patchItems o vi)
    faces := addFaces l.faces (faceItems o vi) }

/-- the loop of `Mesh.assemble`: the depot in order, deleted operations skipped. -/
def assembleLoop (slaves : List String) (deleted : List Nat) : List Op → Lists → Lists
  | [], l => l
  | o :: rest, l => assembleLoop slaves deleted rest (if o.id ∈ deleted then l else addOp slaves l o)

/-- the depot as the list of its entities: `groups` cuts the flat list (anything left over is one more entity) -/
def splitGroups {α : Type} : List Nat → List α → List (List α)
  | [], xs => if xs.isEmpty then [] else [xs]
  | n :: ns, xs => xs.take n :: splitGroups ns (xs.drop n)

def entities (m : Mesh) : List (List Op) := splitGroups m.groups m.depot

/-- the outer loop of `Mesh.assemble`: `for entity in self.depot: for operation in entity.operations: …` -/
def assembleEntities (slaves : List String) (deleted : List Nat) : List (List Op) → Lists → Lists
  | [], l => l
  | e :: rest, l => assembleEntities slaves deleted rest (assembleLoop slaves deleted e l)

/-- `Mesh.assemble` -/
def assemble (m : Mesh) : Mesh :=
  { m with lists := assembleEntities (slavePatches m) m.deleted (entities m) m.lists }

/-- `Mesh.clear` (the patch list keeps its entries, see `clearPatches`) -/
def clear (m : Mesh) : Mesh :=
  { m with lists := { patches := clearPatches m.lists.patches } }

def isAssembled (m : Mesh) : Bool := !m.lists.verts.isEmpty

def add (m : Mesh) (o : Op) : Mesh := { m with depot := m.depot ++ [o], groups := m.groups ++ [1] }

/-- `mesh.add(entity)` for a Shape / Stack / Assembly: its operations in order, as one depot entity -/
def addEntity (m : Mesh) (ops : List Op) : Mesh := { m with depot := m.depot ++ ops, groups := m.groups ++ [ops.length] }
def delete (m : Mesh) (id : Nat) : Mesh := { m with deleted := id :: m.deleted }
def mergePatches (m : Mesh) (master slave : String) : Mesh := { m with merged := m.merged ++ [(master, slave)] }
def setDefault (m : Mesh) (name kind : String) : Mesh := { m with dflt := some (name, kind) }

/-- `{**old, **{name: props}}`: an existing name keeps its place and gets the new value, a new name goes to the end -/
def dictSet (g : List (String × List String)) (name : String) (props : List String) : List (String × List String) :=
  match g with
  | [] => [(name, props)]
  | e :: rest => if e.1 = name then (name, props) :: rest else e :: dictSet rest name props

/-- `Mesh.add_geometry({name: props})`; neither `clear()` nor `backport()` touch the geometry list -/
def addGeometry (m : Mesh) (name : String) (props : List String) : Mesh :=
  { m with geometry := dictSet m.geometry name props }

def modify (m : Mesh) (n kind : String) (settings : Option (List String)) : Mesh :=
  { m with lists := { m.lists with patches := modifyPatch m.lists.patches n kind settings },
           modified := if n ∈ m.modified then m.modified else m.modified ++ [n] }

/-- `mesh.vertices[r mod n].move_to(position)`; nothing when there are no vertices. -/
def moveVertex (m : Mesh) (r : Nat) (loc : Pt) : Mesh :=
  if m.lists.verts.isEmpty then m
  else { m with lists := { m.lists with
           verts := m.lists.verts.modify (r % m.lists.verts.length) (fun v => { v with loc := loc }) } }

def locOf (vs : List Vtx) (i : Nat) : Pt := ((vs[i]?).map (·.loc)).getD 0

/-- `mesh.vertices[r1 mod n].move_to(mesh.vertices[r2 mod n].position)`: the coordinates are *copied*, the two vertices
    are at the same place afterwards but stay two vertices (a later move of one does not move the other) -/
def moveOnto (m : Mesh) (r1 r2 : Nat) : Mesh :=
  moveVertex m r1 (locOf m.lists.verts (r2 % m.lists.verts.length))

/-- `mesh.vertices[r mod n].translate(d)`: `position = position + displacement` -/
def translateVertex (m : Mesh) (r : Nat) (d : Pt) : Mesh :=
  moveVertex m r ((locOf m.lists.verts (r % m.lists.verts.length)).add d)

/-- an optimisation-style update: many vertices get new positions at once (`vertex.move_to` in a loop) -/
def moveMany (m : Mesh) (mv : List (Nat × Pt)) : Mesh := mv.foldl (fun m p => moveVertex m p.1 p.2) m

/-- the loop of `Mesh.backport`: `op.bottom_face.update(...)`, `op.top_face.update(...)` for every
    (block, operation it was created from); an operation is an object, so every depot entry with
    that identity changes. -/
def backportDepot (vs : List Vtx) : List (Block × Nat) → List Op → List Op
  | [], depot => depot
  | (b, id) :: rest, depot =>
      backportDepot vs rest
        (depot.map (fun o => if o.id = id then { o with corners := b.verts.map (locOf vs) } else o))

/-- `Mesh.backport`; `none` = RuntimeError (not assembled) -/
def backport (m : Mesh) : Option Mesh :=
  if isAssembled m then
    some (assemble (clear { m with depot := backportDepot m.lists.verts (m.lists.blocks.zip m.lists.assembled) m.depot }))
  else none

/-! ### grading (count-only, every axis chopped by the user) -/

/-- `axis.wires.reset()` followed by `WireChopManager.grade()` for every axis of a block -/
def gradeBlock (b : Block) : Block :=
  { b with aspec := b.chops, wspec := b.chops.map (fun c => [c, c, c, c]) }

/-- `BlockList.grade_blocks` -/
def gradeBlocks (m : Mesh) : Mesh := { m with lists := { m.lists with blocks := m.lists.blocks.map gradeBlock } }

/-- an axis is defined when all its wire gradings are -/
def Block.isDefined (b : Block) : Bool :=
  b.wspec.length == 3 && b.wspec.all (fun ws => ws.length == 4 && ws.all (fun s => !s.isEmpty))

inductive Err where
  | notAssembled   -- RuntimeError: Cannot grade a mesh before it is assembled
  | undefined      -- UndefinedGradingsError
  deriving DecidableEq, Repr

/-! ### rendering -/

def join (sep : String) (xs : List String) : String := sep.intercalate xs

def showNats (xs : List Nat) : String := join "-" (xs.map toString)

/-- the written dictionary as a list of tokens: a section is its name, its entries in order, and a closing `;` -/
abbrev Text := List String

def sec (name : String) (entries : List String) : Text := name :: entries ++ [";"]

def Grading.descr (spec : List Chop) : String :=
  match spec with
  | [_] => "1"
  | _ => "(" ++ join "" (spec.map (fun c => s!"({c.ratio}_{c.count}_1)")) ++ ")"

def specEq (a b : List Chop) : Bool := a == b

/-- `Block.description`: vertices, zone, counts, simple/edge grading -/
def Block.descr (b : Block) : String :=
  let counts := b.aspec.map (fun s => (s.map (·.count)).sum)
  let simple := b.wspec.all (fun ws => match ws with | [] => true | w :: rest => rest.all (specEq · w))
  let gr :=
    if simple then "simple," ++ join "," (b.wspec.map (fun ws => Grading.descr (ws.headD [])))
    else "edge," ++ join "," (b.wspec.map (fun ws => join "," (ws.map Grading.descr)))
  s!"{showNats b.verts}:{b.zone}:{showNats counts}:{gr}"

/-- `Vertex.description` without the index comment: the `%.8f` coordinates and the surfaces it is projected to -/
def Vtx.descr (v : Vtx) : String :=
  if v.proj.isEmpty then v.loc.descr else s!"{v.loc.descr} ({join " " v.proj})"

/-- `Edge.description`: kind, the two vertices (as an unordered pair, see C07 for the direction), payload -/
def Edge.descr (e : Edge) : String := s!"{e.data.kind} {min e.v1 e.v2}-{max e.v1 e.v2} {e.data.payload}"

def PFace.descr (f : PFace) : String := s!"{showNats f.verts}:{f.label}"

def Patch.descr (p : Patch) : String :=
  s!"{p.name}:{p.kind}:{join "|" p.settings}:{join "," (p.sides.map showNats)}"

/-- `GeometryList.description` (nothing at all when no surface was added) -/
def geometrySection (m : Mesh) : Text :=
  if m.geometry.isEmpty then [] else sec "geometry" (m.geometry.map (fun e => s!"{e.1}:{join "|" e.2}"))

/-- `PatchList.description`: boundary (side-less entries nobody modified are skipped), defaultPatch, mergePatchPairs -/
def patchSection (m : Mesh) : Text :=
  let pats := m.lists.patches.filter (fun p => !(p.sides.isEmpty && !(m.modified.contains p.name)))
  sec "boundary" (pats.map Patch.descr) ++
  (match m.dflt with | some (n, k) => sec "defaultPatch" [s!"{n}:{k}"] | none => []) ++
  sec "mergePatchPairs" (m.merged.map (fun p => s!"{p.1}-{p.2}"))

/-- what one `output.write(<expr>)` of `Mesh.write` contributes, by the source text of `<expr>`; header, footer and
    `format_settings()` are constant along the histories (no call touches `mesh.settings`) and contribute no token;
    an expression the model does not know is `none` -/
def sectionOf (m : Mesh) (expr : String) : Option Text :=
  if expr = "constants.MESH_HEADER" then some []
  else if expr = "self.format_settings()" then some []
  else if expr = "self.geometry_list.description" then some (geometrySection m)
  else if expr = "self.vertex_list.description" then some (sec "vertices" (m.lists.verts.map Vtx.descr))
  else if expr = "self.block_list.description" then some (sec "blocks" (m.lists.blocks.map Block.descr))
  else if expr = "self.edge_list.description" then some (sec "edges" (m.lists.edges.map Edge.descr))
  else if expr = "self.face_list.description" then some (sec "faces" (m.lists.faces.map PFace.descr))
  else if expr = "self.patch_list.description" then some (patchSection m)
  else if expr = "constants.MESH_FOOTER" then some []
  else none

/-- the file as the concatenation of the `output.write(...)` calls listed in `order` -/
def renderBy (order : List String) (m : Mesh) : Option Text := (order.mapM (sectionOf m)).map List.flatten

/-- what `Mesh.write` puts into the file, section by section (`T_C12_tie_write`: this is `renderBy` of the order the
    current source has) -/
def render (m : Mesh) : Text :=
  geometrySection m ++ sec "vertices" (m.lists.verts.map Vtx.descr) ++ sec "blocks" (m.lists.blocks.map Block.descr) ++
  sec "edges" (m.lists.edges.map Edge.descr) ++ sec "faces" (m.lists.faces.map PFace.descr) ++ patchSection m

/-- `Mesh.write`: assemble when needed, grade, render.  Returns the new state and the file or error. -/
def write (m : Mesh) : Mesh × Except Err Text :=
  let m1 := if isAssembled m then m else assemble m
  if !isAssembled m1 then (m1, .error .notAssembled)
  else
    let m2 := gradeBlocks m1
    if m2.lists.blocks.all Block.isDefined then (m2, .ok (render m2)) else (m2, .error .undefined)

/-- the text of the file `write` produces (or the error) -/
def written (m : Mesh) : Except Err Text := (write m).2

/-! ### histories -/

inductive Step where
  | add (o : Op)
  | readd (id : Nat)   -- `mesh.add(op)` for an object that is in the depot already
  | addEntity (ops : List Op)   -- `mesh.add(shape)`: one depot entity with several operations
  | delete (id : Nat)
  | assemble
  | clear
  | backport
  | move (r : Nat) (loc : Pt)
  | translate (r : Nat) (d : Pt)   -- `vertex.translate(d)`
  | modify (n kind : String) (settings : Option (List String))
  | setDefault (n kind : String)
  | merge (master slave : String)
  | write
  | addGeometry (name : String) (props : List String)
  | moveOnto (r1 r2 : Nat)
  deriving Repr

/-- one call; a rejected call (backport of a mesh that is not assembled) leaves the state alone -/
def step (m : Mesh) : Step → Mesh
  | .add o => add m o
  | .readd id => match m.depot.find? (fun o => o.id = id) with
      | some o => add m o
      | none => m
  | .addEntity ops => addEntity m ops
  | .delete id => delete m id
  | .assemble => assemble m
  | .clear => clear m
  | .backport => (backport m).getD m
  | .move r loc => moveVertex m r loc
  | .translate r d => translateVertex m r d
  | .modify n k s => modify m n k s
  | .setDefault n k => setDefault m n k
  | .merge a b => mergePatches m a b
  | .write => (write m).1
  | .addGeometry n ps => addGeometry m n ps
  | .moveOnto r1 r2 => moveOnto m r1 r2

def run (m : Mesh) (h : List Step) : Mesh := h.foldl step m

/-! ### an exception inside `assemble()` (round 6c)

`EdgeList.add` looks for an existing edge on the vertex pair first; only when there is none `factory.create` runs, and it
raises (`ValueError`) for data it cannot make an edge of.  The exception leaves `Mesh.assemble` in the middle of the loop:
everything the earlier operations contributed stays, the failing operation has its vertices in the vertex list and the edges
of its earlier beams in the edge list, but no block, no `assembled` entry, no patch sides, no faces; nothing is rolled back. -/

/-- one beam of `EdgeList.add_from_operation`; the flag says that `factory.create` raised -/
def eaddX (o : Op) (vi : List Nat) (acc : List Edge × Bool) (c : Nat × Nat) : List Edge × Bool :=
  if acc.2 then acc
  else
    let v1 := vi.getD c.1 0
    let v2 := vi.getD c.2 0
    if opEdge o c.1 c.2 = .invalid ∧ acc.1.any (fun e => samePair e.v1 e.v2 v1 v2) = false then (acc.1, true)
    else (eadd acc.1 v1 v2 (opEdge o c.1 c.2), false)

def addEdgesX (es : List Edge) (o : Op) (vi : List Nat) : List Edge × Bool :=
  CBV.Gen.beamOrder.foldl (eaddX o vi) (es, false)

/-- the loop body of `Mesh.assemble` with the exception: vertices first, then the edges; the rest only when nothing raised -/
def addOpX (slaves : List String) (l : Lists) (o : Op) : Lists × Bool :=
  let r := addVerts slaves o l.verts
  let e := addEdgesX l.edges o r.2
  if e.2 then ({ l with verts := r.1, edges := e.1 }, true)
  else ({ addOp slaves l o with edges := e.1 }, false)

/-- the loop of `Mesh.assemble`, left at the first exception -/
def assembleLoopX (slaves : List String) (deleted : List Nat) : List Op → Lists → Lists × Bool
  | [], l => (l, false)
  | o :: rest, l =>
      if o.id ∈ deleted then assembleLoopX slaves deleted rest l
      else if (addOpX slaves l o).2 then addOpX slaves l o
      else assembleLoopX slaves deleted rest (addOpX slaves l o).1

/-- `Mesh.assemble` with the exception: the state afterwards and whether it raised -/
def assembleX (m : Mesh) : Mesh × Bool :=
  let r := assembleLoopX (slavePatches m) m.deleted m.depot m.lists
  ({ m with lists := r.1 }, r.2)

inductive ErrX where
  | notAssembled | undefined | create   -- `create`: the ValueError of `factory.create`
  deriving DecidableEq, Repr

/-- `Mesh.write` with the exception of the implicit `assemble()` -/
def writeX (m : Mesh) : Mesh × Except ErrX Text :=
  let a := if isAssembled m then (m, false) else assembleX m
  if a.2 then (a.1, .error .create)
  else if !isAssembled a.1 then (a.1, .error .notAssembled)
  else
    let m2 := gradeBlocks a.1
    if m2.lists.blocks.all Block.isDefined then (m2, .ok (render m2)) else (m2, .error .undefined)

/-- `Mesh.backport` with the exception of the final `assemble()`: the depot is updated and the lists cleared before it -/
def backportX (m : Mesh) : Option (Mesh × Bool) :=
  if isAssembled m then
    some (assembleX (clear { m with depot := backportDepot m.lists.verts (m.lists.blocks.zip m.lists.assembled) m.depot }))
  else none

/-- one call, exceptions included (`T_C12_stepX_ok`: this is `step` when no operation carries invalid edge data) -/
def stepX (m : Mesh) : Step → Mesh
  | .assemble => (assembleX m).1
  | .backport => ((backportX m).map (·.1)).getD m
  | .write => (writeX m).1
  | s => step m s

def observeX (m : Mesh) : Step → String
  | .assemble => if (assembleX m).2 then "err:create" else "."
  | .write => match (writeX m).2 with
      | .ok t => "ok:" ++ join "\t" t
      | .error .notAssembled => "err:notAssembled"
      | .error .undefined => "err:undefined"
      | .error .create => "err:create"
  | .backport => match backportX m with
      | some (m', false) => "ok:" ++ join ";" (m'.depot.map (fun o => s!"{o.id}={join "|" (o.corners.map V3.toStr)}"))
      | some (_, true) => "err:create"
      | none => "err:notAssembled"
  | _ => "."

/-! ### line protocol -/

def optStr (s : String) : Option String := if s = "-" then none else some s

def parseOptList (s : String) : List (Option String) := (s.splitOn ",").map optStr

def parseLabels (s : String) : List String := if s = "-" then [] else s.splitOn "+"

/-- `x,y,z` with exact rationals `n/d` -/
def parsePt? (s : String) : Option Pt := CBV.parseV3? s

def parsePts? (s : String) : Option (List Pt) := (s.splitOn "|").mapM parsePt?

/-- `-` | `arc:pt` | `spline:pt|pt|…` | `polyLine:pt|pt|…` | `project:label+label` -/
def parseEdge? (s : String) : Option EdgeData :=
  if s = "-" then some .line else
  match s.splitOn ":" with
  | ["arc", p] => (parsePt? p).map .arc
  | ["spline", ps] => (parsePts? ps).map .spline
  | ["polyLine", ps] => (parsePts? ps).map .polyLine
  | ["project", ls] => some (.project (ls.splitOn "+"))
  | ["invalid"] => some .invalid
  | _ => none

def parseChops? (s : String) : Option (List Chop) :=
  if s = "-" then some [] else
    (s.splitOn "+").mapM (fun c => match c.splitOn "x" with
      | [r, n] => (n.toNat?).map (fun n => ⟨r, n⟩)
      | _ => none)

/-- `add!id!c0;..;c7!bp,tp,s0,s1,s2,s3!bj,tj,j0,j1,j2,j3!cp0,..,cp7!e0;..;e11!ch0,ch1,ch2!zone` (`ci` = `x,y,z`) -/
def parseOp? (f : List String) : Option Op :=
  match f with
  | [id, cs, ps, js, cps, es, chs, zone] => do
      let id ← id.toNat?
      let cs ← (cs.splitOn ";").mapM parsePt?
      if cs.length ≠ 8 then none
      let ps := parseOptList ps
      let js := parseOptList js
      if ps.length ≠ 6 || js.length ≠ 6 then none
      let cps := (cps.splitOn ",").map parseLabels
      if cps.length ≠ 8 then none
      let es ← (es.splitOn ";").mapM parseEdge?
      if es.length ≠ 12 then none
      let chs ← (chs.splitOn ",").mapM parseChops?
      if chs.length ≠ 3 then none
      some { id := id, corners := cs,
             bottomPatch := ps.getD 0 none, topPatch := ps.getD 1 none, sidePatches := ps.drop 2,
             bottomProj := js.getD 0 none, topProj := js.getD 1 none, sideProj := js.drop 2,
             cornerProj := cps, bottomEdges := es.take 4, topEdges := (es.drop 4).take 4, sideEdges := es.drop 8,
             chops := chs, zone := if zone = "-" then "" else zone }
  | _ => none

def parseStep? (s : String) : Option Step :=
  if s.startsWith "ent@" then
    -- `ent@<op>@<op>…`, every `<op>` as after `add!`
    ((s.splitOn "@").drop 1).mapM (fun o => parseOp? (o.splitOn "!")) |>.map Step.addEntity
  else
  match s.splitOn "!" with
  | "add" :: rest => (parseOp? rest).map Step.add
  | ["again", id] => (id.toNat?).map Step.readd
  | ["del", id] => (id.toNat?).map Step.delete
  | ["asm"] => some .assemble
  | ["clr"] => some .clear
  | ["bkp"] => some .backport
  | ["mv", r, l] => do some (.move (← r.toNat?) (← parsePt? l))
  | ["tr", r, d] => do some (.translate (← r.toNat?) (← parsePt? d))
  | ["mvto", r1, r2] => do some (.moveOnto (← r1.toNat?) (← r2.toNat?))
  | ["mod", n, k, st] => some (.modify n k (if st = "-" then none else if st = "0" then some [] else some (st.splitOn "|")))
  | ["def", n, k] => some (.setDefault n k)
  | ["mrg", a, b] => some (.merge a b)
  | ["wr"] => some .write
  | ["geo", n, ps] => some (.addGeometry n (if ps = "0" then [] else ps.splitOn "|"))
  | _ => none

def showDepot (m : Mesh) : String :=
  join ";" (m.depot.map (fun o => s!"{o.id}={join "|" (o.corners.map V3.toStr)}"))

/-- what the harness can observe of a call -/
def observe (m : Mesh) : Step → String
  | .write => match (write m).2 with
      | .ok t => "ok:" ++ join "\t" t
      | .error .notAssembled => "err:notAssembled"
      | .error .undefined => "err:undefined"
  | .backport => match backport m with
      | some m' => "ok:" ++ showDepot m'
      | none => "err:notAssembled"
  | _ => "."

/-- the internal state the harness reads off the `Mesh` object after every call: `Mesh.assembled`, `Mesh.deleted`,
    every `PatchList.patches` entry (also the emptied ones) with type and number of sides, `PatchList.modified`,
    the sizes of the vertex / duplicated / block / edge / face lists, geometry names, default patch, merged pairs -/
def stateDigest (m : Mesh) : String :=
  "A[" ++ join "," (m.lists.assembled.map toString) ++ "]D[" ++ join "," (m.deleted.map toString) ++
  "]P[" ++ join "," (m.lists.patches.map (fun p => s!"{p.name}:{p.kind}:{p.sides.length}")) ++
  "]M[" ++ join "," m.modified ++
  s!"]N[{m.lists.verts.length},{m.lists.blocks.length},{m.lists.edges.length},{m.lists.faces.length}]" ++
  "G[" ++ join "," (m.geometry.map (·.1)) ++ "]" ++
  (match m.dflt with | some (n, k) => s!"d[{n}:{k}]" | none => "d[]") ++ s!"m[{m.merged.length}]"

/-- `c12.hist step step …` → for every call its observation, `@`, the state after it; calls separated by `#` -/
def handleHist (args : List String) : Option String := do
  let steps ← args.mapM parseStep?
  let r := steps.foldl (fun (acc : Mesh × List String) s =>
    (stepX acc.1 s, (observeX acc.1 s ++ "@" ++ stateDigest (stepX acc.1 s)) :: acc.2)) ({}, [])
  some (join "#" r.2.reverse)

def handle (op : String) (args : List String) : Option String :=
  match op with
  | "c12.hist" => handleHist args
  | _ => none

end CBV.C12
