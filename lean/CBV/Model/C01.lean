/-
M-PROP — the faithful, executable model of grading propagation (shared by C01, C02, C04).

Mirrors, after the repairs f66801e / b381671 / a42ba54 / e8a1b02 of /repo:
  lists/block_list.py   BlockList.grade_blocks, propagate_gradings, check_consistency
  items/block.py        Block.grade, copy_grading, is_defined, format_grading (simple / edge)
  items/wires/axis.py   Axis.copy_grading, is_aligned, is_defined
  items/wires/manager.py WireChopManager.grade, WirePropagateManager.grade/copy_neighbours/
                        propagate_grading, is_simple, check_consistency, count
  grading/grading.py    Grading.inverted, __eq__ (math.isclose, rel_tol = TOL), count
  grading/chop.py       Chop.copy_preserving(inverted) (count kept, inversion parity flipped)

Numbering: block `b`, axis `a` (0..2), wire `k` (0..3, the k-th pair of AXIS_PAIRS[a]):
axis id `3*b+a`, wire id `12*b+4*a+k`.

What is *not* computed here: the expansion ratio a chop yields on a wire of a given length
(that is C03's subject).  It enters as the oracle `ev id inv w` ("total expansion of user chop
`id`, inverted `inv` times mod 2, on wire `w`").  Iteration orders of `Axis.neighbours` and
`Wire.coincidents` enter as the explicit schedule (`nbrs`, `coinc`).
Core Lean only.
-/
import CBV.Model.Common
import CBV.Gen.Tables

namespace CBV.Prop

/-- a chop as a propagate/chop manager holds it: which user chop it descends from, its length
    ratio, its resolved cell count, and whether it has been inverted an odd number of times -/
structure Chop where
  id : Nat
  ratio : Rat
  count : Nat
  inv : Bool
  deriving DecidableEq, Repr

/-- one division of a Grading.specification: [length ratio, count, total expansion] -/
structure Sec where
  ratio : Rat
  count : Nat
  exp : Rat
  deriving DecidableEq, Repr

abbrev Spec := List Sec

structure Inp where
  nBlocks : Nat
  /-- 8 vertex indexes per block (after vertex merging) -/
  verts : List (List Nat)
  /-- user chops per axis id (resolved counts), `[]` for an un-chopped axis -/
  chops : Nat → List Chop
  /-- schedule: iteration order of `Axis.neighbours` per axis id -/
  nbrs : Nat → List Nat
  /-- schedule: iteration order of `Wire.coincidents` per wire id -/
  coinc : Nat → List Nat
  /-- oracle: total expansion of user chop `id` with inversion parity `inv` on wire `w` -/
  ev : Nat → Bool → Nat → Rat

structure St where
  /-- Grading.specification of every wire (by wire id) -/
  spec : Nat → Spec
  /-- the chops each axis' manager holds (by axis id) -/
  mch : Nat → List Chop

/-! ### geometry of the numbering -/

def axisPair (a k : Nat) : Nat × Nat := (CBV.Gen.axisPairs.getD a []).getD k (0, 0)

/-- the two vertex indexes of a wire, in the wire's own direction -/
def wireVerts (inp : Inp) (w : Nat) : Nat × Nat :=
  let b := w / 12
  let p := axisPair ((w % 12) / 4) (w % 4)
  let vs := inp.verts.getD b []
  (vs.getD p.1 0, vs.getD p.2 0)

/-- `Wire.is_coincident` -/
def samePair (inp : Inp) (w w' : Nat) : Bool :=
  let p := wireVerts inp w
  let q := wireVerts inp w'
  (p.1 == q.1 && p.2 == q.2) || (p.1 == q.2 && p.2 == q.1)

/-- `Wire.is_aligned` (for coincident wires) -/
def aligned (inp : Inp) (w w' : Nat) : Bool :=
  let p := wireVerts inp w
  let q := wireVerts inp w'
  p.1 == q.1 && p.2 == q.2

def axisWires (x : Nat) : List Nat := [4 * x, 4 * x + 1, 4 * x + 2, 4 * x + 3]
def blockAxes (b : Nat) : List Nat := [3 * b, 3 * b + 1, 3 * b + 2]

/-- `Axis.is_aligned`: alignment of the first coincident wire pair found; `none` = "not neighbours" -/
def axisAligned (inp : Inp) (x y : Nat) : Option Bool :=
  let pairs := (axisWires x).flatMap (fun w => (axisWires y).map (fun w' => (w, w')))
  (pairs.find? (fun p => samePair inp p.1 p.2)).map (fun p => aligned inp p.1 p.2)

/-! ### gradings -/

def specOf (st : St) (w : Nat) : Spec := st.spec w
def chopsOf (st : St) (x : Nat) : List Chop := st.mch x

/-- `Grading.count` -/
def count (s : Spec) : Nat := (s.map (·.count)).sum

/-- `Grading.inverted` -/
def invertSpec (s : Spec) : Spec := s.reverse.map (fun d => { d with exp := 1 / d.exp })

def absR (q : Rat) : Rat := if q < 0 then -q else q
def maxR (a b : Rat) : Rat := if a < b then b else a

/-- `math.isclose(a, b, rel_tol=TOL)` with TOL = 1e-7 -/
def isclose (a b : Rat) : Bool := absR (a - b) ≤ (1 / 10000000 : Rat) * maxR (absR a) (absR b)

def secEq (a b : Sec) : Bool := isclose a.ratio b.ratio && isclose a.count b.count && isclose a.exp b.exp

/-- `Grading.__eq__` -/
def specEq : Spec → Spec → Bool
  | [], [] => true
  | a :: as, b :: bs => secEq a b && specEq as bs
  | _, _ => false

/-- the division a chop produces on a wire -/
def secOn (inp : Inp) (w : Nat) (c : Chop) : Sec := ⟨c.ratio, c.count, inp.ev c.id c.inv w⟩

/-- `Axis.is_defined` -/
def axisDefined (st : St) (x : Nat) : Bool := (axisWires x).all (fun w => !(specOf st w).isEmpty)
/-- `Block.is_defined` -/
def blockDefined (st : St) (b : Nat) : Bool := (blockAxes b).all (axisDefined st)

def setSpec (st : St) (w : Nat) (s : Spec) : St :=
  { st with spec := fun w' => if w' = w then s else st.spec w' }
def addChops (st : St) (x : Nat) (cs : List Chop) : St :=
  { st with mch := fun x' => if x' = x then st.mch x ++ cs else st.mch x' }

/-! ### grading one axis -/

/-- `WireChopManager.grade`: every wire gets the divisions of the axis' chops appended -/
def gradeChopped (inp : Inp) (st : St) (x : Nat) : St :=
  (axisWires x).foldl (fun st w => setSpec st w (specOf st w ++ (chopsOf st x).map (secOn inp w))) st

/-- `WirePropagateManager.copy_neighbours` for one wire: the last defined coincident wins -/
def copyWire (inp : Inp) (st : St) (w : Nat) : St :=
  (inp.coinc w).foldl (fun st cw =>
    if (specOf st cw).isEmpty then st
    else setSpec st w (if aligned inp cw w then specOf st cw else invertSpec (specOf st cw))) st

/-- `WirePropagateManager.propagate_grading` for one wire -/
def fillWire (inp : Inp) (st : St) (x w : Nat) : St :=
  if (specOf st w).isEmpty then setSpec st w ((chopsOf st x).map (secOn inp w)) else st

/-- `WirePropagateManager.grade` (idle while it holds no chops) -/
def gradePropagated (inp : Inp) (st : St) (x : Nat) : St :=
  if (chopsOf st x).isEmpty then st
  else
    let st := (axisWires x).foldl (copyWire inp) st
    (axisWires x).foldl (fun st w => fillWire inp st x w) st

def userChopped (inp : Inp) (x : Nat) : Bool := !(inp.chops x).isEmpty

/-- `Axis.grade` -/
def gradeAxis (inp : Inp) (st : St) (x : Nat) : St :=
  if userChopped inp x then gradeChopped inp st x else gradePropagated inp st x

/-- `BlockList.grade_blocks` -/
def gradeBlocks (inp : Inp) (st : St) : St :=
  (List.range (3 * inp.nBlocks)).foldl (gradeAxis inp) st

/-- `Chop.copy_preserving(inverted)` -/
def copyPreserving (inverted : Bool) (c : Chop) : Chop := { c with inv := if inverted then !c.inv else c.inv }

/-! ### the propagation loop -/

inductive Err where
  | undefined | inconsistent | badSchedule | outOfFuel
  deriving DecidableEq, Repr

/-- `Axis.copy_grading`: returns the new state and whether a grading was copied -/
def axisCopy (inp : Inp) (st : St) (x : Nat) : Except Err (St × Bool) :=
  if axisDefined st x then .ok (st, false)
  else
    match (inp.nbrs x).find? (axisDefined st) with
    | none => .ok (st, false)
    | some nb =>
      match axisAligned inp nb x with
      | none => .error .badSchedule
      | some true => .ok (gradeAxis inp (addChops st x ((chopsOf st nb).map (copyPreserving false))) x, true)
      | some false =>
        .ok (gradeAxis inp (addChops st x ((chopsOf st nb).reverse.map (copyPreserving true))) x, true)

/-- `Block.copy_grading`: all three axes are tried, in order -/
def blockCopy (inp : Inp) (st : St) (b : Nat) : Except Err (St × Bool) :=
  if blockDefined st b then .ok (st, false)
  else
    match axisCopy inp st (3 * b) with
    | .error e => .error e
    | .ok r0 =>
      match axisCopy inp r0.1 (3 * b + 1) with
      | .error e => .error e
      | .ok r1 =>
        match axisCopy inp r1.1 (3 * b + 2) with
        | .error e => .error e
        | .ok r2 => .ok (r2.1, r0.2 || r1.2 || r2.2)

/-- one pass of `for i in undefined_blocks` (ascending; removal of a defined block breaks the loop):
    (state, remaining work-list, updated) -/
def pass (inp : Inp) : St → List Nat → Except Err (St × List Nat × Bool)
  | st, [] => .ok (st, [], false)
  | st, b :: rest =>
    if blockDefined st b then .ok (st, rest, true)
    else
      match blockCopy inp st b with
      | .error e => .error e
      | .ok r =>
        match pass inp r.1 rest with
        | .error e => .error e
        | .ok p => .ok (p.1, b :: p.2.1, r.2 || p.2.2)

/-- `BlockList.propagate_gradings`: the `while` loop with fuel -/
def loop (inp : Inp) : Nat → St → List Nat → Except Err St
  | 0, _, _ => .error .outOfFuel
  | fuel + 1, st, wl =>
    match wl with
    | [] => .ok st
    | _ :: _ =>
      match pass inp st wl with
      | .error e => .error e
      | .ok r => if r.2.2 then loop inp fuel r.1 r.2.1 else .error .undefined

/-! ### the final consistency check (repaired: also against coincident wires) -/

def countsEqual (st : St) (x : Nat) : Bool :=
  (axisWires x).all (fun w => count (specOf st w) == count (specOf st (4 * x)))

def wireConsistent (inp : Inp) (st : St) (w : Nat) : Bool :=
  (inp.coinc w).all (fun cw =>
    count (specOf st w) == count (specOf st cw) &&
    specEq (specOf st w) (if aligned inp cw w then specOf st cw else invertSpec (specOf st cw)))

def axisConsistent (inp : Inp) (st : St) (x : Nat) : Bool :=
  countsEqual st x && (axisWires x).all (wireConsistent inp st)

def checkAll (inp : Inp) (st : St) : Bool := (List.range (3 * inp.nBlocks)).all (axisConsistent inp st)

/-- the schedule handed in must list, for every wire, every wire of another block on the same vertex pair
    (`BlockList.update_neighbours` guarantees it in the code) and only such wires -/
def coincComplete (inp : Inp) : Bool :=
  (List.range (12 * inp.nBlocks)).all (fun w =>
    (List.range (12 * inp.nBlocks)).all (fun w' =>
      if w / 12 != w' / 12 && samePair inp w w' then (inp.coinc w).contains w' else !(inp.coinc w).contains w'))

/-- every listed neighbour axis exists and shares a wire with the axis (`Axis.add_neighbour` guarantees it) -/
def nbrsValid (inp : Inp) : Bool :=
  (List.range (3 * inp.nBlocks)).all (fun x =>
    (inp.nbrs x).all (fun nb => decide (nb < 3 * inp.nBlocks) && (axisAligned inp nb x).isSome))

/-! ### the schedule as the code builds it

`BlockList.add` → `update_neighbours(new)`: for every earlier block `b'` (in insertion order) `b'.add_neighbour(new)` and
`new.add_neighbour(b')`; `Block.add_neighbour` loops `this_axis × candidate axis` (`Axis.add_neighbour`: added when the two
axes share a wire) and `this_wire × candidate wire` over the flat `wire_list` (`Wire.add_coincident`: added when the
vertex pairs coincide).  Neighbours and coincidents are insertion-ordered sets (repair e8a1b02), so both lists are a
function of the vertex indexes alone: for a wire / axis of block `b`, the other blocks in ascending order, within a
block in wire / axis order. -/

def otherBlocks (n b : Nat) : List Nat := (List.range n).filter (fun b' => b' != b)
def blockWires (b : Nat) : List Nat := (List.range 12).map (fun j => 12 * b + j)

/-- `Wire.coincidents` of wire `w` after all blocks were added -/
def builtCoinc (inp : Inp) (w : Nat) : List Nat :=
  (otherBlocks inp.nBlocks (w / 12)).flatMap (fun b' => (blockWires b').filter (fun w' => samePair inp w w'))

/-- `Axis.neighbours` of axis `x` after all blocks were added -/
def builtNbrs (inp : Inp) (x : Nat) : List Nat :=
  (otherBlocks inp.nBlocks (x / 3)).flatMap (fun b' => (blockAxes b').filter (fun y => (axisAligned inp y x).isSome))

/-- the input with the schedule the code builds from the vertex indexes -/
def withBuiltSchedule (inp : Inp) : Inp := { inp with nbrs := builtNbrs inp, coinc := builtCoinc inp }

def init (inp : Inp) : St := { spec := fun _ => [], mch := inp.chops }

/-- `Mesh.grade`: grade_blocks, propagate_gradings, check_consistency -/
def run (inp : Inp) : Except Err St :=
  if !(coincComplete inp && nbrsValid inp) then .error .badSchedule
  else
    match loop inp (4 * inp.nBlocks + 1) (gradeBlocks inp (init inp)) (List.range inp.nBlocks) with
    | .error e => .error e
    | .ok st => if checkAll inp st then .ok st else .error .inconsistent

/-! ### what is written -/

/-- `axis.count`: the axis-level grading for a chopped axis, wire 0 otherwise -/
def writtenCount (inp : Inp) (st : St) (x : Nat) : Nat :=
  if userChopped inp x then ((inp.chops x).map (·.count)).sum else count (specOf st (4 * x))

/-- `WireManagerBase.is_simple` -/
def isSimple (st : St) (x : Nat) : Bool :=
  [4 * x + 1, 4 * x + 2, 4 * x + 3].all (fun w => specEq (specOf st w) (specOf st (4 * x)))

end CBV.Prop

/-! ### line protocol (C01/C02/C04 share the entry point `c01.run`) -/
namespace CBV.C01
open CBV CBV.Prop

def parseChop (s : String) : Option (Nat × Chop) :=
  match s.splitOn ":" with
  | [x, id, r, c] => do
      some ((← x.toNat?), ⟨(← id.toNat?), (← parseRat? r), (← c.toNat?), false⟩)
  | _ => none

def parseNested (s : String) : Option (List (List Nat)) :=
  -- `a,b;c;;d` : lists separated by `;`, items by `,`
  (s.splitOn ";").mapM (fun part => if part.isEmpty then some [] else (part.splitOn ",").mapM String.toNat?)

def showSec (d : Sec) : String := s!"{showRat d.ratio}:{d.count}:{showRat d.exp}"
def showSpec (s : Spec) : String := "+".intercalate (s.map showSec)

def showErr : Err → String
  | .undefined => "undefined" | .inconsistent => "inconsistent"
  | .badSchedule => "bad-schedule" | .outOfFuel => "out-of-fuel"

/-- `c01.run <n> <verts a,b,..;…> <chops x:id:ratio:count|…|-> <nbrs ;-lists> <coinc ;-lists> <nIds> <ev [..]>`
    → `ok C[counts per axis] S[simple flag per axis] W[spec per wire ;-separated]` or `err <kind>`.
    `ev` is indexed `((2*id + inv) * 12n + w)`. -/
def handleRun (args : List String) : Option String :=
  match args with
  | [n, verts, chops, nbrs, coinc, _nIds, ev] => do
      let n ← n.toNat?
      let verts ← parseNested verts
      let cl ← if chops == "-" then some [] else (chops.splitOn "|").mapM parseChop
      let nbrs ← parseNested nbrs
      let coinc ← parseNested coinc
      let ev ← parseRatList? ev
      let eva := ev.toArray
      let nb := nbrs.toArray
      let co := coinc.toArray
      let inp : Inp := {
        nBlocks := n, verts := verts,
        chops := fun x => (cl.filter (fun p => p.1 == x)).map (·.2),
        nbrs := fun x => nb.getD x [], coinc := fun w => co.getD w [],
        ev := fun id inv w => eva.getD ((2 * id + (if inv then 1 else 0)) * (12 * n) + w) 0 }
      if verts.length != n || nbrs.length != 3 * n || coinc.length != 12 * n then none
      else
        match run inp with
        | .error e => some ("err " ++ showErr e)
        | .ok st =>
          let axes := List.range (3 * n)
          let cs := ",".intercalate (axes.map (fun x => toString (writtenCount inp st x)))
          let ss := ",".intercalate (axes.map (fun x => if isSimple st x then "1" else "0"))
          let ws := ";".intercalate ((List.range (12 * n)).map (fun w => showSpec (specOf st w)))
          some s!"ok C[{cs}] S[{ss}] W[{ws}]"
  | _ => none

/-- `c01.sched <n> <verts a,b,..;…>` → `N[nbrs per axis ;-separated] K[coincidents per wire ;-separated]`: the
    neighbour and coincident lists as `BlockList.add` builds them, in iteration order -/
def handleSched (args : List String) : Option String :=
  match args with
  | [n, verts] => do
      let n ← n.toNat?
      let verts ← parseNested verts
      if verts.length != n then none
      else
        let inp : Inp := { nBlocks := n, verts := verts, chops := fun _ => [], nbrs := fun _ => [], coinc := fun _ => [],
                           ev := fun _ _ _ => 1 }
        let show1 (l : List Nat) := ",".intercalate (l.map toString)
        let ns := ";".intercalate ((List.range (3 * n)).map (fun x => show1 (builtNbrs inp x)))
        let ks := ";".intercalate ((List.range (12 * n)).map (fun w => show1 (builtCoinc inp w)))
        some s!"N[{ns}] K[{ks}]"
  | _ => none

/-- `c01.orient <n> <verts> <o: one 0/1 per axis, comma separated>` → `coh 1` when the orientation is coherent
    (two wires on one vertex pair are aligned iff their axes are oriented alike: the hypothesis of `T_C04_parity`) -/
def handleOrient (args : List String) : Option String :=
  match args with
  | [n, verts, o] => do
      let n ← n.toNat?
      let verts ← parseNested verts
      let ob ← (o.splitOn ",").mapM String.toNat?
      if verts.length != n || ob.length != 3 * n then none
      else
        let inp : Inp := { nBlocks := n, verts := verts, chops := fun _ => [], nbrs := fun _ => [], coinc := fun _ => [],
                           ev := fun _ _ _ => 1 }
        let oa := ob.toArray
        let ok := (List.range (12 * n)).all (fun w => (List.range (12 * n)).all (fun w' =>
          !samePair inp w w' || (aligned inp w w' == (oa.getD (w / 4) 0 == oa.getD (w' / 4) 0))))
        some (if ok then "coh 1" else "coh 0")
  | _ => none

def handle (op : String) (args : List String) : Option String :=
  match op with
  | "c01.orient" => handleOrient args
  | "c01.sched" => handleSched args
  | "c01.run" => handleRun args
  | _ => none

end CBV.C01
