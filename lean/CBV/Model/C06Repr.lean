/-
C06 — `str(float)` / `repr(float)`: the shortest decimal that reads back to the same double, in Python's notation.

`pyRepr neg x` *generates* the text from the exact (dyadic) value `x` of the double: for n = 1, 2, … 17 significant
digits the correctly rounded n-digit decimal of `x` is tried and the first one inside the rounding interval of `x` is
taken (that is what `float_repr_style = 'short'` does), then written in fixed notation when the decimal point position
`dp` satisfies `-4 < dp ≤ 16` and in exponent notation otherwise.  `reprOk x cs` is the *validator*: the token `cs`
denotes a rational `q` that lies in the rounding interval of `x` (half an ulp on either side, a quarter below a power of
two; a boundary counts only for an even mantissa).  Subnormal doubles are outside the model (no grading is subnormal).

Core Lean only.
-/
import CBV.Model.C06Fmt

namespace CBV.C06

def absR (q : Rat) : Rat := if q < 0 then -q else q

/-- `10^e` for an integer `e` -/
def pow10R (e : Int) : Rat :=
  if 0 ≤ e then ((pow10 e.toNat : Nat) : Rat) else 1 / ((pow10 (-e).toNat : Nat) : Rat)

/-- half a unit in the last place of the double with the (dyadic, non-zero) value `x`:
    `2^(⌊log2 |x|⌋ − 53)` -/
def halfUlp (x : Rat) : Rat :=
  ((2 ^ Nat.log2 x.num.natAbs : Nat) : Rat) / (((2 ^ Nat.log2 x.den : Nat) : Rat) * ((2 ^ 53 : Nat) : Rat))

/-- `|x|` is a power of two: the doubles below it are half as far apart -/
def isPow2 (x : Rat) : Bool := x.num.natAbs == 2 ^ Nat.log2 x.num.natAbs

/-- the 53-bit mantissa of `x` is even (boundaries of the rounding interval round to `x`) -/
def mantEven (x : Rat) : Bool := (absR x / (4 * halfUlp x)).den == 1

/-- `q` rounds to the double `x` (round to nearest, ties to even): the rounding interval of `x` -/
def inRound (x q : Rat) : Bool :=
  let ax := absR x
  let aq := absR q
  let h := halfUlp x
  decide ((x < 0) ↔ (q < 0)) &&
  (if ax ≤ aq then decide (aq - ax < h) || (decide (aq - ax = h) && mantEven x)
   else
     let hd := if isPow2 x then h / 2 else h
     decide (ax - aq < hd) || (decide (ax - aq = hd) && mantEven x))

/-! ### generating the text -/

/-- number of zeros between the decimal point and the first digit of `0 < ax < 1` -/
def leadZeros (ax : Rat) : Nat → Nat → Nat
  | 0, j => j
  | f + 1, j => if ax * ((pow10 (j + 1) : Nat) : Rat) < 1 then leadZeros ax f (j + 1) else j

/-- position of the decimal point: `ax = 0.d₁d₂… × 10^dp` with `d₁ ≠ 0` -/
def decPoint (ax : Rat) : Int :=
  if 1 ≤ ax then ((Nat.toDigits 10 ax.floor.toNat).length : Int) else -((leadZeros ax 400 0 : Nat) : Int)

/-- the first `n = 1 … ` for which the correctly rounded `n`-digit decimal of `ax` reads back to `x`:
    `(m, e)` with the decimal `m · 10^e` -/
def shortestFrom (x ax : Rat) (dp : Int) : Nat → Nat → Option (Nat × Int)
  | 0, _ => none
  | f + 1, n =>
      let s : Int := (n : Int) - dp
      let m := roundHalfEven (ax * pow10R s)
      let q := ((m : Nat) : Rat) * pow10R (-s)
      if inRound (absR x) q then some (m, -s) else shortestFrom x ax dp f (n + 1)

def stripZeros : Nat → Nat → Int → Nat × Int
  | 0, m, e => (m, e)
  | f + 1, m, e => if m ≠ 0 ∧ m % 10 = 0 then stripZeros f (m / 10) (e + 1) else (m, e)

/-- exponent digits: at least two -/
def expDigits (n : Nat) : List Char := if n < 10 then '0' :: Nat.toDigits 10 n else Nat.toDigits 10 n

/-- digits `ds` with the decimal point at `dp`, in Python's `repr` notation -/
def reprLayout (ds : List Char) (dp : Int) : List Char :=
  if -4 < dp ∧ dp ≤ 16 then
    if dp ≤ 0 then '0' :: '.' :: (List.replicate (-dp).toNat '0' ++ ds)
    else if ds.length ≤ dp.toNat then ds ++ List.replicate (dp.toNat - ds.length) '0' ++ ['.', '0']
    else ds.take dp.toNat ++ '.' :: ds.drop dp.toNat
  else
    let ex := dp - 1
    ds.take 1 ++ (if 1 < ds.length then '.' :: ds.drop 1 else []) ++
      'e' :: (if ex < 0 then '-' else '+') :: expDigits ex.natAbs

/-- python `repr(x)` / `str(x)` of a float with the exact value `x` and sign bit `neg` -/
def pyReprChars (neg : Bool) (x : Rat) : List Char :=
  (if neg then ['-'] else []) ++
  (if x = 0 then ['0', '.', '0']
   else
     let ax := absR x
     match shortestFrom x ax (decPoint ax) 17 1 with
     | none => ['?']
     | some (m, e) =>
         let me := stripZeros 20 m e
         let ds := Nat.toDigits 10 me.1
         reprLayout ds ((ds.length : Int) + me.2))

def pyRepr (neg : Bool) (x : Rat) : String := String.ofList (pyReprChars neg x)

/-! ### reading a float token -/

/-- value of `[-]d…d[.d…d][e[+-]d…d]` -/
def floatValue (cs : List Char) : Option Rat :=
  let neg := cs.head? == some '-'
  let body := if neg then cs.tail else cs
  let ip := body.takeWhile Char.isDigit
  let r1 := body.dropWhile Char.isDigit
  let fp := match r1 with | '.' :: t => t.takeWhile Char.isDigit | _ => []
  let r2 := match r1 with | '.' :: t => t.dropWhile Char.isDigit | _ => r1
  let dotOk := match r1 with | '.' :: _ => !fp.isEmpty | _ => true
  let mant : Rat := ((Nat.ofDigitChars 10 ip 0 : Nat) : Rat) +
    ((Nat.ofDigitChars 10 fp 0 : Nat) : Rat) / ((pow10 fp.length : Nat) : Rat)
  let sgn : Rat := if neg then -1 else 1
  if ip.isEmpty || !dotOk then none
  else match r2 with
    | [] => some (sgn * mant)
    | 'e' :: t =>
        let eneg := t.head? == some '-'
        let ed := if t.head? == some '-' || t.head? == some '+' then t.tail else t
        if ed.isEmpty || !ed.all Char.isDigit then none
        else
          let ev : Int := (Nat.ofDigitChars 10 ed 0 : Nat)
          some (sgn * mant * pow10R (if eneg then -ev else ev))
    | _ => none

/-- **the validator**: the token denotes a number that rounds to the double `x` (sign bit `neg`) -/
def reprOk (neg : Bool) (x : Rat) (cs : List Char) : Bool :=
  match floatValue cs with
  | none => false
  | some q =>
      (cs.head? == some '-') == neg &&
      (if x = 0 then decide (q = 0) else inRound x q)

/-- no decimal with fewer significant digits rounds to `x`: with `q = m·10^e` (`m` without trailing zero) the
    two neighbours of `q` among the multiples of `10^(e+1)` are outside the rounding interval -/
def reprShortest (x : Rat) (m : Nat) (e : Int) : Bool :=
  let lo := ((m / 10 : Nat) : Rat) * pow10R (e + 1)
  let hi := ((m / 10 + 1 : Nat) : Rat) * pow10R (e + 1)
  m < 10 || (!inRound (absR x) lo && !inRound (absR x) hi)

end CBV.C06
