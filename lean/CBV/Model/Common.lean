/-
Shared, core-only helpers of the executable models: request parsing for the line protocol
(trusted: parsing only, no model logic), rationals as `n/d`.
-/
namespace CBV

/-- Parses a (possibly negative) integer. -/
def parseInt? (s : String) : Option Int := s.toInt?

/-- Parses `n/d` or `n` as an exact rational. -/
def parseRat? (s : String) : Option Rat :=
  match s.splitOn "/" with
  | [n] => (n.toInt?).map (fun i => (i : Rat))
  | [n, d] => do
      let n ← n.toInt?
      let d ← d.toNat?
      if d = 0 then none else some (mkRat n d)
  | _ => none

def showRat (q : Rat) : String := s!"{q.num}/{q.den}"

def parseNat? (s : String) : Option Nat := s.toNat?

/-- Parses `[a,b,c]` (no spaces, no nesting) into its items. `[]` is the empty list. -/
def parseList? (s : String) : Option (List String) :=
  if s.startsWith "[" && s.endsWith "]" then
    let inner := ((s.drop 1).dropEnd 1).toString
    if inner.isEmpty then some [] else some (inner.splitOn ",")
  else none

def parseNatList? (s : String) : Option (List Nat) := do
  let xs ← parseList? s
  xs.mapM parseNat?

def parseRatList? (s : String) : Option (List Rat) := do
  let xs ← parseList? s
  xs.mapM parseRat?

def showNatList (xs : List Nat) : String := "[" ++ ",".intercalate (xs.map toString) ++ "]"
def showStrList (xs : List String) : String := "[" ++ ",".intercalate xs ++ "]"
def showRatList (xs : List Rat) : String := "[" ++ ",".intercalate (xs.map showRat) ++ "]"

/-- Three-vectors over the rationals, used by every geometric model. -/
structure V3 where
  x : Rat
  y : Rat
  z : Rat
  deriving DecidableEq, Repr, Inhabited

namespace V3
def add (a b : V3) : V3 := ⟨a.x + b.x, a.y + b.y, a.z + b.z⟩
def sub (a b : V3) : V3 := ⟨a.x - b.x, a.y - b.y, a.z - b.z⟩
def smul (k : Rat) (a : V3) : V3 := ⟨k * a.x, k * a.y, k * a.z⟩
def neg (a : V3) : V3 := ⟨-a.x, -a.y, -a.z⟩
def dot (a b : V3) : Rat := a.x * b.x + a.y * b.y + a.z * b.z
def cross (a b : V3) : V3 := ⟨a.y * b.z - a.z * b.y, a.z * b.x - a.x * b.z, a.x * b.y - a.y * b.x⟩
def norm2 (a : V3) : Rat := dot a a
def zero : V3 := ⟨0, 0, 0⟩
instance : Add V3 := ⟨add⟩
instance : Sub V3 := ⟨sub⟩
instance : Neg V3 := ⟨neg⟩
@[simp] theorem add_x (a b : V3) : (a + b).x = a.x + b.x := rfl
@[simp] theorem add_y (a b : V3) : (a + b).y = a.y + b.y := rfl
@[simp] theorem add_z (a b : V3) : (a + b).z = a.z + b.z := rfl
@[simp] theorem sub_x (a b : V3) : (a - b).x = a.x - b.x := rfl
@[simp] theorem sub_y (a b : V3) : (a - b).y = a.y - b.y := rfl
@[simp] theorem sub_z (a b : V3) : (a - b).z = a.z - b.z := rfl
@[simp] theorem neg_x (a : V3) : (-a).x = -a.x := rfl
@[simp] theorem neg_y (a : V3) : (-a).y = -a.y := rfl
@[simp] theorem neg_z (a : V3) : (-a).z = -a.z := rfl
@[simp] theorem smul_x (k : Rat) (a : V3) : (smul k a).x = k * a.x := rfl
@[simp] theorem smul_y (k : Rat) (a : V3) : (smul k a).y = k * a.y := rfl
@[simp] theorem smul_z (k : Rat) (a : V3) : (smul k a).z = k * a.z := rfl
@[simp] theorem cross_x (a b : V3) : (cross a b).x = a.y * b.z - a.z * b.y := rfl
@[simp] theorem cross_y (a b : V3) : (cross a b).y = a.z * b.x - a.x * b.z := rfl
@[simp] theorem cross_z (a b : V3) : (cross a b).z = a.x * b.y - a.y * b.x := rfl
theorem ext' {a b : V3} (hx : a.x = b.x) (hy : a.y = b.y) (hz : a.z = b.z) : a = b := by
  cases a; cases b; simp_all
def toStr (a : V3) : String := s!"{showRat a.x},{showRat a.y},{showRat a.z}"
end V3

def parseV3? (s : String) : Option V3 :=
  match s.splitOn "," with
  | [a, b, c] => do
      let a ← parseRat? a; let b ← parseRat? b; let c ← parseRat? c
      some ⟨a, b, c⟩
  | _ => none

end CBV
