/-
M-PROP ∘ M-CALC — grading propagation with the chop calculator inside (C01, C02, C04; round 6).

M-PROP (`Model/C01.lean`) takes the cell count of every user chop and the total expansion a chop yields on a wire
as arguments.  Here both are *computed* from what `Mesh.grade` really reads: the chop arguments the user typed, the
vertex indexes and the wire lengths — by C03's exact model of `Chop.calculate` / `copy_preserving` / `invert`
(`Model/C03.lean`, imported, not modified):

  items/wires/manager.py  WireManagerBase.length           `avgLen`     (sum of the four edge lengths / 4)
                          WireChopManager.grade            `resolved`   axis-level `Grading.add_chop(chop)` on the average
                                                                        length: count and `Chop.results`
                                                           `held`       `chop.copy_preserving()`: count + preserved quantity
  items/wires/axis.py     Axis.copy_grading                `held … inv` `copy_preserving(inverted=True)` on the way to an
                                                                        anti-aligned direction (parity of the inversions)
  items/wires/wire.py     Wire.add_chop → Grading.add_chop `wireVals`   the held chop evaluated on `wire.length * length_ratio`
  grading/grading.py      Grading.add_chop                 length-ratio guard, `[length_ratio, count, total_expansion]`

What the code obtains from `log` / `brentq` / `**(1/k)` stays an oracle argument *validated* by C03's step
specifications (`rootOK`, `powOK`, `countOK`); what is exactly rational the model computes itself (`selfOracle`):
  * the count of `start_size + c2c_expansion` and `end_size + c2c_expansion` chops (`C03.searchCount`, exact),
  * `T^(1/(n-1))` for `n = 2` or `T = 1`,
  * and everything that needs no solver at all: count alone, count + c2c_expansion (every `preserve = c2c_expansion`
    copy of any chop, on any wire: `c^(n-1)`), near-uniform count + size, single cells.
The schedule is the one the model builds from the vertex indexes (`builtNbrs`, `builtCoinc`, memoised).
Core Lean only.
-/
import CBV.Model.C01
import CBV.Model.C03

namespace CBV.Prop

/-- a chop as the user enters it on axis `x`: `Chop(length_ratio, …, preserve)` after `__post_init__` -/
structure UChop where
  x : Nat
  ratio : Rat
  vals : C03.Vals
  preserve : C03.Q
  deriving Repr

/-- what `Mesh.grade` reads: topology, wire lengths, the user's chops (chop id = position in `uchops`),
    and the solver answers for the steps that are not rational -/
structure Geo where
  nBlocks : Nat
  /-- 8 vertex indexes per block -/
  verts : List (List Nat)
  /-- `Wire.length` by wire id -/
  len : Nat → Rat
  uchops : List UChop
  /-- tolerances with which supplied solver answers are validated (zero in the theorems) -/
  tol : C03.Tol
  /-- solver answers of the axis-level calculation of chop `id` -/
  oa : Nat → C03.Oracle
  /-- solver answers of the evaluation of chop `id`, inverted `inv`, on wire `w` -/
  ow : Nat → Bool → Nat → C03.Oracle

/-- `WireManagerBase.length` -/
def avgLen (g : Geo) (x : Nat) : Rat :=
  (0 + g.len (4 * x) + g.len (4 * x + 1) + g.len (4 * x + 2) + g.len (4 * x + 3)) / 4

/-- the ratio the count relations count with: `|r - 1| > TOL` decides between the geometric and the uniform formula -/
def countRatio (r : Rat) : Rat := if C03.absR (r - 1) > C03.TOL then r else 1

/-- exact `int(…) + 1`: the smallest number of cells of first size `s` and ratio `ρ` that exceeds `L` -/
def ownCount (s ρ L : Rat) : Option Int :=
  if 0 < s ∧ 0 < ρ ∧ 0 < L then (C03.searchCount s ρ L (C03.searchFuel s ρ L)).map Int.ofNat else none

/-- a supplied count is used instead of the model's own only where float rounding decides (`L / s` within the
    tolerance of a whole number): it must differ from the exact count and still satisfy the count specification
    with tolerance -/
def pickCount (t : C03.Tol) (s ρ L : Rat) (hint : Option Int) : Option Int :=
  match ownCount s ρ L, hint with
  | some a, some b => if a ≠ b ∧ 1 ≤ b ∧ C03.countOK t.cnt s ρ L b.toNat then some b else some a
  | some a, none => some a
  | none, _ => none

/-- the solver answers the model computes itself; the supplied ones are kept for the other steps -/
def selfOracle (t : C03.Tol) (L : Rat) (v : C03.Vals) (o : C03.Oracle) : C03.Oracle :=
  match v.count, v.start, v.end_, v.c2c, v.total with
  | none, some s, none, some r, none => { o with count := pickCount t s (countRatio r) L o.count }
  | none, none, some e, some r, none => { o with count := pickCount t e (1 / countRatio r) L o.count }
  | some n, none, none, none, some T =>
      if n = 2 then { o with c2c := some T } else if T = 1 then { o with c2c := some 1 } else o
  | _, _, _, _, _ => o

/-- the count the model found differs from the one supplied (a float-rounding boundary) -/
def boundaryAt (t : C03.Tol) (L : Rat) (v : C03.Vals) (o : C03.Oracle) : Bool :=
  match v.count, v.start, v.end_, v.c2c, v.total with
  | none, some s, none, some r, none => ownCount s (countRatio r) L != pickCount t s (countRatio r) L o.count
  | none, none, some e, some r, none => ownCount e (1 / countRatio r) L != pickCount t e (1 / countRatio r) L o.count
  | _, _, _, _, _ => false

abbrev CalcErr := C03.Err × Option C03.Rel

/-- `Grading.add_chop(chop)` on a length: the guard on the length ratio, then `chop.calculate(length * length_ratio)` -/
def evalOn (t : C03.Tol) (L ratio : Rat) (o : C03.Oracle) (v : C03.Vals) : Except CalcErr C03.Vals :=
  if ¬(0 < ratio ∧ ratio ≤ 1) then .error (.value, none)
  else C03.calculate t (L * ratio) (selfOracle t (L * ratio) v o) v

/-- `WireChopManager.grade`, first loop: the user's chop on the average length of its axis (`Chop.results`) -/
def resolved (g : Geo) (id : Nat) : Except CalcErr C03.Vals :=
  match g.uchops[id]? with
  | none => .error (.table, none)
  | some u => evalOn g.tol (avgLen g u.x) u.ratio (g.oa id) u.vals

/-- the chop a wire / a neighbouring direction gets: `copy_preserving(inverted)` of the resolved chop
    (copies of copies carry the same count and preserved quantity, so only the parity of the inversions matters) -/
def held (g : Geo) (id : Nat) (inv : Bool) : Except CalcErr C03.Vals :=
  match g.uchops[id]?, resolved g id with
  | some u, .ok res =>
      match C03.copyPreserving { params := u.vals, preserve := u.preserve, last := some res } inv with
      | .ok c => .ok c
      | .error e => .error (e, none)
  | _, .error e => .error e
  | none, _ => .error (.table, none)

/-- `Wire.add_chop(copy)`: a held chop evaluated on the wire's own length -/
def evalHeld (g : Geo) (u : UChop) (c : Except CalcErr C03.Vals) (id : Nat) (inv : Bool) (w : Nat) :
    Except CalcErr C03.Vals :=
  match c with
  | .ok c => evalOn g.tol (g.len w) u.ratio (g.ow id inv w) c
  | .error e => .error e

/-- the chop of user chop `id`, inverted `inv`, evaluated on wire `w` -/
def wireVals (g : Geo) (id : Nat) (inv : Bool) (w : Nat) : Except CalcErr C03.Vals :=
  match g.uchops[id]? with
  | some u => evalHeld g u (held g id inv) id inv w
  | none => .error (.table, none)

/-- the total expansion M-PROP asks for; `0` marks an evaluation that raises (no valid expansion is 0) -/
def totalOr0 (r : Except CalcErr C03.Vals) : Rat :=
  match r with
  | .ok v => v.total.getD 0
  | .error _ => 0

def evG (g : Geo) (id : Nat) (inv : Bool) (w : Nat) : Rat := totalOr0 (wireVals g id inv w)

def countOf (g : Geo) (id : Nat) : Nat :=
  match resolved g id with
  | .ok v => v.count.getD 0
  | .error _ => 0

/-- the chops of axis `x` as M-PROP holds them, in the order they were placed -/
def chopsOn (g : Geo) (x : Nat) : List Chop :=
  (g.uchops.zipIdx.filter (fun p => p.1.x == x)).map (fun p => ⟨p.2, p.1.ratio, countOf g p.2, false⟩)

/-- `evG` with the held chops looked up in a table built once (`toInp_ev`: the same function) -/
def evTab (g : Geo) (tab : Array (UChop × Except CalcErr C03.Vals × Except CalcErr C03.Vals))
    (id : Nat) (inv : Bool) (w : Nat) : Rat :=
  match tab[id]? with
  | some (u, h0, h1) => totalOr0 (evalHeld g u (if inv then h1 else h0) id inv w)
  | none => 0

/-- the M-PROP input: counts and expansions computed by the chop calculator, schedule built from the vertex indexes
    (all tables are built once, when the input is built) -/
def toInp (g : Geo) : Inp :=
  let base : Inp := { nBlocks := g.nBlocks, verts := g.verts, chops := fun _ => [], nbrs := fun _ => [],
                      coinc := fun _ => [], ev := fun _ _ _ => 1 }
  let ca := ((List.range (3 * g.nBlocks)).map (chopsOn g)).toArray
  let na := ((List.range (3 * g.nBlocks)).map (builtNbrs base)).toArray
  let ka := ((List.range (12 * g.nBlocks)).map (builtCoinc base)).toArray
  let tab := (g.uchops.zipIdx.map (fun p => (p.1, held g p.2 false, held g p.2 true))).toArray
  { base with
    chops := fun x => ca.getD x []
    nbrs := fun x => na.getD x []
    coinc := fun w => ka.getD w []
    ev := evTab g tab }

inductive GErr where
  /-- the axis-level calculation of user chop `id` raises -/
  | chop (id : Nat) (e : C03.Err)
  /-- the evaluation of a chop on wire `w` raises -/
  | wire (w : Nat)
  /-- `propagate_grading`'s trial evaluation on the average length of axis `x` raises -/
  | trial (x : Nat) (e : C03.Err)
  | prop (e : Err)
  deriving Repr

def firstChopError (g : Geo) : Option GErr :=
  (List.range g.uchops.length).findSome? (fun id =>
    match resolved g id with
    | .ok _ => none
    | .error e => some (.chop id e.1))

/-- `WirePropagateManager.propagate_grading` first evaluates every copied chop on the average length of its own axis;
    a missing solver answer is not an error of the chop -/
def firstTrialError (g : Geo) (inp : Inp) (st : St) : Option GErr :=
  (List.range (3 * g.nBlocks)).findSome? (fun x =>
    if userChopped inp x then none
    else (chopsOf st x).findSome? (fun c =>
      match g.uchops[c.id]?, held g c.id c.inv with
      | some u, .ok h =>
          match evalOn g.tol (avgLen g x) u.ratio {} h with
          | .error (.needs, _) => none
          | .error (e, _) => some (.trial x e)
          | .ok _ => none
      | _, _ => none))

def firstWireError (g : Geo) (st : St) : Option GErr :=
  (List.range (12 * g.nBlocks)).findSome? (fun w =>
    if (specOf st w).any (fun d => d.exp == 0) then some (.wire w) else none)

/-- `Mesh.grade` on the user's input: every chop manager resolves its chops (any error aborts), then M-PROP -/
def runG (g : Geo) : Except GErr St :=
  match firstChopError g with
  | some e => .error e
  | none =>
    let inp := toInp g
    match run inp with
    | .error e => .error (.prop e)
    | .ok st =>
      match firstWireError g st with
      | some e => .error e
      | none =>
        match firstTrialError g inp st with
        | some e => .error e
        | none => .ok st

end CBV.Prop

/-! ### line protocol -/
namespace CBV.C04
open CBV CBV.Prop

/-- `x;ratio;preserve;fields` with `fields` as in `c03.calc` (`count:5,c2c_expansion:11/10`) -/
def parseUChop (s : String) : Option UChop :=
  match s.splitOn ";" with
  | [x, r, p, fs] => do
      some { x := ← x.toNat?, ratio := ← parseRat? r, preserve := ← C03.Q.ofString? p, vals := ← C03.parseChop fs }
  | _ => none

/-- `id;n:41,c:5/4` -/
def parseAxisOracle (s : String) : Option (Nat × C03.Oracle) :=
  match s.splitOn ";" with
  | [id, o] => do some ((← id.toNat?), (← C03.parseOracle o))
  | _ => none

/-- `id;inv;w;c:5/4` -/
def parseWireOracle (s : String) : Option ((Nat × Bool × Nat) × C03.Oracle) :=
  match s.splitOn ";" with
  | [id, inv, w, o] => do
      let inv ← if inv = "1" then some true else if inv = "0" then some false else none
      some (((← id.toNat?), inv, (← w.toNat?)), (← C03.parseOracle o))
  | _ => none

def parseBar {α : Type} (f : String → Option α) (s : String) : Option (List α) :=
  if s = "-" then some [] else (s.splitOn "|").mapM f

def showGErr : GErr → String
  | .chop id e => s!"chop:{id}:{e.show}"
  | .wire w => s!"wire:{w}"
  | .trial x e => s!"trial:{x}:{e.show}"
  | .prop e => C01.showErr e

def showQ (g : Geo) (id : Nat) : String :=
  match g.uchops[id]?, resolved g id with
  | some u, .ok res => s!"{id}:{res.count.getD 0}:{C03.showOpt showRat (res.get u.preserve)}"
  | _, _ => s!"{id}:-:-"

/-- `c04.run <n> <verts a,b,..;…> <lens [..]> <chops x;ratio;preserve;fields|…|-> <axis oracles id;o|…|-> <wire oracles id;inv;w;o|…|-> <tol>`
    → `ok C[counts per axis] S[simple flag per axis] W[spec per wire] R[id:count:preserved value|…] B[chop ids whose count
    was taken from the supplied one at a rounding boundary]` or `err <kind> R[…] B[…]` -/
def handleRun (args : List String) : Option String :=
  match args with
  | [n, verts, lens, chops, oa, ow, tol] => do
      let n ← n.toNat?
      let verts ← C01.parseNested verts
      let lens ← parseRatList? lens
      let ucs ← parseBar parseUChop chops
      let oa ← parseBar parseAxisOracle oa
      let ow ← parseBar parseWireOracle ow
      let tol ← C03.parseTol tol
      if verts.length != n || lens.length != 12 * n then none
      else if ucs.any (fun u => decide (3 * n ≤ u.x)) then none
      else
        let la := lens.toArray
        -- the wire oracles in a table indexed `(2*id + inv) * 12n + w`
        let key := fun (id : Nat) (inv : Bool) (w : Nat) => (2 * id + (if inv then 1 else 0)) * (12 * n) + w
        let owa : Array (Option C03.Oracle) :=
          ow.foldl (fun a p => if p.1.2.2 < 12 * n then a.setIfInBounds (key p.1.1 p.1.2.1 p.1.2.2) (some p.2) else a)
            (Array.replicate (2 * ucs.length * (12 * n)) none)
        let oaa : Array (Option C03.Oracle) :=
          oa.foldl (fun a p => a.setIfInBounds p.1 (some p.2)) (Array.replicate ucs.length none)
        let g : Geo := {
          nBlocks := n, verts := verts, len := fun w => la.getD w 0, uchops := ucs, tol := tol,
          oa := fun id => (oaa.getD id none).getD {},
          ow := fun id inv w => (owa.getD (key id inv w) none).getD {} }
        let ids := List.range ucs.length
        let rs := "|".intercalate (ids.map (showQ g))
        let bs := ",".intercalate ((ids.filter (fun id =>
          match ucs[id]? with
          | some u => boundaryAt tol (avgLen g u.x * u.ratio) u.vals (g.oa id)
          | none => false)).map toString)
        match runG g with
        | .error e => some s!"err {showGErr e} R[{rs}] B[{bs}]"
        | .ok st =>
          let inp := toInp g
          let axes := List.range (3 * n)
          let cs := ",".intercalate (axes.map (fun x => toString (writtenCount inp st x)))
          let ss := ",".intercalate (axes.map (fun x => if isSimple st x then "1" else "0"))
          let ws := ";".intercalate ((List.range (12 * n)).map (fun w => C01.showSpec (specOf st w)))
          some s!"ok C[{cs}] S[{ss}] W[{ws}] R[{rs}] B[{bs}]"
  | _ => none

def handle (op : String) (args : List String) : Option String :=
  match op with
  | "c04.run" => handleRun args
  | _ => none

end CBV.C04
