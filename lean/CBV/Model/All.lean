import CBV.Model.C01
import CBV.Model.C02
import CBV.Model.C03
import CBV.Model.C04
import CBV.Model.C05
import CBV.Model.C06
import CBV.Model.C07
import CBV.Model.C08
import CBV.Model.C09
import CBV.Model.C10
import CBV.Model.C11
import CBV.Model.C12
import CBV.Model.C13
import CBV.Model.C14
import CBV.Model.C15
import CBV.Model.C16
import CBV.Model.C17
import CBV.Model.C18
import CBV.Model.C19
import CBV.Model.C20

namespace CBV

/-- Routes a request `cNN.xxx` to the model of property CNN. -/
def dispatch (op : String) (args : List String) : Option String :=
  match (op.splitOn ".").head? with
  | some "c01" => C01.handle op args
  | some "c02" => C02.handle op args
  | some "c03" => C03.handle op args
  | some "c04" => C04.handle op args
  | some "c05" => C05.handle op args
  | some "c06" => C06.handle op args
  | some "c07" => C07.handle op args
  | some "c08" => C08.handle op args
  | some "c09" => C09.handle op args
  | some "c10" => C10.handle op args
  | some "c11" => C11.handle op args
  | some "c12" => C12.handle op args
  | some "c13" => C13.handle op args
  | some "c14" => C14.handle op args
  | some "c15" => C15.handle op args
  | some "c16" => C16.handle op args
  | some "c17" => C17.handle op args
  | some "c18" => C18.handle op args
  | some "c19" => C19.handle op args
  | some "c20" => C20.handle op args
  | _ => none

end CBV
