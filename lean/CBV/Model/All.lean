import CBV.Model.C10

namespace CBV

/-- Routes a request to the model that owns the prefix. -/
def dispatch (op : String) (args : List String) : Option String :=
  if op.startsWith "c10." then C10.handle op args
  else none

end CBV
