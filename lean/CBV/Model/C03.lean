/-
C03 — model of the grading calculator: the twelve relations of `grading/relations.py` (as they are
after the repairs recorded in findings/C03.json), `Chop.__post_init__ / calculate / invert`
(`grading/chop.py`) and `Grading.add_chop / inverted` (`grading/grading.py`).  Core Lean only.

How the code is mirrored
* which relation is called when (`Chop.calculate`'s closure loop over the functions found by
  introspection) is `plan`, run on the relation table *generated from the source* (`CBV.Gen.relations`,
  in `inspect.getmembers` order);
* every guard (`_validate_*`, explicit `raise`), every branch on `TOL` and every closed formula is
  transcribed over exact rationals (`TOL`, `R_MAX` come from the generated tables as the exact
  rational images of the Python floats, so branch decisions coincide with the float comparison);
* what the code obtains from `log`, `int()`, `**(1/k)` or `scipy.optimize.brentq` is an *oracle
  argument* (the value the implementation obtained) that the model accepts only if it satisfies
  the exact specification of that step (`countOK`, `powCountOK`, `countTOK`, `rootOK`, `powOK`),
  with explicit tolerances `Tol` (zero in the theorems, float-rounding size in the correspondence run);
* `searchCount` is an executable exact version of `int(log(...)/log(c)) + 1` (proved to satisfy the
  strict count specification), used as an independent cross-check of the oracle counts.
-/
import CBV.Model.Common
import CBV.Gen.Tables
import CBV.Gen.TC03

namespace CBV.C03

/-! ### blockMesh's geometric progression (specification level) -/

/-- `1 + r + … + r^(n-1)` -/
def geomSum (r : Rat) : Nat → Rat
  | 0 => 0
  | n + 1 => geomSum r n + r ^ n

/-- closed form of `geomSum`, used wherever the model has to *evaluate* (equal by `gsum_eq_geomSum`) -/
def gsum (r : Rat) (n : Nat) : Rat := if r = 1 then (n : Rat) else (1 - r ^ n) / (1 - r)

/-- first cell blockMesh lays out on an edge of length `L` for `n` cells with cell-to-cell ratio `r` -/
def firstCell (L : Rat) (n : Nat) (r : Rat) : Rat := L / geomSum r n

/-- cell number `i` (0-based) of that progression -/
def cell (L : Rat) (n : Nat) (r : Rat) (i : Nat) : Rat := firstCell L n r * r ^ i

def lastCell (L : Rat) (n : Nat) (r : Rat) : Rat := cell L n r (n - 1)

/-! ### constants and small helpers -/

def TOL : Rat := (CBV.Gen.c03TolNum : Rat) / (CBV.Gen.c03TolDen : Rat)
def RMAX : Rat := (CBV.Gen.c03RmaxNum : Rat) / (CBV.Gen.c03RmaxDen : Rat)

def absR (x : Rat) : Rat := if x < 0 then -x else x

/-- the five quantities of a chop -/
inductive Q where
  | count | start | end_ | c2c | total
  deriving DecidableEq, Repr, Inhabited

def Q.ofString? : String → Option Q
  | "count" => some .count
  | "start_size" => some .start
  | "end_size" => some .end_
  | "c2c_expansion" => some .c2c
  | "total_expansion" => some .total
  | _ => none

def Q.name : Q → String
  | .count => "count"
  | .start => "start_size"
  | .end_ => "end_size"
  | .c2c => "c2c_expansion"
  | .total => "total_expansion"

/-- one relation `get_<out>__<in1>__<in2>` -/
structure Rel where
  out : Q
  in1 : Q
  in2 : Q
  deriving DecidableEq, Repr, Inhabited

def Rel.name (r : Rel) : String := s!"{r.out.name}<{r.in1.name}+{r.in2.name}"

/-- the relation table of the source, in the order in which `Chop.calculate` walks it -/
def relTable : Option (List Rel) :=
  CBV.Gen.relations.mapM fun (o, a, b) => do
    let o ← Q.ofString? o
    let a ← Q.ofString? a
    let b ← Q.ofString? b
    some ⟨o, a, b⟩

/-! ### `Chop.calculate`: which relation runs when (depends on the *names* of the known values only) -/

/-- one pass of `for chop_rel in ChopRelation.get_possible_combinations()`: a relation runs when its
    output is not yet known and both inputs are (values computed earlier in the same pass count) -/
def roundNames (rels : List Rel) (known : List Q) : List Q × List Rel :=
  rels.foldl
    (fun (acc : List Q × List Rel) rel =>
      if rel.out ∈ acc.1 then acc
      else if rel.in1 ∈ acc.1 ∧ rel.in2 ∈ acc.1 then (rel.out :: acc.1, acc.2 ++ [rel])
      else acc)
    (known, [])

def allFive (known : List Q) : Bool :=
  [Q.count, Q.total, Q.c2c, Q.start, Q.end_].all (fun q => decide (q ∈ known))

/-- `for _ in range(fuel)`: test for completeness first, then one pass.  Returns the relations in
    execution order, the number of passes made and whether the loop returned (rather than falling
    through to `raise ValueError("Could not calculate …")`). -/
def planLoop (rels : List Rel) : Nat → List Q → List Rel → Nat → List Rel × Nat × Bool
  | 0, _, acc, rounds => (acc, rounds, false)
  | fuel + 1, known, acc, rounds =>
      if allFive known then (acc, rounds, true)
      else
        let r := roundNames rels known
        planLoop rels fuel r.1 (acc ++ r.2) (rounds + 1)

/-- number of iterations of the `for` loop in `Chop.calculate`: the bound of its one `range(N)` loop, read from the
    source text at every run (no or several such loops: 0, and the closure theorems fail) -/
def calcRounds : Nat :=
  match CBV.Gen.c03CalcRounds with
  | [n] => n
  | _ => 0

def plan (known : List Q) : Option (List Rel × Nat × Bool) :=
  relTable.map fun rels => planLoop rels calcRounds known [] 0

/-! ### the validator calls of the relations, as the source text has them -/

/-- one `_validate_*` call -/
inductive Guard where
  | length            -- `_validate_length(length)`: `length > 0`
  | countGe1          -- `_validate_count(count, ">=1")`
  | countGt1          -- `_validate_count(count, ">1")`
  | size (q : Q)      -- `_validate_start_end_size(<q>, …)`: `> 0`
  | ratio (q : Q)     -- `_validate_c2c_expansion` / `_validate_total_expansion`: `!= 0`
  deriving DecidableEq, Repr

def Guard.ofStrings? : String × String → Option Guard
  | ("_validate_length", "length") => some .length
  | ("_validate_count", "count >=1") => some .countGe1
  | ("_validate_count", "count >1") => some .countGt1
  | ("_validate_start_end_size", "start_size start") => some (.size .start)
  | ("_validate_start_end_size", "end_size end") => some (.size .end_)
  | ("_validate_c2c_expansion", "c2c_expansion") => some (.ratio .c2c)
  | ("_validate_total_expansion", "total_expansion") => some (.ratio .total)
  | _ => none

def parseRelName (s : String) : Option Rel :=
  match s.splitOn "<" with
  | [o, ins] =>
      match ins.splitOn "+" with
      | [a, b] => do some ⟨← Q.ofString? o, ← Q.ofString? a, ← Q.ofString? b⟩
      | _ => none
  | _ => none

/-- what the model functions below implement: the same validators, and as many further explicit rejections
    (`raise` statements: the bracket tests of the root finders, the `TOL` test, the sign test, the `isnan` test, the
    test `length > start_size > 0`) -/
def modelGuards : List (Rel × List Guard × Nat) :=
  [(⟨.c2c, .count, .end_⟩, [.length, .countGe1, .size .end_], 1),
   (⟨.c2c, .count, .start⟩, [.length, .countGe1], 2),
   (⟨.c2c, .count, .total⟩, [.length, .countGt1, .ratio .total], 0),
   (⟨.count, .end_, .c2c⟩, [.length, .size .end_, .ratio .c2c], 1),
   (⟨.count, .start, .c2c⟩, [.length, .size .start, .ratio .c2c], 0),
   (⟨.count, .total, .c2c⟩, [.length, .ratio .total, .ratio .c2c], 2),
   (⟨.count, .total, .start⟩, [.length, .size .start, .ratio .total], 0),
   (⟨.end_, .start, .total⟩, [.length, .ratio .total], 0),
   (⟨.start, .count, .c2c⟩, [.length, .countGe1, .ratio .c2c], 0),
   (⟨.start, .end_, .total⟩, [.length, .ratio .total], 0),
   (⟨.total, .count, .c2c⟩, [.length, .countGe1, .ratio .c2c], 0),
   (⟨.total, .start, .end_⟩, [.length, .size .start, .size .end_], 0)]

/-! ### errors, oracle, tolerances -/

inductive Err where
  /-- `ValueError` raised by a guard, an explicit `raise`, or `int(nan)` -/
  | value
  /-- `ZeroDivisionError` -/
  | zeroDiv
  /-- the numeric step cannot succeed for these inputs (the code fails with an Overflow/ZeroDivision/ValueError) -/
  | numeric
  /-- a solver result is needed here and none was supplied (the implementation's solver raised) -/
  | needs
  /-- the supplied solver result violates the specification of the step -/
  | fail (why : String)
  /-- the generated relation table contains something the model does not know -/
  | table
  /-- outside what is modelled (negative ratios: complex / nan arithmetic) -/
  | unmodelled
  deriving DecidableEq, Repr

def Err.show : Err → String
  | .value => "ValueError"
  | .zeroDiv => "ZeroDivisionError"
  | .numeric => "Numeric"
  | .needs => "needs-oracle"
  | .fail w => "fail:" ++ w
  | .table => "table"
  | .unmodelled => "unmodelled"

/-- what the implementation obtained from its numeric solvers -/
structure Oracle where
  /-- result of the count relation (`int(…) + 1`, `ceil`) -/
  count : Option Int := none
  /-- result of the c2c relation (`brentq`, `**(1/(n-1))`) -/
  c2c : Option Rat := none
  /-- witness for `T^(1/(n-1))` (only for `count<total+start`) -/
  w1 : Option Rat := none
  /-- witness for `T^(1/(n-2))` (only for `count<total+start`) -/
  w2 : Option Rat := none
  deriving Repr

structure Tol where
  /-- slack of the count specifications, relative to the length -/
  cnt : Rat := 0
  /-- residual allowed for roots and powers, relative -/
  root : Rat := 0
  deriving Repr

/-! ### specifications of the numeric steps (decidable over ℚ) -/

/-- `n = int(x) + 1` where `x` solves `s·(1 + ρ + … + ρ^(x-1)) = L`:
    `n-1` cells of first size `s` and ratio `ρ` do not exceed the edge, `n` cells reach it. -/
def countOK (ε s ρ L : Rat) (n : Nat) : Bool :=
  decide (1 ≤ n) && decide (s * gsum ρ (n - 1) ≤ L * (1 + ε)) && decide (L * (1 - ε) ≤ s * gsum ρ n)

/-- `n = int(log T / log r) + 1`: `r^(n-1)` has not passed `T`, `r^n` has (both on the side of 1 where `r` is) -/
def powCountOK (ε r T : Rat) (n : Nat) : Bool :=
  decide (1 ≤ n) &&
    ((decide (1 < r) && decide (r ^ (n - 1) ≤ T * (1 + ε)) && decide (T * (1 - ε) ≤ r ^ n)) ||
     (decide (r < 1) && decide (T * (1 - ε) ≤ r ^ (n - 1)) && decide (r ^ n ≤ T * (1 + ε))))

/-- `c` is a positive root of `first·(1 + c + … + c^(n-1)) = L` -/
def rootOK (ε first c L : Rat) (n : Nat) : Bool :=
  decide (0 < c) && decide (absR (first * gsum c n - L) ≤ ε * L)

/-- `c` is the positive `m`-th root of `T` -/
def powOK (ε c T : Rat) (m : Nat) : Bool :=
  decide (0 < c) && decide (absR (c ^ m - T) ≤ ε * absR T)

/-- the count obtained by root finding from total expansion `T` and start size `s`:
    with `n` cells and total expansion `T` the progression starting with `s` reaches the edge,
    with `n-1` cells it does not exceed it; `w1`, `w2` witness `T^(1/(n-1))`, `T^(1/(n-2))`. -/
def countTOK (t : Tol) (L s T : Rat) (n : Nat) (w1 w2 : Option Rat) : Bool :=
  decide (1 ≤ n) &&
    (if n = 1 then decide (L * (1 - t.cnt) ≤ s)
     else match w1 with
       | some w => powOK t.root w T (n - 1) && decide (L * (1 - t.cnt) ≤ s * gsum w n)
       | none => false) &&
    (if n ≤ 1 then true
     else if n = 2 then decide (s ≤ L * (1 + t.cnt))
     else match w2 with
       | some w => powOK t.root w T (n - 2) && decide (s * gsum w (n - 1) ≤ L * (1 + t.cnt))
       | none => false)

/-! ### executable exact count: the smallest `n ≥ 1` with `s·geomSum r n > L` -/

def searchFrom (s r L : Rat) : Nat → Nat → Rat → Rat → Option Nat
  | 0, _, _, _ => none
  | fuel + 1, k, acc, pw =>
      let acc' := acc + s * pw
      if L < acc' then some (k + 1) else searchFrom s r L fuel (k + 1) acc' (pw * r)

def searchCount (s r L : Rat) (fuel : Nat) : Option Nat := searchFrom s r L fuel 0 0 1

/-- enough fuel for `searchCount` whenever a count exists (`T_C03_search_total`) -/
def searchFuel (s r L : Rat) : Nat :=
  if 1 ≤ r then (L / s).floor.toNat + 1
  else
    let a := 1 - L * (1 - r) / s
    if a ≤ 0 then 0 else ((1 / a - 1) / (1 / r - 1)).floor.toNat + 1

/-! ### the twelve relations -/

def guardLen (L : Rat) : Except Err Unit := if L ≤ 0 then .error .value else pure ()
def guardCountGe1 (n : Nat) : Except Err Unit := if n < 1 then .error .value else pure ()
def guardSize (s : Rat) : Except Err Unit := if s ≤ 0 then .error .value else pure ()
def guardRatio (r : Rat) : Except Err Unit := if r = 0 then .error .value else pure ()

/-- takes the count supplied by the oracle when it satisfies `ok` -/
def oracleCount (o : Oracle) (ok : Nat → Bool) (why : String) : Except Err Nat :=
  match o.count with
  | none => .error .needs
  | some n => if 1 ≤ n ∧ ok n.toNat then pure n.toNat else .error (.fail why)

def oracleC2c (o : Oracle) (ok : Rat → Bool) (why : String) : Except Err Rat :=
  match o.c2c with
  | none => .error .needs
  | some c => if ok c then pure c else .error (.fail why)

/-- `get_start_size__count__c2c_expansion` -/
def startCountC2c (L : Rat) (n : Nat) (r : Rat) : Except Err Rat := do
  guardLen L
  guardCountGe1 n
  guardRatio r
  if absR (r - 1) > TOL then
    if 1 - r ^ n = 0 then .error .zeroDiv else pure (L * (1 - r) / (1 - r ^ n))
  else pure (L / n)

/-- `get_start_size__end_size__total_expansion` -/
def startEndTotal (L e T : Rat) : Except Err Rat := do
  guardLen L
  guardRatio T
  pure (e / T)

/-- `get_end_size__start_size__total_expansion` -/
def endStartTotal (L s T : Rat) : Except Err Rat := do
  guardLen L
  guardRatio T
  pure (s * T)

/-- `get_count__start_size__c2c_expansion`: `int(log(1 - L/s·(1-r)) / log r) + 1`, or `int(L/s) + 1` -/
def countStartC2c (t : Tol) (o : Oracle) (L s r : Rat) : Except Err Nat := do
  guardLen L
  guardSize s
  guardRatio r
  if absR (r - 1) > TOL then
    if r < 0 then .error .value                       -- log of a negative number: nan, int(nan)
    else
      let a := 1 - L / s * (1 - r)
      if a < 0 then .error .value                     -- nan
      else if a = 0 then .error .numeric              -- -inf
      else oracleCount o (countOK t.cnt s r L) "count<start_size+c2c_expansion"
  else oracleCount o (countOK t.cnt s 1 L) "count<start_size+c2c_expansion:uniform"

/-- `get_count__end_size__c2c_expansion`: the same progression counted from the last cell -/
def countEndC2c (t : Tol) (o : Oracle) (L e r : Rat) : Except Err Nat := do
  guardLen L
  guardSize e
  guardRatio r
  if absR (r - 1) > TOL then
    if r < 0 then .error .value
    else
      let b := 1 + L / e * (1 - r) / r
      if b < 0 then .error .value                     -- explicit isnan check
      else if b = 0 then .error .numeric
      else oracleCount o (countOK t.cnt e (1 / r) L) "count<end_size+c2c_expansion"
  else oracleCount o (countOK t.cnt e 1 L) "count<end_size+c2c_expansion:uniform"

/-- `get_count__total_expansion__c2c_expansion`: `int(log T / log r) + 1` -/
def countTotalC2c (t : Tol) (o : Oracle) (L T r : Rat) : Except Err Nat := do
  guardLen L
  guardRatio T
  guardRatio r
  if absR (r - 1) ≤ TOL then .error .value
  else if r < 0 ∨ T < 0 then .error .value            -- nan
  else if (T - 1) * (r - 1) < 0 then .error .value    -- ratios on opposite sides of 1 (repair)
  else oracleCount o (powCountOK t.cnt r T) "count<total_expansion+c2c_expansion"

/-- `d_min`: the smaller of first and last cell size -/
def dMin (T s : Rat) : Rat := if T > 1 then s else s * T

/-- `get_count__total_expansion__start_size`: `ceil(L/d_min)` for `|T-1| < TOL`, else `int(brentq) + 1` -/
def countTotalStart (t : Tol) (o : Oracle) (L T s : Rat) : Except Err Nat := do
  guardLen L
  guardSize s
  guardRatio T
  if absR (T - 1) < TOL then oracleCount o (countOK t.cnt (dMin T s) 1 L) "count<total_expansion+start_size:uniform"
  else if T < 0 then .error .unmodelled
  else oracleCount o (fun n => countTOK t L s T n o.w1 o.w2) "count<total_expansion+start_size"

/-- `get_c2c_expansion__count__start_size` -/
def c2cCountStart (t : Tol) (o : Oracle) (L : Rat) (n : Nat) (s : Rat) : Except Err Rat := do
  guardLen L
  guardCountGe1 n
  if ¬(L > s ∧ s > 0) then .error .value
  else if n = 1 then pure 1
  else if absR (n * s - L) / L < TOL then pure 1
  else oracleC2c o (fun c => rootOK t.root s c L n) "c2c_expansion<count+start_size"

/-- `get_c2c_expansion__count__end_size` -/
def c2cCountEnd (t : Tol) (o : Oracle) (L : Rat) (n : Nat) (e : Rat) : Except Err Rat := do
  guardLen L
  guardCountGe1 n
  guardSize e
  if absR (n * e - L) / L < TOL then pure 1
  else if n = 1 then .error .zeroDiv
  else oracleC2c o (fun c => rootOK t.root e (1 / c) L n) "c2c_expansion<count+end_size"

/-- `get_c2c_expansion__count__total_expansion`: `T ** (1/(n-1))` -/
def c2cCountTotal (t : Tol) (o : Oracle) (L : Rat) (n : Nat) (T : Rat) : Except Err Rat := do
  guardLen L
  if ¬(n > 1) then .error .value
  else do
    guardRatio T
    if T < 0 then .error .unmodelled
    else oracleC2c o (fun c => powOK t.root c T (n - 1)) "c2c_expansion<count+total_expansion"

/-- `get_total_expansion__count__c2c_expansion` -/
def totalCountC2c (L : Rat) (n : Nat) (r : Rat) : Except Err Rat := do
  guardLen L
  guardCountGe1 n
  guardRatio r
  pure (r ^ (n - 1))

/-- `get_total_expansion__start_size__end_size` -/
def totalStartEnd (L s e : Rat) : Except Err Rat := do
  guardLen L
  guardSize s
  guardSize e
  pure (e / s)

/-! ### `Chop` -/

/-- the five grading fields of a `Chop` after `__post_init__` / the dictionary `data` of `calculate` -/
structure Vals where
  count : Option Nat := none
  start : Option Rat := none
  end_ : Option Rat := none
  c2c : Option Rat := none
  total : Option Rat := none
  deriving Repr, DecidableEq

def Vals.known (v : Vals) : List Q :=
  (if v.count.isSome then [Q.count] else []) ++ (if v.start.isSome then [Q.start] else []) ++
  (if v.end_.isSome then [Q.end_] else []) ++ (if v.c2c.isSome then [Q.c2c] else []) ++
  (if v.total.isSome then [Q.total] else [])

/-- `Chop.__post_init__`: `count = max(int(count), 1)`; with fewer than two parameters `c2c_expansion = 1` -/
def postInit (count : Option Int) (start end_ c2c total : Option Rat) : Vals :=
  let given := (if count.isSome then 1 else 0) + (if start.isSome then 1 else 0) + (if end_.isSome then 1 else 0)
    + (if c2c.isSome then 1 else 0) + (if total.isSome then 1 else 0)
  { count := count.map (fun c => (max c 1).toNat), start := start, end_ := end_,
    c2c := if given < 2 ∧ c2c.isNone then some 1 else c2c, total := total }

/-- one call `data[output] = function(length, data[input_1], data[input_2])` -/
def applyRel (t : Tol) (L : Rat) (o : Oracle) (v : Vals) (rel : Rel) : Except Err Vals :=
  match rel with
  | ⟨.c2c, .count, .end_⟩ =>
      match v.count, v.end_ with
      | some n, some e => (c2cCountEnd t o L n e).map fun c => { v with c2c := some c }
      | _, _ => .error .table
  | ⟨.c2c, .count, .start⟩ =>
      match v.count, v.start with
      | some n, some s => (c2cCountStart t o L n s).map fun c => { v with c2c := some c }
      | _, _ => .error .table
  | ⟨.c2c, .count, .total⟩ =>
      match v.count, v.total with
      | some n, some T => (c2cCountTotal t o L n T).map fun c => { v with c2c := some c }
      | _, _ => .error .table
  | ⟨.count, .end_, .c2c⟩ =>
      match v.end_, v.c2c with
      | some e, some r => (countEndC2c t o L e r).map fun n => { v with count := some n }
      | _, _ => .error .table
  | ⟨.count, .start, .c2c⟩ =>
      match v.start, v.c2c with
      | some s, some r => (countStartC2c t o L s r).map fun n => { v with count := some n }
      | _, _ => .error .table
  | ⟨.count, .total, .c2c⟩ =>
      match v.total, v.c2c with
      | some T, some r => (countTotalC2c t o L T r).map fun n => { v with count := some n }
      | _, _ => .error .table
  | ⟨.count, .total, .start⟩ =>
      match v.total, v.start with
      | some T, some s => (countTotalStart t o L T s).map fun n => { v with count := some n }
      | _, _ => .error .table
  | ⟨.end_, .start, .total⟩ =>
      match v.start, v.total with
      | some s, some T => (endStartTotal L s T).map fun e => { v with end_ := some e }
      | _, _ => .error .table
  | ⟨.start, .count, .c2c⟩ =>
      match v.count, v.c2c with
      | some n, some r => (startCountC2c L n r).map fun s => { v with start := some s }
      | _, _ => .error .table
  | ⟨.start, .end_, .total⟩ =>
      match v.end_, v.total with
      | some e, some T => (startEndTotal L e T).map fun s => { v with start := some s }
      | _, _ => .error .table
  | ⟨.total, .count, .c2c⟩ =>
      match v.count, v.c2c with
      | some n, some r => (totalCountC2c L n r).map fun T => { v with total := some T }
      | _, _ => .error .table
  | ⟨.total, .start, .end_⟩ =>
      match v.start, v.end_ with
      | some s, some e => (totalStartEnd L s e).map fun T => { v with total := some T }
      | _, _ => .error .table
  | _ => .error .table

/-- the relations of the plan, in order; the first error aborts (and is reported with its position) -/
def runSteps (t : Tol) (L : Rat) (o : Oracle) : List Rel → Vals → Except (Err × Rel) Vals
  | [], v => pure v
  | rel :: rest, v =>
      match applyRel t L o v rel with
      | .error e => .error (e, rel)
      | .ok v' => runSteps t L o rest v'

/-- `Chop.calculate(length)`: the resolved values (`Chop.results`); the method returns
    `(results.count, results.total)`. -/
def calculate (t : Tol) (L : Rat) (o : Oracle) (v : Vals) : Except (Err × Option Rel) Vals :=
  match plan v.known with
  | none => .error (.table, none)
  | some (steps, _, done) =>
      match runSteps t L o steps v with
      | .error (e, rel) => .error (e, some rel)
      | .ok v' => if done then pure v' else .error (.value, none)   -- "Could not calculate count and grading …"

/-- `Chop.invert` (on the fields; `1 / 0` raises) -/
def invert (v : Vals) : Except Err Vals :=
  if v.c2c = some 0 ∨ v.total = some 0 then .error .zeroDiv
  else pure { count := v.count, start := v.end_, end_ := v.start,
              c2c := v.c2c.map (fun c => 1 / c), total := v.total.map (fun T => 1 / T) }

/-- what a raising `invert` leaves behind: the sizes are swapped first, then `1 / c2c`, then `1 / total` -/
def invertLeft (v : Vals) : Vals :=
  if v.c2c = some 0 then { v with start := v.end_, end_ := v.start }
  else { v with start := v.end_, end_ := v.start, c2c := v.c2c.map (fun c => 1 / c) }

/-! ### histories on one `Chop` object

The state of a `Chop` object, as far as `calculate` is concerned, is its parameter record: `calculate` reads
the five fields and overwrites `results`, it never reads `results`; `invert` rewrites the fields in place.
So a history of calls on one object is a fold over the parameter record, and every `calculate` in it
answers exactly as a fresh chop with the current parameters would. -/

/-- plain attribute assignment `chop.<field> = x` (no `__post_init__`: nothing is clamped or defaulted) -/
def Vals.assign (v : Vals) (q : Q) (x : Rat) : Vals :=
  match q with
  | .count => { v with count := some x.floor.toNat }
  | .start => { v with start := some x }
  | .end_ => { v with end_ := some x }
  | .c2c => { v with c2c := some x }
  | .total => { v with total := some x }

inductive Step where
  /-- `chop.calculate(L)`, with the solver answers observed in that call -/
  | eval (t : Tol) (L : Rat) (o : Oracle)
  /-- `chop.invert()` -/
  | invert
  /-- `chop.<field> = x` -/
  | assign (q : Q) (x : Rat)
  deriving Repr

/-- the parameter record after the steps (an `invert` that raises leaves the half-inverted record `invertLeft`)
    and the outcome of every step in order (`none` for a successful `invert`) -/
def runHistory : Vals → List Step → Vals × List (Option (Except (Err × Option Rel) Vals))
  | v, [] => (v, [])
  | v, .eval t L o :: rest =>
      let r := runHistory v rest
      (r.1, some (calculate t L o v) :: r.2)
  | v, .assign q x :: rest =>
      let r := runHistory (v.assign q x) rest
      (r.1, none :: r.2)
  | v, .invert :: rest =>
      match invert v with
      | .ok w => let r := runHistory w rest; (r.1, none :: r.2)
      | .error e => let r := runHistory (invertLeft v) rest; (r.1, some (.error (e, none)) :: r.2)

def Vals.get (v : Vals) : Q → Option Rat
  | .count => v.count.map (fun n => (n : Rat))
  | .start => v.start
  | .end_ => v.end_
  | .c2c => v.c2c
  | .total => v.total

/-! ### a `Chop` object with its `preserve` field and its `results`; `copy_preserving`

`copy_preserving(inverted)` builds a NEW chop from the count and the preserved quantity of the last `results`
and inverts that new chop; the object it is called on is not touched. -/

structure Obj where
  params : Vals
  /-- `Chop.preserve` -/
  preserve : Q := .c2c
  /-- `Chop.results` of the last `calculate` that returned (`none`: never calculated, or the last one raised) -/
  last : Option Vals := none
  deriving Repr

/-- `Chop.invert` moves a preserved size to the other end -/
def swapPreserve : Q → Q
  | .start => .end_
  | .end_ => .start
  | q => q

/-- the chop `copy_preserving(inverted)` returns (its five fields after `__post_init__` and the inversion) -/
def copyPreserving (ob : Obj) (inverted : Bool) : Except Err Vals :=
  match ob.last with
  | none => .error .unmodelled
  | some res =>
      match res.count, res.get ob.preserve with
      | some n, some x =>
          let c : Vals := Vals.assign { count := some (max n 1) } ob.preserve x
          let c := if ob.preserve = .count then { c with c2c := some 1 } else c
          if inverted then invert c else pure c
      | _, _ => .error .unmodelled

inductive OStep where
  /-- `calculate`, `invert` or an assignment on the object itself -/
  | plain (s : Step)
  /-- `c = chop.copy_preserving(inverted); c.calculate(L)` -/
  | copy (inverted : Bool) (t : Tol) (L : Rat) (o : Oracle)
  deriving Repr

abbrev Outcome := Option (Except (Err × Option Rel) Vals)

/-- one call on the object itself: the parameters move as in `runHistory`; `results` and `preserve` are kept up to date -/
def Obj.step (ob : Obj) (s : Step) : Obj × Outcome :=
  let r := runHistory ob.params [s]
  let out : Outcome := r.2.headD none
  match s with
  | .eval _ _ _ =>
      ({ ob with params := r.1, last := match out with | some (.ok res) => some res | _ => none }, out)
  | .invert =>
      ({ ob with params := r.1, preserve := match out with | none => swapPreserve ob.preserve | some _ => ob.preserve }, out)
  | .assign _ _ => ({ ob with params := r.1 }, out)

/-- a history with copies: a `copy` step answers with the evaluation of the copy and leaves the object as it is -/
def runObj : Obj → List OStep → Obj × List Outcome
  | ob, [] => (ob, [])
  | ob, .plain s :: rest =>
      let r := ob.step s
      let tl := runObj r.1 rest
      (tl.1, r.2 :: tl.2)
  | ob, .copy inv t L o :: rest =>
      let out : Outcome := match copyPreserving ob inv with
        | .ok c => some (calculate t L o c)
        | .error e => some (.error (e, none))
      let tl := runObj ob rest
      (tl.1, out :: tl.2)

/-- the steps on the object itself -/
def plainSteps : List OStep → List Step
  | [] => []
  | .plain s :: rest => s :: plainSteps rest
  | .copy _ _ _ _ :: rest => plainSteps rest

/-! ### `Grading` -/

/-- one division `[length_ratio, count, total_expansion]` -/
structure Division where
  ratio : Rat
  count : Nat
  total : Rat
  deriving Repr, DecidableEq

/-- `Grading.add_chop`: guard on the length ratio, calculation on the sub-length, new division appended -/
def addChop (t : Tol) (L : Rat) (spec : List Division) (ratio : Rat) (o : Oracle) (v : Vals) :
    Except (Err × Option Rel) (List Division) :=
  if ¬(0 < ratio ∧ ratio ≤ 1) then .error (.value, none)
  else
    match calculate t (L * ratio) o v with
    | .error e => .error e
    | .ok res =>
        match res.count, res.total with
        | some n, some T => pure (spec ++ [⟨ratio, n, T⟩])
        | _, _ => .error (.table, none)

/-- a multi-section edge: `add_chop` for every chop in turn (`(length_ratio, solver answers, chop)`); the first
    error aborts -/
def addChops (t : Tol) (L : Rat) : List Division → List (Rat × Oracle × Vals) → Except (Err × Option Rel) (List Division)
  | spec, [] => pure spec
  | spec, (q, o, v) :: rest =>
      match addChop t L spec q o v with
      | .error e => .error e
      | .ok spec' => addChops t L spec' rest

/-- `Grading.inverted`: the divisions in reverse order with reciprocal expansion (`1 / 0` raises) -/
def inverted (spec : List Division) : Except Err (List Division) :=
  if spec.any (fun d => d.total = 0) then .error .zeroDiv
  else pure (spec.reverse.map fun d => { d with total := 1 / d.total })

def gradingCount (spec : List Division) : Nat := (spec.map (·.count)).sum

/-- what `Grading.description` writes for blockMesh: the bare total expansion for a single division, the list of
    `(length_ratio count total_expansion)` otherwise; an undefined grading raises -/
inductive Written where
  | single (total : Rat)
  | multi (divs : List Division)
  deriving Repr, DecidableEq

def description (spec : List Division) : Except Err Written :=
  match spec with
  | [] => .error .value
  | [d] => pure (.single d.total)
  | ds => pure (.multi ds)

/-- what blockMesh reads back: `(count, total expansion)` per division (a bare number: `none` for the count, taken
    from the block's cell count) -/
def Written.read : Written → List (Option Nat × Rat)
  | .single T => [(none, T)]
  | .multi ds => ds.map (fun d => (some d.count, d.total))

/-! ### line protocol -/

def parseField (s : String) : Option (String × String) :=
  match s.splitOn ":" with
  | [k, v] => some (k, v)
  | _ => none

def parseFields (s : String) : Option (List (String × String)) :=
  if s = "-" then some [] else (s.splitOn ",").mapM parseField

def optRat (fs : List (String × String)) (k : String) : Option (Option Rat) :=
  match fs.lookup k with
  | none => some none
  | some v => (parseRat? v).map some

def optInt (fs : List (String × String)) (k : String) : Option (Option Int) :=
  match fs.lookup k with
  | none => some none
  | some v => (parseInt? v).map some

/-- `int(count)` of a count given as a float (`count = length / size` is a usual way to write it): truncation
    towards zero; `floor` gives the same chop because the result is clamped to `>= 1` right away -/
def countOfRat (c : Rat) : Int := c.floor

/-- raw constructor arguments `count:5` (or `count:15/2`),start_size:1/10` → the chop after `__post_init__` -/
def parseChop (s : String) : Option Vals := do
  let fs ← parseFields s
  if fs.any (fun kv => (Q.ofString? kv.1).isNone) then none
  let c ← optRat fs "count"
  let c := c.map countOfRat
  let st ← optRat fs "start_size"
  let en ← optRat fs "end_size"
  let cc ← optRat fs "c2c_expansion"
  let tt ← optRat fs "total_expansion"
  some (postInit c st en cc tt)

def parseOracle (s : String) : Option Oracle := do
  let fs ← parseFields s
  if fs.any (fun kv => ¬(kv.1 ∈ ["n", "c", "w1", "w2"])) then none
  some { count := ← optInt fs "n", c2c := ← optRat fs "c", w1 := ← optRat fs "w1", w2 := ← optRat fs "w2" }

def parseTol (s : String) : Option Tol := do
  let fs ← parseFields s
  if fs.any (fun kv => ¬(kv.1 ∈ ["cnt", "root"])) then none
  let c ← optRat fs "cnt"
  let r ← optRat fs "root"
  some { cnt := c.getD 0, root := r.getD 0 }

def showOpt (f : α → String) : Option α → String
  | some a => f a
  | none => "None"

def showVals (v : Vals) : String :=
  s!"count:{showOpt toString v.count} start_size:{showOpt showRat v.start} end_size:{showOpt showRat v.end_} " ++
  s!"c2c_expansion:{showOpt showRat v.c2c} total_expansion:{showOpt showRat v.total}"

def showPlan (steps : List Rel) : String :=
  if steps.isEmpty then "-" else ";".intercalate (steps.map Rel.name)

/-- `c03.calc L chop oracle tol` → `ok <values> plan:<relations in order> rounds:<k>` |
    `err <kind> at:<relation|-> plan:…` -/
def handleCalc (args : List String) : Option String :=
  match args with
  | [l, chop, orc, tol] => do
      let L ← parseRat? l
      let v ← parseChop chop
      let o ← parseOracle orc
      let t ← parseTol tol
      let p ← plan v.known
      let tail := s!"plan:{showPlan p.1} rounds:{p.2.1}"
      match calculate t L o v with
      | .ok res => some s!"ok {showVals res} {tail}"
      | .error (e, rel) => some s!"err {e.show} at:{showOpt Rel.name rel} {tail}"
  | _ => none

/-- `c03.init chop` → the fields after `__post_init__`; `c03.inv chop` → after `invert()` -/
def handleInit (inv : Bool) (args : List String) : Option String :=
  match args with
  | [chop] => do
      let v ← parseChop chop
      if inv then
        match invert v with
        | .ok w => some ("ok " ++ showVals w)
        | .error e => some ("err " ++ e.show)
      else some ("ok " ++ showVals v)
  | _ => none

def parseDivision (s : String) : Option Division :=
  match s.splitOn ":" with
  | [r, n, t] => do some ⟨← parseRat? r, ← parseNat? n, ← parseRat? t⟩
  | _ => none

def showDivision (d : Division) : String := s!"{showRat d.ratio}:{d.count}:{showRat d.total}"

/-- `c03.ginv d1,d2,…` (`-` for the empty grading) → inverted divisions and the total count -/
def handleGinv (args : List String) : Option String :=
  match args with
  | [spec] => do
      let ds ← if spec = "-" then some [] else (spec.splitOn ",").mapM parseDivision
      match inverted ds with
      | .ok r =>
          some (s!"ok count:{gradingCount r} " ++ (if r.isEmpty then "-" else ",".intercalate (r.map showDivision)))
      | .error e => some ("err " ++ e.show)
  | _ => none

/-- `c03.addchop L ratio sublength chop oracle tol`: the guard of `add_chop`, then the calculation on the
    sub-length (the float product `L*ratio` is passed in and must be the rounded exact product) -/
def handleAddChop (args : List String) : Option String :=
  match args with
  | [l, ratio, sub, chop, orc, tol] => do
      let L ← parseRat? l
      let q ← parseRat? ratio
      let ls ← parseRat? sub
      let v ← parseChop chop
      let o ← parseOracle orc
      let t ← parseTol tol
      if ¬(0 < q ∧ q ≤ 1) then some "err ValueError at:ratio"
      else if absR (ls - L * q) > absR (L * q) / 1000000000000000 then none
      else
        match addChop t ls [] 1 o v with
        | .ok [d] => some s!"ok {showDivision { d with ratio := q }}"
        | .ok _ => none
        | .error (e, rel) => some s!"err {e.show} at:{showOpt Rel.name rel}"
  | _ => none

/-- two parameter records agree: same count, every ratio/size equal within `1e-15` relative
    (the rounding of the float division `1 / x` in `Chop.invert`) -/
def closeOpt (a b : Option Rat) : Bool :=
  match a, b with
  | none, none => true
  | some x, some y => decide (absR (x - y) ≤ absR y / 1000000000000000)
  | _, _ => false

def closeVals (a b : Vals) : Bool :=
  decide (a.count = b.count) && closeOpt a.start b.start && closeOpt a.end_ b.end_ && closeOpt a.c2c b.c2c &&
    closeOpt a.total b.total

/-- the fields of a chop as the implementation shows them (no `__post_init__`) -/
def parseRecord (s : String) : Option Vals := do
  let fs ← parseFields s
  if fs.any (fun kv => (Q.ofString? kv.1).isNone) then none
  let c ← optInt fs "count"
  let c ← match c with
    | none => some none
    | some i => if 0 ≤ i then some (some i.toNat) else none
  some { count := c, start := ← optRat fs "start_size", end_ := ← optRat fs "end_size",
         c2c := ← optRat fs "c2c_expansion", total := ← optRat fs "total_expansion" }

def showOutcome (p : List Rel × Nat × Bool) (r : Except (Err × Option Rel) Vals) : String :=
  let tail := s!"plan:{showPlan p.1} rounds:{p.2.1}"
  match r with
  | .ok res => s!"ok {showVals res} {tail}"
  | .error (e, rel) => s!"err {e.show} at:{showOpt Rel.name rel} {tail}"

def closeOptTol (den : Nat) (a b : Option Rat) : Bool :=
  match a, b with
  | none, none => true
  | some x, some y => decide (absR (x - y) ≤ absR y / den)
  | _, _ => false

def closeValsTol (den : Nat) (a b : Vals) : Bool :=
  decide (a.count = b.count) && closeOptTol den a.start b.start && closeOptTol den a.end_ b.end_ &&
    closeOptTol den a.c2c b.c2c && closeOptTol den a.total b.total

/-- One step of a history in the line protocol: `calc|L|oracle|tol`, `set|field|value`,
    `inv|<fields observed after invert>` or `copy|0/1|L|oracle|tol|<fields of the copy as observed>`.
    For `inv` the model inverts the current record exactly, requires the observed record to agree with it
    (within the rounding of `1/x`) and continues with the observed one, so that later branch decisions are taken
    on the numbers the implementation really holds; for `copy` likewise (the copy is built from `results`, which the
    implementation holds as floats: agreement within 1e-9). -/
def histStep (ob : Obj) (step : String) : Option (Obj × String) :=
  match step.splitOn "|" with
  | ["calc", l, orc, tol] => do
      let L ← parseRat? l
      let o ← parseOracle orc
      let t ← parseTol tol
      let p ← plan ob.params.known
      let r := ob.step (.eval t L o)
      match r.2 with
      | some out => some (r.1, showOutcome p out)
      | none => none
  | ["set", key, val] => do
      let q ← Q.ofString? key
      let x ← parseRat? val
      if q = .count ∧ ¬(x.den = 1 ∧ 1 ≤ x.num) then none
      let r := ob.step (.assign q x)
      some (r.1, "ok " ++ showVals r.1.params)
  | ["inv", obs] => do
      let r := ob.step .invert
      let seen ← parseRecord obs
      match r.2 with
      | none =>
          if closeVals r.1.params seen then some ({ r.1 with params := seen }, "ok " ++ showVals r.1.params)
          else some (r.1, "fail:invert-mismatch " ++ showVals r.1.params)
      | some (.error (e, _)) =>
          if closeVals r.1.params seen then some ({ r.1 with params := seen }, "err " ++ e.show)
          else some (r.1, "fail:invert-mismatch " ++ showVals r.1.params)
      | _ => none
  | ["copy", inv, l, orc, tol, obs] => do
      let L ← parseRat? l
      let o ← parseOracle orc
      let t ← parseTol tol
      let seen ← parseRecord obs
      let inverted ← if inv = "1" then some true else if inv = "0" then some false else none
      match copyPreserving ob inverted with
      | .error e => some (ob, "nocopy " ++ e.show)
      | .ok c =>
          if closeValsTol 1000000000 c seen then do
            let p ← plan seen.known
            some (ob, showOutcome p (calculate t L o seen))
          else some (ob, "fail:copy-mismatch " ++ showVals c)
  | _ => none

def histLoop : Obj → List String → Option (List String)
  | _, [] => some []
  | ob, st :: rest => do
      let r ← histStep ob st
      let tl ← histLoop r.1 rest
      some (r.2 :: tl)

/-- `c03.hist chop step;step;… [preserve]` → the answers of the steps joined by ` || ` -/
def handleHist (args : List String) : Option String :=
  match args with
  | [chop, steps] => do
      let v ← parseChop chop
      let out ← histLoop { params := v } (steps.splitOn ";")
      some (" || ".intercalate out)
  | [chop, steps, pres] => do
      let v ← parseChop chop
      let q ← Q.ofString? pres
      let out ← histLoop { params := v, preserve := q } (steps.splitOn ";")
      some (" || ".intercalate out)
  | _ => none

def showWritten : Written → String
  | .single T => "single " ++ showRat T
  | .multi ds => "multi " ++ ",".intercalate (ds.map showDivision)

/-- `c03.descr d1,d2,…` (`-` for the empty grading) → what `Grading.description` must contain -/
def handleDescr (args : List String) : Option String :=
  match args with
  | [spec] => do
      let ds ← if spec = "-" then some [] else (spec.splitOn ",").mapM parseDivision
      match description ds with
      | .ok w => some ("ok " ++ showWritten w)
      | .error e => some ("err " ++ e.show)
  | _ => none

def Vals.set (v : Vals) (q : Q) (x : Rat) : Option Vals :=
  match q with
  | .count => if x.den = 1 ∧ 0 ≤ x.num then some { v with count := some x.num.toNat } else none
  | .start => some { v with start := some x }
  | .end_ => some { v with end_ := some x }
  | .c2c => some { v with c2c := some x }
  | .total => some { v with total := some x }

/-- `c03.rel out<in1+in2 L a b oracle tol`: one direct call of a relation function (must be in the generated table) -/
def handleRel (args : List String) : Option String :=
  match args with
  | [name, l, a, b, orc, tol] => do
      let rel ← parseRelName name
      let rels ← relTable
      if rel ∉ rels then none
      let L ← parseRat? l
      let a ← parseRat? a
      let b ← parseRat? b
      let o ← parseOracle orc
      let t ← parseTol tol
      let v ← (Vals.set {} rel.in1 a).bind (fun v => v.set rel.in2 b)
      match applyRel t L o v rel with
      | .ok v' => (v'.get rel.out).map (fun x => "ok " ++ showRat x)
      | .error e => some ("err " ++ e.show)
  | _ => none

/-- `c03.count s r L` → the exact count `searchCount` (first cell `s`, ratio `r`, length `L`) -/
def handleCount (args : List String) : Option String :=
  match args with
  | [s, r, l] => do
      let s ← parseRat? s
      let r ← parseRat? r
      let L ← parseRat? l
      if s ≤ 0 ∨ r ≤ 0 ∨ L ≤ 0 then none
      else match searchCount s r L (searchFuel s r L) with
        | some n => some s!"ok {n}"
        | none => some "none"
  | _ => none

def handle (op : String) (args : List String) : Option String :=
  match op with
  | "c03.calc" => handleCalc args
  | "c03.init" => handleInit false args
  | "c03.inv" => handleInit true args
  | "c03.ginv" => handleGinv args
  | "c03.addchop" => handleAddChop args
  | "c03.count" => handleCount args
  | "c03.rel" => handleRel args
  | "c03.hist" => handleHist args
  | "c03.descr" => handleDescr args
  | _ => none

end CBV.C03
