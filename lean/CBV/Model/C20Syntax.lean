/-
C20 — syntax and semantics of *guards* (`if <cond>: raise <Exc>` statements at the head of an entry point).

The translator `cbv/props/c20_guards.py` reads the guards of every covered entry point of the current source with
Python's `ast` and prints them, flattened in prefix notation, as rows `(tag, int, str)` into `CBV.Gen.c20Guards`.
This file holds the inductive syntax those rows encode (`encode` / `decode`), and its semantics over an environment
of argument values (`runStmts`), including which state the statements executed before the decision have changed
(`traceStmts`).  Core Lean only.
-/
import CBV.Model.Common
import CBV.Gen.Tables

namespace CBV.C20

/-- outcome of a guarded call: accepted, or rejected with an exception class -/
inductive Out where
  | accept
  | reject (cls : String)
  deriving DecidableEq, Repr, Inhabited

def Out.isReject : Out → Bool
  | .accept => false
  | .reject _ => true

def Out.toStr : Out → String
  | .accept => "accept"
  | .reject c => "reject:" ++ c

/-- `abs(x)` as numpy / python compute it -/
def absR (x : Rat) : Rat := if x < 0 then -x else x

/-- a python sequence of `if cond: raise Cls` statements: the first failing check wins -/
def checks : List (Bool × String) → Out
  | [] => .accept
  | (b, cls) :: rest => if b then .reject cls else checks rest

/-! ### syntax -/

/-- vector expressions: an argument (or named attribute), `a - b`, `a + b`, `np.cross`, `f.unit_vector` -/
inductive VE where
  | vvar (n : String)
  | vsub (a b : VE)
  | vadd (a b : VE)
  | cross (a b : VE)
  | unit (a : VE)
  deriving DecidableEq, Repr

/-- scalar expressions -/
inductive E where
  | int (n : Int)
  | tol
  | var (n : String)
  /-- `len(x)` -/
  | len (n : String)
  /-- `np.shape(x)[k]` -/
  | dim (n : String) (k : Nat)
  | abs (e : E)
  | neg (e : E)
  | add (a b : E)
  | sub (a b : E)
  | mul (a b : E)
  /-- `np.dot(u, v)` -/
  | dot (u v : VE)
  /-- `f.norm(v)` -/
  | norm (v : VE)
  deriving DecidableEq, Repr

inductive Op where
  | lt | le | gt | ge | eq | ne
  deriving DecidableEq, Repr

/-- conditions -/
inductive C where
  | not (c : C)
  | and (a b : C)
  | or (a b : C)
  | cmp (op : Op) (a b : E)
  /-- `e in (i, j, …)` -/
  | iin (e : E) (vals : List Int)
  /-- `name in ["x", "z"]` -/
  | sin (n : String) (vals : List String)
  /-- `name == "text"` -/
  | seq (n : String) (s : String)
  /-- `{a, b} in <list of two-element sets>` -/
  | pairin (a b : E) (pairs : List (Int × Int))
  /-- `np.shape(name) == (d0, d1, …)` -/
  | shapeeq (n : String) (dims : List Nat)
  /-- a named boolean: a flag argument, `x is not None`, `isinstance(x, T)`, a property of the object -/
  | flag (n : String)
  deriving DecidableEq, Repr

/-- simple statements -/
inductive S where
  /-- `if c: raise cls` -/
  | raise (cls : String) (c : C)
  /-- an exception the statement raises by itself when `c` holds: a subscript `xs[i]` on a list of fixed length
      (IndexError outside −n … n−1), a look-up `d[k]` in a dict with literal keys (KeyError) -/
  | implicit (cls : String) (c : C)
  /-- `if c: …; return` (no exception inside) -/
  | ret (c : C)
  /-- a statement that changes the state named `what` (attribute assignment, `.append`, …) -/
  | mutate (what : String)
  deriving DecidableEq, Repr

inductive Stmt where
  | s (x : S)
  /-- `for v in l: <helper(v)>` with the helper's statements inlined -/
  | each (v l : String) (body : List S)
  deriving DecidableEq, Repr

/-! ### flattening (the format of `CBV.Gen.c20Guards`) -/

abbrev Tok := String × Int × String

def Op.name : Op → String
  | .lt => "lt" | .le => "le" | .gt => "gt" | .ge => "ge" | .eq => "eq" | .ne => "ne"

def Op.ofName? : String → Option Op
  | "lt" => some .lt | "le" => some .le | "gt" => some .gt | "ge" => some .ge | "eq" => some .eq | "ne" => some .ne
  | _ => none

def encV : VE → List Tok
  | .vvar n => [("vvar", 0, n)]
  | .vsub a b => ("vsub", 0, "") :: (encV a ++ encV b)
  | .vadd a b => ("vadd", 0, "") :: (encV a ++ encV b)
  | .cross a b => ("cross", 0, "") :: (encV a ++ encV b)
  | .unit a => ("unit", 0, "") :: encV a

def encE : E → List Tok
  | .int n => [("int", n, "")]
  | .tol => [("tol", 0, "")]
  | .var n => [("var", 0, n)]
  | .len n => [("len", 0, n)]
  | .dim n k => [("dim", (k : Int), n)]
  | .abs e => ("abs", 0, "") :: encE e
  | .neg e => ("neg", 0, "") :: encE e
  | .add a b => ("add", 0, "") :: (encE a ++ encE b)
  | .sub a b => ("sub", 0, "") :: (encE a ++ encE b)
  | .mul a b => ("mul", 0, "") :: (encE a ++ encE b)
  | .dot u v => ("dot", 0, "") :: (encV u ++ encV v)
  | .norm v => ("norm", 0, "") :: encV v

def encC : C → List Tok
  | .not c => ("not", 0, "") :: encC c
  | .and a b => ("and", 0, "") :: (encC a ++ encC b)
  | .or a b => ("or", 0, "") :: (encC a ++ encC b)
  | .cmp op a b => ("cmp", 0, op.name) :: (encE a ++ encE b)
  | .iin e vals => ("iin", (vals.length : Int), "") :: (encE e ++ vals.map (fun v => ("int", v, "")))
  | .sin n vals => ("sin", (vals.length : Int), n) :: vals.map (fun v => ("str", 0, v))
  | .seq n s => [("seq", 0, n), ("str", 0, s)]
  | .pairin a b pairs =>
      ("pairin", (pairs.length : Int), "") ::
        (encE a ++ encE b ++ pairs.flatMap (fun p => [("int", p.1, ""), ("int", p.2, "")]))
  | .shapeeq n dims => ("shapeeq", (dims.length : Int), n) :: dims.map (fun (d : Nat) => (("int", (d : Int), "") : Tok))
  | .flag n => [("flag", 0, n)]

def encS : S → List Tok
  | .raise cls c => ("raise", 0, cls) :: encC c
  | .implicit cls c => ("implicit", 0, cls) :: encC c
  | .ret c => ("ret", 0, "") :: encC c
  | .mutate what => [("mut", 0, what)]

def encStmt : Stmt → List Tok
  | .s x => encS x
  | .each v l body => ("each", (body.length : Int), v) :: ("list", 0, l) :: body.flatMap encS

def encode (g : List Stmt) : List Tok := g.flatMap encStmt

/-! decoding, with fuel (every step consumes a token; the fuel is the number of tokens) -/

def decV : Nat → List Tok → Option (VE × List Tok)
  | 0, _ => none
  | _, [] => none
  | f + 1, (tag, _, s) :: r =>
      match tag with
      | "vvar" => some (.vvar s, r)
      | "vsub" => do let (a, r) ← decV f r; let (b, r) ← decV f r; some (.vsub a b, r)
      | "vadd" => do let (a, r) ← decV f r; let (b, r) ← decV f r; some (.vadd a b, r)
      | "cross" => do let (a, r) ← decV f r; let (b, r) ← decV f r; some (.cross a b, r)
      | "unit" => do let (a, r) ← decV f r; some (.unit a, r)
      | _ => none

def decE : Nat → List Tok → Option (E × List Tok)
  | 0, _ => none
  | _, [] => none
  | f + 1, (tag, i, s) :: r =>
      match tag with
      | "int" => some (.int i, r)
      | "tol" => some (.tol, r)
      | "var" => some (.var s, r)
      | "len" => some (.len s, r)
      | "dim" => if 0 ≤ i then some (.dim s i.toNat, r) else none
      | "abs" => do let (a, r) ← decE f r; some (.abs a, r)
      | "neg" => do let (a, r) ← decE f r; some (.neg a, r)
      | "add" => do let (a, r) ← decE f r; let (b, r) ← decE f r; some (.add a b, r)
      | "sub" => do let (a, r) ← decE f r; let (b, r) ← decE f r; some (.sub a b, r)
      | "mul" => do let (a, r) ← decE f r; let (b, r) ← decE f r; some (.mul a b, r)
      | "dot" => do let (a, r) ← decV f r; let (b, r) ← decV f r; some (.dot a b, r)
      | "norm" => do let (a, r) ← decV f r; some (.norm a, r)
      | _ => none

/-- `n` rows `("int", v, "")` -/
def decInts : Nat → List Tok → Option (List Int × List Tok)
  | 0, r => some ([], r)
  | n + 1, (tag, i, _) :: r => if tag == "int" then do let (xs, r) ← decInts n r; some (i :: xs, r) else none
  | _ + 1, [] => none

/-- `n` rows `("str", 0, s)` -/
def decStrs : Nat → List Tok → Option (List String × List Tok)
  | 0, r => some ([], r)
  | n + 1, (tag, _, s) :: r => if tag == "str" then do let (xs, r) ← decStrs n r; some (s :: xs, r) else none
  | _ + 1, [] => none

def pairUp : List Int → List (Int × Int)
  | a :: b :: r => (a, b) :: pairUp r
  | _ => []

def decC : Nat → List Tok → Option (C × List Tok)
  | 0, _ => none
  | _, [] => none
  | f + 1, (tag, i, s) :: r =>
      match tag with
      | "not" => do let (a, r) ← decC f r; some (.not a, r)
      | "and" => do let (a, r) ← decC f r; let (b, r) ← decC f r; some (.and a b, r)
      | "or" => do let (a, r) ← decC f r; let (b, r) ← decC f r; some (.or a b, r)
      | "cmp" => do
          let op ← Op.ofName? s
          let (a, r) ← decE f r
          let (b, r) ← decE f r
          some (.cmp op a b, r)
      | "iin" => do
          if i < 0 then none
          let (e, r) ← decE f r
          let (vals, r) ← decInts i.toNat r
          some (.iin e vals, r)
      | "sin" => do
          if i < 0 then none
          let (vals, r) ← decStrs i.toNat r
          some (.sin s vals, r)
      | "seq" => do
          let (vals, r) ← decStrs 1 r
          match vals with
          | [v] => some (.seq s v, r)
          | _ => none
      | "pairin" => do
          if i < 0 then none
          let (a, r) ← decE f r
          let (b, r) ← decE f r
          let (vals, r) ← decInts (2 * i.toNat) r
          some (.pairin a b (pairUp vals), r)
      | "shapeeq" => do
          if i < 0 then none
          let (vals, r) ← decInts i.toNat r
          if vals.all (0 ≤ ·) then some (.shapeeq s (vals.map Int.toNat), r) else none
      | "flag" => some (.flag s, r)
      | _ => none

def decS (f : Nat) : List Tok → Option (S × List Tok)
  | [] => none
  | (tag, _, s) :: r =>
      match tag with
      | "raise" => do let (c, r) ← decC f r; some (.raise s c, r)
      | "implicit" => do let (c, r) ← decC f r; some (.implicit s c, r)
      | "ret" => do let (c, r) ← decC f r; some (.ret c, r)
      | "mut" => some (.mutate s, r)
      | _ => none

def decSs (f : Nat) : Nat → List Tok → Option (List S × List Tok)
  | 0, r => some ([], r)
  | n + 1, r => do
      let (x, r) ← decS f r
      let (xs, r) ← decSs f n r
      some (x :: xs, r)

/-- at most `k` statements -/
def decStmts (f : Nat) : Nat → List Tok → Option (List Stmt)
  | _, [] => some []
  | 0, _ :: _ => none
  | k + 1, (tag, i, s) :: r =>
      if tag == "each" then
        match r with
        | (tag2, _, l) :: r =>
            if tag2 == "list" ∧ 0 ≤ i then do
              let (body, r) ← decSs f i.toNat r
              let rest ← decStmts f k r
              some (.each s l body :: rest)
            else none
        | [] => none
      else do
        let (x, r) ← decS f ((tag, i, s) :: r)
        let rest ← decStmts f k r
        some (.s x :: rest)

def decode (t : List Tok) : Option (List Stmt) := decStmts t.length t.length t

def decodeTable : List (String × List Tok) → Option (List (String × List Stmt))
  | [] => some []
  | (e, t) :: r => do
      let g ← decode t
      let rest ← decodeTable r
      some ((e, g) :: rest)

/-! ### semantics -/

/-- the values the names of a guard stand for.  `rt` is the witness of the square roots that `f.norm` /
    `f.unit_vector` take (an exact root where the theorems need one, a 20-digit approximation in the driver). -/
structure Env where
  tol : Rat
  rt : Rat → Rat := fun _ => 0
  rat : String → Rat := fun _ => 0
  vec : String → V3 := fun _ => ⟨0, 0, 0⟩
  len : String → Nat := fun _ => 0
  shape : String → List Nat := fun _ => []
  flag : String → Bool := fun _ => false
  str : String → String := fun _ => ""
  ints : String → List Int := fun _ => []

def Env.bind (env : Env) (v : String) (x : Int) : Env :=
  { env with rat := fun n => if n == v then (x : Rat) else env.rat n }

def evalV (env : Env) : VE → V3
  | .vvar n => env.vec n
  | .vsub a b => evalV env a - evalV env b
  | .vadd a b => evalV env a + evalV env b
  | .cross a b => V3.cross (evalV env a) (evalV env b)
  | .unit a => V3.smul (1 / env.rt (V3.norm2 (evalV env a))) (evalV env a)

def evalE (env : Env) : E → Rat
  | .int n => (n : Rat)
  | .tol => env.tol
  | .var n => env.rat n
  | .len n => (env.len n : Rat)
  | .dim n k => (((env.shape n).getD k 0 : Nat) : Rat)
  | .abs e => absR (evalE env e)
  | .neg e => - evalE env e
  | .add a b => evalE env a + evalE env b
  | .sub a b => evalE env a - evalE env b
  | .mul a b => evalE env a * evalE env b
  | .dot u v => V3.dot (evalV env u) (evalV env v)
  | .norm v => env.rt (V3.norm2 (evalV env v))

def evalOp (op : Op) (a b : Rat) : Bool :=
  match op with
  | .lt => decide (a < b)
  | .le => decide (a ≤ b)
  | .gt => decide (a > b)
  | .ge => decide (a ≥ b)
  | .eq => decide (a = b)
  | .ne => decide (a ≠ b)

def evalC (env : Env) : C → Bool
  | .not c => !(evalC env c)
  | .and a b => evalC env a && evalC env b
  | .or a b => evalC env a || evalC env b
  | .cmp op a b => evalOp op (evalE env a) (evalE env b)
  | .iin e vals => vals.any (fun v => decide ((v : Rat) = evalE env e))
  | .sin n vals => vals.contains (env.str n)
  | .seq n s => env.str n == s
  | .pairin a b pairs =>
      pairs.any (fun p =>
        (decide ((p.1 : Rat) = evalE env a) && decide ((p.2 : Rat) = evalE env b)) ||
        (decide ((p.1 : Rat) = evalE env b) && decide ((p.2 : Rat) = evalE env a)))
  | .shapeeq n dims => env.shape n == dims
  | .flag n => env.flag n

/-- simple statements in sequence: the decision (if one is reached) and the state changed before it -/
def runS (env : Env) : List S → List String → Option Out × List String
  | [], tr => (none, tr)
  | .raise cls c :: r, tr => if evalC env c then (some (.reject cls), tr) else runS env r tr
  | .implicit cls c :: r, tr => if evalC env c then (some (.reject cls), tr) else runS env r tr
  | .ret c :: r, tr => if evalC env c then (some .accept, tr) else runS env r tr
  | .mutate what :: r, tr => runS env r (tr ++ [what])

def eachRun (env : Env) (v : String) (body : List S) : List Int → List String → Option Out × List String
  | [], tr => (none, tr)
  | x :: xs, tr =>
      match (runS (env.bind v x) body tr).1 with
      | some o => (some o, (runS (env.bind v x) body tr).2)
      | none => eachRun env v body xs (runS (env.bind v x) body tr).2

/-- the statements of an entry point: outcome and the state that was changed before the decision -/
def traceStmts (env : Env) : List Stmt → List String → Out × List String
  | [], tr => (.accept, tr)
  | .s (.raise cls c) :: r, tr => if evalC env c then (.reject cls, tr) else traceStmts env r tr
  | .s (.implicit cls c) :: r, tr => if evalC env c then (.reject cls, tr) else traceStmts env r tr
  | .s (.ret c) :: r, tr => if evalC env c then (.accept, tr) else traceStmts env r tr
  | .s (.mutate what) :: r, tr => traceStmts env r (tr ++ [what])
  | .each v l body :: r, tr =>
      match (eachRun env v body (env.ints l) tr).1 with
      | some o => (o, (eachRun env v body (env.ints l) tr).2)
      | none => traceStmts env r (eachRun env v body (env.ints l) tr).2

def runStmts (env : Env) (g : List Stmt) : Out := (traceStmts env g []).1

/-! ### syntactic properties of guards -/

/-- the comparisons of a condition, as (operator, left, right) -/
def C.cmps : C → List (Op × E × E)
  | .not c => c.cmps
  | .and a b => a.cmps ++ b.cmps
  | .or a b => a.cmps ++ b.cmps
  | .cmp op a b => [(op, a, b)]
  | _ => []

def S.conds : S → List C
  | .raise _ c => [c]
  | .implicit _ c => [c]
  | .ret c => [c]
  | .mutate _ => []

def Stmt.conds : Stmt → List C
  | .s x => x.conds
  | .each _ _ body => body.flatMap S.conds

def Stmt.raises : Stmt → List (String × C)
  | .s (.raise cls c) => [(cls, c)]
  | .s _ => []
  | .each _ _ body => body.flatMap (fun x => match x with | .raise cls c => [(cls, c)] | _ => [])

/-- the implicit guards of a statement, as (exception class, condition) -/
def S.implicits : S → List (String × C)
  | .implicit cls c => [(cls, c)]
  | _ => []

def Stmt.implicits : Stmt → List (String × C)
  | .s x => x.implicits
  | .each _ _ body => body.flatMap S.implicits

def S.isImplicit : S → Bool
  | .implicit _ _ => true
  | _ => false

/-- the statements without the implicit guards: what the author wrote as checks -/
def explicitOnly : List Stmt → List Stmt
  | [] => []
  | .s x :: r => if x.isImplicit then explicitOnly r else .s x :: explicitOnly r
  | .each v l body :: r => .each v l (body.filter (fun x => !x.isImplicit)) :: explicitOnly r

def S.muts : S → List String
  | .mutate w => [w]
  | _ => []

def Stmt.muts : Stmt → List String
  | .s x => x.muts
  | .each _ _ body => body.flatMap S.muts

/-- no statement of the list changes state (the list ends with its last guard) -/
def mutFree (g : List Stmt) : Bool := g.all (fun st => st.muts.isEmpty)

def E.mentionsTol : E → Bool
  | .tol => true
  | .abs e => e.mentionsTol
  | .neg e => e.mentionsTol
  | .add a b => a.mentionsTol || b.mentionsTol
  | .sub a b => a.mentionsTol || b.mentionsTol
  | .mul a b => a.mentionsTol || b.mentionsTol
  | _ => false

def E.hasDot : E → Bool
  | .dot _ _ => true
  | .abs e => e.hasDot
  | .neg e => e.hasDot
  | .add a b => a.hasDot || b.hasDot
  | .sub a b => a.hasDot || b.hasDot
  | .mul a b => a.hasDot || b.hasDot
  | _ => false

/-- a comparison of a signed deviation (a dot / triple product) with the tolerance has the form `abs(…) > TOL`:
    every comparison whose one side is `TOL` and whose other side contains a dot product is `abs(e) > TOL` -/
def tolCmpSymmetric : Op × E × E → Bool
  | (op, a, b) =>
      if b == .tol && a.hasDot then
        (match op, a with
         | .gt, .abs _ => true
         | _, _ => false)
      else if a == .tol && b.hasDot then
        (match op, b with
         | .lt, .abs _ => true
         | _, _ => false)
      else true

def absSymmetric (g : List Stmt) : Bool :=
  g.all (fun st => st.conds.all (fun c => c.cmps.all tolCmpSymmetric))

/-- on which sides the comparisons of a condition bound the variable `x` (by a constant or another expression):
    (`x` on the small side: `x < k`, `x <= k`, `k > x`, `k >= x`;  `x` on the large side: `x > k`, `x >= k`, `k < x`,
    `k <= x`).  A negation around the condition swaps the meaning of both at once, so "both present" says that
    the variable is bounded from below and from above. -/
def boundsOn (x : String) : List (Op × E × E) → Bool × Bool
  | [] => (false, false)
  | (op, a, b) :: r =>
      let (small, large) := boundsOn x r
      let onLeft := a == .var x
      let onRight := b == .var x
      match op with
      | .lt => (small || onLeft, large || onRight)
      | .le => (small || onLeft, large || onRight)
      | .gt => (small || onRight, large || onLeft)
      | .ge => (small || onRight, large || onLeft)
      | _ => (small, large)

/-- the guards bound the index variable `x` from both sides -/
def twoSided (x : String) (g : List Stmt) : Bool :=
  boundsOn x (g.flatMap (fun st => st.conds.flatMap C.cmps)) == (true, true)

end CBV.C20
