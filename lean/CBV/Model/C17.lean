/-
C17 — executable model of the clamps (`optimize/clamps/*.py`) and links (`optimize/links.py`), exact rationals.

* `LineClamp`: `p1 + t·unit(p2 − p1)`; the length `|p2 − p1|` enters as a witness `s` (`s·s = |p2 − p1|²`);
* `PlaneClamp`: `point + a·u + b·v` for two directions `u, v` of the plane (the real class draws them at random;
  the harness reads them off `clamp.function`);
* `RadialClamp`: the creation point turned about the axis `(center, normal)`; the angle `t/radius` is
  parametrised by an unnormalised quaternion `(w, μ·normal)` exactly as in C09 (`θ = 2·atan2(|μ n|, w)`);
* initial parameters (`ClampBase.get_params`, a scipy minimisation of the distance): the closed-form closest point
  on the segment / plane (`lineInit`, `planeInit`) — the minimiser is an oracle, its result is compared with these;
* `TranslationLink`, `SymmetryLink` (Householder mirror, C09's `mirP`), `RotationLink` (when the leader moves by a
  rotation about the link's axis the follower is turned by the same rotation; for an arbitrary move the relation
  "same height, same radius, turned by the leader's angle" is the decidable predicate `rotValid`);
* `LinkBase.update`: a pure function returning the new follower; the leader is not part of the result.
Core Lean only.
-/
import CBV.Model.Common
import CBV.Model.C09
import CBV.Gen.Tables

namespace CBV.C17
open CBV
open CBV.C09 (rotP rotLin mirP mirLin)

/-! ### clamps -/

/-- `LineClamp.function([t])` with `s = |p2 − p1|` -/
def lineClamp (p1 p2 : V3) (s t : Rat) : V3 := p1 + V3.smul (t / s) (p2 - p1)

def clampTo (lo hi x : Rat) : Rat := if x < lo then lo else if hi < x then hi else x

/-- the parameter (in units of length, like the clamp's) of the point of the segment `lo ≤ t ≤ hi` closest to `pos` -/
def lineInitParam (p1 p2 : V3) (s lo hi : Rat) (pos : V3) : Rat :=
  clampTo lo hi (V3.dot (pos - p1) (p2 - p1) / s)

/-- position a fresh `LineClamp` reports -/
def lineInit (p1 p2 : V3) (s lo hi : Rat) (pos : V3) : V3 := lineClamp p1 p2 s (lineInitParam p1 p2 s lo hi pos)

/-- `PlaneClamp.function([a, b])` -/
def planeClamp (point u v : V3) (a b : Rat) : V3 := point + V3.smul a u + V3.smul b v

/-- orthogonal projection of `pos` onto the plane through `point` with normal `n`: what a fresh `PlaneClamp` reports -/
def planeInit (point n pos : V3) : V3 := pos - V3.smul (V3.dot (pos - point) n / V3.dot n n) n

/-- `RadialClamp.function([t])`: the creation point turned about the axis by `θ = 2·atan2(|μ n|, w)` (`t = θ·radius`) -/
def radialClamp (center n : V3) (w mu : Rat) (initial : V3) : V3 := rotP w (V3.smul mu n) center initial

/-! ### clamps on curves and parametric surfaces: the exactly representable families -/

/-- `CurveClamp.function([t])` on a `LineCurve`: `curve.get_point(t) = point_1.position + vector·t` -/
def curveLine (p1 p2 : V3) (t : Rat) : V3 := p1 + V3.smul t (p2 - p1)

/-- the parameter within the curve's bounds `[b0, b1]` whose point is closest to `pos` -/
def curveLineInitParam (p1 p2 : V3) (b0 b1 : Rat) (pos : V3) : Rat :=
  clampTo b0 b1 (V3.dot (pos - p1) (p2 - p1) / V3.dot (p2 - p1) (p2 - p1))

/-- position a fresh `CurveClamp` on a `LineCurve` reports -/
def curveLineInit (p1 p2 : V3) (b0 b1 : Rat) (pos : V3) : V3 := curveLine p1 p2 (curveLineInitParam p1 p2 b0 b1 pos)

/-- `CurveClamp.function([t])` on a `LinearInterpolatedCurve`: `scipy.interpolate.interp1d` through the knots
    `(parameter, point)` — piecewise linear; outside the knot range the library raises (no extrapolation) -/
def polyEval : List (Rat × V3) → Rat → Option V3
  | a :: b :: rest, t =>
      if t < a.1 then none
      else if t ≤ b.1 then some (a.2 + V3.smul ((t - a.1) / (b.1 - a.1)) (b.2 - a.2))
      else polyEval (b :: rest) t
  | _, _ => none

/-- knot parameters strictly increasing -/
def knotsOk : List (Rat × V3) → Bool
  | a :: b :: rest => decide (a.1 < b.1) && knotsOk (b :: rest)
  | _ => true

def absR (x : Rat) : Rat := if x < 0 then -x else x

def witnessOk (s : Rat) (d : V3) (eps : Rat) : Bool := s > 0 && absR (s * s - V3.dot d d) ≤ eps * (1 + V3.dot d d)

/-- `CurveClamp.function([t])` on a `CircleCurve`: `f.rotate(rim, t, normal, origin)` at the rationally parametrised
    angle `t = 2·atan2(|μ n|, w)` — the rim point turned about the axis through the origin -/
def curveCircle (o rim n : V3) (w mu : Rat) : V3 := rotP w (V3.smul mu n) o rim

/-- running sums `[acc + l0, acc + l0 + l1, …]` (`np.cumsum`) -/
def cumul : Rat → List Rat → List Rat
  | _, [] => []
  | acc, l :: ls => (acc + l) :: cumul (acc + l) ls

def sumR : List Rat → Rat
  | [] => 0
  | l :: ls => l + sumR ls

/-- `InterpolatorBase.params` with `equalize`: `concatenate(([0], cumsum(lengths) / lengths[-1]))`, the segment lengths
    `|p[i+1] − p[i]|` entering as witnesses -/
def chordParams (lens : List Rat) : List Rat := 0 :: (cumul 0 lens).map (· / sumR lens)

/-- the witnesses are the segment lengths of the polyline through `pts` (relative tolerance `eps`), all positive -/
def lensOk (eps : Rat) : List V3 → List Rat → Bool
  | p :: q :: rest, l :: ls => witnessOk l (q - p) eps && lensOk eps (q :: rest) ls
  | [_], [] => true
  | _, _ => false

/-- the knots of a `LinearInterpolatedCurve` through `pts` -/
def chordKnots (pts : List V3) (lens : List Rat) : List (Rat × V3) := (chordParams lens).zip pts

/-- `ParametricSurfaceClamp.function([u, v])` for a plane `o + u·a + v·b` -/
def surfPlane (o a b : V3) (u v : Rat) : V3 := o + V3.smul u a + V3.smul v b

/-- … and for the bilinear patch through four corners -/
def surfBilinear (p00 p10 p01 p11 : V3) (u v : Rat) : V3 :=
  V3.smul ((1 - u) * (1 - v)) p00 + V3.smul (u * (1 - v)) p10 + V3.smul ((1 - u) * v) p01 + V3.smul (u * v) p11

/-! ### `ClampBase.update_params`: the clamp as a state -/

/-- a clamp with its position function: the parameters it holds and the position it reports -/
structure ClampSt where
  params : List Rat
  position : V3
  deriving Repr

/-- `update_params(params)`: `self.params = params; self.position = self.function(self.params)` — nothing else: the
    parameters are stored as given (bounds are handed to `scipy.optimize.minimize` only, `update_params` does not clip) -/
def ClampSt.update (f : List Rat → V3) (_ : ClampSt) (ps : List Rat) : ClampSt := ⟨ps, f ps⟩

/-- a history of parameter updates -/
def ClampSt.run (f : List Rat → V3) (c : ClampSt) (hist : List (List Rat)) : ClampSt := hist.foldl (ClampSt.update f) c

/-! ### links -/

structure Link where
  leader : V3
  follower : V3
  deriving Repr, DecidableEq

/-- `TranslationLink`: `vector = follower − leader` at construction, `transform = leader + vector` -/
def translationLink (l0 f0 l1 : V3) : V3 := l1 + (f0 - l0)

/-- `SymmetryLink.transform`: `functions.mirror(leader, normal, origin)` (a pure function after the repair) -/
def symmetryLink (n o l1 : V3) : V3 := mirP n o l1

/-- `RotationLink.transform` when the leader has been turned about the link's axis by the quaternion `(w, a)` -/
def rotationLink (w : Rat) (a o f0 : V3) : V3 := rotP w a o f0

/-- `LinkBase.update()`: the follower becomes `transform()`, the leader stays what the caller set it to -/
def Link.update (l : Link) (transform : V3 → V3) : Link := { leader := l.leader, follower := transform l.leader }

/-- a history of a link: the caller moves the leader (by assigning a new array or by changing the array in
    place — the model has values, not arrays, so both are the same) and calls `update()`, again and again -/
def Link.run (l : Link) (transform : V3 → V3) : List V3 → Link
  | [] => l
  | p :: ps => Link.run (Link.update { l with leader := p } transform) transform ps

/-- what a caller can do with a link: move the leader, ask `transform()` where the follower would go, call `update()` -/
inductive LinkEv where
  | move (p : V3)
  | query
  | update
  deriving Repr

def LinkEv.isQuery : LinkEv → Bool
  | .query => true
  | _ => false

/-- one event: the state is the link and the answers the queries got so far; `transform()` reads the leader and
    changes nothing -/
def Link.step (transform : V3 → V3) (s : Link × List V3) : LinkEv → Link × List V3
  | .move p => ({ s.1 with leader := p }, s.2)
  | .query => (s.1, s.2 ++ [transform s.1.leader])
  | .update => (Link.update s.1 transform, s.2)

def Link.runEv (transform : V3 → V3) (s : Link × List V3) (evs : List LinkEv) : Link × List V3 :=
  evs.foldl (Link.step transform) s

/-- `GridBase.update(index, position)`: the leader point is set, then EVERY link of that junction is given the new
    leader, updated, and its follower is written to the follower's grid point (links: follower index and the link's
    `transform`) -/
def gridUpdate (links : List (Nat × (V3 → V3))) (li : Nat) (p : V3) (pts : List V3) : List V3 :=
  links.foldl (fun acc l => acc.set l.1 (l.2 p)) (pts.set li p)

/-- radius vector of `p` about the axis `(o, a)`, times `|a|²` (no division): `|a|²(p − o) − ((p − o)·a) a` -/
def radial (a o p : V3) : V3 := V3.smul (V3.dot a a) (p - o) - V3.smul (V3.dot (p - o) a) a


/-- "the follower `f1` is the original follower `f0` turned about the axis by the angle the leader turned":
    same height, same radius, and the (cos, sin) of the turn — cross-multiplied by the squared radii — agree.
    With `eps = 0` this is the exact relation. -/
def rotValid (a o l0 l1 f0 f1 : V3) (eps : Rat) : Option String :=
  let rl0 := radial a o l0; let rl1 := radial a o l1
  let rf0 := radial a o f0; let rf1 := radial a o f1
  let aa := V3.dot a a
  let scale := 1 + aa * aa * aa * (V3.norm2 (l0 - o) + V3.norm2 (f0 - o)) * (V3.norm2 (l0 - o) + V3.norm2 (f0 - o))
  if absR (V3.dot (f1 - o) a - V3.dot (f0 - o) a) > eps * (1 + aa + V3.norm2 (f0 - o)) then some "height"
  else if absR (V3.norm2 rf1 - V3.norm2 rf0) > eps * scale then some "radius"
  -- cos: (rf0·rf1)|rl0||rl1| = (rl0·rl1)|rf0||rf1| ; the leader keeps its radius in the intended use, so the
  -- squared form below is exact then and a sound relaxation otherwise
  else if absR (V3.dot rf0 rf1 * V3.norm2 rl0 - V3.dot rl0 rl1 * V3.norm2 rf0) > eps * scale * scale
      && absR (V3.norm2 rl1 - V3.norm2 rl0) ≤ eps * scale then some "cos"
  else if absR (V3.dot (V3.cross rf0 rf1) a * V3.norm2 rl0 - V3.dot (V3.cross rl0 rl1) a * V3.norm2 rf0) > eps * scale * scale * (1 + aa)
      && absR (V3.norm2 rl1 - V3.norm2 rl0) ≤ eps * scale then some "sin"
  else none

/-! ### line protocol -/


def parseKnots : List String → Option (List (Rat × V3))
  | k :: p :: rest => do
      let k ← parseRat? k; let p ← parseV3? p
      let r ← parseKnots rest
      some ((k, p) :: r)
  | [] => some []
  | [_] => none

def handle (op : String) (args : List String) : Option String :=
  match op, args with
  | "c17.line", [p1, p2, s, t] => do
      let p1 ← parseV3? p1; let p2 ← parseV3? p2; let s ← parseRat? s; let t ← parseRat? t
      if !witnessOk s (p2 - p1) (1 / 1000000000) then some "bad-witness" else
      some (lineClamp p1 p2 s t).toStr
  | "c17.lineinit", [p1, p2, s, lo, hi, pos] => do
      let p1 ← parseV3? p1; let p2 ← parseV3? p2; let s ← parseRat? s
      let lo ← parseRat? lo; let hi ← parseRat? hi; let pos ← parseV3? pos
      if !witnessOk s (p2 - p1) (1 / 1000000000) then some "bad-witness" else
      if hi < lo then some "bad-bounds" else
      some ((lineInit p1 p2 s lo hi pos).toStr ++ " " ++ showRat (lineInitParam p1 p2 s lo hi pos))
  | "c17.plane", [point, u, v, a, b] => do
      let point ← parseV3? point; let u ← parseV3? u; let v ← parseV3? v
      let a ← parseRat? a; let b ← parseRat? b
      some (planeClamp point u v a b).toStr
  | "c17.planeinit", [point, n, pos] => do
      let point ← parseV3? point; let n ← parseV3? n; let pos ← parseV3? pos
      if V3.dot n n == 0 then some "degenerate" else
      some (planeInit point n pos).toStr
  | "c17.radial", [center, n, w, mu, initial] => do
      let center ← parseV3? center; let n ← parseV3? n; let w ← parseRat? w; let mu ← parseRat? mu
      let initial ← parseV3? initial
      if w * w + V3.dot (V3.smul mu n) (V3.smul mu n) == 0 then some "degenerate" else
      some (radialClamp center n w mu initial).toStr
  | "c17.curveline", [p1, p2, t] => do
      let p1 ← parseV3? p1; let p2 ← parseV3? p2; let t ← parseRat? t
      some (curveLine p1 p2 t).toStr
  | "c17.curvelineinit", [p1, p2, b0, b1, pos] => do
      let p1 ← parseV3? p1; let p2 ← parseV3? p2; let b0 ← parseRat? b0; let b1 ← parseRat? b1
      let pos ← parseV3? pos
      if V3.dot (p2 - p1) (p2 - p1) == 0 then some "degenerate" else
      if b1 < b0 then some "bad-bounds" else
      some ((curveLineInit p1 p2 b0 b1 pos).toStr ++ " " ++ showRat (curveLineInitParam p1 p2 b0 b1 pos))
  | "c17.poly", t :: knots => do
      -- knots: k0 p0 k1 p1 …
      let t ← parseRat? t
      let ks ← parseKnots knots
      if !knotsOk ks then some "bad-knots" else
      some (match polyEval ks t with | some p => p.toStr | none => "out-of-range")
  | "c17.curvecircle", [o, rim, n, w, mu] => do
      let o ← parseV3? o; let rim ← parseV3? rim; let n ← parseV3? n; let w ← parseRat? w; let mu ← parseRat? mu
      if w * w + V3.dot (V3.smul mu n) (V3.smul mu n) == 0 then some "degenerate" else
      some (curveCircle o rim n w mu).toStr
  | "c17.chord", t :: n :: rest => do
      -- `c17.chord <t> <n> <p0 … p(n-1)> <l0 … l(n-2)>`: parameters by chord length computed here; answers the knot
      -- parameters and the position at t
      let t ← parseRat? t; let n ← parseNat? n
      if rest.length ≠ n + (n - 1) then none else
      let pts ← (rest.take n).mapM parseV3?
      let lens ← (rest.drop n).mapM parseRat?
      if !lensOk (1 / 1000000000) pts lens then some "bad-witness" else
      let ks := chordKnots pts lens
      some (showRatList (ks.map Prod.fst) ++ " " ++ (match polyEval ks t with | some p => p.toStr | none => "out-of-range"))
  | "c17.surfplane", [o, a, b, u, v] => do
      let o ← parseV3? o; let a ← parseV3? a; let b ← parseV3? b; let u ← parseRat? u; let v ← parseRat? v
      some (surfPlane o a b u v).toStr
  | "c17.surfbilinear", [p00, p10, p01, p11, u, v] => do
      let p00 ← parseV3? p00; let p10 ← parseV3? p10; let p01 ← parseV3? p01; let p11 ← parseV3? p11
      let u ← parseRat? u; let v ← parseRat? v
      some (surfBilinear p00 p10 p01 p11 u v).toStr
  | "c17.tlink", [l0, f0, l1] => do
      let l0 ← parseV3? l0; let f0 ← parseV3? f0; let l1 ← parseV3? l1
      some ((Link.update ⟨l1, f0⟩ (translationLink l0 f0)).follower).toStr
  | "c17.slink", [n, o, l1] => do
      let n ← parseV3? n; let o ← parseV3? o; let l1 ← parseV3? l1
      if V3.dot n n == 0 then some "degenerate" else
      some ((Link.update ⟨l1, l1⟩ (symmetryLink n o)).follower).toStr
  | "c17.rlink", [w, a, o, l0, f0] => do
      -- leader moved from l0 by the rotation (w, a) about o; answers new leader and new follower
      let w ← parseRat? w; let a ← parseV3? a; let o ← parseV3? o; let l0 ← parseV3? l0; let f0 ← parseV3? f0
      if V3.dot a a == 0 then some "degenerate" else
      some ((rotP w a o l0).toStr ++ " " ++ (rotationLink w a o f0).toStr)
  | "c17.rvalid", [a, o, l0, l1, f0, f1, eps] => do
      let a ← parseV3? a; let o ← parseV3? o; let l0 ← parseV3? l0; let l1 ← parseV3? l1
      let f0 ← parseV3? f0; let f1 ← parseV3? f1; let eps ← parseRat? eps
      some (match rotValid a o l0 l1 f0 f1 eps with | none => "ok" | some c => "fail " ++ c)
  | _, _ => none

end CBV.C17
