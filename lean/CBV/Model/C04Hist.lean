/-
M-HIST with the chop calculator inside (C02, C04; round 6c): sessions on one `Mesh` object in which, between two
`write()` calls, vertices are moved (every `Wire.length` changes) and further chops are placed on the assembled mesh.

What the code does at every `Mesh.grade()`:
  lists/block_list.py    grade_blocks: `axis.wires.reset()` on every axis, then `block.grade()`
  items/wires/manager.py WireChopManager.grade: `update()` re-reads the lengths, the chops *as the user typed them* are
                         calculated anew on the current average length (`Grading.add_chop(chop)`), every wire gets a
                         fresh preserving copy evaluated on its current length
so the counts of size-based chops, the preserved quantities and all expansions follow the current geometry; what the
previous call left in the wires and in the propagate managers is forgotten (`Mem.reset`, M-HIST).
A chop manager holds the typed chops, not resolved ones: `Mem.syncG` re-resolves them on the current `Geo` before the
M-HIST grading.  Core Lean only.
-/
import CBV.Model.C04Chop
import CBV.Model.C01Hist

namespace CBV.Prop

/-- the chop managers re-resolve the user's chops on the geometry of the moment; everything else in the memory stays -/
def Mem.syncG (m : Mem) (g : Geo) : Mem :=
  { m with
    chopMgr := fun x => userChopped (toInp g) x
    st := { m.st with mch := fun x => if userChopped (toInp g) x then (toInp g).chops x else m.st.mch x } }

/-- the tail of `runG`: evaluation errors on the wires that were used, the trial evaluation of propagated axes -/
def finishG (g : Geo) (r : Except Err St) : Except GErr St :=
  match r with
  | .error e => .error (.prop e)
  | .ok st =>
    match firstWireError g st with
    | some e => .error e
    | none =>
      match firstTrialError g (toInp g) st with
      | some e => .error e
      | none => .ok st

/-- one `Mesh.grade()` on a mesh that remembers `m`, with the geometry and chops of the moment -/
def gradeG (g : Geo) (m : Mem) : Except GErr St :=
  match firstChopError g with
  | some e => .error e
  | none => finishG g ((m.syncG g).grade (toInp g))

abbrev GOut := Except GErr (List Nat)

def countsG (g : Geo) (r : Except GErr St) : GOut :=
  match r with
  | .ok st => .ok ((List.range (3 * g.nBlocks)).map (writtenCount (toInp g) st))
  | .error e => .error e

/-- calls on an assembled mesh -/
inductive GCall where
  /-- `mesh.write()`, with the solver answers observed in that call -/
  | write (oa : Nat → C03.Oracle) (ow : Nat → Bool → Nat → C03.Oracle)
  /-- `mesh.blocks[i].chop(axis, Chop(...))` -/
  | chop (u : UChop)
  /-- vertices moved: the new `Wire.length` of every wire -/
  | move (len : Nat → Rat)

/-- the geometry / chops after a call that is not a write -/
def stepGeo (g : Geo) : GCall → Geo
  | .write oa ow => { g with oa := oa, ow := ow }
  | .chop u => if u.x < 3 * g.nBlocks then { g with uchops := g.uchops ++ [u] } else g
  | .move len => { g with len := len }

/-- a session: the outputs of all `write` calls (the memory after a write: what that grading left, M-HIST's `afterGrade`) -/
def gsession : Geo → Mem → List GCall → List GOut
  | _, _, [] => []
  | g, m, .write oa ow :: rest =>
      let g' := stepGeo g (.write oa ow)
      countsG g' (gradeG g' m) :: gsession g' ((m.syncG g').afterGrade (toInp g')) rest
  | g, m, c :: rest => gsession (stepGeo g c) m rest

/-- the specification: every write is the run of a freshly assembled mesh with the lengths and chops of the moment -/
def specG : Geo → List GCall → List GOut
  | _, [] => []
  | g, .write oa ow :: rest =>
      let g' := stepGeo g (.write oa ow)
      countsG g' (runG g') :: specG g' rest
  | g, c :: rest => specG (stepGeo g c) rest

end CBV.Prop
