/-
C14 — executable model of the quality measure (`optimize/cell.py`: `CellBase.quality`,
`get_edge_lengths`, `HexCell/QuadCell.get_side_normals`, `get_inner_angles`; `GridBase.quality`).

The measure is split into
  * an exact rational *signature* `Sig` (per side and triangle `(n·c, |n|², |c|²)`, per corner
    `(s₁·s₂, |s₁|², |s₂|²)`, squared lengths of the edges of `edge_pairs`) — everything the code
    computes before it takes a square root,
  * its scale-free normal form `Sig0` (signed squared cosines, squared aspect ratio),
  * an opaque `Float` post-processing `G` (sqrt / acos / pow / log10 exactly as `CellBase.quality`
    applies them, with the `VSMALL` guards) applied to the *canonicalised* (sorted) signature.
Theorems are about `Sig`/`Sig0`; invariance of the value follows by congruence for any `G`.
Core Lean only.
-/
import CBV.Model.Common
import CBV.Model.C15
import CBV.Gen.Tables
import CBV.Gen.TC14

namespace CBV.C14
open CBV

/-- `points[i]` of a cell -/
def pt (ps : List V3) (i : Nat) : V3 := ps.getD i V3.zero

def vsum : List V3 → V3
  | [] => V3.zero
  | x :: xs => x + vsum xs

/-- `np.average(points, axis=0)` -/
def avg (ps : List V3) : V3 := V3.smul (1 / (ps.length : Rat)) (vsum ps)

/-- `np.roll(a, -1, axis=0)` -/
def rollL {α : Type} : List α → List α
  | [] => []
  | x :: xs => xs ++ [x]

/-- `np.roll(a, 1, axis=0)` -/
def rollR {α : Type} (l : List α) : List α :=
  match l.getLast? with
  | none => []
  | some x => x :: l.dropLast

/-- what enters one arccos: numerator and the two squared norms -/
structure Tri where
  nc : Rat
  nn : Rat
  cc : Rat
  deriving DecidableEq, Repr, Inhabited

def mkTri (a b : V3) : Tri := ⟨V3.dot a b, V3.norm2 a, V3.norm2 b⟩

/-- centre-to-centre vector: to the neighbour's centre, or to the side centre on a boundary side -/
def c2c (centre sideCentre : V3) (nb : Option V3) : V3 :=
  match nb with
  | none => centre - sideCentre
  | some c => centre - c

/-- One side of a `HexCell` (`sp` = its four points in `side_indexes` order): the four triangle
    normals of `get_side_normals` against `c2c`, and the four corner angles of `get_inner_angles`. -/
def hexSide (sp : List V3) (centre : V3) (nb : Option V3) : List Tri × List Tri :=
  let sc := avg sp
  let d := c2c centre sc nb
  let s1 := sp.map (fun p => p - sc)
  let s2 := (rollL sp).map (fun p => p - sc)
  let ns := List.zipWith V3.cross s1 s2
  let a := List.zipWith (fun p q => p - q) (rollL sp) sp
  let b := List.zipWith (fun p q => p - q) (rollR sp) sp
  (ns.map (fun n => mkTri n d), List.zipWith mkTri a b)

/-- One side `i` of a `QuadCell`: `get_side_normals(i)` (cell normal from corners 0,1,3 crossed with
    the side vector) against `c2c`, and `get_inner_angles(i)` (corner `i` between `i+1` and `i-1`). -/
def quadSide (pts : List V3) (i : Nat) (idx : List Nat) (centre : V3) (nb : Option V3) : Tri × Tri :=
  let sp := idx.map (pt pts)
  let normal := V3.cross (pt pts 1 - pt pts 0) (pt pts 3 - pt pts 0)
  let sv := pt sp 1 - pt sp 0
  let n := V3.cross normal sv
  let d := c2c centre (avg sp) nb
  let p0 := pt pts ((i + 3) % 4)
  let p1 := pt pts i
  let p2 := pt pts ((i + 1) % 4)
  (mkTri n d, mkTri (p2 - p1) (p0 - p1))

/-- the rational signature of a cell -/
structure Sig where
  tris : List Tri
  corners : List Tri
  edges : List Rat
  deriving DecidableEq, Repr

/-- `get_edge_lengths` (squared); `pairs` = the corner pairs it measures (generated table
    `hexAspectPairs` / `quadAspectPairs`, read off the running code) -/
def edgeLens (pairs : List (Nat × Nat)) (pts : List V3) : List Rat :=
  pairs.map (fun e => V3.norm2 (pt pts e.2 - pt pts e.1))

/-- signature of a hexahedral cell; `nb i` = centre of the neighbour on side `i` (position in
    `side_names`), `none` on a boundary side. Sides are visited in `side_names` order. -/
def sigHexWith (sides : List (List Nat)) (pairs : List (Nat × Nat)) (pts : List V3) (nb : Nat → Option V3) : Sig :=
  let centre := avg pts
  let ss := (List.range sides.length).map (fun i => hexSide ((sides.getD i []).map (pt pts)) centre (nb i))
  ⟨ss.flatMap (·.1), ss.flatMap (·.2), edgeLens pairs pts⟩

def sigHex (pts : List V3) (nb : Nat → Option V3) : Sig :=
  sigHexWith CBV.Gen.hexSideIdx CBV.Gen.hexAspectPairs pts nb

def sigQuadWith (sides : List (List Nat)) (pairs : List (Nat × Nat)) (pts : List V3) (nb : Nat → Option V3) : Sig :=
  let centre := avg pts
  let ss := (List.range sides.length).map (fun i => quadSide pts i (sides.getD i []) centre (nb i))
  ⟨ss.map (·.1), ss.map (·.2), edgeLens pairs pts⟩

def sigQuad (pts : List V3) (nb : Nat → Option V3) : Sig :=
  sigQuadWith CBV.Gen.quadSideIdx CBV.Gen.quadAspectPairs pts nb

/-! ### scale-free normal form -/

def sgn (q : Rat) : Int := if 0 < q then 1 else if q < 0 then -1 else 0

/-- signed squared cosine: `cos = s·√r` -/
structure Tri0 where
  s : Int
  r : Rat
  deriving DecidableEq, Repr, Inhabited

def Tri.norm (t : Tri) : Tri0 := ⟨sgn t.nc, t.nc * t.nc / (t.nn * t.cc)⟩

def maxL : List Rat → Rat
  | [] => 0
  | x :: xs => xs.foldl max x

def minL : List Rat → Rat
  | [] => 0
  | x :: xs => xs.foldl min x

structure Sig0 where
  tris : List Tri0
  corners : List Tri0
  /-- (longest edge / shortest edge)² -/
  aspect2 : Rat
  deriving DecidableEq, Repr

def Sig.norm (s : Sig) : Sig0 := ⟨s.tris.map Tri.norm, s.corners.map Tri.norm, maxL s.edges / minL s.edges⟩

/-! ### canonical form (order of summation) -/

def Tri.le (a b : Tri) : Bool :=
  a.nc < b.nc || (a.nc == b.nc && (a.nn < b.nn || (a.nn == b.nn && a.cc ≤ b.cc)))

def Tri0.le (a b : Tri0) : Bool := a.s < b.s || (a.s == b.s && a.r ≤ b.r)

def Sig.canon (s : Sig) : Sig :=
  ⟨s.tris.mergeSort Tri.le, s.corners.mergeSort Tri.le, s.edges.mergeSort (fun a b => a ≤ b)⟩

def Sig0.canon (s : Sig0) : Sig0 := ⟨s.tris.mergeSort Tri0.le, s.corners.mergeSort Tri0.le, s.aspect2⟩

/-! ### the code's guards: when `quality` raises `ValueError("Degenerate Cell")` -/

/-- a `RuntimeWarning` (division by zero / invalid value) is raised: some centre-to-centre vector
    is zero, or all edges are zero; for quads (no `VSMALL` in `unit_vector`) also a zero side
    normal or a zero corner side. -/
def degenerate (quad : Bool) (s : Sig) : Bool :=
  s.tris.any (fun t => t.cc == 0) || maxL s.edges == 0 ||
  (quad && (s.tris.any (fun t => t.nn == 0) || s.corners.any (fun t => t.nn == 0 || t.cc == 0)))

/-! ### opaque float post-processing, as `CellBase.quality` does it -/

def ratToFloat (q : Rat) : Float :=
  let n := q.num.natAbs
  let d := q.den
  if n == 0 then 0.0 else
  let s : Int := 64 - (n.log2 : Int) + (d.log2 : Int)
  let qn := if s ≥ 0 then (n <<< s.toNat) / d else n / (d <<< (-s).toNat)
  let f := Float.scaleB (Float.ofNat qn) (-s)
  if q.num < 0 then -f else f

/-- exact value of a float constant regenerated from the source as (numerator, denominator) -/
def constOf (p : Int × Nat) : Float := ratToFloat (mkRat p.1 p.2)

/-- `constants.VSMALL`, regenerated -/
def vsmall : Float := constOf CBV.Gen.c14Vsmall

/-- (base, exponent, factor) of one `q_scale(...)` call of `CellBase.quality` -/
structure QS where
  base : Float
  exponent : Float
  factor : Float

/-- the constants of the `i`-th `q_scale` call in source order (0 non-orthogonality, 1 inner angle, 2 aspect),
    regenerated from the source on every run (`c14QScale`) -/
def qsAt (i : Nat) : QS :=
  match CBV.Gen.c14QScale.getD i [] with
  | [b, e, f] => ⟨constOf b, constOf e, constOf f⟩
  | _ => ⟨0.0, 0.0, 0.0⟩

/-- the regenerated table has the shape the model computes with: three calls, three constants each; otherwise
    the model refuses every request -/
def qTablesOk : Bool :=
  CBV.Gen.c14QScale.length == 3 && CBV.Gen.c14QScale.all (fun t => t.length == 3 && t.all (fun p => p.2 != 0)) &&
    CBV.Gen.c14Vsmall.2 != 0

def pi : Float := 3.141592653589793

def qScale (base exponent factor value : Float) : Float := factor * Float.pow base (exponent * value) - factor

def qScaleWith (q : QS) (value : Float) : Float := qScale q.base q.exponent q.factor value

def clip1 (x : Float) : Float := if x < -1.0 then -1.0 else if x > 1.0 then 1.0 else x

def degOfCos (c : Float) : Float := 180.0 * Float.acos (clip1 c) / pi

def fsum (xs : List Float) : Float := xs.foldl (· + ·) 0.0

/-- `G_ε`: the value the code computes from the signature (`eps` = VSMALL; hex cells guard the
    normal and the corner sides, quad cells only the shortest edge). -/
def G (quad : Bool) (eps : Float) (s : Sig) : Float :=
  let q0 := qsAt 0
  let q1 := qsAt 1
  let q2 := qsAt 2
  let triCos (t : Tri) : Float :=
    let n := Float.sqrt (ratToFloat t.nn)
    let c := Float.sqrt (ratToFloat t.cc)
    if quad then ratToFloat t.nc / (n * c) else ratToFloat t.nc / ((n + eps) * c)
  let cornerCos (t : Tri) : Float :=
    let a := Float.sqrt (ratToFloat t.nn)
    let b := Float.sqrt (ratToFloat t.cc)
    if quad then ratToFloat t.nc / (a * b) else ratToFloat t.nc / ((a + eps) * (b + eps))
  let nonortho := fsum (s.tris.map (fun t => qScaleWith q0 (degOfCos (triCos t))))
  let inner := fsum (s.corners.map (fun t => qScaleWith q1 (Float.abs (degOfCos (cornerCos t) - 90.0))))
  let smax := Float.sqrt (ratToFloat (maxL s.edges))
  let smin := Float.sqrt (ratToFloat (minL s.edges)) + eps
  let aspect := qScaleWith q2 (Float.log10 (smax / smin))
  nonortho + inner + aspect

/-- `G₀`: the idealised value (no guard) from the scale-free form alone -/
def G0 (s : Sig0) : Float :=
  let q0 := qsAt 0
  let q1 := qsAt 1
  let q2 := qsAt 2
  let cosOf (t : Tri0) : Float := Float.ofInt t.s * Float.sqrt (ratToFloat t.r)
  let nonortho := fsum (s.tris.map (fun t => qScaleWith q0 (degOfCos (cosOf t))))
  let inner := fsum (s.corners.map (fun t => qScaleWith q1 (Float.abs (degOfCos (cosOf t) - 90.0))))
  let aspect := qScaleWith q2 (Float.log10 (Float.sqrt (ratToFloat s.aspect2)))
  nonortho + inner + aspect

/-- `CellBase.quality` (`none` = `ValueError`); evaluated on the canonical (sorted) signature, so that
    the value is a function of the *multisets* of entries -/
def quality (quad : Bool) (s : Sig) : Option Float :=
  let c := s.canon
  if degenerate quad c then none else some (G quad vsmall c)

/-- the idealised value (guard = 0), a function of the canonical scale-free form alone -/
def quality0 (s : Sig) : Float := G0 s.norm.canon

/-- the idealised value is meaningful: no zero norm anywhere -/
def idealDefined (quad : Bool) (s : Sig) : Bool :=
  !(degenerate quad s || minL s.edges == 0 || s.tris.any (fun t => t.nn == 0) ||
      s.corners.any (fun t => t.nn == 0 || t.cc == 0))

/-- smallest distance of an arccos argument from ±1 (conditioning of the float evaluation;
    reported to the harness, which widens its tolerance when it is tiny) -/
def cond (s : Sig0) : Float :=
  (s.tris ++ s.corners).foldl (fun m t => let c := 1.0 - ratToFloat t.r; if c < m then c else m) 1.0

/-! ### cells inside a grid: the neighbour centres come from the grid topology (model of C15) -/

def cellPts (p : List V3) (cell : List Nat) : List V3 := cell.map (pt p)

def sigOfCell (g : C15.Grid) (p : List V3) (ci : Nat) : Sig :=
  let cell := g.cells.getD ci []
  let nbs := C15.cellNbrs g ci
  let nb := fun i => ((nbs.getD i none).map (fun cj => avg (cellPts p (g.cells.getD cj []))))
  if g.kind.corners == 4 then sigQuadWith g.kind.sideIdx CBV.Gen.quadAspectPairs (cellPts p cell) nb
  else sigHexWith g.kind.sideIdx CBV.Gen.hexAspectPairs (cellPts p cell) nb

/-! ### histories: `GridBase.update` moves one point; qualities are read in between -/

/-- one step of a history on a grid: read all cell qualities, or `grid.update(index, position)`
    (no links: the point is overwritten and the junction's quality is returned) -/
inductive HOp where
  | read
  | update (i : Nat) (v : V3)
  /-- `grid.points[:] = q`: all points overwritten at once, as the smoother writes them (same number of points) -/
  | setAll (q : List V3)
  deriving Repr

/-- the points after a step -/
def stepPts (p : List V3) : HOp → List V3
  | .read => p
  | .update i v => p.set i v
  | .setAll q => if q.length = p.length then q else p

def finalPts (p : List V3) (ops : List HOp) : List V3 := ops.foldl stepPts p

/-- qualities of all cells of the grid at the given points (what a freshly built grid reports) -/
def cellQualities (g : C15.Grid) (p : List V3) : List (Option Float) :=
  (List.range g.cells.length).map (fun ci => quality (g.kind.corners == 4) (sigOfCell g p ci))

/-- what the reads of a history return: every `read` sees the points as they are at that moment — the
    code keeps no memory of earlier reads (`CellBase._quality` is never consulted) -/
def runHist (g : C15.Grid) : List V3 → List HOp → List (List (Option Float))
  | _, [] => []
  | p, .read :: ops => cellQualities g p :: runHist g p ops
  | p, .update i v :: ops => runHist g (p.set i v) ops
  | p, .setAll q :: ops => runHist g (stepPts p (.setAll q)) ops

/-- `Junction.quality`: mean of the qualities of the cells at a junction (return value of `update`) -/
def junctionQuality (g : C15.Grid) (p : List V3) (j : Nat) : Option Float :=
  let qs := ((List.range g.cells.length).filter (fun ci => (g.cells.getD ci []).contains j)).map
    (fun ci => quality (g.kind.corners == 4) (sigOfCell g p ci))
  if qs.isEmpty || qs.any (·.isNone) then none
  else some (fsum (qs.map (·.getD 0.0)) / Float.ofNat qs.length)

/-! ### the 24 rotations of the hexahedron (used by the theorems and by the harness' self check) -/

/-- blockMesh numbering: local coordinates (x, y, z) of corner `c` -/
def bitsL (c : Nat) : List Bool := [c % 4 == 1 || c % 4 == 2, c % 4 == 2 || c % 4 == 3, decide (c ≥ 4)]

def cornerOf (b : List Bool) : Nat :=
  (if b.getD 2 false then 4 else 0) +
    (match b.getD 0 false, b.getD 1 false with
      | false, false => 0 | true, false => 1 | true, true => 2 | false, true => 3)

/-- the corner permutation of the signed axis permutation `(π, f)`: new corner `k` (coordinates `b`)
    is the old corner whose coordinate along axis `π[a]` is `b[a]`, reflected when `f[a]` -/
def symOf (π : List Nat) (f : List Bool) : List Nat :=
  (List.range 8).map (fun k =>
    let b := bitsL k
    cornerOf ((List.range 3).map (fun a' =>
      let a := π.idxOf a'
      xor (b.getD a false) (f.getD a false))))

def evenPerms : List (List Nat) := [[0, 1, 2], [1, 2, 0], [2, 0, 1]]
def oddPerms : List (List Nat) := [[0, 2, 1], [2, 1, 0], [1, 0, 2]]
def evenFlips : List (List Bool) := [[false, false, false], [true, true, false], [true, false, true], [false, true, true]]
def oddFlips : List (List Bool) := [[true, false, false], [false, true, false], [false, false, true], [true, true, true]]

/-- determinant +1: even axis permutation with an even number of reflections, or odd with odd -/
def rot24 : List (List Nat) :=
  (evenPerms.flatMap fun π => evenFlips.map (symOf π)) ++ (oddPerms.flatMap fun π => oddFlips.map (symOf π))

/-! ### line protocol -/

def showF (x : Float) : String := toString x.toBits

def showQ (q0 : Option Float) (q : Option Float) (c : Float) : String :=
  match q with
  | none => "degenerate"
  | some v => s!"{showF v}:{match q0 with | some w => showF w | none => "-"}:{showF c}"

/-- `c14.grid kind cells points` → per cell `bits(G_ε):bits(G₀):bits(cond)` or `degenerate` -/
def handleGrid (args : List String) : Option String :=
  match args with
  | [k, cells, pts] => do
      let kind ← C15.kindOf? k
      let cells ← C15.parseCells? cells
      let p ← C15.parsePts? pts
      let g : C15.Grid := ⟨kind, cells, p.length⟩
      if !C15.wellFormed g then some "reject" else
      let quad := kind.corners == 4
      let out := (List.range cells.length).map (fun ci =>
        let s := sigOfCell g p ci
        showQ (if idealDefined quad s then some (quality0 s) else none) (quality quad s) (cond s.norm))
      some (" ".intercalate out)
  | _ => none

def parseHOp? (s : String) : Option HOp :=
  if s == "R" then some .read
  else if s.startsWith "W" then (C15.parsePts? (s.drop 1).toString).map HOp.setAll
  else if s.startsWith "U" then
    match ((s.drop 1).toString).splitOn ":" with
    | [i, v] => do some (.update (← parseNat? i) (← parseV3? v))
    | _ => none
  else none

def showOptF (q : Option Float) : String := match q with | some v => showF v | none => "degenerate"

/-- `c14.hist kind cells points op|op|…` (`R` = read all cells, `Ui:x,y,z` = `grid.update(i, (x,y,z))`,
    `Wp;p;…` = `grid.points[:] = …`) →
    per step: the cell values `a:cond;b:cond;…` of a read, or `J<value>:cond` returned by the update -/
def handleHist (args : List String) : Option String :=
  match args with
  | [k, cells, pts, ops] => do
      let kind ← C15.kindOf? k
      let cells ← C15.parseCells? cells
      let p ← C15.parsePts? pts
      let ops ← (ops.splitOn "|").mapM parseHOp?
      let g : C15.Grid := ⟨kind, cells, p.length⟩
      if !C15.wellFormed g then some "reject" else
      if ops.any (fun op => match op with | .setAll q => q.length != p.length | _ => false) then some "reject" else
      let quad := kind.corners == 4
      -- every value is followed by the conditioning of its float evaluation (see `cond`), for the harness' tolerance
      let condOf := fun (q : List V3) (ci : Nat) => cond (sigOfCell g q ci).norm
      let r := ops.foldl (fun (acc : List V3 × List String) op =>
        let p' := stepPts acc.1 op
        match op with
        | .read => (p', acc.2 ++ [";".intercalate ((List.range cells.length).map (fun ci =>
            showOptF (quality quad (sigOfCell g p' ci)) ++ ":" ++ showF (condOf p' ci)))])
        | .update i _ =>
            let cs := (List.range cells.length).filter (fun ci => (cells.getD ci []).contains i)
            let c := cs.foldl (fun m ci => let x := condOf p' ci; if x < m then x else m) 1.0
            (p', acc.2 ++ ["J" ++ showOptF (junctionQuality g p' i) ++ ":" ++ showF c])
        | .setAll _ => (p', acc.2 ++ ["W"])) (p, [])
      some ("|".intercalate r.2)
  | _ => none

def handle (op : String) (args : List String) : Option String :=
  if !qTablesOk then none else
  match op with
  | "c14.hist" => handleHist args
  | "c14.grid" => handleGrid args
  | "c14.rot24" => if args.isEmpty then some (";".intercalate (rot24.map showNatList)) else none
  | _ => none

end CBV.C14
