/-
C07 — executable model of how curved-edge data travels from the user's faces into the `edges`
section (core Lean only):

* `construct/edges.py`       `EdgeData.reverse` (hook added by the repair): `Datum.reverse`
* `construct/flat/face.py`   `Face.invert` (repaired: reverses the data), `shift`, `reorient`, `remove_edges`
                             (re-used from the C10 model, which is generic in the edge data)
* `construct/operations/operation.py`  `Operation.edges` (12 `Frame.add_beam` calls), `Operation.invert`
* `util/frame.py`            `Frame.add_beam` / `get_all_beams` (symmetric storage, enumeration
                             order `CBV.Gen.beamOrder` regenerated from the source)
* `lists/edge_list.py`       `EdgeList.find / add / add_from_operation` (repaired: directed corner
                             pair from `tools.edge_map`, table `CBV.Gen.c07EdgeDir`)
* `items/edges/edge.py`, `arcs/arc_base.py`   `Edge.is_valid`, `ArcEdgeBase.is_valid`
* `lists/vertex_list.py`     only the first-occurrence numbering of corner locations (no merged
                             patches); the full vertex model is C05's
* `mesh.py`                  the loops of `Mesh.assemble` as far as vertices, edges and the edge of
                             every wire go (repaired: wires are re-linked to the final edge list)

Data objects are identified by a tag; the 12 positions of an operation are *slots*
0-3 bottom edge i, 4-7 top edge i, 8-11 side edge i.
-/
import CBV.Model.Common
import CBV.Model.C10
import CBV.Gen.Tables
import CBV.Gen.TC07

namespace CBV.C07

open CBV.C10 (Face)

/-! ### edge data -/

inductive Kind where
  | line | arc | origin | angle | spline | polyLine | project | curve
  deriving DecidableEq, Repr, Inhabited

def Kind.name : Kind → String
  | .line => "line" | .arc => "arc" | .origin => "origin" | .angle => "angle"
  | .spline => "spline" | .polyLine => "polyLine" | .project => "project" | .curve => "curve"

def Kind.all : List Kind := [.line, .arc, .origin, .angle, .spline, .polyLine, .project, .curve]

def Kind.ofName? (s : String) : Option Kind := Kind.all.find? (fun k => k.name == s)

/-- arc-based kinds (`ArcEdgeBase`): they get the collinearity test -/
def Kind.isArc : Kind → Bool
  | .arc | .origin | .angle => true
  | _ => false

/-- An `EdgeData` object.  `pts`: the interior points of a spline / polyLine, listed from the first
    to the second vertex of the edge; `angle`: the sector angle of an `Angle`; `third`: the point
    an arc passes through (given for `Arc`, the described arc's mid point for origin / angle —
    supplied from outside, its formula is C08's subject), used by the validity filter only. -/
structure Datum where
  kind : Kind
  tag : Nat
  pts : List V3 := []
  angle : Rat := 0
  third : Option V3 := none
  deriving DecidableEq, Repr, Inhabited

/-- `EdgeData.reverse()`: no-op except `Angle` (negates the angle) and `Spline`/`PolyLine`
    (flip the point list). -/
def Datum.reverse (d : Datum) : Datum :=
  match d.kind with
  | .angle => { d with angle := -d.angle }
  | .spline => { d with pts := d.pts.reverse }
  | .polyLine => { d with pts := d.pts.reverse }
  | _ => d

/-- kinds whose `reverse` changes something -/
def Kind.dirDep : Kind → Bool
  | .angle | .spline | .polyLine => true
  | _ => false

def lineDatum : Datum := { kind := .line, tag := 0 }

/-! ### faces -/

/-- `Face.invert` after the repair: re-index as before, then `edge.reverse()` on every edge. -/
def faceInvert {α : Type} (f : Face α Datum) : Face α Datum :=
  let g := f.invert
  { g with edges := g.edges.map Datum.reverse }

/-- `Face.remove_edges(corners)`: `none` stands for no argument / `None` (all four corners); the
    edges at the listed corners become lines, an empty list removes nothing -/
def removeEdges (cs : Option (List Nat)) (es : List Datum) : List Datum :=
  (cs.getD [0, 1, 2, 3]).foldl (fun es c => es.set c lineDatum) es

inductive FaceOp where
  | invert
  | shift (k : Int)
  | reorient (p : V3)
  deriving Repr

/-- one call on a face whose points are location ids; `pos` gives their coordinates -/
def applyFaceOp (pos : Nat → V3) (f : Face Nat Datum) : FaceOp → Face Nat Datum
  | .invert => faceInvert f
  | .shift k => f.shift k
  | .reorient p => f.reorient (fun l => V3.norm2 (p - pos l))

def applyFaceOps (pos : Nat → V3) (f : Face Nat Datum) (ops : List FaceOp) : Face Nat Datum :=
  ops.foldl (applyFaceOp pos) f

/-- directed connectivity of a face: position `i` holds a datum described from point `i`
    to point `i+1 mod 4` -/
def dconn {α : Type} [Inhabited α] (f : Face α Datum) : List (α × α × Datum) :=
  f.edges.zipIdx.map (fun (e, i) => (f.pts.getD i default, f.pts.getD ((i + 1) % 4) default, e))

/-- the same curve described from its other end -/
def flipC {α : Type} (x : α × α × Datum) : α × α × Datum := (x.2.1, x.1, x.2.2.reverse)

/-! ### the 12 slots of an operation and the frame -/

/-- directed corner pair a slot's datum is specified for -/
def slotPair (s : Nat) : Nat × Nat :=
  if s < 4 then (s, (s + 1) % 4)
  else if s < 8 then (s - 4 + 4, (s - 4 + 1) % 4 + 4)
  else (s - 8, s - 8 + 4)

/-- `Frame.add_beam` accepts a pair iff it is one of `valid_pairs` (= `EDGE_PAIRS` as sets) -/
def validPair (a b : Nat) : Bool :=
  CBV.Gen.edgePairs.any (fun p => (p.1 == a && p.2 == b) || (p.1 == b && p.2 == a))

/-- the `add_beam` calls of `Operation.edges`, in order: bottom 0-3, top 0-3, side 0-3;
    `none` when a call would raise -/
def frameInserts : Option (List (Nat × Nat × Nat)) :=
  (List.range 12).mapM (fun s =>
    let p := slotPair s
    if validPair p.1 p.2 then some (p.1, p.2, s) else none)

/-- `frame[a][b]`: symmetric storage, a later `add_beam` overwrites -/
def frameGet (ins : List (Nat × Nat × Nat)) (a b : Nat) : Option Nat :=
  (ins.reverse.find? (fun x => (x.1 == a && x.2.1 == b) || (x.1 == b && x.2.1 == a))).map (·.2.2)

/-- `Frame.get_all_beams()` of `Operation.edges`: (corner_1, corner_2, slot) in the generated
    enumeration order -/
def allBeams : Option (List (Nat × Nat × Nat)) :=
  frameInserts.map (fun ins =>
    CBV.Gen.beamOrder.filterMap (fun p => (frameGet ins p.1 p.2).map (fun s => (p.1, p.2, s))))

/-- `edge_map[a][b]` → `(loc.corner_1, loc.corner_2)` -/
def edgeDir (a b : Nat) : Option (Nat × Nat) :=
  (CBV.Gen.c07EdgeDir.find? (fun e => e.1 == a && e.2.1 == b)).map (fun e => (e.2.2.1, e.2.2.2))

/-- the beams as `EdgeList.add_from_operation` (repaired) uses them: directed by `edge_map` -/
def directedBeams : Option (List (Nat × Nat × Nat)) :=
  allBeams.bind (fun bs => bs.mapM (fun x => (edgeDir x.1 x.2.1).map (fun p => (p.1, p.2, x.2.2))))

/-! ### the edge list -/

/-- an `Edge` object: two vertex indices and its data (also: a request to `EdgeList.add`) -/
structure Entry where
  v1 : Nat
  v2 : Nat
  d : Datum
  deriving DecidableEq, Repr, Inhabited

/-- `{a, b} == {c, d}` on python sets -/
def samePair (a b c d : Nat) : Bool := (a == c && b == d) || (a == d && b == c)

def Entry.same (e f : Entry) : Bool := samePair e.v1 e.v2 f.v1 f.v2

def tol2 : Rat :=
  let t : Rat := mkRat CBV.Gen.c07Tol.1 CBV.Gen.c07Tol.2
  t * t

/-- `Edge.is_valid` / `ArcEdgeBase.is_valid` with squared norms (`pos`: vertex index → position) -/
def valid (pos : Nat → V3) (e : Entry) : Bool :=
  if e.d.kind = .line then false
  else if V3.norm2 (pos e.v1 - pos e.v2) < tol2 then false
  else if e.d.kind.isArc then
    match e.d.third with
    | some p => decide (V3.norm2 (V3.cross (pos e.v1 - p) (pos e.v2 - p)) > tol2)
    | none => true
  else true

/-- `EdgeList.find` (the exception is `none`) -/
def find (es : List Entry) (a b : Nat) : Option Entry := es.find? (fun e => samePair a b e.v1 e.v2)

/-- `EdgeList.add`: new list and the edge handed back to the block's wire -/
def add (pos : Nat → V3) (es : List Entry) (r : Entry) : List Entry × Entry :=
  match find es r.v1 r.v2 with
  | some e => (es, e)
  | none => if valid pos r then (es ++ [r], r) else (es, r)

/-- a sequence of `add` calls: final list and the edge returned by each call -/
def addAll (pos : Nat → V3) : List Entry → List Entry → List Entry × List Entry
  | es, [] => (es, [])
  | es, r :: rs =>
      let a := add pos es r
      let b := addAll pos a.1 rs
      (b.1, a.2 :: b.2)

def run (pos : Nat → V3) (rs : List Entry) (es : List Entry) : List Entry := (addAll pos es rs).1

/-- `EdgeList.clear()`: nothing of the previous assembly survives -/
def clear (_es : List Entry) : List Entry := []

/-- the edge list of a history: the same `add` calls made once and then `n` more times, each time
    after `clear()` (`Mesh.clear(); Mesh.assemble()` or `Mesh.backport()` with unmoved vertices) -/
def reassembled (pos : Nat → V3) (rs : List Entry) : Nat → List Entry
  | 0 => run pos rs []
  | n + 1 => run pos rs (clear (reassembled pos rs n))

/-! ### operations -/

/-- an operation after its corners were turned into vertices: 8 vertex indices, 12 slot data -/
structure ROp where
  verts : List Nat
  data : List Datum
  deriving Repr

/-- the `add` calls `add_from_operation` makes for one operation, given the directed beams -/
def reqsOfOp (beams : List (Nat × Nat × Nat)) (o : ROp) : List Entry :=
  beams.map (fun x => ⟨o.verts.getD x.1 0, o.verts.getD x.2.1 0, o.data.getD x.2.2 lineDatum⟩)

def allReqs (beams : List (Nat × Nat × Nat)) (ops : List ROp) : List Entry :=
  ops.flatMap (reqsOfOp beams)

/-- the edge list after assembling the operations in order -/
def asmEdges (pos : Nat → V3) (beams : List (Nat × Nat × Nat)) (ops : List ROp) : List Entry :=
  run pos (allReqs beams ops) []

/-- the operation as the user builds it: two faces over location ids (with the calls applied to
    them before the loft is made) and four side data -/
structure UOp where
  bottom : Face Nat Datum
  bottomOps : List FaceOp
  top : Face Nat Datum
  topOps : List FaceOp
  side : List Datum
  /-- `Operation.invert()` was called on the finished operation -/
  inverted : Bool := false
  deriving Repr

/-- `VertexList.add` without merged patches: a location gets the index of its first occurrence.
    State: the location of every vertex so far. -/
def vertexOf (vs : List Nat) (l : Nat) : List Nat × Nat :=
  if l ∈ vs then (vs, vs.idxOf l) else (vs ++ [l], vs.length)

def vertexAll : List Nat → List Nat → List Nat × List Nat
  | vs, [] => (vs, [])
  | vs, l :: ls =>
      let a := vertexOf vs l
      let b := vertexAll a.1 ls
      (b.1, a.2 :: b.2)

/-- bottom face, top face and side data the operation holds when it is assembled.
    `Operation.invert()` (as repaired): the faces swap, every side datum is reversed. -/
def UOp.parts (pos : Nat → V3) (u : UOp) : Face Nat Datum × Face Nat Datum × List Datum :=
  let b := applyFaceOps pos u.bottom u.bottomOps
  let t := applyFaceOps pos u.top u.topOps
  if u.inverted then (t, b, u.side.map Datum.reverse) else (b, t, u.side)

/-- `Operation.points` turned into vertices, `Operation.edges` data -/
def UOp.resolve (pos : Nat → V3) (u : UOp) (vs : List Nat) : List Nat × ROp :=
  let p := u.parts pos
  let r := vertexAll vs (p.1.pts ++ p.2.1.pts)
  (r.1, { verts := r.2, data := p.1.edges ++ p.2.1.edges ++ p.2.2 })

def resolveAll (pos : Nat → V3) : List Nat → List UOp → List Nat × List ROp
  | vs, [] => (vs, [])
  | vs, u :: us =>
      let a := u.resolve pos vs
      let b := resolveAll pos a.1 us
      (b.1, a.2 :: b.2)

/-- `Mesh.assemble` as far as vertices and edges go: vertex locations, resolved operations,
    edge list, and per operation the edge each of the 12 beams' wires holds -/
structure Assembled where
  vlocs : List Nat
  rops : List ROp
  edges : List Entry
  wires : List Entry
  deriving Repr

/-- the last loop of `Mesh.assemble` (repair): a wire takes the listed edge of its vertex pair when
    there is one, and keeps the edge `add` handed back (a line or an invalid edge) otherwise -/
def relink (es : List Entry) (w : Entry) : Entry := (find es w.v1 w.v2).getD w

def assemble (locPos : Nat → V3) (beams : List (Nat × Nat × Nat)) (us : List UOp) : Assembled :=
  let r := resolveAll locPos [] us
  let vpos := fun v => locPos (r.1.getD v 0)
  let a := addAll vpos [] (allReqs beams r.2)
  { vlocs := r.1, rops := r.2, edges := a.1, wires := a.2.map (relink a.1) }

/-- the same after `n` further re-assemblies (vertex numbering and requests repeat; the edge list
    goes through `clear` and the same `add` calls again) -/
def assembleAgain (locPos : Nat → V3) (beams : List (Nat × Nat × Nat)) (us : List UOp) (n : Nat) : Assembled :=
  let a := assemble locPos beams us
  let vpos := fun v => locPos (a.vlocs.getD v 0)
  { a with edges := reassembled vpos (allReqs beams a.rops) n }

/-! ### entry points that put edge data on faces and operations

`Face.__init__(points, edges)`, `Face.add_edge`, `Face.remove_edges` (through `add_edge`),
`Operation.add_side_edge`, `Operation.from_series`.  `none` = the call raises. -/

def fourLines : List Datum := [lineDatum, lineDatum, lineDatum, lineDatum]

/-- `Face.add_edge(corner, edge_data)`: corner outside 0..3 raises; `None` puts a line -/
def faceAddEdge (es : List Datum) (corner : Int) (d : Option Datum) : Option (List Datum) :=
  if corner < 0 ∨ corner > 3 then none else some (es.set corner.toNat (d.getD lineDatum))

/-- the `edges` argument of `Face.__init__`: absent → four lines; otherwise exactly four entries,
    each handed to `add_edge(i, entry)` -/
def faceInitEdges (edges : Option (List (Option Datum))) : Option (List Datum) :=
  match edges with
  | none => some fourLines
  | some l =>
      if l.length ≠ 4 then none
      else l.zipIdx.foldlM (fun es x => faceAddEdge es (x.2 : Nat) x.1) fourLines

/-- `Face.remove_edges(corners)` as it is now: `add_edge(corner, None)` for every listed corner
    (`none` = no argument / `None` = all four), so a corner outside 0..3 raises -/
def faceRemoveEdges (es : List Datum) (cs : Option (List Int)) : Option (List Datum) :=
  (cs.getD [0, 1, 2, 3]).foldlM (fun es c => faceAddEdge es c none) es

/-- `Operation.add_side_edge(corner_idx, edge_data)` -/
def addSideEdge (side : List Datum) (i : Int) (d : Datum) : Option (List Datum) :=
  if i < 0 ∨ i > 3 then none else some (side.set i.toNat d)

/-- the 12 slot data of an operation under construction -/
structure Build where
  bottom : List Datum
  top : List Datum
  side : List Datum
  deriving Repr, DecidableEq

/-- a call the user makes on the operation's faces / on the operation -/
inductive Call where
  | addEdge (top : Bool) (corner : Int) (d : Option Datum)
  | removeEdges (top : Bool) (cs : Option (List Int))
  | addSide (i : Int) (d : Datum)
  deriving Repr

def Build.apply (b : Build) : Call → Option Build
  | .addEdge false c d => (faceAddEdge b.bottom c d).map (fun es => { b with bottom := es })
  | .addEdge true c d => (faceAddEdge b.top c d).map (fun es => { b with top := es })
  | .removeEdges false cs => (faceRemoveEdges b.bottom cs).map (fun es => { b with bottom := es })
  | .removeEdges true cs => (faceRemoveEdges b.top cs).map (fun es => { b with top := es })
  | .addSide i d => (addSideEdge b.side i d).map (fun es => { b with side := es })

def Build.run (b : Build) (calls : List Call) : Option Build := calls.foldlM Build.apply b

/-- two faces made with the given `edges` arguments, a loft of them (`Operation.__init__`: four line
    side edges), then the calls -/
def buildOp (bi ti : Option (List (Option Datum))) (calls : List Call) : Option Build := do
  let b ← faceInitEdges bi
  let t ← faceInitEdges ti
  Build.run { bottom := b, top := t, side := fourLines } calls

/-- slot `s` (0-3 bottom, 4-7 top, 8-11 side) of a build -/
def Build.slots (b : Build) : List Datum := b.bottom ++ b.top ++ b.side

/-- side data `Operation.from_series` makes from the faces between the first and the last one
    (`mids`: the four points of each, in order): nothing for none, an `Arc` through the one point,
    a `Spline` through the points in the order of the faces, i.e. from the bottom to the top face -/
def seriesSide (mids : List (List V3)) (tag0 : Nat) : List Datum :=
  [0, 1, 2, 3].map (fun i =>
    match mids with
    | [] => lineDatum
    | [m] => { kind := .arc, tag := tag0 + i, third := some (m.getD i V3.zero) }
    | ms => { kind := .spline, tag := tag0 + i, pts := ms.map (fun m => m.getD i V3.zero) })

/-! ### line protocol -/

def parseV3s? (s : String) (sep : String) : Option (List V3) :=
  if s = "-" then some [] else (s.splitOn sep).mapM parseV3?

/-- `kind~tag~third~angle~pts` -/
def parseDatum? (s : String) : Option Datum :=
  match s.splitOn "~" with
  | [k, t, th, an, ps] => do
      let k ← Kind.ofName? k
      let t ← t.toNat?
      let th ← if th = "-" then some none else (parseV3? th).map some
      let an ← parseRat? an
      let ps ← parseV3s? ps "_"
      if k.isArc && th.isNone then none else
      some { kind := k, tag := t, pts := ps, angle := an, third := th }
  | _ => none

def parseFaceOp? (s : String) : Option FaceOp :=
  match s.splitOn ":" with
  | ["invert"] => some .invert
  | ["shift", k] => k.toInt?.map .shift
  | ["reorient", p] => (parseV3? p).map .reorient
  | _ => none

def parseData4? (s : String) : Option (List Datum) := do
  let ds ← (s.splitOn ";").mapM parseDatum?
  if ds.length = 4 then some ds else none

/-- `l0.l1.l2.l3@d;d;d;d@op+op+…` (the last part may be empty) -/
def parseFace? (s : String) : Option (Face Nat Datum × List FaceOp) :=
  match s.splitOn "@" with
  | [ls, ds, ops] => do
      let ls ← (ls.splitOn ".").mapM String.toNat?
      if ls.length ≠ 4 then none else
      let ds ← parseData4? ds
      let ops ← if ops = "" then some [] else (ops.splitOn "+").mapM parseFaceOp?
      some (⟨ls, ds⟩, ops)
  | [ls, ds, ops, rm] => do
      -- `rmA` = remove_edges() / remove_edges(None), `rm<digits>` = remove_edges([digits…]), right after construction
      let ls ← (ls.splitOn ".").mapM String.toNat?
      if ls.length ≠ 4 then none else
      let ds ← parseData4? ds
      let ops ← if ops = "" then some [] else (ops.splitOn "+").mapM parseFaceOp?
      if !rm.startsWith "rm" then none else
      let r := (rm.drop 2).toString
      let cs ← if r = "A" then some none else (r.toList.mapM (fun c => (String.singleton c).toNat?)).map some
      if (cs.getD []).any (· ≥ 4) then none else
      some (⟨ls, removeEdges cs ds⟩, ops)
  | _ => none

def parseUOp? (s : String) : Option UOp :=
  match s.splitOn "!" with
  | [b, t, sd] => do
      let b ← parseFace? b
      let t ← parseFace? t
      let sd ← parseData4? sd
      some { bottom := b.1, bottomOps := b.2, top := t.1, topOps := t.2, side := sd }
  | [b, t, sd, "inv"] => do
      let b ← parseFace? b
      let t ← parseFace? t
      let sd ← parseData4? sd
      some { bottom := b.1, bottomOps := b.2, top := t.1, topOps := t.2, side := sd, inverted := true }
  | _ => none

def showV3s (ps : List V3) : String := if ps.isEmpty then "-" else "_".intercalate (ps.map V3.toStr)

def showEntry (e : Entry) : String :=
  s!"{e.d.kind.name}:{e.v1}:{e.v2}:{e.d.tag}:{showRat e.d.angle}:{showV3s e.d.pts}"

/-- answer of `c07.asm <locations> <op|op|…> [n]` →
    `V[vertex locations] B[8 vertices per op] E[entries] W[corner pair and edge held, per beam, 12 per op]`;
    `err` when `Operation.edges` / `edge_map` would raise on the current tables. -/
def handleAsmN (locs ops : String) (n : Nat) : Option String := do
      let lp ← parseV3s? locs ";"
      let us ← (ops.splitOn "|").mapM parseUOp?
      let nl := lp.length
      -- every location id must exist
      if us.any (fun u => (u.bottom.pts ++ u.top.pts).any (fun l => l ≥ nl)) then none else
      match directedBeams with
      | none => some "err"
      | some beams =>
        let a := assembleAgain (fun l => lp.getD l V3.zero) beams us n
        let v := showNatList a.vlocs
        let b := ";".intercalate (a.rops.map (fun o => showNatList o.verts))
        let e := ";".intercalate (a.edges.map showEntry)
        let corners := (us.map (fun _ => beams)).flatten
        let w := ";".intercalate ((a.wires.zip corners).map (fun (x, c) =>
          s!"{c.1}:{c.2.1}:{x.v1}:{x.v2}:{x.d.kind.name}:{x.d.tag}:{if a.edges.contains x then 1 else 0}"))
        some s!"V{v} B[{b}] E[{e}] W[{w}]"

/-- `c07.asm <locations> <ops> [n]`: `n` = number of re-assemblies after the first one -/
def handleAsm (args : List String) : Option String :=
  match args with
  | [locs, ops] => handleAsmN locs ops 0
  | [locs, ops, n] => n.toNat?.bind (handleAsmN locs ops)
  | _ => none

/-- `c07.face l0.l1.l2.l3@d;d;d;d@op+op <locations>` → points, tags, and direction-dependent
    payload of the four edges after the calls -/
def handleFace (args : List String) : Option String :=
  match args with
  | [face, locs] => do
      let lp ← parseV3s? locs ";"
      let f ← parseFace? face
      if f.1.pts.any (fun l => l ≥ lp.length) then none else
      let r := applyFaceOps (fun l => lp.getD l V3.zero) f.1 f.2
      some (showNatList r.pts ++ " " ++
        ";".intercalate (r.edges.map (fun d => s!"{d.kind.name}:{d.tag}:{showRat d.angle}:{showV3s d.pts}")))
  | _ => none

/-- `c07.beams` → the directed beams computed from the generated tables -/
def handleBeams (args : List String) : Option String :=
  match args with
  | [] => some (match directedBeams with
      | none => "err"
      | some bs => ";".intercalate (bs.map (fun x => s!"{x.1}:{x.2.1}:{x.2.2}")))
  | _ => none

/-- `N` = no `edges` argument, `E` = an empty list, otherwise `;`-separated entries, `0` = `None` -/
def parseInit? (s : String) : Option (Option (List (Option Datum))) :=
  if s = "N" then some none
  else if s = "E" then some (some [])
  else ((s.splitOn ";").mapM (fun t => if t = "0" then some none else (parseDatum? t).map some)).map some

def parseCorners? (s : String) : Option (Option (List Int)) :=
  if s = "A" then some none
  else if s = "E" then some (some [])
  else ((s.splitOn ".").mapM String.toInt?).map some

def parseCall? (s : String) : Option Call :=
  match s.splitOn ":" with
  | ["ae", f, c, d] => do
      let top ← if f = "t" then some true else if f = "b" then some false else none
      let c ← c.toInt?
      let d ← if d = "0" then some none else (parseDatum? d).map some
      some (.addEdge top c d)
  | ["re", f, cs] => do
      let top ← if f = "t" then some true else if f = "b" then some false else none
      let cs ← parseCorners? cs
      some (.removeEdges top cs)
  | ["as", i, d] => do
      let i ← i.toInt?
      let d ← parseDatum? d
      some (.addSide i d)
  | _ => none

/-- `c07.build <bottom edges> <top edges> <call+call+…|->` → kind:tag of the 12 slots, or `reject` -/
def handleBuild (args : List String) : Option String :=
  match args with
  | [bi, ti, calls] => do
      let bi ← parseInit? bi
      let ti ← parseInit? ti
      let cs ← if calls = "-" then some [] else (calls.splitOn "+").mapM parseCall?
      some (match buildOp bi ti cs with
        | none => "reject"
        | some b => ";".intercalate (b.slots.map (fun d => s!"{d.kind.name}:{d.tag}")))
  | _ => none

/-- `c07.series <face|face|…>` (each mid face `p0;p1;p2;p3`, `-` for none) → the four side data -/
def handleSeries (args : List String) : Option String :=
  match args with
  | [mids] => do
      let ms ← if mids = "-" then some [] else (mids.splitOn "|").mapM (fun f => parseV3s? f ";")
      if ms.any (fun m => m.length ≠ 4) then none else
      some (";".intercalate ((seriesSide ms 1).map (fun d =>
        s!"{d.kind.name}:{match d.third with | some p => p.toStr | none => "-"}:{showV3s d.pts}")))
  | _ => none

def handle (op : String) (args : List String) : Option String :=
  match op with
  | "c07.asm" => handleAsm args
  | "c07.face" => handleFace args
  | "c07.beams" => handleBeams args
  | "c07.build" => handleBuild args
  | "c07.series" => handleSeries args
  | _ => none

end CBV.C07
