/-
The statement order of the grading methods as M-PROP / M-HIST / M-PROP∘M-CALC mirror it (C01, C02, C04; round 6).

One outline per method on the execution path of `Mesh.grade`: `(nesting depth, kind, text)` per statement in source
order (doc strings, report statements and the construction of error messages left out, `raise` with the exception class
only, type annotations dropped, locals and parameters renamed `v0, v1, …` in order of first binding).  These
are the outlines the model functions named in the comments were written against; `cbv/tables/c01.py` regenerates the
same outlines from the current source with `ast` into `CBV.Gen.c01Ord…`, and `Props/C01.lean` (`T_C01_order`) proves
them equal.  Core Lean only.
-/
namespace CBV.Prop.Order

abbrev Outline := List (Nat × String × String)

/-- Mesh.grade — `run` / `Mem.gradeFrom`: `gradeBlocks`, then `loop`, then `checkAll` — in this order -/
def meshGrade : Outline :=
  [(0, "if", "not self.is_assembled"),
   (1, "raise", "RuntimeError"),
   (0, "do", "self.block_list.grade_blocks()"),
   (0, "do", "self.block_list.propagate_gradings()"),
   (0, "do", "self.block_list.check_consistency()")]

/-- BlockList.grade_blocks — `Mem.grade = gradeFrom ∘ reset`: every axis is reset before any block is graded; `gradeBlocks` folds `gradeAxis` over blocks × axes -/
def gradeBlocks : Outline :=
  [(0, "for", "v0 in self.blocks"),
   (1, "for", "v1 in v0.axes"),
   (2, "do", "v1.wires.reset()"),
   (0, "for", "v0 in self.blocks"),
   (1, "do", "v0.grade()")]

/-- BlockList.propagate_gradings — `loop` / `pass`: work list of all blocks; a defined block is removed and the pass ends (`break`) with `updated`; otherwise `blockCopy`; no update in a whole pass ends the loop; a non-empty list raises `undefined` -/
def propagate : Outline :=
  [(0, "do", "v0 = set(range(len(self.blocks)))"),
   (0, "while", "len(v0) > 0"),
   (1, "do", "v1 = False"),
   (1, "for", "v2 in v0"),
   (2, "do", "v3 = self.blocks[v2]"),
   (2, "if", "v3.is_defined"),
   (3, "do", "v0.remove(v2)"),
   (3, "do", "v1 = True"),
   (3, "break", ""),
   (2, "do", "v1 = v3.copy_grading() or v1"),
   (1, "if", "not v1"),
   (2, "break", ""),
   (0, "if", "len(v0) > 0"),
   (1, "raise", "UndefinedGradingsError")]

/-- BlockList.check_consistency — `checkAll`: all blocks … -/
def listCheck : Outline :=
  [(0, "for", "v0 in self.blocks"),
   (1, "do", "v0.check_consistency()")]

/-- Block.grade — `gradeBlocks`: … the three axes in order -/
def blockGrade : Outline :=
  [(0, "for", "v0 in self.axes"),
   (1, "do", "v0.grade()")]

/-- Block.copy_grading — `blockCopy`: nothing for a defined block, else all three axes are tried in order (no short cut), `updated` is their disjunction -/
def blockCopy : Outline :=
  [(0, "do", "v0 = False"),
   (0, "if", "not self.is_defined"),
   (1, "for", "v1 in self.axes"),
   (2, "do", "v0 = v1.copy_grading() or v0"),
   (0, "return", "v0")]

/-- Block.check_consistency — `checkAll`: … × three axes: `axisConsistent` -/
def blockCheck : Outline :=
  [(0, "for", "v0 in self.axes"),
   (1, "do", "v0.check_consistency()")]

/-- Axis.copy_grading — `axisCopy`: defined → unchanged; the first defined neighbour in iteration order; aligned: chops in order, `copyPreserving false`; otherwise reversed, `copyPreserving true`; then `gradeAxis` -/
def axisCopy : Outline :=
  [(0, "if", "self.is_defined"),
   (1, "return", "False"),
   (0, "for", "v0 in self.neighbours"),
   (1, "if", "v0.is_defined"),
   (2, "if", "v0.is_aligned(self)"),
   (3, "for", "v1 in v0.wires.chops"),
   (4, "do", "self.wires.add_chop(v1.copy_preserving())"),
   (2, "else", ""),
   (3, "for", "v1 in reversed(v0.wires.chops)"),
   (4, "do", "self.wires.add_chop(v1.copy_preserving(inverted=True))"),
   (2, "do", "self.grade()"),
   (2, "return", "True"),
   (0, "return", "False")]

/-- Axis.is_aligned — `axisAligned`: the first coincident wire pair in `this × other` order decides -/
def axisAligned : Outline :=
  [(0, "for", "v0 in self.wires"),
   (1, "for", "v1 in v2.wires"),
   (2, "if", "v0.is_coincident(v1)"),
   (3, "return", "v0.is_aligned(v1)"),
   (0, "raise", "RuntimeError")]

/-- Axis.chop — `Mem.chop`: the first chop replaces the propagate manager, every chop is appended -/
def axisChop : Outline :=
  [(0, "if", "not isinstance(self.wires, WireChopManager)"),
   (1, "do", "self.wires = WireChopManager(self.wires.wires)"),
   (0, "do", "self.wires.add_chop(v0)")]

/-- WireChopManager.grade — `gradeChopped` (and `gradeAxisSpecs`, `resolved`): chops to the axis-level Grading first, then wire by wire, chop by chop, a preserving copy -/
def chopGrade : Outline :=
  [(0, "do", "self.update()"),
   (0, "for", "v0 in self.chops"),
   (1, "do", "self.grading.add_chop(v0)"),
   (0, "for", "v1 in self.wires"),
   (1, "for", "v0 in self.chops"),
   (2, "do", "v1.add_chop(v0.copy_preserving())")]

/-- WireChopManager.reset — `Mem.reset`: wires and the axis-level Grading -/
def chopReset : Outline :=
  [(0, "do", "super().reset()"),
   (0, "do", "self.grading = Grading(0)")]

/-- WirePropagateManager.grade — `gradePropagated`: idle without chops; `copyWire` over all wires *before* `fillWire` over all wires -/
def propGrade : Outline :=
  [(0, "if", "len(self.chops) == 0"),
   (1, "return", ""),
   (0, "do", "self.update()"),
   (0, "do", "self.copy_neighbours()"),
   (0, "do", "self.propagate_grading()")]

/-- WirePropagateManager.reset — `Mem.reset`: wires, and the copied chops are forgotten (`userChops`) -/
def propReset : Outline :=
  [(0, "do", "super().reset()"),
   (0, "do", "self.chops = []")]

/-- WirePropagateManager.copy_neighbours — `copyWire`: every defined coincident overwrites (the last one wins), inverted when not aligned -/
def copyNeighbours : Outline :=
  [(0, "for", "v0 in self.wires"),
   (1, "for", "v1 in v0.coincidents"),
   (2, "if", "v1.grading.is_defined"),
   (3, "if", "v1.is_aligned(v0)"),
   (4, "do", "v0.grading = v1.grading"),
   (3, "else", ""),
   (4, "do", "v0.grading = v1.grading.inverted")]

/-- WirePropagateManager.propagate_grading — `fillWire` (and `firstTrialError`): a trial Grading on the average length, then only wires without a grading get the chops -/
def propagateGrading : Outline :=
  [(0, "do", "v0 = Grading(self.length)"),
   (0, "for", "v1 in self.chops"),
   (1, "do", "v0.add_chop(v1)"),
   (0, "for", "v2 in self.wires"),
   (1, "if", "not v2.grading.is_defined"),
   (2, "for", "v1 in self.chops"),
   (3, "do", "v2.grading.add_chop(v1)")]

/-- WireManagerBase.check_consistency — `axisConsistent`: `countsEqual` first, then every wire against every coincident: exact count and `specEq` with the aligned / inverted grading -/
def check : Outline :=
  [(0, "do", "v0 = [v1.grading.count for v1 in self.wires]"),
   (0, "if", "len(set(v0)) != 1"),
   (1, "raise", "InconsistentGradingsError"),
   (0, "for", "v1 in self.wires"),
   (1, "for", "v2 in v1.coincidents"),
   (2, "if", "v2.is_aligned(v1)"),
   (3, "do", "v3 = v2.grading"),
   (2, "else", ""),
   (3, "do", "v3 = v2.grading.inverted"),
   (2, "if", "v1.grading.count != v2.grading.count or v1.grading != v3"),
   (3, "raise", "InconsistentGradingsError")]

/-- WireManagerBase.reset — `Mem.reset`: every wire gets an empty Grading -/
def baseReset : Outline :=
  [(0, "for", "v0 in self.wires"),
   (1, "do", "v0.grading = Grading(v0.length)")]

/-- WireManagerBase.is_simple — `isSimple`: wires 1–3 against wire 0 -/
def isSimple : Outline :=
  [(0, "do", "v0 = self.wires[0].grading"),
   (0, "for", "v1 in self.wires[1:]"),
   (1, "if", "v1.grading != v0"),
   (2, "return", "False"),
   (0, "return", "True")]

/-- WireManagerBase.length — `avgLen` (`Model/C04Chop.lean`): the sum of the four edge lengths, starting from 0, divided by 4 -/
def length : Outline :=
  [(0, "return", "sum((v0.edge.length for v0 in self.wires)) / 4")]

end CBV.Prop.Order
