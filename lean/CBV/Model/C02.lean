/- C02 — executable model (core Lean only).  Stub. -/
import CBV.Model.Common
import CBV.Gen.Tables

namespace CBV.C02

def handle (_op : String) (_args : List String) : Option String := none

end CBV.C02
