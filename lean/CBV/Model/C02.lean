/-
C02 — M-PROP°: the axis-level abstraction of `BlockList.propagate_gradings` (after the repairs).
Axes are natural numbers; block b owns axes 3b, 3b+1, 3b+2.  The state is the list of *defined*
axes plus the work-list; `adj a` is the iteration order of `Axis.neighbours` of axis `a`.
One `axisCopy` is one call of `Axis.copy_grading`: an undefined axis with a defined neighbour
becomes defined (it receives that neighbour's chops, which a defined axis always holds since
repair f66801e), anything else is left alone.  Core Lean only.
-/
import CBV.Model.Common
import CBV.Gen.Tables

namespace CBV.Prop0

structure Inp where
  nBlocks : Nat
  adj : Nat → List Nat        -- neighbours of an axis, in schedule order

abbrev Def := List Nat         -- defined axes

def axesOf (b : Nat) : List Nat := [3*b, 3*b+1, 3*b+2]

def BlockDef (d : Def) (b : Nat) : Prop := ∀ a ∈ axesOf b, a ∈ d
instance (d : Def) (b : Nat) : Decidable (BlockDef d b) := by unfold BlockDef; infer_instance

def HasDefNbr (inp : Inp) (d : Def) (a : Nat) : Prop := ∃ n ∈ inp.adj a, n ∈ d
instance (inp : Inp) (d : Def) (a : Nat) : Decidable (HasDefNbr inp d a) := by unfold HasDefNbr; infer_instance

/-- Axis.copy_grading -/
def axisCopy (inp : Inp) (d : Def) (a : Nat) : Def × Bool :=
  if a ∈ d then (d, false)
  else if HasDefNbr inp d a then (a :: d, true) else (d, false)

/-- Block.copy_grading: fold over the three axes -/
def axesCopy (inp : Inp) : Def → List Nat → Def × Bool
  | d, [] => (d, false)
  | d, a :: as =>
    let r := axisCopy inp d a
    let r' := axesCopy inp r.1 as
    (r'.1, r.2 || r'.2)

def blockCopy (inp : Inp) (d : Def) (b : Nat) : Def × Bool :=
  if BlockDef d b then (d, false) else axesCopy inp d (axesOf b)

/-- one pass of the `for i in undefined_blocks` loop.
    returns (defined, remaining worklist, updated) -/
def pass (inp : Inp) : Def → List Nat → Def × List Nat × Bool
  | d, [] => (d, [], false)
  | d, b :: rest =>
    if BlockDef d b then (d, rest, true)                  -- remove and break
    else
      let r := blockCopy inp d b
      let p := pass inp r.1 rest
      (p.1, b :: p.2.1, r.2 || p.2.2)

inductive Outcome | ok | undefined | outOfFuel
deriving DecidableEq, Repr

def loop (inp : Inp) : Nat → Def → List Nat → Def × Outcome
  | 0, d, _ => (d, .outOfFuel)
  | fuel+1, d, wl =>
    match wl with
    | [] => (d, .ok)
    | _ :: _ =>
      let r := pass inp d wl
      if r.2.2 then loop inp fuel r.1 r.2.1 else (r.1, .undefined)


/-! ### trace of `Axis.copy_grading` calls, for the correspondence with the implementation -/

def axesCopyT (inp : Inp) : Def → List Nat → Def × Bool × List (Nat × Bool)
  | d, [] => (d, false, [])
  | d, a :: as =>
    let r := axisCopy inp d a
    let r' := axesCopyT inp r.1 as
    (r'.1, r.2 || r'.2.1, (a, r.2) :: r'.2.2)

def passT (inp : Inp) : Def → List Nat → Def × List Nat × Bool × List (Nat × Bool)
  | d, [] => (d, [], false, [])
  | d, b :: rest =>
    if BlockDef d b then (d, rest, true, [])
    else
      let r := axesCopyT inp d (axesOf b)
      let p := passT inp r.1 rest
      (p.1, b :: p.2.1, r.2.1 || p.2.2.1, r.2.2 ++ p.2.2.2)

def loopT (inp : Inp) : Nat → Def → List Nat → List (Nat × Bool) → Outcome × List (Nat × Bool)
  | 0, _, _, tr => (.outOfFuel, tr)
  | fuel+1, d, wl, tr =>
    match wl with
    | [] => (.ok, tr)
    | _ :: _ =>
      let r := passT inp d wl
      if r.2.2.1 then loopT inp fuel r.1 r.2.1 (tr ++ r.2.2.2) else (.undefined, tr ++ r.2.2.2)

end CBV.Prop0

namespace CBV.C02
open CBV CBV.Prop0

def parseNested (s : String) : Option (List (List Nat)) :=
  (s.splitOn ";").mapM (fun part => if part.isEmpty then some [] else (part.splitOn ",").mapM String.toNat?)

/-- `c02.trace <nBlocks> <adj ;-lists per axis> <defined axes [..]>` →
    `<outcome> <axis:0|1,…>`: the sequence of `Axis.copy_grading` calls with their results -/
def handleTrace (args : List String) : Option String :=
  match args with
  | [n, adj, d0] => do
      let n ← n.toNat?
      let adj ← parseNested adj
      let d0 ← parseNatList? d0
      if adj.length != 3 * n then none else
      let arr := adj.toArray
      let inp : Inp := { nBlocks := n, adj := fun a => arr.getD a [] }
      let r := loopT inp (4 * n + 1) d0 (List.range n) []
      let oc := match r.1 with | .ok => "ok" | .undefined => "undefined" | .outOfFuel => "out-of-fuel"
      some (oc ++ " " ++ ",".intercalate (r.2.map (fun p => s!"{p.1}:{if p.2 then 1 else 0}")) ++ ".")
  | _ => none

def handle (op : String) (args : List String) : Option String :=
  match op with
  | "c02.trace" => handleTrace args
  | _ => none

end CBV.C02
