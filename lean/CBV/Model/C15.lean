/-
C15 — executable model of the grid topology (`optimize/grid.py`, `cell.py`, `junction.py`,
`connection.py`) and of Laplacian smoothing (`optimize/smoother.py`) with its copy-back
(`MeshSmoother/SketchSmoother.backport`, `MappedSketch.positions`).  Exact rationals, core Lean only.

The topology part (cells, cell neighbours, boundary, junction neighbours) is shared with C14
(`GridBase.quality` needs the neighbour of every side).
-/
import CBV.Model.Common
import CBV.Gen.Tables
import CBV.Gen.TC15

namespace CBV.C15
open CBV

/-! ### tables of one cell class (`HexCell` / `QuadCell`), taken from the generated tables -/

structure Kind where
  /-- `side_indexes` -/
  sideIdx : List (List Nat)
  /-- `edge_pairs` -/
  edgePairs : List (Nat × Nat)
  /-- number of corners of a cell -/
  corners : Nat
  deriving Repr, DecidableEq

def hexKind : Kind := ⟨CBV.Gen.hexSideIdx, CBV.Gen.hexEdgePairs, 8⟩
def quadKind : Kind := ⟨CBV.Gen.quadSideIdx, CBV.Gen.quadEdgePairs, 4⟩

/-- `GridBase`: the cells by their addressing (point indexes per corner) over `n` points. -/
structure Grid where
  kind : Kind
  cells : List (List Nat)
  n : Nat
  deriving Repr, DecidableEq

/-! ### `CellBase` -/

/-- python `set(a) == set(b)` on lists -/
def setEq (a b : List Nat) : Bool := a.all (fun x => b.contains x) && b.all (fun x => a.contains x)

/-- `CellBase.get_common_indexes`: `set(self.indexes) ∩ set(candidate.indexes)` (as a duplicate-free list) -/
def common (c1 c2 : List Nat) : List Nat := c1.eraseDups.filter (fun x => c2.contains x)

/-- index of the first side whose corner set equals `corners` -/
def findSide (sides : List (List Nat)) (corners : List Nat) : Option Nat :=
  let i := sides.findIdx (fun s => setEq s corners)
  if i < sides.length then some i else none

/-- `CellBase.get_common_side` (`none` = `NoCommonSidesError`): the position in `side_names` of the
    side of `c1` whose corners are exactly the common vertices. -/
def commonSide (k : Kind) (c1 c2 : List Nat) : Option Nat :=
  let com := common c1 c2
  if com.length ≠ (k.sideIdx.headD []).length then none
  else findSide k.sideIdx (com.map (fun i => c1.idxOf i))

/-- `_bind_cell_neighbours` for cell `ci`: `neighbours[side]` after `add_neighbour` was called with
    every cell in order (a later candidate on the same side overwrites an earlier one; the cell
    itself is skipped by identity). -/
def cellNbrs (g : Grid) (ci : Nat) : List (Option Nat) :=
  let c1 := g.cells.getD ci []
  (List.range g.cells.length).foldl
    (fun acc cj =>
      if cj = ci then acc
      else match commonSide g.kind c1 (g.cells.getD cj []) with
        | some s => acc.set s (some cj)
        | none => acc)
    (List.replicate g.kind.sideIdx.length none)

/-- `CellBase.boundary`: the point indexes of all sides without a neighbour. -/
def cellBoundary (g : Grid) (ci : Nat) : List Nat :=
  let cell := g.cells.getD ci []
  ((g.kind.sideIdx.zip (cellNbrs g ci)).filter (fun sn => sn.2.isNone)).flatMap
    (fun sn => sn.1.map (fun si => cell.getD si 0))

def cellBoundaries (g : Grid) : List (List Nat) := (List.range g.cells.length).map (cellBoundary g)

/-! ### `Junction` -/

/-- `Junction.is_boundary` given the boundary sets of all cells: some cell that contains the
    point has it on a side without neighbour. -/
def isBoundaryWith (g : Grid) (bs : List (List Nat)) (j : Nat) : Bool :=
  (g.cells.zip bs).any (fun cb => cb.1.contains j && cb.2.contains j)

def isBoundary (g : Grid) (j : Nat) : Bool := isBoundaryWith g (cellBoundaries g) j

/-- two points are joined by a `CellConnection` of the cell: `{indexes[a], indexes[b]} == {j, to}`
    for an entry `(a, b)` of `edge_pairs` -/
def connected (k : Kind) (cell : List Nat) (j to : Nat) : Bool :=
  k.edgePairs.any (fun e =>
    let x := cell.getD e.1 0
    let y := cell.getD e.2 0
    (x == j && y == to) || (x == to && y == j))

/-- `Junction.neighbours` after `_bind_junction_neighbours` (ascending index order) -/
def junctionNbrs (g : Grid) (j : Nat) : List Nat :=
  (List.range g.n).filter (fun to =>
    to != j && g.cells.any (fun cell => cell.contains j && connected g.kind cell j to))

/-- `SmootherBase.inner`: junctions that are not on the boundary, ascending -/
def inner (g : Grid) : List Nat :=
  let bs := cellBoundaries g
  (List.range g.n).filter (fun j => !isBoundaryWith g bs j)

/-! ### smoothing -/

def pget (p : List V3) (i : Nat) : V3 := p.getD i V3.zero

def vsum : List V3 → V3
  | [] => V3.zero
  | x :: xs => x + vsum xs

/-- `np.average(points, axis=0)` -/
def avg (ps : List V3) : V3 := V3.smul (1 / (ps.length : Rat)) (vsum ps)

/-- one pass of the inner loop of `SmootherBase.smooth`: in place, junction after junction
    (Gauss–Seidel): a fixed junction is skipped, any other one is moved to the average of the
    *current* positions of its neighbours. -/
def sweep (inner : List Nat) (nbrs : Nat → List Nat) (fixed : List Nat) (p : List V3) : List V3 :=
  inner.foldl
    (fun p j => if fixed.contains j then p else p.set j (avg ((nbrs j).map (pget p))))
    p

/-- `iterations` passes -/
def iter (f : List V3 → List V3) : Nat → List V3 → List V3
  | 0, p => p
  | k + 1, p => iter f k (f p)

/-- `SmootherBase.smooth(iterations)` on a grid (positions after the loop, before `backport`) -/
def smooth (g : Grid) (fixed : List Nat) (k : Nat) (p : List V3) : List V3 :=
  let inn := inner g
  let nb := fun j => junctionNbrs g j
  iter (sweep inn nb fixed) k p

/-- the code computes `np.average` of an empty list (→ NaN) for a free inner junction without
    neighbours (a point that belongs to no cell); the model marks that as undefined. -/
def defined (g : Grid) (fixed : List Nat) : Bool :=
  (inner g).all (fun j => fixed.contains j || !(junctionNbrs g j).isEmpty)

/-- `SmootherBase.fix_points`: every junction closer than TOL to one of the points
    (`tol2` = TOL², squared distances are compared). -/
def fixPoints (tol2 : Rat) (p : List V3) (pts : List V3) : List Nat :=
  pts.flatMap (fun q => (List.range p.length).filter (fun j => V3.norm2 (q - pget p j) < tol2))

/-! ### copy back -/

/-- `SketchSmoother.backport`: face `i` receives the positions of its quad -/
def backportSketch (quads : List (List Nat)) (p : List V3) : List (List V3) :=
  quads.map (fun q => q.map (pget p))

/-- `MappedSketch.positions`: point `i` is read from the first (face, corner) whose index is `i` -/
def positionsOf (quads : List (List Nat)) (faces : List (List V3)) (n : Nat) : List V3 :=
  let idx := quads.flatten
  let pts := faces.flatten
  (List.range n).map (fun i => pts.getD (idx.idxOf i) V3.zero)

/-- `MeshSmoother.backport`: vertex `i` is moved to point `i` -/
def backportMesh (p : List V3) : List V3 := (List.range p.length).map (pget p)

/-! ### histories: several calls on one smoother, and a sketch that is smoothed again after it was moved -/

/-- TOL² of `fix_points` (`constants.TOL` = 1 / `c15TolDen`, regenerated from the source) -/
def tol2 : Rat := 1 / ((CBV.Gen.c15TolDen ^ 2 : Nat) : Rat)

/-- default of `smooth(iterations=…)`, regenerated from the source -/
def defaultIters : Nat := CBV.Gen.c15SmoothDefaultIters

/-- one call on a `SmootherBase` -/
inductive Op where
  | fixIdx (l : List Nat)
  | fixPts (q : List V3)
  | smooth (k : Nat)
  deriving Repr

/-- state of a smoother: the fixed set (`self.fixed`, only ever extended) and the grid points -/
structure SmState where
  fixed : List Nat
  p : List V3
  deriving Repr

/-- `fix_indexes` / `fix_points` add to the fixed set (`set.update` / `set.add`); `fix_points` looks at the
    *current* positions; `smooth` works with everything fixed so far -/
def runOp (g : Grid) (s : SmState) : Op → SmState
  | .fixIdx l => { s with fixed := s.fixed ++ l }
  | .fixPts q => { s with fixed := s.fixed ++ fixPoints tol2 s.p q }
  | .smooth k => { s with p := smooth g s.fixed k s.p }

def runOps (g : Grid) (s : SmState) (ops : List Op) : SmState := ops.foldl (runOp g) s

/-- `SketchSmoother(sketch).smooth(k)` on the *faces* of a mapped sketch: the grid is built on
    `sketch.positions`, which is reconstructed from the faces as they are now (no memory of earlier reads),
    and the result is copied back into every face -/
def smoothSketch (quads : List (List Nat)) (faces : List (List V3)) (n : Nat) (fixed : List Nat) (k : Nat) :
    List (List V3) :=
  backportSketch quads (smooth ⟨quadKind, quads, n⟩ fixed k (positionsOf quads faces n))

/-! ### lattice-like grids (hypothesis of `T_C15_lattice_partial`, decided per grid) -/

/-- lattice coordinates of the points of the structured map with `nx` cells per row -/
def quadCoord (nx : Nat) (q : Nat) : V3 := ⟨(q % (nx + 1) : Nat), (q / (nx + 1) : Nat), 0⟩

/-- `GridBase` addressing of the structured `nx × ny` quad map -/
def structQuads (nx ny : Nat) : Grid :=
  ⟨quadKind,
   (List.range ny).flatMap (fun j => (List.range nx).map (fun i =>
     [j * (nx + 1) + i, j * (nx + 1) + i + 1, (j + 1) * (nx + 1) + i + 1, (j + 1) * (nx + 1) + i])),
   (nx + 1) * (ny + 1)⟩

/-- the neighbours of every free inner junction are centrally symmetric in the labelling `coord` -/
def latticeLikeB (g : Grid) (fixed : List Nat) (coord : Nat → V3) : Bool :=
  (inner g).all (fun j => fixed.contains j ||
    (!(junctionNbrs g j).isEmpty &&
      vsum ((junctionNbrs g j).map coord) == V3.smul ((junctionNbrs g j).length : Rat) (coord j)))

/-! ### anchoring: every free junction is linked to the frame (hypothesis of the uniqueness theorem, decided per grid) -/

/-- one round: the junctions already reached, plus those with a reached neighbour -/
def reachStep (nbrs : Nat → List Nat) (n : Nat) (r : List Nat) : List Nat :=
  (List.range n).filter (fun j => r.contains j || (nbrs j).any (fun t => r.contains t))

/-- the junctions below `n` that reach a junction of `nonfree` in at most `k` links -/
def reachSet (nbrs : Nat → List Nat) (n : Nat) (nonfree : List Nat) : Nat → List Nat
  | 0 => nonfree
  | k + 1 => reachStep nbrs n (reachSet nbrs n nonfree k)

/-- every free inner junction reaches a boundary or fixed junction along `Junction.neighbours` links
    (then the averaging equations have exactly one solution for given boundary / fixed positions) -/
def anchoredB (g : Grid) (fixed : List Nat) : Bool :=
  let inn := inner g
  let nb := (List.range g.n).map (junctionNbrs g)
  let nonfree := (List.range g.n).filter (fun i => !inn.contains i || fixed.contains i)
  let r := reachSet (fun j => nb.getD j []) g.n nonfree g.n
  inn.all (fun j => fixed.contains j || r.contains j)

/-! ### line protocol -/

/-- `a;b;c` of `[i,j,…]` lists -/
def parseCells? (s : String) : Option (List (List Nat)) :=
  if s = "-" then some [] else (s.splitOn ";").mapM parseNatList?

def parsePts? (s : String) : Option (List V3) :=
  if s = "-" then some [] else (s.splitOn ";").mapM parseV3?

def kindOf? (s : String) : Option Kind :=
  match s with
  | "hex" => some hexKind
  | "quad" => some quadKind
  | _ => none

/-- a grid is well formed when every cell has the right number of corners, all below `n` -/
def wellFormed (g : Grid) : Bool :=
  g.cells.all (fun c => c.length == g.kind.corners && c.all (fun i => i < g.n))

/-- ⌊x·2^60⌋, the answer format for positions (compared by the harness within 1e-12) -/
def fix60 (x : Rat) : Int := (x * (2 ^ 60 : Nat)).floor

def showV60 (v : V3) : String := s!"{fix60 v.x},{fix60 v.y},{fix60 v.z}"

def showOptNat (o : Option Nat) : String := match o with | some i => toString i | none => "-"

/-- `c15.topo kind cells n` → boundary junctions, inner junctions, neighbour lists, cell neighbours -/
def handleTopo (args : List String) : Option String :=
  match args with
  | [k, cells, n] => do
      let kind ← kindOf? k
      let cells ← parseCells? cells
      let n ← parseNat? n
      let g : Grid := ⟨kind, cells, n⟩
      if !wellFormed g then some "reject" else
      let inn := inner g
      let bnd := (List.range n).filter (fun j => !inn.contains j)
      let nb := (List.range n).map (fun j => showNatList (junctionNbrs g j))
      let cn := (List.range cells.length).map (fun ci => "[" ++ ",".intercalate ((cellNbrs g ci).map showOptNat) ++ "]")
      some s!"B{showNatList bnd} I{showNatList inn} N{";".intercalate nb} C{";".intercalate cn}"
  | _ => none

/-- `c15.smooth kind cells points fixedIdx fixedPts iters` (`iters` a number or `default`) → positions after smoothing, the copied
    back faces (sketch) or vertices (mesh), and the positions reconstructed from the faces -/
def handleSmooth (args : List String) : Option String :=
  match args with
  | [k, cells, pts, fixedIdx, fixedPts, iters] => do
      let kind ← kindOf? k
      let cells ← parseCells? cells
      let p ← parsePts? pts
      let fi ← parseNatList? fixedIdx
      let fp ← parsePts? fixedPts
      let it ← if iters = "default" then some defaultIters else parseNat? iters
      let g : Grid := ⟨kind, cells, p.length⟩
      if !wellFormed g then some "reject" else
      let fixed := fi ++ fixPoints tol2 p fp
      if !defined g fixed then some "undefined" else
      let q := smooth g fixed it p
      let faces := backportSketch cells q
      let back := if kind.corners == 4 then positionsOf cells faces p.length else backportMesh q
      let showPts (l : List V3) := ";".intercalate (l.map showV60)
      some s!"P {showPts q} F {"|".intercalate (faces.map showPts)} R {showPts back}"
  | _ => none

/-- `c15.lattice kind cells fixedIdx coords` → whether the labelling `coords` (one per point) is lattice-like -/
def handleLattice (args : List String) : Option String :=
  match args with
  | [k, cells, fixedIdx, coords] => do
      let kind ← kindOf? k
      let cells ← parseCells? cells
      let fi ← parseNatList? fixedIdx
      let cs ← parsePts? coords
      let g : Grid := ⟨kind, cells, cs.length⟩
      if !wellFormed g then some "reject" else
      some (toString (latticeLikeB g fi (pget cs)))
  | _ => none

/-- `c15.anchored kind cells n fixedIdx` → whether every free inner junction is linked to the frame -/
def handleAnchored (args : List String) : Option String :=
  match args with
  | [k, cells, n, fixedIdx] => do
      let kind ← kindOf? k
      let cells ← parseCells? cells
      let n ← parseNat? n
      let fi ← parseNatList? fixedIdx
      let g : Grid := ⟨kind, cells, n⟩
      if !wellFormed g then some "reject" else
      some (toString (anchoredB g fi))
  | _ => none

def parseOp? (s : String) : Option Op :=
  if s.startsWith "I" then (parseNatList? (s.drop 1).toString).map Op.fixIdx
  else if s.startsWith "P" then (parsePts? (s.drop 1).toString).map Op.fixPts
  else if s.startsWith "S" then (parseNat? (s.drop 1).toString).map Op.smooth
  else none

/-- `c15.hist kind cells points op|op|…` (`I[i,j]`, `Px,y,z;…`, `Sk`) → after every call the fixed set
    (`X[…]`) resp. the positions (`Y…`), separated by `|`; `undefined` as soon as a smoothing call would
    average an empty neighbour list -/
def handleHist (args : List String) : Option String :=
  match args with
  | [k, cells, pts, ops] => do
      let kind ← kindOf? k
      let cells ← parseCells? cells
      let p ← parsePts? pts
      let ops ← (ops.splitOn "|").mapM parseOp?
      let g : Grid := ⟨kind, cells, p.length⟩
      if !wellFormed g then some "reject" else
      let step := fun (acc : Option (SmState × List String)) (op : Op) =>
        match acc with
        | none => none
        | some (s, out) =>
          let s' := runOp g s op
          match op with
          | .smooth _ =>
              if !defined g s.fixed then none
              else some (s', out ++ ["Y" ++ ";".intercalate (s'.p.map showV60)])
          | _ => some (s', out ++ ["X" ++ showNatList s'.fixed])
      match ops.foldl step (some (⟨[], p⟩, [])) with
      | none => some "undefined"
      | some (_, out) => some ("|".intercalate out)
  | _ => none

/-- `c15.sketch cells faces fixedIdx iters` (faces: `pts|pts|…`, as they are before the call) →
    faces after `SketchSmoother(sketch).smooth(iters)` and the positions read back -/
def handleSketch (args : List String) : Option String :=
  match args with
  | [cells, faces, fixedIdx, iters] => do
      let cells ← parseCells? cells
      let fs ← (faces.splitOn "|").mapM parsePts?
      let fi ← parseNatList? fixedIdx
      let it ← parseNat? iters
      if fs.length != cells.length || !(fs.all (fun f => f.length == 4)) || cells.flatten.isEmpty then some "reject" else
      let n := cells.flatten.foldl max 0 + 1
      let g : Grid := ⟨quadKind, cells, n⟩
      if !wellFormed g || !((List.range n).all (fun i => cells.flatten.contains i)) then some "reject" else
      if !defined g fi then some "undefined" else
      let out := smoothSketch cells fs n fi it
      let showPts (l : List V3) := ";".intercalate (l.map showV60)
      some s!"F {"|".intercalate (out.map showPts)} R {showPts (positionsOf cells out n)}"
  | _ => none

def handle (op : String) (args : List String) : Option String :=
  match op with
  | "c15.hist" => handleHist args
  | "c15.sketch" => handleSketch args
  | "c15.lattice" => handleLattice args
  | "c15.anchored" => handleAnchored args
  | "c15.topo" => handleTopo args
  | "c15.smooth" => handleSmooth args
  | _ => none

end CBV.C15
