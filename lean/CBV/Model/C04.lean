/- C04 — executable model (core Lean only): M-PROP (`Model/C01.lean`) composed with the chop calculator of C03
   (`Model/C04Chop.lean`, which exports `CBV.C04.handle`: request `c04.run`). -/
import CBV.Model.Common
import CBV.Gen.Tables
import CBV.Model.C04Chop
