/-
C05 — model of `VertexList.add / find_unique / find_duplicated` (lists/vertex_list.py),
`Mesh._add_vertices` (mesh.py), `Operation.get_patches_at_corner` (operation.py) and of the part
of `Mesh.assemble` that turns operations into vertex numbers (`Block.indexes`).

Generic in the type `P` of positions (with the test `close p q`, python: `norm(p - q) < TOL`)
and in the type `N` of patch names (python: `str`, sorted with `list.sort`).  The line protocol
instantiates `P := V3` (exact rationals of the float64 coordinates, `close` = squared distance
below `TOL²`) and `N := String`.  Core Lean only.
-/
import CBV.Model.Common
import CBV.Gen.Tables
import CBV.Gen.TC05

namespace CBV.C05

/-! ### `sorted(patches)` -/

section SortSec
variable {N : Type} [LE N] [DecidableLE N]

/-- insertion into a sorted list (stable: goes before the first element that is not smaller) -/
def orderedInsert (a : N) : List N → List N
  | [] => [a]
  | b :: l => if a ≤ b then a :: b :: l else b :: orderedInsert a l

/-- `sorted(l)` / `l.sort()`: a stable sort, duplicates are kept -/
def sort (l : List N) : List N := l.foldr orderedInsert []

end SortSec

/-! ### `VertexList` -/

/-- `Vertex`: the index it was created with and its position. -/
structure Vertex (P : Type) where
  index : Nat
  pos : P
  deriving Repr, DecidableEq

/-- `DuplicatedEntry`: a vertex and the sorted slave patch names it was created for. -/
structure Dup (P N : Type) where
  vertex : Vertex P
  patches : List N
  deriving Repr, DecidableEq

/-- `VertexList`: `vertices` in output order and the registry `duplicated`. -/
structure VList (P N : Type) where
  vertices : List (Vertex P) := []
  duplicated : List (Dup P N) := []
  deriving Repr

section VL
variable {P N : Type} [DecidableEq N] [LE N] [DecidableLE N] (close : P → P → Bool)

/-- `VertexList.find_duplicated`; the caller passes the already sorted list. -/
def findDuplicated (vl : VList P N) (p : P) (sp : List N) : Option (Vertex P) :=
  (vl.duplicated.find? (fun d => close p d.vertex.pos && decide (d.patches = sp))).map (·.vertex)

/-- `VertexList.find_unique` -/
def findUnique (vl : VList P N) (p : P) : Option (Vertex P) :=
  vl.vertices.find? (fun v => close v.pos p)

/-- `Vertex.from_point(point, len(self.vertices))` appended to `vertices` -/
def newVertex (vl : VList P N) (p : P) : Vertex P := ⟨vl.vertices.length, p⟩

/-- `VertexList.add(point, slave_patches)`; returns the new list and the vertex handed back. -/
def add (vl : VList P N) (p : P) (slaves : Option (List N)) : VList P N × Vertex P :=
  match slaves with
  | none =>
      -- scenarios 1, 2 and 4
      let fresh := ({ vl with vertices := vl.vertices ++ [newVertex vl p] }, newVertex vl p)
      match findUnique close vl p with
      | some v => if vl.duplicated.any (fun d => d.vertex.index == v.index) then fresh else (vl, v)
      | none => fresh
  | some s =>
      -- scenario 3 (the only branch `Mesh` takes)
      let sp := sort s
      match findDuplicated close vl p sp with
      | some v => (vl, v)
      | none =>
          let v := newVertex vl p
          ({ vertices := vl.vertices ++ [v], duplicated := vl.duplicated ++ [⟨v, sp⟩] }, v)

/-- A sequence of `add(point, list)` calls (the way `Mesh` uses the list); the vertices handed back. -/
def runAdds : VList P N → List (P × List N) → VList P N × List (Vertex P)
  | vl, [] => (vl, [])
  | vl, (p, s) :: rest =>
      let r := add close vl p (some s)
      let r' := runAdds r.1 rest
      (r'.1, r.2 :: r'.2)

/-- A sequence of arbitrary `add` calls (`None` included). -/
def runAddsOpt : VList P N → List (P × Option (List N)) → VList P N × List (Vertex P)
  | vl, [] => (vl, [])
  | vl, (p, s) :: rest =>
      let r := add close vl p s
      let r' := runAddsOpt r.1 rest
      (r'.1, r.2 :: r'.2)

end VL

/-! ### operations and `Mesh._add_vertices` -/

/-- The part of an `Operation` that matters for vertex creation: 8 points (bottom face 0..3, top
    face 4..7) and the patch names of bottom, top and the four sides in `SIDES_MAP` order. -/
structure Op (P N : Type) where
  pts : List P
  bottom : Option N := none
  top : Option N := none
  sides : List (Option N) := [none, none, none, none]
  deriving Repr

section Asm
variable {P N : Type} [DecidableEq N] [LE N] [DecidableLE N] (close : P → P → Bool)

/-- a duplicate-free list with the same members -/
def dedupe : List N → List N
  | [] => []
  | a :: l => if a ∈ l then dedupe l else a :: dedupe l

/-- python `set` built by three `add`s and `discard(None)`, as a duplicate-free list (the order in
    which python iterates over the set does not matter: the list is sorted before use) -/
def setOf (xs : List (Option N)) : List N := dedupe (xs.filterMap id)

/-- `Operation.get_patches_at_corner(corner)` -/
def patchesAtCorner (op : Op P N) (corner : Nat) : List N :=
  let face := if corner < 4 then op.bottom else op.top
  let index := corner % 4
  setOf [face, op.sides.getD index none, op.sides.getD ((index + 3) % 4) none]

/-- `patches.intersection(self.patch_list.slave_patches)` -/
def slaveSet (slaves : List N) (op : Op P N) (corner : Nat) : List N :=
  (patchesAtCorner op corner).filter (fun n => decide (n ∈ slaves))

/-- the `add` calls `Mesh._add_vertices(operation)` makes, corner 0 first -/
def cornerCalls (slaves : List N) (op : Op P N) : List (P × List N) :=
  op.pts.zipIdx.map (fun (p, c) => (p, slaveSet slaves op c))

/-- `Mesh._add_vertices` -/
def addVertices (slaves : List N) (vl : VList P N) (op : Op P N) : VList P N × List (Vertex P) :=
  runAdds close vl (cornerCalls slaves op)

/-- The vertex part of `Mesh.assemble`: operations in depot order; result: the vertex list and
    `Block.vertices` of every block. -/
def assemble (slaves : List N) : VList P N → List (Op P N) → VList P N × List (List (Vertex P))
  | vl, [] => (vl, [])
  | vl, op :: rest =>
      let r := addVertices close slaves vl op
      let r' := assemble slaves r.1 rest
      (r'.1, r.2 :: r'.2)

/-- `PatchList.slave_patches` -/
def slavePatches (merged : List (N × N)) : List N := merged.map (·.2)

end Asm

/-! ### histories of `Mesh` calls (merges declared at different times, re-assembly) -/

/-- The calls of `Mesh` that matter for the vertex partition. `query` stands for anything that only
    reads the slave set (`PatchList.is_slave`, `slave_patches`). -/
inductive Step (P N : Type) where
  | add (op : Op P N)
  | merge (master slave : N)
  | query
  | assemble
  | clear

/-- The part of `Mesh` that matters: depot, `patch_list.merged`, `vertex_list`, `Block.vertices` of the
    blocks in `block_list`. -/
structure MeshSt (P N : Type) where
  depot : List (Op P N) := []
  merged : List (N × N) := []
  vl : VList P N := {}
  blocks : List (List (Vertex P)) := []

section Hist
variable {P N : Type} [DecidableEq N] [LE N] [DecidableLE N] (close : P → P → Bool)

/-- one call; `assemble` reads the slave set from the pairs merged *so far* and appends to the
    lists as they are (a second `assemble` without `clear` adds the blocks again, as the code does) -/
def MeshSt.step (st : MeshSt P N) : Step P N → MeshSt P N
  | .add op => { st with depot := st.depot ++ [op] }
  | .merge m s => { st with merged := st.merged ++ [(m, s)] }
  | .query => st
  | .assemble =>
      let r := assemble close (slavePatches st.merged) st.vl st.depot
      { st with vl := r.1, blocks := st.blocks ++ r.2 }
  | .clear => { st with vl := {}, blocks := [] }

/-- a history; the state after it and what every `assemble` left behind (vertex list, blocks) -/
def runHist : MeshSt P N → List (Step P N) → MeshSt P N × List (VList P N × List (List (Vertex P)))
  | st, [] => (st, [])
  | st, s :: rest =>
      let st' := st.step close s
      let r := runHist st' rest
      match s with
      | .assemble => (r.1, (st'.vl, st'.blocks) :: r.2)
      | _ => r

/-- the operations added by a history -/
def addsOf : List (Step P N) → List (Op P N)
  | [] => []
  | .add op :: rest => op :: addsOf rest
  | _ :: rest => addsOf rest

/-- the pairs merged by a history -/
def mergesOf : List (Step P N) → List (N × N)
  | [] => []
  | .merge m s :: rest => (m, s) :: mergesOf rest
  | _ :: rest => mergesOf rest

/-- no `assemble` among the steps -/
def noAssemble : List (Step P N) → Bool
  | [] => true
  | .assemble :: _ => false
  | _ :: rest => noAssemble rest

end Hist

/-! ### instance used by the line protocol -/

/-- `constants.TOL` (the float64 value, exactly, re-read from the source on every run) -/
def tol : Rat := (CBV.Gen.c05TolNum : Rat) / (CBV.Gen.c05TolDen : Rat)

def tol2 : Rat := tol * tol

/-- `f.norm(p - q) < TOL` on exact coordinates -/
def closeV3 (p q : V3) : Bool := decide (V3.norm2 (p - q) < tol2)

/-! ### line protocol -/

def parseName? (s : String) : Option (Option String) :=
  if s = "-" then some none else if s.isEmpty then none else some (some s)

def parseNames? (s : String) : Option (List String) :=
  if s.isEmpty then some [] else some (s.splitOn ",")

/-- `p0;…;p7|bottom|top|s0,s1,s2,s3` with `-` for no patch -/
def parseOp? (s : String) : Option (Op V3 String) :=
  match s.splitOn "|" with
  | [pts, b, t, sd] => do
      let pts ← (pts.splitOn ";").mapM parseV3?
      if pts.length ≠ 8 then none
      let b ← parseName? b
      let t ← parseName? t
      let sd ← (sd.splitOn ",").mapM parseName?
      if sd.length ≠ 4 then none
      some { pts := pts, bottom := b, top := t, sides := sd }
  | _ => none

def showIdx (vs : List (Vertex V3)) : String := showNatList (vs.map (·.index))

def showVL (vl : VList V3 String) : String :=
  let ix := "+".intercalate (vl.vertices.map (fun v => toString v.index))
  let ds := ";".intercalate (vl.duplicated.map (fun d => s!"{d.vertex.index}:" ++ ",".intercalate d.patches))
  s!"n={vl.vertices.length} I={ix} D={ds}"

/-- `c05.asm <slave names, comma separated or ->  <op> …` → block indexes and the registry -/
def handleAsm (args : List String) : Option String :=
  match args with
  | sl :: ops => do
      let slaves ← if sl = "-" then some [] else parseNames? sl
      let ops ← ops.mapM parseOp?
      let r := assemble closeV3 slaves {} ops
      some (s!"B={";".intercalate (r.2.map showIdx)} " ++ showVL r.1)
  | _ => none

/-- `point|names` (a list, possibly empty) or `point|!` (python `None`) -/
def parseCall? (s : String) : Option (V3 × Option (List String)) :=
  match s.splitOn "|" with
  | [p, n] => do
      let p ← parseV3? p
      if n = "!" then some (p, none) else do
        let ns ← parseNames? n
        some (p, some ns)
  | _ => none

/-- `c05.adds <call> …` → the indices handed back and the registry -/
def handleAdds (args : List String) : Option String := do
  let calls ← args.mapM parseCall?
  let r := runAddsOpt closeV3 {} calls
  some (s!"R={showIdx r.2} " ++ showVL r.1)

/-- `c05.corner <op> <corner>` → patch names at the corner, sorted -/
def handleCorner (args : List String) : Option String :=
  match args with
  | [op, c] => do
      let op ← parseOp? op
      let c ← c.toNat?
      if c < 8 then some (showStrList (sort (patchesAtCorner op c))) else none
  | _ => none

/-- `A:<op>` add, `M:<master>,<slave>` merge, `Q` query, `X` assemble, `C` clear -/
def parseStep? (s : String) : Option (Step V3 String) :=
  if s = "Q" then some .query else if s = "X" then some .assemble else if s = "C" then some .clear
  else if s.startsWith "A:" then (parseOp? (s.drop 2).toString).map .add
  else if s.startsWith "M:" then
    match ((s.drop 2).toString).splitOn "," with
    | [m, sl] => if m.isEmpty || sl.isEmpty then none else some (.merge m sl)
    | _ => none
  else none

/-- `c05.hist <step> …` → for every `assemble` of the history: block indexes and the registry -/
def handleHist (args : List String) : Option String := do
  let steps ← args.mapM parseStep?
  let r := runHist closeV3 {} steps
  some ("H " ++ " | ".intercalate (r.2.map (fun (vl, bs) => s!"B={";".intercalate (bs.map showIdx)} " ++ showVL vl)))

def handle (op : String) (args : List String) : Option String :=
  match op with
  | "c05.asm" => handleAsm args
  | "c05.hist" => handleHist args
  | "c05.adds" => handleAdds args
  | "c05.corner" => handleCorner args
  | _ => none

end CBV.C05
