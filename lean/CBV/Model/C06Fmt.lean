/-
C06 — the numbers of a blockMeshDict as text.

`fmtFixed k neg q` is python's `f"{x:.{k}f}"` for a float `x` whose exact (dyadic) value is `q` and
whose sign bit is `neg`: CPython prints the correctly rounded decimal (round half to even on the
exact value) with `k` places; the sign is the sign *bit* (so `-0.0` and every negative number that
rounds to zero print as `-0.00000000`).  `vectorFormat` is `constants.vector_format`.
`decValue` reads a decimal token back (the parser side of the faithfulness theorems).

Core Lean only.
-/
import CBV.Model.Common

namespace CBV.C06

def pow10 : Nat → Nat
  | 0 => 1
  | n + 1 => 10 * pow10 n

/-- nearest integer to a non-negative rational, ties to even -/
def roundHalfEven (x : Rat) : Nat :=
  let fl := x.floor.toNat
  let fr := x - (fl : Rat)
  if fr < 1 / 2 then fl else if 1 / 2 < fr then fl + 1 else if fl % 2 = 0 then fl else fl + 1

/-- `round(|q| * 10^k)` to the nearest integer, ties to even (what `%.kf` does with the exact
    binary value) -/
def roundK (k : Nat) (q : Rat) : Nat := roundHalfEven ((if q < 0 then -q else q) * ((pow10 k : Nat) : Rat))

def round8 (q : Rat) : Nat := roundK 8 q

/-- the characters of python `f"{x:.{k}f}"` (`1 ≤ k`); `neg` is the sign bit of `x`:
    sign, the integer part without leading zeros, `.`, exactly `k` digits (zero padded) -/
def fmtFixedChars (k : Nat) (neg : Bool) (q : Rat) : List Char :=
  let n := roundK k q
  let fp := Nat.toDigits 10 (n % pow10 k)
  (if neg then ['-'] else []) ++
    (Nat.toDigits 10 (n / pow10 k) ++ '.' :: (List.replicate (k - fp.length) '0' ++ fp))

def fmtFixed (k : Nat) (neg : Bool) (q : Rat) : String := String.ofList (fmtFixedChars k neg q)

/-- python `f"{x:.8f}"` -/
def fmt8 (neg : Bool) (q : Rat) : String := fmtFixed 8 neg q

/-- `constants.vector_format`: which component is printed with how many decimals, in order (the
    literal parts `(`, blanks and `)` become the bracket tokens of the entry) -/
def vectorFormat : List (Nat × Nat) := [(0, 8), (1, 8), (2, 8)]

/-- the pieces of the f-string that `vectorFormat` stands for: `f"({v[0]:.8f} {v[1]:.8f} {v[2]:.8f})"`
    (compared with the ast of the current source in `T_C06_vector_format`) -/
def vectorFormatSource : List (String × String) :=
  [("lit", "(")] ++
    (vectorFormat.map (fun f => (toString f.1, "." ++ toString f.2 ++ "f"))).intersperse ("lit", " ") ++
    [("lit", ")")]

/-- a position with the sign bits of its three float64 coordinates -/
structure NumV3 where
  pos : V3
  neg : List Bool
  deriving Repr

def V3.comp (p : V3) (i : Nat) : Rat := if i = 0 then p.x else if i = 1 then p.y else p.z

/-- the three number tokens of `vector_format(position)` -/
def vectorTokens (pos : V3) (neg : List Bool) : List String :=
  vectorFormat.map (fun f => fmtFixed f.2 (neg.getD f.1 false) (V3.comp pos f.1))

/-! ### reading a decimal token -/

/-- value of a decimal token `[-]d…d.d…d` (at least one digit on either side of the point) -/
def decValue (cs : List Char) : Option Rat :=
  let neg := cs.head? == some '-'
  let body := if neg then cs.tail else cs
  let ip := body.takeWhile Char.isDigit
  match body.dropWhile Char.isDigit with
  | '.' :: fp =>
      if !ip.isEmpty && !fp.isEmpty && fp.all Char.isDigit then
        some ((if neg then -1 else 1) *
          (((Nat.ofDigitChars 10 ip 0 : Nat) : Rat) +
            ((Nat.ofDigitChars 10 fp 0 : Nat) : Rat) / ((pow10 fp.length : Nat) : Rat)))
      else none
  | _ => none

/-- a well-formed fixed-point token with exactly `k` decimals and no superfluous leading zero -/
def isFixedToken (k : Nat) (cs : List Char) : Bool :=
  let body := if cs.head? == some '-' then cs.tail else cs
  let ip := body.takeWhile Char.isDigit
  match body.dropWhile Char.isDigit with
  | '.' :: fp =>
      !ip.isEmpty && (ip.length == 1 || ip.head? != some '0') && fp.length == k && fp.all Char.isDigit
  | _ => false

end CBV.C06
