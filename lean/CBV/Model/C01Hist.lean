/-
M-HIST — what a `Mesh` object keeps between two calls of `grade()` / `write()`, and the calls a user can make in
between on the assembled mesh (shared by C01, C02, C04).

Mirrors, at /repo HEAD:
  lists/block_list.py    BlockList.grade_blocks: `axis.wires.reset()` on every axis, then `block.grade()`
  items/wires/manager.py WireManagerBase.reset (fresh Grading on every wire), WireChopManager.reset (and a fresh
                         axis-level Grading), WirePropagateManager.reset (and the copied chops are forgotten)
  items/wires/axis.py    Axis.chop: the first chop replaces a propagate manager by a chop manager over the same Wire
                         objects (whatever gradings they hold stay until the next reset); later chops are appended
  mesh.py                Mesh.grade: grade_blocks, propagate_gradings, check_consistency — on every call

The memory may hold anything a previous call left behind: a completed grading, the half-done state of a call that
raised (chops already added to the axis-level Grading, some wires graded), copied chops.
Core Lean only.
-/
import CBV.Model.C01

namespace CBV.Prop

/-- what persists in the mesh between two calls (the schedule — neighbours, coincident wires, vertices — is fixed
    at assembly and lives in `Inp`) -/
structure Mem where
  /-- wire gradings and the chops every manager holds, as the previous call left them -/
  st : St
  /-- the axis has a `WireChopManager` (the user chopped it at some time) -/
  chopMgr : Nat → Bool
  /-- `WireChopManager.grading`: the axis-level Grading that supplies the written count of a chopped axis -/
  axisSpec : Nat → Spec

/-- the chops `grade()` starts from: those held by chop managers (copied chops are forgotten by `reset`) -/
def Mem.userChops (m : Mem) (x : Nat) : List Chop := if m.chopMgr x then m.st.mch x else []

/-- the input of one `grade()` call: the fixed schedule with the user's chops of the moment -/
def Mem.inp (m : Mem) (sched : Inp) : Inp := { sched with chops := m.userChops }

/-- `axis.wires.reset()` on every axis of every block -/
def Mem.reset (m : Mem) : Mem :=
  { m with st := { spec := fun _ => [], mch := m.userChops }, axisSpec := fun _ => [] }

/-- `Axis.chop(chop)` on the assembled mesh (`Block.chop`, `mesh.blocks[i].chop`) -/
def Mem.chop (m : Mem) (x : Nat) (c : Chop) : Mem :=
  if m.chopMgr x then { m with st := addChops m.st x [c] }
  else
    { m with
      chopMgr := fun y => if y = x then true else m.chopMgr y
      st := { m.st with mch := fun y => if y = x then [c] else m.st.mch y }
      axisSpec := fun y => if y = x then [] else m.axisSpec y }

/-- `WireChopManager.grade` also adds the chops to the axis-level Grading (on top of what is there) -/
def gradeAxisSpecs (sched : Inp) (m : Mem) : Nat → Spec := fun x =>
  if m.chopMgr x ∧ x < 3 * sched.nBlocks then
    m.axisSpec x ++ (m.userChops x).map (fun c => (⟨c.ratio, c.count, 1⟩ : Sec))
  else m.axisSpec x

/-- grading, propagation and the consistency check *without* the reset, on whatever the memory holds -/
def Mem.gradeFrom (m : Mem) (sched : Inp) : Except Err St :=
  let inp := m.inp sched
  if !(coincComplete inp && nbrsValid inp) then .error .badSchedule
  else
    match loop inp (4 * inp.nBlocks + 1) (gradeBlocks inp m.st) (List.range inp.nBlocks) with
    | .error e => .error e
    | .ok st => if checkAll inp st then .ok st else .error .inconsistent

/-- `Mesh.grade()`: reset, then grade -/
def Mem.grade (m : Mem) (sched : Inp) : Except Err St := m.reset.gradeFrom sched

/-- the count written for an axis after a successful `grade()`: the axis-level Grading of a chop manager, wire 0
    of a propagate manager -/
def Mem.writtenCount (m : Mem) (sched : Inp) (st : St) (x : Nat) : Nat :=
  if m.chopMgr x then count (gradeAxisSpecs sched m.reset x) else count (specOf st (4 * x))

/-- the memory after a `grade()` call that returned (normally or by raising): on success the resulting state;
    when it raised, *some* half-done state — represented by the reset one, which is legitimate because no later
    call looks at leftovers (`T_C02_leftovers_irrelevant`) -/
def Mem.afterGrade (m : Mem) (sched : Inp) : Mem :=
  match m.grade sched with
  | .ok st => { m.reset with st := st, axisSpec := gradeAxisSpecs sched m.reset }
  | .error _ => m.reset

/-- calls on an assembled mesh -/
inductive Call where
  | write
  | chop (x : Nat) (c : Chop)

/-- outcome of a `write` -/
abbrev Out := Except Err (List Nat)

def outOf (m : Mem) (sched : Inp) : Out :=
  match m.grade sched with
  | .ok st => .ok ((List.range (3 * sched.nBlocks)).map (m.writtenCount sched st))
  | .error e => .error e

/-- a session: the outputs of all `write` calls, in order (a chop on a block that does not exist raises before
    anything is changed) -/
def session (sched : Inp) : Mem → List Call → List Out
  | _, [] => []
  | m, .write :: rest => outOf m sched :: session sched (m.afterGrade sched) rest
  | m, .chop x c :: rest => session sched (if x < 3 * sched.nBlocks then m.chop x c else m) rest

/-! ### the specification: a `write` depends on the chops placed so far and on nothing else -/

/-- what a fresh mesh with the given chops writes -/
def specOut (sched : Inp) (chops : Nat → List Chop) : Out :=
  let inp : Inp := { sched with chops := chops }
  match run inp with
  | .ok st => .ok ((List.range (3 * sched.nBlocks)).map (writtenCount inp st))
  | .error e => .error e

def specSession (sched : Inp) : (Nat → List Chop) → List Call → List Out
  | _, [] => []
  | chops, .write :: rest => specOut sched chops :: specSession sched chops rest
  | chops, .chop x c :: rest =>
    specSession sched (if x < 3 * sched.nBlocks then (fun z => if z = x then chops z ++ [c] else chops z) else chops) rest

end CBV.Prop
