/-
C19 (round 6e) — `MappedSketch.merge(other)`: `all_pos` = the positions of this sketch followed by those positions of the other
one that are not (within TOL) among them; the quads of the other sketch are re-indexed to the first position of `all_pos` at
(within TOL of) the point they addressed; indexes and faces of the other sketch are appended.  "Within TOL" is modelled by
equality of an abstract position type (`DecidableEq`).  Core Lean only.
-/
import CBV.Model.C19Base

namespace CBV.C19

/-- a mapped sketch: positions and the quads (one face per quad, in order) -/
structure Mapped (α : Type) where
  positions : List α
  quads : List (List Nat)

variable {α : Type} [DecidableEq α]

/-- `all_pos` -/
def mergePositions (p1 p2 : List α) : List α := p1 ++ p2.filter (fun x => !p1.contains x)

/-- `sketch_2_ind[i, j] = argwhere(all_pos == pos)[0][0]` for the point `pos` that quad i of the other sketch addresses at j -/
def reindex (p1 p2 : List α) (d : α) (i : Nat) : Nat := (mergePositions p1 p2).idxOf (p2.getD i d)

/-- `merge_two_sketches(sketch_1, sketch_2)` -/
def mergeMapped (s1 s2 : Mapped α) (d : α) : Mapped α :=
  ⟨mergePositions s1.positions s2.positions, s1.quads ++ s2.quads.map (·.map (reindex s1.positions s2.positions d))⟩

/-- the point a quad index addresses -/
def Mapped.point (s : Mapped α) (d : α) (i : Nat) : α := s.positions.getD i d

end CBV.C19
