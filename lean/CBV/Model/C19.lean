/-
C19 — executable model, entry point of the line protocol.
`C19Base`: nested-list addressing of sketches, shapes, stacks (rounds 1–5);
`C19Sk`:   index structures of the sketch classes, `get_slice`, `Stack.chop` computed from the regenerated source text;
`C19Geo`:  the point generator of `Grid`, `TransformedStack` for any sketch / transformation, `ExtrudedStack` over ℚ, `Stack.chop`.
-/
import CBV.Model.C19Base
import CBV.Model.C19Geo
import CBV.Model.C19Sk
import CBV.Model.C19Rim

namespace CBV.C19

def handle (op : String) (args : List String) : Option String :=
  match handleBase op args with
  | some r => some r
  | none =>
    match handleGeo op args with
    | some r => some r
    | none =>
      match handleSk op args with
      | some r => some r
      | none => handleRim op args

end CBV.C19
