/-
C11 — model of the *point generators* of the disk sketches and of the round shapes lofted from them
(`construct/flat/sketches/disk.py`: `FanPattern`, `OneCoreDisk`, `QuarterDisk`, `HalfDisk`, `FourCoreDisk`,
`WrappedDisk`, `Oval`; `construct/flat/sketches/grid.py`; `construct/shape.py`: `LoftedShape`, `ExtrudedShape`;
`construct/shapes/cylinder.py`, `frustum.py`).

The formulas are written once, generically over a scalar type `K` that only needs the arithmetic operations
(core Lean classes, no Mathlib), so that the theorems of `CBV.Props.C11` (Part F) hold over every linearly
ordered field — ℝ with `h = √2/2` included — and the driver executes the very same definitions over `Rat`
with the float values the implementation computes as witnesses:

* `h`  — `cos(π/4) = sin(π/4)`; all angles of the generators are multiples of π/4 (`np.linspace(0, 2π | π | π/2, …)`,
  modelled by `linspaceIdx` in units of π/4, tied to the source's `linspace` arguments by a regenerated table),
  so every cosine / sine is one of `0, ±1, ±h` (`dir8`);
* `u`  — the unit normal `f.unit_vector(normal)` (for the shapes: `axis / wl` with `wl` a witness of `norm(axis)`);
* `f.rotate(point, angle, axis, origin)` = `scipy.linalg.expm(cross(eye(3), axis/|axis|·θ)) · (point − origin) + origin`
  is Rodrigues' formula `rotAbout`;
* `core_ratio` (`k`) and `diagonal_ratio` (`dg`) are arguments (their values are regenerated from the source).

Core Lean only.
-/
import CBV.Model.Common
import CBV.Gen.Tables

namespace CBV.C11

/-- three-vectors over any scalar type -/
structure P3 (K : Type) where
  x : K
  y : K
  z : K
  deriving DecidableEq, Repr

namespace P3
variable {K : Type} [Add K] [Sub K] [Mul K]
def add (a b : P3 K) : P3 K := ⟨a.x + b.x, a.y + b.y, a.z + b.z⟩
def sub (a b : P3 K) : P3 K := ⟨a.x - b.x, a.y - b.y, a.z - b.z⟩
def smul (k : K) (a : P3 K) : P3 K := ⟨k * a.x, k * a.y, k * a.z⟩
def dot (a b : P3 K) : K := a.x * b.x + a.y * b.y + a.z * b.z
def cross (a b : P3 K) : P3 K := ⟨a.y * b.z - a.z * b.y, a.z * b.x - a.x * b.z, a.x * b.y - a.y * b.x⟩
def nsq (a : P3 K) : K := dot a a
def triple (a b c : P3 K) : K := dot (cross a b) c
end P3

open P3

section generators
variable {K : Type} [Add K] [Sub K] [Mul K] [Div K] [Neg K] [OfNat K 0] [OfNat K 1]

/-- `f.rotate(p, angle, axis, o)` with `(cs, sn) = (cos angle, sin angle)` and `u = axis / |axis|`:
    `o + d cos + (u × d) sin + u (u·d)(1 − cos)`, `d = p − o` -/
def rotAbout (cs sn : K) (u o p : P3 K) : P3 K :=
  add o (add (add (smul cs (sub p o)) (smul sn (cross u (sub p o)))) (smul ((1 - cs) * dot u (sub p o)) u))

/-- `f.scale(p, ratio, origin)` = `origin + (p − origin) * ratio` -/
def scaleP (r : K) (o p : P3 K) : P3 K := add o (smul r (sub p o))

/-- `(cos, sin)` of `i · π/4`, with `h = cos π/4 = sin π/4` -/
def dir8 (h : K) (i : Nat) : K × K :=
  match i % 8 with
  | 0 => (1, 0)
  | 1 => (h, h)
  | 2 => (0, 1)
  | 3 => (-h, h)
  | 4 => (-1, 0)
  | 5 => (-h, -h)
  | 6 => (0, -1)
  | _ => (h, -h)

/-- `np.linspace(0, stop·π/4, num, endpoint)` in units of π/4 (the step has to be a whole number of units) -/
def linspaceIdx (stop num : Nat) (endpoint : Bool) : List Nat :=
  (List.range num).map (fun i => i * (stop / (if endpoint then num - 1 else num)))

/-- `FanPattern.get_outer_points`, one point: the radius point turned by `i·π/4` about the normal through the centre -/
def fanPt (c rp u : P3 K) (h : K) (i : Nat) : P3 K := rotAbout (dir8 h i).1 (dir8 h i).2 u c rp

/-- `FanPattern.get_outer_points(angles)` -/
def fanOuter (c rp u : P3 K) (h : K) (idx : List Nat) : List (P3 K) := idx.map (fanPt c rp u h)

/-- `ratios[i % len(ratios)]` -/
def ratioAt (ratios : List K) (i : Nat) : K := ratios.getD (i % ratios.length) 1

/-- `FanPattern.get_inner_points(angles, ratios)`: outer point `i` scaled back by `ratios[i % len(ratios)]` -/
def fanInnerFrom (c rp u : P3 K) (h : K) (ratios : List K) : Nat → List Nat → List (P3 K)
  | _, [] => []
  | i, a :: rest => scaleP (ratioAt ratios i) c (fanPt c rp u h a) :: fanInnerFrom c rp u h ratios (i + 1) rest

def fanInner (c rp u : P3 K) (h : K) (ratios : List K) (idx : List Nat) : List (P3 K) :=
  fanInnerFrom c rp u h ratios 0 idx

/-- the `DiskBase` sketches constructed from `(center_point, radius_point, normal)` -/
inductive DiskCls where
  | oneCore | quarter | half | fourCore
  deriving DecidableEq, Repr

def DiskCls.name : DiskCls → String
  | .oneCore => "OneCoreDisk"
  | .quarter => "QuarterDisk"
  | .half => "HalfDisk"
  | .fourCore => "FourCoreDisk"

def DiskCls.ofName? (s : String) : Option DiskCls :=
  [DiskCls.oneCore, .quarter, .half, .fourCore].find? (fun c => c.name == s)

/-- the `np.linspace(0, stop, num, endpoint)` arguments of the class, `stop` in units of π/4 -/
def DiskCls.linspace : DiskCls → Nat × Nat × Bool
  | .oneCore => (8, 4, false)
  | .quarter => (2, 3, true)
  | .half => (4, 5, true)
  | .fourCore => (8, 8, false)

/-- the `ratios` list of the class (names of the `DiskBase` attributes) -/
def DiskCls.ratioNames : DiskCls → List String
  | .oneCore => ["diagonal_ratio"]
  | _ => ["core_ratio", "diagonal_ratio"]

/-- the layout of the positions list handed to `MappedSketch.__init__`, by role (independent of the names of
    locals and parameters): `paramK` = the K-th constructor parameter, `*inner@P` / `*outer@P` = the unpacked
    `get_inner_points` / `get_outer_points` of the P-th `FanPattern` used -/
def DiskCls.layout : DiskCls → List String
  | .oneCore => ["*inner@0", "*outer@0"]
  | _ => ["param0", "*inner@0", "*outer@0"]

/-- what the model assumes about the source of the six disk classes, in the format of the regenerated table
    `CBV.Gen.c11DiskGen` (`wrappedPts` and `ovalPts` use `linspaceIdx 8 4 false` resp. `linspaceIdx 4 5 true`) -/
def diskGenRows : List (String × (Nat × Nat × Bool) × List String × List String) :=
  [DiskCls.oneCore, .quarter, .half, .fourCore].map (fun cl => (cl.name, cl.linspace, cl.ratioNames, cl.layout)) ++
  [("WrappedDisk", (8, 4, false), ["expr"], ["*inner@0", "*inner@0", "*outer@0"]),
   ("Oval", (4, 5, true), ["core_ratio", "diagonal_ratio"],
    ["param0", "*inner@0", "param1", "*inner@1", "*outer@0", "*outer@1"])]

def DiskCls.idx (cl : DiskCls) : List Nat := linspaceIdx cl.linspace.1 cl.linspace.2.1 cl.linspace.2.2

/-- the positions handed to `MappedSketch.__init__` by the four classes (`k = core_ratio`, `dg = diagonal_ratio`) -/
def diskPts (cl : DiskCls) (c rp u : P3 K) (h k dg : K) : List (P3 K) :=
  match cl with
  | .oneCore => fanInner c rp u h [dg] cl.idx ++ fanOuter c rp u h cl.idx
  | _ => c :: (fanInner c rp u h [k, dg] cl.idx ++ fanOuter c rp u h cl.idx)

/-- `WrappedDisk(center, corner_point, radius, normal)`: `wn` witnesses `norm(corner_point − center)` -/
def wrappedPts (c corner u : P3 K) (h dg radius wn : K) : List (P3 K) :=
  fanInner c corner u h [dg * (radius / wn)] (linspaceIdx 8 4 false) ++
    fanInner c corner u h [radius / wn] (linspaceIdx 8 4 false) ++ fanOuter c corner u h (linspaceIdx 8 4 false)

/-- `Oval(center_point_1, center_point_2, normal, radius)`: `wd` witnesses `norm(cross(normal, center_delta))` -/
def ovalPts (c1 c2 u : P3 K) (h k dg radius wd : K) : List (P3 K) :=
  let rp1 := add c1 (smul (radius / wd) (cross u (sub c2 c1)))
  let rp2 := add c2 (smul (radius / wd) (cross u (sub c1 c2)))
  c1 :: (fanInner c1 rp1 u h [k, dg] (linspaceIdx 4 5 true) ++
    c2 :: (fanInner c2 rp2 u h [k, dg] (linspaceIdx 4 5 true) ++
      (fanOuter c1 rp1 u h (linspaceIdx 4 5 true) ++ fanOuter c2 rp2 u h (linspaceIdx 4 5 true))))

/-! ### lofting -/

/-- the eight corners of a block, bottom face then top face -/
structure Hex (K : Type) where
  p0 : P3 K
  p1 : P3 K
  p2 : P3 K
  p3 : P3 K
  p4 : P3 K
  p5 : P3 K
  p6 : P3 K
  p7 : P3 K

def Hex.toList (H : Hex K) : List (P3 K) := [H.p0, H.p1, H.p2, H.p3, H.p4, H.p5, H.p6, H.p7]

/-- `Loft(face_1, face_2)` of the quad `q` of a `MappedSketch`: `Face([positions[iq] for iq in quad])` on both sketches -/
def hexAt (bot top : List (P3 K)) (dB dT : P3 K) (q : List Nat) : Hex K :=
  ⟨bot.getD (q.getD 0 0) dB, bot.getD (q.getD 1 0) dB, bot.getD (q.getD 2 0) dB, bot.getD (q.getD 3 0) dB,
   top.getD (q.getD 0 0) dT, top.getD (q.getD 1 0) dT, top.getD (q.getD 2 0) dT, top.getD (q.getD 3 0) dT⟩

/-- `LoftedShape.__init__` without mid sketches: one loft per face, in the order of the quads given -/
def loftHexes (quads : List (List Nat)) (bot top : List (P3 K)) (dB dT : P3 K) : List (Hex K) :=
  quads.map (hexAt bot top dB dT)

/-- the eight corner Jacobians (triple products of the three edges leaving a corner, ordered as the blockMesh
    numbering orders them: neighbours (1,3,4), (2,0,5), (3,1,6), (0,2,7), (7,5,0), (4,6,1), (5,7,2), (6,4,3)) -/
def Hex.jacs (H : Hex K) : List K :=
  [triple (sub H.p1 H.p0) (sub H.p3 H.p0) (sub H.p4 H.p0), triple (sub H.p2 H.p1) (sub H.p0 H.p1) (sub H.p5 H.p1),
   triple (sub H.p3 H.p2) (sub H.p1 H.p2) (sub H.p6 H.p2), triple (sub H.p0 H.p3) (sub H.p2 H.p3) (sub H.p7 H.p3),
   triple (sub H.p7 H.p4) (sub H.p5 H.p4) (sub H.p0 H.p4), triple (sub H.p4 H.p5) (sub H.p6 H.p5) (sub H.p1 H.p5),
   triple (sub H.p5 H.p6) (sub H.p7 H.p6) (sub H.p2 H.p6), triple (sub H.p6 H.p7) (sub H.p4 H.p7) (sub H.p3 H.p7)]

/-- `Translation(v)` of every position -/
def translatePts (v : P3 K) (pts : List (P3 K)) : List (P3 K) := pts.map (fun p => add p v)

/-- `ExtrudedShape(sketch, amount)` on a disk sketch: the top sketch is the bottom one moved by `normal · amount` -/
def extrudedHexes (quads : List (List Nat)) (cl : DiskCls) (c rp u : P3 K) (h k dg amount : K) : List (Hex K) :=
  loftHexes quads (diskPts cl c rp u h k dg) (translatePts (smul amount u) (diskPts cl c rp u h k dg)) c (add c (smul amount u))

/-- `ExtrudedShape(sketch, amount)` on any mapped sketch with positions `pts` and normal `u` -/
def extrudeOf (quads : List (List Nat)) (pts : List (P3 K)) (c u : P3 K) (amount : K) : List (Hex K) :=
  loftHexes quads pts (translatePts (smul amount u) pts) c (add c (smul amount u))

/-- `ExtrudedShape(WrappedDisk(center, corner, radius, normal), amount)` -/
def wrappedExtrudedHexes (quads : List (List Nat)) (c corner u : P3 K) (h dg radius wn amount : K) : List (Hex K) :=
  extrudeOf quads (wrappedPts c corner u h dg radius wn) c u amount

/-- `ExtrudedShape(Oval(center_1, center_2, normal, radius), amount)` -/
def ovalExtrudedHexes (quads : List (List Nat)) (c1 c2 u : P3 K) (h k dg radius wd amount : K) : List (Hex K) :=
  extrudeOf quads (ovalPts c1 c2 u h k dg radius wd) c1 u amount

/-- `RevolvedShape(sketch, angle, axis, origin)` on any mapped sketch with positions `pts`: the second sketch is
    the first one turned about the axis (`ax` = unit axis, `(cs, sn)` = cosine / sine of the angle) -/
def revolveOf (quads : List (List Nat)) (pts : List (P3 K)) (d : P3 K) (cs sn : K) (ax o : P3 K) : List (Hex K) :=
  loftHexes quads pts (pts.map (rotAbout cs sn ax o)) d (rotAbout cs sn ax o d)

/-- `RevolvedShape` of one of the four disk sketches -/
def revolvedHexes (quads : List (List Nat)) (cl : DiskCls) (c rp u : P3 K) (h k dg cs sn : K) (ax o : P3 K) : List (Hex K) :=
  revolveOf quads (diskPts cl c rp u h k dg) c cs sn ax o

/-- `Cylinder` / `SemiCylinder(axis_point_1, axis_point_2, radius_point_1)`: `sketch_class(axis_point_1,
    radius_point_1, axis)`, second sketch = `Translation(axis)`; `wl` witnesses `norm(axis)` -/
def cylinderHexes (quads : List (List Nat)) (cl : DiskCls) (p1 p2 rp : P3 K) (wl h k dg : K) : List (Hex K) :=
  loftHexes quads (diskPts cl p1 rp (smul (1 / wl) (sub p2 p1)) h k dg)
    (translatePts (sub p2 p1) (diskPts cl p1 rp (smul (1 / wl) (sub p2 p1)) h k dg)) p1 (add p1 (sub p2 p1))

/-- `Frustum(axis_point_1, axis_point_2, radius_point_1, radius_2)`: second sketch =
    `Translation(axis)` then `Scaling(radius_2 / radius_1)` about the sketch centre (the translated first point);
    `wr` witnesses `radius_1 = norm(radius_point_1 − axis_point_1)` -/
def frustumHexes (quads : List (List Nat)) (p1 p2 rp : P3 K) (wl h k dg r2 wr : K) : List (Hex K) :=
  loftHexes quads (diskPts .fourCore p1 rp (smul (1 / wl) (sub p2 p1)) h k dg)
    ((translatePts (sub p2 p1) (diskPts .fourCore p1 rp (smul (1 / wl) (sub p2 p1)) h k dg)).map
      (scaleP (r2 / wr) (add p1 (sub p2 p1)))) p1 (add p1 (sub p2 p1))

end generators

/-! ### `Grid(point_1, point_2, count_1, count_2)` (exact: `np.linspace` of the two coordinate ranges) -/

section grid
variable {K : Type} [Add K] [Sub K] [Mul K] [Div K] [NatCast K] [OfNat K 0]

/-- `np.linspace(a, b, num = n + 1)[i]` = `a + i · (b − a)/n` -/
def linCoord (a b : K) (n i : Nat) : K := a + (i : K) * ((b - a) / (n : K))

/-- the face `grid[iy][ix]` of `Grid(p1, p2, n, m)` -/
def gridFace (x1 y1 x2 y2 : K) (n m ix iy : Nat) : List (P3 K) :=
  [⟨linCoord x1 x2 n ix, linCoord y1 y2 m iy, 0⟩, ⟨linCoord x1 x2 n (ix + 1), linCoord y1 y2 m iy, 0⟩,
   ⟨linCoord x1 x2 n (ix + 1), linCoord y1 y2 m (iy + 1), 0⟩, ⟨linCoord x1 x2 n ix, linCoord y1 y2 m (iy + 1), 0⟩]

/-- `ExtrudedShape(Grid(...), amount)`: the block over the face `grid[iy][ix]`, extruded along `(0, 0, 1) · amount`
    (the normal of a grid with `point_1 < point_2`) -/
def gridHex (x1 y1 x2 y2 : K) (n m ix iy : Nat) (a : K) : Hex K :=
  ⟨⟨linCoord x1 x2 n ix, linCoord y1 y2 m iy, 0⟩, ⟨linCoord x1 x2 n (ix + 1), linCoord y1 y2 m iy, 0⟩,
   ⟨linCoord x1 x2 n (ix + 1), linCoord y1 y2 m (iy + 1), 0⟩, ⟨linCoord x1 x2 n ix, linCoord y1 y2 m (iy + 1), 0⟩,
   ⟨linCoord x1 x2 n ix, linCoord y1 y2 m iy, 0 + a⟩, ⟨linCoord x1 x2 n (ix + 1), linCoord y1 y2 m iy, 0 + a⟩,
   ⟨linCoord x1 x2 n (ix + 1), linCoord y1 y2 m (iy + 1), 0 + a⟩, ⟨linCoord x1 x2 n ix, linCoord y1 y2 m (iy + 1), 0 + a⟩⟩

def gridHexes (x1 y1 x2 y2 : K) (n m : Nat) (a : K) : List (Hex K) :=
  (List.range m).flatMap (fun iy => (List.range n).map (fun ix => gridHex x1 y1 x2 y2 n m ix iy a))

/-- all faces, row by row (`Grid.faces`) -/
def gridFaces (x1 y1 x2 y2 : K) (n m : Nat) : List (List (P3 K)) :=
  (List.range m).flatMap (fun iy => (List.range n).map (fun ix => gridFace x1 y1 x2 y2 n m ix iy))

end grid

/-! ### line protocol (over `Rat`) -/

def P3.ofV3 (v : V3) : P3 Rat := ⟨v.x, v.y, v.z⟩
def P3.toV3 (p : P3 Rat) : V3 := ⟨p.x, p.y, p.z⟩
def showP3s (ps : List (P3 Rat)) : String := " ".intercalate (ps.map (fun p => (P3.toV3 p).toStr))
def parseP3? (s : String) : Option (P3 Rat) := (parseV3? s).map P3.ofV3

/-- a unit-vector witness must be a unit vector up to the rounding of the floats it came from -/
def nearUnit (u : P3 Rat) : Bool :=
  let e := nsq u - 1
  decide (-(1 : Rat) / 1000000000 < e) && decide (e < (1 : Rat) / 1000000000)

/-- requests about the point generators; `quadsOf` looks a sketch class up in the regenerated tables -/
def handleGeo (quadsOf : String → Option (List (List Nat))) (op : String) (args : List String) : Option String :=
  match op, args with
  | "c11.pts", [cls, c, rp, u, h, k, dg] => do
      let cl ← DiskCls.ofName? cls
      let c ← parseP3? c; let rp ← parseP3? rp; let u ← parseP3? u
      let h ← parseRat? h; let k ← parseRat? k; let dg ← parseRat? dg
      if !nearUnit u then none else
      some (showP3s (diskPts cl c rp u h k dg))
  | "c11.wrapped", [c, corner, u, h, dg, radius, wn] => do
      let c ← parseP3? c; let corner ← parseP3? corner; let u ← parseP3? u
      let h ← parseRat? h; let dg ← parseRat? dg; let radius ← parseRat? radius; let wn ← parseRat? wn
      if !nearUnit u || wn ≤ 0 then none else
      some (showP3s (wrappedPts c corner u h dg radius wn))
  | "c11.oval", [c1, c2, u, h, k, dg, radius, wd] => do
      let c1 ← parseP3? c1; let c2 ← parseP3? c2; let u ← parseP3? u
      let h ← parseRat? h; let k ← parseRat? k; let dg ← parseRat? dg
      let radius ← parseRat? radius; let wd ← parseRat? wd
      if !nearUnit u || wd ≤ 0 then none else
      some (showP3s (ovalPts c1 c2 u h k dg radius wd))
  | "c11.extr", [cls, c, rp, u, h, k, dg, amount] => do
      let cl ← DiskCls.ofName? cls
      let quads ← quadsOf cls
      let c ← parseP3? c; let rp ← parseP3? rp; let u ← parseP3? u
      let h ← parseRat? h; let k ← parseRat? k; let dg ← parseRat? dg; let amount ← parseRat? amount
      if !nearUnit u then none else
      some (showP3s ((extrudedHexes quads cl c rp u h k dg amount).flatMap Hex.toList))
  | "c11.cyl", [cls, p1, p2, rp, wl, h, k, dg] => do
      let cl ← DiskCls.ofName? cls
      let quads ← quadsOf cls
      let p1 ← parseP3? p1; let p2 ← parseP3? p2; let rp ← parseP3? rp
      let wl ← parseRat? wl; let h ← parseRat? h; let k ← parseRat? k; let dg ← parseRat? dg
      if wl ≤ 0 then none else
      some (showP3s ((cylinderHexes quads cl p1 p2 rp wl h k dg).flatMap Hex.toList))
  | "c11.frustum", [p1, p2, rp, wl, h, k, dg, r2, wr] => do
      let quads ← quadsOf "FourCoreDisk"
      let p1 ← parseP3? p1; let p2 ← parseP3? p2; let rp ← parseP3? rp
      let wl ← parseRat? wl; let h ← parseRat? h; let k ← parseRat? k; let dg ← parseRat? dg
      let r2 ← parseRat? r2; let wr ← parseRat? wr
      if wl ≤ 0 || wr ≤ 0 then none else
      some (showP3s ((frustumHexes quads p1 p2 rp wl h k dg r2 wr).flatMap Hex.toList))
  | "c11.rev", [cls, c, rp, u, h, k, dg, ax, o, cs, sn] => do
      let cl ← DiskCls.ofName? cls
      let quads ← quadsOf cls
      let c ← parseP3? c; let rp ← parseP3? rp; let u ← parseP3? u
      let h ← parseRat? h; let k ← parseRat? k; let dg ← parseRat? dg
      let ax ← parseP3? ax; let o ← parseP3? o; let cs ← parseRat? cs; let sn ← parseRat? sn
      if !nearUnit u || !nearUnit ax then none else
      some (showP3s ((revolvedHexes quads cl c rp u h k dg cs sn ax o).flatMap Hex.toList))
  | "c11.extrw", [c, corner, u, h, dg, radius, wn, amount] => do
      let quads ← quadsOf "WrappedDisk"
      let c ← parseP3? c; let corner ← parseP3? corner; let u ← parseP3? u
      let h ← parseRat? h; let dg ← parseRat? dg; let radius ← parseRat? radius; let wn ← parseRat? wn
      let amount ← parseRat? amount
      if !nearUnit u || wn ≤ 0 then none else
      some (showP3s ((wrappedExtrudedHexes quads c corner u h dg radius wn amount).flatMap Hex.toList))
  | "c11.extro", [c1, c2, u, h, k, dg, radius, wd, amount] => do
      let quads ← quadsOf "Oval"
      let c1 ← parseP3? c1; let c2 ← parseP3? c2; let u ← parseP3? u
      let h ← parseRat? h; let k ← parseRat? k; let dg ← parseRat? dg
      let radius ← parseRat? radius; let wd ← parseRat? wd; let amount ← parseRat? amount
      if !nearUnit u || wd ≤ 0 then none else
      some (showP3s ((ovalExtrudedHexes quads c1 c2 u h k dg radius wd amount).flatMap Hex.toList))
  | "c11.extrg", [x1, y1, x2, y2, n, m, amount] => do
      let x1 ← parseRat? x1; let y1 ← parseRat? y1; let x2 ← parseRat? x2; let y2 ← parseRat? y2
      let n ← parseNat? n; let m ← parseNat? m; let amount ← parseRat? amount
      if n == 0 || m == 0 then none else
      some (showP3s ((gridHexes x1 y1 x2 y2 n m amount).flatMap Hex.toList))
  | "c11.gridpts", [x1, y1, x2, y2, n, m] => do
      let x1 ← parseRat? x1; let y1 ← parseRat? y1; let x2 ← parseRat? x2; let y2 ← parseRat? y2
      let n ← parseNat? n; let m ← parseNat? m
      if n == 0 || m == 0 then none else
      some (showP3s ((gridFaces x1 y1 x2 y2 n m).flatten))
  | _, _ => none

end CBV.C11
