/-
C10 — model of `Face.invert/shift/reorient` (construct/flat/face.py) and of the side / edge /
corner addressing of `Operation` (construct/operations/operation.py) through the generated tables.
Core Lean only.
-/
import CBV.Model.Common
import CBV.Gen.Tables
import CBV.Model.C10Geo

namespace CBV.C10

/-- A face: 4 points and 4 edge data; edge `i` is the one between point `i` and point `i+1 mod 4`. -/
structure Face (α β : Type) where
  pts : List α
  edges : List β
  deriving Repr, DecidableEq

variable {α β : Type}

/-- `Face.invert`: `points.reverse(); edges.reverse(); edges = [edges[i] for i in (1,2,3,0)]`. -/
def Face.invert [Inhabited β] (f : Face α β) : Face α β :=
  { pts := f.pts.reverse, edges := pick f.edges.reverse [1, 2, 3, 0] }

/-- `collections.deque(range(4)).rotate(count)` as a list: a rotation to the right by `count`. -/
def shiftIdx (count : Int) : List Nat := [0, 1, 2, 3].map (fun i => (((i : Int) - count) % 4).toNat)

/-- `Face.shift(count)`. -/
def Face.shift [Inhabited α] [Inhabited β] (f : Face α β) (count : Int) : Face α β :=
  { pts := pick f.pts (shiftIdx count), edges := pick f.edges (shiftIdx count) }

/-- `Face.reorient(start_near)` where `dist` gives the (squared) distance of each point to the
    position.  The repaired code shifts by *minus* the index of the closest point. -/
def Face.reorient [Inhabited α] [Inhabited β] (f : Face α β) (dist : α → Rat) : Face α β :=
  f.shift (-(argmin (f.pts.map dist) : Int))

/-- The connectivity of a face: (edge datum, start point, end point) for the four positions. -/
def Face.conn [Inhabited α] (f : Face α β) : List (β × α × α) :=
  f.edges.zipIdx.map (fun (e, i) => (e, f.pts.getD i default, f.pts.getD ((i + 1) % 4) default))

/-! ### Addressing: the tables of `util/constants.py`, the code of `util/tools.py` and `Operation` -/

def sideCorners (side : String) : Option (List Nat) := (CBV.Gen.faceMap.lookup side)

/-- `Operation.get_index_from_side`. -/
def indexFromSide (side : String) : Option Nat :=
  let i := CBV.Gen.sidesMap.idxOf side
  if i < CBV.Gen.sidesMap.length then some i else none

/-- `EdgeLocation.start_corner`: `diff = abs(corner_1 - corner_2)`; `diff in (1, 4)` → `corner_min % 4`;
    `diff == 3` → `corner_max % 4`; otherwise `CornerPairError` -/
def startCorner (c1 c2 : Nat) : Option Nat :=
  let diff := if c1 ≤ c2 then c2 - c1 else c1 - c2
  if diff = 1 ∨ diff = 4 then some (min c1 c2 % 4)
  else if diff = 3 then some (max c1 c2 % 4)
  else none

/-- the guard of `Frame.add_beam`: `{corner_1, corner_2} in valid_pairs` (= the sets of `constants.EDGE_PAIRS`) -/
def validPair (a b : Nat) : Bool :=
  CBV.Gen.edgePairs.any (fun p => (p.1 == a && p.2 == b) || (p.1 == b && p.2 == a))

/-- the module-level loop of `util/tools.py` that fills `edge_map`:
    `add_beam(a, b, EdgeLocation(l1, l2, side))` as `(a, b, l1, l2, side)` in execution order -/
def edgeMapInserts : List (Nat × Nat × Nat × Nat × String) :=
  (List.range 4).flatMap (fun i =>
    let c1 := i
    let c2 := (i + 1) % 4
    [(c1, c2, c1, c2, "bottom"), (c1 + 4, c2 + 4, c1 + 4, c2 + 4, "top"),
     (c1, c1 + 4, c1, c1 + 4, CBV.Gen.sidesMap.getD i "?")])

/-- `edge_map[c1][c2]`: `add_beam` stores symmetrically, a later insertion overwrites; a pair nothing was
    stored for has no entry (`KeyError`, or `None` whose `.start_corner` fails) -/
def edgeMapGet (c1 c2 : Nat) : Option (Nat × Nat × String) :=
  (edgeMapInserts.reverse.find? (fun e =>
    validPair e.1 e.2.1 && ((e.1 == c1 && e.2.1 == c2) || (e.1 == c2 && e.2.1 == c1)))).map (fun e => e.2.2)

/-- `loc = edge_map[c1][c2]; (loc.side, loc.start_corner)` -/
def edgeLoc (c1 c2 : Nat) : Option (String × Nat) := do
  let (l1, l2, side) ← edgeMapGet c1 c2
  let sc ← startCorner l1 l2
  some (side, sc)

/-- the same read from the table the translator dumps from the imported `tools.edge_map` -/
def edgeLocTable (c1 c2 : Nat) : Option (String × Nat) :=
  (CBV.Gen.edgeLoc.find? (fun e => e.1 == c1 && e.2.1 == c2)).map (fun e => e.2.2)

/-- Storage slot of an edge datum inside an operation. -/
inductive Slot where
  | bottom (i : Nat) | top (i : Nat) | side (i : Nat)
  deriving DecidableEq, Repr

/-- Where `Operation.project_edge(c1, c2)` stores its datum. -/
def slotOfEdge (c1 c2 : Nat) : Option Slot :=
  match edgeLoc c1 c2 with
  | some ("bottom", i) => some (.bottom i)
  | some ("top", i) => some (.top i)
  | some (_, i) => some (.side i)
  | none => none

/-- Which block corners a storage slot connects, as `Operation.edges` builds the frame. -/
def Slot.corners : Slot → Nat × Nat
  | .bottom i => (i, (i + 1) % 4)
  | .top i => (i + 4, (i + 1) % 4 + 4)
  | .side i => (i, i + 4)

/-! the refusing guards, as written (`true` = the call raises) -/

/-- `Face.add_edge`, `Face.project_edge`, `Operation.add_side_edge`: `corner < 0 or corner > 3` -/
def guardCorner4 (c : Int) : Bool := c < 0 || c > 3
/-- `Operation.project_corner`: `corner < 0 or corner > 7` -/
def guardCorner8 (c : Int) : Bool := c < 0 || c > 7
/-- `Operation.project_edge`: `not (0 <= corner_1 < 8 and 0 <= corner_2 < 8)` -/
def guardEdge (c1 c2 : Int) : Bool := !((0 ≤ c1 && c1 < 8) && (0 ≤ c2 && c2 < 8))

/-- `Operation.project_corner`: `corner > 3` → `top_face.points[corner - 4]`, else `bottom_face.points[corner]` -/
def cornerTarget (c : Nat) : Bool × Nat := if c > 3 then (true, c - 4) else (false, c)

/-- `Operation.get_patches_at_corner`: bottom face for `corner < 4`, `index = corner % 4`, side patches `index`
    and `(index + 3) % 4` -/
def cornerSources (c : Nat) : Bool × Nat × Nat :=
  let index := c % 4
  (c < 4, index, (index + 3) % 4)

/-- The operation as far as addressing is concerned: names/labels stored per slot. -/
structure Op where
  bottomPatch : Option String := none
  topPatch : Option String := none
  sidePatches : List (Option String) := [none, none, none, none]
  bottomProj : Option String := none
  topProj : Option String := none
  sideProj : List (Option String) := [none, none, none, none]
  bottomEdges : List (List String) := [[], [], [], []]
  topEdges : List (List String) := [[], [], [], []]
  sideEdges : List (List String) := [[], [], [], []]
  corners : List (List String) := [[], [], [], [], [], [], [], []]
  /-- side edge data that are neither lines nor projections (the `Angle` data a `Revolve` puts there) -/
  sideOther : List (Option String) := [none, none, none, none]
  deriving Repr, DecidableEq

def insertSorted (l : String) : List String → List String
  | [] => [l]
  | x :: xs => if l < x then l :: x :: xs else if l = x then x :: xs else x :: insertSorted l xs

/-- `Project.add_label` / `_project_update` on a label list (sorted, no duplicates). -/
def addLabel (ls : List String) (l : String) : List String := insertSorted l ls

def modifyAt (xs : List γ) (i : Nat) (f : γ → γ) : List γ := xs.modify i f

/-- `edges[i] = self._project_update(edges[i], label)`: a `Project` gets the label added, anything else is
    replaced by a new `Project(label)` -/
def Op.projEdgeSlot (o : Op) (s : Slot) (l : String) : Op :=
  match s with
  | .bottom i => { o with bottomEdges := modifyAt o.bottomEdges i (addLabel · l) }
  | .top i => { o with topEdges := modifyAt o.topEdges i (addLabel · l) }
  | .side i => { o with sideEdges := modifyAt o.sideEdges i (addLabel · l), sideOther := o.sideOther.set i none }

/-- the label list a slot holds (empty: not a `Project`) -/
def Op.slotLabels (o : Op) : Slot → List String
  | .bottom i => o.bottomEdges.getD i []
  | .top i => o.topEdges.getD i []
  | .side i => o.sideEdges.getD i []

/-- `Project.check_length` at the end of `add_label` (and of the constructor): `0 < len(self.label) < 3`, otherwise
    `EdgeCreationError` — an edge can be projected to one surface or to the intersection of two -/
def labelsOk (ls : List String) : Bool := 0 < ls.length && ls.length < 3

/-- `_project_update` with `Project.add_label`'s refusal of a third surface -/
def Op.projEdgeSlot? (o : Op) (s : Slot) (l : String) : Option Op :=
  if labelsOk (addLabel (o.slotLabels s) l) then some (o.projEdgeSlot s l) else none

def Op.projectEdge (o : Op) (c1 c2 : Nat) (l : String) : Option Op :=
  (slotOfEdge c1 c2).bind (fun s => o.projEdgeSlot? s l)

/-- `points[c].project(label)` on the operation's points `bottom_face.points + top_face.points` -/
def Op.projectCorner (o : Op) (c : Nat) (l : String) : Op :=
  { o with corners := modifyAt o.corners c (· ++ [l]) }

/-- `self.<top|bottom>_face.points[i].project(label)` -/
def Op.projectPoint (o : Op) (top : Bool) (i : Nat) (l : String) : Op :=
  o.projectCorner (if top then i + 4 else i) l

/-- `Operation.project_corner(corner, label)` with its guard and its choice of face -/
def Op.projectCorner? (o : Op) (c : Int) (l : String) : Option Op :=
  if guardCorner8 c then none
  else
    let t := cornerTarget c.toNat
    some (o.projectPoint t.1 t.2 l)

def Op.setPatch (o : Op) (side name : String) : Option Op :=
  if side = "bottom" then some { o with bottomPatch := some name }
  else if side = "top" then some { o with topPatch := some name }
  else (indexFromSide side).map (fun i => { o with sidePatches := o.sidePatches.set i (some name) })

/-- `Operation.set_patch([side, …], name)`: the sides one after the other -/
def Op.setPatchList (o : Op) (sides : List String) (name : String) : Option Op :=
  sides.foldlM (fun o s => o.setPatch s name) o

/-- the patch name stored for a side (what the assembled block shows on that side's quad) -/
def Op.patchOf (o : Op) (side : String) : Option String :=
  if side = "bottom" then o.bottomPatch
  else if side = "top" then o.topPatch
  else match indexFromSide side with
    | some i => o.sidePatches.getD i none
    | none => none

/-- `Face.add_edge(i, data)` / `Operation.add_side_edge(i, data)`: the slot holds the new datum only -/
def Op.setEdgeSlot (o : Op) (s : Slot) (ls : List String) : Op :=
  match s with
  | .bottom i => { o with bottomEdges := o.bottomEdges.set i ls }
  | .top i => { o with topEdges := o.topEdges.set i ls }
  | .side i => { o with sideEdges := o.sideEdges.set i ls, sideOther := o.sideOther.set i none }

/-- `Face.remove_edges(corners)` on the bottom or the top face: `add_edge(corner, None)` for each listed corner -/
def Op.removeEdges (o : Op) (bottom : Bool) (cs : List Nat) : Op :=
  cs.foldl (fun o c => o.setEdgeSlot (if bottom then .bottom c else .top c) []) o

/-- one statement of `Operation.project_side` / `Face.project` that touches an edge or a point -/
inductive Step where
  | pedge (c1 c2 : Nat)              -- `self.project_edge(c1, c2, label)`
  | sideEdge (i : Nat)               -- `self.side_edges[i] = self._project_update(self.side_edges[i], label)`
  | faceEdge (top : Bool) (i : Nat)  -- `self.<face>.project_edge(i, label)`
  | point (top : Bool) (i : Nat)     -- `self.<face>.points[i].project(label)`
  deriving DecidableEq, Repr

/-- how the translator (`cbv/tables/c10.py`) describes the same statement read from the source -/
def Step.descr : Step → String × List Nat
  | .pedge a b => ("project_edge", [a, b])
  | .sideEdge i => ("side_edges=", [i, i])
  | .faceEdge true i => ("top_face.project_edge", [i])
  | .faceEdge false i => ("bottom_face.project_edge", [i])
  | .point true i => ("top_face.points", [i])
  | .point false i => ("bottom_face.points", [i])

/-- `Operation.project_side`, body of `if edges:` for `index_1` (with `index_2 = (index_1 + 1) % 4`) -/
def sideStepsE (i1 : Nat) : List Step :=
  let i2 := (i1 + 1) % 4
  [.pedge i1 i2, .pedge (i1 + 4) (i2 + 4), .sideEdge i1, .sideEdge i2, .faceEdge true i1, .faceEdge false i1]

/-- `Operation.project_side`, body of `if points:`: `for face in (top, bottom): for point_index in (index_1, index_2)` -/
def sideStepsP (i1 : Nat) : List Step :=
  let i2 := (i1 + 1) % 4
  [.point true i1, .point true i2, .point false i1, .point false i2]

/-- `Face.project`: `for i in range(4): self.project_edge(i, label)` / `self.points[i].project(label)` -/
def faceStepsE (top : Bool) : List Step := (List.range 4).map (.faceEdge top)
def faceStepsP (top : Bool) : List Step := (List.range 4).map (.point top)

def Op.applyStep (o : Op) (l : String) : Step → Option Op
  | .pedge a b => if guardEdge a b then none else o.projectEdge a b l
  | .sideEdge i => o.projEdgeSlot? (.side i) l
  | .faceEdge top i => if guardCorner4 i then none else o.projEdgeSlot? (if top then .top i else .bottom i) l
  | .point top i => some (o.projectPoint top i l)

def Op.applySteps (o : Op) (l : String) (ss : List Step) : Option Op :=
  ss.foldlM (fun o s => o.applyStep l s) o

/-- `Face.project(label, edges, points)` on the bottom or the top face -/
def Op.projectFace (o : Op) (bottom : Bool) (l : String) (edges points : Bool) : Option Op :=
  let o := if bottom then { o with bottomProj := some l } else { o with topProj := some l }
  o.applySteps l ((if edges then faceStepsE (!bottom) else []) ++ (if points then faceStepsP (!bottom) else []))

/-- `Operation.project_side`. -/
def Op.projectSide (o : Op) (side l : String) (edges points : Bool) : Option Op :=
  if side = "bottom" then o.projectFace true l edges points
  else if side = "top" then o.projectFace false l edges points
  else do
    let i1 ← indexFromSide side
    let o := { o with sideProj := o.sideProj.set i1 (some l) }
    o.applySteps l ((if edges then sideStepsE i1 else []) ++ (if points then sideStepsP i1 else []))

/-- the side names that `Operation.get_patches_at_corner` consults for a corner: bottom or top, then the
    side of that index and the previous one -/
def sidesAtCorner (c : Nat) : List String :=
  let s := cornerSources c
  [if s.1 then "bottom" else "top", CBV.Gen.sidesMap.getD s.2.1 "?", CBV.Gen.sidesMap.getD s.2.2 "?"]

/-- `Operation.get_patches_at_corner` (as a duplicate-free list in consultation order) -/
def Op.patchesAtCorner (o : Op) (c : Nat) : List String :=
  let s := cornerSources c
  let first := if s.1 then o.bottomPatch else o.topPatch
  let cands := [first, o.sidePatches.getD s.2.1 none, o.sidePatches.getD s.2.2 none]
  (cands.filterMap id).eraseDups

/-- `Revolve.__init__`: `for i in range(4): self.add_side_edge(i, edges.Angle(...))` -/
def revolveSideEdges : List (Nat × String) := (List.range 4).map (fun i => (i, "edges.Angle"))

def Op.revolveInit (o : Op) : Op :=
  revolveSideEdges.foldl (fun o (e : Nat × String) =>
    { (o.setEdgeSlot (.side e.1) []) with sideOther := (o.setEdgeSlot (.side e.1) []).sideOther.set e.1 (some e.2) }) o

/-- `Wedge.__init__`: a `Revolve`, then `set_patch("top", "wedge_front")`, `set_patch("bottom", "wedge_back")` -/
def wedgePatches : List (String × String) := [("top", "wedge_front"), ("bottom", "wedge_back")]

def Op.wedgeInit (o : Op) : Option Op :=
  wedgePatches.foldlM (fun o (e : String × String) => o.setPatch e.1 e.2) o.revolveInit

/-- `Wedge.set_inner_patch` / `set_outer_patch`: the side they stand for -/
def wedgeNamed (method : String) : Option String :=
  if method = "set_inner_patch" then some "front" else if method = "set_outer_patch" then some "back" else none

/-- What the assembled block shows: patch name per side, projection per side, labels per
    undirected block edge (ascending corner pair), labels per corner. -/
structure View where
  patches : List (String × List Nat)       -- (patch name, corners of the quad), in patch_names order
  faces : List (String × List Nat)          -- (label, corners): four sides in SIDES_MAP order, bottom, top
  edges : List (Nat × Nat × List String)    -- projected edges (c1 < c2), sorted
  corners : List (Nat × List String)        -- projected corners
  others : List (Nat × Nat × String) := []  -- side edges holding other data (corner pair of `Operation.edges`, class)
  deriving Repr, DecidableEq

def insPair (a : Nat × Nat × List String) : List (Nat × Nat × List String) → List (Nat × Nat × List String)
  | [] => [a]
  | b :: bs => if a.1 < b.1 || (a.1 == b.1 && a.2.1 < b.2.1) then a :: b :: bs else b :: insPair a bs

/-- insertion sort by corner pair (structural, so the kernel can evaluate it) -/
def sortPairs (xs : List (Nat × Nat × List String)) : List (Nat × Nat × List String) :=
  xs.foldr insPair []

def Op.view (o : Op) : View :=
  let sideName (i : Nat) := CBV.Gen.sidesMap.getD i "?"
  let corners (s : String) := (sideCorners s).getD []
  let pat := (match o.bottomPatch with | some n => [(n, corners "bottom")] | none => [])
    ++ (match o.topPatch with | some n => [(n, corners "top")] | none => [])
    ++ (o.sidePatches.zipIdx.filterMap (fun (p, i) => p.map (fun n => (n, corners (sideName i)))))
  let fac := (o.sideProj.zipIdx.filterMap (fun (p, i) => p.map (fun n => (n, corners (sideName i)))))
    ++ (match o.bottomProj with | some n => [(n, corners "bottom")] | none => [])
    ++ (match o.topProj with | some n => [(n, corners "top")] | none => [])
  let slotEdges (mk : Nat → Slot) (ls : List (List String)) :=
    ls.zipIdx.filterMap (fun (l, i) =>
      if l.isEmpty then none else
        let (a, b) := (mk i).corners
        some (min a b, max a b, l))
  let eds := sortPairs (slotEdges .bottom o.bottomEdges ++ slotEdges .top o.topEdges ++ slotEdges .side o.sideEdges)
  let cor := o.corners.zipIdx.filterMap (fun (l, i) => if l.isEmpty then none else some (i, l))
  let oth := o.sideOther.zipIdx.filterMap (fun (k, i) => k.map (fun k => ((Slot.side i).corners.1, (Slot.side i).corners.2, k)))
  { patches := pat, faces := fac, edges := eds, corners := cor, others := oth }

/-! ### Line protocol -/

def showView (v : View) : String :=
  let q (xs : List Nat) := "-".intercalate (xs.map toString)
  let pats := ";".intercalate (v.patches.map (fun (n, c) => n ++ ":" ++ q c))
  let facs := ";".intercalate (v.faces.map (fun (n, c) => n ++ ":" ++ q c))
  let eds := ";".intercalate (v.edges.map (fun (a, b, l) => s!"{a}-{b}:" ++ "+".intercalate l))
  let cor := ";".intercalate (v.corners.map (fun (c, l) => s!"{c}:" ++ "+".intercalate l))
  let oth := ";".intercalate (v.others.map (fun (a, b, k) => s!"{a}-{b}:{k}"))
  s!"P[{pats}] F[{facs}] E[{eds}] C[{cor}] X[{oth}]"

/-- `Operation.get_face(side)` for every side: the corners of `FACE_MAP[side]`, whatever was called before -/
def showFaces : String :=
  ";".intercalate (CBV.Gen.faceMap.map (fun e => e.1 ++ ":" ++ "-".intercalate (e.2.map toString)))

def showCornerPatches (o : Op) : String :=
  ";".intercalate ((List.range 8).map (fun c => "+".intercalate (o.patchesAtCorner c)))

def applyCall (o : Op) (call : String) : Option Op :=
  match call.splitOn ":" with
  | ["patch", side, name] => o.setPatch side name
  | ["pside", side, l, e, p] => o.projectSide side l (e == "1") (p == "1")
  | ["pedge", c1, c2, l] => do
      let c1 ← c1.toInt?
      let c2 ← c2.toInt?
      if guardEdge c1 c2 then none else o.projectEdge c1.toNat c2.toNat l
  | ["pcorner", c, l] => do o.projectCorner? (← c.toInt?) l
  | ["pcornerL", c, _listId, l] => do
      -- the same label list object handed to several calls: the operation must behave as for separate lists
      o.projectCorner? (← c.toInt?) l
  | ["reassemble", _how] =>
      -- `Mesh.backport()` / `Mesh.clear(); Mesh.assemble()`: every list is emptied and filled again from the operation;
      -- what the mesh shows is `Op.view`, a function of the operation alone
      some o
  | ["base", "loft"] => some o
  | ["base", "box"] => some o
  | ["base", "extrude"] => some o
  | ["base", "revolve"] => some o.revolveInit
  | ["base", "wedge"] => o.wedgeInit
  | ["wedgepatch", method, name] => do o.setPatch (← wedgeNamed method) name
  | ["sideedge", i, l] => do
      -- `Operation.add_side_edge(i, Project(l))`
      let i ← i.toInt?
      if guardCorner4 i then none else some (o.setEdgeSlot (.side i.toNat) [l])
  | ["faceedge", face, i, l] => do
      -- `Face.add_edge(i, Project(l))` on the bottom / top face
      let i ← i.toInt?
      if guardCorner4 i then none
      else if face = "bottom" then some (o.setEdgeSlot (.bottom i.toNat) [l])
      else if face = "top" then some (o.setEdgeSlot (.top i.toNat) [l]) else none
  | ["nface", _viewer] => some o   -- `get_normal_face` only reads the operation
  | ["patchL", sides, name] =>
      o.setPatchList (if sides = "-" then [] else sides.splitOn "+") name
  | ["redges", face, cs] => do
      -- `cs`: "all" (argument omitted), "-" (empty list) or corner numbers joined by "+"
      let cs ← if cs = "all" then some [0, 1, 2, 3] else if cs = "-" then some [] else (cs.splitOn "+").mapM (·.toNat?)
      if cs.all (fun (c : Nat) => !guardCorner4 c) then
        if face = "bottom" then some (o.removeEdges true cs)
        else if face = "top" then some (o.removeEdges false cs) else none
      else none
  | ["sameproj", s1, s2, l] => do
      -- one `Project` object put on two edges by corner numbers
      let slot (s : String) : Option Slot := do
        let i ← (s.drop 1).toString.toNat?
        if !guardCorner4 (i : Nat) then
          match s.take 1 |>.toString with
          | "b" => some (.bottom i) | "t" => some (.top i) | "s" => some (.side i) | _ => none
        else none
      some ((o.setEdgeSlot (← slot s1) [l]).setEdgeSlot (← slot s2) [l])
  | _ => none

/-- `c10.addr call;call;…` → the view, or `reject` when a call is rejected. -/
def handleAddr (args : List String) : Option String :=
  match args with
  | [calls] =>
      let r := (calls.splitOn ";").foldl (fun (o : Option Op) c => o.bind (applyCall · c)) (some {})
      some (match r with | some o => showView o.view ++ " K[" ++ showCornerPatches o ++ "] G[" ++ showFaces ++ "]" | none => "reject")
  | _ => none

def applyFaceOp (f : Face Nat Nat) (pos : List V3) (op : String) : Option (Face Nat Nat) :=
  match op.splitOn ":" with
  | ["invert"] => some f.invert
  | ["shift", k] => (k.toInt?).map f.shift
  | ["reorient", p] => do
      let p ← parseV3? p
      some (f.reorient (fun i => V3.norm2 (p - pos.getD i V3.zero)))
  | _ => none

/-- `c10.face p0 p1 p2 p3 op;op;…` → point labels and edge labels after the calls.
    Points and edge data carry the labels 0..3 of their original position. -/
def handleFace (args : List String) : Option String :=
  match args with
  | [a, b, c, d, ops] => do
      let pos ← [a, b, c, d].mapM parseV3?
      let f0 : Face Nat Nat := ⟨[0, 1, 2, 3], [0, 1, 2, 3]⟩
      let r ← (ops.splitOn ";").foldlM (fun f o => applyFaceOp f pos o) f0
      some (showNatList r.pts ++ " " ++ showNatList r.edges)
  | _ => none

/-- `c10.normal p0 p1 p2 p3` → the raw (unnormalised) normal of `Face.normal` as exact rationals -/
def handleNormal (args : List String) : Option String :=
  match args with
  | [a, b, c, d] => do
      let p ← [a, b, c, d].mapM parseV3?
      match p with
      | [p0, p1, p2, p3] => let n := normalRaw p0 p1 p2 p3; some s!"{showRat n.x} {showRat n.y} {showRat n.z}"
      | _ => none
  | _ => none

def handle (op : String) (args : List String) : Option String :=
  match op with
  | "c10.normal" => handleNormal args
  | "c10.geo" => handleGeo args
  | "c10.box" => handleBox args
  | "c10.extrude" => handleExtrude args
  | "c10.revolve" => handleRevolve args
  | "c10.wedge" => handleWedge args
  | "c10.extrudes" => handleExtrudeScalar args
  | "c10.addr" => handleAddr args
  | "c10.face" => handleFace args
  | _ => none

end CBV.C10
