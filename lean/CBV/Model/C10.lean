/-
C10 — model of `Face.invert/shift/reorient` (construct/flat/face.py) and of the side / edge /
corner addressing of `Operation` (construct/operations/operation.py) through the generated tables.
Core Lean only.
-/
import CBV.Model.Common
import CBV.Gen.Tables

namespace CBV.C10

/-- A face: 4 points and 4 edge data; edge `i` is the one between point `i` and point `i+1 mod 4`. -/
structure Face (α β : Type) where
  pts : List α
  edges : List β
  deriving Repr, DecidableEq

variable {α β : Type}

/-- `[xs[i] for i in idx]` (python list comprehension over an index list). -/
def pick [Inhabited γ] (xs : List γ) (idx : List Nat) : List γ := idx.map (fun i => xs.getD i default)

/-- `Face.invert`: `points.reverse(); edges.reverse(); edges = [edges[i] for i in (1,2,3,0)]`. -/
def Face.invert [Inhabited β] (f : Face α β) : Face α β :=
  { pts := f.pts.reverse, edges := pick f.edges.reverse [1, 2, 3, 0] }

/-- `collections.deque(range(4)).rotate(count)` as a list: a rotation to the right by `count`. -/
def shiftIdx (count : Int) : List Nat := [0, 1, 2, 3].map (fun i => (((i : Int) - count) % 4).toNat)

/-- `Face.shift(count)`. -/
def Face.shift [Inhabited α] [Inhabited β] (f : Face α β) (count : Int) : Face α β :=
  { pts := pick f.pts (shiftIdx count), edges := pick f.edges (shiftIdx count) }

/-- Index of the first minimum of a list (what a stable sort by key puts first). -/
def argminAux : List Rat → Nat → Nat → Rat → Nat
  | [], _, best, _ => best
  | d :: ds, i, best, bd => if d < bd then argminAux ds (i + 1) i d else argminAux ds (i + 1) best bd

def argmin (ds : List Rat) : Nat :=
  match ds with
  | [] => 0
  | d :: rest => argminAux rest 1 0 d

/-- `Face.reorient(start_near)` where `dist` gives the (squared) distance of each point to the
    position.  The repaired code shifts by *minus* the index of the closest point. -/
def Face.reorient [Inhabited α] [Inhabited β] (f : Face α β) (dist : α → Rat) : Face α β :=
  f.shift (-(argmin (f.pts.map dist) : Int))

/-- The connectivity of a face: (edge datum, start point, end point) for the four positions. -/
def Face.conn [Inhabited α] (f : Face α β) : List (β × α × α) :=
  f.edges.zipIdx.map (fun (e, i) => (e, f.pts.getD i default, f.pts.getD ((i + 1) % 4) default))

/-- Raw (unnormalised) normal as coded in `Face.normal`: the sum of the cross products of
    consecutive centre-to-corner vectors, times 16 to avoid the divisions (positive factor). -/
def normalRaw (p0 p1 p2 p3 : V3) : V3 :=
  let c := (p0 + p1 + p2 + p3)
  let s0 := V3.smul 4 p0 - c
  let s1 := V3.smul 4 p1 - c
  let s2 := V3.smul 4 p2 - c
  let s3 := V3.smul 4 p3 - c
  V3.cross s0 s1 + V3.cross s1 s2 + V3.cross s2 s3 + V3.cross s3 s0

/-! ### Addressing through the generated tables -/

def sideCorners (side : String) : Option (List Nat) := (CBV.Gen.faceMap.lookup side)

/-- `Operation.get_index_from_side`. -/
def indexFromSide (side : String) : Option Nat :=
  let i := CBV.Gen.sidesMap.idxOf side
  if i < CBV.Gen.sidesMap.length then some i else none

/-- `tools.edge_map[c1][c2]` → (side, start corner). -/
def edgeLoc (c1 c2 : Nat) : Option (String × Nat) :=
  (CBV.Gen.edgeLoc.find? (fun e => e.1 == c1 && e.2.1 == c2)).map (fun e => e.2.2)

/-- Storage slot of an edge datum inside an operation. -/
inductive Slot where
  | bottom (i : Nat) | top (i : Nat) | side (i : Nat)
  deriving DecidableEq, Repr

/-- Where `Operation.project_edge(c1, c2)` stores its datum. -/
def slotOfEdge (c1 c2 : Nat) : Option Slot :=
  match edgeLoc c1 c2 with
  | some ("bottom", i) => some (.bottom i)
  | some ("top", i) => some (.top i)
  | some (_, i) => some (.side i)
  | none => none

/-- Which block corners a storage slot connects, as `Operation.edges` builds the frame. -/
def Slot.corners : Slot → Nat × Nat
  | .bottom i => (i, (i + 1) % 4)
  | .top i => (i + 4, (i + 1) % 4 + 4)
  | .side i => (i, i + 4)

/-- The operation as far as addressing is concerned: names/labels stored per slot. -/
structure Op where
  bottomPatch : Option String := none
  topPatch : Option String := none
  sidePatches : List (Option String) := [none, none, none, none]
  bottomProj : Option String := none
  topProj : Option String := none
  sideProj : List (Option String) := [none, none, none, none]
  bottomEdges : List (List String) := [[], [], [], []]
  topEdges : List (List String) := [[], [], [], []]
  sideEdges : List (List String) := [[], [], [], []]
  corners : List (List String) := [[], [], [], [], [], [], [], []]
  deriving Repr, DecidableEq

def insertSorted (l : String) : List String → List String
  | [] => [l]
  | x :: xs => if l < x then l :: x :: xs else if l = x then x :: xs else x :: insertSorted l xs

/-- `Project.add_label` / `_project_update` on a label list (sorted, no duplicates). -/
def addLabel (ls : List String) (l : String) : List String := insertSorted l ls

def modifyAt (xs : List γ) (i : Nat) (f : γ → γ) : List γ := xs.modify i f

def Op.projEdgeSlot (o : Op) (s : Slot) (l : String) : Op :=
  match s with
  | .bottom i => { o with bottomEdges := modifyAt o.bottomEdges i (addLabel · l) }
  | .top i => { o with topEdges := modifyAt o.topEdges i (addLabel · l) }
  | .side i => { o with sideEdges := modifyAt o.sideEdges i (addLabel · l) }

def Op.projectEdge (o : Op) (c1 c2 : Nat) (l : String) : Option Op :=
  (slotOfEdge c1 c2).map (fun s => o.projEdgeSlot s l)

def Op.projectCorner (o : Op) (c : Nat) (l : String) : Op :=
  { o with corners := modifyAt o.corners c (· ++ [l]) }

def Op.setPatch (o : Op) (side name : String) : Option Op :=
  if side = "bottom" then some { o with bottomPatch := some name }
  else if side = "top" then some { o with topPatch := some name }
  else (indexFromSide side).map (fun i => { o with sidePatches := o.sidePatches.set i (some name) })

/-- `Operation.set_patch([side, …], name)`: the sides one after the other -/
def Op.setPatchList (o : Op) (sides : List String) (name : String) : Option Op :=
  sides.foldlM (fun o s => o.setPatch s name) o

/-- the patch name stored for a side (what the assembled block shows on that side's quad) -/
def Op.patchOf (o : Op) (side : String) : Option String :=
  if side = "bottom" then o.bottomPatch
  else if side = "top" then o.topPatch
  else match indexFromSide side with
    | some i => o.sidePatches.getD i none
    | none => none

/-- `Face.add_edge(i, data)` / `Operation.add_side_edge(i, data)`: the slot holds the new datum only -/
def Op.setEdgeSlot (o : Op) (s : Slot) (ls : List String) : Op :=
  match s with
  | .bottom i => { o with bottomEdges := o.bottomEdges.set i ls }
  | .top i => { o with topEdges := o.topEdges.set i ls }
  | .side i => { o with sideEdges := o.sideEdges.set i ls }

/-- `Face.remove_edges(corners)` on the bottom or the top face: `add_edge(corner, None)` for each listed corner -/
def Op.removeEdges (o : Op) (bottom : Bool) (cs : List Nat) : Op :=
  cs.foldl (fun o c => o.setEdgeSlot (if bottom then .bottom c else .top c) []) o

def Op.projectFace (o : Op) (bottom : Bool) (l : String) (edges points : Bool) : Op :=
  let o := if bottom then { o with bottomProj := some l } else { o with topProj := some l }
  let o := if edges then
      [0, 1, 2, 3].foldl (fun o i => o.projEdgeSlot (if bottom then .bottom i else .top i) l) o
    else o
  if points then
    [0, 1, 2, 3].foldl (fun o i => o.projectCorner (if bottom then i else i + 4) l) o
  else o

/-- `Operation.project_side`. -/
def Op.projectSide (o : Op) (side l : String) (edges points : Bool) : Option Op :=
  if side = "bottom" then some (o.projectFace true l edges points)
  else if side = "top" then some (o.projectFace false l edges points)
  else do
    let i1 ← indexFromSide side
    let i2 := (i1 + 1) % 4
    let o := { o with sideProj := o.sideProj.set i1 (some l) }
    let o ← if edges then do
        let o ← o.projectEdge i1 i2 l
        let o ← o.projectEdge (i1 + 4) (i2 + 4) l
        let o := o.projEdgeSlot (.side i1) l
        let o := o.projEdgeSlot (.side i2) l
        let o := o.projEdgeSlot (.top i1) l
        some (o.projEdgeSlot (.bottom i1) l)
      else some o
    if points then
      -- `for face in (top, bottom): for point_index in (index_1, index_2)`
      some ([i1 + 4, i2 + 4, i1, i2].foldl (fun o c => o.projectCorner c l) o)
    else some o

/-- the side names that `Operation.get_patches_at_corner` consults for a corner: bottom or top, then the
    side of that index and the previous one -/
def sidesAtCorner (c : Nat) : List String :=
  [if c < 4 then "bottom" else "top", CBV.Gen.sidesMap.getD (c % 4) "?", CBV.Gen.sidesMap.getD ((c + 3) % 4) "?"]

/-- `Operation.get_patches_at_corner` (as a duplicate-free list in consultation order) -/
def Op.patchesAtCorner (o : Op) (c : Nat) : List String :=
  let first := if c < 4 then o.bottomPatch else o.topPatch
  let cands := [first, o.sidePatches.getD (c % 4) none, o.sidePatches.getD ((c + 3) % 4) none]
  (cands.filterMap id).eraseDups

/-- What the assembled block shows: patch name per side, projection per side, labels per
    undirected block edge (ascending corner pair), labels per corner. -/
structure View where
  patches : List (String × List Nat)       -- (patch name, corners of the quad), in patch_names order
  faces : List (String × List Nat)          -- (label, corners): four sides in SIDES_MAP order, bottom, top
  edges : List (Nat × Nat × List String)    -- projected edges (c1 < c2), sorted
  corners : List (Nat × List String)        -- projected corners
  deriving Repr, DecidableEq

def insPair (a : Nat × Nat × List String) : List (Nat × Nat × List String) → List (Nat × Nat × List String)
  | [] => [a]
  | b :: bs => if a.1 < b.1 || (a.1 == b.1 && a.2.1 < b.2.1) then a :: b :: bs else b :: insPair a bs

/-- insertion sort by corner pair (structural, so the kernel can evaluate it) -/
def sortPairs (xs : List (Nat × Nat × List String)) : List (Nat × Nat × List String) :=
  xs.foldr insPair []

def Op.view (o : Op) : View :=
  let sideName (i : Nat) := CBV.Gen.sidesMap.getD i "?"
  let corners (s : String) := (sideCorners s).getD []
  let pat := (match o.bottomPatch with | some n => [(n, corners "bottom")] | none => [])
    ++ (match o.topPatch with | some n => [(n, corners "top")] | none => [])
    ++ (o.sidePatches.zipIdx.filterMap (fun (p, i) => p.map (fun n => (n, corners (sideName i)))))
  let fac := (o.sideProj.zipIdx.filterMap (fun (p, i) => p.map (fun n => (n, corners (sideName i)))))
    ++ (match o.bottomProj with | some n => [(n, corners "bottom")] | none => [])
    ++ (match o.topProj with | some n => [(n, corners "top")] | none => [])
  let slotEdges (mk : Nat → Slot) (ls : List (List String)) :=
    ls.zipIdx.filterMap (fun (l, i) =>
      if l.isEmpty then none else
        let (a, b) := (mk i).corners
        some (min a b, max a b, l))
  let eds := sortPairs (slotEdges .bottom o.bottomEdges ++ slotEdges .top o.topEdges ++ slotEdges .side o.sideEdges)
  let cor := o.corners.zipIdx.filterMap (fun (l, i) => if l.isEmpty then none else some (i, l))
  { patches := pat, faces := fac, edges := eds, corners := cor }

/-! ### Line protocol -/

def showView (v : View) : String :=
  let q (xs : List Nat) := "-".intercalate (xs.map toString)
  let pats := ";".intercalate (v.patches.map (fun (n, c) => n ++ ":" ++ q c))
  let facs := ";".intercalate (v.faces.map (fun (n, c) => n ++ ":" ++ q c))
  let eds := ";".intercalate (v.edges.map (fun (a, b, l) => s!"{a}-{b}:" ++ "+".intercalate l))
  let cor := ";".intercalate (v.corners.map (fun (c, l) => s!"{c}:" ++ "+".intercalate l))
  s!"P[{pats}] F[{facs}] E[{eds}] C[{cor}]"

/-- `Operation.get_face(side)` for every side: the corners of `FACE_MAP[side]`, whatever was called before -/
def showFaces : String :=
  ";".intercalate (CBV.Gen.faceMap.map (fun e => e.1 ++ ":" ++ "-".intercalate (e.2.map toString)))

def showCornerPatches (o : Op) : String :=
  ";".intercalate ((List.range 8).map (fun c => "+".intercalate (o.patchesAtCorner c)))

def applyCall (o : Op) (call : String) : Option Op :=
  match call.splitOn ":" with
  | ["patch", side, name] => o.setPatch side name
  | ["pside", side, l, e, p] => o.projectSide side l (e == "1") (p == "1")
  | ["pedge", c1, c2, l] => do o.projectEdge (← c1.toNat?) (← c2.toNat?) l
  | ["pcorner", c, l] => do
      let c ← c.toNat?
      if c < 8 then some (o.projectCorner c l) else none
  | ["pcornerL", c, _listId, l] => do
      -- the same label list object handed to several calls: the operation must behave as for separate lists
      let c ← c.toNat?
      if c < 8 then some (o.projectCorner c l) else none
  | ["nface", _viewer] => some o   -- `get_normal_face` only reads the operation
  | ["patchL", sides, name] =>
      o.setPatchList (if sides = "-" then [] else sides.splitOn "+") name
  | ["redges", face, cs] => do
      -- `cs`: "all" (argument omitted), "-" (empty list) or corner numbers joined by "+"
      let cs ← if cs = "all" then some [0, 1, 2, 3] else if cs = "-" then some [] else (cs.splitOn "+").mapM (·.toNat?)
      if cs.all (· < 4) then
        if face = "bottom" then some (o.removeEdges true cs)
        else if face = "top" then some (o.removeEdges false cs) else none
      else none
  | ["sameproj", s1, s2, l] => do
      -- one `Project` object put on two edges by corner numbers
      let slot (s : String) : Option Slot := do
        let i ← (s.drop 1).toString.toNat?
        if i < 4 then
          match s.take 1 |>.toString with
          | "b" => some (.bottom i) | "t" => some (.top i) | "s" => some (.side i) | _ => none
        else none
      some ((o.setEdgeSlot (← slot s1) [l]).setEdgeSlot (← slot s2) [l])
  | _ => none

/-- `c10.addr call;call;…` → the view, or `reject` when a call is rejected. -/
def handleAddr (args : List String) : Option String :=
  match args with
  | [calls] =>
      let r := (calls.splitOn ";").foldl (fun (o : Option Op) c => o.bind (applyCall · c)) (some {})
      some (match r with | some o => showView o.view ++ " K[" ++ showCornerPatches o ++ "] G[" ++ showFaces ++ "]" | none => "reject")
  | _ => none

def applyFaceOp (f : Face Nat Nat) (pos : List V3) (op : String) : Option (Face Nat Nat) :=
  match op.splitOn ":" with
  | ["invert"] => some f.invert
  | ["shift", k] => (k.toInt?).map f.shift
  | ["reorient", p] => do
      let p ← parseV3? p
      some (f.reorient (fun i => V3.norm2 (p - pos.getD i V3.zero)))
  | _ => none

/-- `c10.face p0 p1 p2 p3 op;op;…` → point labels and edge labels after the calls.
    Points and edge data carry the labels 0..3 of their original position. -/
def handleFace (args : List String) : Option String :=
  match args with
  | [a, b, c, d, ops] => do
      let pos ← [a, b, c, d].mapM parseV3?
      let f0 : Face Nat Nat := ⟨[0, 1, 2, 3], [0, 1, 2, 3]⟩
      let r ← (ops.splitOn ";").foldlM (fun f o => applyFaceOp f pos o) f0
      some (showNatList r.pts ++ " " ++ showNatList r.edges)
  | _ => none

/-- `c10.normal p0 p1 p2 p3` → the raw (unnormalised) normal of `Face.normal` as exact rationals -/
def handleNormal (args : List String) : Option String :=
  match args with
  | [a, b, c, d] => do
      let p ← [a, b, c, d].mapM parseV3?
      match p with
      | [p0, p1, p2, p3] => let n := normalRaw p0 p1 p2 p3; some s!"{showRat n.x} {showRat n.y} {showRat n.z}"
      | _ => none
  | _ => none

def handle (op : String) (args : List String) : Option String :=
  match op with
  | "c10.normal" => handleNormal args
  | "c10.addr" => handleAddr args
  | "c10.face" => handleFace args
  | _ => none

end CBV.C10
