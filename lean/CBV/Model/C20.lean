/-
C20 — executable model of the argument checks ("guards") of classy_blocks' constructors and
mutators, as they are coded *after* the repairs recorded in findings/C20.json, together with the
documented preconditions (`pre`) they are meant to enforce.  Core Lean only.

Every guarded call of the catalogue is a constructor of `Call`; `run tol call` mirrors the sequence
of `if …: raise X` statements of the Python code (first failing check wins; the exception class is
part of the outcome; `"*"` stands for "rejected further down by code that is not modelled", e.g. a
NaN that scipy refuses).  `pre tol call` is the documented two-sided condition, written
independently of the code (`0 ≤ c ∧ c ≤ 3`, `-tol ≤ d ∧ d ≤ tol`, blockMesh's own edge convention).

Two small state machines are modelled as well: clamps/links on the optimiser's grid
(optimize/grid.py, optimize/junction.py) and the assembled flag of `Mesh` (mesh.py).
-/
import CBV.Model.Common
import CBV.Gen.Tables
import CBV.Model.C20Syntax
import CBV.Gen.TC20

namespace CBV.C20

/-! ### look-ups in the generated tables -/

/-- `c2 in Frame().beams[c1]`: `Frame.__init__` enters every pair of AXIS_PAIRS in both directions -/
def frameHas (c1 c2 : Nat) : Bool :=
  CBV.Gen.axisPairs.any (fun ax => ax.any (fun p => (p.1 == c1 && p.2 == c2) || (p.1 == c2 && p.2 == c1)))

/-- `{c1, c2} in Frame.valid_pairs` (sets made from EDGE_PAIRS) -/
def validPair (c1 c2 : Int) : Bool :=
  CBV.Gen.edgePairs.any (fun p =>
    (((p.1 : Nat) : Int) == c1 && ((p.2 : Nat) : Int) == c2) || (((p.1 : Nat) : Int) == c2 && ((p.2 : Nat) : Int) == c1))

/-- `tools.edge_map[c1][c2]` holds an `EdgeLocation` (and not `None`) -/
def edgeMapHas (c1 c2 : Nat) : Bool :=
  CBV.Gen.edgeLoc.any (fun e => e.1 == c1 && e.2.1 == c2)

/-! ### the blockMesh hexahedron convention (specification side, independent of the tables) -/

/-- corner `c` of the hexahedron has local coordinates (x, y, z) ∈ {0,1}³ -/
def coord (c : Nat) : Bool × Bool × Bool :=
  (c % 4 == 1 || c % 4 == 2, c % 4 == 2 || c % 4 == 3, c ≥ 4)

/-- two corners are joined by an edge iff they differ in exactly one coordinate -/
def isEdge (c1 c2 : Nat) : Bool :=
  let a := coord c1; let b := coord c2
  ((if a.1 != b.1 then 1 else 0) + (if a.2.1 != b.2.1 then 1 else 0) + (if a.2.2 != b.2.2 then 1 else 0)) == 1

def inRange (lo hi : Int) (c : Int) : Bool := decide (lo ≤ c) && decide (c ≤ hi)

/-- both indexes are corners (0…7) and the corners are joined by an edge of the hexahedron -/
def cornerPairOk (c1 c2 : Int) : Bool :=
  inRange 0 7 c1 && inRange 0 7 c2 && isEdge c1.toNat c2.toNat

def sideNames : List String := ["bottom", "top", "left", "right", "front", "back"]

/-! ### labels of a `Project` edge -/

/-- `Project.add_label`: `for l in new: if l not in self.label: self.label.append(l)` -/
def mergeLabels (have_ new : List Nat) : List Nat :=
  new.foldl (fun acc l => if acc.contains l then acc else acc ++ [l]) have_

/-! ### geometry helpers -/

/-- `np.dot(p1 - p0, np.cross(p3 - p0, p2 - p0))` of `Face.__init__(check_coplanar=True)` -/
def triple (p0 p1 p2 p3 : V3) : Rat := V3.dot (p1 - p0) (V3.cross (p3 - p0) (p2 - p0))

def isZero (v : V3) : Bool := decide (v.x = 0) && decide (v.y = 0) && decide (v.z = 0)

/-! ### the catalogue of guarded calls -/

inductive Call where
  /-- `Face(points)` with `points` an n × m array (n rows of m coordinates) -/
  | faceShape (n m : Nat)
  /-- `Face(four points, edges)` with a list of k edge data -/
  | faceEdges (k : Nat)
  /-- `Face(points, check_coplanar=True)` -/
  | faceCoplanar (p0 p1 p2 p3 : V3)
  /-- `Face.add_edge(corner, …)` -/
  | faceAddEdge (c : Int)
  /-- `Face.project_edge(corner, label)` on a face without projected edges -/
  | faceProjectEdge (c : Int)
  /-- `Face.remove_edges(corners)` -/
  | faceRemoveEdges (cs : List Int)
  /-- `Point(position)` with `np.shape(position) = dims` -/
  | pointShape (dims : List Nat)
  /-- `Array(points)` with an n × m array -/
  | arrayShape (n m : Nat)
  /-- `Side(orient, vertices)` with k vertices -/
  | sideVertices (k : Nat)
  /-- `Operation.add_side_edge(corner, …)` -/
  | opAddSideEdge (c : Int)
  /-- `Operation.project_corner(corner, label)` -/
  | opProjectCorner (c : Int)
  /-- `Operation.project_edge(corner_1, corner_2, label)` -/
  | opProjectEdge (c1 c2 : Int)
  /-- `Operation.chop(axis, …)` -/
  | opChop (axis : Int)
  /-- `Operation.unchop(axis)` -/
  | opUnchop (axis : Int)
  /-- `Operation.set_patch(side, …)` / `Operation.project_side(side, …)` -/
  | opSide (side : String)
  /-- `Operation.from_series(faces)` with k faces -/
  | fromSeries (k : Nat)
  /-- `Block.add_edge(corner_1, corner_2, edge)` -/
  | blockAddEdge (c1 c2 : Int)
  /-- `Frame.add_beam(corner_1, corner_2, beam)` -/
  | frameAddBeam (c1 c2 : Int)
  /-- `Project(labels)` with a list of n labels -/
  | projectLabels (n : Nat)
  /-- `Project(have).add_label(new)`; labels are numbered -/
  | projectAddLabel (have_ new : List Nat)
  /-- `Grading.add_chop(Chop(length_ratio=r))` -/
  | lengthRatio (r : Rat)
  /-- `Annulus(center, outer_radius_point, normal, inner_radius, n_segments)` (also `ExtrudedRing`) -/
  | annulus (c p n : V3) (rin : Rat) (nseg : Int)
  /-- `Cylinder / SemiCylinder(axis_point_1, axis_point_2, radius_point_1)` -/
  | cylinder (a1 a2 rp : V3)
  /-- `Frustum(axis_point_1, axis_point_2, radius_point_1, radius_2)` -/
  | frustum (a1 a2 rp : V3)
  /-- `Cylinder.chain` (kind 0), `Frustum.chain` (1), `ExtrudedRing.chain` (2) with the given length -/
  | chain (kind : Nat) (len : Rat)
  /-- `ExtrudedRing.contract(source, inner_radius)` where the source's inner radius is `rsrc` -/
  | ringContract (rnew rsrc : Rat)
  /-- `Cylinder.fill(ring)` where the ring has `nseg` segments -/
  | cylinderFill (nseg : Nat)
  /-- `LoftedShape(sketch_1, sketch_2, sketch_mid)` with the given numbers of faces -/
  | loftedShape (n1 n2 : Nat) (mids : List Nat)
  /-- `Stack.get_slice(axis, index)` on a stack of `n2` shapes made from a sketch whose grid has
      `n1` rows of `n0` faces -/
  | stackSlice (axis idx : Int) (n0 n1 n2 : Nat)
  /-- `curve.get_point(p)` / `curve.discretize(p, …)` on a curve with `bounds = (lo, hi)` (`CurveBase._check_param`) -/
  | curveParam (p lo hi : Rat)
  /-- `functions.polyline_length(points)` with `np.shape(points) = dims` -/
  | polylineShape (dims : List Nat)
  /-- `functions.to_cartesian(point, direction, axis)` (and `to_polar(point, axis)`) -/
  | polarArgs (direction : Int) (axis : String)
  /-- `RotationLink(leader, follower, axis, origin)`: the leader must not lie on the rotation axis -/
  | rotationLink (leader origin axis : V3)
  /-- `Elbow.chain(source, …)` where the source's sketch is / is not a `Disk` -/
  | elbowChain (isDisk : Bool)
  /-- `arc_from_theta(p1, p2, angle, axis)` (the `Angle` edge): the sector angle against the float `np.pi * 2` -/
  | arcTheta (angle twoPi : Rat)
  /-- `Edge(vertex_1, vertex_2, data)` (every edge class): the ends are / are not `Vertex` objects -/
  | edgeVertices (v1 v2 : Bool)
  deriving Repr

def chainClass : Nat → String
  | 0 => "CylinderCreationError"
  | 1 => "FrustumCreationError"
  | _ => "ExtrudedRingCreationError"

/-- `Face.add_edge` / `Face.project_edge`: `if corner < 0 or corner > 3: raise FaceCreationError` -/
def faceCornerBad (c : Int) : Bool := decide (c < 0) || decide (c > 3)

/-- first corner of the list that `add_edge` refuses -/
def removeEdgesRun : List Int → Out
  | [] => .accept
  | c :: cs => if faceCornerBad c then .reject "FaceCreationError" else removeEdgesRun cs

/-- number of slices of a stack along an axis: columns, rows of the sketch's grid, shapes -/
def slicesAlong (axis : Int) (n0 n1 n2 : Nat) : Int :=
  if axis = 0 then (n0 : Int) else if axis = 1 then (n1 : Int) else (n2 : Int)

/-- The guards as coded (after the repairs), `tol` = `constants.TOL`. -/
def run (tol : Rat) : Call → Out
  | .faceShape n m => checks [(!(n == 4 && m == 3), "FaceCreationError")]
  | .faceEdges k => checks [(k != 4, "FaceCreationError")]
  | .faceCoplanar p0 p1 p2 p3 => checks [(decide (absR (triple p0 p1 p2 p3) > tol), "FaceCreationError")]
  | .faceAddEdge c => checks [(faceCornerBad c, "FaceCreationError")]
  | .faceProjectEdge c => checks [(faceCornerBad c, "FaceCreationError")]
  | .faceRemoveEdges cs => removeEdgesRun cs
  | .pointShape dims => checks [(dims != [3], "PointCreationError")]
  | .arrayShape n m =>
      -- `np.shape([]) = (0,)`: `len(shape) != 2`
      checks [(n == 0 || m != 3, "ArrayCreationError"), (decide (n ≤ 1), "ArrayCreationError")]
  | .sideVertices k => checks [(k != 8, "SideCreationError")]
  | .opAddSideEdge c => checks [(decide (c < 0) || decide (c > 3), "EdgeCreationError")]
  | .opProjectCorner c => checks [(decide (c < 0) || decide (c > 7), "ValueError")]
  | .opProjectEdge c1 c2 =>
      checks [(!(decide (0 ≤ c1) && decide (c1 < 8) && decide (0 ≤ c2) && decide (c2 < 8)), "ValueError"),
              (!(frameHas c1.toNat c2.toNat), "KeyError"),
              (!(edgeMapHas c1.toNat c2.toNat), "AttributeError")]
  | .opChop axis => checks [(!(axis == 0 || axis == 1 || axis == 2), "KeyError")]
  | .opUnchop axis => checks [(!(axis == 0 || axis == 1 || axis == 2), "KeyError")]
  | .opSide side =>
      checks [(!(side == "bottom" || side == "top" || CBV.Gen.sidesMap.contains side), "RuntimeError")]
  | .fromSeries k => checks [(decide (k < 2), "ValueError")]
  | .blockAddEdge c1 c2 =>
      checks [(!(decide (0 ≤ c1) && decide (c1 < 8) && decide (0 ≤ c2) && decide (c2 < 8)), "ValueError"),
              (!(frameHas c1.toNat c2.toNat), "KeyError")]
  | .frameAddBeam c1 c2 => checks [(!(validPair c1 c2), "ValueError")]
  | .projectLabels n => checks [(!(decide (0 < n) && decide (n < 3)), "EdgeCreationError")]
  | .projectAddLabel h new =>
      let n := (mergeLabels h new).length
      checks [(!(decide (0 < n) && decide (n < 3)), "EdgeCreationError")]
  | .lengthRatio r => checks [(!(decide (0 < r) && decide (r ≤ 1)), "ValueError")]
  | .annulus c p n rin nseg =>
      let v := p - c
      checks [(decide (rin < 0), "AnnulusCreationError"),
              (nseg == 0, "ZeroDivisionError"),                     -- 2π / n_segments
              (isZero n || isZero v, "*"),                          -- unit_vector of a zero vector: NaN
              (decide (nseg < 0), "IndexError"),                    -- no faces at all
              -- one face only: `self.center` is the centre of that face, both "radii" are half its width
              (nseg == 1, "AnnulusCreationError"),
              -- `outer_radius - inner_radius < TOL`, both radii being norms; in squared form
              (decide (V3.norm2 v < (rin + tol) * (rin + tol)), "AnnulusCreationError"),
              -- `abs(dot(unit(normal), v)) > TOL`, in squared form
              (decide (V3.dot n v * V3.dot n v > tol * tol * V3.norm2 n), "AnnulusCreationError")]
  | .cylinder a1 a2 rp =>
      checks [(decide (absR (V3.dot (a2 - a1) (rp - a1)) > tol), "CylinderCreationError"),
              (isZero (a2 - a1) || isZero (rp - a1), "*")]
  | .frustum a1 a2 rp =>
      checks [(decide (absR (V3.dot (a2 - a1) (rp - a1)) > tol), "FrustumCreationError"),
              (isZero (a2 - a1) || isZero (rp - a1), "*")]
  | .chain kind len =>
      checks [(decide (len < 0), chainClass kind),
              (decide (len = 0), "*")]                              -- zero axis further down
  | .ringContract rnew rsrc =>
      checks [(decide (rnew ≤ 0), "ExtrudedRingCreationError"),
              (decide (rsrc - rnew < tol), "ExtrudedRingCreationError")]
  | .cylinderFill nseg => checks [(nseg != 8, "CylinderCreationError")]
  | .loftedShape n1 n2 mids =>
      checks [(n1 != n2, "ShapeCreationError"), (mids.any (· != n1), "ShapeCreationError")]
  | .stackSlice axis idx n0 n1 n2 =>
      -- `n_slices = (len(grid[0]), len(grid), len(self.shapes))[axis]`; `index < 0 or index >= n_slices`
      checks [(!(axis == 0 || axis == 1 || axis == 2), "ValueError"),
              (decide (idx < 0) || decide (slicesAlong axis n0 n1 n2 ≤ idx), "ValueError")]
  | .curveParam p lo hi => checks [(!(decide (lo ≤ p) && decide (p ≤ hi)), "ValueError")]
  | .polylineShape dims =>
      match dims with
      -- `len(np.shape(points)) != 2 or len(points[0]) != 3` (an empty list has shape (0,)), then `shape[0] < 2`
      | [n, m] => checks [(n == 0 || m != 3, "ValueError"), (decide (n < 2), "ValueError")]
      | _ => .reject "ValueError"
  | .polarArgs direction axis =>
      checks [(!(direction == -1 || direction == 1), "ValueError"), (!(axis == "x" || axis == "z"), "ValueError")]
  | .rotationLink leader origin axis =>
      let d := leader - origin
      -- `norm(d - (d·â)â) < TOL` with â = axis/|axis|, multiplied by |axis|² and squared
      checks [(decide (V3.norm2 d * V3.norm2 axis - V3.dot d axis * V3.dot d axis < tol * tol * V3.norm2 axis),
               "ValueError")]
  | .elbowChain isDisk => checks [(!isDisk, "ElbowCreationError")]
  | .arcTheta a twoPi => checks [(!(decide (0 < absR a) && decide (absR a < twoPi)), "ValueError")]
  | .edgeVertices v1 v2 => checks [(!(v1 && v2), "EdgeCreationError")]

/-- The documented preconditions, each written as the two-sided / symmetric condition it is. -/
def pre (tol : Rat) : Call → Bool
  | .faceShape n m => n == 4 && m == 3
  | .faceEdges k => k == 4
  | .faceCoplanar p0 p1 p2 p3 => decide (-tol ≤ triple p0 p1 p2 p3) && decide (triple p0 p1 p2 p3 ≤ tol)
  | .faceAddEdge c => inRange 0 3 c
  | .faceProjectEdge c => inRange 0 3 c
  | .faceRemoveEdges cs => cs.all (inRange 0 3)
  | .pointShape dims => dims == [3]
  | .arrayShape n m => m == 3 && decide (2 ≤ n)
  | .sideVertices k => k == 8
  | .opAddSideEdge c => inRange 0 3 c
  | .opProjectCorner c => inRange 0 7 c
  | .opProjectEdge c1 c2 => cornerPairOk c1 c2
  | .opChop axis => inRange 0 2 axis
  | .opUnchop axis => inRange 0 2 axis
  | .opSide side => sideNames.contains side
  | .fromSeries k => decide (2 ≤ k)
  | .blockAddEdge c1 c2 => cornerPairOk c1 c2
  | .frameAddBeam c1 c2 => cornerPairOk c1 c2
  | .projectLabels n => decide (1 ≤ n) && decide (n ≤ 2)
  | .projectAddLabel h new => decide (1 ≤ (mergeLabels h new).length) && decide ((mergeLabels h new).length ≤ 2)
  | .lengthRatio r => decide (0 < r) && decide (r ≤ 1)
  | .annulus c p n rin nseg =>
      let v := p - c
      !(isZero n) && !(isZero v) && decide (2 ≤ nseg) && decide (0 ≤ rin) &&
        -- inner radius below the outer one by at least the tolerance: (rin + tol)² ≤ |v|²
        decide ((rin + tol) * (rin + tol) ≤ V3.norm2 v) &&
        -- |n̂ · v| ≤ tol, two-sided, with |n| cleared: (n·v)² ≤ tol² |n|²
        decide (V3.dot n v * V3.dot n v ≤ tol * tol * V3.norm2 n)
  | .cylinder a1 a2 rp =>
      !(isZero (a2 - a1)) && !(isZero (rp - a1)) &&
        decide (-tol ≤ V3.dot (a2 - a1) (rp - a1)) && decide (V3.dot (a2 - a1) (rp - a1) ≤ tol)
  | .frustum a1 a2 rp =>
      !(isZero (a2 - a1)) && !(isZero (rp - a1)) &&
        decide (-tol ≤ V3.dot (a2 - a1) (rp - a1)) && decide (V3.dot (a2 - a1) (rp - a1) ≤ tol)
  | .chain _ len => decide (0 < len)
  | .ringContract rnew rsrc => decide (0 < rnew) && decide (rnew + tol ≤ rsrc)
  | .cylinderFill nseg => nseg == 8
  | .loftedShape n1 n2 mids => n1 == n2 && mids.all (· == n1)
  | .stackSlice axis idx n0 n1 n2 =>
      inRange 0 2 axis && decide (0 ≤ idx) &&
        decide (idx < (if axis = 0 then (n0 : Int) else if axis = 1 then (n1 : Int) else (n2 : Int)))
  | .curveParam p lo hi => decide (lo ≤ p) && decide (p ≤ hi)
  | .polylineShape dims =>
      match dims with
      | [n, m] => m == 3 && decide (2 ≤ n)
      | _ => false
  | .polarArgs direction axis => (direction == -1 || direction == 1) && ["x", "z"].contains axis
  | .rotationLink leader origin axis =>
      -- distance of the leader from the axis at least `tol`, in squared form
      decide (tol * tol * V3.norm2 axis ≤
        V3.norm2 (leader - origin) * V3.norm2 axis - V3.dot (leader - origin) axis * V3.dot (leader - origin) axis)
  | .elbowChain isDisk => isDisk
  -- the angle is not zero and lies strictly between -2π and 2π: two-sided in both senses
  | .arcTheta a twoPi => decide (a ≠ 0) && decide (-twoPi < a) && decide (a < twoPi)
  | .edgeVertices v1 v2 => v1 && v2

/-- side conditions under which a call of the catalogue is meaningful at all (a stack holds at least
    one shape and its sketch at least one row; a `Project` that receives a label has 1 or 2 distinct ones) -/
def wf : Call → Bool
  | .stackSlice _ _ _ n1 n2 => decide (0 < n1) && decide (0 < n2)
  | .projectAddLabel h _ => decide (0 < h.length) && decide (h.length ≤ 2)
  | .rotationLink _ _ axis => !(isZero axis)   -- a zero axis gives NaN, which no comparison rejects
  | _ => true

/-! ### clamps and links on the optimiser's grid (optimize/grid.py, junction.py) -/

/-- `f.norm(a - b) < TOL`, squared -/
def near (tol : Rat) (a b : V3) : Bool := decide (V3.norm2 (a - b) < tol * tol)

/-- index of the first junction within `tol` of the position (`GridBase.add_clamp` returns at the first hit) -/
def firstNear (tol : Rat) (pos : V3) : List V3 → Nat → Option Nat
  | [], _ => none
  | p :: ps, i => if near tol p pos then some i else firstNear tol pos ps (i + 1)

/-- `GridBase.add_clamp` + `Junction.add_clamp`; the state is the list of clamped junction indexes -/
def addClamp (tol : Rat) (pts : List V3) (clamped : List Nat) (pos : V3) : Out × List Nat :=
  match firstNear tol pos pts 0 with
  | none => (.reject "NoJunctionError", clamped)
  | some i => if clamped.contains i then (.reject "ClampExistsError", clamped) else (.accept, i :: clamped)

/-- the loop of `GridBase.add_link`: the last junction near the leader, and the last junction that is
    *not* near the leader (`continue`) but near the follower -/
def linkScan (tol : Rat) (leader follower : V3) : List V3 → Nat → Option Nat → Option Nat → Option Nat × Option Nat
  | [], _, li, fi => (li, fi)
  | p :: ps, i, li, fi =>
      if near tol leader p then linkScan tol leader follower ps (i + 1) (some i) fi
      else if near tol follower p then linkScan tol leader follower ps (i + 1) li (some i)
      else linkScan tol leader follower ps (i + 1) li fi

def addLink (tol : Rat) (pts : List V3) (leader follower : V3) : Out :=
  match linkScan tol leader follower pts 0 none none with
  | (none, _) => .reject "InvalidLinkError"
  | (some _, none) => .reject "InvalidLinkError"
  | (some l, some f) => if l = f then .reject "InvalidLinkError" else .accept

inductive GridOp where
  | clamp (pos : V3)
  | link (leader follower : V3)
  /-- `SketchOptimizer.auto_optimize()`: a clamp on every non-boundary vertex, then the optimisation -/
  | auto
  deriving Repr

/-- the clamping loop of `SketchOptimizer.auto_optimize`: `self.add_clamp(PlaneClamp(junction.point, …))` for every
    non-boundary junction in index order (`interior`); the first exception ends the call, vertices clamped before it
    keep their clamp.  The optimisation that follows is not modelled (the harness runs it with zero iterations). -/
def autoClamps (tol : Rat) (pts : List V3) : List Nat → List Nat → Out × List Nat
  | [], st => (.accept, st)
  | j :: js, st =>
      match pts[j]? with
      | none => (.reject "*", st)
      | some p =>
          match (addClamp tol pts st p).1 with
          | .accept => autoClamps tol pts js (addClamp tol pts st p).2
          | .reject c => (.reject c, (addClamp tol pts st p).2)

def gridRun (tol : Rat) (pts : List V3) (interior : List Nat) : List GridOp → List Nat → List Out
  | [], _ => []
  | .clamp pos :: ops, st =>
      let r := addClamp tol pts st pos
      r.1 :: gridRun tol pts interior ops r.2
  | .link l f :: ops, st => addLink tol pts l f :: gridRun tol pts interior ops st
  | .auto :: ops, st =>
      (autoClamps tol pts interior st).1 :: gridRun tol pts interior ops (autoClamps tol pts interior st).2

/-! ### the assembled flag of `Mesh` (mesh.py) -/

inductive MeshOp where
  | add | assemble | clear | grade | backport
  deriving DecidableEq, Repr

/-- number of entities in the depot, `is_assembled` (vertex list not empty) -/
structure MeshSt where
  depot : Nat := 0
  assembled : Bool := false
  deriving DecidableEq, Repr

def meshStep (s : MeshSt) : MeshOp → Out × MeshSt
  | .add => (.accept, { s with depot := s.depot + 1 })
  | .assemble => (.accept, { s with assembled := s.assembled || decide (0 < s.depot) })
  | .clear => (.accept, { s with assembled := false })
  | .grade => (if s.assembled then .accept else .reject "RuntimeError", s)
  | .backport =>
      -- `clear(); assemble()` when assembled
      if s.assembled then (.accept, { s with assembled := decide (0 < s.depot) }) else (.reject "RuntimeError", s)

def meshRun : MeshSt → List MeshOp → List Out
  | _, [] => []
  | s, op :: ops => (meshStep s op).1 :: meshRun (meshStep s op).2 ops

/-! ### projection labels on the 12 edges of one operation: every path that can add a label

Slots: bottom face edge i ↦ i, top face edge i ↦ 4 + i, side edge i ↦ 8 + i (i = 0…3).  A slot holds the label
list of its `Project` edge, `[]` for a `Line`.  All paths end in `Project(label)` (fresh edge) or
`Project.add_label` (existing one), which **mutates first and checks afterwards**: after a rejected `add_label`
the edge keeps the merged labels.  The model reproduces that. -/

abbrev PState := List (List Nat)

def emptyP : PState := List.replicate 12 []

/-- one edge receives the labels `new`: `Project(new)` on a line, `add_label(new)` on a projected edge -/
def slotUpdate (stored new : List Nat) : Out × List Nat :=
  if stored.isEmpty then
    if 0 < new.length ∧ new.length < 3 then (.accept, new) else (.reject "EdgeCreationError", stored)
  else
    let m := mergeLabels stored new
    if 0 < m.length ∧ m.length < 3 then (.accept, m) else (.reject "EdgeCreationError", m)

def applySlot (st : PState) (s : Nat) (new : List Nat) : Out × PState :=
  ((slotUpdate (st.getD s []) new).1, st.set s (slotUpdate (st.getD s []) new).2)

/-- several edges in the order of the python statements; the first exception ends the call (earlier edges keep
    their new labels) -/
def seqSlots : List Nat → List Nat → PState → Out × PState
  | [], _, st => (.accept, st)
  | s :: ss, new, st =>
      match (applySlot st s new).1 with
      | .accept => seqSlots ss new (applySlot st s new).2
      | .reject c => (.reject c, (applySlot st s new).2)

/-- storage slot of `tools.edge_map[c1][c2]` -/
def edgeSlot (c1 c2 : Nat) : Option Nat :=
  (CBV.Gen.edgeLoc.find? (fun e => e.1 == c1 && e.2.1 == c2)).map (fun e =>
    if e.2.2.1 == "bottom" then e.2.2.2 else if e.2.2.1 == "top" then 4 + e.2.2.2 else 8 + e.2.2.2)

inductive ProjOp where
  /-- `Operation.project_edge(c1, c2, labels)`; also `Project.add_label` called on the stored edge object -/
  | pedge (c1 c2 : Int) (new : List Nat)
  /-- `Operation.project_side(side, label, edges)` -/
  | pside (side : String) (label : Nat) (edges : Bool)
  /-- `Face.project_edge(corner, labels)` on the bottom / top face of the operation -/
  | fpedge (top : Bool) (corner : Int) (new : List Nat)
  /-- `Face.project(label, edges)` on the bottom / top face -/
  | fproj (top : Bool) (label : Nat) (edges : Bool)
  deriving Repr

def faceSlots (top : Bool) : List Nat := if top then [4, 5, 6, 7] else [0, 1, 2, 3]

/-- the slots a lateral `project_side(…, edges=True)` writes, in statement order: `project_edge(i1, i2)`,
    `project_edge(i1+4, i2+4)`, `side_edges[i1]`, `side_edges[i2]`, `top_face.project_edge(i1)`,
    `bottom_face.project_edge(i1)` -/
def sideSlots (i1 : Nat) : Option (List Nat) := do
  let i2 := (i1 + 1) % 4
  let a ← edgeSlot i1 i2
  let b ← edgeSlot (i1 + 4) (i2 + 4)
  some [a, b, 8 + i1, 8 + i2, 4 + i1, i1]

def projStep (st : PState) : ProjOp → Out × PState
  | .pedge c1 c2 new =>
      match run 0 (.opProjectEdge c1 c2) with
      | .reject c => (.reject c, st)
      | .accept =>
          match edgeSlot c1.toNat c2.toNat with
          | some s => applySlot st s new
          | none => (.reject "*", st)
  | .pside side label edges =>
      if side == "bottom" then (if edges then seqSlots (faceSlots false) [label] st else (.accept, st))
      else if side == "top" then (if edges then seqSlots (faceSlots true) [label] st else (.accept, st))
      else
        let i := CBV.Gen.sidesMap.idxOf side
        if i < CBV.Gen.sidesMap.length then
          if edges then
            match sideSlots i with
            | some slots => seqSlots slots [label] st
            | none => (.reject "*", st)
          else (.accept, st)
        else (.reject "RuntimeError", st)
  | .fpedge top corner new =>
      if faceCornerBad corner then (.reject "FaceCreationError", st)
      else applySlot st ((if top then 4 else 0) + corner.toNat) new
  | .fproj top label edges => if edges then seqSlots (faceSlots top) [label] st else (.accept, st)

/-- outcome and state after every call of a history -/
def projRun : PState → List ProjOp → List (Out × PState)
  | _, [] => []
  | st, op :: ops => projStep st op :: projRun (projStep st op).2 ops

/-! ### specification-side definitions used by the theorems about histories -/

/-- all edges of the operation carry at most two labels -/
def Bounded (st : PState) : Prop := ∀ ls ∈ st, ls.length ≤ 2

/-- the clamped vertices after a history of calls -/
def gridState (tol : Rat) (pts : List V3) (interior : List Nat) : List GridOp → List Nat → List Nat
  | [], st => st
  | .clamp pos :: ops, st => gridState tol pts interior ops (addClamp tol pts st pos).2
  | .link _ _ :: ops, st => gridState tol pts interior ops st
  | .auto :: ops, st => gridState tol pts interior ops (autoClamps tol pts interior st).2

/-- state after a history given most-recent-first -/
def stateRev : List MeshOp → MeshSt
  | [] => {}
  | op :: older => (meshStep (stateRev older) op).2

/-- "is the mesh assembled?" read off the history alone, looking back from now: the most recent `clear` or
    `assemble` decides — after a `clear` it is not; after an `assemble` it is iff it already was or something had
    been added before; `add`, `grade`, `backport` do not change it -/
def assembledSpec : List MeshOp → Bool
  | [] => false
  | .clear :: _ => false
  | .assemble :: older => assembledSpec older || older.contains .add
  | _ :: older => assembledSpec older

def meshFold : MeshSt → List MeshOp → MeshSt
  | s, [] => s
  | s, op :: ops => meshFold (meshStep s op).2 ops

/-! ### Line protocol

`c20.call <name> <rationals [a,b,…]> <strings [s,…]>` → `accept|reject:<Class> pre|nopre`
`c20.grid <points p;p;…> <ops clamp:p | link:p:p | auto ;…> <non-boundary vertices [i,…]>` → outcomes joined by `,`
`c20.mesh <ops add;assemble;…>`                         → outcomes joined by `,`
`c20.proj <ops pedge:c1:c2:[l,…] | pside:side:l:0|1 | fpedge:0|1:corner:[l,…] | fproj:0|1:l:0|1 ;…>`
                                                        → per call `outcome@slot0|…|slot11` (labels joined by `.`), joined by `;`
-/

def tolGen : Rat := mkRat CBV.Gen.c20Tol.1 CBV.Gen.c20Tol.2

def natOf? (q : Rat) : Option Nat := if q.den = 1 ∧ 0 ≤ q.num then some q.num.toNat else none
def intOf? (q : Rat) : Option Int := if q.den = 1 then some q.num else none

def v3Of : Rat → Rat → Rat → V3 := fun a b c => ⟨a, b, c⟩

/-- decodes a call from its name, its rational arguments and its string arguments -/
def callOf (name : String) (r : List Rat) (s : List String) : Option Call :=
  match name, r, s with
  | "faceShape", [n, m], [] => do some (.faceShape (← natOf? n) (← natOf? m))
  | "faceEdges", [k], [] => do some (.faceEdges (← natOf? k))
  | "faceCoplanar", [a, b, c, d, e, f, g, h, i, j, k, l], [] =>
      some (.faceCoplanar (v3Of a b c) (v3Of d e f) (v3Of g h i) (v3Of j k l))
  | "faceAddEdge", [c], [] => do some (.faceAddEdge (← intOf? c))
  | "faceProjectEdge", [c], [] => do some (.faceProjectEdge (← intOf? c))
  | "faceRemoveEdges", cs, [] => do some (.faceRemoveEdges (← cs.mapM intOf?))
  | "pointShape", dims, [] => do some (.pointShape (← dims.mapM natOf?))
  | "arrayShape", [n, m], [] => do some (.arrayShape (← natOf? n) (← natOf? m))
  | "sideVertices", [k], [] => do some (.sideVertices (← natOf? k))
  | "opAddSideEdge", [c], [] => do some (.opAddSideEdge (← intOf? c))
  | "opProjectCorner", [c], [] => do some (.opProjectCorner (← intOf? c))
  | "opProjectEdge", [a, b], [] => do some (.opProjectEdge (← intOf? a) (← intOf? b))
  | "opChop", [a], [] => do some (.opChop (← intOf? a))
  | "opUnchop", [a], [] => do some (.opUnchop (← intOf? a))
  | "opSide", [], [side] => some (.opSide side)
  | "fromSeries", [k], [] => do some (.fromSeries (← natOf? k))
  | "blockAddEdge", [a, b], [] => do some (.blockAddEdge (← intOf? a) (← intOf? b))
  | "frameAddBeam", [a, b], [] => do some (.frameAddBeam (← intOf? a) (← intOf? b))
  | "projectLabels", [n], [] => do some (.projectLabels (← natOf? n))
  | "projectAddLabel", nh :: rest, [] => do
      let nh ← natOf? nh
      let ls ← rest.mapM natOf?
      if nh ≤ ls.length then some (.projectAddLabel (ls.take nh) (ls.drop nh)) else none
  | "lengthRatio", [x], [] => some (.lengthRatio x)
  | "annulus", [a, b, c, d, e, f, g, h, i, rin, nseg], [] => do
      some (.annulus (v3Of a b c) (v3Of d e f) (v3Of g h i) rin (← intOf? nseg))
  | "cylinder", [a, b, c, d, e, f, g, h, i], [] => some (.cylinder (v3Of a b c) (v3Of d e f) (v3Of g h i))
  | "frustum", [a, b, c, d, e, f, g, h, i], [] => some (.frustum (v3Of a b c) (v3Of d e f) (v3Of g h i))
  | "chain", [kind, len], [] => do
      let k ← natOf? kind
      if k < 3 then some (.chain k len) else none
  | "ringContract", [a, b], [] => some (.ringContract a b)
  | "cylinderFill", [n], [] => do some (.cylinderFill (← natOf? n))
  | "loftedShape", n1 :: n2 :: mids, [] => do
      some (.loftedShape (← natOf? n1) (← natOf? n2) (← mids.mapM natOf?))
  | "stackSlice", [axis, idx, n0, n1, n2], [] => do
      some (.stackSlice (← intOf? axis) (← intOf? idx) (← natOf? n0) (← natOf? n1) (← natOf? n2))
  | "curveParam", [p, lo, hi], [] => some (.curveParam p lo hi)
  | "polylineShape", dims, [] => do some (.polylineShape (← dims.mapM natOf?))
  | "polarArgs", [d], [axis] => do some (.polarArgs (← intOf? d) axis)
  | "rotationLink", [a, b, c, d, e, f, g, h, i], [] =>
      some (.rotationLink (v3Of a b c) (v3Of d e f) (v3Of g h i))
  | "elbowChain", [b], [] => do
      let k ← natOf? b
      if k < 2 then some (.elbowChain (k == 1)) else none
  | "arcTheta", [a, t], [] => some (.arcTheta a t)
  | "edgeVertices", [a, b], [] => do
      let x ← natOf? a
      let y ← natOf? b
      if x < 2 ∧ y < 2 then some (.edgeVertices (x == 1) (y == 1)) else none
  | _, _, _ => none

def handleCall (args : List String) : Option String :=
  match args with
  | [name, rs, ss] => do
      let r ← parseRatList? rs
      let s ← parseList? ss
      let c ← callOf name r s
      if wf c then
        some ((run tolGen c).toStr ++ (if pre tolGen c then " pre" else " nopre"))
      else none
  | _ => none

/-! ### the guards as syntax: what the model says the source says (round 6)

`modelGuardTable` is the model's reading of the explicit guards of every covered entry point, as syntax
(`CBV.C20.Stmt`); the translator regenerates the same table from the current source into `CBV.Gen.c20Guards`, and
`Props/C20.lean` proves that the two are the same table and that evaluating it on the arguments of a call gives the
outcome of `run` (with the rejections that come from implicit checks — look-ups, divisions, numpy — spelled out). -/

def G_faceShape : List Stmt := [
    .s (.raise "FaceCreationError" (.not (.shapeeq "points" [4, 3])))]

def G_faceEdges : List Stmt := [
    .s (.raise "FaceCreationError" (.and (.flag "edges is not None") (.cmp .ne (.len "edges") (.int 4))))]

def G_faceCoplanar : List Stmt := [
    .s (.raise "FaceCreationError" (.and (.flag "check_coplanar") (.cmp .gt (.abs (.dot (.vsub (.vvar "points[1]") (.vvar "points[0]")) (.cross (.vsub (.vvar "points[3]") (.vvar "points[0]")) (.vsub (.vvar "points[2]") (.vvar "points[0]"))))) .tol)))]

def G_faceAddEdge : List Stmt := [
    .s (.raise "FaceCreationError" (.or (.cmp .lt (.var "corner") (.int 0)) (.cmp .gt (.var "corner") (.int 3)))),
    .s (.implicit "IndexError" (.not (.and (.cmp .le (.int (-4)) (.var "corner")) (.cmp .lt (.var "corner") (.int 4)))))]

def G_faceProjectEdge : List Stmt := [
    .s (.raise "FaceCreationError" (.or (.cmp .lt (.var "corner") (.int 0)) (.cmp .gt (.var "corner") (.int 3)))),
    .s (.implicit "IndexError" (.not (.and (.cmp .le (.int (-4)) (.var "corner")) (.cmp .lt (.var "corner") (.int 4)))))]

def G_faceRemoveEdges : List Stmt := [
    .each "corner" "corners" [.raise "FaceCreationError" (.or (.cmp .lt (.var "corner") (.int 0)) (.cmp .gt (.var "corner") (.int 3))), .implicit "IndexError" (.not (.and (.cmp .le (.int (-4)) (.var "corner")) (.cmp .lt (.var "corner") (.int 4)))), .mutate "self.edges"]]

def G_pointShape : List Stmt := [
    .s (.mutate "self.position"),
    .s (.raise "PointCreationError" (.not (.shapeeq "position" [3])))]

def G_arrayShape : List Stmt := [
    .s (.mutate "self.points"),
    .s (.raise "ArrayCreationError" (.or (.cmp .ne (.len "np.shape(points)") (.int 2)) (.cmp .ne (.dim "points" 1) (.int 3)))),
    .s (.raise "ArrayCreationError" (.cmp .le (.dim "points" 0) (.int 1)))]

def G_sideVertices : List Stmt := [
    .s (.raise "SideCreationError" (.cmp .ne (.len "vertices") (.int 8)))]

def G_opAddSideEdge : List Stmt := [
    .s (.raise "EdgeCreationError" (.or (.cmp .lt (.var "corner_idx") (.int 0)) (.cmp .gt (.var "corner_idx") (.int 3)))),
    .s (.implicit "IndexError" (.not (.and (.cmp .le (.int (-4)) (.var "corner_idx")) (.cmp .lt (.var "corner_idx") (.int 4)))))]

def G_opProjectCorner : List Stmt := [
    .s (.raise "ValueError" (.or (.cmp .lt (.var "corner") (.int 0)) (.cmp .gt (.var "corner") (.int 7))))]

def G_opProjectEdge : List Stmt := [
    .s (.raise "ValueError" (.not (.and (.and (.cmp .le (.int 0) (.var "corner_1")) (.cmp .lt (.var "corner_1") (.int 8))) (.and (.cmp .le (.int 0) (.var "corner_2")) (.cmp .lt (.var "corner_2") (.int 8))))))]

def G_opUnchop : List Stmt := [
    .s (.raise "KeyError" (.not (.iin (.var "axis") [0, 1, 2])))]

def G_opChop : List Stmt := [
    .s (.implicit "KeyError" (.not (.iin (.var "axis") [0, 1, 2])))]

def G_opSide : List Stmt := [
    .s (.ret (.seq "side" "bottom")),
    .s (.ret (.seq "side" "top")),
    .s (.raise "RuntimeError" (.not (.sin "side" ["front", "right", "back", "left"])))]

def G_fromSeries : List Stmt := [
    .s (.raise "ValueError" (.cmp .lt (.len "faces") (.int 2)))]

def G_blockAddEdge : List Stmt := [
    .s (.raise "ValueError" (.not (.and (.and (.cmp .le (.int 0) (.var "corner_1")) (.cmp .lt (.var "corner_1") (.int 8))) (.and (.cmp .le (.int 0) (.var "corner_2")) (.cmp .lt (.var "corner_2") (.int 8))))))]

def G_frameAddBeam : List Stmt := [
    .s (.raise "ValueError" (.not (.pairin (.var "corner_1") (.var "corner_2") [(0, 1), (2, 3), (6, 7), (4, 5), (0, 3), (1, 2), (5, 6), (4, 7), (0, 4), (1, 5), (2, 6), (3, 7)])))]

def G_projectLabels : List Stmt := [
    .s (.mutate "self.label"),
    .s (.raise "EdgeCreationError" (.not (.and (.cmp .lt (.int 0) (.len "label")) (.cmp .lt (.len "label") (.int 3)))))]

def G_projectAddLabel : List Stmt := [
    .s (.mutate "self.label"),
    .s (.mutate "self.label"),
    .s (.raise "EdgeCreationError" (.not (.and (.cmp .lt (.int 0) (.len "self.label")) (.cmp .lt (.len "self.label") (.int 3)))))]

def G_lengthRatio : List Stmt := [
    .s (.raise "ValueError" (.not (.and (.cmp .lt (.int 0) (.var "chop.length_ratio")) (.cmp .le (.var "chop.length_ratio") (.int 1)))))]

def G_annulus : List Stmt := [
    .s (.raise "AnnulusCreationError" (.cmp .lt (.var "inner_radius") (.int 0))),
    .s (.mutate "self.core"),
    .s (.mutate "self.shell"),
    .s (.raise "AnnulusCreationError" (.cmp .lt (.sub (.var "self.outer_radius") (.var "self.inner_radius")) .tol)),
    .s (.raise "AnnulusCreationError" (.cmp .gt (.abs (.dot (.unit (.vvar "normal")) (.vsub (.vvar "outer_radius_point") (.vvar "center_point")))) .tol))]

def G_cylinder : List Stmt := [
    .s (.raise "CylinderCreationError" (.cmp .gt (.abs (.dot (.vsub (.vvar "axis_point_2") (.vvar "axis_point_1")) (.vsub (.vvar "radius_point_1") (.vvar "axis_point_1")))) .tol))]

def G_frustum : List Stmt := [
    .s (.raise "FrustumCreationError" (.cmp .gt (.abs (.dot (.vsub (.vvar "axis_point_2") (.vvar "axis_point_1")) (.vsub (.vvar "radius_point_1") (.vvar "axis_point_1")))) .tol))]

def G_chainCylinder : List Stmt := [
    .s (.raise "CylinderCreationError" (.cmp .lt (.var "length") (.int 0)))]

def G_chainFrustum : List Stmt := [
    .s (.raise "FrustumCreationError" (.cmp .lt (.var "length") (.int 0)))]

def G_chainRing : List Stmt := [
    .s (.raise "ExtrudedRingCreationError" (.cmp .lt (.var "length") (.int 0)))]

def G_ringContract : List Stmt := [
    .s (.raise "ExtrudedRingCreationError" (.cmp .le (.var "inner_radius") (.int 0))),
    .s (.raise "ExtrudedRingCreationError" (.cmp .lt (.sub (.var "source.sketch_1.inner_radius") (.var "inner_radius")) .tol))]

def G_cylinderFill : List Stmt := [
    .s (.raise "CylinderCreationError" (.cmp .ne (.var "source.sketch_1.n_segments") (.int 8)))]

def G_loftedShape : List Stmt := [
    .s (.raise "ShapeCreationError" (.cmp .ne (.var "len(sketch_1.faces)") (.var "len(sketch_2.faces)"))),
    .s (.raise "ShapeCreationError" (.and (.not (.not (.flag "sketch_mid is not None"))) (.flag "some mid sketch differs")))]

def G_stackSlice : List Stmt := [
    .s (.raise "ValueError" (.not (.iin (.var "axis") [0, 1, 2]))),
    .s (.raise "ValueError" (.or (.cmp .lt (.var "index") (.int 0)) (.cmp .ge (.var "index") (.var "number of slices along axis"))))]

def G_curveParam : List Stmt := [
    .s (.raise "ValueError" (.not (.and (.cmp .le (.var "self.bounds[0]") (.var "param")) (.cmp .le (.var "param") (.var "self.bounds[1]")))))]

def G_polylineShape : List Stmt := [
    .s (.raise "ValueError" (.or (.cmp .ne (.len "np.shape(points)") (.int 2)) (.cmp .ne (.dim "points" 1) (.int 3)))),
    .s (.raise "ValueError" (.cmp .lt (.dim "points" 0) (.int 2)))]

def G_polarCartesian : List Stmt := [
    .s (.raise "ValueError" (.not (.iin (.var "direction") [-1, 1]))),
    .s (.raise "ValueError" (.not (.sin "axis" ["x", "z"])))]

def G_polarPolar : List Stmt := [
    .s (.raise "ValueError" (.not (.sin "axis" ["x", "z"])))]

def G_rotationLink : List Stmt := [
    .s (.mutate "self.origin"),
    .s (.mutate "self.axis"),
    .s (.mutate "self.orig_leader_radius"),
    .s (.mutate "self.orig_follower_pos"),
    .s (.raise "ValueError" (.cmp .lt (.norm (.vvar "leader radius vector")) .tol))]

def G_elbowChain : List Stmt := [
    .s (.raise "ElbowCreationError" (.not (.flag "isinstance(source.sketch_1, Disk)")))]

def G_arcTheta : List Stmt := [
    .s (.raise "ValueError" (.not (.and (.cmp .lt (.int 0) (.abs (.var "angle"))) (.cmp .lt (.abs (.var "angle")) (.var "np.pi * 2")))))]

def G_edgeVertices : List Stmt := [
    .s (.raise "EdgeCreationError" (.not (.and (.flag "isinstance(self.vertex_1, Vertex)") (.flag "isinstance(self.vertex_2, Vertex)"))))]

def G_meshGrade : List Stmt := [
    .s (.raise "RuntimeError" (.not (.flag "self.is_assembled")))]

def G_meshBackport : List Stmt := [
    .s (.raise "RuntimeError" (.not (.flag "self.is_assembled")))]

def G_junctionAddClamp : List Stmt := [
    .s (.raise "ClampExistsError" (.flag "self.clamp is not None"))]

def G_gridAddLink : List Stmt := [
    .s (.raise "InvalidLinkError" (.cmp .eq (.var "leader_index") (.int (-1)))),
    .s (.raise "InvalidLinkError" (.cmp .eq (.var "follower_index") (.int (-1)))),
    .s (.raise "InvalidLinkError" (.cmp .eq (.var "leader_index") (.var "follower_index")))]

def modelGuardTable : List (String × List Stmt) := [
  ("faceShape", G_faceShape),
  ("faceEdges", G_faceEdges),
  ("faceCoplanar", G_faceCoplanar),
  ("faceAddEdge", G_faceAddEdge),
  ("faceProjectEdge", G_faceProjectEdge),
  ("faceRemoveEdges", G_faceRemoveEdges),
  ("pointShape", G_pointShape),
  ("arrayShape", G_arrayShape),
  ("sideVertices", G_sideVertices),
  ("opAddSideEdge", G_opAddSideEdge),
  ("opProjectCorner", G_opProjectCorner),
  ("opProjectEdge", G_opProjectEdge),
  ("opUnchop", G_opUnchop),
  ("opChop", G_opChop),
  ("opSide", G_opSide),
  ("fromSeries", G_fromSeries),
  ("blockAddEdge", G_blockAddEdge),
  ("frameAddBeam", G_frameAddBeam),
  ("projectLabels", G_projectLabels),
  ("projectAddLabel", G_projectAddLabel),
  ("lengthRatio", G_lengthRatio),
  ("annulus", G_annulus),
  ("cylinder", G_cylinder),
  ("frustum", G_frustum),
  ("chainCylinder", G_chainCylinder),
  ("chainFrustum", G_chainFrustum),
  ("chainRing", G_chainRing),
  ("ringContract", G_ringContract),
  ("cylinderFill", G_cylinderFill),
  ("loftedShape", G_loftedShape),
  ("stackSlice", G_stackSlice),
  ("curveParam", G_curveParam),
  ("polylineShape", G_polylineShape),
  ("polarCartesian", G_polarCartesian),
  ("polarPolar", G_polarPolar),
  ("rotationLink", G_rotationLink),
  ("elbowChain", G_elbowChain),
  ("arcTheta", G_arcTheta),
  ("edgeVertices", G_edgeVertices),
  ("meshGrade", G_meshGrade),
  ("meshBackport", G_meshBackport),
  ("junctionAddClamp", G_junctionAddClamp),
  ("gridAddLink", G_gridAddLink)]

def modelGuards (entry : String) : List Stmt := (modelGuardTable.lookup entry).getD []

/-- the guards of an entry point as the translator found them in the source (empty when the rows do not decode) -/
def genGuards (entry : String) : List Stmt := ((CBV.Gen.c20Guards.lookup entry).bind decode).getD []

/-- the translator could not read this entry point of the current source (marker row of `cbv/tables/c20.py`) -/
def untranslatable (entry : String) : Bool :=
  CBV.Gen.c20Guards.lookup entry == some [("untranslatable", 0, "")]

/-- `np.shape` of the nested list the harness builds for the sizes `dims`: nothing is known below an empty level -/
def pyShape : List Nat → List Nat
  | [] => []
  | 0 :: _ => [0]
  | d :: r => d :: pyShape r

/-- the entry point(s) of the source a call of the catalogue goes through (`opChop` has an implicit guard only: the look-up in the dict of chops) -/
def entryOf : Call → Option String
  | .faceShape _ _ => some "faceShape"
  | .faceEdges _ => some "faceEdges"
  | .faceCoplanar _ _ _ _ => some "faceCoplanar"
  | .faceAddEdge _ => some "faceAddEdge"
  | .faceProjectEdge _ => some "faceProjectEdge"
  | .faceRemoveEdges _ => some "faceRemoveEdges"
  | .pointShape _ => some "pointShape"
  | .arrayShape _ _ => some "arrayShape"
  | .sideVertices _ => some "sideVertices"
  | .opAddSideEdge _ => some "opAddSideEdge"
  | .opProjectCorner _ => some "opProjectCorner"
  | .opProjectEdge _ _ => some "opProjectEdge"
  | .opChop _ => some "opChop"
  | .opUnchop _ => some "opUnchop"
  | .opSide _ => some "opSide"
  | .fromSeries _ => some "fromSeries"
  | .blockAddEdge _ _ => some "blockAddEdge"
  | .frameAddBeam _ _ => some "frameAddBeam"
  | .projectLabels _ => some "projectLabels"
  | .projectAddLabel _ _ => some "projectAddLabel"
  | .lengthRatio _ => some "lengthRatio"
  | .annulus _ _ _ _ _ => some "annulus"
  | .cylinder _ _ _ => some "cylinder"
  | .frustum _ _ _ => some "frustum"
  | .chain 0 _ => some "chainCylinder"
  | .chain 1 _ => some "chainFrustum"
  | .chain _ _ => some "chainRing"
  | .ringContract _ _ => some "ringContract"
  | .cylinderFill _ => some "cylinderFill"
  | .loftedShape _ _ _ => some "loftedShape"
  | .stackSlice _ _ _ _ _ => some "stackSlice"
  | .curveParam _ _ _ => some "curveParam"
  | .polylineShape _ => some "polylineShape"
  | .polarArgs _ _ => some "polarCartesian"
  | .rotationLink _ _ _ => some "rotationLink"
  | .elbowChain _ => some "elbowChain"
  | .arcTheta _ _ => some "arcTheta"
  | .edgeVertices _ _ => some "edgeVertices"

def nm (name : String) (x : Rat) : String → Rat := fun n => if n == name then x else 0
def nm2 (n1 : String) (x1 : Rat) (n2 : String) (x2 : Rat) : String → Rat :=
  fun n => if n == n1 then x1 else if n == n2 then x2 else 0

/-- `point - origin - dot(point - origin, â) â` with `â = axis / |axis|` (`RotationLink._get_radius`) -/
def radiusVector (rt : Rat → Rat) (leader origin axis : V3) : V3 :=
  let ah := V3.smul (1 / rt (V3.norm2 axis)) axis
  (leader - origin) - V3.smul (V3.dot (leader - origin) ah) ah

/-- the values of the names that occur in the guards of the entry point of a call, under the python names -/
def envOf (tol : Rat) (rt : Rat → Rat) : Call → Env
  | .faceShape n m => { tol, rt, shape := fun _ => if n == 0 then [0] else [n, m] }
  | .faceEdges k => { tol, rt, flag := fun _ => true, len := fun _ => k }
  | .faceCoplanar p0 p1 p2 p3 =>
      { tol, rt, flag := fun _ => true,
        vec := fun n => if n == "points[0]" then p0 else if n == "points[1]" then p1
                        else if n == "points[2]" then p2 else p3 }
  | .faceAddEdge c => { tol, rt, rat := nm "corner" c }
  | .faceProjectEdge c => { tol, rt, rat := nm "corner" c }
  | .faceRemoveEdges cs => { tol, rt, ints := fun _ => cs }
  | .pointShape dims => { tol, rt, shape := fun _ => dims }
  | .arrayShape n m =>
      { tol, rt, shape := fun _ => if n == 0 then [0] else [n, m], len := fun _ => if n == 0 then 1 else 2 }
  | .sideVertices k => { tol, rt, len := fun _ => k }
  | .opAddSideEdge c => { tol, rt, rat := nm "corner_idx" c }
  | .opProjectCorner c => { tol, rt, rat := nm "corner" c }
  | .opProjectEdge c1 c2 => { tol, rt, rat := nm2 "corner_1" c1 "corner_2" c2 }
  | .opChop a => { tol, rt, rat := nm "axis" a }
  | .opUnchop a => { tol, rt, rat := nm "axis" a }
  | .opSide side => { tol, rt, str := fun _ => side }
  | .fromSeries k => { tol, rt, len := fun _ => k }
  | .blockAddEdge c1 c2 => { tol, rt, rat := nm2 "corner_1" c1 "corner_2" c2 }
  | .frameAddBeam c1 c2 => { tol, rt, rat := nm2 "corner_1" c1 "corner_2" c2 }
  | .projectLabels n => { tol, rt, len := fun _ => n }
  | .projectAddLabel h new => { tol, rt, len := fun _ => (mergeLabels h new).length }
  | .lengthRatio r => { tol, rt, rat := nm "chop.length_ratio" r }
  | .annulus c p n rin _ =>
      { tol, rt,
        rat := fun nme => if nme == "inner_radius" then rin else if nme == "self.inner_radius" then rin
                          else if nme == "self.outer_radius" then rt (V3.norm2 (p - c)) else 0,
        vec := fun nme => if nme == "normal" then n else if nme == "outer_radius_point" then p else c }
  | .cylinder a1 a2 rp =>
      { tol, rt, vec := fun n => if n == "axis_point_1" then a1 else if n == "axis_point_2" then a2 else rp }
  | .frustum a1 a2 rp =>
      { tol, rt, vec := fun n => if n == "axis_point_1" then a1 else if n == "axis_point_2" then a2 else rp }
  | .chain _ len => { tol, rt, rat := nm "length" len }
  | .ringContract rnew rsrc => { tol, rt, rat := nm2 "inner_radius" rnew "source.sketch_1.inner_radius" rsrc }
  | .cylinderFill nseg => { tol, rt, rat := nm "source.sketch_1.n_segments" nseg }
  | .loftedShape n1 n2 mids =>
      { tol, rt, rat := nm2 "len(sketch_1.faces)" n1 "len(sketch_2.faces)" n2,
        flag := fun n => if n == "sketch_mid is not None" then !mids.isEmpty else mids.any (· != n1) }
  | .stackSlice axis idx n0 n1 n2 =>
      { tol, rt, rat := fun n => if n == "axis" then (axis : Rat) else if n == "index" then (idx : Rat)
                                 else ((slicesAlong axis n0 n1 n2 : Int) : Rat) }
  | .curveParam p lo hi =>
      { tol, rt, rat := fun n => if n == "param" then p else if n == "self.bounds[0]" then lo else hi }
  | .polylineShape dims => { tol, rt, shape := fun _ => pyShape dims, len := fun _ => (pyShape dims).length }
  | .polarArgs direction axis => { tol, rt, rat := nm "direction" direction, str := fun _ => axis }
  | .rotationLink leader origin axis => { tol, rt, vec := fun _ => radiusVector rt leader origin axis }
  | .elbowChain isDisk => { tol, rt, flag := fun _ => isDisk }
  | .arcTheta a twoPi => { tol, rt, rat := nm2 "angle" a "np.pi * 2" twoPi }
  | .edgeVertices v1 v2 =>
      { tol, rt, flag := fun n => if n == "isinstance(self.vertex_1, Vertex)" then v1 else v2 }

/-- a 20-digit approximation of the square root for the driver (the theorems take an exact root witness instead) -/
def rtApprox (x : Rat) : Rat :=
  if x ≤ 0 then 0
  else
    let scale : Nat := 10 ^ 40
    let n := (x * (scale : Rat)).floor.toNat
    mkRat (Nat.sqrt n) (10 ^ 20)

/-- `c20.guards <name> <rationals> <strings>`: the guards *as regenerated from the source*, evaluated on the
    arguments of the call → `accept|reject:<Class> <state changed before the decision, joined by +, or ->` -/
def handleGuards (args : List String) : Option String :=
  match args with
  | [name, rs, ss] => do
      let r ← parseRatList? rs
      let s ← parseList? ss
      let c ← callOf name r s
      let e ← entryOf c
      if untranslatable e then return "untranslatable -"
      let t ← CBV.Gen.c20Guards.lookup e
      let g ← decode t
      if wf c then
        let res := traceStmts (envOf tolGen rtApprox c) g []
        some (res.1.toStr ++ " " ++ (if res.2.isEmpty then "-" else "+".intercalate res.2))
      else none
  | _ => none

def showOuts (os : List Out) : String := ",".intercalate (os.map Out.toStr)

def parseGridOp? (s : String) : Option GridOp :=
  match s.splitOn ":" with
  | ["clamp", p] => do some (.clamp (← parseV3? p))
  | ["link", l, f] => do some (.link (← parseV3? l) (← parseV3? f))
  | ["auto"] => some .auto
  | _ => none

def handleGrid (args : List String) : Option String :=
  match args with
  | [pts, ops, interior] => do
      let pts ← (pts.splitOn ";").mapM parseV3?
      let ops ← (ops.splitOn ";").mapM parseGridOp?
      let interior ← parseNatList? interior
      some (showOuts (gridRun tolGen pts interior ops []))
  | _ => none

def parseMeshOp? : String → Option MeshOp
  | "add" => some .add
  | "assemble" => some .assemble
  | "clear" => some .clear
  | "grade" => some .grade
  | "backport" => some .backport
  | _ => none

def handleMesh (args : List String) : Option String :=
  match args with
  | [ops] => do
      let ops ← (ops.splitOn ";").mapM parseMeshOp?
      some (showOuts (meshRun {} ops))
  | _ => none

def parseProjOp? (s : String) : Option ProjOp :=
  match s.splitOn ":" with
  | ["pedge", a, b, ls] => do some (.pedge (← a.toInt?) (← b.toInt?) (← parseNatList? ls))
  | ["pside", side, l, e] => do some (.pside side (← l.toNat?) (e == "1"))
  | ["fpedge", t, c, ls] => do some (.fpedge (t == "1") (← c.toInt?) (← parseNatList? ls))
  | ["fproj", t, l, e] => do some (.fproj (t == "1") (← l.toNat?) (e == "1"))
  | _ => none

def showPState (st : PState) : String :=
  "|".intercalate (st.map (fun ls => ".".intercalate (ls.map toString)))

def handleProj (args : List String) : Option String :=
  match args with
  | [ops] => do
      let ops ← (ops.splitOn ";").mapM parseProjOp?
      some (";".intercalate ((projRun emptyP ops).map (fun r => r.1.toStr ++ "@" ++ showPState r.2)))
  | _ => none

def handle (op : String) (args : List String) : Option String :=
  match op with
  | "c20.call" => handleCall args
  | "c20.guards" => handleGuards args
  | "c20.grid" => handleGrid args
  | "c20.mesh" => handleMesh args
  | "c20.proj" => handleProj args
  | _ => none

end CBV.C20
