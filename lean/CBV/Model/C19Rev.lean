/-
C19 (round 6e) — `RevolvedStack`: the transformation of one tier is `tr.Rotation(axis, angle / repeats, origin)`, i.e.
`f.rotate` = Rodrigues' formula (`CBV.C11.rotAbout`, generic over the scalar type) with `(cs, sn) = (cos, sin)(angle / repeats)`
as witnesses and `u = axis / |axis|`; the stack is the generic `tstack` loop on the faces given by their points.
Core Lean only.
-/
import CBV.Model.C19Geo
import CBV.Model.C11Geo

namespace CBV.C19
open CBV.C11 (P3 rotAbout)

section
variable {K : Type} [Add K] [Sub K] [Mul K] [Div K] [Neg K] [OfNat K 0] [OfNat K 1]

/-- `Rotation(axis, angle, origin)` applied to the points of a face -/
def rotateFace (cs sn : K) (u o : P3 K) (pts : List (P3 K)) : List (P3 K) := pts.map (rotAbout cs sn u o)

/-- `RevolvedStack(base, angle, axis, origin, repeats)` on any sketch (`base.grid` with every face given by its points) -/
def revolvedStack (cs sn : K) (u o : P3 K) (repeats : Nat) (base : List (List (List (P3 K)))) :
    Option (List (List (List (List (P3 K) × List (P3 K))))) :=
  tstack (rotateFace cs sn u o) repeats base

/-- `(cos, sin)` of `k` steps, by the addition formulas from the witnesses of one step -/
def stepAngle (cs sn : K) : Nat → K × K
  | 0 => (1, 0)
  | k + 1 => ((stepAngle cs sn k).1 * cs - (stepAngle cs sn k).2 * sn, (stepAngle cs sn k).2 * cs + (stepAngle cs sn k).1 * sn)

end

end CBV.C19
