/-
C19 — executable model of the nested-list addressing of sketches, shapes and stacks:
`Grid.__init__` (construct/flat/sketches/grid.py), `LoftedShape.__init__/operations/grid`
(construct/shape.py), `TransformedStack.__init__`, `Stack.grid/operations/get_slice` (construct/stack.py),
`RoundSolidShape.core/shell` (construct/shapes/round.py) on the sketch tables generated from the source.

A face of a cartesian grid is named by the lattice cell it covers: `(ix, iy, level)`; the face
`Grid` creates in its inner loop for `(ix, iy)` has the corner nodes (ix,iy) (ix+1,iy) (ix+1,iy+1) (ix,iy+1),
`linspace` being strictly monotone this is "column ix, row iy".  A loft is (bottom face, top face).
Core Lean only.
-/
import CBV.Model.Common
import CBV.Gen.Tables
import CBV.Gen.TC19

namespace CBV.C19

/-- a face of a cartesian sketch: lattice cell (column, row) on a level of the stack -/
structure Face3 where
  ix : Nat
  iy : Nat
  level : Nat
  deriving DecidableEq, Repr

/-- a loft: the faces it was made from -/
structure Loft where
  bottom : Face3
  top : Face3
  deriving DecidableEq, Repr

/-- the four lattice nodes of the face `Grid.__init__` builds for `(ix, iy)`, in its point order -/
def Face3.nodes (f : Face3) : List (Nat × Nat) :=
  [(f.ix, f.iy), (f.ix + 1, f.iy), (f.ix + 1, f.iy + 1), (f.ix, f.iy + 1)]

/-- `for x in xs: out.append(f(x))` -/
def appendLoop {α β : Type} (f : α → β) (xs : List α) (init : List β) : List β :=
  xs.foldl (fun acc x => acc ++ [f x]) init

/-- `Grid.__init__`: `for iy in range(count_2): grid.append([]); for ix in range(count_1): grid[-1].append(Face)` -/
def gridSketch (nx ny level : Nat) : List (List Face3) :=
  appendLoop (fun iy => appendLoop (fun ix => (⟨ix, iy, level⟩ : Face3)) (List.range nx) []) (List.range ny) []

/-- the inner loop of `LoftedShape.__init__`: `face_2 = sketch_2.grid[i][j]`; `none` = IndexError -/
def loftRow {α : Type} (row2 : List α) : Nat → List α → Option (List (α × α))
  | _, [] => some []
  | j, f1 :: rest =>
    match row2[j]? with
    | some f2 => (loftRow row2 (j + 1) rest).map ((f1, f2) :: ·)
    | none => none

/-- the outer loop of `LoftedShape.__init__` -/
def loftRows {α : Type} (g2 : List (List α)) : Nat → List (List α) → Option (List (List (α × α)))
  | _, [] => some []
  | i, row1 :: rest =>
    match g2[i]? with
    | some row2 =>
      match loftRow row2 0 row1 with
      | some r => (loftRows g2 (i + 1) rest).map (r :: ·)
      | none => none
    | none => none

/-- `LoftedShape(sketch_1, sketch_2).lofts` (= `.grid`) -/
def loftedGrid {α : Type} (g1 g2 : List (List α)) : Option (List (List (α × α))) := loftRows g2 0 g1

/-- `LoftedShape.operations` = `flatten_2d_list(self.lofts)` -/
def operations {β : Type} (lofts : List (List β)) : List β := lofts.flatten

/-- the transformed copy of a cartesian sketch: the same cells one level up -/
def lift (s : List (List Face3)) : List (List Face3) := s.map (·.map (fun f => { f with level := f.level + 1 }))

def mkLofts (g : List (List (Face3 × Face3))) : List (List Loft) := g.map (·.map (fun p => ⟨p.1, p.2⟩))

/-- the loop of `TransformedStack.__init__` (`repeats` turns): shapes are appended, the end sketch of one tier
    is the start sketch of the next -/
def stackLoop : Nat → List (List Face3) → List (List (List Loft)) → Option (List (List (List Loft)))
  | 0, _, shapes => some shapes
  | n + 1, s1, shapes =>
    match loftedGrid s1 (lift s1) with
    | some g => stackLoop n (lift s1) (shapes ++ [mkLofts g])
    | none => none

/-- `Stack.grid` of `ExtrudedStack/RevolvedStack/TransformedStack(Grid(p1, p2, nx, ny), …, nz)` -/
def stackGrid (nx ny nz : Nat) : Option (List (List (List Loft))) := stackLoop nz (gridSketch nx ny 0) []

/-- `Stack.operations` -/
def stackOps {β : Type} (shapes : List (List (List β))) : List β := (shapes.map operations).flatten

def allSome {α : Type} : List (Option α) → Option (List α)
  | [] => some []
  | none :: _ => none
  | some x :: rest => (allSome rest).map (x :: ·)

/-- `Stack.get_slice(axis, index)` for a non-negative index; `none` = IndexError.
    As in the code, any axis other than 2 and 0 takes the last branch. -/
def getSlice {β : Type} (shapes : List (List (List β))) (axis idx : Nat) : Option (List β) :=
  if axis = 2 then (shapes[idx]?).map operations
  else if axis = 0 then
    (allSome (shapes.map (fun g => allSome (g.map (fun row => row[idx]?))))).map List.flatten
  else
    (allSome (shapes.map (fun g => g[idx]?))).map List.flatten

/-- the guard of `get_slice` (after repair 2f93ac1): `grid = self.shapes[0].grid`,
    `n_slices = (len(grid[0]), len(grid), len(self.shapes))[axis]`; `none` = IndexError (no shape / no row to measure) -/
def nSlices {β : Type} (shapes : List (List (List β))) (axis : Nat) : Option Nat :=
  match shapes.head? with
  | none => none
  | some g =>
    match g.head? with
    | none => none
    | some row => some (if axis = 0 then row.length else if axis = 1 then g.length else shapes.length)

/-- `get_slice(axis, index)` with its guard `index >= n_slices → ValueError`, as the name of what happens -/
def getSliceGuarded {β : Type} (shapes : List (List (List β))) (axis idx : Nat) : Except String (List β) :=
  match nSlices shapes axis with
  | none => .error "IndexError"
  | some n =>
    if idx ≥ n then .error "ValueError"
    else
      match getSlice shapes axis idx with
      | some l => .ok l
      | none => .error "IndexError"

/-! ### round sketches and shapes (tables generated from the source) -/

abbrev SketchRow := String × List (List Nat) × List (List Nat) × List Nat × List Nat × List Nat
abbrev ShapeRow := String × String × List (List Nat) × List Nat × List Nat × List Nat × List Nat

def sketchRow? (name : String) : Option SketchRow := CBV.Gen.c19Sketches.find? (fun r => r.1 == name)
def shapeRow? (name : String) : Option ShapeRow := CBV.Gen.c19Shapes.find? (fun r => r.1 == name)

/-- `RoundSolidShape.core / .shell` on a sketch: operations are the flattened grid,
    `core = operations[:len(sketch.core)]`, `shell = operations[len(sketch.core):]` (as sketch face indices) -/
def coreShell (r : SketchRow) : List Nat × List Nat :=
  let ops := operations r.2.2.1
  (ops.take r.2.2.2.1.length, ops.drop r.2.2.2.1.length)

/-- does cell `k` have a point on the rim? -/
def touches (cells : List (List Nat)) (rim : List Nat) (k : Nat) : Bool :=
  (cells.getD k []).any (rim.contains ·)

def isPerm (xs : List Nat) (n : Nat) : Bool :=
  xs.length == n && (List.range n).all (xs.contains ·)

/-! ### the annulus for every number of segments -/

/-- `Annulus(…, n_segments = n)`: one face, rotated n times; with inner point i named 2i and outer point i named 2i+1
    face i is (inner i, outer i, outer i+1, inner i+1), indices mod n -/
def annulusCells (n : Nat) : List (List Nat) :=
  (List.range n).map (fun i => [2 * i, 2 * i + 1, 2 * ((i + 1) % n) + 1, 2 * ((i + 1) % n)])

/-- the points on the outer circle -/
def annulusRim (n : Nat) : List Nat := (List.range n).map (fun i => 2 * i + 1)

/-- numbers points by first appearance while walking the cells (what `cbv/tables/c19.py` does with the real points) -/
def canonStep (acc : List Nat × List (List Nat)) (cell : List Nat) : List Nat × List (List Nat) :=
  let r := cell.foldl (fun (a : List Nat × List Nat) p =>
    if a.1.contains p then (a.1, a.2 ++ [a.1.idxOf p]) else (a.1 ++ [p], a.2 ++ [a.1.length])) (acc.1, [])
  (r.1, acc.2 ++ [r.2])

def canon (cells : List (List Nat)) : List Nat × List (List Nat) := cells.foldl canonStep ([], [])

def canonCells (cells : List (List Nat)) : List (List Nat) := (canon cells).2

/-- the ids of given points under that numbering, ascending -/
def canonPoints (cells : List (List Nat)) (pts : List Nat) : List Nat :=
  (List.range (canon cells).1.length).filter (fun i => pts.contains ((canon cells).1.getD i 0))

/-! ### line protocol -/

def showFace (f : Face3) : String := s!"{f.ix}.{f.iy}.{f.level}"
def showLoft (l : Loft) : String := showFace l.bottom ++ "~" ++ showFace l.top
def showList (xs : List String) : String := "[" ++ ",".intercalate xs ++ "]"
def showNats (xs : List Nat) : String := showList (xs.map toString)
def showNatss (xs : List (List Nat)) : String := showList (xs.map showNats)

def handleBase (op : String) (args : List String) : Option String :=
  match op, args with
  | "c19.grid", [nx, ny, nz] => do
      let nx ← nx.toNat?; let ny ← ny.toNat?; let nz ← nz.toNat?
      match stackGrid nx ny nz with
      | some g => some (showList (g.map (fun sh => showList (sh.map (fun row => showList (row.map showLoft))))))
      | none => some "IndexError"
  | "c19.ops", [nx, ny, nz] => do
      let nx ← nx.toNat?; let ny ← ny.toNat?; let nz ← nz.toNat?
      match stackGrid nx ny nz with
      | some g => some (showList ((stackOps g).map showLoft))
      | none => some "IndexError"
  | "c19.slice", [nx, ny, nz, axis, idx] => do
      let nx ← nx.toNat?; let ny ← ny.toNat?; let nz ← nz.toNat?; let axis ← axis.toNat?; let idx ← idx.toNat?
      -- axes outside 0..2 are C20's business (one-sided guard): no answer
      if axis > 2 then none
      let g ← stackGrid nx ny nz
      match getSliceGuarded g axis idx with
      | .ok l => some (showList (l.map showLoft))
      | .error e => some e
  | "c19.delete", [nx, ny, nz, i, j, k] => do
      -- `mesh.delete(stack.grid[k][j][i])`: the operations that are left (the blocks of the assembled mesh, see C12)
      let nx ← nx.toNat?; let ny ← ny.toNat?; let nz ← nz.toNat?; let i ← i.toNat?; let j ← j.toNat?; let k ← k.toNat?
      let g ← stackGrid nx ny nz
      match ((g[k]?).bind (·[j]?)).bind (·[i]?) with
      | some c => some (showList (((stackOps g).filter (fun o => decide (o ≠ c))).map showLoft))
      | none => some "IndexError"
  | "c19.sketch", [name] => do
      let r ← sketchRow? name
      let cs := coreShell r
      some s!"cells={showNatss r.2.1} grid={showNatss r.2.2.1} core={showNats r.2.2.2.1} shell={showNats r.2.2.2.2.1} shapecore={showNats cs.1} shapeshell={showNats cs.2}"
  | "c19.annulus", [n] => do
      let n ← n.toNat?
      if n = 0 then none
      let all := List.range n
      some s!"cells={showNatss (canonCells (annulusCells n))} grid={showNatss [all]} core=[] shell={showNats all} rim={showNats (canonPoints (annulusCells n) (annulusRim n))}"
  | "c19.shape", [name] => do
      let r ← shapeRow? name
      some s!"cells={showNatss r.2.2.1} opface={showNats r.2.2.2.1} core={showNats r.2.2.2.2.1} shell={showNats r.2.2.2.2.2.1}"
  | _, _ => none

end CBV.C19
