/-
C08 — model of the alternative arc specifications (mechanism (c) of DESIGN.md):

* `functions.divide_arc(count=1)` / `arc_mid`                         → `arcMid`
* `items/edges/arcs/origin.py  arc_from_origin` (with centre adjustment) → `originArc`
* `items/edges/arcs/angle.py   arc_from_theta` (as repaired)          → `thetaCentre`, `thetaMid`
* `functions.arc_length_3point`                                       → `arc3Centre`, `arc3Exterior`, `arc3`
* `functions.polyline_length`                                         → `polyLen`

The formulas are written once, generically over a type `K` that only needs the arithmetic
operations (core Lean classes, no Mathlib), so that the theorems of `CBV.Props.C08` hold over every
linearly ordered field (ℝ included) and the driver executes the very same definitions over `Rat`.
Every `sqrt` of the code is an argument here (a *witness* `w` for `sqrt x`, i.e. `0 ≤ w`, `w*w = x`);
the driver receives float witnesses from the harness and checks them with an explicit tolerance.
`1/tan(θ/2)` is written `c/s` with `(c, s) = (cos θ/2, sin θ/2)`; `acos` is an opaque `Float` step.
Core Lean only.
-/
import CBV.Model.Common
import CBV.Gen.Tables
import CBV.Gen.TC08

namespace CBV.C08

/-- three-vectors over any scalar type -/
structure Vec (K : Type) where
  x : K
  y : K
  z : K
  deriving DecidableEq, Repr

namespace Vec
variable {K : Type} [Add K] [Sub K] [Mul K]
def add (a b : Vec K) : Vec K := ⟨a.x + b.x, a.y + b.y, a.z + b.z⟩
def sub (a b : Vec K) : Vec K := ⟨a.x - b.x, a.y - b.y, a.z - b.z⟩
def smul (k : K) (a : Vec K) : Vec K := ⟨k * a.x, k * a.y, k * a.z⟩
def dot (a b : Vec K) : K := a.x * b.x + a.y * b.y + a.z * b.z
def cross (a b : Vec K) : Vec K := ⟨a.y * b.z - a.z * b.y, a.z * b.x - a.x * b.z, a.x * b.y - a.y * b.x⟩
def nsq (a : Vec K) : K := dot a a
end Vec

open Vec

section formulas
variable {K : Type} [Add K] [Sub K] [Mul K] [Div K] [Neg K] [OfNat K 0] [OfNat K 1] [OfNat K 2]

/-- `(p1 + p2) / 2` -/
def midPoint (p1 p2 : Vec K) : Vec K := ⟨(p1.x + p2.x) / 2, (p1.y + p2.y) / 2, (p1.z + p2.z) / 2⟩

/-- `vect / norm(vect)` with the norm supplied as a witness -/
def unitVec (v : Vec K) (w : K) : Vec K := ⟨v.x / w, v.y / w, v.z / w⟩

/-- `functions.arc_mid` = `divide_arc(axis, center, p1, p2, 1)[0]`:
    `center + unit_vector(secant_mid - center) * radius`; `wR` witnesses `norm(center - p1)`,
    `ws` witnesses `norm(secant_mid - center)`.  (The `axis` argument is not used by the code.) -/
def arcMid (C p1 p2 : Vec K) (wR ws : K) : Vec K :=
  add C (smul wR (unitVec (sub (midPoint p1 p2) C) ws))

/-! ### `arc_from_theta` -/

/-- `np.sign(angle)` -/
def sgn [LT K] [DecidableLT K] (θ : K) : K := if 0 < θ then 1 else if θ < 0 then -1 else 0

/-- centre of `arc_from_theta`; `a` is the (unit) axis, `(c, s) = (cos θ/2, sin θ/2)` so that
    `1/tan(θ/2) = c/s`; `wrm` witnesses `norm(cross(dp, axis))`, `wc` witnesses `norm(chord)`:
    `center = pm - length*axis/2 - rm*mag_chord/2/tan(angle/2)` -/
def thetaCentre (p1 p2 a : Vec K) (c s wrm wc : K) : Vec K :=
  let dp := sub p2 p1
  let pm := midPoint p1 p2
  let rm := unitVec (cross dp a) wrm
  let l := dot dp a
  sub (sub pm (smul (l / 2) a)) (smul (wc / 2 * (c / s)) rm)

/-- the chord of `arc_from_theta`: `dp - length*axis` -/
def thetaChord (p1 p2 a : Vec K) : Vec K :=
  let dp := sub p2 p1
  sub dp (smul (dot dp a) a)

/-- the written point of `arc_from_theta` (repaired code):
    `center + length*axis/2 + sign(angle)*radius*rm`, `wR` witnesses `norm(p1 - center)` -/
def thetaMid [LT K] [DecidableLT K] (p1 p2 a : Vec K) (θ c s wrm wc wR : K) : Vec K :=
  let dp := sub p2 p1
  let rm := unitVec (cross dp a) wrm
  let l := dot dp a
  add (add (thetaCentre p1 p2 a c s wrm wc) (smul (l / 2) a)) (smul (sgn θ * wR) rm)

/-! ### `arc_from_origin` -/

/-- the adjusted centre of `arc_from_origin`:
    `0.5*(p3+p1) + (radius**2 - 0.25*norm(chord)**2)**0.5 * unit_vector(cross(axis, chord))`
    with `axis = cross(r1, r3)`; `wh` witnesses the square root, `wac` the norm of the cross product -/
def originNewCentre (p1 p3 C : Vec K) (wh wac : K) : Vec K :=
  let chord := sub p3 p1
  let axis := cross (sub p1 C) (sub p3 C)
  add (midPoint p1 p3) (smul wh (unitVec (cross axis chord) wac))

end formulas

section arc3
variable {K : Type} [Add K] [Sub K] [Mul K] [Div K] [Neg K] [OfNat K 2]

/-- the centre computed by `arc_length_3point` -/
def arc3Denom (pS pB pE : Vec K) : K :=
  let a := sub pB pS
  let b := sub pE pS
  nsq a * nsq b - dot a b * dot a b

def arc3Centre (pS pB pE : Vec K) : Vec K :=
  let a := sub pB pS
  let b := sub pE pS
  let fact := (nsq b - dot a b) / (2 * arc3Denom pS pB pE)
  add (add pS (unitVec a 2)) (smul fact (cross (cross a b) a))

/-- the quantity whose sign decides "exterior arc" in `arc_length_3point` (and in OpenFOAM's arcEdge):
    `dot(cross(r1, r2), cross(r1, r3))` -/
def arc3SideTest (r1 r2 r3 : Vec K) : K := dot (cross r1 r2) (cross r1 r3)

end arc3

/-- `cross(arm_1, arm_2)` of `ArcEdgeBase.is_valid`: the arms from the third point to the two end vertices
    (twice the area vector of the triangle; its norm is compared with `TOL` to drop collinear "arcs") -/
def validCross {K : Type} [Sub K] [Mul K] (p1 p2 M : Vec K) : Vec K := cross (sub p1 M) (sub p2 M)

/-- `functions.polyline_length` with the segment lengths supplied as witnesses -/
def polyLen {K : Type} [Add K] [OfNat K 0] (ds : List K) : K := ds.foldr (· + ·) 0

/-! ### executable instances over `Rat`, guards, witness checks -/

abbrev V := Vec Rat
instance : Inhabited V := ⟨⟨0, 0, 0⟩⟩

def absR (q : Rat) : Rat := if q < 0 then -q else q

/-- `w` is accepted as a witness of `sqrt x`: non-negative and `|w² − x| ≤ eps·(1 + x)` -/
def witOk (w x eps : Rat) : Bool := decide (0 ≤ w) && decide (absR (w * w - x) ≤ eps * (1 + x))

/-- `constants.TOL` as read from the source at this run -/
def tol : Rat := mkRat CBV.Gen.c08Tol.1 CBV.Gen.c08Tol.2

/-- `Edge.is_valid` for a non-line edge: `norm(vertex_1 - vertex_2) < TOL` → not valid (compared as squares, exactly) -/
def edgeValid (p1 p2 : V) : Bool := !(decide (nsq (sub p1 p2) < tol * tol))

/-- `ArcEdgeBase.is_valid`: a valid edge whose third point is not collinear with its ends,
    `abs(norm(cross(arm_1, arm_2))) > TOL` (compared as squares, exactly) -/
def arcValid (p1 p2 M : V) : Bool := edgeValid p1 p2 && decide (nsq (validCross p1 p2 M) > tol * tol)

/-- float image of `2*np.pi` (the bound of the guard of `arc_from_theta`) -/
def twoPiF : Rat := mkRat 884279719003555 140737488355328

/-- the guard of `arc_from_theta`: `0 < abs(angle) < 2*np.pi` -/
def thetaGuard (θ : Rat) : Bool := decide (0 < absR θ) && decide (absR θ < twoPiF)

/-! ### Float post-processing (opaque: `sqrt` as a witness oracle, `acos`) -/

/-- nearest-ish double of a rational (scaled to avoid overflow of huge numerators) -/
def ratToFloat (q : Rat) : Float :=
  Float.ofInt (q.num * (2 : Int) ^ 90 / (q.den : Int)) / Float.ofNat (2 ^ 90)

/-- exact rational value of a finite non-negative double -/
def floatToRat (f : Float) : Rat :=
  let (m, e) := f.frExp
  let n : Int := ((m * Float.ofNat (2 ^ 53)).toUInt64.toNat : Int)
  if e ≥ 53 then (n * (2 : Int) ^ (e - 53).toNat : Int) else mkRat n (2 ^ (53 - e).toNat)

/-- witness oracle: a double-precision square root, as an exact rational (always re-checked with `witOk`) -/
def sqrtQ (x : Rat) : Rat := if x ≤ 0 then 0 else floatToRat (Float.sqrt (ratToFloat x))

def piF : Float := 3.141592653589793

structure ThetaOut where
  centre : V
  mid : V

/-- `AngleEdge.third_point`: `Angle.__init__` normalises the axis, then `arc_from_theta` with its guard
    (`.error "reject"` = `ValueError`); the square roots come from the witness oracle and are checked. -/
def arcFromTheta (p1 p2 a : V) (θ c s eps : Rat) : Except String ThetaOut :=
  if !thetaGuard θ then .error "reject" else
  let wa := sqrtQ (nsq a)
  if wa = 0 then .error "badwit axis0" else
  let au := unitVec a wa
  let wrm := sqrtQ (nsq (cross (sub p2 p1) au))
  let wc := sqrtQ (nsq (thetaChord p1 p2 au))
  let C := thetaCentre p1 p2 au c s wrm wc
  let wR := sqrtQ (nsq (sub p1 C))
  if !witOk wa (nsq a) eps then .error "badwit axis"
  else if !witOk wrm (nsq (cross (sub p2 p1) au)) eps then .error "badwit rm"
  else if !witOk wc (nsq (thetaChord p1 p2 au)) eps then .error "badwit chord"
  else if !witOk wR (nsq (sub p1 C)) eps then .error "badwit radius"
  else .ok ⟨C, thetaMid p1 p2 au θ c s wrm wc wR⟩

structure OriginOut where
  adjusted : Bool
  centre : V
  mid : V

/-- the radius that the adjusted branch of `arc_from_origin` aims at:
    `0.5*(mag1+mag3)`, times the multiplier and not below `1.001*0.5*norm(chord)` when the multiplier is not 1 -/
def originRadius (mult m1 m3 wch : Rat) : Rat :=
  let radius0 := (1 / 2 : Rat) * (m1 + m3)
  if mult ≠ 1 then max (radius0 * mult) ((1001 / 1000 : Rat) * (1 / 2) * wch) else radius0

/-- `arc_from_origin(p1, p3, center, adjust_center=True, r_multiplier)`:
    `needs_adjust = abs(mag1 - mag3) > TOL`, or always when the multiplier is not 1; the adjusted call
    recurses once with `adjust_center=False`. -/
def originArc (p1 p3 C : V) (mult eps : Rat) : Except String OriginOut :=
  let chord := sub p3 p1
  let m1 := sqrtQ (nsq (sub p1 C))
  let m3 := sqrtQ (nsq (sub p3 C))
  let wch := sqrtQ (nsq chord)
  if !witOk m1 (nsq (sub p1 C)) eps then .error "badwit mag1"
  else if !witOk m3 (nsq (sub p3 C)) eps then .error "badwit mag3"
  else if !witOk wch (nsq chord) eps then .error "badwit chord"
  else
    let needs := decide (absR (m1 - m3) > tol) || decide (mult ≠ 1)
    if needs then
      let radius := originRadius mult m1 m3 wch
      let h2 := radius * radius - (1 / 4 : Rat) * (wch * wch)
      if h2 < 0 then .error "nan" else   -- python: a negative number to the power 0.5 is complex / nan
      let wh := sqrtQ h2
      let axc := cross (cross (sub p1 C) (sub p3 C)) chord
      let wac := sqrtQ (nsq axc)
      if wac = 0 then .error "nan" else
      let C' := originNewCentre p1 p3 C wh wac
      let wR := sqrtQ (nsq (sub C' p1))
      let ws := sqrtQ (nsq (sub (midPoint p1 p3) C'))
      if !witOk wh h2 eps then .error "badwit height"
      else if !witOk wac (nsq axc) eps then .error "badwit axc"
      else if !witOk wR (nsq (sub C' p1)) eps then .error "badwit radius"
      else if !witOk ws (nsq (sub (midPoint p1 p3) C')) eps then .error "badwit secant"
      else if ws = 0 then .error "nan"
      else .ok ⟨true, C', arcMid C' p1 p3 wR ws⟩
    else
      let wR := sqrtQ (nsq (sub C p1))
      let ws := sqrtQ (nsq (sub (midPoint p1 p3) C))
      if !witOk wR (nsq (sub C p1)) eps then .error "badwit radius"
      else if !witOk ws (nsq (sub (midPoint p1 p3) C)) eps then .error "badwit secant"
      else if ws = 0 then .error "nan"
      else .ok ⟨false, C, arcMid C p1 p3 wR ws⟩

/-- the bound of the denominator guard of `arc_length_3point`: the double that the literal `1e-18` denotes, exactly
    (`1298074214633707 / 2^110`, slightly above the decimal 10⁻¹⁸); `T_C08_tie_arc3` proves it equal to the regenerated value -/
def arc3Eps : Rat := mkRat 1298074214633707 1298074214633706907132624082305024

structure Arc3Out where
  centre : V
  cos : Float
  exterior : Bool
  length : Float

/-- `arc_length_3point`; `none` = `ValueError("Invalid arc points!")` (`|denom| < 1e-18`).
    Exact part: centre, radius vectors, the sign test; Float part: the two norms, `acos`, the product. -/
def arc3 (pS pB pE : V) : Option Arc3Out :=
  let denom := arc3Denom pS pB pE
  if absR denom < arc3Eps then none
  else
    let centre := arc3Centre pS pB pE
    let r1 := sub pS centre
    let r2 := sub pB centre
    let r3 := sub pE centre
    let mag1 := Float.sqrt (ratToFloat (nsq r1))
    let mag3 := Float.sqrt (ratToFloat (nsq r3))
    let cosv := ratToFloat (dot r1 r3) / (mag1 * mag3)
    let ext := decide (arc3SideTest r1 r2 r3 < 0)
    let cosv := if cosv < -1.0 then -1.0 else if cosv > 1.0 then 1.0 else cosv   -- `np.clip(…, -1.0, 1.0)`
    let ang := Float.acos cosv
    let ang := if ext then 2 * piF - ang else ang
    some ⟨centre, cosv, ext, ang * mag3⟩

/-! ### validators: exact predicates over `Rat` with an explicit tolerance -/

/-- `M` is the middle of the arc about `C` from `p1` to `p2` in the plane with normal `n`, on the side of `g`:
    on the circle, equidistant from the ends, in the plane, on the side (each within `eps`, scaled by the
    squared radius `R2`).  Returns the first failing clause. -/
def onArcMidApprox (p1 p2 C n g M : V) (eps : Rat) : Option String :=
  let R2 := nsq (sub p1 C)
  let w := sub M C
  if absR (nsq w - R2) > eps * R2 then some "circle"
  else if absR (nsq (sub M p1) - nsq (sub M p2)) > eps * R2 then some "equidistant"
  else if absR (dot w n) * absR (dot w n) > eps * eps * R2 * nsq n then some "plane"
  else if ¬ (dot w g > 0) then some "side"
  else none

/-! ### line protocol -/

def parseVec? (s : String) : Option V := (parseV3? s).map (fun v => ⟨v.x, v.y, v.z⟩)
def showVec (v : V) : String := s!"{showRat v.x},{showRat v.y},{showRat v.z}"

def parseVecs? (s : String) : Option (List V) := (s.splitOn ";").mapM parseVec?

/-- `c08.theta θ p1 p2 axis c s eps` → `ok C M` | `reject` | `badwit <which>` -/
def handleTheta (args : List String) : Option String :=
  match args with
  | [θ, p1, p2, a, c, s, eps] => do
      let θ ← parseRat? θ; let p1 ← parseVec? p1; let p2 ← parseVec? p2; let a ← parseVec? a
      let c ← parseRat? c; let s ← parseRat? s; let eps ← parseRat? eps
      if thetaGuard θ && (s = 0 || absR (c * c + s * s - 1) > eps) then some "badwit cs"
      else
        match arcFromTheta p1 p2 a θ c s eps with
        | .error e => some e
        | .ok o => some s!"ok {showVec o.centre} {showVec o.mid}"
  | _ => none

/-- `c08.origin p1 p3 C mult eps` → `ok <adjusted 0|1> C' M` | `nan` | `badwit <which>` -/
def handleOrigin (args : List String) : Option String :=
  match args with
  | [p1, p3, C, mult, eps] => do
      let p1 ← parseVec? p1; let p3 ← parseVec? p3; let C ← parseVec? C
      let mult ← parseRat? mult; let eps ← parseRat? eps
      match originArc p1 p3 C mult eps with
      | .error e => some e
      | .ok o => some s!"ok {if o.adjusted then 1 else 0} {showVec o.centre} {showVec o.mid}"
  | _ => none

/-- `c08.arc3 pS pB pE` → `ok centre <ext 0|1> <cos bits> <length bits>` | `reject` -/
def handleArc3 (args : List String) : Option String :=
  match args with
  | [pS, pB, pE] => do
      let pS ← parseVec? pS; let pB ← parseVec? pB; let pE ← parseVec? pE
      match arc3 pS pB pE with
      | none => some "reject"
      | some o => some s!"ok {showVec o.centre} {if o.exterior then 1 else 0} {o.cos.toBits} {o.length.toBits}"
  | _ => none

/-- Validator of the `acos` step of `arc_length_3point` with a witness (round 6).  `(cθ, sθ)` is a rational point claimed to be
    `(cos, sin)` of `length / radius` for the length the implementation returned.  Checked exactly, on the model's exact
    centre and radius vectors: the point is on the unit circle, `r1·r3 = |r1|²·cθ` (the included angle has that cosine), and the
    angle is above π (`sθ < 0`) exactly when the code's side test says "exterior".  These are the hypotheses under which
    `T_C08_arc3_length_real` states `length = radius × angle` over ℝ.  `none` = all clauses hold. -/
def arc3AngleCheck (pS pB pE : V) (cθ sθ eps : Rat) : Option String :=
  if absR (arc3Denom pS pB pE) < arc3Eps then some "reject"
  else
    let centre := arc3Centre pS pB pE
    let r1 := sub pS centre
    let r2 := sub pB centre
    let r3 := sub pE centre
    if absR (cθ * cθ + sθ * sθ - 1) > eps then some "unit"
    else if absR (dot r1 r3 - nsq r1 * cθ) > eps * nsq r1 then some "cosine"
    else if decide (arc3SideTest r1 r2 r3 < 0) != decide (sθ < 0) then some "side"
    else none

/-- `c08.varc3 pS pB pE cθ sθ eps` → `ok` | `fail <clause>` -/
def handleVarc3 (args : List String) : Option String :=
  match args with
  | [pS, pB, pE, c, s, eps] => do
      let pS ← parseVec? pS; let pB ← parseVec? pB; let pE ← parseVec? pE
      let c ← parseRat? c; let s ← parseRat? s; let eps ← parseRat? eps
      some (match arc3AngleCheck pS pB pE c s eps with | none => "ok" | some cl => "fail " ++ cl)
  | _ => none

/-- `c08.thetalen θ p1 p2 axis c s eps` → `ok <radius witness × |θ|>` | `reject` | `badwit <which>`:
    the length `radius × sector angle` of an Angle arc from the model's centre (`T_C08_specs_real`: the radius witness is the
    circle's radius) -/
def handleThetaLen (args : List String) : Option String :=
  match args with
  | [θ, p1, p2, a, c, s, eps] => do
      let θ ← parseRat? θ; let p1 ← parseVec? p1; let p2 ← parseVec? p2; let a ← parseVec? a
      let c ← parseRat? c; let s ← parseRat? s; let eps ← parseRat? eps
      if thetaGuard θ && (s = 0 || absR (c * c + s * s - 1) > eps) then some "badwit cs"
      else
        match arcFromTheta p1 p2 a θ c s eps with
        | .error e => some e
        | .ok o => some s!"ok {showRat (sqrtQ (nsq (sub p1 o.centre)) * absR θ)}"
  | _ => none

/-- `ArcEdgeBase.length` for the third point `M`: the three-point arc length when the edge is valid (`arcValid`), the distance of the two
    end points otherwise (a collinear "arc" is dropped and meshed as a line).  `none` = `arc_length_3point` raises `ValueError` — by
    `T_C08_valid_accepted` that cannot happen for a valid edge. -/
def arcEdgeLength (p1 p2 M : V) : Option Float :=
  if arcValid p1 p2 M then (arc3 p1 M p2).map (·.length)
  else some (Float.sqrt (ratToFloat (nsq (sub p1 p2))))

/-- `c08.elen p1 p2 M` → `ok <valid 0|1> <length bits>` | `reject` (ArcEdgeBase.length / is_valid for the third point `M`) -/
def handleElen (args : List String) : Option String :=
  match args with
  | [p1, p2, M] => do
      let p1 ← parseVec? p1; let p2 ← parseVec? p2; let M ← parseVec? M
      match arcEdgeLength p1 p2 M with
      | none => some "reject"
      | some l => some s!"ok {if arcValid p1 p2 M then 1 else 0} {l.toBits}"
  | _ => none

/-- `c08.valid p1 p2 M` → `1` | `0` (ArcEdgeBase.is_valid for the third point `M`) -/
def handleValid (args : List String) : Option String :=
  match args with
  | [p1, p2, M] => do
      let p1 ← parseVec? p1; let p2 ← parseVec? p2; let M ← parseVec? M
      some (if arcValid p1 p2 M then "1" else "0")
  | _ => none

/-- `c08.vmid p1 p2 C n g M eps` → `ok` | `fail <clause>` (validator on the implementation's point) -/
def handleVmid (args : List String) : Option String :=
  match args with
  | [p1, p2, C, n, g, M, eps] => do
      let p1 ← parseVec? p1; let p2 ← parseVec? p2; let C ← parseVec? C; let n ← parseVec? n
      let g ← parseVec? g; let M ← parseVec? M; let eps ← parseRat? eps
      some (match onArcMidApprox p1 p2 C n g M eps with | none => "ok" | some cl => "fail " ++ cl)
  | _ => none

/-- `c08.poly p0;p1;…;pn eps` → `ok <sum of the segment witnesses> <squared chord>` | `badwit i` | `reject` (fewer than 2 points) -/
def handlePoly (args : List String) : Option String :=
  match args with
  | [pts, eps] => do
      let pts ← parseVecs? pts; let eps ← parseRat? eps
      if pts.length < 2 then some "reject"
      else
        let segs := pts.zip pts.tail
        let ds := segs.map (fun (p, q) => sqrtQ (nsq (sub p q)))
        match (segs.zip ds).findIdx? (fun ((p, q), d) => !witOk d (nsq (sub p q)) eps) with
        | some i => some s!"badwit {i}"
        | none =>
            let first := pts.head!
            let last := pts.getLast!
            some s!"ok {showRat (polyLen ds)} {showRat (nsq (sub first last))}"
  | _ => none

def handle (op : String) (args : List String) : Option String :=
  match op with
  | "c08.theta" => handleTheta args
  | "c08.origin" => handleOrigin args
  | "c08.arc3" => handleArc3 args
  | "c08.varc3" => handleVarc3 args
  | "c08.thetalen" => handleThetaLen args
  | "c08.vmid" => handleVmid args
  | "c08.valid" => handleValid args
  | "c08.elen" => handleElen args
  | "c08.poly" => handlePoly args
  | _ => none

end CBV.C08
