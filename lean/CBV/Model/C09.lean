/-
C09 — executable model of the transformation machinery of classy_blocks (after the repairs):

* the point primitives of `util/functions.py` / `construct/point.py` / `construct/array.py`
  (`translate`, `rotate` about an axis through an origin, `scale`, `mirror`) over exact rationals;
  a rotation is parametrised by an unnormalised quaternion `(w, a)`: angle `θ = 2·atan2(|a|, w)` about `a`;
  a mirror is the Householder map of a (non-unit) normal;
* the *object graph* of an entity: a tree of parts (`ElementBase.parts`) whose leaves are references
  (cell numbers) into a heap — one cell per `Point` / `AxisVector`, one per row of an `Array`.  Python
  transforms in place, so a leaf that is reachable twice is moved twice; the heap model reproduces that;
* the recursive delegation `ElementBase.translate/rotate/scale/mirror`, the overrides
  (`AxisVector`: a free axial vector; `Operation.mirror`: mirror the parts, then `invert()`, which swaps the faces
  and `reverse()`s the side-edge data; `Point`/`Array` methods: default origin 0), `ElementBase.transform`
  (a transformation list: origin resolved against the *current* centre, parts transformed directly, own overrides
  bypassed), the `center` rules, and `copy` (a deep copy with memo: fresh cells, aliasing preserved).
Core Lean only.
-/
import CBV.Model.Common
import CBV.Gen.Tables

namespace CBV.C09
open CBV

/-! ### point primitives -/

/-- linear part of the rotation by `θ = 2·atan2(|a|, w)` about `a`: `v + 2(w a×v + a×(a×v))/(w²+|a|²)` -/
def rotLin (w : Rat) (a v : V3) : V3 :=
  let c1 := V3.cross a v
  let c2 := V3.cross a c1
  v + V3.smul (2 / (w * w + V3.dot a a)) (V3.smul w c1 + c2)

/-- `functions.rotate(point, angle, axis, origin)` -/
def rotP (w : Rat) (a o p : V3) : V3 := rotLin w a (p - o) + o

/-- `functions.scale(point, ratio, origin)` -/
def scaleP (r : Rat) (o p : V3) : V3 := o + V3.smul r (p - o)

/-- linear part of the reflection about the plane with (non-unit) normal `n` -/
def mirLin (n v : V3) : V3 := v - V3.smul (2 * V3.dot v n / V3.dot n n) n

/-- `functions.mirror(point, normal, origin)` (after the repair: a pure function) -/
def mirP (n o p : V3) : V3 := mirLin n (p - o) + o

/-- A transformation as the caller writes it: the origin may be left out. -/
inductive Tr where
  | translate (d : V3)
  | rotate (w : Rat) (a : V3) (o : Option V3)
  | scale (r : Rat) (o : Option V3)
  | mirror (n : V3) (o : Option V3)
  deriving Repr

/-- A transformation with its origin resolved: what the parts receive. -/
inductive RT where
  | translate (d : V3)
  | rotate (w : Rat) (a o : V3)
  | scale (r : Rat) (o : V3)
  | mirror (n o : V3)
  deriving Repr

/-- action on a point cell (`Point.*`, rows of `Array.*`) -/
def RT.pt : RT → V3 → V3
  | .translate d, p => p + d
  | .rotate w a o, p => rotP w a o p
  | .scale r o, p => scaleP r o p
  | .mirror n o, p => mirP n o p

/-- action on an axis-direction cell (`AxisVector.*`): never displaced, turned by a rotation,
    reflected *and reversed* by a mirror (it is an axial vector) -/
def RT.dir : RT → V3 → V3
  | .translate _, v => v
  | .rotate w a _, v => rotLin w a v
  | .scale _ _, v => v
  | .mirror n _, v => -(mirLin n v)

def RT.isMirror : RT → Bool
  | .mirror _ _ => true
  | _ => false

/-- the real code divides by `|axis|` / `|normal|`; a zero vector gives NaN there -/
def Tr.ok : Tr → Bool
  | .translate _ => true
  | .rotate _ a _ => V3.dot a a != 0
  | .scale _ _ => true
  | .mirror n _ => V3.dot n n != 0

/-! ### heap and entity tree -/

abbrev Heap := List V3

def Heap.get (h : Heap) (i : Nat) : V3 := h.getD i V3.zero

inductive Kind where
  | op | face | angle | spline | oncurve | edge | circle | lcurve | dcurve | icurve
  | grid | firstpt | face0 | sketchavg | shape | sphere | stack | joint | asm | other
  deriving DecidableEq, Repr

inductive Ent where
  | pt (i : Nat)
  | dir (i : Nat)
  | arr (is : List Nat)
  | node (k : Kind) (attr : Rat) (ch : List Ent)
  deriving Repr

/-- `EdgeData.reverse()`: `Angle` negates its angle, `Spline`/`PolyLine` flip the rows of their array -/
def reverseE : Ent → Ent
  | .node .angle a ch => .node .angle (-a) ch
  | .node .spline a [.node .dcurve a2 [.arr is]] => .node .spline a [.node .dcurve a2 [.arr is.reverse]]
  | e => e

/-- `Operation.invert()` on the part list `[bottom, top, side0 … side3]` -/
def invertOp : List Ent → List Ent
  | b :: t :: sides => t :: b :: sides.map reverseE
  | ch => ch

/-- what reading `.parts` does to the node's attribute: `InterpolatedCurveBase.parts` invalidates the cached
    interpolation function (attribute 1 = cache valid, 0 = must be rebuilt from the point array on next use);
    no other entity has such a side effect -/
def touchAttr (k : Kind) (a : Rat) : Rat := if k == .icurve then 0 else a

mutual
/-- a method call `e.translate/rotate/scale/mirror` with an explicit origin: recursion into the parts, then the
    entity's own override -/
def applyE (t : RT) : Ent → Heap → Ent × Heap
  | .pt i, h => (.pt i, h.modify i t.pt)
  | .dir i, h => (.dir i, h.modify i t.dir)
  | .arr is, h => (.arr is, is.foldl (fun h i => h.modify i t.pt) h)
  | .node k a ch, h =>
      let r := applyL t ch h
      (.node k (touchAttr k a) (if t.isMirror && k == .op then invertOp r.1 else r.1), r.2)
/-- `for component in self.parts: component.<method>(…)` -/
def applyL (t : RT) : List Ent → Heap → List Ent × Heap
  | [], h => ([], h)
  | e :: es, h =>
      let r1 := applyE t e h
      let r2 := applyL t es r1.2
      (r1.1 :: r2.1, r2.2)
end

/-! ### centres (default origins) -/

def vsum (ps : List V3) : V3 := ps.foldl (· + ·) V3.zero

/-- `np.average(points, axis=0)` -/
def avg (ps : List V3) : V3 := V3.smul (1 / (ps.length : Rat)) (vsum ps)

def ptOf (h : Heap) : Ent → Option V3
  | .pt i => some (h.get i)
  | _ => none

def children : Ent → List Ent
  | .node _ _ ch => ch
  | _ => []

def kindOf : Ent → Option Kind
  | .node k _ _ => some k
  | _ => none

/-- the four corner points of a face (its first four parts) -/
def facePts (h : Heap) (e : Ent) : List V3 := ((children e).take 4).filterMap (ptOf h)

def faceCenter (h : Heap) (e : Ent) : V3 := avg (facePts h e)

/-- `Operation.point_array`: bottom and top face points -/
def opPts (h : Heap) (e : Ent) : List V3 :=
  match children e with
  | b :: t :: _ => facePts h b ++ facePts h t
  | _ => []

def opCenter (h : Heap) (e : Ent) : V3 := avg (opPts h e)

def opsOf (e : Ent) : List Ent := (children e).filter (fun c => kindOf c == some .op)

/-- `Shape.center`: average of the operation centres -/
def shapeCenter (h : Heap) (e : Ent) : V3 := avg ((opsOf e).map (opCenter h))

/-- `shape.center` of a member of an assembly: a sphere shape reports its own centre point (the last part but one),
    every other shape the average of its operation centres -/
def shapeLikeCenter (h : Heap) (e : Ent) : Option V3 :=
  match e with
  | .node .sphere _ ch => (ch.getD (ch.length - 2) (.arr [])) |> ptOf h
  | _ => some (shapeCenter h e)

/-- centre of a curve entity; `oc` is the observed centre for kinds without a modelled rule -/
def curveCenter (h : Heap) (oc : Option V3) (e : Ent) : Option V3 :=
  match e with
  | .node .dcurve _ [.arr is] => some (avg (is.map h.get))
  | .node .lcurve _ [.pt a, .pt b] => some (V3.smul (1 / 2) (h.get a + h.get b))
  | .node .circle _ (.pt o :: _) => some (h.get o)
  | _ => oc

/-- `entity.center` -/
def center (h : Heap) (oc : Option V3) (e : Ent) : Option V3 :=
  match e with
  | .pt i => some (h.get i)
  | .dir i => some (h.get i)
  | .arr is => some (avg (is.map h.get))
  | .node k _ ch =>
    match k with
    | .edge | .angle => some V3.zero
    | .spline | .oncurve => (ch.head?).bind (curveCenter h oc)
    | .dcurve | .lcurve | .circle | .icurve => curveCenter h oc e
    | .face => some (faceCenter h e)
    | .op => some (opCenter h e)
    | .shape => some (shapeCenter h e)
    | .sphere => (ch.getD (ch.length - 2) (.arr [])) |> ptOf h
    | .joint => (ch.getD (ch.length - 1) (.arr [])) |> ptOf h
    | .stack => some (avg ((ch.flatMap opsOf).map (opCenter h)))
    | .asm => (ch.mapM (shapeLikeCenter h)).map avg
    | .grid =>
        match ch.head?, ch.getLast? with
        | some f0, some fl =>
            match (facePts h f0).head?, (facePts h fl)[2]? with
            | some a, some b => some (V3.smul (1 / 2) (a + b))
            | _, _ => none
        | _, _ => none
    | .firstpt => (ch.head?).bind (fun f0 => (facePts h f0).head?)
    | .face0 => (ch.head?).map (faceCenter h)
    | .sketchavg => some (avg (ch.map (faceCenter h)))
    | .other => oc

/-! ### method calls, transformation lists, copies -/

def isLeaf : Ent → Bool
  | .node _ _ _ => false
  | _ => true

/-- the origin a rotation/scaling without origin uses: `Point`/`Array` *methods* default to (0,0,0),
    every other method and every transformation list default to `self.center` -/
def defaultOrigin (viaMethod : Bool) (h : Heap) (oc : Option V3) (e : Ent) : Option V3 :=
  if viaMethod && isLeaf e then some V3.zero else center h oc e

def Tr.resolveWith (c : Option V3) : Tr → Option RT
  | .translate d => some (.translate d)
  | .rotate w a (some o) => some (.rotate w a o)
  | .rotate w a none => c.map (fun o => .rotate w a o)
  | .scale r (some o) => some (.scale r o)
  | .scale r none => c.map (fun o => .scale r o)
  | .mirror n o => some (.mirror n (o.getD V3.zero))

/-- `e.translate(…)` / `e.rotate(…)` / `e.scale(…)` / `e.mirror(…)` -/
def method (t : Tr) (oc : Option V3) (s : Ent × Heap) : Option (Ent × Heap) := do
  let rt ← t.resolveWith (defaultOrigin true s.2 oc s.1)
  some (applyE rt s.1 s.2)

/-- one element of `e.transform([...])`: the parts are transformed directly (the entity's own override of the
    method is not used); a leaf is its own part -/
def transformStep (t : Tr) (oc : Option V3) (s : Ent × Heap) : Option (Ent × Heap) := do
  let rt ← t.resolveWith (defaultOrigin false s.2 oc s.1)
  match s.1 with
  | .node k a ch =>
      let r := applyL rt ch s.2
      some (.node k (touchAttr k a) r.1, r.2)
  | leaf => some (applyE rt leaf s.2)

def runSteps (viaMethod : Bool) (ts : List (Tr × Option V3)) (s : Ent × Heap) : Option (Ent × Heap) :=
  ts.foldlM (fun s t => if viaMethod then method t.1 t.2 s else transformStep t.1 t.2 s) s

/-- state of a deep copy: memo (old cell ↦ new cell) and the growing heap -/
structure CopySt where
  memo : List (Nat × Nat)
  heap : Heap

def copyCell (i : Nat) (s : CopySt) : Nat × CopySt :=
  match s.memo.lookup i with
  | some j => (j, s)
  | none => (s.heap.length, ⟨(i, s.heap.length) :: s.memo, s.heap ++ [s.heap.get i]⟩)

def copyCells : List Nat → CopySt → List Nat × CopySt
  | [], s => ([], s)
  | i :: is, s =>
      let r1 := copyCell i s
      let r2 := copyCells is r1.2
      (r1.1 :: r2.1, r2.2)

mutual
def copyE : Ent → CopySt → Ent × CopySt
  | .pt i, s => let r := copyCell i s; (.pt r.1, r.2)
  | .dir i, s => let r := copyCell i s; (.dir r.1, r.2)
  | .arr is, s => let r := copyCells is s; (.arr r.1, r.2)
  | .node k a ch, s => let r := copyL ch s; (.node k a r.1, r.2)
def copyL : List Ent → CopySt → List Ent × CopySt
  | [], s => ([], s)
  | e :: es, s =>
      let r1 := copyE e s
      let r2 := copyL es r1.2
      (r1.1 :: r2.1, r2.2)
end

/-- `entity.copy()` (`copy.deepcopy`) -/
def copy (e : Ent) (h : Heap) : Ent × Heap :=
  let r := copyE e ⟨[], h⟩
  (r.1, r.2.heap)

/-! ### the cached interpolation function of an `InterpolatedCurveBase` -/

/-- `array` rows and the rows the cached function was built from (`none` = invalidated) -/
structure ICurve where
  pts : List V3
  cache : Option (List V3)
  deriving Repr

/-- evaluating the curve (`function(t)`, `discretize`, `center`, `length`): rebuilds the function from the
    current rows when it is invalid; returns the rows the evaluation is based on -/
def ICurve.eval (c : ICurve) : List V3 × ICurve :=
  match c.cache with
  | some q => (q, c)
  | none => (c.pts, { c with cache := some c.pts })

/-- reading `.parts` -/
def ICurve.parts (c : ICurve) : ICurve := { c with cache := none }

/-- one element of `curve.transform([...])` as coded: the centre (an evaluation) is taken *before* the loop over
    `.parts`, then the parts are read (invalidating the function) and the rows are mapped;
    `g ctr` is the map with its default origin resolved to `ctr` -/
def ICurve.transformStep (g : V3 → V3 → V3) (c : ICurve) : ICurve :=
  let r := c.eval
  let ctr := avg r.1
  let c2 := r.2.parts
  { c2 with pts := c2.pts.map (g ctr) }

/-- the order a "lazy centre" variant would use: parts first, centre (re-validating from the old rows) second -/
def ICurve.transformStepLazy (g : V3 → V3 → V3) (c : ICurve) : ICurve :=
  let c1 := c.parts
  let r := c1.eval
  { r.2 with pts := r.2.pts.map (g (avg r.1)) }

/-! ### line protocol -/

def kindOfStr : String → Option Kind
  | "op" => some .op | "face" => some .face | "angle" => some .angle | "spline" => some .spline
  | "oncurve" => some .oncurve | "edge" => some .edge | "circle" => some .circle | "lcurve" => some .lcurve
  | "dcurve" => some .dcurve | "icurve" => some .icurve | "grid" => some .grid | "firstpt" => some .firstpt | "face0" => some .face0
  | "sketchavg" => some .sketchavg | "shape" => some .shape | "sphere" => some .sphere | "stack" => some .stack
  | "joint" => some .joint | "asm" => some .asm | "other" => some .other
  | _ => none

def Kind.str : Kind → String
  | .op => "op" | .face => "face" | .angle => "angle" | .spline => "spline" | .oncurve => "oncurve"
  | .edge => "edge" | .circle => "circle" | .lcurve => "lcurve" | .dcurve => "dcurve" | .icurve => "icurve"
  | .grid => "grid" | .firstpt => "firstpt" | .face0 => "face0" | .sketchavg => "sketchavg" | .shape => "shape" | .sphere => "sphere"
  | .stack => "stack" | .joint => "joint" | .asm => "asm" | .other => "other"

/-- post-order token of a tree: `P<i>`, `D<i>`, `A<i;j;…>`, `N:<kind>:<attr>:<number of parts>` -/
def parseTok (st : List Ent) (tok : String) : Option (List Ent) :=
  if tok.startsWith "N:" then
    match tok.splitOn ":" with
    | [_, k, a, n] => do
        let k ← kindOfStr k
        let a ← parseRat? a
        let n ← parseNat? n
        if st.length < n then none else some (.node k a (st.take n).reverse :: st.drop n)
    | _ => none
  else if tok.startsWith "P" then (parseNat? (tok.drop 1).toString).map (fun i => .pt i :: st)
  else if tok.startsWith "D" then (parseNat? (tok.drop 1).toString).map (fun i => .dir i :: st)
  else if tok.startsWith "A" then
    ((((tok.drop 1).toString.splitOn ";").filter (· ≠ "")).mapM parseNat?).map (fun is => .arr is :: st)
  else none

def parseTree (toks : List String) : Option Ent :=
  match toks.foldlM parseTok [] with
  | some [e] => some e
  | _ => none

def parseOptV3 (s : String) : Option (Option V3) :=
  if s == "-" then some none else (parseV3? s).map some

/-- `T:d`, `R:w:a:o|-[@c]`, `S:r:o|-[@c]`, `M:n:o|-[@c]` -/
def parseStep (s : String) : Option (Tr × Option V3) :=
  match s.splitOn "@" with
  | [body] => (go body).map (·, none)
  | [body, c] => do
      let t ← go body
      let c ← parseV3? c
      some (t, some c)
  | _ => none
where
  go (body : String) : Option Tr :=
    match body.splitOn ":" with
    | ["T", d] => (parseV3? d).map .translate
    | ["R", w, a, o] => do some (.rotate (← parseRat? w) (← parseV3? a) (← parseOptV3 o))
    | ["S", r, o] => do some (.scale (← parseRat? r) (← parseOptV3 o))
    | ["M", n, o] => do some (.mirror (← parseV3? n) (← parseOptV3 o))
    | _ => none

mutual
def showE (h : Heap) : Ent → List String
  | .pt i => [s!"P{i}=" ++ (h.get i).toStr]
  | .dir i => [s!"D{i}=" ++ (h.get i).toStr]
  | .arr is => ["A=" ++ ";".intercalate (is.map (fun i => (h.get i).toStr))]
  | .node k a ch => showL h ch ++ [s!"N:{k.str}:{showRat a}:{ch.length}"]
def showL (h : Heap) : List Ent → List String
  | [] => []
  | e :: es => showE h e ++ showL h es
end

mutual
def cellsE : Ent → List Nat
  | .pt i => [i]
  | .dir i => [i]
  | .arr is => is
  | .node _ _ ch => cellsL ch
def cellsL : List Ent → List Nat
  | [] => []
  | e :: es => cellsE e ++ cellsL es
end

/-- `c09.run <m|l|mc|lc|mo|lo> <ncells> <cell…> <ntok> <tok…> <step…>` → resolved tree(s) in post-order -/
def handleRun (args : List String) : Option String :=
  match args with
  | mode :: nc :: rest => do
      let nc ← parseNat? nc
      if rest.length < nc + 1 then none
      let h ← (rest.take nc).mapM parseV3?
      let rest := rest.drop nc
      let nt ← (rest.head?).bind parseNat?
      let rest := rest.drop 1
      if rest.length < nt then none
      let e ← parseTree (rest.take nt)
      let steps ← (rest.drop nt).mapM parseStep
      if (cellsE e).any (fun i => i ≥ h.length) then none
      if steps.any (fun s => !s.1.ok) then some "degenerate" else
      let (viaMethod, cp) ← (match mode with
        | "m" => some (true, 0) | "l" => some (false, 0)
        | "mc" => some (true, 1) | "lc" => some (false, 1)
        | "mo" => some (true, 2) | "lo" => some (false, 2) | _ => none)
      if cp == 1 then
        -- copy, then transform the copy: the original must stay
        let c := copy e h
        match runSteps viaMethod steps c with
        | some (e', h') => some ("ok " ++ " ".intercalate (showE h' e ++ ["|"] ++ showE h' e'))
        | none => some "needs-center"
      else if cp == 2 then
        -- copy, then transform the ORIGINAL: the copy must stay
        let c := copy e h
        match runSteps viaMethod steps (e, c.2) with
        | some (e', h') => some ("ok " ++ " ".intercalate (showE h' e' ++ ["|"] ++ showE h' c.1))
        | none => some "needs-center"
      else
        match runSteps viaMethod steps (e, h) with
        | some (e', h') => some ("ok " ++ " ".intercalate (showE h' e'))
        | none => some "needs-center"
  | _ => none

/-- `c09.prim <step> <point…>` → images of the points under the step with explicit origin -/
def handlePrim (args : List String) : Option String :=
  match args with
  | step :: pts => do
      let (t, _) ← parseStep step
      let ps ← pts.mapM parseV3?
      if !t.ok then some "degenerate" else
      let rt ← t.resolveWith none
      some ("ok " ++ " ".intercalate (ps.map (fun p => (rt.pt p).toStr)))
  | _ => none

def handle (op : String) (args : List String) : Option String :=
  match op with
  | "c09.run" => handleRun args
  | "c09.prim" => handlePrim args
  | _ => none

end CBV.C09
