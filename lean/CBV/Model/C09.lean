/-
C09 — executable model of the transformation machinery of classy_blocks (after the repairs):

* the point primitives of `util/functions.py` / `construct/point.py` / `construct/array.py`
  (`translate`, `rotate` about an axis through an origin, `scale`, `mirror`) over exact rationals;
  a rotation is parametrised by an unnormalised quaternion `(w, a)`: angle `θ = 2·atan2(|a|, w)` about `a`;
  a mirror is the Householder map of a (non-unit) normal;
* the *object graph* of an entity: a tree of parts (`ElementBase.parts`) whose leaves are references
  (cell numbers) into a heap — one cell per `Point` / `AxisVector`, one per row of an `Array`.  Python
  transforms in place, so a leaf that is reachable twice is moved twice; the heap model reproduces that;
* the recursive delegation `ElementBase.translate/rotate/scale/mirror`, the overrides
  (`AxisVector`: a free axial vector; `Operation.mirror`: mirror the parts, then `invert()`, which swaps the faces
  and `reverse()`s the side-edge data; `Point`/`Array` methods: default origin 0), `ElementBase.transform`
  (a transformation list: origin resolved against the *current* centre, parts transformed directly, own overrides
  bypassed), the `center` rules, and `copy` (a deep copy with memo: fresh cells, aliasing preserved).
Core Lean only.
-/
import CBV.Model.Common
import CBV.Gen.Tables

namespace CBV.C09
open CBV

/-! ### point primitives -/

/-- linear part of the rotation by `θ = 2·atan2(|a|, w)` about `a`: `v + 2(w a×v + a×(a×v))/(w²+|a|²)` -/
def rotLin (w : Rat) (a v : V3) : V3 :=
  let c1 := V3.cross a v
  let c2 := V3.cross a c1
  v + V3.smul (2 / (w * w + V3.dot a a)) (V3.smul w c1 + c2)

/-- `functions.rotate(point, angle, axis, origin)` -/
def rotP (w : Rat) (a o p : V3) : V3 := rotLin w a (p - o) + o

/-- `functions.scale(point, ratio, origin)` -/
def scaleP (r : Rat) (o p : V3) : V3 := o + V3.smul r (p - o)

/-- linear part of the reflection about the plane with (non-unit) normal `n` -/
def mirLin (n v : V3) : V3 := v - V3.smul (2 * V3.dot v n / V3.dot n n) n

/-- `functions.mirror(point, normal, origin)` (after the repair: a pure function) -/
def mirP (n o p : V3) : V3 := mirLin n (p - o) + o

def absQ (x : Rat) : Rat := if x < 0 then -x else x

/-- `constants.TOL` -/
def shearTol : Rat := 1 / 10000000

/-- `Point.shear(normal, origin, direction, angle)` / one row of `Array.shear`: the point moves along `direction` by its
    DISTANCE from the plane `(origin, normal)` — an absolute value — times `cot angle`; a point within `TOL` of the plane
    stays.  `sn`, `sd` are the witnesses of `|normal|`, `|direction|` (the code normalises both), `c = cot angle`.
    Shear is not one of the four transformations of C09 (it is not a similarity, and as coded not even affine: both
    sides of the plane move the same way); it is modelled at the level of points and arrays only. -/
def shearP (n o d : V3) (sn sd c : Rat) (p : V3) : V3 :=
  let dist := absQ (V3.dot (p - o) n) / sn
  if dist > shearTol then p + V3.smul (dist * c / sd) d else p

/-- A transformation as the caller writes it: the origin may be left out. -/
inductive Tr where
  | translate (d : V3)
  | rotate (w : Rat) (a : V3) (o : Option V3)
  | scale (r : Rat) (o : Option V3)
  | mirror (n : V3) (o : Option V3)
  deriving Repr

/-- A transformation with its origin resolved: what the parts receive. -/
inductive RT where
  | translate (d : V3)
  | rotate (w : Rat) (a o : V3)
  | scale (r : Rat) (o : V3)
  | mirror (n o : V3)
  deriving Repr

/-- action on a point cell (`Point.*`, rows of `Array.*`) -/
def RT.pt : RT → V3 → V3
  | .translate d, p => p + d
  | .rotate w a o, p => rotP w a o p
  | .scale r o, p => scaleP r o p
  | .mirror n o, p => mirP n o p

/-- action on an axis-direction cell (`AxisVector.*`): never displaced, turned by a rotation,
    reflected *and reversed* by a mirror (it is an axial vector) -/
def RT.dir : RT → V3 → V3
  | .translate _, v => v
  | .rotate w a _, v => rotLin w a v
  | .scale _ _, v => v
  | .mirror n _, v => -(mirLin n v)

def RT.isMirror : RT → Bool
  | .mirror _ _ => true
  | _ => false

/-- the real code divides by `|axis|` / `|normal|`; a zero vector gives NaN there -/
def Tr.ok : Tr → Bool
  | .translate _ => true
  | .rotate _ a _ => V3.dot a a != 0
  | .scale _ _ => true
  | .mirror n _ => V3.dot n n != 0

/-! ### heap and entity tree -/

abbrev Heap := List V3

def Heap.get (h : Heap) (i : Nat) : V3 := h.getD i V3.zero

inductive Kind where
  | op | face | angle | spline | oncurve | edge | circle | lcurve | dcurve | icurve
  | grid | firstpt | face0 | sketchavg | shape | sphere | stack | joint | asm | other | facept3 | oval | ringc
  deriving DecidableEq, Repr

inductive Ent where
  | pt (i : Nat)
  | dir (i : Nat)
  | arr (is : List Nat)
  | node (k : Kind) (attr : Rat) (ch : List Ent)
  deriving Repr

/-- `EdgeData.reverse()`: `Angle` negates its angle, `Spline`/`PolyLine` flip the rows of their array -/
def reverseE : Ent → Ent
  | .node .angle a ch => .node .angle (-a) ch
  | .node .spline a [.node .dcurve a2 [.arr is]] => .node .spline a [.node .dcurve a2 [.arr is.reverse]]
  | e => e

/-- `Operation.invert()` on the part list `[bottom, top, side0 … side3]` -/
def invertOp : List Ent → List Ent
  | b :: t :: sides => t :: b :: sides.map reverseE
  | ch => ch

/-- what reading `.parts` does to the node's attribute: `InterpolatedCurveBase.parts` invalidates the cached
    interpolation function (attribute 1 = cache valid, 0 = must be rebuilt from the point array on next use);
    no other entity has such a side effect -/
def touchAttr (k : Kind) (a : Rat) : Rat := if k == .icurve then 0 else a

mutual
/-- a method call `e.translate/rotate/scale/mirror` with an explicit origin: recursion into the parts, then the
    entity's own override -/
def applyE (t : RT) : Ent → Heap → Ent × Heap
  | .pt i, h => (.pt i, h.modify i t.pt)
  | .dir i, h => (.dir i, h.modify i t.dir)
  | .arr is, h => (.arr is, is.foldl (fun h i => h.modify i t.pt) h)
  | .node k a ch, h =>
      let r := applyL t ch h
      (.node k (touchAttr k a) (if t.isMirror && k == .op then invertOp r.1 else r.1), r.2)
/-- `for component in self.parts: component.<method>(…)` -/
def applyL (t : RT) : List Ent → Heap → List Ent × Heap
  | [], h => ([], h)
  | e :: es, h =>
      let r1 := applyE t e h
      let r2 := applyL t es r1.2
      (r1.1 :: r2.1, r2.2)
end

mutual
/-- `ElementBase.shear(normal, origin, direction, angle)`: `for component in self.parts: component.shear(…)`.  No class
    overrides it except `Point` and `Array`; an `AxisVector` inherits `Point.shear` and is moved like a point; the tree
    itself is not changed (no inversion, and `.parts` of an interpolated curve still drops its cache) -/
def shearE (f : V3 → V3) : Ent → Heap → Ent × Heap
  | .pt i, h => (.pt i, h.modify i f)
  | .dir i, h => (.dir i, h.modify i f)
  | .arr is, h => (.arr is, is.foldl (fun h i => h.modify i f) h)
  | .node k a ch, h =>
      let r := shearL f ch h
      (.node k (touchAttr k a) r.1, r.2)
def shearL (f : V3 → V3) : List Ent → Heap → List Ent × Heap
  | [], h => ([], h)
  | e :: es, h =>
      let r1 := shearE f e h
      let r2 := shearL f es r1.2
      (r1.1 :: r2.1, r2.2)
end

/-! ### output geometry: the value tree -/

/-- an entity as its output geometry: every cell replaced by the value it holds -/
inductive VEnt where
  | pt (v : V3)
  | dir (v : V3)
  | arr (vs : List V3)
  | node (k : Kind) (attr : Rat) (ch : List VEnt)
  deriving Repr

mutual
def resolveE (h : Heap) : Ent → VEnt
  | .pt i => .pt (h.get i)
  | .dir i => .dir (h.get i)
  | .arr is => .arr (is.map h.get)
  | .node k a ch => .node k a (resolveL h ch)
def resolveL (h : Heap) : List Ent → List VEnt
  | [] => []
  | e :: es => resolveE h e :: resolveL h es
end

/-- `EdgeData.reverse()` on values -/
def reverseV : VEnt → VEnt
  | .node .angle a ch => .node .angle (-a) ch
  | .node .spline a [.node .dcurve a2 [.arr vs]] => .node .spline a [.node .dcurve a2 [.arr vs.reverse]]
  | e => e

/-- `Operation.invert()` on values -/
def invertOpV : List VEnt → List VEnt
  | b :: t :: sides => t :: b :: sides.map reverseV
  | ch => ch

mutual
/-- the transformation applied to the OUTPUT geometry: every point by the affine map, every axis direction by its
    direction action, an operation turned inside out by a mirror, cached functions dropped -/
def mapV (t : RT) : VEnt → VEnt
  | .pt v => .pt (t.pt v)
  | .dir v => .dir (t.dir v)
  | .arr vs => .arr (vs.map t.pt)
  | .node k a ch => .node k (touchAttr k a) (if t.isMirror && k == .op then invertOpV (mapVL t ch) else mapVL t ch)
def mapVL (t : RT) : List VEnt → List VEnt
  | [] => []
  | e :: es => mapV t e :: mapVL t es
end

mutual
/-- a point map applied to the OUTPUT geometry leaf by leaf (what `ElementBase.shear` does to an entity: points, array
    rows and axis directions alike; the tree keeps its shape, cached functions are dropped) -/
def shearV (f : V3 → V3) : VEnt → VEnt
  | .pt v => .pt (f v)
  | .dir v => .dir (f v)
  | .arr vs => .arr (vs.map f)
  | .node k a ch => .node k (touchAttr k a) (shearVL f ch)
def shearVL (f : V3 → V3) : List VEnt → List VEnt
  | [] => []
  | e :: es => shearV f e :: shearVL f es
end

/-! ### centres (default origins) -/

def vsum (ps : List V3) : V3 := ps.foldl (· + ·) V3.zero

/-- `np.average(points, axis=0)` -/
def avg (ps : List V3) : V3 := V3.smul (1 / (ps.length : Rat)) (vsum ps)

def ptOfV : VEnt → Option V3
  | .pt v => some v
  | _ => none

def childrenV : VEnt → List VEnt
  | .node _ _ ch => ch
  | _ => []

def kindOfV : VEnt → Option Kind
  | .node k _ _ => some k
  | _ => none

/-- the four corner points of a face (its first four parts) -/
def facePtsV (e : VEnt) : List V3 := ((childrenV e).take 4).filterMap ptOfV

def faceCenterV (e : VEnt) : V3 := avg (facePtsV e)

/-- `Operation.point_array`: bottom and top face points -/
def opPtsV (e : VEnt) : List V3 :=
  match childrenV e with
  | b :: t :: _ => facePtsV b ++ facePtsV t
  | _ => []

def opCenterV (e : VEnt) : V3 := avg (opPtsV e)

def opsOfV (e : VEnt) : List VEnt := (childrenV e).filter (fun c => kindOfV c == some .op)

/-- `Shape.center`: average of the operation centres -/
def shapeCenterV (e : VEnt) : V3 := avg ((opsOfV e).map opCenterV)

/-- the position of the part `fromEnd` places before the end of the part list (a `Point` the entity keeps) -/
def partPointV (fromEnd : Nat) (ch : List VEnt) : Option V3 := ptOfV (ch.getD (ch.length - fromEnd) (.arr []))

/-- `shape.center` of a member of an assembly: a sphere shape reports its own centre point (the last part but one),
    every other shape the average of its operation centres -/
def shapeLikeCenterV : VEnt → Option V3
  | .node .sphere _ ch => partPointV 2 ch
  | e => some (shapeCenterV e)

/-- the `center` rules of the source, one constructor per distinct piece of code -/
inductive CRule where
  | position | avgRows | zero | curveOf | avgDiscretize | lineMid | circleOrigin | facePoints | opPoints
  | avgOpCenters | partPoint (attr : String) (fromEnd : Nat) | stackOps | avgShapeCenters | gridCorners
  | firstFacePoint | firstFaceCenter | avgFaceCenters | observed | firstFacePoint3 | ovalMid
  deriving DecidableEq, Repr

/-- the expression of the source the rule transcribes (bound names `v0, v1, …`) -/
def CRule.src : CRule → String
  | .position => "self.position"
  | .avgRows => "np.average(self.points, axis=0)"
  | .zero => "f.vector(0, 0, 0)"
  | .curveOf => "self.curve.center"
  | .avgDiscretize => "np.average(self.discretize(), axis=0)"
  | .lineMid => "(self.point_1.position + self.point_2.position) / 2"
  | .circleOrigin => "self.origin.position"
  | .facePoints => "np.average(self.point_array, axis=0)"
  | .opPoints => "np.average(self.point_array, axis=0)"
  | .avgOpCenters => "np.average([v0.center for v0 in self.operations], axis=0)"
  | .partPoint attr _ => "self." ++ attr ++ ".position"
  | .stackOps => "np.average([v0.center for v0 in self.operations], axis=0)"
  | .avgShapeCenters => "np.average([v0.center for v0 in self.shapes], axis=0)"
  | .gridCorners => "(self.faces[0].points[0].position + self.faces[-1].points[2].position) / 2"
  | .firstFacePoint => "self.faces[0].points[0].position"
  | .firstFaceCenter => "self.faces[0].center"
  | .avgFaceCenters => "np.average([v0.center for v0 in self.faces], axis=0)"
  | .observed => "?"
  | .firstFacePoint3 => "self.faces[0].points[3].position"
  | .ovalMid => "(self.faces[0].points[0].position + self.faces[5].points[0].position) / 2"

/-- which rule an entity of a kind runs -/
def ruleOf : Kind → CRule
  | .edge | .angle => .zero
  | .spline | .oncurve => .curveOf
  | .dcurve => .avgDiscretize
  | .lcurve => .lineMid
  | .circle => .circleOrigin
  | .icurve => .observed
  | .face => .facePoints
  | .op => .opPoints
  | .shape => .avgOpCenters
  | .sphere => .partPoint "_center_point" 2
  | .joint => .partPoint "_center_point" 1
  | .stack => .stackOps
  | .asm => .avgShapeCenters
  | .grid => .gridCorners
  | .firstpt => .firstFacePoint
  | .face0 => .firstFaceCenter
  | .sketchavg => .avgFaceCenters
  | .other => .observed
  | .facept3 => .firstFacePoint3
  | .oval => .ovalMid
  | .ringc => .partPoint "_center" 1

/-- evaluation of a rule on a node (`oc`: the observed centre for entities without a modelled rule);
    `curveOf` is resolved by `centerV` -/
def CRule.eval (oc : Option V3) (r : CRule) (e : VEnt) : Option V3 :=
  let ch := childrenV e
  match r with
  | .position => ptOfV e
  | .avgRows => match e with | .arr vs => some (avg vs) | _ => none
  | .zero => some V3.zero
  | .curveOf => none
  | .avgDiscretize => match ch with | [.arr vs] => some (avg vs) | _ => oc
  | .lineMid => match ch with | [.pt a, .pt b] => some (V3.smul (1 / 2) (a + b)) | _ => oc
  | .circleOrigin => match ch with | .pt o :: _ => some o | _ => oc
  | .facePoints => some (faceCenterV e)
  | .opPoints => some (opCenterV e)
  | .avgOpCenters => some (shapeCenterV e)
  | .partPoint _ n => partPointV n ch
  | .stackOps => some (avg ((ch.flatMap opsOfV).map opCenterV))
  | .avgShapeCenters =>
      if ch.all (fun c => (shapeLikeCenterV c).isSome) then some (avg (ch.filterMap shapeLikeCenterV)) else none
  | .gridCorners =>
      match ch.head?, ch.getLast? with
      | some f0, some fl =>
          match (facePtsV f0).head?, (facePtsV fl)[2]? with
          | some a, some b => some (V3.smul (1 / 2) (a + b))
          | _, _ => none
      | _, _ => none
  | .firstFacePoint => (ch.head?).bind (fun f0 => (facePtsV f0).head?)
  | .firstFaceCenter => (ch.head?).map faceCenterV
  | .avgFaceCenters => some (avg (ch.map faceCenterV))
  | .observed => oc
  | .firstFacePoint3 => (ch.head?).bind (fun f0 => (facePtsV f0)[3]?)
  | .ovalMid =>
      match ch[0]?, ch[5]? with
      | some f0, some f5 =>
          match (facePtsV f0).head?, (facePtsV f5).head? with
          | some a, some b => some (V3.smul (1 / 2) (a + b))
          | _, _ => none
      | _, _ => none

/-- centre of the curve an `OnCurve`/`Spline` edge holds -/
def curveCenterV (oc : Option V3) (c : VEnt) : Option V3 :=
  match c with
  | .node k _ _ => (ruleOf k).eval oc c
  | _ => oc

def CRule.isCurveOf : CRule → Bool
  | .curveOf => true
  | _ => false

/-- `entity.center` on the output geometry -/
def centerV (oc : Option V3) (e : VEnt) : Option V3 :=
  match e with
  | .pt v => some v
  | .dir v => some v
  | .arr vs => some (avg vs)
  | .node k _ ch => if (ruleOf k).isCurveOf then (ch.head?).bind (curveCenterV oc) else (ruleOf k).eval oc e

/-- `entity.center` -/
def center (h : Heap) (oc : Option V3) (e : Ent) : Option V3 := centerV oc (resolveE h e)

/-! ### the entity schema: what `parts` lists, class by class -/

/-- what a slot of `parts` may hold -/
inductive Cls where
  | pt | dir | arr | edgeData | curve | face | op | shape | any
  deriving DecidableEq, Repr

def Cls.accepts : Cls → VEnt → Bool
  | .pt, .pt _ => true
  | .dir, .dir _ => true
  | .arr, .arr _ => true
  | .edgeData, .node k _ _ => k == .edge || k == .angle || k == .spline || k == .oncurve
  | .curve, .node k _ _ => k == .circle || k == .lcurve || k == .dcurve || k == .icurve
  | .face, .node k _ _ => k == .face
  | .op, .node k _ _ => k == .op
  | .shape, .node k _ _ => k == .shape || k == .sphere
  | .any, _ => true
  | _, _ => false

/-- one entry of the list `parts` returns: `name` (an attribute of `self`), `star` (a whole list of parts), the kind
    of entity it holds and how many (the model's own knowledge, validated on every real tree) -/
structure Slot where
  name : String
  star : Bool
  cls : Cls
  lo : Nat
  hi : Option Nat
  deriving Repr

def one (name : String) (c : Cls) : Slot := ⟨name, false, c, 1, some 1⟩
def many (name : String) (c : Cls) (lo : Nat) (hi : Option Nat := none) : Slot := ⟨name, true, c, lo, hi⟩

/-- a class that defines `parts`: the kinds the harness gives to its instances, and the slots -/
structure Row where
  cls : String
  kinds : List Kind
  slots : List Slot
  deriving Repr

/-- every class of `classy_blocks.base` / `classy_blocks.construct` whose `parts` returns a list, by class name -/
def schema : List Row := [
  ⟨"Angle", [.angle], [one "axis" .dir]⟩,
  ⟨"Arc", [.edge], [one "point" .pt]⟩,
  ⟨"Array", [], [one "self" .any]⟩,
  ⟨"Assembly", [.asm], [many "shapes" .shape 1]⟩,
  ⟨"CircleCurve", [.circle], [one "origin" .pt, one "rim" .pt, one "_normal" .dir]⟩,
  ⟨"DiscreteCurve", [.dcurve], [one "array" .arr]⟩,
  ⟨"EdgeData", [.edge], []⟩,
  ⟨"EighthSphere", [.sphere], [many "operations" .op 1, one "_center_point" .pt, one "_radius_point" .pt]⟩,
  ⟨"Face", [.face], [many "points" .pt 4 (some 4), many "edges" .edgeData 4 (some 4)]⟩,
  ⟨"InterpolatedCurveBase", [.icurve], [one "array" .arr]⟩,
  ⟨"JointBase", [.joint], [many "shapes" .shape 1, one "_center_point" .pt]⟩,
  ⟨"LineCurve", [.lcurve], [one "point_1" .pt, one "point_2" .pt]⟩,
  ⟨"OnCurve", [.oncurve], [one "curve" .curve]⟩,
  ⟨"Operation", [.op], [one "bottom_face" .face, one "top_face" .face, many "side_edges" .edgeData 4 (some 4)]⟩,
  ⟨"Origin", [.edge], [one "origin" .pt]⟩,
  ⟨"Point", [], [one "self" .any]⟩,
  ⟨"QuarterSplineRing", [.ringc], [many "super().parts" .face 1, one "_center" .pt]⟩,
  ⟨"Shape", [.shape], [many "operations" .op 1]⟩,
  ⟨"Sketch", [.grid, .firstpt, .face0, .sketchavg, .other, .facept3, .oval], [many "faces" .face 1]⟩,
  ⟨"Spline", [.spline], [one "curve" .curve]⟩,
  ⟨"Stack", [.stack], [many "shapes" .shape 1]⟩]

def Slot.render (s : Slot) : String := (if s.star then "*" else "") ++ s.name

def Row.render (r : Row) : String × List String := (r.cls, r.slots.map Slot.render)

/-- the part list against the slots: a starred slot takes the longest admissible prefix -/
def matchSlots : List Slot → List VEnt → Bool
  | [], es => es.isEmpty
  | s :: ss, es =>
      if s.star then
        let n := (es.takeWhile s.cls.accepts).length
        decide (s.lo ≤ n) && (match s.hi with | some m => decide (n ≤ m) | none => true) &&
          matchSlots ss (es.dropWhile s.cls.accepts)
      else
        match es with
        | e :: rest => s.cls.accepts e && matchSlots ss rest
        | [] => false

/-- the classes an entity of kind `k` may belong to -/
def rowsFor (k : Kind) : List Row := schema.filter (fun r => r.kinds.contains k)

/-- the parts of a node of kind `k` fit a class of that kind (`other`: no class known to the model) -/
def wfNode (k : Kind) (ch : List VEnt) : Bool :=
  k == .other || (rowsFor k).any (fun r => matchSlots r.slots ch)

/-- `Array.__init__` refuses a point list of fewer rows (`len(self.points) <= 1`) -/
def arrayMinRows : Nat := 2

mutual
/-- the whole tree follows the schema; point arrays have the rows their constructor insists on -/
def wfV : VEnt → Bool
  | .pt _ => true
  | .dir _ => true
  | .arr vs => decide (arrayMinRows ≤ vs.length)
  | .node k _ ch => wfNode k ch && wfVL ch
def wfVL : List VEnt → Bool
  | [] => true
  | e :: es => wfV e && wfVL es
end

/-- classes whose `center` is transcribed, with the rule -/
def centerRows : List (String × CRule) := [
  ("Annulus", ruleOf .sketchavg), ("Array", .avgRows), ("Assembly", ruleOf .asm), ("CircleCurve", ruleOf .circle),
  ("DiscreteCurve", ruleOf .dcurve), ("DiskBase", ruleOf .firstpt), ("EdgeData", ruleOf .edge),
  ("EighthSphere", ruleOf .sphere), ("Face", ruleOf .face), ("Grid", ruleOf .grid), ("JointBase", ruleOf .joint),
  ("LineCurve", ruleOf .lcurve), ("MappedSketch", ruleOf .sketchavg), ("OnCurve", ruleOf .oncurve),
  ("OneCoreDisk", ruleOf .face0), ("Operation", ruleOf .op), ("Oval", ruleOf .oval), ("Point", .position),
  ("QuarterSplineRing", ruleOf .ringc), ("Shape", ruleOf .shape),
  ("Spline", ruleOf .spline), ("SplineRound", ruleOf .facept3), ("Stack", ruleOf .stack), ("WrappedDisk", ruleOf .face0)]

/-- classes whose `center` is not transcribed (abstract, or the observed value is used) -/
def observedCenters : List String := ["ElementBase", "PointCurveBase", "Sketch"]

/-- a real object of class row `P` (the class whose `parts` runs) and centre class `C` (the class whose `center`
    runs) may carry kind `k` -/
def kindOK (k : Kind) (P C : String) : Bool :=
  schema.any (fun r => r.cls == P && r.kinds.contains k) &&
    (centerRows.any (fun r => r.1 == C && r.2 == ruleOf k) || (ruleOf k == .observed && observedCenters.contains C))

/-- one node of a real tree against the schema row of its own class -/
def nodeOK (k : Kind) (P C : String) (ch : List VEnt) : Bool :=
  kindOK k P C && schema.any (fun r => r.cls == P && matchSlots r.slots ch)

/-! ### method calls, transformation lists, copies -/

def isLeaf : Ent → Bool
  | .node _ _ _ => false
  | _ => true

/-- the origin a rotation/scaling without origin uses: `Point`/`Array` *methods* default to (0,0,0),
    every other method and every transformation list default to `self.center` -/
def defaultOrigin (viaMethod : Bool) (h : Heap) (oc : Option V3) (e : Ent) : Option V3 :=
  if viaMethod && isLeaf e then some V3.zero else center h oc e

/-- what an origin that is left out becomes -/
inductive Dflt where
  | noOrigin | center | zero
  deriving DecidableEq, Repr

/-- as the source spells it (`ElementBase.rotate/scale/mirror`: `self.center`; `transform`: the local it assigns
    `self.center` to before the parts move — the translator resolves single-assignment locals) -/
def Dflt.src (_viaMethod : Bool) : Dflt → String
  | .noOrigin => "-"
  | .center => "self.center"
  | .zero => "[0, 0, 0]"

def Tr.dflt : Tr → Dflt
  | .translate _ => .noOrigin
  | .rotate _ _ _ => .center
  | .scale _ _ => .center
  | .mirror _ _ => .zero

/-- the name of the method that is called on every part / of the `transforms` class -/
def Tr.names : Tr → String × String
  | .translate _ => ("translate", "Translation")
  | .rotate _ _ _ => ("rotate", "Rotation")
  | .scale _ _ => ("scale", "Scaling")
  | .mirror _ _ => ("mirror", "Mirror")

def Dflt.pick (c : Option V3) : Dflt → Option V3
  | .noOrigin => none
  | .center => c
  | .zero => some V3.zero

def Tr.resolveWith (c : Option V3) (t : Tr) : Option RT :=
  match t with
  | .translate d => some (.translate d)
  | .rotate w a o => (o <|> t.dflt.pick c).map (fun o => .rotate w a o)
  | .scale r o => (o <|> t.dflt.pick c).map (fun o => .scale r o)
  | .mirror n o => (o <|> t.dflt.pick c).map (fun o => .mirror n o)

/-- `e.translate(…)` / `e.rotate(…)` / `e.scale(…)` / `e.mirror(…)` -/
def method (t : Tr) (oc : Option V3) (s : Ent × Heap) : Option (Ent × Heap) := do
  let rt ← t.resolveWith (defaultOrigin true s.2 oc s.1)
  some (applyE rt s.1 s.2)

/-- one element of `e.transform([...])`: the parts are transformed directly (the entity's own override of the
    method is not used); a leaf is its own part -/
def transformStep (t : Tr) (oc : Option V3) (s : Ent × Heap) : Option (Ent × Heap) := do
  let rt ← t.resolveWith (defaultOrigin false s.2 oc s.1)
  match s.1 with
  | .node k a ch =>
      let r := applyL rt ch s.2
      some (.node k (touchAttr k a) r.1, r.2)
  | leaf => some (applyE rt leaf s.2)

def runSteps (viaMethod : Bool) (ts : List (Tr × Option V3)) (s : Ent × Heap) : Option (Ent × Heap) :=
  ts.foldlM (fun s t => if viaMethod then method t.1 t.2 s else transformStep t.1 t.2 s) s

/-! ### the same on the output geometry (no heap): what "transforming the output" means for a sequence -/

def isLeafV : VEnt → Bool
  | .node _ _ _ => false
  | _ => true

def defaultOriginV (viaMethod : Bool) (oc : Option V3) (v : VEnt) : Option V3 :=
  if viaMethod && isLeafV v then some V3.zero else centerV oc v

def methodV (t : Tr) (oc : Option V3) (v : VEnt) : Option VEnt := do
  let rt ← t.resolveWith (defaultOriginV true oc v)
  some (mapV rt v)

def transformStepV (t : Tr) (oc : Option V3) (v : VEnt) : Option VEnt := do
  let rt ← t.resolveWith (defaultOriginV false oc v)
  match v with
  | .node k a ch => some (.node k (touchAttr k a) (mapVL rt ch))
  | leaf => some (mapV rt leaf)

def runStepsV (viaMethod : Bool) (ts : List (Tr × Option V3)) (v : VEnt) : Option VEnt :=
  ts.foldlM (fun v t => if viaMethod then methodV t.1 t.2 v else transformStepV t.1 t.2 v) v

/-- state of a deep copy: memo (old cell ↦ new cell) and the growing heap -/
structure CopySt where
  memo : List (Nat × Nat)
  heap : Heap

def copyCell (i : Nat) (s : CopySt) : Nat × CopySt :=
  match s.memo.lookup i with
  | some j => (j, s)
  | none => (s.heap.length, ⟨(i, s.heap.length) :: s.memo, s.heap ++ [s.heap.get i]⟩)

def copyCells : List Nat → CopySt → List Nat × CopySt
  | [], s => ([], s)
  | i :: is, s =>
      let r1 := copyCell i s
      let r2 := copyCells is r1.2
      (r1.1 :: r2.1, r2.2)

mutual
def copyE : Ent → CopySt → Ent × CopySt
  | .pt i, s => let r := copyCell i s; (.pt r.1, r.2)
  | .dir i, s => let r := copyCell i s; (.dir r.1, r.2)
  | .arr is, s => let r := copyCells is s; (.arr r.1, r.2)
  | .node k a ch, s => let r := copyL ch s; (.node k a r.1, r.2)
def copyL : List Ent → CopySt → List Ent × CopySt
  | [], s => ([], s)
  | e :: es, s =>
      let r1 := copyE e s
      let r2 := copyL es r1.2
      (r1.1 :: r2.1, r2.2)
end

/-- `entity.copy()` (`copy.deepcopy`) -/
def copy (e : Ent) (h : Heap) : Ent × Heap :=
  let r := copyE e ⟨[], h⟩
  (r.1, r.2.heap)

/-! ### the cached interpolation function of an `InterpolatedCurveBase` -/

/-- `array` rows and the rows the cached function was built from (`none` = invalidated) -/
structure ICurve where
  pts : List V3
  cache : Option (List V3)
  deriving Repr

/-- evaluating the curve (`function(t)`, `discretize`, `center`, `length`): rebuilds the function from the
    current rows when it is invalid; returns the rows the evaluation is based on -/
def ICurve.eval (c : ICurve) : List V3 × ICurve :=
  match c.cache with
  | some q => (q, c)
  | none => (c.pts, { c with cache := some c.pts })

/-- reading `.parts` -/
def ICurve.parts (c : ICurve) : ICurve := { c with cache := none }

/-- one element of `curve.transform([...])` as coded: the centre (an evaluation) is taken *before* the loop over
    `.parts`, then the parts are read (invalidating the function) and the rows are mapped;
    `g ctr` is the map with its default origin resolved to `ctr` -/
def ICurve.transformStep (g : V3 → V3 → V3) (c : ICurve) : ICurve :=
  let r := c.eval
  let ctr := avg r.1
  let c2 := r.2.parts
  { c2 with pts := c2.pts.map (g ctr) }

/-- the order a "lazy centre" variant would use: parts first, centre (re-validating from the old rows) second -/
def ICurve.transformStepLazy (g : V3 → V3 → V3) (c : ICurve) : ICurve :=
  let c1 := c.parts
  let r := c1.eval
  { r.2 with pts := r.2.pts.map (g (avg r.1)) }

/-! ### line protocol -/

def kindOfStr : String → Option Kind
  | "op" => some .op | "face" => some .face | "angle" => some .angle | "spline" => some .spline
  | "oncurve" => some .oncurve | "edge" => some .edge | "circle" => some .circle | "lcurve" => some .lcurve
  | "dcurve" => some .dcurve | "icurve" => some .icurve | "grid" => some .grid | "firstpt" => some .firstpt | "face0" => some .face0
  | "sketchavg" => some .sketchavg | "shape" => some .shape | "sphere" => some .sphere | "stack" => some .stack
  | "joint" => some .joint | "asm" => some .asm | "other" => some .other | "facept3" => some .facept3
  | "oval" => some .oval | "ringc" => some .ringc
  | _ => none

def Kind.str : Kind → String
  | .op => "op" | .face => "face" | .angle => "angle" | .spline => "spline" | .oncurve => "oncurve"
  | .edge => "edge" | .circle => "circle" | .lcurve => "lcurve" | .dcurve => "dcurve" | .icurve => "icurve"
  | .grid => "grid" | .firstpt => "firstpt" | .face0 => "face0" | .sketchavg => "sketchavg" | .shape => "shape" | .sphere => "sphere"
  | .stack => "stack" | .joint => "joint" | .asm => "asm" | .other => "other" | .facept3 => "facept3"
  | .oval => "oval" | .ringc => "ringc"

/-- post-order token of a tree: `P<i>`, `D<i>`, `A<i;j;…>`, `N:<kind>:<attr>:<number of parts>` -/
def parseTok (st : List Ent) (tok : String) : Option (List Ent) :=
  if tok.startsWith "N:" then
    match tok.splitOn ":" with
    | [_, k, a, n] => do
        let k ← kindOfStr k
        let a ← parseRat? a
        let n ← parseNat? n
        if st.length < n then none else some (.node k a (st.take n).reverse :: st.drop n)
    | _ => none
  else if tok.startsWith "P" then (parseNat? (tok.drop 1).toString).map (fun i => .pt i :: st)
  else if tok.startsWith "D" then (parseNat? (tok.drop 1).toString).map (fun i => .dir i :: st)
  else if tok.startsWith "A" then
    ((((tok.drop 1).toString.splitOn ";").filter (· ≠ "")).mapM parseNat?).map (fun is => .arr is :: st)
  else none

def parseTree (toks : List String) : Option Ent :=
  match toks.foldlM parseTok [] with
  | some [e] => some e
  | _ => none

def parseOptV3 (s : String) : Option (Option V3) :=
  if s == "-" then some none else (parseV3? s).map some

/-- `T:d`, `R:w:a:o|-[@c]`, `S:r:o|-[@c]`, `M:n:o|-[@c]` -/
def parseStep (s : String) : Option (Tr × Option V3) :=
  match s.splitOn "@" with
  | [body] => (go body).map (·, none)
  | [body, c] => do
      let t ← go body
      let c ← parseV3? c
      some (t, some c)
  | _ => none
where
  go (body : String) : Option Tr :=
    match body.splitOn ":" with
    | ["T", d] => (parseV3? d).map .translate
    | ["R", w, a, o] => do some (.rotate (← parseRat? w) (← parseV3? a) (← parseOptV3 o))
    | ["S", r, o] => do some (.scale (← parseRat? r) (← parseOptV3 o))
    | ["M", n, o] => do some (.mirror (← parseV3? n) (← parseOptV3 o))
    | _ => none

mutual
def showE (h : Heap) : Ent → List String
  | .pt i => [s!"P{i}=" ++ (h.get i).toStr]
  | .dir i => [s!"D{i}=" ++ (h.get i).toStr]
  | .arr is => ["A=" ++ ";".intercalate (is.map (fun i => (h.get i).toStr))]
  | .node k a ch => showL h ch ++ [s!"N:{k.str}:{showRat a}:{ch.length}"]
def showL (h : Heap) : List Ent → List String
  | [] => []
  | e :: es => showE h e ++ showL h es
end

mutual
def cellsE : Ent → List Nat
  | .pt i => [i]
  | .dir i => [i]
  | .arr is => is
  | .node _ _ ch => cellsL ch
def cellsL : List Ent → List Nat
  | [] => []
  | e :: es => cellsE e ++ cellsL es
end

/-- `c09.run <m|l|mc|lc|mo|lo> <ncells> <cell…> <ntok> <tok…> <step…>` → resolved tree(s) in post-order -/
def handleRun (args : List String) : Option String :=
  match args with
  | mode :: nc :: rest => do
      let nc ← parseNat? nc
      if rest.length < nc + 1 then none
      let h ← (rest.take nc).mapM parseV3?
      let rest := rest.drop nc
      let nt ← (rest.head?).bind parseNat?
      let rest := rest.drop 1
      if rest.length < nt then none
      let e ← parseTree (rest.take nt)
      let steps ← (rest.drop nt).mapM parseStep
      if (cellsE e).any (fun i => i ≥ h.length) then none
      if steps.any (fun s => !s.1.ok) then some "degenerate" else
      let (viaMethod, cp) ← (match mode with
        | "m" => some (true, 0) | "l" => some (false, 0)
        | "mc" => some (true, 1) | "lc" => some (false, 1)
        | "mo" => some (true, 2) | "lo" => some (false, 2) | _ => none)
      if cp == 1 then
        -- copy, then transform the copy: the original must stay
        let c := copy e h
        match runSteps viaMethod steps c with
        | some (e', h') => some ("ok " ++ " ".intercalate (showE h' e ++ ["|"] ++ showE h' e'))
        | none => some "needs-center"
      else if cp == 2 then
        -- copy, then transform the ORIGINAL: the copy must stay
        let c := copy e h
        match runSteps viaMethod steps (e, c.2) with
        | some (e', h') => some ("ok " ++ " ".intercalate (showE h' e' ++ ["|"] ++ showE h' c.1))
        | none => some "needs-center"
      else
        match runSteps viaMethod steps (e, h) with
        | some (e', h') => some ("ok " ++ " ".intercalate (showE h' e'))
        | none => some "needs-center"
  | _ => none

/-- `c09.prim <step> <point…>` → images of the points under the step with explicit origin -/
def handlePrim (args : List String) : Option String :=
  match args with
  | step :: pts => do
      let (t, _) ← parseStep step
      let ps ← pts.mapM parseV3?
      if !t.ok then some "degenerate" else
      let rt ← t.resolveWith none
      some ("ok " ++ " ".intercalate (ps.map (fun p => (rt.pt p).toStr)))
  | _ => none

/-- token of a real tree for the schema check: leaves as in `c09.run`, nodes `N:<kind>:<attr>:<n>:<P>:<C>` with the
    class `P` whose `parts` runs and the class `C` whose `center` runs -/
def wfTok (st : List VEnt × Option String) (tok : String) : Option (List VEnt × Option String) :=
  if tok.startsWith "N:" then
    match tok.splitOn ":" with
    | [_, k, a, n, P, C] => do
        let k ← kindOfStr k
        let a ← parseRat? a
        let n ← parseNat? n
        if st.1.length < n then none else
        let ch := (st.1.take n).reverse
        let bad := if nodeOK k P C ch then st.2 else st.2 <|> some s!"{P}:{C}:{k.str}:{n}"
        some (.node k a ch :: st.1.drop n, bad)
    | _ => none
  else if tok.startsWith "P" then some (.pt V3.zero :: st.1, st.2)
  else if tok.startsWith "D" then some (.dir V3.zero :: st.1, st.2)
  else if tok.startsWith "A" then
    let n := (((tok.drop 1).toString.splitOn ";").filter (· ≠ "")).length
    some (.arr (List.replicate n V3.zero) :: st.1, st.2)
  else none

/-- `c09.wf <tok…>` → `ok` when every node fits the schema row of its class and the tree satisfies `wfV`
    (the hypothesis of the centre theorems), else the first offending node -/
def handleWf (args : List String) : Option String :=
  match args.foldlM wfTok ([], none) with
  | some ([e], none) => some (if wfV e then "ok" else "not-wf")
  | some ([_], some bad) => some ("bad " ++ bad)
  | _ => none

/-- `c09.shear <n> <o> <d> <sn> <sd> <cot> <point…>` → images (witnesses checked to 1e-9 relative) -/
def handleShear (args : List String) : Option String :=
  match args with
  | n :: o :: d :: sn :: sd :: c :: pts => do
      let n ← parseV3? n; let o ← parseV3? o; let d ← parseV3? d
      let sn ← parseRat? sn; let sd ← parseRat? sd; let c ← parseRat? c
      let ps ← pts.mapM parseV3?
      let ok (s : Rat) (v : V3) : Bool := s > 0 && absQ (s * s - V3.dot v v) ≤ (1 / 1000000000) * (1 + V3.dot v v)
      if !(ok sn n && ok sd d) then some "bad-witness" else
      some ("ok " ++ " ".intercalate (ps.map (fun p => (shearP n o d sn sd c p).toStr)))
  | _ => none

/-- `c09.shearent <n> <o> <d> <sn> <sd> <cot> <ncells> <cell…> <tok…>` → the sheared entity, resolved, in post-order -/
def handleShearEnt (args : List String) : Option String :=
  match args with
  | n :: o :: d :: sn :: sd :: c :: nc :: rest => do
      let n ← parseV3? n; let o ← parseV3? o; let d ← parseV3? d
      let sn ← parseRat? sn; let sd ← parseRat? sd; let c ← parseRat? c
      let nc ← parseNat? nc
      if rest.length < nc then none
      let h ← (rest.take nc).mapM parseV3?
      let e ← parseTree (rest.drop nc)
      if (cellsE e).any (fun i => i ≥ h.length) then none
      let ok (s : Rat) (v : V3) : Bool := s > 0 && absQ (s * s - V3.dot v v) ≤ (1 / 1000000000) * (1 + V3.dot v v)
      if !(ok sn n && ok sd d) then some "bad-witness" else
      let r := shearE (shearP n o d sn sd c) e h
      some ("ok " ++ " ".intercalate (showE r.2 r.1))
  | _ => none

def handle (op : String) (args : List String) : Option String :=
  match op with
  | "c09.shear" => handleShear args
  | "c09.shearent" => handleShearEnt args
  | "c09.run" => handleRun args
  | "c09.prim" => handlePrim args
  | "c09.wf" => handleWf args
  | _ => none

end CBV.C09
