/-
C13 — executable model of the optimiser (`optimize/optimizer.py`, `optimize/grid.py`
`GridBase.update`, `optimize/iteration.py` `IterationDriver`, the clamp/link interface of
`optimize/clamps/clamp.py` and `optimize/links.py`, `MeshOptimizer/SketchOptimizer.backport`,
`MappedSketch.update/positions`) as a state machine over ABSTRACT types

  `P`   points            `Prm` clamp parameter vectors
  `Q`   quality values    `S`   sensitivities

with every numerical ingredient an ORACLE argument:

  `Oracles.gq : List P → Option Q`        `GridBase.quality`   (`none` = degenerate cell → ValueError)
  `Oracles.jq : Nat → List P → Option Q`  `Junction.quality` of junction `idx`
  `Cfg.pos j : Prm → P`                   `clamp.function` of clamp number `j`
  `Cfg.linkFn lid : P → P`                `link.transform()` as a function of the leader position
  `IterSched.probe j`                     what `approx_fprime` evaluates for clamp `j` + the norm it returns
  `IterSched.solve k j`                   what `scipy.optimize.minimize` evaluates in the k-th call of
                                          `optimize_clamp` of the iteration when that call is for clamp `j`,
                                          + whether the solver itself raised `ValueError`
  `conv`                                  the tolerance part of `IterationDriver.converged`

The code is mirrored as it is after the repairs `fix: functions.mirror no longer changes the point
passed to it` (a link is a pure function of the leader position; `clamp.position` is always
`clamp.function(clamp.params)`) and `fix: a sensitivity probe that raises no longer aborts optimize()
half-way` (see `probeClamp`).

Core Lean + `Std.Data.HashMap` (toolchain library, used only by the line-protocol part at the end).
-/
import CBV.Model.Common
import CBV.Gen.Tables
import CBV.Model.C13Driver
import Std.Data.HashMap

namespace CBV.C13

/-- `IndexedLink` as stored in `Junction.links` of junction `leader`. -/
structure Link where
  leader : Nat
  follower : Nat
  lid : Nat
  deriving DecidableEq, Repr

/-- The static part of a grid with clamps and links. Clamp number `j` (its position in
    `GridBase.clamps`, which walks the junctions in index order) sits on junction `clampIdx[j]`. -/
structure Cfg (P Prm : Type) where
  clampIdx : List Nat
  pos : Nat → Prm → P
  links : List Link
  linkFn : Nat → P → P

structure Oracles (P Q : Type) where
  gq : List P → Option Q
  jq : Nat → List P → Option Q

/-- The mutable part: `GridBase.points` and `clamp.params` of every clamp. -/
structure St (P Prm : Type) where
  pts : List P
  prm : List Prm

variable {P Prm Q S : Type}

/-- `Junction.links` of junction `idx`, in the order of the `add_link` calls. -/
def linksOf (cfg : Cfg P Prm) (idx : Nat) : List Link := cfg.links.filter (fun l => l.leader == idx)

/-- the `for indexed_link in junction.links` loop of `GridBase.update` -/
def applyLinks (cfg : Cfg P Prm) (ls : List Link) (p : P) (pts : List P) : List P :=
  ls.foldl (fun acc l => acc.set l.follower (cfg.linkFn l.lid p)) pts

/-- the points after `GridBase.update(idx, p)` -/
def updPts (cfg : Cfg P Prm) (pts : List P) (idx : Nat) (p : P) : List P :=
  applyLinks cfg (linksOf cfg idx) p (pts.set idx p)

/-- `GridBase.update(idx, p)`: new points and the returned quality (grid quality when the junction
    has links, junction quality otherwise; `none` = the quality computation raised, the points are
    written nevertheless). -/
def gridUpdate (cfg : Cfg P Prm) (o : Oracles P Q) (pts : List P) (idx : Nat) (p : P) : List P × Option Q :=
  let pts' := updPts cfg pts idx p
  match linksOf cfg idx with
  | [] => (pts', o.jq idx pts')
  | _ :: _ => (pts', o.gq pts')

/-- `clamp.update_params(p); grid.update(junction.index, clamp.position)` for clamp `j` on junction `idx` -/
def moveClamp (cfg : Cfg P Prm) (o : Oracles P Q) (st : St P Prm) (j idx : Nat) (p : Prm) : St P Prm × Option Q :=
  let r := gridUpdate cfg o st.pts idx (cfg.pos j p)
  ({ pts := r.1, prm := st.prm.set j p }, r.2)

/-- the evaluations `fquality(x)` a `scipy.optimize.minimize` call makes, in order; stops at the
    first one that raises (`false`) -/
def runEvals (cfg : Cfg P Prm) (o : Oracles P Q) (j idx : Nat) : St P Prm → List Prm → St P Prm × Bool
  | st, [] => (st, true)
  | st, e :: es =>
      match moveClamp cfg o st j idx e with
      | (st', some _) => runEvals cfg o j idx st' es
      | (st', none) => (st', false)

/-- the evaluations of `_get_sensitivity.fquality`: update, then `junction.quality` -/
def runProbe (cfg : Cfg P Prm) (o : Oracles P Q) (j idx : Nat) : St P Prm → List Prm → St P Prm × Bool
  | st, [] => (st, true)
  | st, e :: es =>
      match moveClamp cfg o st j idx e with
      | (st', some _) =>
          match o.jq idx st'.pts with
          | some _ => runProbe cfg o j idx st' es
          | none => (st', false)
      | (st', none) => (st', false)

inductive Flag where
  | improved | rollback | skip
  deriving DecidableEq, Repr

/-- where a `ValueError` left `optimize()` -/
inductive Site where
  | probe | clampStart | clampRestore | iterBegin | iterEnd | illFormed
  deriving DecidableEq, Repr

/-- `ClampOptimizationData` of one `optimize_clamp` call -/
structure Step (Q : Type) where
  clamp : Nat
  flag : Flag
  gridInitial : Q
  gridFinal : Q

structure StepRes (P Prm Q : Type) where
  st : St P Prm
  raised : Option Site
  step : Option (Step Q)

/-- the restore `clamp.update_params(initial_params); self.grid.update(junction.index, clamp.position)`
    of the `except ValueError` branch -/
def restoreSkip (cfg : Cfg P Prm) (o : Oracles P Q) (st : St P Prm) (j idx : Nat) (init : Prm) (gi : Q) :
    StepRes P Prm Q :=
  let r := moveClamp cfg o st j idx init
  { st := r.1, raised := if r.2.isSome then none else some .clampRestore,
    step := some ⟨j, .skip, gi, gi⟩ }

/-- `OptimizerBase.optimize_clamp(clamp, method)` for clamp number `j`; `evals` are the parameter
    vectors the solver evaluates, `solverRaised` says the solver itself raised `ValueError` after them. -/
def optimizeClamp [LE Q] [DecidableLE Q] (cfg : Cfg P Prm) (o : Oracles P Q) (st : St P Prm) (j : Nat)
    (evals : List Prm) (solverRaised : Bool) : StepRes P Prm Q :=
  match cfg.clampIdx[j]?, st.prm[j]? with
  | some idx, some init =>
      -- reporter = ClampOptimizationData(junction.index, self.grid.quality, junction.quality)
      match o.gq st.pts, o.jq idx st.pts with
      | some gi, some _ =>
          let r := runEvals cfg o j idx st evals
          if r.2 && !solverRaised then
            -- reporter.junction_final = junction.quality; reporter.grid_final = self.grid.quality
            match o.jq idx r.1.pts, o.gq r.1.pts with
            | some _, some gf =>
                if gi ≤ gf then
                  -- improvement <= 0: rollback (still inside `try`)
                  let b := moveClamp cfg o r.1 j idx init
                  match b.2 with
                  | some _ => { st := b.1, raised := none, step := some ⟨j, .rollback, gi, gi⟩ }
                  | none => restoreSkip cfg o b.1 j idx init gi
                else { st := r.1, raised := none, step := some ⟨j, .improved, gi, gf⟩ }
            | _, _ => restoreSkip cfg o r.1 j idx init gi
          else restoreSkip cfg o r.1 j idx init gi
      | _, _ => { st := st, raised := some .clampStart, step := none }
  | _, _ => { st := st, raised := some .illFormed, step := none }

/-- `OptimizerBase._get_sensitivity(clamp)` without the returned number (that is an oracle):
    probe evaluations — a `ValueError` in one of them (degenerate cell, clamp function outside its
    bounds) ends the probing and is swallowed (repair `fix: a sensitivity probe that raises no longer
    aborts optimize() half-way`) — then the restore, whose quality computation is not protected. -/
def probeClamp (cfg : Cfg P Prm) (o : Oracles P Q) (st : St P Prm) (j idx : Nat) (evals : List Prm) :
    St P Prm × Option Site :=
  match st.prm[j]? with
  | none => (st, some .illFormed)
  | some init =>
      let r := runProbe cfg o j idx st evals
      let b := moveClamp cfg o r.1 j idx init
      (b.1, if b.2.isSome then none else some .probe)

/-- What one iteration gets from outside. -/
structure IterSched (Prm S : Type) where
  probe : Nat → List Prm × S
  solve : Nat → Nat → List Prm × Bool

/-- the key computations of `sorted(self.grid.clamps, key=self._get_sensitivity, reverse=True)`,
    over the `(junction index, clamp number)` pairs still to do -/
def probeAll (cfg : Cfg P Prm) (o : Oracles P Q) (sch : IterSched Prm S) :
    List (Nat × Nat) → St P Prm → St P Prm × List (Nat × S) × Option Site
  | [], st => (st, [], none)
  | (idx, j) :: rest, st =>
      match probeClamp cfg o st j idx (sch.probe j).1 with
      | (st', some e) => (st', [], some e)
      | (st', none) =>
          let r := probeAll cfg o sch rest st'
          (r.1, (j, (sch.probe j).2) :: r.2.1, r.2.2)

/-- insertion keeping descending keys and, among equal keys, the order of arrival (python's
    `sorted(..., reverse=True)` is stable) -/
def insertDesc [LT S] [DecidableLT S] (x : Nat × S) : List (Nat × S) → List (Nat × S)
  | [] => [x]
  | y :: ys => if y.2 < x.2 then x :: y :: ys else y :: insertDesc x ys

def sortDesc [LT S] [DecidableLT S] (xs : List (Nat × S)) : List (Nat × S) :=
  xs.foldl (fun acc x => insertDesc x acc) []

structure IterRes (P Prm Q : Type) where
  st : St P Prm
  raised : Option Site
  steps : List (Step Q)

/-- the `for clamp in clamps: self.optimize_clamp(clamp, method)` loop; `k` counts the calls -/
def solveAll [LE Q] [DecidableLE Q] (cfg : Cfg P Prm) (o : Oracles P Q) (sch : IterSched Prm S) :
    List Nat → Nat → St P Prm → IterRes P Prm Q
  | [], _, st => { st := st, raised := none, steps := [] }
  | j :: js, k, st =>
      let r := optimizeClamp cfg o st j (sch.solve k j).1 (sch.solve k j).2
      match r.raised with
      | some e => { st := r.st, raised := some e, steps := r.step.toList }
      | none =>
          let t := solveAll cfg o sch js (k + 1) r.st
          { st := t.st, raised := t.raised, steps := r.step.toList ++ t.steps }

/-- `OptimizerBase.optimize_iteration(method)` -/
def optimizeIteration [LE Q] [DecidableLE Q] [LT S] [DecidableLT S] (cfg : Cfg P Prm) (o : Oracles P Q)
    (sch : IterSched Prm S) (st : St P Prm) : IterRes P Prm Q :=
  match probeAll cfg o sch cfg.clampIdx.zipIdx st with
  | (st', _, some e) => { st := st', raised := some e, steps := [] }
  | (st', keys, none) => solveAll cfg o sch ((sortDesc keys).map (·.1)) 0 st'

structure OptRes (P Prm Q : Type) where
  st : St P Prm
  raised : Option Site
  /-- `(initial_quality, final_quality)` of every finished iteration, oldest first -/
  hist : List (Q × Q)
  steps : List (List (Step Q))
  outOfFuel : Bool

/-- `IterationDriver.converged` with the tolerance criterion abstract -/
def converged (conv : List (Q × Q) → Bool) (maxIter : Nat) (hist : List (Q × Q)) : Bool :=
  decide (maxIter ≤ hist.length) || conv hist

/-- the `while not driver.converged` loop of `OptimizerBase.optimize`; iteration number
    `hist.length` uses `sched hist.length` -/
def optimizeLoop [LE Q] [DecidableLE Q] [LT S] [DecidableLT S] (cfg : Cfg P Prm) (o : Oracles P Q)
    (conv : List (Q × Q) → Bool) (maxIter : Nat) (sched : Nat → IterSched Prm S) :
    Nat → List (Q × Q) → List (List (Step Q)) → St P Prm → OptRes P Prm Q
  | fuel, hist, steps, st =>
      if converged conv maxIter hist then
        { st := st, raised := none, hist := hist, steps := steps, outOfFuel := false }
      else
        match fuel with
        | 0 => { st := st, raised := none, hist := hist, steps := steps, outOfFuel := true }
        | fuel + 1 =>
            match o.gq st.pts with
            | none => { st := st, raised := some .iterBegin, hist := hist, steps := steps, outOfFuel := false }
            | some q0 =>
                let r := optimizeIteration cfg o (sched hist.length) st
                match r.raised with
                | some e =>
                    { st := r.st, raised := some e, hist := hist, steps := steps ++ [r.steps], outOfFuel := false }
                | none =>
                    match o.gq r.st.pts with
                    | none =>
                        { st := r.st, raised := some .iterEnd, hist := hist, steps := steps ++ [r.steps],
                          outOfFuel := false }
                    | some q1 =>
                        optimizeLoop cfg o conv maxIter sched fuel (hist ++ [(q0, q1)]) (steps ++ [r.steps]) r.st

/-- `OptimizerBase.optimize(max_iterations, tolerance, method)` up to (not including) `backport`;
    `maxIter` units of fuel always suffice (`T_C13_fuel`). -/
def optimize [LE Q] [DecidableLE Q] [LT S] [DecidableLT S] (cfg : Cfg P Prm) (o : Oracles P Q)
    (conv : List (Q × Q) → Bool) (maxIter : Nat) (sched : Nat → IterSched Prm S) (st : St P Prm) :
    OptRes P Prm Q :=
  optimizeLoop cfg o conv maxIter sched maxIter [] [] st

/-! ### backport -/

/-- `MeshOptimizer.backport`: `for i, point in enumerate(grid.points): mesh.vertices[i].move_to(point)` -/
def backportMesh (verts : List P) (pts : List P) : List P :=
  pts.zipIdx.foldl (fun vs (p, i) => vs.set i p) verts

/-- `MappedSketch.update(positions)`: every face gets `[positions[iq] for iq in quad]`
    (`none` = IndexError) -/
def sketchUpdate (quads : List (List Nat)) (pts : List P) : Option (List (List P)) :=
  quads.mapM (fun q => q.mapM (fun iq => pts[iq]?))

/-- `MappedSketch.positions`: point `i` is read from the first place where `i` occurs in the
    flattened quad list; `i` runs to the largest index used (`none` = `ValueError` of `list.index`) -/
def sketchPositions (quads : List (List Nat)) (faces : List (List P)) : Option (List P) :=
  let idxs := quads.flatten
  let all := faces.flatten
  match idxs.max? with
  | none => none
  | some mx => (List.range (mx + 1)).mapM (fun i => if i ∈ idxs then all[idxs.idxOf i]? else none)

/-! ### the tolerance criterion of `IterationDriver.converged` over ℚ -/

/-- `IterationData.improvement` -/
def iterImprovement (h : Rat × Rat) : Rat :=
  if (if h.1 - h.2 < 0 then h.2 - h.1 else h.1 - h.2) < vsmall then vsmall else h.1 - h.2

/-- `len(iterations) >= 2 and last_improvement / iterations[0].initial_quality < tolerance` -/
def convRat (tol : Rat) (hist : List (Rat × Rat)) : Bool :=
  match hist.head?, hist.getLast? with
  | some h0, some hl => decide (2 ≤ hist.length) && decide (iterImprovement hl / h0.1 < tol)
  | _, _ => false

/-! ### line protocol: the oracles are the tables recorded from a run of the implementation.
Points and parameter vectors are numbers the harness assigned to the distinct float vectors it saw
(`0` is never assigned: it is what a table miss produces, so a miss shows up in the answer). -/

/-- quality values of the driver instance: a recorded rational or a table miss -/
inductive QV where
  | val (r : Rat)
  | miss
  deriving DecidableEq

instance : LE QV where
  le a b := match a, b with
    | .val x, .val y => x ≤ y
    | .miss, _ => True
    | .val _, .miss => False

instance : DecidableLE QV := fun a b => by
  cases a <;> cases b <;> simp only [LE.le] <;> infer_instance

def QV.show : QV → String
  | .val r => showRat r
  | .miss => "miss"

def splitNonEmpty (s : String) (sep : String) : List String := (s.splitOn sep).filter (· ≠ "")

def parseDots? (s : String) : Option (List Nat) := (splitNonEmpty s ".").mapM parseNat?

def parseQ? (s : String) : Option (Option Rat) := if s = "x" then some none else (parseRat? s).map some

structure Tables where
  pos : Std.HashMap (Nat × Nat) Nat
  lnk : Std.HashMap (Nat × Nat) Nat
  gq : Std.HashMap (List Nat) (Option Rat)
  jq : Std.HashMap (Nat × List Nat) (Option Rat)

def Tables.cfg (t : Tables) (clampIdx : List Nat) (links : List Link) : Cfg Nat Nat :=
  { clampIdx := clampIdx, links := links,
    pos := fun j p => (t.pos.get? (j, p)).getD 0,
    linkFn := fun lid p => (t.lnk.get? (lid, p)).getD 0 }

def Tables.oracles (t : Tables) : Oracles Nat QV :=
  { gq := fun pts => match t.gq.get? pts with
      | some (some r) => some (.val r) | some none => none | none => some .miss,
    jq := fun idx pts => match t.jq.get? (idx, pts) with
      | some (some r) => some (.val r) | some none => none | none => some .miss }

def parseTriples? (s : String) : Option (List (Nat × Nat × Nat)) := do
  let xs ← parseList? s
  xs.mapM (fun x => match x.splitOn ":" with
    | [a, b, c] => do some ((← parseNat? a), (← parseNat? b), (← parseNat? c))
    | _ => none)

def parsePairs? (s : String) : Option (List (Nat × Nat)) := do
  let xs ← parseList? s
  xs.mapM (fun x => match x.splitOn ":" with
    | [a, b] => do some ((← parseNat? a), (← parseNat? b))
    | _ => none)

def parseG? (s : String) : Option (Std.HashMap (List Nat) (Option Rat)) := do
  let xs ← parseList? s
  xs.foldlM (fun m x => match x.splitOn "=" with
    | [k, v] => do some (m.insert (← parseDots? k) (← parseQ? v))
    | _ => none) (Std.HashMap.emptyWithCapacity 64)

def parseJ? (s : String) : Option (Std.HashMap (Nat × List Nat) (Option Rat)) := do
  let xs ← parseList? s
  xs.foldlM (fun m x => match x.splitOn "=" with
    | [k, v] => match k.splitOn "@" with
        | [i, ps] => do some (m.insert ((← parseNat? i), (← parseDots? ps)) (← parseQ? v))
        | _ => none
    | _ => none) (Std.HashMap.emptyWithCapacity 64)

/-- one iteration `probes~solves`: probes `prm.prm.prm:sens;…` per clamp number, solves `prm.prm:flag;…` per call -/
def parseIter? (s : String) : Option (IterSched Nat Rat) :=
  match s.splitOn "~" with
  | [ps, ss] => do
      let probes ← (splitNonEmpty ps ";").mapM (fun x => match x.splitOn ":" with
        | [e, v] => do some ((← parseDots? e), (← parseRat? v))
        | _ => none)
      let solves ← (splitNonEmpty ss ";").mapM (fun x => match x.splitOn ":" with
        | [e, f] => do some ((← parseDots? e), f == "1")
        | _ => none)
      some { probe := fun j => probes.getD j ([], 0), solve := fun k _ => solves.getD k ([], false) }
  | _ => none

def Flag.show : Flag → String
  | .improved => "I" | .rollback => "R" | .skip => "S"

def Site.show : Site → String
  | .probe => "probe" | .clampStart => "clampStart" | .clampRestore => "clampRestore"
  | .iterBegin => "iterBegin" | .iterEnd => "iterEnd" | .illFormed => "illFormed"

def QV.rat? : QV → Option Rat
  | .val r => some r
  | .miss => none

/-- the tolerance criterion on recorded values; a miss never converges (and is visible in the answer) -/
def convQV (tol : Rat) (hist : List (QV × QV)) : Bool :=
  match hist.mapM (fun h => do some ((← h.1.rat?), (← h.2.rat?))) with
  | some h => convRat tol h
  | none => false

/-- `c13.opt pts clamps links pos lnk G J maxit:tol sched back` (`d:d` = the default arguments of `optimize`)
    → `final=[…] prm=[…] raised=<site|none> fuel=<0|1> hist=[qi:qf,…] steps=[it:clamp:flag:gi:gf,…] back=<[…]|err>` -/
def handleOpt (args : List String) : Option String :=
  match args with
  | [pts, clamps, links, pos, lnk, g, jt, drv, sched, back] => do
      let pts ← parseNatList? pts
      let clamps ← parsePairs? clamps
      let links ← parseTriples? links
      let pos ← parseTriples? pos
      let lnk ← parseTriples? lnk
      let g ← parseG? g
      let jt ← parseJ? jt
      let (maxIter, tol) ← match drv.splitOn ":" with
        | ["d", "d"] => some (defaultMaxIter, defaultTol)  -- `optimize()` without arguments
        | [m, t] => do some ((← parseNat? m), (← parseRat? t))
        | _ => none
      let iters ← (if sched = "-" then some [] else (sched.splitOn "|").mapM parseIter?)
      let t : Tables :=
        { pos := pos.foldl (fun m (a, b, c) => m.insert (a, b) c) (Std.HashMap.emptyWithCapacity 64),
          lnk := lnk.foldl (fun m (a, b, c) => m.insert (a, b) c) (Std.HashMap.emptyWithCapacity 64),
          gq := g, jq := jt }
      let cfg := t.cfg (clamps.map (·.1)) (links.map (fun (a, b, c) => ⟨a, b, c⟩))
      let st0 : St Nat Nat := { pts := pts, prm := clamps.map (·.2) }
      let empty : IterSched Nat Rat := { probe := fun _ => ([], 0), solve := fun _ _ => ([], false) }
      let r := optimize cfg t.oracles (convQV tol) maxIter (fun k => iters.getD k empty) st0
      let backStr ← match back.splitOn ":" with
        | ["mesh"] => some (showNatList (backportMesh pts r.st.pts))
        | ["sketch", qs] => do
            let quads ← (splitNonEmpty qs ";").mapM parseDots?
            some (match (sketchUpdate quads r.st.pts).bind (sketchPositions quads) with
              | some ps => showNatList ps
              | none => "err")
        | _ => none
      let stepStr := r.steps.zipIdx.flatMap (fun (ss, it) => ss.map (fun s =>
        s!"{it}:{s.clamp}:{s.flag.show}:{s.gridInitial.show}:{s.gridFinal.show}"))
      let histStr := r.hist.map (fun h => s!"{h.1.show}:{h.2.show}")
      some (s!"final={showNatList r.st.pts} prm={showNatList r.st.prm} "
        ++ s!"raised={(r.raised.map Site.show).getD "none"} fuel={if r.outOfFuel then 1 else 0} "
        ++ s!"hist={showStrList histStr} steps={showStrList stepStr} back={backStr}")
  | _ => none

/-! ### set-up: `GridBase.add_clamp`, `GridBase.add_link` (round 5)

Points are exact images of the float positions; `f.norm(a - b) < TOL` is modelled by the squared
comparison `|a - b|² < TOL²` (`tol2` is TOL², handed in by the harness). -/

/-- `f.norm(p - q) < TOL` -/
def near (tol2 : Rat) (p q : V3) : Bool := decide (V3.norm2 (p - q) < tol2)

/-- `for junction in self.junctions: if f.norm(junction.point - position) < TOL: …; return` —
    the first junction (lowest index) that is close enough -/
def findFirstFrom (tol2 : Rat) (pos : V3) : List V3 → Nat → Option Nat
  | [], _ => none
  | q :: qs, i => if near tol2 q pos then some i else findFirstFrom tol2 pos qs (i + 1)

def findFirst (tol2 : Rat) (pts : List V3) (pos : V3) : Option Nat := findFirstFrom tol2 pos pts 0

/-- the loop of `add_link`: a junction close to the leader sets `leader_index` (and `continue`s),
    otherwise one close to the follower sets `follower_index`; no `break`, the last match stays -/
def scanLink (tol2 : Rat) (leader follower : V3) : List V3 → Nat → Option Nat × Option Nat → Option Nat × Option Nat
  | [], _, acc => acc
  | q :: qs, i, acc =>
      if near tol2 leader q then scanLink tol2 leader follower qs (i + 1) (some i, acc.2)
      else if near tol2 follower q then scanLink tol2 leader follower qs (i + 1) (acc.1, some i)
      else scanLink tol2 leader follower qs (i + 1) acc

inductive SetupErr where
  | noJunction | clampExists | leaderNotFound | followerNotFound | sameJunction
  deriving DecidableEq, Repr

/-- what the grid has registered: `(junction, clamp)` pairs in the order of the `add_clamp` calls and
    the `IndexedLink`s in the order of the `add_link` calls -/
structure Reg where
  clamps : List (Nat × Nat)
  links : List Link
  deriving DecidableEq, Repr

/-- `GridBase.add_clamp` + `Junction.add_clamp`; an error leaves the registration as it was -/
def addClamp (tol2 : Rat) (pts : List V3) (r : Reg) (cid : Nat) (pos : V3) : Reg × Option SetupErr :=
  match findFirst tol2 pts pos with
  | none => (r, some .noJunction)
  | some i =>
      if r.clamps.any (fun c => c.1 == i) then (r, some .clampExists)
      else ({ r with clamps := r.clamps ++ [(i, cid)] }, none)

/-- `GridBase.add_link`: all three validations come before the registration -/
def addLink (tol2 : Rat) (pts : List V3) (r : Reg) (lid : Nat) (leader follower : V3) : Reg × Option SetupErr :=
  match scanLink tol2 leader follower pts 0 (none, none) with
  | (none, _) => (r, some .leaderNotFound)
  | (some _, none) => (r, some .followerNotFound)
  | (some li, some fi) =>
      if li = fi then (r, some .sameJunction)
      else ({ r with links := r.links ++ [⟨li, fi, lid⟩] }, none)

/-- `GridBase.clamps` walks the junctions in index order: the junction list of the model's `Cfg` -/
def clampIdxOf (r : Reg) (n : Nat) : List Nat := (List.range n).filter (fun i => r.clamps.any (fun c => c.1 == i))

def SetupErr.show : SetupErr → String
  | .noJunction => "NoJunctionError" | .clampExists => "ClampExistsError"
  | .leaderNotFound => "InvalidLinkError:leader" | .followerNotFound => "InvalidLinkError:follower"
  | .sameJunction => "InvalidLinkError:same"

/-- `c13.setup tol2 p0;p1;… op;op;…` with `op = clamp:<id>:<pos>` or `link:<id>:<leader>:<follower>`
    → after every op `ok|<error> C[j:id,…] L[leader:follower:id,…]`, joined by `|` -/
def handleSetup (args : List String) : Option String :=
  match args with
  | [tol2, pts, ops] => do
      let tol2 ← parseRat? tol2
      let pts ← (pts.splitOn ";").mapM parseV3?
      let showReg (r : Reg) (e : Option SetupErr) : String :=
        ((e.map SetupErr.show).getD "ok") ++ " C"
          ++ showStrList (r.clamps.map (fun c => s!"{c.1}:{c.2}")) ++ " L"
          ++ showStrList (r.links.map (fun l => s!"{l.leader}:{l.follower}:{l.lid}"))
          ++ " I" ++ showNatList (clampIdxOf r pts.length)
      let step (acc : Reg × List String) (op : String) : Option (Reg × List String) :=
        match op.splitOn ":" with
        | ["clamp", cid, pos] => do
            let x := addClamp tol2 pts acc.1 (← parseNat? cid) (← parseV3? pos)
            some (x.1, acc.2 ++ [showReg x.1 x.2])
        | ["link", lid, a, b] => do
            let x := addLink tol2 pts acc.1 (← parseNat? lid) (← parseV3? a) (← parseV3? b)
            some (x.1, acc.2 ++ [showReg x.1 x.2])
        | _ => none
      let r ← (splitNonEmpty ops ";").foldlM step (({ clamps := [], links := [] } : Reg), [])
      some ("|".intercalate r.2 |>.replace " " "_")
  | _ => none

/-! ### an exception other than `ValueError` inside the minimiser (round 6d)

Nothing in `optimize_clamp` / `optimize_iteration` / `optimize` catches it: it leaves `optimize()` before `backport`.
Raised by the clamp function in the `m`-th evaluation of the `s`-th `optimize_clamp` call of iteration `it`
(`clamp.update_params(params)` has stored the parameters, `self.function(params)` raises, `grid.update` is not reached):
the grid is where the evaluations before left it, the clamp holds the parameters it could not apply. -/

structure AbortRes (P Prm : Type) where
  /-- the state the evaluations before the raising one left (grid points and the parameters that were applied) -/
  st : St P Prm
  /-- the clamp whose function raised and the parameters it had been handed -/
  pending : Option (Nat × Prm)
  /-- the abort point was reached (otherwise the run is an ordinary one and this result is not used) -/
  reached : Bool

/-- up to the raising evaluation -/
def optimizeAbortPre [LE Q] [DecidableLE Q] [LT S] [DecidableLT S] (cfg : Cfg P Prm) (o : Oracles P Q)
    (conv : List (Q × Q) → Bool) (sched : Nat → IterSched Prm S) (st : St P Prm) (it s m : Nat) : AbortRes P Prm :=
  -- `it` complete iterations
  let a := optimize cfg o conv it sched st
  if a.raised.isSome || a.hist.length != it then { st := a.st, pending := none, reached := false } else
  -- iteration `it`: all probes, the first `s` clamps of the sorted order
  match probeAll cfg o (sched it) cfg.clampIdx.zipIdx a.st with
  | (stb, _, some _) => { st := stb, pending := none, reached := false }
  | (stb, keys, none) =>
      let order := (sortDesc keys).map (·.1)
      let c := solveAll cfg o (sched it) (order.take s) 0 stb
      match c.raised, order[s]? with
      | none, some j =>
          match cfg.clampIdx[j]?, (((sched it).solve s j).1)[m]? with
          | some idx, some e =>
              let d := runEvals cfg o j idx c.st ((((sched it).solve s j).1).take m)
              { st := d.1, pending := some (j, e), reached := d.2 }
          | _, _ => { st := c.st, pending := none, reached := false }
      | _, _ => { st := c.st, pending := none, reached := false }

/-- the state in which the exception leaves the optimiser: the clamp holds the parameters it could not apply -/
def optimizeAbort [LE Q] [DecidableLE Q] [LT S] [DecidableLT S] (cfg : Cfg P Prm) (o : Oracles P Q)
    (conv : List (Q × Q) → Bool) (sched : Nat → IterSched Prm S) (st : St P Prm) (it s m : Nat) : St P Prm × Bool :=
  let r := optimizeAbortPre cfg o conv sched st it s m
  ({ pts := r.st.pts, prm := match r.pending with
      | some (j, e) => r.st.prm.set j e
      | none => r.st.prm }, r.reached)

/-- the mesh vertices / sketch points after a call: `backport` only runs when nothing propagated -/
def afterCall (verts : List P) (final : List P) (propagated : Bool) : List P :=
  if propagated then verts else backportMesh verts final

/-- `c13.abort pts clamps links pos lnk G J tol sched it:s:m` → `reached=<0|1> final=[…] prm=[…] back=[…]` -/
def handleAbort (args : List String) : Option String :=
  match args with
  | [pts, clamps, links, pos, lnk, g, jt, tol, sched, at_] => do
      let pts ← parseNatList? pts
      let clamps ← parsePairs? clamps
      let links ← parseTriples? links
      let pos ← parseTriples? pos
      let lnk ← parseTriples? lnk
      let g ← parseG? g
      let jt ← parseJ? jt
      let tol ← parseRat? tol
      let (it, s, m) ← match at_.splitOn ":" with
        | [a, b, c] => do some ((← parseNat? a), (← parseNat? b), (← parseNat? c))
        | _ => none
      let iters ← (if sched = "-" then some [] else (sched.splitOn "|").mapM parseIter?)
      let t : Tables :=
        { pos := pos.foldl (fun m (a, b, c) => m.insert (a, b) c) (Std.HashMap.emptyWithCapacity 64),
          lnk := lnk.foldl (fun m (a, b, c) => m.insert (a, b) c) (Std.HashMap.emptyWithCapacity 64),
          gq := g, jq := jt }
      let cfg := t.cfg (clamps.map (·.1)) (links.map (fun (a, b, c) => ⟨a, b, c⟩))
      let st0 : St Nat Nat := { pts := pts, prm := clamps.map (·.2) }
      let empty : IterSched Nat Rat := { probe := fun _ => ([], 0), solve := fun _ _ => ([], false) }
      let r := optimizeAbort cfg t.oracles (convQV tol) (fun k => iters.getD k empty) st0 it s m
      some (s!"reached={if r.2 then 1 else 0} final={showNatList r.1.pts} prm={showNatList r.1.prm} "
        ++ s!"back={showNatList (afterCall pts r.1.pts true)}")
  | _ => none

def handle (op : String) (args : List String) : Option String :=
  match op with
  | "c13.opt" => handleOpt args
  | "c13.setup" => handleSetup args
  | "c13.abort" => handleAbort args
  | "c13.driver" => handleDriver args
  | "c13.reporter" => handleReporter args
  | _ => none

end CBV.C13
