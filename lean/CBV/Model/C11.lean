/-
C11 — model of the blockings of the predefined shapes (core Lean only).

Layer 1, topology (exact, index level):
* a *blocking* is a list of blocks, a block is the list of its 8 vertex ids (what `Mesh.assemble`
  produces: `Block.vertices[i].index`);
* `loftBlocks` mirrors `LoftedShape.__init__` / `Stack`: every face of the sketch's quad map (taken in
  the order of `shape.operations`, i.e. of the flattened `Sketch.grid`) becomes a block whose bottom
  corners are the quad's points on layer `l` and whose top corners the same points on layer `l+1`;
  `canon` renumbers vertices in the order in which `Mesh._add_vertices` meets them;
* `ringQuads` / `gridQuads` are the hand models of `Annulus(n)` and `Grid(n, m)` (no quad map in the source);
* wires come from the generated `AXIS_PAIRS`; a wire is coded as a number, the wires of a block axis as a
  bit mask; two block axes are neighbours when their masks meet (`Axis.add_neighbour`: they share a wire);
  `closure` mirrors, at axis level, `BlockList.propagate_gradings` after the repair of C02 (an axis is
  defined iff it is chopped or a neighbour axis is defined), as breadth-first passes over the undefined axes;
  `writeResult` is what `Mesh.write` answers: ok or the list of blocks with an undefined axis;
* `chopNodes` evaluates `LoftedShape.chop(axis)` through the generated `Sketch.chops` lists.

Layer 2, geometry (validators on exact rationals): `cornerJac`, `rightHanded`.
-/
import CBV.Model.Common
import CBV.Gen.Tables
import CBV.Model.C11Geo
import CBV.Gen.TC11

namespace CBV.C11

abbrev Block := List Nat
abbrev Blocking := List Block
/-- a wire = unordered vertex pair {u, v}, coded as the number `min u v * M + max u v` with `M` larger than
    every vertex id of the blocking (injective for `u, v < M`, `wireKey_inj` in Lemmas) -/
abbrev Wire := Nat

def wireKey (M u v : Nat) : Wire := if u ≤ v then u * M + v else v * M + u

def maxOf (xs : List Nat) : Nat := xs.foldl max 0

/-- a bound above every vertex id of a blocking -/
def vertexBound (B : Blocking) : Nat := maxOf (B.map maxOf) + 1

/-- a set of wires as a bit mask: wire `w` is bit `w` (set operations are single big-number operations,
    which the kernel evaluates natively under `decide`) -/
abbrev Mask := Nat

def orAll (ms : List Mask) : Mask := ms.foldr (· ||| ·) 0

/-- the (non-degenerate) wires of axis `a` of a block, through the generated `AXIS_PAIRS` -/
def axisWires (M : Nat) (b : Block) (a : Nat) : List Wire :=
  ((CBV.Gen.axisPairs.getD a []).filter (fun p => !Nat.beq (b.getD p.1 0) (b.getD p.2 0))).map
    (fun p => wireKey M (b.getD p.1 0) (b.getD p.2 0))

def maskOf (ws : List Wire) : Mask := orAll (ws.map (2 ^ ·))

/-- node `3*b + a` = axis `a` of block `b`; the table of the wire sets of every node -/
def wireTableM (M : Nat) (B : Blocking) : List Mask :=
  B.flatMap (fun b => [maskOf (axisWires M b 0), maskOf (axisWires M b 1), maskOf (axisWires M b 2)])

/-- (the `match` makes the kernel evaluate the bound once instead of once per wire) -/
def wireTable (B : Blocking) : List Mask :=
  match vertexBound B with
  | 0 => wireTableM 0 B
  | M + 1 => wireTableM (M + 1) B

/-- a node of the propagation: the wires of a block axis and its number `3*b + a` -/
abbrev Node := Mask × Nat

/-- the nodes in order: `(wires, number)` -/
def nodesOf (T : List Mask) : List Node := T.zipIdx

def memN (n : Nat) : List Nat → Bool
  | [] => false
  | x :: xs => Nat.beq n x || memN n xs

/-- does the node own one of the wires `fw` (`Axis.add_neighbour`: some pair of wires is coincident) -/
def hit (fw : Mask) (x : Node) : Bool := !Nat.beq (fw &&& x.1) 0

/-- breadth-first passes of the propagation until nothing changes; `none` = out of fuel (never happens
    with fuel > #nodes).  `vis` = defined axes so far, `fw` = the wires of the axes defined in the last
    pass, `rest` = the axes that are still undefined. -/
def iter : Nat → List Nat → Mask → List Node → Option (List Nat)
  | 0, _, _, _ => none
  | fuel + 1, vis, fw, rest =>
    match rest.filter (hit fw) with
    | [] => some vis
    | x :: xs => iter fuel ((x :: xs).map (·.2) ++ vis) (orAll ((x :: xs).map (·.1))) (rest.filter (fun y => !hit fw y))

def closureT (T : List Mask) (chops : List Nat) : Option (List Nat) :=
  let seeds := (nodesOf T).filter (fun x => memN x.2 chops)
  iter (T.length + 1) (seeds.map (·.2)) (orAll (seeds.map (·.1))) ((nodesOf T).filter (fun x => !memN x.2 chops))

/-- the defined axes after `grade_blocks` + `propagate_gradings`, `chops` = chopped nodes -/
def closure (B : Blocking) (chops : List Nat) : Option (List Nat) := closureT (wireTable B) chops

inductive WriteResult where
  | ok
  | undefined (blocks : List Nat)
  | fuel
  deriving DecidableEq, Repr

/-- is node `n` in the node set coded as a bit mask -/
def inMask (dm : Mask) (n : Nat) : Bool := dm.testBit n

/-- blocks that own an axis outside the set `dm` of defined nodes -/
def undefinedBlocksM (B : Blocking) (dm : Mask) : List Nat :=
  (List.range B.length).filter (fun b => !(inMask dm (3 * b) && inMask dm (3 * b + 1) && inMask dm (3 * b + 2)))

/-- blocks that own an axis outside `d` (the `match` makes the kernel evaluate the mask of `d` once) -/
def undefinedBlocks (B : Blocking) (d : List Nat) : List Nat :=
  match maskOf d with
  | 0 => undefinedBlocksM B 0
  | dm + 1 => undefinedBlocksM B (dm + 1)

/-- `Mesh.write` as far as gradings are concerned: `UndefinedGradingsError` names the undefined blocks -/
def writeResult (B : Blocking) (chops : List Nat) : WriteResult :=
  match closure B chops with
  | none => .fuel
  | some d => match undefinedBlocks B d with
    | [] => .ok
    | bs => .undefined bs

def writeOk (B : Blocking) (chops : List Nat) : Bool :=
  match writeResult B chops with
  | .ok => true
  | _ => false

/-- family label of a node: the smallest node of its connected component -/
def familyOf (B : Blocking) (n : Nat) : Option Nat :=
  (closure B [n]).map (fun d => d.foldl min n)

/-- labels of all nodes, one closure per family: `labs` = (node, label) found so far -/
def labelAll (T : List Mask) : Nat → List Nat → List (Nat × Nat) → Option (List (Nat × Nat))
  | _, [], labs => some labs
  | 0, _ :: _, _ => none
  | fuel + 1, n :: rest, labs =>
    if labs.any (fun p => p.1 == n) then labelAll T fuel rest labs
    else match closureT T [n] with
      | none => none
      | some d => labelAll T fuel rest (labs ++ d.map (fun m => (m, n)))

/-- the family label (smallest member) of every node, in node order -/
def families (B : Blocking) : Option (List Nat) :=
  let T := wireTable B
  (labelAll T (T.length + 1) (List.range T.length) []).map (fun labs =>
    (List.range T.length).map (fun n => ((labs.find? (fun p => p.1 == n)).map (·.2)).getD n))

/-- number of chopped nodes per family, given the labels -/
def chopsPerFamily (labs : List Nat) (chops : List Nat) : List (Nat × Nat) :=
  (labs.eraseDups).map (fun l => (l, ((List.range labs.length).filter (fun n => chops.contains n && labs.getD n n == l)).length))

/-- every family holds exactly one chopped axis -/
def exactlyOnce (B : Blocking) (chops : List Nat) : Bool :=
  match families B with
  | none => false
  | some labs => (chopsPerFamily labs chops).all (fun p => p.2 == 1)

/-- no two different chopped axes lie in the same family: the closure of one never contains another -/
def separatedT (T : List Mask) (chops : List Nat) : Bool :=
  chops.all (fun s => match closureT T [s] with
    | some d => chops.all (fun t => Nat.beq t s || !memN t d)
    | none => false)

def separated (B : Blocking) (chops : List Nat) : Bool := separatedT (wireTable B) chops

/-- the chop calls do not interfere: no family receives chops from two different calls
    (`calls` = the chopped nodes of every documented call) -/
def callsSeparatedT (T : List Mask) (calls : List (List Nat)) : Bool :=
  (List.range calls.length).all (fun i => match closureT T (calls.getD i []) with
    | some d => (List.range calls.length).all (fun j => Nat.beq i j || (calls.getD j []).all (fun t => !memN t d))
    | none => false)

def callsSeparated (B : Blocking) (calls : List (List Nat)) : Bool := callsSeparatedT (wireTable B) calls

/-! ### lofting a quad map -/

/-- number of points of a quad map (`max index + 1`, as `MappedSketch.positions` does) -/
def nPoints (quads : List (List Nat)) : Nat := maxOf (quads.map maxOf) + 1

/-- the blocks of one tier: bottom = the quad on layer `l`, top = the same quad on layer `l+1` -/
def loftBlocks (quads : List (List Nat)) (np l : Nat) : Blocking :=
  quads.map (fun q => q.map (· + l * np) ++ q.map (· + (l + 1) * np))

/-- `k` tiers on top of each other (a `LoftedShape` is `k = 1`, a `Stack` has `repeats = k`) -/
def stackBlocks (quads : List (List Nat)) (k : Nat) : Blocking :=
  (List.range k).flatMap (loftBlocks quads (nPoints quads))

/-- vertex ids in order of first appearance -/
def firstSeen : List Nat → List Nat → List Nat
  | [], acc => acc.reverse
  | v :: vs, acc => if memN v acc then firstSeen vs acc else firstSeen vs (v :: acc)

/-- position of `v` in a list (its length when absent) -/
def idxN (v : Nat) : List Nat → Nat
  | [] => 0
  | x :: xs => if Nat.beq v x then 0 else idxN v xs + 1

/-- renumbering as `Mesh._add_vertices` does: a new index for every vertex not met before -/
def canon (B : Blocking) : Blocking :=
  match firstSeen B.flatten [] with
  | order => B.map (fun b => b.map (fun v => idxN v order))

/-- quads in the order of `shape.operations` = flattened `Sketch.grid` -/
def opQuads (quads : List (List Nat)) (grid : List (List Nat)) : List (List Nat) :=
  grid.flatten.map (fun i => quads.getD i [])

abbrev SketchEntry := String × List (List Nat) × List (List Nat) × List (List Nat)

def SketchEntry.name (e : SketchEntry) : String := e.1
def SketchEntry.quads (e : SketchEntry) : List (List Nat) := opQuads e.2.1 e.2.2.1
def SketchEntry.chops (e : SketchEntry) : List (List Nat) := e.2.2.2

def findSketch (name : String) : Option SketchEntry := CBV.Gen.c11Sketches.find? (fun e => e.1 == name)

/-- `LoftedShape.chop(axis)`: axis 2 chops operation 0, axes 0/1 the operations listed in `Sketch.chops` -/
def chopNodesAxis (chops : List (List Nat)) (axis : Nat) : List Nat :=
  if axis == 2 then [2] else (chops.getD axis []).map (fun i => 3 * i + axis)

/-- the three documented calls `chop(0)`, `chop(1)`, `chop(2)` -/
def chopNodes (chops : List (List Nat)) : List Nat :=
  chopNodesAxis chops 0 ++ chopNodesAxis chops 1 ++ chopNodesAxis chops 2

/-- a stack: `shapes[0].chop(0)`, `shapes[0].chop(1)` and `Stack.chop()` = axis 2 of `grid[0][0]` of every tier -/
def stackChopNodes (chops : List (List Nat)) (nOps k : Nat) : List Nat :=
  chopNodesAxis chops 0 ++ chopNodesAxis chops 1 ++ (List.range k).map (fun l => 3 * (l * nOps) + 2)

/-- `Annulus(n)`: segment `i` = inner i, outer i, outer i+1, inner i+1 (points 2i, 2i+1) -/
def ringQuads (n : Nat) : List (List Nat) :=
  (List.range n).map (fun i => [2 * i, 2 * i + 1, 2 * ((i + 1) % n) + 1, 2 * ((i + 1) % n)])

/-- `RoundHollowShape`: axial = operation 0 axis 2, radial = shell[0] axis 0, tangential = every operation axis 1 -/
def ringChopNodes (n : Nat) : List Nat := [2, 0] ++ (List.range n).map (fun i => 3 * i + 1)

/-- `Grid(n, m)` (`count_1 = n` columns, `count_2 = m` rows), points numbered row by row -/
def gridQuads (n m : Nat) : List (List Nat) :=
  (List.range m).flatMap (fun iy => (List.range n).map (fun ix =>
    [iy * (n + 1) + ix, iy * (n + 1) + ix + 1, (iy + 1) * (n + 1) + ix + 1, (iy + 1) * (n + 1) + ix]))

/-! ### conformity of a quad map -/

/-- directed edges of a quad, in order -/
def quadEdges (q : List Nat) : List (Nat × Nat) :=
  [(q.getD 0 0, q.getD 1 0), (q.getD 1 0, q.getD 2 0), (q.getD 2 0, q.getD 3 0), (q.getD 3 0, q.getD 0 0)]

def commonPoints (p q : List Nat) : List Nat := p.filter (fun x => q.contains x)

/-- two different quads share nothing, one point, or one edge which they traverse in opposite directions -/
def pairConformal (p q : List Nat) : Bool :=
  match commonPoints p q with
  | [] => true
  | [_] => true
  | [_, _] => (quadEdges p).any (fun e => (quadEdges q).contains (e.2, e.1))
  | _ => false

def allPairs : List α → List (α × α)
  | [] => []
  | x :: xs => xs.map (fun y => (x, y)) ++ allPairs xs

/-- well-formed quads (4 different points), pairwise conformal and consistently oriented -/
def quadsConformal (quads : List (List Nat)) : Bool :=
  quads.all (fun q => q.length == 4 && q.Nodup) && (allPairs quads).all (fun pq => pairConformal pq.1 pq.2)

/-- every point index below `nPoints` is used by some quad (the expected vertex count of a tier) -/
def allPointsUsed (quads : List (List Nat)) : Bool :=
  (List.range (nPoints quads)).all (fun i => quads.any (fun q => q.contains i))

/-! ### geometry validators (exact rationals) -/

def triple (a b c : V3) : Rat := V3.dot (V3.cross a b) c

/-- for every corner its three neighbours ordered so that a positively oriented cell gives a positive
    triple product (the blockMesh hexahedron numbering) -/
def cornerNbrs : List (Nat × Nat × Nat) :=
  [(1, 3, 4), (2, 0, 5), (3, 1, 6), (0, 2, 7), (7, 5, 0), (4, 6, 1), (5, 7, 2), (6, 4, 3)]

def cornerJac (pts : List V3) (c : Nat) : Rat :=
  let p := pts.getD c V3.zero
  let n := cornerNbrs.getD c (0, 0, 0)
  triple (pts.getD n.1 V3.zero - p) (pts.getD n.2.1 V3.zero - p) (pts.getD n.2.2 V3.zero - p)

/-- corners whose Jacobian is not positive -/
def badCorners (pts : List V3) : List Nat := (List.range 8).filter (fun c => !(0 < cornerJac pts c))

def rightHanded (pts : List V3) : Bool := pts.length == 8 && (badCorners pts).isEmpty

/-! ### vocabulary of the property statements (Props/C11) -/

/-- blocking of the shape lofted from a sketch entry (`k` tiers) -/
def loftOf (e : SketchEntry) (k : Nat) : Blocking := stackBlocks e.quads k

/-- all a sketch class must satisfy: the three `chop(axis)` calls reach every axis, and no family is chopped twice -/
def sketchChoppable (e : SketchEntry) : Bool :=
  writeOk (loftOf e 1) (chopNodes e.chops) && separated (loftOf e 1) (chopNodes e.chops)

def sketchNamed (name : String) (p : SketchEntry → Bool) : Bool :=
  match findSketch name with
  | some e => p e
  | none => false

/-- quad maps: four different points per quad, two quads share nothing, a point, or one edge which they
    traverse in opposite directions (so one right-handed block makes all blocks right-handed), and every
    point index is used (expected vertex count of a tier) -/
def sketchConformal (e : SketchEntry) : Bool := quadsConformal e.quads && allPointsUsed e.quads

def dispNodes (d : List (List (Nat × Nat))) : List Nat := d.flatten.map (fun p => 3 * p.1 + p.2)

def findShape (name : String) : Option (String × List (List Nat) × List (List (Nat × Nat))) :=
  CBV.Gen.c11Shapes.find? (fun s => s.1 == name)

/-- lofting the quad map (in grid order) reproduces the blocking `Mesh.assemble` builds for the extruded
    probe and for the stack of 2 tiers, and `Sketch.chops` evaluates to the operations the calls chop -/
def sketchMatchesProbes (e : SketchEntry) : Bool :=
  (match findShape ("Extruded" ++ e.1) with
    | some s => decide (canon (loftOf e 1) = s.2.1) && decide (chopNodes e.chops = dispNodes s.2.2)
    | none => false) &&
  (match findShape ("Stack2" ++ e.1) with
    | some s => decide (canon (loftOf e 2) = s.2.1) && decide (stackChopNodes e.chops e.quads.length 2 = dispNodes s.2.2)
    | none => false)

/-- every probe shape (round shapes, rings, hemisphere, joints, extruded sketches, stacks): the documented
    chop calls reach every axis, and no wire family receives chops from two different calls -/
def shapeChoppable (s : String × List (List Nat) × List (List (Nat × Nat))) : Bool :=
  writeOk s.2.1 (dispNodes s.2.2) &&
    callsSeparated s.2.1 (s.2.2.map (fun call => call.map (fun p => 3 * p.1 + p.2)))

/-- the round probe shapes whose calls chop every family exactly once; the others (`Hemisphere`, the
    joints) chop some family twice within one call, with the same arguments, on congruent blocks -/
def onceShapes : List String :=
  ["Cylinder", "SemiCylinder", "Frustum", "Elbow", "ExtrudedRing3", "ExtrudedRing4", "ExtrudedRing5",
    "ExtrudedRing6", "ExtrudedRing8", "ExtrudedRing12", "RevolvedRing3", "RevolvedRing4", "RevolvedRing5",
    "RevolvedRing6", "RevolvedRing8", "RevolvedRing12"]

def shapeNamed (name : String) (p : String × List (List Nat) × List (List (Nat × Nat)) → Bool) : Bool :=
  match findShape name with
  | some s => p s
  | none => false

/-- the ring hand model `ringQuads` gives the blocking of the `ExtrudedRing` probes, and `ringChopNodes`
    their chop dispatch (a test of the hand model against the source, for the sizes in the table) -/
def ringMatchesProbe (n : Nat) : Bool :=
  match findShape ("ExtrudedRing" ++ toString n) with
  | some s => decide (canon (stackBlocks (ringQuads n) 1) = s.2.1) && decide (ringChopNodes n = dispNodes s.2.2)
  | none => false

/-- image of a vector under the linear map with rows `r1 r2 r3` -/
def lin (r1 r2 r3 v : V3) : V3 := ⟨V3.dot r1 v, V3.dot r2 v, V3.dot r3 v⟩

/-- affine placement `v ↦ M v + t` -/
def place (r1 r2 r3 t v : V3) : V3 := lin r1 r2 r3 v + t

/-- determinant of the matrix with rows `r1 r2 r3` -/
def det3 (r1 r2 r3 : V3) : Rat := triple r1 r2 r3

/-- rows of the (unnormalised) rotation matrix of a quaternion `(w, x, y, z)`, times a scale `s` -/
def quatRows (w x y z s : Rat) : V3 × V3 × V3 :=
  (⟨s * (w * w + x * x - y * y - z * z), s * (2 * (x * y - w * z)), s * (2 * (x * z + w * y))⟩,
   ⟨s * (2 * (x * y + w * z)), s * (w * w - x * x + y * y - z * z), s * (2 * (y * z - w * x))⟩,
   ⟨s * (2 * (x * z - w * y)), s * (2 * (y * z + w * x)), s * (w * w - x * x - y * y + z * z)⟩)


/-- `Point.scale(ratio, origin)`: the image of `x` under the scaling about `o` -/
def scaleAbout (r : Rat) (o x : V3) : V3 := ⟨o.x + r * (x.x - o.x), o.y + r * (x.y - o.y), o.z + r * (x.z - o.z)⟩

/-! ### point generators that need no trigonometry (exact models) -/

/-- the eight corners of an axis-aligned block with lower corner `lo` and edge lengths `dx dy dz`, in the
    order `Box.__init__` builds them: `point_0, point_0 + delta_x, point_0 + delta_x + delta_y,
    point_0 + delta_y`, and the same face translated by `delta_z` -/
def boxFrom (lo : V3) (dx dy dz : Rat) : List V3 :=
  [⟨lo.x, lo.y, lo.z⟩, ⟨lo.x + dx, lo.y, lo.z⟩, ⟨lo.x + dx, lo.y + dy, lo.z⟩, ⟨lo.x, lo.y + dy, lo.z⟩,
   ⟨lo.x, lo.y, lo.z + dz⟩, ⟨lo.x + dx, lo.y, lo.z + dz⟩, ⟨lo.x + dx, lo.y + dy, lo.z + dz⟩, ⟨lo.x, lo.y + dy, lo.z + dz⟩]

def minR (a b : Rat) : Rat := if a ≤ b then a else b
def maxR (a b : Rat) : Rat := if a ≤ b then b else a

/-- `Box(start_point, diagonal_point)`: the two points are sorted coordinate by coordinate -/
def boxPts (a b : V3) : List V3 :=
  boxFrom ⟨minR a.x b.x, minR a.y b.y, minR a.z b.z⟩ (maxR a.x b.x - minR a.x b.x) (maxR a.y b.y - minR a.y b.y)
    (maxR a.z b.z - minR a.z b.z)

/-- `Extrude(face, vector)` in the plane of the face: bottom = the four face points `(x, y, 0)`, top = bottom + `v` -/
def extrudePts (p0 p1 p2 p3 : Rat × Rat) (v : V3) : List V3 :=
  [⟨p0.1, p0.2, 0⟩, ⟨p1.1, p1.2, 0⟩, ⟨p2.1, p2.2, 0⟩, ⟨p3.1, p3.2, 0⟩,
   ⟨p0.1 + v.x, p0.2 + v.y, v.z⟩, ⟨p1.1 + v.x, p1.2 + v.y, v.z⟩, ⟨p2.1 + v.x, p2.2 + v.y, v.z⟩, ⟨p3.1 + v.x, p3.2 + v.y, v.z⟩]

/-- 2-d cross product of `b - a` and `c - a` -/
def cross2 (a b c : Rat × Rat) : Rat := (b.1 - a.1) * (c.2 - a.2) - (b.2 - a.2) * (c.1 - a.1)

/-- one segment of an `Annulus` lofted along its axis (`ExtrudedRing`): inner and outer radius `r`, `R`,
    directions `(c, s)` and `(c', s')` of its two radial sides (cosine / sine pairs), length `len` -/
def ringSegPts (r R len c s c' s' : Rat) : List V3 :=
  [⟨r * c, r * s, 0⟩, ⟨R * c, R * s, 0⟩, ⟨R * c', R * s', 0⟩, ⟨r * c', r * s', 0⟩,
   ⟨r * c, r * s, len⟩, ⟨R * c, R * s, len⟩, ⟨R * c', R * s', len⟩, ⟨r * c', r * s', len⟩]

/-- `RoundSolidShape.chop_axial / chop_radial / chop_tangential`: `LoftedShape.chop` with
    `axial_axis = 2`, `radial_axis = 0`, `tangential_axis = 1`, in the order the probe calls them -/
def roundChopNodes (chops : List (List Nat)) : List Nat :=
  chopNodesAxis chops 2 ++ chopNodesAxis chops 0 ++ chopNodesAxis chops 1

/-- the round solid shapes and the sketch class they are lofted from (`sketch_class`) -/
def roundShapeSketch : List (String × String) :=
  [("Cylinder", "FourCoreDisk"), ("Frustum", "FourCoreDisk"), ("Elbow", "FourCoreDisk"), ("SemiCylinder", "HalfDisk")]

/-- a round solid shape is the loft of its sketch class: same blocking, and its three chop helpers chop
    what `Sketch.chops` says through the axis mapping -/
def roundShapeIsLoft (ns : String × String) : Bool :=
  match findShape ns.1, findSketch ns.2 with
  | some s, some e => decide (canon (loftOf e 1) = s.2.1) && decide (roundChopNodes e.chops = dispNodes s.2.2)
  | _, _ => false

/-! ### joints with any number of branches (hand model; `JointBase.__init__` is uniform in the branch count)

`NJoint(n)`: `n` `CuspCylinder`s = `2n` `CuspSemiCylinder`s (lofts of `HalfDisk`, right half then left half of every
branch, in the order of `shapes`).  Vertices merge by position: the two halves of a branch share the five points of
their common diameter on the bottom; on the top (the sheared mitre faces) the five diameter points lie on the
rotation axis through the centre and are common to *all* halves, the other six points of the right half of branch `i`
are the mirror images of those of the left half of branch `i+1`. -/

/-- vertex ids of the hand model of a joint with `n` branches: 5 points on the common axis through the centre
    (ids 0..4: centre, inner right, inner left, outer right, outer left), then per branch `i` 17 bottom points
    and 6 points of the mitre face between branch `i` and branch `i+1` -/
def jAxis (j : Nat) : Nat := j
def jBot (n i j : Nat) : Nat := 5 + 17 * (i % n) + j
def jMitre (n i j : Nat) : Nat := 5 + 17 * n + 6 * (i % n) + j

/-- bottom point `j` (HalfDisk numbering 0..10) of the right (`s = false`) / left half of branch `i`:
    the five points on the diameter are shared by the two halves -/
def jBottom (n i : Nat) (left : Bool) (j : Nat) : Nat :=
  if !left then jBot n i j
  else match j with
    | 0 => jBot n i 0
    | 1 => jBot n i 5
    | 5 => jBot n i 1
    | 6 => jBot n i 10
    | 10 => jBot n i 6
    | 2 => jBot n i 11 | 3 => jBot n i 12 | 4 => jBot n i 13
    | 7 => jBot n i 14 | 8 => jBot n i 15 | _ => jBot n i 16

/-- top point `j` of a half: diameter points lie on the common axis; the others on the mitre face with the next
    (right half) resp. the previous (left half, mirrored: `j ↦ 6 − j`, `16 − j`) branch -/
def jTop (n i : Nat) (left : Bool) (j : Nat) : Nat :=
  match left, j with
  | _, 0 => jAxis 0
  | false, 1 => jAxis 1 | false, 5 => jAxis 2 | false, 6 => jAxis 3 | false, 10 => jAxis 4
  | true, 1 => jAxis 2 | true, 5 => jAxis 1 | true, 6 => jAxis 4 | true, 10 => jAxis 3
  | false, 2 => jMitre n i 0 | false, 3 => jMitre n i 1 | false, 4 => jMitre n i 2
  | false, 7 => jMitre n i 3 | false, 8 => jMitre n i 4 | false, _ => jMitre n i 5
  | true, 4 => jMitre n (i + n - 1) 0 | true, 3 => jMitre n (i + n - 1) 1 | true, 2 => jMitre n (i + n - 1) 2
  | true, 9 => jMitre n (i + n - 1) 3 | true, 8 => jMitre n (i + n - 1) 4 | true, _ => jMitre n (i + n - 1) 5

def jointBlocks (n : Nat) (quads : List (List Nat)) : Blocking :=
  (List.range n).flatMap (fun i => [false, true].flatMap (fun left =>
    quads.map (fun q => q.map (jBottom n i left) ++ q.map (jTop n i left))))

/-- the quad map of `HalfDisk` (the `sketch_class` of `CuspSemiCylinder`) from the regenerated table -/
def halfQuads : List (List Nat) := match findSketch "HalfDisk" with | some e => e.quads | none => []

/-- chop dispatch of `JointBase`: axial = op 0 axis 2 of every right half; radial = op 2 axis 0 of both halves of
    branch 0; tangential = ops 2,3,4 axis 1 of the right half of branch 0, op 2 axis 1 of every other right half -/
def jointChopNodes (n : Nat) : List Nat :=
  (List.range n).map (fun i => 3 * (12 * i) + 2) ++ [3 * 2 + 0, 3 * 8 + 0] ++ [3 * 2 + 1, 3 * 3 + 1, 3 * 4 + 1] ++
    (List.range (n - 1)).map (fun i => 3 * (12 * (i + 1) + 2) + 1)


/-- the joint model reproduces the assembled probe `NJoint<n>` and its chop dispatch -/
def jointMatchesProbe (n : Nat) : Bool :=
  match findShape ("NJoint" ++ toString n) with
  | some s => decide (canon (jointBlocks n halfQuads) = s.2.1) && decide (jointChopNodes n = dispNodes s.2.2)
  | none => false

/-! ### line protocol -/

def chunk8 : List Nat → Option Blocking
  | [] => some []
  | a :: b :: c :: d :: e :: f :: g :: h :: rest => (chunk8 rest).map (fun bs => [a, b, c, d, e, f, g, h] :: bs)
  | _ => none

def showBlocking (B : Blocking) : String := showNatList B.flatten

def showWrite : WriteResult → String
  | .ok => "ok"
  | .undefined bs => "undefined " ++ showNatList bs
  | .fuel => "fuel"

def sketchNodes (e : SketchEntry) (k : Nat) : List Nat :=
  if k == 1 then chopNodes e.chops else stackChopNodes e.chops e.quads.length k

def handle (op : String) (args : List String) : Option String :=
  match op, args with
  | "c11.write", [b, c] => do
      let B ← (parseNatList? b).bind chunk8
      let chops ← parseNatList? c
      if chops.all (· < 3 * B.length) then some (showWrite (writeResult B chops)) else none
  | "c11.fam", [b] => do
      let B ← (parseNatList? b).bind chunk8
      let labs ← families B
      some (showNatList labs)
  | "c11.loft", [name, k] => do
      let e ← findSketch name
      let k ← parseNat? k
      if k == 0 then none else
      some (showBlocking (canon (stackBlocks e.quads k)) ++ " " ++ showNatList (sketchNodes e k))
  | "c11.ring", [n, k] => do
      let n ← parseNat? n
      let k ← parseNat? k
      if n < 3 || k == 0 then none else
      some (showBlocking (canon (stackBlocks (ringQuads n) k)) ++ " " ++ showNatList (ringChopNodes n))
  | "c11.joint", [n] => do
      let n ← parseNat? n
      if n < 2 then none else
      some (showBlocking (canon (jointBlocks n halfQuads)) ++ " " ++ showNatList (jointChopNodes n))
  | "c11.grid", [n, m, k] => do
      let n ← parseNat? n
      let m ← parseNat? m
      let k ← parseNat? k
      if n == 0 || m == 0 || k == 0 then none else
      some (showBlocking (canon (stackBlocks (gridQuads n m) k)))
  | "c11.shape", [name] => do
      let e ← CBV.Gen.c11Shapes.find? (fun e => e.1 == name)
      some (showBlocking e.2.1 ++ " " ++ showNatList ((e.2.2.flatten).map (fun p => 3 * p.1 + p.2)))
  | "c11.box", [a, b] => do
      let a ← parseV3? a
      let b ← parseV3? b
      some (" ".intercalate ((boxPts a b).map V3.toStr))
  | "c11.rh", pts => do
      let ps ← pts.mapM parseV3?
      if ps.length != 8 then none else
      some (if rightHanded ps then "ok" else "fail " ++ showNatList (badCorners ps))
  | _, _ => handleGeo (fun n => (findSketch n).map (·.quads)) op args

end CBV.C11
