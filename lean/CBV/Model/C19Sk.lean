/-
C19 (round 6) — the index structures of the sketch classes computed from what their *source* says
(`CBV.Gen.c19QuadMaps / c19GridSpecs / c19Parents / c19Merges / c19Returns`, regenerated with `ast` at every run):
`MappedSketch.__init__` (one face per quad, in order), `MappedSketch.merge` (faces of the other sketch appended),
the `grid` properties (python slices and the comprehension of the spline disks, the `len(self.faces) > N` guard with
`super().grid`), `core` / `shell`; `Stack.get_slice` and `Stack.chop` interpreted from their regenerated branches.
Core Lean only.
-/
import CBV.Model.C19Base
import CBV.Model.C19Geo
import CBV.Gen.TC19

namespace CBV.C19

/-- (kind, a, b, c): see the doc of `CBV.Gen.c19GridSpecs` -/
abbrev RowSpec := Nat × Nat × Nat × Nat

/-- the indices a python slice `[start:stop:step]` selects from a list of `n` items (bounds ≥ 0, `none` = to the end, step > 0) -/
def sliceIdx (n start : Nat) (stop : Option Nat) (step : Nat) : List Nat :=
  (List.range n).filter (fun i =>
    decide (start ≤ i) && (match stop with | some e => decide (i < e) | none => true) && (i - start) % step == 0)

/-- one row of a `grid` list expression on a sketch of `n` faces, as face indices; `none` = IndexError / unknown form -/
def evalRow (n : Nat) (r : RowSpec) : Option (List Nat) :=
  if r.1 = 0 then (if r.2.2.2 = 0 then none else some (sliceIdx n r.2.1 (if r.2.2.1 = 0 then none else some (r.2.2.1 - 1)) r.2.2.2))
  else if r.1 = 1 then (if r.2.1 < n then some [r.2.1] else none)
  else if r.1 = 2 then (if r.2.1 = 0 then none else some ((List.range n).filter (fun i => !(i % r.2.1 == r.2.2.1))))
  else if r.1 = 3 ∨ r.1 = 4 then some (List.range n)
  else none

def evalGrid (n : Nat) (rows : List RowSpec) : Option (List (List Nat)) := allSome (rows.map (evalRow n))

def lookup {β : Type} (name : String) (t : List (String × β)) : Option β := (t.find? (fun r => r.1 == name)).map (·.2)

/-- the number of faces of an instance: `MappedSketch.__init__` makes one face per quad of `quad_map`;
    `self.merge(other)` appends the faces of `other` (an instance of a named class, or a copy of `self`) -/
def faceCount : Nat → String → Option Nat
  | 0, _ => none
  | fuel + 1, cls =>
    match lookup cls CBV.Gen.c19QuadMaps with
    | some q => some q.length
    | none =>
      match lookup cls CBV.Gen.c19Parents with
      | none => none
      | some parent =>
        match faceCount fuel parent with
        | none => none
        | some n =>
          match lookup cls CBV.Gen.c19Merges with
          | none => some n
          | some (how, other) =>
            if how == "self" then some (n + n)
            else if how == "cls" then (faceCount fuel other).map (n + ·)
            else none

/-- `cls(...).grid` on an instance with `n` faces: the rows of the class that defines `grid`; behind a guard
    `if len(self.faces) > N` the `else` branch is `super().grid` (of the defining class) -/
def gridOf : Nat → String → Nat → Option (List (List Nat))
  | 0, _, _ => none
  | fuel + 1, cls, n =>
    match lookup cls CBV.Gen.c19GridSpecs with
    | none => none
    | some (definer, guard, rows) =>
      if guard = 0 ∨ n > guard then evalGrid n rows
      else
        match lookup definer CBV.Gen.c19Parents with
        | none => none
        | some parent => gridOf fuel parent n

/-- `core` / `shell` as the source states them on the grid -/
def evalSel (grid : List (List Nat)) (expr : String) : Option (List Nat) :=
  if expr == "self.grid[0]" then grid.head?
  else if expr == "self.grid[-1]" then grid.getLast?
  else if expr == "None" then some []
  else none

structure SketchIdx where
  n : Nat
  grid : List (List Nat)
  core : List Nat
  shell : List Nat
  deriving DecidableEq, Repr

/-- everything the source says about the index structure of a sketch class -/
def sketchFromSource (cls : String) : Option SketchIdx :=
  match faceCount 4 cls with
  | none => none
  | some n =>
    match gridOf 4 cls n with
    | none => none
    | some g =>
      match lookup (cls ++ ".core") CBV.Gen.c19Returns, lookup (cls ++ ".shell") CBV.Gen.c19Returns with
      | some (_, ce), some (_, se) =>
        match evalSel g ce, evalSel g se with
        | some c, some s => some ⟨n, g, c, s⟩
        | _, _ => none
      | _, _ => none

/-! ### `Stack.get_slice` / `Stack.chop` interpreted from the regenerated source -/

def sliceBranch (spec : List (Nat × List String)) (axis : Nat) : Option (List String) :=
  match spec.find? (fun b => b.1 == axis) with
  | some b => some b.2
  | none => (spec.find? (fun b => b.1 == 99)).map (·.2)

/-- `get_slice` as its source reads (the translator writes `v1` for the index parameter, `shape` / `loop` for the two loop variables): the branch for `axis` (else the `else` branch), the element expression interpreted -/
def getSliceBy {β : Type} (spec : List (Nat × List String)) (shapes : List (List (List β))) (axis idx : Nat) : Option (List β) :=
  match sliceBranch spec axis with
  | some [e] =>
    if e == "self.shapes[v1].operations" then (shapes[idx]?).map operations else none
  | some [e, it] =>
    if e == "shape.grid[loop][v1]" && it == "range(len(shape.grid))" then
      (allSome (shapes.map (fun g => allSome (g.map (fun row => row[idx]?))))).map List.flatten
    else if e == "shape.grid[v1][loop]" && it == "range(len(shape.grid[v1]))" then
      (allSome (shapes.map (fun g => g[idx]?))).map List.flatten
    else none
  | _ => none

/-- `Stack.chop` as its source reads: `shape.grid[a][b].chop(axis, …)` for every shape: the chopped operations and the axis -/
def stackChopBy {β : Type} (spec : List Nat) (shapes : List (List (List β))) : Option (List β × Nat) :=
  match spec with
  | [a, b, axis] => (allSome (shapes.map (fun g => (g[a]?).bind (·[b]?)))).map (·, axis)
  | _ => none

/-! ### line protocol -/

def handleSk (op : String) (args : List String) : Option String :=
  match op, args with
  | "c19.sketchsrc", [cls] => do
      let s ← sketchFromSource cls
      let cells := match lookup cls CBV.Gen.c19QuadMaps with
        | some q => showNatss (canonCells q)
        | none => "-"
      some s!"n={s.n} cells={cells} grid={showNatss s.grid} core={showNats s.core} shell={showNats s.shell}"
  | "c19.slicesrc", [nx, ny, nz, axis, idx] => do
      let nx ← nx.toNat?; let ny ← ny.toNat?; let nz ← nz.toNat?; let axis ← axis.toNat?; let idx ← idx.toNat?
      if axis > 2 then none
      let g ← stackGrid nx ny nz
      match nSlices g axis with
      | none => some "IndexError"
      | some n =>
        if idx ≥ n then some "ValueError" else
        match getSliceBy CBV.Gen.c19SliceSpec g axis idx with
        | some l => some (showList (l.map showLoft))
        | none => some "IndexError"
  | _, _ => none

end CBV.C19
