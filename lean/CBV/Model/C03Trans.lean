/-
C03 — the bodies of the relations of `grading/relations.py` as statement trees.

`cbv/tables/c03.py` translates, with Python's `ast` on the current source, the body of every `get_*` relation into a
prefix token list (`CBV.Gen.c03RelBodies`; unknown syntax makes the table generation fail).  Here:
* the tree types `Expr` / `Cond` / `Stmt` and their token encoding `enc` (the grammar the translator follows);
* the bodies as the model knows them (`relBodies`, one tree per relation) — `T_C03_translated_source` proves that their
  encoding is the generated token list, so every operator, constant, `+ 1`, guard and branch order of the source is pinned;
* a semantics `run` of the trees over exact rationals.  Guards, comparisons, branch order, locals and arithmetic
  (`+ - * / abs`, `**` with a whole exponent, `ZeroDivisionError`) are evaluated exactly; what the code obtains from
  `np.log`/`int`, `np.ceil`, `**(1/k)` and `scipy.optimize.brentq` goes through the slots `Prims`, which receive the
  exactly evaluated operands.  `T_C03_translated_*` prove `run (tree) = model function` for all arguments.
Core Lean only.
-/
import CBV.Model.C03

namespace CBV.C03

inductive Cmp where
  | lt | le | gt | ge | eq | ne
  deriving DecidableEq, Repr

inductive Expr where
  | var (x : String)
  | lit (n : Nat)
  /-- `constants.TOL` -/
  | tol
  /-- `R_MAX` -/
  | rmax
  | add (a b : Expr)
  | sub (a b : Expr)
  | mul (a b : Expr)
  | div (a b : Expr)
  | pow (a b : Expr)
  | abs (a : Expr)
  /-- `np.log` -/
  | log (a : Expr)
  | int (a : Expr)
  /-- `np.ceil` -/
  | ceil (a : Expr)
  /-- call of a local function -/
  | call (f : String) (a : Expr)
  /-- `scipy.optimize.brentq(f, lo, hi)` -/
  | brentq (f : String) (lo hi : Expr)
  deriving Repr, DecidableEq

inductive Cond where
  | cmp (op : Cmp) (a b : Expr)
  /-- a comparison chain `a > b > c` -/
  | and (a b : Cond)
  | not (c : Cond)
  /-- `np.isnan` -/
  | isnan (e : Expr)
  deriving Repr, DecidableEq

inductive Stmt where
  /-- `_validate_*(args)` (names of variables, string constants) -/
  | validate (fn : String) (args : List String)
  /-- `if c: raise ValueError(…)` -/
  | raiseIf (c : Cond)
  /-- `if c: return e` -/
  | retIf (c : Cond) (e : Expr)
  /-- `if c: x = …; y = …  else: x = …; y = …` -/
  | ite (c : Cond) (a b : List (String × Expr))
  | assign (x : String) (e : Expr)
  | ret (e : Expr)
  /-- `def f(p): return e` -/
  | defn (f p : String) (e : Expr)
  deriving Repr, DecidableEq

/-! ### token encoding (prefix notation; the translator `cbv/tables/c03.py` writes the same grammar) -/

def digitTok : Nat → String
  | 0 => "0" | 1 => "1" | 2 => "2" | 3 => "3" | 4 => "4" | 5 => "5" | 6 => "6" | 7 => "7" | 8 => "8" | 9 => "9"
  | _ => "big"

def Cmp.tok : Cmp → String
  | .lt => "<" | .le => "<=" | .gt => ">" | .ge => ">=" | .eq => "==" | .ne => "!="

def Expr.enc : Expr → List String
  | .var x => ["var", x]
  | .lit n => ["lit", digitTok n]
  | .tol => ["TOL"]
  | .rmax => ["R_MAX"]
  | .add a b => "+" :: (a.enc ++ b.enc)
  | .sub a b => "-" :: (a.enc ++ b.enc)
  | .mul a b => "*" :: (a.enc ++ b.enc)
  | .div a b => "/" :: (a.enc ++ b.enc)
  | .pow a b => "**" :: (a.enc ++ b.enc)
  | .abs a => "abs" :: a.enc
  | .log a => "log" :: a.enc
  | .int a => "int" :: a.enc
  | .ceil a => "ceil" :: a.enc
  | .call f a => "call" :: f :: a.enc
  | .brentq f lo hi => "brentq" :: f :: (lo.enc ++ hi.enc)

def Cond.enc : Cond → List String
  | .cmp op a b => "cmp" :: op.tok :: (a.enc ++ b.enc)
  | .and a b => "and" :: (a.enc ++ b.enc)
  | .not c => "not" :: c.enc
  | .isnan e => "isnan" :: e.enc

def encAssigns : List (String × Expr) → List String
  | [] => []
  | (x, e) :: rest => x :: (e.enc ++ encAssigns rest)

def Stmt.enc : Stmt → List String
  | .validate fn args => "validate" :: fn :: digitTok args.length :: args
  | .raiseIf c => "raiseif" :: c.enc
  | .retIf c e => "retif" :: (c.enc ++ e.enc)
  | .ite c a b => "ite" :: (c.enc ++ (digitTok a.length :: encAssigns a) ++ (digitTok b.length :: encAssigns b))
  | .assign x e => "assign" :: x :: e.enc
  | .ret e => "ret" :: e.enc
  | .defn f p e => "def" :: f :: p :: e.enc

def encBody : List Stmt → List String
  | [] => []
  | s :: rest => s.enc ++ encBody rest

/-! ### semantics over exact rationals -/

/-- what a local variable holds -/
inductive LVal where
  | num (q : Rat)
  /-- `np.log(A) / np.log(B)`; `A = none`: the argument of the first logarithm divides by zero -/
  | logRatio (A : Option Rat) (B : Rat)
  /-- a value that is not an exact rational (a root): only handed to the solver -/
  | opaque
  deriving Repr

abbrev PEnv := List (String × LVal)

def PEnv.num (env : PEnv) (x : String) : Except Err Rat :=
  match env.lookup x with
  | some (.num q) => pure q
  | some _ => .error .unmodelled
  | none => .error .table

/-- a rational that is a whole number `>= 0` -/
def natOf (y : Rat) : Option Nat := if y.den = 1 ∧ 0 ≤ y.num then some y.num.toNat else none

/-- exact evaluation; `unmodelled` for anything that is not an exact rational operation -/
def evalE (env : PEnv) : Expr → Except Err Rat
  | .var x => env.num x
  | .lit n => pure (n : Rat)
  | .tol => pure TOL
  | .rmax => pure RMAX
  | .add a b => do let x ← evalE env a; let y ← evalE env b; pure (x + y)
  | .sub a b => do let x ← evalE env a; let y ← evalE env b; pure (x - y)
  | .mul a b => do let x ← evalE env a; let y ← evalE env b; pure (x * y)
  | .div a b => do
      let x ← evalE env a
      let y ← evalE env b
      if y = 0 then .error .zeroDiv else pure (x / y)
  | .pow a b => do
      let x ← evalE env a
      let y ← evalE env b
      match natOf y with
      | some k => pure (x ^ k)
      | none => .error .unmodelled
  | .abs a => do let x ← evalE env a; pure (absR x)
  | .log _ => .error .unmodelled
  | .int _ => .error .unmodelled
  | .ceil _ => .error .unmodelled
  | .call _ _ => .error .unmodelled
  | .brentq _ _ _ => .error .unmodelled

def Cmp.holds (op : Cmp) (x y : Rat) : Bool :=
  match op with
  | .lt => decide (x < y) | .le => decide (x ≤ y) | .gt => decide (x > y) | .ge => decide (x ≥ y)
  | .eq => decide (x = y) | .ne => decide (x ≠ y)

/-- `np.log(A)/np.log(B)` is `nan` -/
def logRatioNan (A : Option Rat) (B : Rat) : Bool :=
  decide (B < 0) || (match A with | some a => decide (a < 0) | none => false)

def evalC (env : PEnv) : Cond → Except Err Bool
  | .cmp op a b =>
      match op, a, b with
      | .lt, .var x, .lit 0 =>
          match env.lookup x with
          | some (.logRatio A B) =>
              -- sign of a quotient of logarithms: negative iff the arguments lie on opposite sides of 1 (`nan < 0` is False)
              match A with
              | some a => pure (!(logRatioNan A B) && decide ((a - 1) * (B - 1) < 0))
              | none => pure false
          | _ => do let u ← evalE env a; let v ← evalE env b; pure (op.holds u v)
      | _, _, _ => do let u ← evalE env a; let v ← evalE env b; pure (op.holds u v)
  | .and a b => do let u ← evalC env a; if u then evalC env b else pure false
  | .not c => do let u ← evalC env c; pure (!u)
  | .isnan e =>
      match e with
      | .var x =>
          match env.lookup x with
          | some (.num _) => pure false
          | some (.logRatio A B) => pure (logRatioNan A B)
          | some .opaque => .error .unmodelled
          | none => .error .table
      | _ => .error .unmodelled

/-- a validator call (the bodies of the simple validators are tied by `T_C03_translated_validators`) -/
def validateSem (env : PEnv) (fn : String) (args : List String) : Except Err Unit :=
  match fn, args with
  | "_validate_length", [x] => do let q ← env.num x; if q ≤ 0 then .error .value else pure ()
  | "_validate_count", [x, ">=1"] => do let q ← env.num x; if q < 1 then .error .value else pure ()
  | "_validate_count", [x, ">1"] => do let q ← env.num x; if ¬(q > 1) then .error .value else pure ()
  | "_validate_start_end_size", [x, _] => do let q ← env.num x; if q ≤ 0 then .error .value else pure ()
  | "_validate_c2c_expansion", [x] => do let q ← env.num x; if q = 0 then .error .value else pure ()
  | "_validate_total_expansion", [x] => do let q ← env.num x; if q = 0 then .error .value else pure ()
  | _, _ => .error .table

/-- `x = e` -/
def assignSem (env : PEnv) (x : String) (e : Expr) : Except Err PEnv :=
  match e with
  | .div (.log a) (.log b) =>
      match evalE env b with
      | .error err => .error err
      | .ok B =>
          match evalE env a with
          | .ok A => pure ((x, .logRatio (some A) B) :: env)
          | .error .zeroDiv => pure ((x, .logRatio none B) :: env)
          | .error err => .error err
  | _ =>
      match evalE env e with
      | .ok q => pure ((x, .num q) :: env)
      | .error .unmodelled => pure ((x, .opaque) :: env)
      | .error err => .error err

def assignAll (env : PEnv) : List (String × Expr) → Except Err PEnv
  | [] => pure env
  | (x, e) :: rest => do let env' ← assignSem env x e; assignAll env' rest

/-- the numeric library steps: what the implementation obtained, accepted when it meets the specification of the step -/
structure Prims where
  /-- `int(np.log(A) / np.log(B)) + 1` for `A > 0`, `B > 0` -/
  intLog1 : Rat → Rat → Except Err Nat
  /-- `int(q) + 1` -/
  int1 : Rat → Except Err Nat
  /-- `int(np.ceil(q))` -/
  ceil : Rat → Except Err Nat
  /-- `int(brentq(f, lo, hi)) + 1` -/
  brentqInt1 : Rat → Rat → Except Err Nat
  /-- `brentq(f, lo, hi)` (the bracket may consist of roots) -/
  brentq : Except Err Rat
  /-- `x ** (1 / k)` -/
  root : Rat → Rat → Except Err Rat

def natRes (r : Except Err Nat) : Except Err Rat := r.map (fun n => (n : Rat))

/-- `return e` -/
def retSem (P : Prims) (env : PEnv) (e : Expr) : Except Err Rat :=
  match e with
  | .add (.int (.var x)) (.lit 1) =>
      match env.lookup x with
      | some (.num q) => natRes (P.int1 q)
      | some (.logRatio A B) =>
          if B < 0 then .error .value                       -- int(nan)
          else match A with
            | none => .error .numeric
            | some a =>
                if a < 0 then .error .value                 -- int(nan)
                else if a = 0 then .error .numeric          -- int(-inf)
                else natRes (P.intLog1 a B)
      | some .opaque => .error .unmodelled
      | none => .error .table
  | .int (.ceil a) => do let q ← evalE env a; natRes (P.ceil q)
  | .add (.int (.brentq _ lo hi)) (.lit 1) => do
      let l ← evalE env lo
      let h ← evalE env hi
      natRes (P.brentqInt1 l h)
  | .brentq _ _ _ => P.brentq
  | .pow a (.div (.lit 1) m) => do
      let x ← evalE env a
      let k ← evalE env m
      if k = 0 then .error .zeroDiv else P.root x k
  | _ => evalE env e

/-- the statements in order -/
def run (P : Prims) : PEnv → List Stmt → Except Err Rat
  | _, [] => .error .table
  | env, .validate fn args :: rest =>
      match validateSem env fn args with
      | .error e => .error e
      | .ok _ => run P env rest
  | env, .raiseIf c :: rest =>
      match evalC env c with
      | .ok true => .error .value
      | .ok false => run P env rest
      | .error .unmodelled => run P env rest   -- a test on solver quantities (bracket test): part of the solver step
      | .error e => .error e
  | env, .retIf c e :: rest =>
      match evalC env c with
      | .ok true => retSem P env e
      | .ok false => run P env rest
      | .error e => .error e
  | env, .ite c a b :: rest =>
      match evalC env c with
      | .error e => .error e
      | .ok u =>
          match assignAll env (if u then a else b) with
          | .error e => .error e
          | .ok env' => run P env' rest
  | env, .assign x e :: rest =>
      match assignSem env x e with
      | .error e => .error e
      | .ok env' => run P env' rest
  | env, .ret e :: _ => retSem P env e
  | env, .defn _ _ _ :: rest => run P env rest

/-- the arguments of a relation call `f(length, in1, in2)` -/
def relEnv (rel : Rel) (L a b : Rat) : PEnv :=
  [("length", .num L), (rel.in1.name, .num a), (rel.in2.name, .num b)]

/-! ### the function a body hands to `brentq`, evaluated exactly -/

/-- the local function `def f(p): return e` of a body -/
def findDefn : List Stmt → String → Option (String × Expr)
  | [], _ => none
  | .defn g p e :: rest, f => if g = f then some (p, e) else findDefn rest f
  | _ :: rest, f => findDefn rest f

/-- the name of the function in the final `return brentq(f, …)` / `return int(brentq(f, …)) + 1` -/
def brentqFn : List Stmt → Option String
  | [] => none
  | [.ret (.brentq f _ _)] => some f
  | [.ret (.add (.int (.brentq f _ _)) (.lit 1))] => some f
  | _ :: rest => brentqFn rest

/-- the function of the source whose root the body returns, as translated, evaluated exactly at the rational point `x`
    with the relation's arguments `env` (`unmodelled` when it is not an exact rational operation: fractional powers) -/
def solverFn (env : PEnv) (body : List Stmt) (x : Rat) : Except Err Rat :=
  match brentqFn body with
  | none => .error .table
  | some f =>
      match findDefn body f with
      | none => .error .table
      | some (p, e) => evalE ((p, .num x) :: env) e

/-! ### the bodies as the model knows them (pinned to the generated token lists by `T_C03_translated_source_*`; locals are named `v0, v1, …` in order of first appearance, as the translator renames them) -/

/-- `get_c2c_expansion__count__end_size` -/
def body_c2c_count_end : List Stmt :=
  [.validate "_validate_length" ["length"],
   .validate "_validate_count" ["count", ">=1"],
   .validate "_validate_start_end_size" ["end_size", "end"],
   .retIf (.cmp .lt (.div (.abs (.sub (.mul (.var "count") (.var "end_size")) (.var "length"))) (.var "length")) (.tol))
      (.lit 1),
   .ite (.cmp .gt (.mul (.var "count") (.var "end_size")) (.var "length"))
      [("v0", .pow (.rmax) (.div (.lit 1) (.sub (.var "count") (.lit 1)))),
       ("v1", .pow (.add (.lit 1) (.tol)) (.div (.lit 1) (.sub (.var "count") (.lit 1))))]
      [("v0", .pow (.sub (.lit 1) (.tol)) (.div (.lit 1) (.sub (.var "count") (.lit 1)))),
       ("v1", .pow (.div (.lit 1) (.rmax)) (.div (.lit 1) (.sub (.var "count") (.lit 1))))],
   .defn "v2" "v3"
      (.sub (.div (.mul (.div (.lit 1) (.pow (.var "v3") (.sub (.var "count") (.lit 1)))) (.sub (.lit 1) (.pow (.var "v3") (.var "count")))) (.sub (.lit 1) (.var "v3"))) (.div (.var "length") (.var "end_size"))),
   .raiseIf (.cmp .ge (.mul (.call "v2" (.var "v1")) (.call "v2" (.var "v0"))) (.lit 0)),
   .ret (.brentq "v2" (.var "v1") (.var "v0"))]

/-- `get_c2c_expansion__count__start_size` -/
def body_c2c_count_start : List Stmt :=
  [.validate "_validate_length" ["length"],
   .validate "_validate_count" ["count", ">=1"],
   .raiseIf (.not (.and (.cmp .gt (.var "length") (.var "start_size")) (.cmp .gt (.var "start_size") (.lit 0)))),
   .retIf (.cmp .eq (.var "count") (.lit 1))
      (.lit 1),
   .retIf (.cmp .lt (.div (.abs (.sub (.mul (.var "count") (.var "start_size")) (.var "length"))) (.var "length")) (.tol))
      (.lit 1),
   .ite (.cmp .lt (.mul (.var "count") (.var "start_size")) (.var "length"))
      [("v0", .pow (.rmax) (.div (.lit 1) (.sub (.var "count") (.lit 1)))),
       ("v1", .pow (.add (.lit 1) (.tol)) (.div (.lit 1) (.sub (.var "count") (.lit 1))))]
      [("v0", .pow (.sub (.lit 1) (.tol)) (.div (.lit 1) (.sub (.var "count") (.lit 1)))),
       ("v1", .pow (.div (.lit 1) (.rmax)) (.div (.lit 1) (.sub (.var "count") (.lit 1))))],
   .defn "v2" "v3"
      (.sub (.div (.sub (.lit 1) (.pow (.var "v3") (.var "count"))) (.sub (.lit 1) (.var "v3"))) (.div (.var "length") (.var "start_size"))),
   .raiseIf (.cmp .ge (.mul (.call "v2" (.var "v1")) (.call "v2" (.var "v0"))) (.lit 0)),
   .ret (.brentq "v2" (.var "v1") (.var "v0"))]

/-- `get_c2c_expansion__count__total_expansion` -/
def body_c2c_count_total : List Stmt :=
  [.validate "_validate_length" ["length"],
   .validate "_validate_count" ["count", ">1"],
   .validate "_validate_total_expansion" ["total_expansion"],
   .ret (.pow (.var "total_expansion") (.div (.lit 1) (.sub (.var "count") (.lit 1))))]

/-- `get_count__end_size__c2c_expansion` -/
def body_count_end_c2c : List Stmt :=
  [.validate "_validate_length" ["length"],
   .validate "_validate_start_end_size" ["end_size", "end"],
   .validate "_validate_c2c_expansion" ["c2c_expansion"],
   .ite (.cmp .gt (.abs (.sub (.var "c2c_expansion") (.lit 1))) (.tol))
      [("v0", .div (.log (.div (.lit 1) (.add (.lit 1) (.div (.mul (.div (.var "length") (.var "end_size")) (.sub (.lit 1) (.var "c2c_expansion"))) (.var "c2c_expansion"))))) (.log (.var "c2c_expansion")))]
      [("v0", .div (.var "length") (.var "end_size"))],
   .raiseIf (.isnan (.var "v0")),
   .ret (.add (.int (.var "v0")) (.lit 1))]

/-- `get_count__start_size__c2c_expansion` -/
def body_count_start_c2c : List Stmt :=
  [.validate "_validate_length" ["length"],
   .validate "_validate_start_end_size" ["start_size", "start"],
   .validate "_validate_c2c_expansion" ["c2c_expansion"],
   .ite (.cmp .gt (.abs (.sub (.var "c2c_expansion") (.lit 1))) (.tol))
      [("v0", .div (.log (.sub (.lit 1) (.mul (.div (.var "length") (.var "start_size")) (.sub (.lit 1) (.var "c2c_expansion"))))) (.log (.var "c2c_expansion")))]
      [("v0", .div (.var "length") (.var "start_size"))],
   .ret (.add (.int (.var "v0")) (.lit 1))]

/-- `get_count__total_expansion__c2c_expansion` -/
def body_count_total_c2c : List Stmt :=
  [.validate "_validate_length" ["length"],
   .validate "_validate_total_expansion" ["total_expansion"],
   .validate "_validate_c2c_expansion" ["c2c_expansion"],
   .raiseIf (.cmp .le (.abs (.sub (.var "c2c_expansion") (.lit 1))) (.tol)),
   .assign "v0" (.div (.log (.var "total_expansion")) (.log (.var "c2c_expansion"))),
   .raiseIf (.cmp .lt (.var "v0") (.lit 0)),
   .ret (.add (.int (.var "v0")) (.lit 1))]

/-- `get_count__total_expansion__start_size` -/
def body_count_total_start : List Stmt :=
  [.validate "_validate_length" ["length"],
   .validate "_validate_start_end_size" ["start_size", "start"],
   .validate "_validate_total_expansion" ["total_expansion"],
   .ite (.cmp .gt (.var "total_expansion") (.lit 1))
      [("v0", .var "start_size")]
      [("v0", .mul (.var "start_size") (.var "total_expansion"))],
   .retIf (.cmp .lt (.abs (.sub (.var "total_expansion") (.lit 1))) (.tol))
      (.int (.ceil (.div (.var "length") (.var "v0")))),
   .defn "v1" "v2"
      (.sub (.div (.sub (.lit 1) (.pow (.var "total_expansion") (.div (.var "v2") (.sub (.var "v2") (.lit 1))))) (.sub (.lit 1) (.pow (.var "total_expansion") (.div (.lit 1) (.sub (.var "v2") (.lit 1)))))) (.div (.var "length") (.var "start_size"))),
   .ret (.add (.int (.brentq "v1" (.lit 0) (.div (.var "length") (.var "v0")))) (.lit 1))]

/-- `get_end_size__start_size__total_expansion` -/
def body_end_start_total : List Stmt :=
  [.validate "_validate_length" ["length"],
   .validate "_validate_total_expansion" ["total_expansion"],
   .ret (.mul (.var "start_size") (.var "total_expansion"))]

/-- `get_start_size__count__c2c_expansion` (a closed-form relation: the operands of `+` / `*` are in the canonical token
    order of the translator, here `(1 - c) * length` for the source's `length * (1 - c)`) -/
def body_start_count_c2c : List Stmt :=
  [.validate "_validate_length" ["length"],
   .validate "_validate_count" ["count", ">=1"],
   .validate "_validate_c2c_expansion" ["c2c_expansion"],
   .retIf (.cmp .gt (.abs (.sub (.var "c2c_expansion") (.lit 1))) (.tol))
      (.div (.mul (.sub (.lit 1) (.var "c2c_expansion")) (.var "length")) (.sub (.lit 1) (.pow (.var "c2c_expansion") (.var "count")))),
   .ret (.div (.var "length") (.var "count"))]

/-- `get_start_size__end_size__total_expansion` -/
def body_start_end_total : List Stmt :=
  [.validate "_validate_length" ["length"],
   .validate "_validate_total_expansion" ["total_expansion"],
   .ret (.div (.var "end_size") (.var "total_expansion"))]

/-- `get_total_expansion__count__c2c_expansion` -/
def body_total_count_c2c : List Stmt :=
  [.validate "_validate_length" ["length"],
   .validate "_validate_count" ["count", ">=1"],
   .validate "_validate_c2c_expansion" ["c2c_expansion"],
   .ret (.pow (.var "c2c_expansion") (.sub (.var "count") (.lit 1)))]

/-- `get_total_expansion__start_size__end_size` -/
def body_total_start_end : List Stmt :=
  [.validate "_validate_length" ["length"],
   .validate "_validate_start_end_size" ["start_size", "start"],
   .validate "_validate_start_end_size" ["end_size", "end"],
   .ret (.div (.var "end_size") (.var "start_size"))]

def relBodies : List (Rel × List Stmt) :=
  [(⟨.c2c, .count, .end_⟩, body_c2c_count_end),
   (⟨.c2c, .count, .start⟩, body_c2c_count_start),
   (⟨.c2c, .count, .total⟩, body_c2c_count_total),
   (⟨.count, .end_, .c2c⟩, body_count_end_c2c),
   (⟨.count, .start, .c2c⟩, body_count_start_c2c),
   (⟨.count, .total, .c2c⟩, body_count_total_c2c),
   (⟨.count, .total, .start⟩, body_count_total_start),
   (⟨.end_, .start, .total⟩, body_end_start_total),
   (⟨.start, .count, .c2c⟩, body_start_count_c2c),
   (⟨.start, .end_, .total⟩, body_start_end_total),
   (⟨.total, .count, .c2c⟩, body_total_count_c2c),
   (⟨.total, .start, .end_⟩, body_total_start_end)]

def validatorBodies : List (String × Nat × List Stmt) :=
  [("_validate_length", 1, [.raiseIf (.cmp .le (.var "v0") (.lit 0))]),
   ("_validate_start_end_size", 2, [.raiseIf (.cmp .le (.var "v0") (.lit 0))]),
   ("_validate_c2c_expansion", 1, [.raiseIf (.cmp .eq (.var "v0") (.lit 0))]),
   ("_validate_total_expansion", 1, [.raiseIf (.cmp .eq (.var "v0") (.lit 0))])]

/-! ### `Chop.invert` as a statement list -/

/-- the statements `Chop.invert` consists of -/
inductive IStmt where
  /-- `self.t1, self.t2 = self.v1, self.v2` -/
  | assign2 (t1 t2 v1 v2 : String)
  /-- `if self.x is not None: self.y = 1 / self.z` -/
  | ifsetRecip (x y z : String)
  /-- `if self.f == c1: self.g1 = n1  elif self.f == c2: self.g2 = n2 …` -/
  | case (field : String) (arms : List (String × String × String))
  deriving Repr, DecidableEq

def encArms : List (String × String × String) → List String
  | [] => []
  | (c, g, n) :: rest => c :: g :: n :: encArms rest

def IStmt.enc : IStmt → List String
  | .assign2 t1 t2 v1 v2 => ["assign2", t1, t2, v1, v2]
  | .ifsetRecip x y z => ["ifset", x, "recip", y, z]
  | .case f arms => "case" :: f :: digitTok arms.length :: encArms arms

def encIBody : List IStmt → List String
  | [] => []
  | s :: rest => s.enc ++ encIBody rest

/-- the four rational fields of a chop -/
def fieldQ (x : String) : Option Q :=
  match Q.ofString? x with
  | some .count => none
  | q => q

def Vals.setOpt (v : Vals) (q : Q) (x : Option Rat) : Vals :=
  match q with
  | .count => v
  | .start => { v with start := x }
  | .end_ => { v with end_ := x }
  | .c2c => { v with c2c := x }
  | .total => { v with total := x }

/-- the statements in order on (fields, `preserve`); an exception stops the run and leaves the state reached -/
def runI : List IStmt → Vals × Q → (Vals × Q) × Option Err
  | [], st => (st, none)
  | .assign2 t1 t2 v1 v2 :: rest, (v, p) =>
      match fieldQ t1, fieldQ t2, fieldQ v1, fieldQ v2 with
      | some a, some b, some c, some d => runI rest ((v.setOpt a (v.get c)).setOpt b (v.get d), p)
      | _, _, _, _ => ((v, p), some .table)
  | .ifsetRecip x y z :: rest, (v, p) =>
      match fieldQ x, fieldQ y, fieldQ z with
      | some a, some b, some c =>
          match v.get a with
          | none => runI rest (v, p)
          | some _ =>
              match v.get c with
              | none => ((v, p), some .table)
              | some w => if w = 0 then ((v, p), some .zeroDiv) else runI rest (v.setOpt b (some (1 / w)), p)
      | _, _, _ => ((v, p), some .table)
  | .case f arms :: rest, (v, p) =>
      if f = "preserve" then
        match arms.find? (fun a => a.1 = p.name) with
        | none => runI rest (v, p)
        | some (_, g, n) =>
            match Q.ofString? n with
            | some q => if g = "preserve" then runI rest (v, q) else ((v, p), some .table)
            | none => ((v, p), some .table)
      else ((v, p), some .table)

/-- `Chop.invert` as the model knows it (pinned to `CBV.Gen.c03InvertBody` by `T_C03_translated_invert`) -/
def invertBody : List IStmt :=
  [.assign2 "end_size" "start_size" "start_size" "end_size",
   .ifsetRecip "c2c_expansion" "c2c_expansion" "c2c_expansion",
   .ifsetRecip "total_expansion" "total_expansion" "total_expansion",
   .case "preserve" [("start_size", "preserve", "end_size"), ("end_size", "preserve", "start_size")]]

end CBV.C03
