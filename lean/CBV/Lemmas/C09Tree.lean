/-
C09 — the recursive delegation over a part tree is a fold over the visited leaf cells; with pairwise
distinct cells every cell is transformed exactly once.
-/
import CBV.Model.C09

namespace CBV.C09
open CBV

/-! ### reading and writing cells -/

theorem get_modify_eq (h : Heap) (i : Nat) (f : V3 → V3) (hi : i < h.length) :
    Heap.get (h.modify i f) i = f (Heap.get h i) := by
  simp only [Heap.get, List.getD_eq_getElem?_getD, List.getElem?_modify_eq]
  rw [List.getElem?_eq_getElem hi]
  rfl

theorem get_modify_ne (h : Heap) (i j : Nat) (f : V3 → V3) (hij : i ≠ j) :
    Heap.get (h.modify i f) j = Heap.get h j := by
  simp only [Heap.get, List.getD_eq_getElem?_getD, List.getElem?_modify_ne _ _ hij]

/-! ### visits -/

mutual
/-- the leaf cells an entity's methods touch, in the order of the recursion, with multiplicity;
    the flag says whether the cell is an axis direction (`AxisVector`) -/
def visitsE : Ent → List (Nat × Bool)
  | .pt i => [(i, false)]
  | .dir i => [(i, true)]
  | .arr is => is.map (fun i => (i, false))
  | .node _ _ ch => visitsL ch
def visitsL : List Ent → List (Nat × Bool)
  | [] => []
  | e :: es => visitsE e ++ visitsL es
end

def stepV (t : RT) (h : Heap) (v : Nat × Bool) : Heap := h.modify v.1 (if v.2 then t.dir else t.pt)

def runV (t : RT) (vs : List (Nat × Bool)) (h : Heap) : Heap := vs.foldl (stepV t) h

theorem runV_append (t : RT) (a b : List (Nat × Bool)) (h : Heap) :
    runV t (a ++ b) h = runV t b (runV t a h) := by
  simp [runV, List.foldl_append]

theorem runV_length (t : RT) (vs : List (Nat × Bool)) (h : Heap) : (runV t vs h).length = h.length := by
  induction vs generalizing h with
  | nil => rfl
  | cons v vs ih => simp only [runV, List.foldl_cons] at ih ⊢; rw [ih]; simp [stepV, List.length_modify]

mutual
/-- the heap effect of a method call is the fold over the visits -/
theorem applyE_heap (t : RT) : ∀ (e : Ent) (h : Heap), (applyE t e h).2 = runV t (visitsE e) h
  | .pt i, h => by simp [applyE, visitsE, runV, stepV]
  | .dir i, h => by simp [applyE, visitsE, runV, stepV]
  | .arr is, h => by simp [applyE, visitsE, runV, stepV, List.foldl_map]
  | .node k a ch, h => by
      simp only [applyE, visitsE]
      exact applyL_heap t ch h
theorem applyL_heap (t : RT) : ∀ (es : List Ent) (h : Heap), (applyL t es h).2 = runV t (visitsL es) h
  | [], h => by simp [applyL, visitsL, runV]
  | e :: es, h => by
      simp only [applyL, visitsL, runV_append]
      rw [applyL_heap t es, applyE_heap t e]
end

/-- a cell that is not visited keeps its value -/
theorem runV_untouched (t : RT) (vs : List (Nat × Bool)) (h : Heap) (i : Nat)
    (hi : i ∉ vs.map Prod.fst) : Heap.get (runV t vs h) i = Heap.get h i := by
  induction vs generalizing h with
  | nil => rfl
  | cons v vs ih =>
      simp only [List.map_cons, List.mem_cons, not_or] at hi
      simp only [runV, List.foldl_cons] at ih ⊢
      rw [ih _ hi.2]
      exact get_modify_ne _ _ _ _ (fun h' => hi.1 h'.symm)

/-- a cell that is visited once is changed by its primitive exactly once -/
theorem runV_once (t : RT) (vs : List (Nat × Bool)) (h : Heap) (i : Nat) (b : Bool)
    (hnd : (vs.map Prod.fst).Nodup) (hmem : (i, b) ∈ vs) (hlt : i < h.length) :
    Heap.get (runV t vs h) i = (if b then t.dir else t.pt) (Heap.get h i) := by
  induction vs generalizing h with
  | nil => cases hmem
  | cons v vs ih =>
      simp only [List.map_cons, List.nodup_cons] at hnd
      simp only [runV, List.foldl_cons] at ih ⊢
      rcases List.mem_cons.mp hmem with hv | hv
      · subst hv
        have := runV_untouched t vs (stepV t h (i, b)) i hnd.1
        simp only [runV] at this
        rw [this]
        exact get_modify_eq _ _ _ hlt
      · have hne : v.1 ≠ i := by
          intro hvi
          apply hnd.1
          rw [hvi]
          exact List.mem_map.mpr ⟨(i, b), hv, rfl⟩
        rw [ih _ hnd.2 hv (by simp [stepV, List.length_modify]; exact hlt)]
        have hg : Heap.get (stepV t h v) i = Heap.get h i := get_modify_ne _ _ _ _ hne
        rw [hg]

/-! ### the tree keeps its shape, except for `Operation.mirror` (and the invalidated caches) -/

mutual
/-- the tree with every cached interpolation function invalidated -/
def invalidE : Ent → Ent
  | .pt i => .pt i
  | .dir i => .dir i
  | .arr is => .arr is
  | .node k a ch => .node k (touchAttr k a) (invalidL ch)
def invalidL : List Ent → List Ent
  | [] => []
  | e :: es => invalidE e :: invalidL es
end

mutual
theorem applyE_tree (t : RT) (ht : t.isMirror = false) : ∀ (e : Ent) (h : Heap), (applyE t e h).1 = invalidE e
  | .pt i, h => by simp [applyE, invalidE]
  | .dir i, h => by simp [applyE, invalidE]
  | .arr is, h => by simp [applyE, invalidE]
  | .node k a ch, h => by
      simp only [applyE, ht, Bool.false_and, invalidE]
      rw [applyL_tree t ht ch h]
      simp
theorem applyL_tree (t : RT) (ht : t.isMirror = false) : ∀ (es : List Ent) (h : Heap), (applyL t es h).1 = invalidL es
  | [], h => by simp [applyL, invalidL]
  | e :: es, h => by
      simp only [applyL, invalidL]
      rw [applyE_tree t ht e h, applyL_tree t ht es]
end

end CBV.C09
