/-
Simulation: the faithful wire-level propagation loop of M-PROP (CBV.Prop) refines the axis-level
abstraction M-PROP° (CBV.Prop0).  With R relating "axis x has four non-empty wire specifications" to
"x is in the abstract defined list", and J the invariant "a defined axis holds chops" (which repair
f66801e establishes), every `Axis.copy_grading`, `Block.copy_grading`, pass and loop of the faithful
model takes exactly the abstract step.  Termination and completeness of M-PROP° thereby hold for M-PROP.
-/
import CBV.Lemmas.C01Own
import CBV.Lemmas.C02Term

namespace CBV.Prop

/-- the abstraction of an input: same block count, neighbour lists as adjacency -/
def absInp (inp : Inp) : Prop0.Inp :=
  { nBlocks := inp.nBlocks, adj := fun a => if a < 3 * inp.nBlocks then inp.nbrs a else [] }

theorem absInp_adj (inp : Inp) (x : Nat) (hx : x < 3 * inp.nBlocks) : (absInp inp).adj x = inp.nbrs x := by
  simp [absInp, hx]

def R (inp : Inp) (st : St) (d : Prop0.Def) : Prop :=
  ∀ x, x < 3 * inp.nBlocks → (axisDefined st x = true ↔ x ∈ d)

def J (st : St) : Prop := ∀ y, axisDefined st y = true → chopsOf st y ≠ []

theorem axisDefined_congr (st st' : St) (y : Nat) (h : ∀ w, w / 4 = y → specOf st' w = specOf st w) :
    axisDefined st' y = axisDefined st y := by
  unfold axisDefined axisWires
  simp only [List.all_cons, List.all_nil, Bool.and_true]
  rw [h (4 * y) (by omega), h (4 * y + 1) (by omega), h (4 * y + 2) (by omega), h (4 * y + 3) (by omega)]

theorem axisDefined_iff (st : St) (x : Nat) :
    axisDefined st x = true ↔ ∀ w, w / 4 = x → (specOf st w).isEmpty = false := by
  unfold axisDefined axisWires
  simp only [List.all_cons, List.all_nil, Bool.and_true, Bool.and_eq_true, Bool.not_eq_true']
  constructor
  · intro ⟨h0, h1, h2, h3⟩ w hw
    have : w = 4 * x ∨ w = 4 * x + 1 ∨ w = 4 * x + 2 ∨ w = 4 * x + 3 := by omega
    rcases this with h | h | h | h <;> subst h <;> assumption
  · intro h
    exact ⟨h _ (by omega), h _ (by omega), h _ (by omega), h _ (by omega)⟩

theorem map_secOn_nonempty (inp : Inp) (w : Nat) (cs : List Chop) (h : cs ≠ []) :
    (cs.map (secOn inp w)).isEmpty = false := by
  cases cs with
  | nil => exact absurd rfl h
  | cons a as => rfl

theorem fillWire_self (inp : Inp) (st : St) (x w : Nat) (hc : chopsOf st x ≠ []) :
    (specOf (fillWire inp st x w) w).isEmpty = false := by
  unfold fillWire
  split
  · simp only [specOf_setSpec, if_true]; exact map_secOn_nonempty inp w _ hc
  · rename_i h; simpa using h

theorem fillWire_keeps (inp : Inp) (st : St) (x w w' : Nat) (h : (specOf st w').isEmpty = false) :
    (specOf (fillWire inp st x w) w').isEmpty = false := by
  by_cases e : w' = w
  · subst e
    unfold fillWire
    split
    · rename_i h'; rw [h] at h'; cases h'
    · exact h
  · rw [fillWire_spec inp st x w w' e]; exact h

/-- after grading an axis that holds chops, the axis is defined -/
theorem gradeAxis_defines (inp : Inp) (st : St) (x : Nat) (hc : chopsOf st x ≠ []) :
    axisDefined (gradeAxis inp st x) x = true := by
  rw [axisDefined_iff]
  intro w hw
  unfold gradeAxis
  split
  · rw [gradeChopped_spec]
    simp only [hw, if_true]
    have := map_secOn_nonempty inp w _ hc
    cases h1 : specOf st w with
    | nil => simpa using this
    | cons a as => rfl
  · unfold gradePropagated
    have hce : (chopsOf st x).isEmpty = false := by
      cases h : chopsOf st x with
      | nil => exact absurd h hc
      | cons a as => rfl
    simp only [hce, Bool.false_eq_true, if_false]
    have hc1 : chopsOf ((axisWires x).foldl (copyWire inp) st) x ≠ [] := by
      unfold axisWires; simp only [List.foldl, copyWire_chops]; exact hc
    generalize (axisWires x).foldl (copyWire inp) st = s1 at hc1
    unfold axisWires
    simp only [List.foldl]
    have c1 : chopsOf (fillWire inp s1 x (4 * x)) x ≠ [] := by rw [fillWire_chops]; exact hc1
    have c2 : chopsOf (fillWire inp (fillWire inp s1 x (4 * x)) x (4 * x + 1)) x ≠ [] := by
      rw [fillWire_chops]; exact c1
    have c3 : chopsOf (fillWire inp (fillWire inp (fillWire inp s1 x (4 * x)) x (4 * x + 1)) x (4 * x + 2)) x ≠ [] := by
      rw [fillWire_chops]; exact c2
    have : w = 4 * x ∨ w = 4 * x + 1 ∨ w = 4 * x + 2 ∨ w = 4 * x + 3 := by omega
    rcases this with h | h | h | h <;> subst h
    · exact fillWire_keeps _ _ _ _ _ (fillWire_keeps _ _ _ _ _ (fillWire_keeps _ _ _ _ _ (fillWire_self _ _ _ _ hc1)))
    · exact fillWire_keeps _ _ _ _ _ (fillWire_keeps _ _ _ _ _ (fillWire_self _ _ _ _ c1))
    · exact fillWire_keeps _ _ _ _ _ (fillWire_self _ _ _ _ c2)
    · exact fillWire_self _ _ _ _ c3

/-- what one successful `Axis.copy_grading` with a defined neighbour does to R and J -/
theorem copy_step (inp : Inp) (st : St) (d : Prop0.Def) (x : Nat) (cs : List Chop) (hx : x < 3 * inp.nBlocks)
    (hr : R inp st d) (hj : J st) (hcs : cs ≠ []) :
    R inp (gradeAxis inp (addChops st x cs) x) (x :: d) ∧ J (gradeAxis inp (addChops st x cs) x) := by
  have hch : chopsOf (addChops st x cs) x ≠ [] := by
    rw [chopsOf_addChops]; simp only [if_true]
    intro h; exact hcs (List.append_eq_nil_iff.mp h).2
  have hdef := gradeAxis_defines inp (addChops st x cs) x hch
  have hframe : ∀ y, y ≠ x → axisDefined (gradeAxis inp (addChops st x cs) x) y = axisDefined st y := by
    intro y hy
    apply axisDefined_congr
    intro w hw
    rw [gradeAxis_spec _ _ _ _ (by omega), specOf_addChops]
  refine ⟨?_, ?_⟩
  · intro y hy
    by_cases e : y = x
    · subst e; simp [hdef]
    · rw [hframe y e, hr y hy]; simp [e]
  · intro y hyd
    rw [gradeAxis_chops, chopsOf_addChops]
    by_cases e : y = x
    · subst e; simp only [if_true]
      intro h; exact hcs (List.append_eq_nil_iff.mp h).2
    · simp only [e, if_false]
      rw [hframe y e] at hyd
      exact hj y hyd

theorem nbrs_valid (inp : Inp) (hv : nbrsValid inp = true) (x : Nat) (hx : x < 3 * inp.nBlocks) :
    ∀ nb ∈ inp.nbrs x, nb < 3 * inp.nBlocks ∧ (axisAligned inp nb x).isSome = true := by
  intro nb hnb
  unfold nbrsValid at hv
  rw [List.all_eq_true] at hv
  have h1 := hv x (List.mem_range.mpr hx)
  rw [List.all_eq_true] at h1
  have h2 := h1 nb hnb
  rw [Bool.and_eq_true] at h2
  exact ⟨by simpa using h2.1, h2.2⟩

/-- one `Axis.copy_grading` of the faithful model is one `axisCopy` of M-PROP° -/
theorem axisCopy_sim (inp : Inp) (hv : nbrsValid inp = true) (st : St) (d : Prop0.Def) (x : Nat)
    (hx : x < 3 * inp.nBlocks) (hr : R inp st d) (hj : J st) :
    ∃ st', axisCopy inp st x = .ok (st', (Prop0.axisCopy (absInp inp) d x).2) ∧
      R inp st' (Prop0.axisCopy (absInp inp) d x).1 ∧ J st' := by
  unfold axisCopy Prop0.axisCopy
  by_cases hd : axisDefined st x = true
  · have hm : x ∈ d := (hr x hx).mp hd
    simp only [hd, if_true, hm]
    exact ⟨st, rfl, hr, hj⟩
  · have hm : x ∉ d := fun h => hd ((hr x hx).mpr h)
    simp only [hd, Bool.false_eq_true, if_false, hm]
    cases hf : (inp.nbrs x).find? (axisDefined st) with
    | none =>
      have hno : ¬ Prop0.HasDefNbr (absInp inp) d x := by
        rintro ⟨n, hn1, hn2⟩
        have hn1' : n ∈ inp.nbrs x := by rw [absInp_adj inp x hx] at hn1; exact hn1
        have := List.find?_eq_none.mp hf n hn1'
        have hlt := (nbrs_valid inp hv x hx n hn1').1
        exact this ((hr n hlt).mpr hn2)
      simp only [hno, if_false]
      exact ⟨st, rfl, hr, hj⟩
    | some nb =>
      have hmem : nb ∈ inp.nbrs x := List.mem_of_find?_eq_some hf
      have hdef : axisDefined st nb = true := by simpa using List.find?_some hf
      obtain ⟨hlt, hal⟩ := nbrs_valid inp hv x hx nb hmem
      have hyes : Prop0.HasDefNbr (absInp inp) d x :=
        ⟨nb, by rw [absInp_adj inp x hx]; exact hmem, (hr nb hlt).mp hdef⟩
      simp only [hyes, if_true]
      have hcn : chopsOf st nb ≠ [] := hj nb hdef
      cases ha : axisAligned inp nb x with
      | none => rw [ha] at hal; cases hal
      | some al =>
        cases al with
        | true =>
          have hcs : (chopsOf st nb).map (copyPreserving false) ≠ [] := by
            intro h; exact hcn (List.map_eq_nil_iff.mp h)
          obtain ⟨h1, h2⟩ := copy_step inp st d x _ hx hr hj hcs
          exact ⟨_, rfl, h1, h2⟩
        | false =>
          have hcs : (chopsOf st nb).reverse.map (copyPreserving true) ≠ [] := by
            intro h; exact hcn (List.reverse_eq_nil_iff.mp (List.map_eq_nil_iff.mp h))
          obtain ⟨h1, h2⟩ := copy_step inp st d x _ hx hr hj hcs
          exact ⟨_, rfl, h1, h2⟩

theorem blockDefined_iff (inp : Inp) (st : St) (d : Prop0.Def) (b : Nat) (hb : b < inp.nBlocks)
    (hr : R inp st d) : blockDefined st b = true ↔ Prop0.BlockDef d b := by
  unfold blockDefined blockAxes Prop0.BlockDef Prop0.axesOf
  simp only [List.all_cons, List.all_nil, Bool.and_true, Bool.and_eq_true, List.mem_cons,
    List.not_mem_nil, or_false, forall_eq_or_imp, forall_eq]
  rw [hr (3 * b) (by omega), hr (3 * b + 1) (by omega), hr (3 * b + 2) (by omega)]

/-- `Block.copy_grading` -/
theorem blockCopy_sim (inp : Inp) (hv : nbrsValid inp = true) (st : St) (d : Prop0.Def) (b : Nat)
    (hb : b < inp.nBlocks) (hr : R inp st d) (hj : J st) :
    ∃ st', blockCopy inp st b = .ok (st', (Prop0.blockCopy (absInp inp) d b).2) ∧
      R inp st' (Prop0.blockCopy (absInp inp) d b).1 ∧ J st' := by
  unfold blockCopy Prop0.blockCopy
  by_cases hd : blockDefined st b = true
  · have := (blockDefined_iff inp st d b hb hr).mp hd
    simp only [hd, if_true, this]
    exact ⟨st, rfl, hr, hj⟩
  · have hnd : ¬ Prop0.BlockDef d b := fun h => hd ((blockDefined_iff inp st d b hb hr).mpr h)
    simp only [hd, Bool.false_eq_true, if_false, hnd]
    obtain ⟨s0, e0, r0, j0⟩ := axisCopy_sim inp hv st d (3 * b) (by omega) hr hj
    obtain ⟨s1, e1, r1, j1⟩ := axisCopy_sim inp hv s0 _ (3 * b + 1) (by omega) r0 j0
    obtain ⟨s2, e2, r2, j2⟩ := axisCopy_sim inp hv s1 _ (3 * b + 2) (by omega) r1 j1
    refine ⟨s2, ?_, ?_, j2⟩
    · rw [e0]; dsimp only; rw [e1]; dsimp only; rw [e2]
      simp only [Prop0.axesOf, Prop0.axesCopy, Bool.or_false, Bool.or_assoc]
    · simpa [Prop0.axesOf, Prop0.axesCopy] using r2

/-- one pass over the work-list -/
theorem pass_sim (inp : Inp) (hv : nbrsValid inp = true) (wl : List Nat) : ∀ (st : St) (d : Prop0.Def),
    (∀ b ∈ wl, b < inp.nBlocks) → R inp st d → J st →
    ∃ st', pass inp st wl = .ok (st', (Prop0.pass (absInp inp) d wl).2.1, (Prop0.pass (absInp inp) d wl).2.2) ∧
      R inp st' (Prop0.pass (absInp inp) d wl).1 ∧ J st' := by
  induction wl with
  | nil => intro st d _ hr hj; exact ⟨st, rfl, hr, hj⟩
  | cons b rest ih =>
    intro st d hwl hr hj
    have hb : b < inp.nBlocks := hwl b List.mem_cons_self
    unfold pass Prop0.pass
    by_cases hd : blockDefined st b = true
    · have := (blockDefined_iff inp st d b hb hr).mp hd
      simp only [hd, if_true, this]
      exact ⟨st, rfl, hr, hj⟩
    · have hnd : ¬ Prop0.BlockDef d b := fun h => hd ((blockDefined_iff inp st d b hb hr).mpr h)
      simp only [hd, Bool.false_eq_true, if_false, hnd]
      obtain ⟨s1, e1, r1, j1⟩ := blockCopy_sim inp hv st d b hb hr hj
      obtain ⟨s2, e2, r2, j2⟩ := ih s1 _ (fun c hc => hwl c (List.mem_cons_of_mem _ hc)) r1 j1
      refine ⟨s2, ?_, r2, j2⟩
      rw [e1]; dsimp only; rw [e2]

/-- the whole loop: same outcome as M-PROP° -/
theorem loop_sim (inp : Inp) (hv : nbrsValid inp = true) : ∀ (fuel : Nat) (st : St) (d : Prop0.Def) (wl : List Nat),
    (∀ b ∈ wl, b < inp.nBlocks) → R inp st d → J st →
    match (Prop0.loop (absInp inp) fuel d wl).2 with
    | .ok => ∃ st', loop inp fuel st wl = .ok st' ∧ R inp st' (Prop0.loop (absInp inp) fuel d wl).1
    | .undefined => loop inp fuel st wl = .error .undefined
    | .outOfFuel => loop inp fuel st wl = .error .outOfFuel := by
  intro fuel
  induction fuel with
  | zero => intro st d wl _ _ _; simp [Prop0.loop, loop]
  | succ f ih =>
    intro st d wl hwl hr hj
    cases wl with
    | nil => simp only [Prop0.loop, loop]; exact ⟨st, rfl, hr⟩
    | cons b rest =>
      obtain ⟨s1, e1, r1, j1⟩ := pass_sim inp hv (b :: rest) st d hwl hr hj
      unfold Prop0.loop loop
      dsimp only
      rw [e1]
      dsimp only
      by_cases hu : (Prop0.pass (absInp inp) d (b :: rest)).2.2 = true
      · simp only [hu, if_true]
        apply ih s1 _ _ _ r1 j1
        intro c hc
        exact hwl c (Prop0.pass_sub (absInp inp) _ d c hc)
      · simp only [hu, Bool.false_eq_true, if_false]

/-- after `grade_blocks` exactly the user-chopped axes are defined, and they hold chops -/
theorem gradeBlocks_RJ (inp : Inp) :
    R inp (gradeBlocks inp (init inp)) ((List.range (3 * inp.nBlocks)).filter (userChopped inp)) ∧
      J (gradeBlocks inp (init inp)) := by
  obtain ⟨hc, ho, _, hn⟩ := gradeBlocks_fold inp (3 * inp.nBlocks)
  have key : ∀ y, axisDefined (gradeBlocks inp (init inp)) y = true → userChopped inp y = true := by
    intro y hy
    cases hu : userChopped inp y with
    | true => rfl
    | false =>
      have := (axisDefined_iff _ y).mp hy (4 * y) (by omega)
      have he : specOf (gradeBlocks inp (init inp)) (4 * y) = [] :=
        hn (4 * y) (by rw [show 4 * y / 4 = y by omega]; exact hu)
      rw [he] at this; cases this
  refine ⟨?_, ?_⟩
  · intro x hx
    constructor
    · intro hd
      exact List.mem_filter.mpr ⟨List.mem_range.mpr hx, key x hd⟩
    · intro hm
      have hu := (List.mem_filter.mp hm).2
      exact own_defined inp _ x hu (ho x hx hu)
  · intro y hy
    have hu := key y hy
    have e : chopsOf (gradeBlocks inp (init inp)) y = inp.chops y := hc y
    rw [e]
    unfold userChopped at hu
    intro h; rw [h] at hu; cases hu

theorem absInp_wf (inp : Inp) (hv : nbrsValid inp = true) : Prop0.WF (absInp inp) := by
  refine ⟨?_⟩
  intro a n hn
  by_cases ha : a < 3 * inp.nBlocks
  · rw [absInp_adj inp a ha] at hn
    exact (nbrs_valid inp hv a ha n hn).1
  · simp [absInp, ha] at hn

end CBV.Prop
