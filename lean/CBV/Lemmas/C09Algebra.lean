/-
C09 — algebra of the point primitives: the quaternion rotation and the Householder mirror are
linear isometries with determinant +1 / −1; every resolved transformation is an affine similarity.
-/
import CBV.Model.C09
import Mathlib.Tactic.Ring
import Mathlib.Tactic.FieldSimp
import Mathlib.Tactic.Linarith
import Mathlib.Tactic.LinearCombination
import Mathlib.Algebra.Order.Field.Rat

namespace CBV.C09
open CBV

set_option linter.unusedSimpArgs false

/-- unfold vector expressions to coordinates -/
macro "v3_unfold" : tactic =>
  `(tactic| simp only [rotLin, rotP, scaleP, mirLin, mirP, V3.dot, V3.norm2, V3.add_x, V3.add_y, V3.add_z,
      V3.sub_x, V3.sub_y, V3.sub_z, V3.neg_x, V3.neg_y, V3.neg_z, V3.smul_x, V3.smul_y, V3.smul_z,
      V3.cross_x, V3.cross_y, V3.cross_z])

@[simp] theorem zero_x : V3.zero.x = 0 := rfl
@[simp] theorem zero_y : V3.zero.y = 0 := rfl
@[simp] theorem zero_z : V3.zero.z = 0 := rfl

theorem add_comm' (a b : V3) : a + b = b + a := by apply V3.ext' <;> v3_unfold <;> ring
theorem add_assoc' (a b c : V3) : a + b + c = a + (b + c) := by apply V3.ext' <;> v3_unfold <;> ring
theorem zero_add' (a : V3) : V3.zero + a = a := by apply V3.ext' <;> v3_unfold <;> simp
theorem add_zero' (a : V3) : a + V3.zero = a := by apply V3.ext' <;> v3_unfold <;> simp
theorem add_sub_cancel' (a b : V3) : a + b - b = a := by apply V3.ext' <;> v3_unfold <;> ring
theorem sub_add_cancel' (a b : V3) : a - b + b = a := by apply V3.ext' <;> v3_unfold <;> ring

/-! ### rotation by the unnormalised quaternion `(w, a)` -/

theorem rotLin_add (w : Rat) (a u v : V3) : rotLin w a (u + v) = rotLin w a u + rotLin w a v := by
  apply V3.ext' <;> v3_unfold <;> ring

theorem rotLin_sub (w : Rat) (a u v : V3) : rotLin w a (u - v) = rotLin w a u - rotLin w a v := by
  apply V3.ext' <;> v3_unfold <;> ring

theorem rotLin_smul (w : Rat) (a : V3) (c : Rat) (v : V3) :
    rotLin w a (V3.smul c v) = V3.smul c (rotLin w a v) := by
  apply V3.ext' <;> v3_unfold <;> ring

/-- the axis direction is fixed -/
theorem rotLin_axis (w : Rat) (a : V3) : rotLin w a a = a := by
  apply V3.ext' <;> v3_unfold <;> ring

theorem rotLin_dot (w : Rat) (a u v : V3) (hN : w * w + V3.dot a a ≠ 0) :
    V3.dot (rotLin w a u) (rotLin w a v) = V3.dot u v := by
  simp only [V3.dot] at hN
  v3_unfold
  generalize hNd : w * w + (a.x * a.x + a.y * a.y + a.z * a.z) = N at hN ⊢
  field_simp
  rw [← hNd]
  ring

/-- orientation is preserved (determinant +1) -/
theorem rotLin_cross (w : Rat) (a u v : V3) (hN : w * w + V3.dot a a ≠ 0) :
    V3.cross (rotLin w a u) (rotLin w a v) = rotLin w a (V3.cross u v) := by
  simp only [V3.dot] at hN
  apply V3.ext' <;> v3_unfold <;>
  generalize hNd : w * w + (a.x * a.x + a.y * a.y + a.z * a.z) = N at hN ⊢ <;>
  field_simp <;> rw [← hNd] <;> ring

/-- the cosine of the turning angle: `cos θ = (w² − |a|²)/(w² + |a|²)`, i.e. `θ = 2·atan2(|a|, w)` -/
theorem rotLin_cos (w : Rat) (a v : V3) (hN : w * w + V3.dot a a ≠ 0) (hperp : V3.dot a v = 0) :
    (w * w + V3.dot a a) * V3.dot v (rotLin w a v) = (w * w - V3.dot a a) * V3.dot v v := by
  simp only [V3.dot] at hN hperp
  v3_unfold
  generalize hNd : w * w + (a.x * a.x + a.y * a.y + a.z * a.z) = N at hN ⊢
  field_simp
  rw [← hNd]
  linear_combination (2 * (a.x * v.x + a.y * v.y + a.z * v.z)) * hperp

/-- the sine of the turning angle, with its sense: `v × R v = sin θ |v|² a/|a|`, `sin θ = 2 w |a| / (w² + |a|²)` -/
theorem rotLin_sin (w : Rat) (a v : V3) (hN : w * w + V3.dot a a ≠ 0) (hperp : V3.dot a v = 0) :
    V3.smul (w * w + V3.dot a a) (V3.cross v (rotLin w a v)) = V3.smul (2 * w * V3.dot v v) a := by
  simp only [V3.dot] at hN hperp
  apply V3.ext' <;> v3_unfold <;>
  generalize hNd : w * w + (a.x * a.x + a.y * a.y + a.z * a.z) = N at hN ⊢ <;>
  field_simp <;> rw [← hNd]
  · linear_combination (-2 * w * v.x + 2 * (v.y * a.z - v.z * a.y)) * hperp
  · linear_combination (-2 * w * v.y + 2 * (v.z * a.x - v.x * a.z)) * hperp
  · linear_combination (-2 * w * v.z + 2 * (v.x * a.y - v.y * a.x)) * hperp

/-! ### mirror about the plane with normal `n` -/

theorem mirLin_add (n u v : V3) : mirLin n (u + v) = mirLin n u + mirLin n v := by
  apply V3.ext' <;> v3_unfold <;> ring

theorem mirLin_sub (n u v : V3) : mirLin n (u - v) = mirLin n u - mirLin n v := by
  apply V3.ext' <;> v3_unfold <;> ring

theorem mirLin_smul (n : V3) (c : Rat) (v : V3) : mirLin n (V3.smul c v) = V3.smul c (mirLin n v) := by
  apply V3.ext' <;> v3_unfold <;> ring

theorem mirLin_dot (n u v : V3) (hn : V3.dot n n ≠ 0) :
    V3.dot (mirLin n u) (mirLin n v) = V3.dot u v := by
  simp only [V3.dot] at hn
  v3_unfold
  generalize hNd : n.x * n.x + n.y * n.y + n.z * n.z = N at hn ⊢
  field_simp
  rw [← hNd]
  ring

/-- orientation is reversed (determinant −1) -/
theorem mirLin_cross (n u v : V3) (hn : V3.dot n n ≠ 0) :
    V3.cross (mirLin n u) (mirLin n v) = -(mirLin n (V3.cross u v)) := by
  simp only [V3.dot] at hn
  apply V3.ext' <;> v3_unfold <;>
  generalize hNd : n.x * n.x + n.y * n.y + n.z * n.z = N at hn ⊢ <;>
  field_simp <;> rw [← hNd] <;> ring

theorem mirLin_invol (n v : V3) (hn : V3.dot n n ≠ 0) : mirLin n (mirLin n v) = v := by
  simp only [V3.dot] at hn
  apply V3.ext' <;> v3_unfold <;>
  generalize hNd : n.x * n.x + n.y * n.y + n.z * n.z = N at hn ⊢ <;>
  field_simp <;> rw [← hNd] <;> ring

/-- the normal is reversed … -/
theorem mirLin_normal (n : V3) (hn : V3.dot n n ≠ 0) : mirLin n n = -n := by
  simp only [V3.dot] at hn
  apply V3.ext' <;> v3_unfold <;>
  generalize hNd : n.x * n.x + n.y * n.y + n.z * n.z = N at hn ⊢ <;>
  field_simp <;> ring

/-- … and every direction in the plane is kept -/
theorem mirLin_inplane (n v : V3) (h : V3.dot v n = 0) : mirLin n v = v := by
  apply V3.ext' <;> v3_unfold <;> simp only [V3.dot] at h <;> rw [h] <;> simp

theorem cross_neg_left (x y : V3) : V3.cross (-x) y = -(V3.cross x y) := by
  apply V3.ext' <;> v3_unfold <;> ring
theorem neg_neg' (x : V3) : -(-x) = x := by
  apply V3.ext' <;> v3_unfold <;> ring
theorem dot_neg_neg (x y : V3) : V3.dot (-x) (-y) = V3.dot x y := by
  v3_unfold; ring

/-- a reflection conjugates the rotation about `a` into the rotation about the *reversed* reflected axis:
    this is why an axial vector (`AxisVector`: Angle.axis, CircleCurve normal) is mirrored with a sign -/
theorem mir_rot_conj_lin (n : V3) (w : Rat) (a u : V3) (hn : V3.dot n n ≠ 0) :
    mirLin n (rotLin w a u) = rotLin w (-(mirLin n a)) (mirLin n u) := by
  have hd : V3.dot (-(mirLin n a)) (-(mirLin n a)) = V3.dot a a := by
    rw [dot_neg_neg, mirLin_dot n a a hn]
  have hc1 : V3.cross (-(mirLin n a)) (mirLin n u) = mirLin n (V3.cross a u) := by
    rw [cross_neg_left, mirLin_cross n a u hn, neg_neg']
  have hc2 : V3.cross (-(mirLin n a)) (mirLin n (V3.cross a u)) = mirLin n (V3.cross a (V3.cross a u)) := by
    rw [cross_neg_left, mirLin_cross n a _ hn, neg_neg']
  unfold rotLin
  simp only [hd, hc1, hc2]
  rw [mirLin_add, mirLin_smul, mirLin_add, mirLin_smul]

theorem mir_rot_conj (n o : V3) (w : Rat) (a c p : V3) (hn : V3.dot n n ≠ 0) :
    mirP n o (rotP w a c p) = rotP w (-(mirLin n a)) (mirP n o c) (mirP n o p) := by
  have h1 : mirP n o p - mirP n o c = mirLin n (p - c) := by
    apply V3.ext' <;> v3_unfold <;> ring
  unfold rotP
  rw [h1, ← mir_rot_conj_lin n w a (p - c) hn]
  apply V3.ext' <;> simp only [mirP, V3.add_x, V3.add_y, V3.add_z, V3.sub_x, V3.sub_y, V3.sub_z] <;>
    rw [show (rotLin w a (p - c) + c - o) = (rotLin w a (p - c)) + (c - o) from by
      apply V3.ext' <;> simp only [V3.add_x, V3.add_y, V3.add_z, V3.sub_x, V3.sub_y, V3.sub_z] <;> ring] <;>
    rw [mirLin_add] <;> simp only [V3.add_x, V3.add_y, V3.add_z] <;> ring

/-! ### every resolved transformation is an affine similarity -/

/-- linear part -/
def RT.lin : RT → V3 → V3
  | .translate _, v => v
  | .rotate w a _, v => rotLin w a v
  | .scale r _, v => V3.smul r v
  | .mirror n _, v => mirLin n v

/-- square of the similarity ratio -/
def RT.ratio2 : RT → Rat
  | .scale r _ => r * r
  | _ => 1

/-- `cross (L u) (L v) = σ • L (cross u v)`: σ = det L / ratio² · … (1 for a rotation, r for a scaling, −1 for a mirror) -/
def RT.sigma : RT → Rat
  | .scale r _ => r
  | .mirror _ _ => -1
  | _ => 1

/-- the parameters the real code can work with (it divides by |axis|, |normal|) -/
def RT.Valid : RT → Prop
  | .translate _ => True
  | .rotate w a _ => w * w + V3.dot a a ≠ 0
  | .scale _ _ => True
  | .mirror n _ => V3.dot n n ≠ 0

theorem RT.pt_sub (t : RT) (p q : V3) : t.pt p - t.pt q = t.lin (p - q) := by
  cases t <;> simp only [RT.pt, RT.lin] <;> apply V3.ext' <;> v3_unfold <;> ring

theorem RT.lin_add (t : RT) (u v : V3) : t.lin (u + v) = t.lin u + t.lin v := by
  cases t <;> simp only [RT.lin]
  · exact rotLin_add _ _ _ _
  · apply V3.ext' <;> v3_unfold <;> ring
  · exact mirLin_add _ _ _

theorem RT.lin_smul (t : RT) (c : Rat) (v : V3) : t.lin (V3.smul c v) = V3.smul c (t.lin v) := by
  cases t <;> simp only [RT.lin]
  · exact rotLin_smul _ _ _ _
  · apply V3.ext' <;> v3_unfold <;> ring
  · exact mirLin_smul _ _ _

theorem RT.lin_dot (t : RT) (ht : t.Valid) (u v : V3) : V3.dot (t.lin u) (t.lin v) = t.ratio2 * V3.dot u v := by
  cases t <;> simp only [RT.lin, RT.ratio2, one_mul]
  · exact rotLin_dot _ _ _ _ ht
  · v3_unfold; ring
  · exact mirLin_dot _ _ _ ht

theorem RT.lin_cross (t : RT) (ht : t.Valid) (u v : V3) :
    V3.cross (t.lin u) (t.lin v) = V3.smul t.sigma (t.lin (V3.cross u v)) := by
  cases t <;> simp only [RT.lin, RT.sigma]
  · apply V3.ext' <;> v3_unfold <;> ring
  · rw [rotLin_cross _ _ _ _ ht]; apply V3.ext' <;> v3_unfold <;> ring
  · apply V3.ext' <;> v3_unfold <;> ring
  · rw [mirLin_cross _ _ _ ht]; apply V3.ext' <;> v3_unfold <;> ring

/-- the action on an axis direction is the linear part up to the factor that keeps it a unit axial vector:
    `dir v = (σ / ratio²) • lin v` -/
theorem RT.dir_eq (t : RT) (hr : t.ratio2 ≠ 0) (v : V3) :
    t.dir v = V3.smul (t.sigma / t.ratio2) (t.lin v) := by
  cases t <;> simp only [RT.dir, RT.lin, RT.sigma, RT.ratio2] at hr ⊢
  · apply V3.ext' <;> v3_unfold <;> simp
  · apply V3.ext' <;> v3_unfold <;> simp
  · rename_i r o
    have : r ≠ 0 := fun h => hr (by rw [h]; ring)
    apply V3.ext' <;> v3_unfold <;> field_simp
  · apply V3.ext' <;> v3_unfold <;> simp

end CBV.C09
