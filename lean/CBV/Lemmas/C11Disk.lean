/-
C11 — the quads of the disk sketches are convex and counter-clockwise in the plane coordinates of their fan.
-/
import CBV.Lemmas.C11Fan

namespace CBV.C11
open P3

set_option linter.unusedSectionVars false
set_option linter.unusedSimpArgs false
set_option linter.unusedVariables false

/-- the quad map of a sketch class of the regenerated table, in the order of `shape.operations` -/
def sketchQuads (name : String) : List (List Nat) :=
  match findSketch name with
  | some e => e.quads
  | none => []

theorem quads_oneCore : sketchQuads "OneCoreDisk" =
    [[0, 1, 2, 3], [0, 4, 5, 1], [1, 5, 6, 2], [2, 6, 7, 3], [3, 7, 4, 0]] := by decide +kernel

theorem idx_oneCore : DiskCls.oneCore.idx = [0, 2, 4, 6] := by decide

theorem quads_quarter : sketchQuads "QuarterDisk" =
    [[0, 1, 2, 3], [1, 4, 5, 2], [2, 5, 6, 3]] := by decide +kernel

theorem idx_quarter : DiskCls.quarter.idx = [0, 1, 2] := by decide

theorem quads_half : sketchQuads "HalfDisk" =
    [[0, 1, 2, 3], [5, 0, 3, 4], [1, 6, 7, 2], [2, 7, 8, 3], [3, 8, 9, 4], [4, 9, 10, 5]] := by decide +kernel

theorem idx_half : DiskCls.half.idx = [0, 1, 2, 3, 4] := by decide

theorem quads_fourCore : sketchQuads "FourCoreDisk" =
    [[0, 1, 2, 3], [5, 0, 3, 4], [6, 7, 0, 5], [7, 8, 1, 0], [1, 9, 10, 2], [2, 10, 11, 3], [3, 11, 12, 4], [4, 12, 13, 5], [5, 13, 14, 6], [6, 14, 15, 7], [7, 15, 16, 8], [8, 16, 9, 1]] := by decide +kernel

theorem idx_fourCore : DiskCls.fourCore.idx = [0, 1, 2, 3, 4, 5, 6, 7] := by decide

variable {K : Type} [Field K] [LinearOrder K] [IsStrictOrderedRing K]

theorem diskL_oneCore (h k dg : K) : diskL .oneCore h k dg =
    [⟨dg * 1, dg * 0, 0⟩, ⟨dg * 0, dg * 1, 0⟩, ⟨dg * -1, dg * 0, 0⟩, ⟨dg * 0, dg * -1, 0⟩, ⟨1, 0, 0⟩, ⟨0, 1, 0⟩, ⟨-1, 0, 0⟩, ⟨0, -1, 0⟩] := by
  simp [diskL, idx_oneCore, fanInnerFromL, fanOuterL, fanPtL, dir8, ratioAt]

/-- `OneCoreDisk`: the core square has its corners on the fan directions at `diagonal_ratio`, `0 < dg < 1` -/
theorem oneCore_convex (h k dg : K) (hd0 : 0 < dg) (hd1 : dg < 1) :
    ∀ q ∈ sketchQuads "OneCoreDisk", convexCCW (quadOf (diskL .oneCore h k dg) q) := by
  rw [quads_oneCore]
  have b1 : 0 < 1 - dg := by linarith
  intro q hq
  simp only [List.mem_cons, List.not_mem_nil, or_false] at hq
  rcases hq with rfl | rfl | rfl | rfl | rfl <;>
  · simp [quadOf, diskL_oneCore]
    unfold convexCCW cross2K
    dsimp only
    refine ⟨rfl, rfl, rfl, rfl, ?_, ?_, ?_, ?_⟩ <;>
      linarith [mul_pos hd0 hd0, mul_pos hd0 b1, mul_pos b1 b1]

theorem diskL_quarter (h k dg : K) : diskL .quarter h k dg =
    [⟨0, 0, 0⟩, ⟨k * 1, k * 0, 0⟩, ⟨dg * h, dg * h, 0⟩, ⟨k * 0, k * 1, 0⟩, ⟨1, 0, 0⟩, ⟨h, h, 0⟩, ⟨0, 1, 0⟩] := by
  simp [diskL, idx_quarter, fanInnerFromL, fanOuterL, fanPtL, dir8, ratioAt]

/-- `QuarterDisk`: `0 < core_ratio < 1`, and the diagonal inner point `e = diagonal_ratio · h` lies beyond the chord
    of its two neighbours (`k < 2e`) and inside the rim (`e < h`) -/
theorem quarter_convex (h k dg : K) (hk0 : 0 < k) (hk1 : k < 1) (hh : 0 < h) (he1 : k < 2 * (dg * h))
    (he2 : dg * h < h) : ∀ q ∈ sketchQuads "QuarterDisk", convexCCW (quadOf (diskL .quarter h k dg) q) := by
  rw [quads_quarter]
  have a1 : 0 < 1 - k := by linarith
  have a2 : 0 < dg * h := by linarith
  have a3 : 0 < 2 * (dg * h) - k := by linarith
  have a4 : 0 < h - dg * h := by linarith
  intro q hq
  simp only [List.mem_cons, List.not_mem_nil, or_false] at hq
  rcases hq with rfl | rfl | rfl <;>
  · simp [quadOf, diskL_quarter]
    unfold convexCCW cross2K
    dsimp only
    refine ⟨rfl, rfl, rfl, rfl, ?_, ?_, ?_, ?_⟩ <;>
      linarith [mul_pos hk0 hk0, mul_pos hk0 a1, mul_pos hk0 a2, mul_pos hk0 a3, mul_pos hk0 a4, mul_pos hk0 hh, mul_pos a1 a1, mul_pos a1 a2, mul_pos a1 a3, mul_pos a1 a4, mul_pos a1 hh, mul_pos a2 a2, mul_pos a2 a3, mul_pos a2 a4, mul_pos a2 hh, mul_pos a3 a3, mul_pos a3 a4, mul_pos a3 hh, mul_pos a4 a4, mul_pos a4 hh, mul_pos hh hh]

theorem diskL_half (h k dg : K) : diskL .half h k dg =
    [⟨0, 0, 0⟩, ⟨k * 1, k * 0, 0⟩, ⟨dg * h, dg * h, 0⟩, ⟨k * 0, k * 1, 0⟩, ⟨dg * -h, dg * h, 0⟩, ⟨k * -1, k * 0, 0⟩, ⟨1, 0, 0⟩, ⟨h, h, 0⟩, ⟨0, 1, 0⟩, ⟨-h, h, 0⟩, ⟨-1, 0, 0⟩] := by
  simp [diskL, idx_half, fanInnerFromL, fanOuterL, fanPtL, dir8, ratioAt]

/-- `HalfDisk`: `0 < core_ratio < 1`, and the diagonal inner point `e = diagonal_ratio · h` lies beyond the chord
    of its two neighbours (`k < 2e`) and inside the rim (`e < h`) -/
theorem half_convex (h k dg : K) (hk0 : 0 < k) (hk1 : k < 1) (hh : 0 < h) (he1 : k < 2 * (dg * h))
    (he2 : dg * h < h) : ∀ q ∈ sketchQuads "HalfDisk", convexCCW (quadOf (diskL .half h k dg) q) := by
  rw [quads_half]
  have a1 : 0 < 1 - k := by linarith
  have a2 : 0 < dg * h := by linarith
  have a3 : 0 < 2 * (dg * h) - k := by linarith
  have a4 : 0 < h - dg * h := by linarith
  intro q hq
  simp only [List.mem_cons, List.not_mem_nil, or_false] at hq
  rcases hq with rfl | rfl | rfl | rfl | rfl | rfl <;>
  · simp [quadOf, diskL_half]
    unfold convexCCW cross2K
    dsimp only
    refine ⟨rfl, rfl, rfl, rfl, ?_, ?_, ?_, ?_⟩ <;>
      linarith [mul_pos hk0 hk0, mul_pos hk0 a1, mul_pos hk0 a2, mul_pos hk0 a3, mul_pos hk0 a4, mul_pos hk0 hh, mul_pos a1 a1, mul_pos a1 a2, mul_pos a1 a3, mul_pos a1 a4, mul_pos a1 hh, mul_pos a2 a2, mul_pos a2 a3, mul_pos a2 a4, mul_pos a2 hh, mul_pos a3 a3, mul_pos a3 a4, mul_pos a3 hh, mul_pos a4 a4, mul_pos a4 hh, mul_pos hh hh]

theorem diskL_fourCore (h k dg : K) : diskL .fourCore h k dg =
    [⟨0, 0, 0⟩, ⟨k * 1, k * 0, 0⟩, ⟨dg * h, dg * h, 0⟩, ⟨k * 0, k * 1, 0⟩, ⟨dg * -h, dg * h, 0⟩, ⟨k * -1, k * 0, 0⟩, ⟨dg * -h, dg * -h, 0⟩, ⟨k * 0, k * -1, 0⟩, ⟨dg * h, dg * -h, 0⟩, ⟨1, 0, 0⟩, ⟨h, h, 0⟩, ⟨0, 1, 0⟩, ⟨-h, h, 0⟩, ⟨-1, 0, 0⟩, ⟨-h, -h, 0⟩, ⟨0, -1, 0⟩, ⟨h, -h, 0⟩] := by
  simp [diskL, idx_fourCore, fanInnerFromL, fanOuterL, fanPtL, dir8, ratioAt]

/-- `FourCoreDisk`: `0 < core_ratio < 1`, and the diagonal inner point `e = diagonal_ratio · h` lies beyond the chord
    of its two neighbours (`k < 2e`) and inside the rim (`e < h`) -/
theorem fourCore_convex (h k dg : K) (hk0 : 0 < k) (hk1 : k < 1) (hh : 0 < h) (he1 : k < 2 * (dg * h))
    (he2 : dg * h < h) : ∀ q ∈ sketchQuads "FourCoreDisk", convexCCW (quadOf (diskL .fourCore h k dg) q) := by
  rw [quads_fourCore]
  have a1 : 0 < 1 - k := by linarith
  have a2 : 0 < dg * h := by linarith
  have a3 : 0 < 2 * (dg * h) - k := by linarith
  have a4 : 0 < h - dg * h := by linarith
  intro q hq
  simp only [List.mem_cons, List.not_mem_nil, or_false] at hq
  rcases hq with rfl | rfl | rfl | rfl | rfl | rfl | rfl | rfl | rfl | rfl | rfl | rfl <;>
  · simp [quadOf, diskL_fourCore]
    unfold convexCCW cross2K
    dsimp only
    refine ⟨rfl, rfl, rfl, rfl, ?_, ?_, ?_, ?_⟩ <;>
      linarith [mul_pos hk0 hk0, mul_pos hk0 a1, mul_pos hk0 a2, mul_pos hk0 a3, mul_pos hk0 a4, mul_pos hk0 hh, mul_pos a1 a1, mul_pos a1 a2, mul_pos a1 a3, mul_pos a1 a4, mul_pos a1 hh, mul_pos a2 a2, mul_pos a2 a3, mul_pos a2 a4, mul_pos a2 hh, mul_pos a3 a3, mul_pos a3 a4, mul_pos a3 hh, mul_pos a4 a4, mul_pos a4 hh, mul_pos hh hh]

end CBV.C11
