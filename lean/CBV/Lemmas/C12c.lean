/-
C12 — helper lemmas, part c: the invariant `Canon` ("the lists are what `clear(); assemble()` would
build, up to grading state"), its preservation by the calls that need no re-assembly, `Aligned`
("operations have the points of their blocks") and well-formedness of reachable states.
-/
import CBV.Lemmas.C12b

namespace CBV.C12

attribute [local irreducible] addVerts addEdges addFaces patchItems faceItems

/-! ### `written` only looks at lists, patch modifications, default patch, merged pairs and live operations -/

theorem RT_eta (x : Mesh) : RT x = { x with lists := (RT x).lists } := rfl

theorem assemble_lists (m : Mesh) :
    (assemble m).lists = (liveOps m).foldl (addOp (slavePatches m)) m.lists := by
  simp only [assemble_flat, assembleLoop_eq_foldl]; rfl

theorem assemble_of_not_assembled (m : Mesh) (h : isAssembled (assemble m) = false) : assemble m = m := by
  have hl : liveOps m = [] := by
    rcases Classical.em (liveOps m = []) with hl | hne
    · exact hl
    · have := foldl_addOp_verts_ne_nil (slavePatches m) (liveOps m) m.lists (Or.inl hne)
      rw [← assemble_lists] at this
      simp [isAssembled] at h
      exact absurd h this
  have : (assemble m).lists = m.lists := by rw [assemble_lists, hl]; rfl
  show ({ m with lists := (assemble m).lists } : Mesh) = m
  rw [this]

def writtenOf (l : Lists) (modified : List String) (dflt : Option (String × String))
    (merged : List (String × String)) (live : List Op) : Except Err Text :=
  written { depot := live, deleted := [], lists := l, modified := modified, dflt := dflt, merged := merged }

theorem liveOps_norm (m : Mesh) :
    liveOps { depot := liveOps m, deleted := [], lists := m.lists, modified := m.modified, dflt := m.dflt, merged := m.merged }
      = liveOps m := by
  simp [liveOps]

theorem render_congr (a b : Mesh) (h1 : a.lists = b.lists) (h2 : a.modified = b.modified) (h3 : a.dflt = b.dflt)
    (h4 : a.merged = b.merged) (h6 : a.geometry = b.geometry) : render a = render b := by
  unfold render geometrySection patchSection
  rw [h1, h2, h3, h4, h6]

/-- `write` once the implicit assembly is done -/
def writeFrom (x : Mesh) : Mesh × Except Err Text :=
  if !isAssembled x then (x, .error .notAssembled)
  else
    if (gradeBlocks x).lists.blocks.all Block.isDefined then (gradeBlocks x, .ok (render (gradeBlocks x)))
    else (gradeBlocks x, .error .undefined)

theorem write_eq (m : Mesh) : write m = writeFrom (if isAssembled m then m else assemble m) := rfl

theorem writeFrom_congr (x y : Mesh) (h1 : x.lists = y.lists) (h2 : x.modified = y.modified) (h3 : x.dflt = y.dflt)
    (h4 : x.merged = y.merged) (h6 : x.geometry = y.geometry) : (writeFrom x).2 = (writeFrom y).2 := by
  have hi : isAssembled x = isAssembled y := by simp [isAssembled, h1]
  have hg : (gradeBlocks x).lists = (gradeBlocks y).lists := by simp [gradeBlocks, h1]
  have hr := render_congr (gradeBlocks x) (gradeBlocks y) hg h2 h3 h4 h6
  unfold writeFrom
  rw [hi, hg, hr]
  split
  · rfl
  · split <;> rfl

theorem written_congr (a b : Mesh) (h1 : a.lists = b.lists) (h2 : a.modified = b.modified) (h3 : a.dflt = b.dflt)
    (h4 : a.merged = b.merged) (h5 : liveOps a = liveOps b) (h6 : a.geometry = b.geometry) : written a = written b := by
  have hs : slavePatches a = slavePatches b := by simp [slavePatches, h4]
  have hal : (assemble a).lists = (assemble b).lists := by rw [assemble_lists, assemble_lists, h1, h5, hs]
  have hia : isAssembled a = isAssembled b := by simp [isAssembled, h1]
  unfold written
  rw [write_eq, write_eq, hia]
  apply writeFrom_congr
  · split
    · exact h1
    · exact hal
  · split
    · exact h2
    · exact h2
  · split
    · exact h3
    · exact h3
  · split
    · exact h4
    · exact h4
  · split
    · exact h6
    · exact h6

/-! ### Canon -/

/-- the lists are what `clear(); assemble()` would build from the depot, up to the grading state of the blocks -/
def Canon (t : Mesh) : Prop := ungradeL (RT t).lists = ungradeL t.lists

theorem RT_lists_idem (m : Mesh) : (RT (RT m)).lists = (RT m).lists := by
  rw [RT_lists (RT m)]
  have h1 : liveOps (RT m) = liveOps m := rfl
  have h2 : slavePatches (RT m) = slavePatches m := rfl
  rw [h1, h2]
  have hp : (RT m).lists.patches
      = addItems (clearPatches m.lists.patches) (allItems (slavePatches m) (liveOps m) []) := by
    rw [RT_lists m]
  rw [hp, refill_idem, ← RT_lists m]

theorem RT_idem (m : Mesh) : RT (RT m) = RT m := by
  rw [RT_eta (RT m), RT_lists_idem]

theorem canon_RT (m : Mesh) : Canon (RT m) := by
  unfold Canon; rw [RT_lists_idem]

theorem canon_patches (t : Mesh) (h : Canon t) : (RT t).lists.patches = t.lists.patches := by
  have := congrArg Lists.patches h
  simpa [ungradeL] using this

theorem canon_setDefault (t : Mesh) (n k : String) (h : Canon t) : Canon (setDefault t n k) := h

theorem canon_modify (t : Mesh) (n k : String) (st : Option (List String)) (h : Canon t) :
    Canon (modify t n k st) := by
  have hP := canon_patches t h
  rw [RT_lists t] at hP
  simp only at hP
  unfold Canon at h ⊢
  rw [RT_lists] at h ⊢
  have h1 : liveOps (modify t n k st) = liveOps t := rfl
  have h2 : slavePatches (modify t n k st) = slavePatches t := rfl
  rw [h1, h2]
  have hpm : (modify t n k st).lists.patches = modifyPatch t.lists.patches n k st := rfl
  rw [hpm, clearPatches_modifyPatch, addItems_modifyPatch, hP]
  · have hl : (modify t n k st).lists = { t.lists with patches := modifyPatch t.lists.patches n k st } := rfl
    rw [hl]
    rw [hP] at h
    simp only [ungradeL] at h ⊢
    have hb := congrArg Lists.blocks h
    have hv := congrArg Lists.verts h
    have he := congrArg Lists.edges h
    have hf := congrArg Lists.faces h
    have ha := congrArg Lists.assembled h
    simp only at hb hv he hf ha
    simp only [hb, hv, he, hf, ha]
  · intro it hit
    rw [names_clearPatches]
    have := mem_names_addItems (clearPatches t.lists.patches) _ it.1 (Or.inr ⟨it, hit, rfl⟩)
    rw [hP] at this
    exact this

theorem canon_gradeBlocks (t : Mesh) (h : Canon t) : Canon (gradeBlocks t) := by
  unfold Canon at h ⊢
  have h1 : (RT (gradeBlocks t)).lists = (RT t).lists := rfl
  rw [h1, h]
  simp [gradeBlocks, ungradeL, List.map_map, Function.comp_def, ungradeB_gradeBlock]

theorem canon_not_assembled (t : Mesh) (h : Canon t) (hn : isAssembled t = false) : assemble t = t := by
  apply assemble_of_not_assembled
  have hv := congrArg Lists.verts h
  simp only [ungradeL] at hv
  have hl : liveOps t = [] := by
    rcases Classical.em (liveOps t = []) with hl | hne
    · exact hl
    · have := foldl_addOp_verts_ne_nil (slavePatches t) (liveOps t) ({} : Lists) (Or.inl hne)
      rw [RT_lists] at hv
      simp only at hv
      rw [hv] at this
      simp [isAssembled] at hn
      exact absurd hn this
  have : (assemble t).lists = t.lists := by rw [assemble_lists, hl]; rfl
  simp only [isAssembled, this]
  exact hn

theorem write_state_assembled (t : Mesh) (h : isAssembled t = true) : (write t).1 = gradeBlocks t := by
  unfold write
  simp only [h, if_true, Bool.not_true, Bool.false_eq_true, if_false]
  split <;> rfl

theorem write_state_unassembled (t : Mesh) (h : isAssembled t = false) (h2 : assemble t = t) : (write t).1 = t := by
  unfold write
  simp [h, h2]

theorem canon_write (t : Mesh) (h : Canon t) : Canon (write t).1 := by
  by_cases ha : isAssembled t = true
  · rw [write_state_assembled t ha]; exact canon_gradeBlocks t h
  · have ha' : isAssembled t = false := by simpa using ha
    rw [write_state_unassembled t ha' (canon_not_assembled t h ha')]; exact h

/-- calls that need no re-assembly -/
def Step.quiet : Step → Bool
  | .modify _ _ _ => true
  | .setDefault _ _ => true
  | .write => true
  | .addGeometry _ _ => true
  | _ => false

theorem canon_step (t : Mesh) (s : Step) (hq : s.quiet = true) (h : Canon t) : Canon (step t s) := by
  cases s <;> simp [Step.quiet] at hq
  · exact canon_modify t _ _ _ h
  · exact canon_setDefault t _ _ h
  · exact canon_write t h
  · exact h

theorem canon_run (t : Mesh) (q : List Step) (hq : ∀ s ∈ q, s.quiet = true) (h : Canon t) : Canon (run t q) := by
  induction q generalizing t with
  | nil => exact h
  | cons s rest ih =>
    simp only [run, List.foldl_cons]
    apply ih
    · intro s' hs'; exact hq s' (by simp [hs'])
    · exact canon_step t s (hq s (by simp)) h

theorem canon_ungrade (t : Mesh) (h : Canon t) : ungrade (RT t) = ungrade t := by
  show ({ t with lists := ungradeL (RT t).lists } : Mesh) = { t with lists := ungradeL t.lists }
  rw [h]

theorem canon_written (t : Mesh) (h : Canon t) : written (RT t) = written t := by
  rw [← written_ungrade (RT t), canon_ungrade t h, written_ungrade]

/-! ### Aligned, well-formedness -/

/-- same identity, same object; an operation has 8 points -/
def DepotWF (depot : List Op) : Prop :=
  (∀ o1 ∈ depot, ∀ o2 ∈ depot, o1.id = o2.id → o1 = o2) ∧ ∀ o ∈ depot, o.corners.length = 8

/-- every operation that has a block has the locations of that block's vertices -/
def Aligned (m : Mesh) : Prop :=
  ∀ p ∈ m.lists.blocks.zip m.lists.assembled, ∀ o ∈ m.depot, o.id = p.2 →
    o.corners = p.1.verts.map (locOf m.lists.verts)

theorem goodLists_RT (m : Mesh) : GoodLists (liveOps m) (RT m).lists := by
  rw [RT_lists]
  have h0 : GoodLists (liveOps m) ({} : Lists) := ⟨rfl, by intro p hp; simp at hp⟩
  have := goodLists_foldl (slavePatches m) (liveOps m) (liveOps m) {} h0 (fun o h => h)
  exact ⟨this.1, this.2⟩

theorem liveOps_sub (m : Mesh) : ∀ o ∈ liveOps m, o ∈ m.depot := by
  intro o ho; exact (List.mem_filter.mp ho).1

theorem aligned_RT (m : Mesh) (h : DepotWF m.depot) : Aligned (RT m) := by
  intro p hp o ho hid
  obtain ⟨o', ho', h1, _, h2, _, _⟩ := (goodLists_RT m).2 p hp
  have ho'd : o' ∈ m.depot := liveOps_sub m o' ho'
  have : o = o' := h.1 o ho o' ho'd (by rw [hid, h1])
  subst this
  rw [h2, range8Corners, corners8 _ (h.2 o ho)]

theorem backportDepot_aligned (m : Mesh) (h : Aligned m) :
    backportDepot m.lists.verts (m.lists.blocks.zip m.lists.assembled) m.depot = m.depot := by
  rw [backportDepot_eq_map]
  conv => rhs; rw [← List.map_id m.depot]
  apply List.map_congr_left
  intro o ho
  simp only [id]
  apply bpOne_aligned
  intro p hp hid
  exact h p hp o ho hid

theorem blocks8_RT (m : Mesh) : ∀ b ∈ (RT m).lists.blocks, b.verts.length = 8 := by
  intro b hb
  obtain ⟨hl, hg⟩ := goodLists_RT m
  obtain ⟨i, hi, hbi⟩ := List.getElem_of_mem hb
  have hi2 : i < (RT m).lists.assembled.length := by omega
  have hz : (b, (RT m).lists.assembled[i]) ∈ (RT m).lists.blocks.zip (RT m).lists.assembled := by
    rw [List.mem_iff_getElem]
    refine ⟨i, by simp; omega, ?_⟩
    simp [hbi]
  obtain ⟨_, _, _, _, _, _, h8⟩ := hg _ hz
  exact h8

theorem depotWF_map_bpOne (vs : List Vtx) (pairs : List (Block × Nat)) (depot : List Op) (h : DepotWF depot)
    (hn : (pairs.map (·.2)).Nodup) (h8 : ∀ p ∈ pairs, p.1.verts.length = 8) :
    DepotWF (depot.map (bpOne vs pairs)) := by
  constructor
  · intro o1 h1 o2 h2 hid
    obtain ⟨a, ha, rfl⟩ := List.mem_map.mp h1
    obtain ⟨b, hb, rfl⟩ := List.mem_map.mp h2
    rw [bpOne_id, bpOne_id] at hid
    rw [h.1 a ha b hb hid]
  · intro o ho
    obtain ⟨a, ha, rfl⟩ := List.mem_map.mp ho
    by_cases hin : a.id ∈ pairs.map (·.2)
    · obtain ⟨p, hp, hpid⟩ := List.mem_map.mp hin
      obtain ⟨b, id⟩ := p
      simp only at hpid
      subst hpid
      rw [bpOne_corners vs pairs a b hn hp]
      simpa using h8 (b, a.id) hp
    · rw [bpOne_untouched vs pairs a hin]; exact h.2 a ha

end CBV.C12
