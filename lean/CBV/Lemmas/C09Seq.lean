/-
C09 — sequences of method calls / transformation lists: the heap model and the value-level composition agree step by
step; NoAlias and InHeap survive every step (the cells of the tree are only permuted by `Operation.mirror`).
-/
import CBV.Lemmas.C09Entity

namespace CBV.C09
open CBV

set_option linter.unusedSimpArgs false

theorem visits_reverseE (e : Ent) : (visitsE (reverseE e)).Perm (visitsE e) := by
  match e with
  | .pt i => simp [reverseE]
  | .dir i => simp [reverseE]
  | .arr is => simp [reverseE]
  | .node k a ch =>
    cases k <;> try (simp [reverseE, visitsE]; done)
    match ch with
    | [] => simp [reverseE]
    | _ :: _ :: _ => simp [reverseE]
    | [.pt _] => simp [reverseE]
    | [.dir _] => simp [reverseE]
    | [.arr _] => simp [reverseE]
    | [.node k2 a2 ch2] =>
      cases k2 <;> try (simp [reverseE]; done)
      match ch2 with
      | [] => simp [reverseE]
      | _ :: _ :: _ => simp [reverseE]
      | [.pt _] => simp [reverseE]
      | [.dir _] => simp [reverseE]
      | [.node _ _ _] => simp [reverseE]
      | [.arr is] =>
          simp only [reverseE, visitsE, visitsL, List.append_nil, List.map_reverse]
          exact List.reverse_perm _

theorem visitsL_map_reverseE : ∀ (es : List Ent), (visitsL (es.map reverseE)).Perm (visitsL es)
  | [] => by simp
  | e :: es => by
      simp only [List.map_cons, visitsL]
      exact (visits_reverseE e).append (visitsL_map_reverseE es)

theorem visitsL_invertOp (ch : List Ent) : (visitsL (invertOp ch)).Perm (visitsL ch) := by
  match ch with
  | [] => simp [invertOp]
  | [_] => simp [invertOp]
  | b :: t :: sides =>
      simp only [invertOp, visitsL]
      have h1 := visitsL_map_reverseE sides
      calc (visitsE t ++ (visitsE b ++ visitsL (sides.map reverseE))).Perm (visitsE t ++ (visitsE b ++ visitsL sides)) :=
            (List.Perm.refl _).append ((List.Perm.refl _).append h1)
        _ = ((visitsE t ++ visitsE b) ++ visitsL sides) := by simp
        _ |>.Perm ((visitsE b ++ visitsE t) ++ visitsL sides) := (List.perm_append_comm).append (List.Perm.refl _)
        _ = (visitsE b ++ (visitsE t ++ visitsL sides)) := by simp

mutual
theorem visits_afterE (m : Bool) : ∀ (e : Ent), (visitsE (afterE m e)).Perm (visitsE e)
  | .pt i => by simp [afterE]
  | .dir i => by simp [afterE]
  | .arr is => by simp [afterE]
  | .node k a ch => by
      simp only [afterE, visitsE]
      split
      · exact (visitsL_invertOp _).trans (visits_afterL m ch)
      · exact visits_afterL m ch
theorem visits_afterL (m : Bool) : ∀ (es : List Ent), (visitsL (afterL m es)).Perm (visitsL es)
  | [] => by simp [afterL]
  | e :: es => by
      simp only [afterL, visitsL]
      exact (visits_afterE m e).append (visits_afterL m es)
end

/-! ### one step, then the sequence -/

def NoAliasL (e : Ent) : Prop := ((visitsE e).map Prod.fst).Nodup
def InHeapL (e : Ent) (h : Heap) : Prop := ∀ v ∈ visitsE e, v.1 < h.length

theorem isLeafV_resolve (h : Heap) (e : Ent) : isLeafV (resolveE h e) = isLeaf e := by
  cases e <;> simp [resolveE, isLeafV, isLeaf]

theorem defaultOrigin_resolve (vm : Bool) (h : Heap) (oc : Option V3) (e : Ent) :
    defaultOrigin vm h oc e = defaultOriginV vm oc (resolveE h e) := by
  simp [defaultOrigin, defaultOriginV, isLeafV_resolve, center]

theorem inv_applyE (t : RT) (e : Ent) (h : Heap) (hna : NoAliasL e) (hin : InHeapL e h) :
    NoAliasL (applyE t e h).1 ∧ InHeapL (applyE t e h).1 (applyE t e h).2 := by
  rw [applyE_fst, applyE_heap]
  have hp := visits_afterE t.isMirror e
  constructor
  · exact ((hp.map Prod.fst).nodup_iff).mpr hna
  · intro v hv
    rw [runV_length]
    exact hin v ((hp.mem_iff).mp hv)

theorem inv_applyL (t : RT) (k : Kind) (a a' : Rat) (ch : List Ent) (h : Heap)
    (hna : NoAliasL (.node k a ch)) (hin : InHeapL (.node k a ch) h) :
    NoAliasL (.node k a' (applyL t ch h).1) ∧ InHeapL (.node k a' (applyL t ch h).1) (applyL t ch h).2 := by
  rw [applyL_fst, applyL_heap]
  have hp := visits_afterL t.isMirror ch
  simp only [NoAliasL, InHeapL, visitsE] at hna hin ⊢
  constructor
  · exact ((hp.map Prod.fst).nodup_iff).mpr hna
  · intro v hv
    rw [runV_length]
    exact hin v ((hp.mem_iff).mp hv)

/-- what one step does to the state and to the output geometry -/
def stepH (vm : Bool) (t : Tr × Option V3) (s : Ent × Heap) : Option (Ent × Heap) :=
  if vm then method t.1 t.2 s else transformStep t.1 t.2 s

def stepO (vm : Bool) (t : Tr × Option V3) (v : VEnt) : Option VEnt :=
  if vm then methodV t.1 t.2 v else transformStepV t.1 t.2 v

theorem step_spec (vm : Bool) (t : Tr × Option V3) (e : Ent) (h : Heap) (hna : NoAliasL e) (hin : InHeapL e h) :
    (stepH vm t (e, h) = none ∧ stepO vm t (resolveE h e) = none) ∨
    ∃ e' h', stepH vm t (e, h) = some (e', h') ∧ stepO vm t (resolveE h e) = some (resolveE h' e') ∧
      NoAliasL e' ∧ InHeapL e' h' := by
  cases vm with
  | true =>
      simp only [stepH, stepO, if_true, method, methodV, defaultOrigin_resolve]
      cases hr : t.1.resolveWith (defaultOriginV true t.2 (resolveE h e)) with
      | none => left; simp
      | some rt =>
          right
          refine ⟨(applyE rt e h).1, (applyE rt e h).2, by simp, ?_, inv_applyE rt e h hna hin⟩
          simp [resolve_applyE rt e h hna hin]
  | false =>
      simp only [stepH, stepO, Bool.false_eq_true, if_false, transformStep, transformStepV, defaultOrigin_resolve]
      cases hr : t.1.resolveWith (defaultOriginV false t.2 (resolveE h e)) with
      | none => left; simp
      | some rt =>
          right
          cases e with
          | node k a ch =>
              have h1 : visitsE (.node k a ch) = visitsL ch := by simp [visitsE]
              refine ⟨.node k (touchAttr k a) (applyL rt ch h).1, (applyL rt ch h).2, by simp, ?_,
                inv_applyL rt k a _ ch h hna hin⟩
              have hr := resolve_applyL rt ch h (by simpa [NoAliasL, h1] using hna) (by simpa [InHeapL, h1] using hin)
              simp [resolveE, hr]
          | pt i =>
              refine ⟨(applyE rt (.pt i) h).1, (applyE rt (.pt i) h).2, by simp, ?_, inv_applyE rt _ h hna hin⟩
              simp [resolve_applyE rt _ h hna hin, resolveE]
          | dir i =>
              refine ⟨(applyE rt (.dir i) h).1, (applyE rt (.dir i) h).2, by simp, ?_, inv_applyE rt _ h hna hin⟩
              simp [resolve_applyE rt _ h hna hin, resolveE]
          | arr is =>
              refine ⟨(applyE rt (.arr is) h).1, (applyE rt (.arr is) h).2, by simp, ?_, inv_applyE rt _ h hna hin⟩
              simp [resolve_applyE rt _ h hna hin, resolveE]

theorem runSteps_eq (vm : Bool) (ts : List (Tr × Option V3)) (s : Ent × Heap) :
    runSteps vm ts s = ts.foldlM (fun s t => stepH vm t s) s := rfl

theorem runStepsV_eq (vm : Bool) (ts : List (Tr × Option V3)) (v : VEnt) :
    runStepsV vm ts v = ts.foldlM (fun v t => stepO vm t v) v := rfl

/-- a whole sequence: reading the output after the steps = the value-level steps on the output read before -/
theorem runSteps_resolve (vm : Bool) : ∀ (ts : List (Tr × Option V3)) (e : Ent) (h : Heap),
    NoAliasL e → InHeapL e h →
    (runSteps vm ts (e, h)).map (fun s => resolveE s.2 s.1) = runStepsV vm ts (resolveE h e)
  | [], e, h, _, _ => by simp [runSteps, runStepsV]
  | t :: ts, e, h, hna, hin => by
      rw [runSteps_eq, runStepsV_eq, List.foldlM_cons, List.foldlM_cons]
      rcases step_spec vm t e h hna hin with ⟨h1, h2⟩ | ⟨e', h', h1, h2, hna', hin'⟩
      · rw [h1, h2]; rfl
      · rw [h1, h2]
        simp only [Option.bind_eq_bind, Option.bind_some]
        rw [← runSteps_eq, ← runStepsV_eq]
        exact runSteps_resolve vm ts e' h' hna' hin'

end CBV.C09
