/-
C15 — the structured `nx × ny × nz` hexahedral assembly (`structHexes`), for every size: the neighbours of a
lattice-interior vertex are exactly its six lattice neighbours; with that, the assembly is `LatticeLike` as soon as
its inner junctions are lattice-interior.
-/
import CBV.Lemmas.C15Graph
import CBV.Lemmas.C15Max

namespace CBV.C15
open CBV

/-- addressing of the hexahedron in column `i`, row `j`, layer `k` of a lattice with row stride `W` and layer stride `L`
    (blockMesh corner numbering) -/
def hexCellWL (W L i j k : Nat) : List Nat :=
  [k * L + j * W + i, k * L + j * W + i + 1, k * L + j * W + W + i + 1, k * L + j * W + W + i,
   k * L + L + j * W + i, k * L + L + j * W + i + 1, k * L + L + j * W + W + i + 1, k * L + L + j * W + W + i]

/-- a lattice of hexahedra with strides `W`, `L` over `n` points -/
def hexGridWL (W L nx ny nz n : Nat) : Grid :=
  ⟨hexKind,
   (List.range nz).flatMap (fun k => (List.range ny).flatMap (fun j => (List.range nx).map (fun i => hexCellWL W L i j k))),
   n⟩

/-- `GridBase` addressing of the structured `nx × ny × nz` assembly -/
def structHexes (nx ny nz : Nat) : Grid :=
  hexGridWL (nx + 1) ((ny + 1) * (nx + 1)) nx ny nz ((nz + 1) * ((ny + 1) * (nx + 1)))

/-- lattice coordinates of the points of the assembly -/
def hexCoord (nx ny : Nat) (q : Nat) : V3 :=
  ⟨((q % ((ny + 1) * (nx + 1))) % (nx + 1) : Nat), ((q % ((ny + 1) * (nx + 1))) / (nx + 1) : Nat),
   (q / ((ny + 1) * (nx + 1)) : Nat)⟩

theorem mem_hexGridWL (W L nx ny nz n : Nat) (c : List Nat) :
    c ∈ (hexGridWL W L nx ny nz n).cells ↔ ∃ k, k < nz ∧ ∃ j, j < ny ∧ ∃ i, i < nx ∧ c = hexCellWL W L i j k := by
  unfold hexGridWL
  simp only [List.mem_flatMap, List.mem_map, List.mem_range]
  constructor
  · rintro ⟨k, hk, j, hj, i, hi, rfl⟩; exact ⟨k, hk, j, hj, i, hi, rfl⟩
  · rintro ⟨k, hk, j, hj, i, hi, rfl⟩; exact ⟨k, hk, j, hj, i, hi, rfl⟩

/-- the neighbours of a lattice-interior vertex are its six lattice neighbours, in ascending order -/
theorem interior_nbrs_hexWL (W L nx ny nz n x y z : Nat) (hW : 1 < W) (hWL : W < L)
    (hx : x + 2 ≤ nx) (hy : y + 2 ≤ ny) (hz : z + 2 ≤ nz)
    (hn : (z + 2) * L + (y + 1) * W + (x + 1) < n) :
    junctionNbrs (hexGridWL W L nx ny nz n) ((z + 1) * L + (y + 1) * W + (x + 1)) =
      [z * L + (y + 1) * W + (x + 1), (z + 1) * L + y * W + (x + 1), (z + 1) * L + (y + 1) * W + x,
       (z + 1) * L + (y + 1) * W + (x + 2), (z + 1) * L + (y + 2) * W + (x + 1), (z + 2) * L + (y + 1) * W + (x + 1)] := by
  have hk : (hexGridWL W L nx ny nz n).kind = hexKind := rfl
  have hnn : (hexGridWL W L nx ny nz n).n = n := rfl
  simp only [Nat.add_mul, Nat.one_mul] at hn
  apply List.Perm.eq_of_pairwise (le := (· < ·))
  · intro a b _ _ hab hba; omega
  · exact junctionNbrs_sorted _ _
  · simp only [List.pairwise_cons, List.mem_cons, List.not_mem_nil, or_false, forall_eq_or_imp, forall_eq,
      List.Pairwise.nil, and_true, IsEmpty.forall_iff, implies_true, Nat.add_mul, Nat.one_mul]
    omega
  · rw [List.perm_ext_iff_of_nodup]
    · intro t
      rw [mem_junctionNbrs, hk, hnn]
      constructor
      · rintro ⟨_, _, cell, hc, _, e, he, h⟩
        obtain ⟨k, _, j, _, i, _, rfl⟩ := (mem_hexGridWL W L nx ny nz n cell).mp hc
        have he' : e = (0, 1) ∨ e = (3, 2) ∨ e = (7, 6) ∨ e = (4, 5) ∨ e = (0, 3) ∨ e = (1, 2) ∨ e = (5, 6) ∨
            e = (4, 7) ∨ e = (0, 4) ∨ e = (1, 5) ∨ e = (2, 6) ∨ e = (3, 7) := by
          simpa [hexKind, CBV.Gen.hexEdgePairs] using he
        rcases he' with rfl | rfl | rfl | rfl | rfl | rfl | rfl | rfl | rfl | rfl | rfl | rfl <;>
          simp only [hexCellWL, List.getD_cons_zero, List.getD_cons_succ, Nat.add_mul, Nat.one_mul] at h <;>
          simp only [List.mem_cons, List.not_mem_nil, or_false, Nat.add_mul, Nat.one_mul] <;> omega
      · intro ht
        simp only [List.mem_cons, List.not_mem_nil, or_false] at ht
        have cellmem : ∀ i j k, i < nx → j < ny → k < nz → hexCellWL W L i j k ∈ (hexGridWL W L nx ny nz n).cells :=
          fun i j k hi hj hk => (mem_hexGridWL W L nx ny nz n _).mpr ⟨k, hk, j, hj, i, hi, rfl⟩
        rcases ht with rfl | rfl | rfl | rfl | rfl | rfl
        · -- below (layer z): cell (x+1, y+1, z), edge (0, 4)
          refine ⟨by simp only [Nat.add_mul, Nat.one_mul]; omega, by simp only [Nat.add_mul, Nat.one_mul]; omega,
            hexCellWL W L (x + 1) (y + 1) z, cellmem _ _ _ (by omega) (by omega) (by omega),
            (by simp [hexCellWL, Nat.add_mul]; try omega), (0, 4), by simp [hexKind, CBV.Gen.hexEdgePairs],
            Or.inr ⟨(by simp [hexCellWL, Nat.add_mul]; try omega), (by simp [hexCellWL, Nat.add_mul]; try omega)⟩⟩
        · -- front (row y): cell (x+1, y, z+1), edge (0, 3)
          refine ⟨by simp only [Nat.add_mul, Nat.one_mul]; omega, by simp only [Nat.add_mul, Nat.one_mul]; omega,
            hexCellWL W L (x + 1) y (z + 1), cellmem _ _ _ (by omega) (by omega) (by omega),
            (by simp [hexCellWL, Nat.add_mul]; try omega), (0, 3), by simp [hexKind, CBV.Gen.hexEdgePairs],
            Or.inr ⟨(by simp [hexCellWL, Nat.add_mul]; try omega), (by simp [hexCellWL, Nat.add_mul]; try omega)⟩⟩
        · -- left (column x): cell (x, y+1, z+1), edge (0, 1)
          refine ⟨by simp only [Nat.add_mul, Nat.one_mul]; omega, by simp only [Nat.add_mul, Nat.one_mul]; omega,
            hexCellWL W L x (y + 1) (z + 1), cellmem _ _ _ (by omega) (by omega) (by omega),
            (by simp [hexCellWL, Nat.add_mul]; try omega), (0, 1), by simp [hexKind, CBV.Gen.hexEdgePairs],
            Or.inr ⟨(by simp [hexCellWL, Nat.add_mul]; try omega), (by simp [hexCellWL, Nat.add_mul]; try omega)⟩⟩
        · -- right: cell (x+1, y+1, z+1), edge (0, 1)
          refine ⟨by simp only [Nat.add_mul, Nat.one_mul]; omega, by simp only [Nat.add_mul, Nat.one_mul]; omega,
            hexCellWL W L (x + 1) (y + 1) (z + 1), cellmem _ _ _ (by omega) (by omega) (by omega),
            (by simp [hexCellWL, Nat.add_mul]; try omega), (0, 1), by simp [hexKind, CBV.Gen.hexEdgePairs],
            Or.inl ⟨(by simp [hexCellWL, Nat.add_mul]; try omega), (by simp [hexCellWL, Nat.add_mul]; try omega)⟩⟩
        · -- back: cell (x+1, y+1, z+1), edge (0, 3)
          refine ⟨by simp only [Nat.add_mul, Nat.one_mul]; omega, by simp only [Nat.add_mul, Nat.one_mul]; omega,
            hexCellWL W L (x + 1) (y + 1) (z + 1), cellmem _ _ _ (by omega) (by omega) (by omega),
            (by simp [hexCellWL, Nat.add_mul]; try omega), (0, 3), by simp [hexKind, CBV.Gen.hexEdgePairs],
            Or.inl ⟨(by simp [hexCellWL, Nat.add_mul]; try omega), (by simp [hexCellWL, Nat.add_mul]; try omega)⟩⟩
        · -- above: cell (x+1, y+1, z+1), edge (0, 4)
          refine ⟨by simp only [Nat.add_mul, Nat.one_mul]; omega, by simp only [Nat.add_mul, Nat.one_mul]; omega,
            hexCellWL W L (x + 1) (y + 1) (z + 1), cellmem _ _ _ (by omega) (by omega) (by omega),
            (by simp [hexCellWL, Nat.add_mul]; try omega), (0, 4), by simp [hexKind, CBV.Gen.hexEdgePairs],
            Or.inl ⟨(by simp [hexCellWL, Nat.add_mul]; try omega), (by simp [hexCellWL, Nat.add_mul]; try omega)⟩⟩
    · exact (junctionNbrs_sorted _ _).imp (fun h => Nat.ne_of_lt h)
    · simp only [List.nodup_cons, List.mem_cons, List.not_mem_nil, or_false, not_or, List.nodup_nil, and_true,
        not_false_eq_true, Nat.add_mul, Nat.one_mul]
      omega

/-! ### the outer surface -/

theorem mul_tri' (j j' w : Nat) :
    (j = j' ∧ j * w = j' * w) ∨ (j < j' ∧ j * w + w ≤ j' * w) ∨ (j' < j ∧ j' * w + w ≤ j * w) := by
  rcases Nat.lt_trichotomy j j' with h | h | h
  · right; left; refine ⟨h, ?_⟩
    have := Nat.mul_le_mul_right w (Nat.succ_le_of_lt h)
    rw [Nat.succ_mul] at this; exact this
  · left; exact ⟨h, by rw [h]⟩
  · right; right; refine ⟨h, ?_⟩
    have := Nat.mul_le_mul_right w (Nat.succ_le_of_lt h)
    rw [Nat.succ_mul] at this; exact this

theorem hexSide_eq (s : Nat) (side : List Nat) (h : hexKind.sideIdx[s]? = some side) :
    (s = 0 ∧ side = [0, 1, 2, 3]) ∨ (s = 1 ∧ side = [7, 6, 5, 4]) ∨ (s = 2 ∧ side = [4, 0, 3, 7]) ∨
    (s = 3 ∧ side = [6, 2, 1, 5]) ∨ (s = 4 ∧ side = [0, 4, 5, 1]) ∨ (s = 5 ∧ side = [7, 3, 2, 6]) := by
  have hlt : s < 6 := by
    by_contra hc
    rw [List.getElem?_eq_none (by simp [hexKind, CBV.Gen.hexSideIdx]; omega)] at h; simp at h
  have : s = 0 ∨ s = 1 ∨ s = 2 ∨ s = 3 ∨ s = 4 ∨ s = 5 := by omega
  rcases this with rfl | rfl | rfl | rfl | rfl | rfl <;>
    simp [hexKind, CBV.Gen.hexSideIdx] at h <;> simp [h]

/-- which lattice points a cell holds: coordinates within one step of the cell's -/
theorem mem_hexCell (W L x y z i' j' k' : Nat) (hx : x < W) (hy : y * W + W ≤ L) (hi' : i' + 1 < W)
    (hj' : j' * W + 2 * W ≤ L) (h : z * L + y * W + x ∈ hexCellWL W L i' j' k') :
    (x = i' ∨ x = i' + 1) ∧ (y = j' ∨ y = j' + 1) ∧ (z = k' ∨ z = k' + 1) := by
  have t1 := mul_tri' z k' L
  have t2 := mul_tri' z (k' + 1) L
  have t3 := mul_tri' y j' W
  have t4 := mul_tri' y (j' + 1) W
  simp only [Nat.add_mul, Nat.one_mul] at t2 t4
  simp only [hexCellWL, List.mem_cons, List.not_mem_nil, or_false] at h
  rcases h with h | h | h | h | h | h | h | h <;> omega

/-- corner `u` of a cell in lattice coordinates -/
theorem hexCell_getD (W L i j k : Nat) :
    (hexCellWL W L i j k).getD 0 0 = k * L + j * W + i ∧
    (hexCellWL W L i j k).getD 1 0 = k * L + j * W + (i + 1) ∧
    (hexCellWL W L i j k).getD 2 0 = k * L + (j + 1) * W + (i + 1) ∧
    (hexCellWL W L i j k).getD 3 0 = k * L + (j + 1) * W + i ∧
    (hexCellWL W L i j k).getD 4 0 = (k + 1) * L + j * W + i ∧
    (hexCellWL W L i j k).getD 5 0 = (k + 1) * L + j * W + (i + 1) ∧
    (hexCellWL W L i j k).getD 6 0 = (k + 1) * L + (j + 1) * W + (i + 1) ∧
    (hexCellWL W L i j k).getD 7 0 = (k + 1) * L + (j + 1) * W + i := by
  refine ⟨?_, ?_, ?_, ?_, ?_, ?_, ?_, ?_⟩ <;>
    simp only [hexCellWL, List.getD_cons_zero, List.getD_cons_succ, Nat.add_mul, Nat.one_mul] <;> omega

theorem border_side_core (W L nx ny nz i j k s : Nat) (hW : W = nx + 1)
    (hL : ∀ j, j < ny → j * W + 2 * W ≤ L)
    (hi : i < nx) (hj : j < ny) (_hk : k < nz)
    (side : List Nat) (u0 u2 : Nat)
    (hs : (s = 0 ∧ k = 0 ∧ side = [0, 1, 2, 3]) ∨ (s = 1 ∧ k + 1 = nz ∧ side = [7, 6, 5, 4]) ∨
      (s = 2 ∧ i = 0 ∧ side = [4, 0, 3, 7]) ∨ (s = 3 ∧ i + 1 = nx ∧ side = [6, 2, 1, 5]) ∨
      (s = 4 ∧ j = 0 ∧ side = [0, 4, 5, 1]) ∨ (s = 5 ∧ j + 1 = ny ∧ side = [7, 3, 2, 6]))
    (hu : side[0]? = some u0 ∧ side[2]? = some u2)
    (i' j' k' : Nat) (hi' : i' < nx) (hj' : j' < ny) (hk' : k' < nz)
    (a0 : (hexCellWL W L i j k).getD u0 0 ∈ hexCellWL W L i' j' k')
    (a2 : (hexCellWL W L i j k).getD u2 0 ∈ hexCellWL W L i' j' k') :
    k' = k ∧ j' = j ∧ i' = i := by
  have hLj := hL j hj
  have hLj' := hL j' hj'
  have g := hexCell_getD W L i j k
  have hy0 : j * W + W ≤ L := by omega
  have hy1 : (j + 1) * W + W ≤ L := by simp only [Nat.add_mul, Nat.one_mul]; omega
  have hx0 : i < W := by omega
  have hx1 : i + 1 < W := by omega
  have hi'' : i' + 1 < W := by omega
  rcases hs with ⟨rfl, hb, rfl⟩ | ⟨rfl, hb, rfl⟩ | ⟨rfl, hb, rfl⟩ | ⟨rfl, hb, rfl⟩ | ⟨rfl, hb, rfl⟩ | ⟨rfl, hb, rfl⟩ <;>
    (simp only [List.getElem?_cons_zero, List.getElem?_cons_succ, Option.some.injEq] at hu
     obtain ⟨rfl, rfl⟩ := hu)
  · rw [g.1] at a0; rw [g.2.2.1] at a2
    have p0 := mem_hexCell W L i j k i' j' k' hx0 hy0 hi'' hLj' a0
    have p2 := mem_hexCell W L (i + 1) (j + 1) k i' j' k' hx1 hy1 hi'' hLj' a2
    clear g a0 a2 hLj hLj' hy0 hy1 hL hx0 hx1 hi''
    omega
  · rw [g.2.2.2.2.2.2.2] at a0; rw [g.2.2.2.2.2.1] at a2
    have p0 := mem_hexCell W L i (j + 1) (k + 1) i' j' k' hx0 hy1 hi'' hLj' a0
    have p2 := mem_hexCell W L (i + 1) j (k + 1) i' j' k' hx1 hy0 hi'' hLj' a2
    clear g a0 a2 hLj hLj' hy0 hy1 hL hx0 hx1 hi''
    omega
  · rw [g.2.2.2.2.1] at a0; rw [g.2.2.2.1] at a2
    have p0 := mem_hexCell W L i j (k + 1) i' j' k' hx0 hy0 hi'' hLj' a0
    have p2 := mem_hexCell W L i (j + 1) k i' j' k' hx0 hy1 hi'' hLj' a2
    clear g a0 a2 hLj hLj' hy0 hy1 hL hx0 hx1 hi''
    omega
  · rw [g.2.2.2.2.2.2.1] at a0; rw [g.2.1] at a2
    have p0 := mem_hexCell W L (i + 1) (j + 1) (k + 1) i' j' k' hx1 hy1 hi'' hLj' a0
    have p2 := mem_hexCell W L (i + 1) j k i' j' k' hx1 hy0 hi'' hLj' a2
    clear g a0 a2 hLj hLj' hy0 hy1 hL hx0 hx1 hi''
    omega
  · rw [g.1] at a0; rw [g.2.2.2.2.2.1] at a2
    have p0 := mem_hexCell W L i j k i' j' k' hx0 hy0 hi'' hLj' a0
    have p2 := mem_hexCell W L (i + 1) j (k + 1) i' j' k' hx1 hy0 hi'' hLj' a2
    clear g a0 a2 hLj hLj' hy0 hy1 hL hx0 hx1 hi''
    omega
  · rw [g.2.2.2.2.2.2.2] at a0; rw [g.2.2.1] at a2
    have p0 := mem_hexCell W L i (j + 1) (k + 1) i' j' k' hx0 hy1 hi'' hLj' a0
    have p2 := mem_hexCell W L (i + 1) (j + 1) k i' j' k' hx1 hy1 hi'' hLj' a2
    clear g a0 a2 hLj hLj' hy0 hy1 hL hx0 hx1 hi''
    omega

/-- a side of a hexahedron on the outer surface of the lattice is shared with no cell of the lattice -/
theorem border_side_no_nbr_hex (W L nx ny nz n i j k s : Nat) (hW : W = nx + 1)
    (hL : ∀ j, j < ny → j * W + 2 * W ≤ L)
    (hi : i < nx) (hj : j < ny) (hk : k < nz)
    (hs : (s = 0 ∧ k = 0) ∨ (s = 1 ∧ k + 1 = nz) ∨ (s = 2 ∧ i = 0) ∨ (s = 3 ∧ i + 1 = nx) ∨ (s = 4 ∧ j = 0) ∨
      (s = 5 ∧ j + 1 = ny))
    (c2 : List Nat) (hc2 : c2 ∈ (hexGridWL W L nx ny nz n).cells) :
    commonSide hexKind (hexCellWL W L i j k) c2 ≠ some s := by
  intro h
  obtain ⟨_, side, hside, h1, h2⟩ := commonSide_some _ _ _ _ h
  obtain ⟨k', hk', j', hj', i', hi', rfl⟩ := (mem_hexGridWL W L nx ny nz n c2).mp hc2
  have hse := hexSide_eq s side hside
  have hs' : (s = 0 ∧ k = 0 ∧ side = [0, 1, 2, 3]) ∨ (s = 1 ∧ k + 1 = nz ∧ side = [7, 6, 5, 4]) ∨
      (s = 2 ∧ i = 0 ∧ side = [4, 0, 3, 7]) ∨ (s = 3 ∧ i + 1 = nx ∧ side = [6, 2, 1, 5]) ∨
      (s = 4 ∧ j = 0 ∧ side = [0, 4, 5, 1]) ∨ (s = 5 ∧ j + 1 = ny ∧ side = [7, 3, 2, 6]) := by
    rcases hse with ⟨rfl, rfl⟩ | ⟨rfl, rfl⟩ | ⟨rfl, rfl⟩ | ⟨rfl, rfl⟩ | ⟨rfl, rfl⟩ | ⟨rfl, rfl⟩ <;> simp <;> omega
  obtain ⟨u0, u2, hu0, hu2⟩ : ∃ u0 u2, side[0]? = some u0 ∧ side[2]? = some u2 := by
    rcases hse with ⟨_, rfl⟩ | ⟨_, rfl⟩ | ⟨_, rfl⟩ | ⟨_, rfl⟩ | ⟨_, rfl⟩ | ⟨_, rfl⟩ <;> exact ⟨_, _, rfl, rfl⟩
  have hc := border_side_core W L nx ny nz i j k s hW hL hi hj hk side u0 u2 hs' ⟨hu0, hu2⟩ i' j' k' hi' hj' hk'
    (h1 u0 (List.mem_of_getElem? hu0)).2 (h1 u2 (List.mem_of_getElem? hu2)).2
  have hcell : hexCellWL W L i' j' k' = hexCellWL W L i j k := by
    rw [hc.1, hc.2.1, hc.2.2]
  rw [hcell] at h2
  have e0 := h2 ((hexCellWL W L i j k).getD 0 0) (by simp [hexCellWL]) (by simp [hexCellWL])
  have e6 := h2 ((hexCellWL W L i j k).getD 6 0) (by simp [hexCellWL]) (by simp [hexCellWL])
  have hLj := hL j hj
  rcases hse with ⟨_, rfl⟩ | ⟨_, rfl⟩ | ⟨_, rfl⟩ | ⟨_, rfl⟩ | ⟨_, rfl⟩ | ⟨_, rfl⟩ <;>
    (simp only [hexCellWL, List.getD_cons_zero, List.getD_cons_succ, List.mem_cons, List.not_mem_nil, or_false,
       exists_eq_or_imp, exists_eq_left] at e0 e6
     omega)

/-- corner of a cell by its offsets (blockMesh numbering) -/
def cornerOf (bx bY bz : Nat) : Nat :=
  match bx, bY, bz with
  | 0, 0, 0 => 0 | 1, 0, 0 => 1 | 1, 1, 0 => 2 | 0, 1, 0 => 3
  | 0, 0, 1 => 4 | 1, 0, 1 => 5 | 1, 1, 1 => 6 | _, _, _ => 7

theorem cornerOf_getD (W L i j k bx bY bz : Nat) (hx : bx < 2) (hy : bY < 2) (hz : bz < 2) :
    (hexCellWL W L i j k).getD (cornerOf bx bY bz) 0 = (k + bz) * L + (j + bY) * W + (i + bx) := by
  have g := hexCell_getD W L i j k
  have h1 : bx = 0 ∨ bx = 1 := by omega
  have h2 : bY = 0 ∨ bY = 1 := by omega
  have h3 : bz = 0 ∨ bz = 1 := by omega
  rcases h1 with rfl | rfl <;> rcases h2 with rfl | rfl <;> rcases h3 with rfl | rfl <;>
    simp only [cornerOf, Nat.add_zero] <;> first
      | exact g.1 | exact g.2.1 | exact g.2.2.1 | exact g.2.2.2.1 | exact g.2.2.2.2.1 | exact g.2.2.2.2.2.1
      | exact g.2.2.2.2.2.2.1 | exact g.2.2.2.2.2.2.2

theorem cornerOf_side : ∀ bx, bx < 2 → ∀ bY, bY < 2 → ∀ bz, bz < 2 → ∀ s, s < 6 →
    ((s = 2 ∧ bx = 0) ∨ (s = 3 ∧ bx = 1) ∨ (s = 4 ∧ bY = 0) ∨ (s = 5 ∧ bY = 1) ∨ (s = 0 ∧ bz = 0) ∨ (s = 1 ∧ bz = 1)) →
    cornerOf bx bY bz ∈ hexKind.sideIdx.getD s [] ∧ cornerOf bx bY bz < 8 := by
  intro bx hbx bY hbY bz hbz s hs h
  have h1 : bx = 0 ∨ bx = 1 := by omega
  have h2 : bY = 0 ∨ bY = 1 := by omega
  have h3 : bz = 0 ∨ bz = 1 := by omega
  have h4 : s = 0 ∨ s = 1 ∨ s = 2 ∨ s = 3 ∨ s = 4 ∨ s = 5 := by omega
  rcases h1 with rfl | rfl <;> rcases h2 with rfl | rfl <;> rcases h3 with rfl | rfl <;>
    rcases h4 with rfl | rfl | rfl | rfl | rfl | rfl <;> first | decide | (exfalso; omega)

/-- a corner of an outer side of a cell is a boundary junction of the model's graph -/
theorem isBoundary_of_side_hex (W L nx ny nz n i j k s u q : Nat) (hW : W = nx + 1)
    (hL : ∀ j, j < ny → j * W + 2 * W ≤ L) (hi : i < nx) (hj : j < ny) (hk : k < nz)
    (hs : (s = 0 ∧ k = 0) ∨ (s = 1 ∧ k + 1 = nz) ∨ (s = 2 ∧ i = 0) ∨ (s = 3 ∧ i + 1 = nx) ∨ (s = 4 ∧ j = 0) ∨
      (s = 5 ∧ j + 1 = ny))
    (side : List Nat) (hside : hexKind.sideIdx[s]? = some side) (hu : u ∈ side)
    (hq : (hexCellWL W L i j k).getD u 0 = q) (hqc : q ∈ hexCellWL W L i j k) :
    isBoundary (hexGridWL W L nx ny nz n) q = true := by
  rw [isBoundary_iff]
  have hmem : hexCellWL W L i j k ∈ (hexGridWL W L nx ny nz n).cells :=
    (mem_hexGridWL W L nx ny nz n _).mpr ⟨k, hk, j, hj, i, hi, rfl⟩
  obtain ⟨ci, hci⟩ := List.mem_iff_getElem?.mp hmem
  have hcell : (hexGridWL W L nx ny nz n).cells.getD ci [] = hexCellWL W L i j k := by
    simp [List.getD_eq_getElem?_getD, hci]
  refine ⟨ci, hexCellWL W L i j k, hci, hqc, (mem_cellBoundary _ ci q).mpr ⟨s, side, hside, ?_, u, hu, ?_⟩⟩
  · rw [cellNbrs_none_iff]
    refine ⟨?_, fun cj hlt _ => ?_⟩
    · by_contra hc
      have hc' : hexKind.sideIdx.length ≤ s := Nat.le_of_not_lt hc
      rw [List.getElem?_eq_none hc'] at hside; simp at hside
    · rw [hcell]
      apply border_side_no_nbr_hex W L nx ny nz n i j k s hW hL hi hj hk hs
      rw [List.getD_eq_getElem?_getD, List.getElem?_eq_getElem hlt]
      exact List.getElem_mem hlt
  · rw [hcell]; exact hq

/-- every lattice point with a coordinate on the rim is a boundary junction -/
theorem border_isBoundary_hexWL (W L nx ny nz n x y z : Nat) (hW : W = nx + 1)
    (hL : ∀ j, j < ny → j * W + 2 * W ≤ L) (h1 : 1 ≤ nx) (h2 : 1 ≤ ny) (h3 : 1 ≤ nz)
    (hx : x ≤ nx) (hy : y ≤ ny) (hz : z ≤ nz)
    (hb : x = 0 ∨ x = nx ∨ y = 0 ∨ y = ny ∨ z = 0 ∨ z = nz) :
    isBoundary (hexGridWL W L nx ny nz n) (z * L + y * W + x) = true := by
  -- the cell that holds the point at offsets (bx, by, bz)
  obtain ⟨i, bx, hi, hbx, rfl⟩ : ∃ i bx, i < nx ∧ bx < 2 ∧ x = i + bx := by
    by_cases hc : x < nx
    · exact ⟨x, 0, hc, by omega, rfl⟩
    · exact ⟨nx - 1, 1, by omega, by omega, by omega⟩
  obtain ⟨j, bY, hj, hbY, rfl⟩ : ∃ j bY, j < ny ∧ bY < 2 ∧ y = j + bY := by
    by_cases hc : y < ny
    · exact ⟨y, 0, hc, by omega, rfl⟩
    · exact ⟨ny - 1, 1, by omega, by omega, by omega⟩
  obtain ⟨k, bz, hk, hbz, rfl⟩ : ∃ k bz, k < nz ∧ bz < 2 ∧ z = k + bz := by
    by_cases hc : z < nz
    · exact ⟨z, 0, hc, by omega, rfl⟩
    · exact ⟨nz - 1, 1, by omega, by omega, by omega⟩
  obtain ⟨s, hs6, hsb, hsc⟩ : ∃ s, s < 6 ∧
      ((s = 0 ∧ k = 0) ∨ (s = 1 ∧ k + 1 = nz) ∨ (s = 2 ∧ i = 0) ∨ (s = 3 ∧ i + 1 = nx) ∨ (s = 4 ∧ j = 0) ∨ (s = 5 ∧ j + 1 = ny)) ∧
      ((s = 2 ∧ bx = 0) ∨ (s = 3 ∧ bx = 1) ∨ (s = 4 ∧ bY = 0) ∨ (s = 5 ∧ bY = 1) ∨ (s = 0 ∧ bz = 0) ∨ (s = 1 ∧ bz = 1)) := by
    rcases hb with h | h | h | h | h | h
    · exact ⟨2, by omega, by omega, by omega⟩
    · exact ⟨3, by omega, by omega, by omega⟩
    · exact ⟨4, by omega, by omega, by omega⟩
    · exact ⟨5, by omega, by omega, by omega⟩
    · exact ⟨0, by omega, by omega, by omega⟩
    · exact ⟨1, by omega, by omega, by omega⟩
  have hc := cornerOf_side bx hbx bY hbY bz hbz s hs6 hsc
  have hside : hexKind.sideIdx[s]? = some (hexKind.sideIdx.getD s []) := by
    have : s < hexKind.sideIdx.length := by simpa [hexKind, CBV.Gen.hexSideIdx] using hs6
    simp [List.getD_eq_getElem?_getD, List.getElem?_eq_getElem this]
  have hq := cornerOf_getD W L i j k bx bY bz hbx hbY hbz
  refine isBoundary_of_side_hex W L nx ny nz n i j k s (cornerOf bx bY bz) _ hW hL hi hj hk hsb _ hside hc.1 hq ?_
  rw [← hq]
  have hlen : (hexCellWL W L i j k).length = 8 := rfl
  rw [List.getD_eq_getElem?_getD, List.getElem?_eq_getElem (by rw [hlen]; exact hc.2)]
  exact List.getElem_mem _

/-! ### the structured assembly `structHexes nx ny nz` -/

theorem structHexes_hL (nx ny : Nat) : ∀ j, j < ny → j * (nx + 1) + 2 * (nx + 1) ≤ (ny + 1) * (nx + 1) := by
  intro j hj
  have := Nat.mul_le_mul_right (nx + 1) (show j + 2 ≤ ny + 1 by omega)
  rw [Nat.add_mul] at this; exact this

theorem row_lt_layer (nx ny x y : Nat) (hx : x ≤ nx) (hy : y ≤ ny) : y * (nx + 1) + x < (ny + 1) * (nx + 1) := by
  have := Nat.mul_le_mul_right (nx + 1) (show y + 1 ≤ ny + 1 by omega)
  rw [Nat.add_mul, Nat.one_mul] at this; omega

theorem hexCoord_eq (nx ny x y z : Nat) (hx : x ≤ nx) (hy : y ≤ ny) :
    hexCoord nx ny (z * ((ny + 1) * (nx + 1)) + y * (nx + 1) + x) = ⟨(x : Nat), (y : Nat), (z : Nat)⟩ := by
  have hr := row_lt_layer nx ny x y hx hy
  have hLpos : 0 < (ny + 1) * (nx + 1) := Nat.mul_pos (by omega) (by omega)
  have e1 : (z * ((ny + 1) * (nx + 1)) + y * (nx + 1) + x) % ((ny + 1) * (nx + 1)) = y * (nx + 1) + x := by
    rw [Nat.add_assoc, Nat.add_comm, Nat.add_mul_mod_self_right, Nat.mod_eq_of_lt hr]
  have e2 : (z * ((ny + 1) * (nx + 1)) + y * (nx + 1) + x) / ((ny + 1) * (nx + 1)) = z := by
    rw [Nat.add_assoc, Nat.add_comm, Nat.add_mul_div_right _ _ hLpos, Nat.div_eq_of_lt hr]; omega
  have e3 : (y * (nx + 1) + x) % (nx + 1) = x := by
    rw [Nat.add_comm, Nat.add_mul_mod_self_right]; exact Nat.mod_eq_of_lt (by omega)
  have e4 : (y * (nx + 1) + x) / (nx + 1) = y := by
    rw [Nat.add_comm, Nat.add_mul_div_right _ _ (by omega), Nat.div_eq_of_lt (by omega)]; omega
  unfold hexCoord
  rw [e1, e2, e3, e4]

theorem border_isBoundary_hex (nx ny nz x y z : Nat) (h1 : 1 ≤ nx) (h2 : 1 ≤ ny) (h3 : 1 ≤ nz)
    (hx : x ≤ nx) (hy : y ≤ ny) (hz : z ≤ nz) (hb : x = 0 ∨ x = nx ∨ y = 0 ∨ y = ny ∨ z = 0 ∨ z = nz) :
    isBoundary (structHexes nx ny nz) (z * ((ny + 1) * (nx + 1)) + y * (nx + 1) + x) = true :=
  border_isBoundary_hexWL _ _ nx ny nz _ x y z rfl (structHexes_hL nx ny) h1 h2 h3 hx hy hz hb

/-- an inner junction of the assembly is a lattice-interior vertex -/
theorem inner_interior_hex (nx ny nz q : Nat) (h1 : 1 ≤ nx) (h2 : 1 ≤ ny) (h3 : 1 ≤ nz)
    (hq : q ∈ inner (structHexes nx ny nz)) :
    ∃ x y z, q = (z + 1) * ((ny + 1) * (nx + 1)) + (y + 1) * (nx + 1) + (x + 1) ∧
      x + 2 ≤ nx ∧ y + 2 ≤ ny ∧ z + 2 ≤ nz := by
  obtain ⟨hlt, hb⟩ := (mem_inner _ q).mp hq
  have hn : (structHexes nx ny nz).n = (nz + 1) * ((ny + 1) * (nx + 1)) := rfl
  rw [hn] at hlt
  have hLpos : 0 < (ny + 1) * (nx + 1) := Nat.mul_pos (by omega) (by omega)
  have hZ : q / ((ny + 1) * (nx + 1)) < nz + 1 := Nat.div_lt_of_lt_mul (Nat.lt_of_lt_of_eq hlt (Nat.mul_comm _ _))
  have hR : q % ((ny + 1) * (nx + 1)) < (ny + 1) * (nx + 1) := Nat.mod_lt _ hLpos
  have hY : q % ((ny + 1) * (nx + 1)) / (nx + 1) < ny + 1 :=
    Nat.div_lt_of_lt_mul (Nat.lt_of_lt_of_eq hR (Nat.mul_comm _ _))
  have hX : q % ((ny + 1) * (nx + 1)) % (nx + 1) < nx + 1 := Nat.mod_lt _ (by omega)
  have d1 : q / ((ny + 1) * (nx + 1)) * ((ny + 1) * (nx + 1)) + q % ((ny + 1) * (nx + 1)) = q := by
    rw [Nat.mul_comm]; exact Nat.div_add_mod q _
  have d2 : q % ((ny + 1) * (nx + 1)) / (nx + 1) * (nx + 1) + q % ((ny + 1) * (nx + 1)) % (nx + 1)
      = q % ((ny + 1) * (nx + 1)) := by
    rw [Nat.mul_comm]; exact Nat.div_add_mod _ _
  generalize q / ((ny + 1) * (nx + 1)) = Z at hZ d1
  generalize hRR : q % ((ny + 1) * (nx + 1)) = R at hR hY hX d1 d2
  generalize R / (nx + 1) = Y at hY d2
  generalize R % (nx + 1) = X at hX d2
  have hq' : q = Z * ((ny + 1) * (nx + 1)) + Y * (nx + 1) + X := by rw [← d1, ← d2, Nat.add_assoc]
  have hnb : ¬ (X = 0 ∨ X = nx ∨ Y = 0 ∨ Y = ny ∨ Z = 0 ∨ Z = nz) := by
    intro hbd
    have := border_isBoundary_hex nx ny nz X Y Z h1 h2 h3 (by omega) (by omega) (by omega) hbd
    rw [← hq', hb] at this; exact Bool.noConfusion this
  refine ⟨X - 1, Y - 1, Z - 1, ?_, by omega, by omega, by omega⟩
  have e1 : Z - 1 + 1 = Z := by omega
  have e2 : Y - 1 + 1 = Y := by omega
  have e3 : X - 1 + 1 = X := by omega
  rw [e1, e2, e3, hq']

theorem interior_nbrs_hex (nx ny nz x y z : Nat) (h2 : 1 ≤ ny) (hx : x + 2 ≤ nx) (hy : y + 2 ≤ ny) (hz : z + 2 ≤ nz) :
    junctionNbrs (structHexes nx ny nz) ((z + 1) * ((ny + 1) * (nx + 1)) + (y + 1) * (nx + 1) + (x + 1)) =
      [z * ((ny + 1) * (nx + 1)) + (y + 1) * (nx + 1) + (x + 1),
       (z + 1) * ((ny + 1) * (nx + 1)) + y * (nx + 1) + (x + 1),
       (z + 1) * ((ny + 1) * (nx + 1)) + (y + 1) * (nx + 1) + x,
       (z + 1) * ((ny + 1) * (nx + 1)) + (y + 1) * (nx + 1) + (x + 2),
       (z + 1) * ((ny + 1) * (nx + 1)) + (y + 2) * (nx + 1) + (x + 1),
       (z + 2) * ((ny + 1) * (nx + 1)) + (y + 1) * (nx + 1) + (x + 1)] := by
  apply interior_nbrs_hexWL _ _ nx ny nz _ x y z (by omega) _ hx hy hz
  · -- the point above is inside the grid
    have hr := row_lt_layer nx ny (x + 1) (y + 1) (by omega) (by omega)
    have := Nat.mul_le_mul_right ((ny + 1) * (nx + 1)) (show z + 2 + 1 ≤ nz + 1 by omega)
    rw [Nat.add_mul (z + 2) 1, Nat.one_mul] at this
    omega
  · have := Nat.mul_le_mul_right (nx + 1) (show 2 ≤ ny + 1 by omega)
    omega

/-- **the lattice hypothesis for hexahedral assemblies of every size** -/
theorem structHexes_latticeLike (nx ny nz : Nat) (h1 : 1 ≤ nx) (h2 : 1 ≤ ny) (h3 : 1 ≤ nz) (fixed : List Nat) :
    LatticeLike (structHexes nx ny nz) fixed (hexCoord nx ny) := by
  intro q hq _
  obtain ⟨x, y, z, rfl, hx, hy, hz⟩ := inner_interior_hex nx ny nz q h1 h2 h3 hq
  rw [interior_nbrs_hex nx ny nz x y z h2 hx hy hz]
  refine ⟨by simp, ?_⟩
  simp only [List.map_cons, List.map_nil, List.length_cons, List.length_nil]
  rw [hexCoord_eq nx ny (x + 1) (y + 1) z (by omega) (by omega), hexCoord_eq nx ny (x + 1) y (z + 1) (by omega) (by omega),
    hexCoord_eq nx ny x (y + 1) (z + 1) (by omega) (by omega), hexCoord_eq nx ny (x + 2) (y + 1) (z + 1) (by omega) (by omega),
    hexCoord_eq nx ny (x + 1) (y + 2) (z + 1) (by omega) (by omega), hexCoord_eq nx ny (x + 1) (y + 1) (z + 2) (by omega) (by omega),
    hexCoord_eq nx ny (x + 1) (y + 1) (z + 1) (by omega) (by omega)]
  apply V3.ext' <;> simp [vsum, V3.zero] <;> ring

/-- every junction of the assembly reaches a non-free junction along neighbour links (walk along x) -/
theorem structHexes_reach (nx ny nz : Nat) (h1 : 1 ≤ nx) (h2 : 1 ≤ ny) (h3 : 1 ≤ nz) (fixed : List Nat) (q : Nat) :
    Reach (junctionNbrs (structHexes nx ny nz)) (fun j => j ∈ inner (structHexes nx ny nz) ∧ j ∉ fixed) q := by
  suffices H : ∀ c q, (hexCoord nx ny q).x = (c : Nat) →
      Reach (junctionNbrs (structHexes nx ny nz)) (fun j => j ∈ inner (structHexes nx ny nz) ∧ j ∉ fixed) q by
    have hc : ∃ c : Nat, (hexCoord nx ny q).x = (c : Nat) := ⟨_, rfl⟩
    obtain ⟨c, hc⟩ := hc
    exact H c q hc
  intro c
  induction c with
  | zero =>
    intro q hc
    apply Reach.base
    rintro ⟨hq, _⟩
    obtain ⟨x, y, z, rfl, _, _, _⟩ := inner_interior_hex nx ny nz q h1 h2 h3 hq
    rw [hexCoord_eq nx ny (x + 1) (y + 1) (z + 1) (by omega) (by omega)] at hc
    simp only at hc
    have : ((x + 1 : Nat) : Rat) = ((0 : Nat) : Rat) := hc
    have := Nat.cast_injective this
    omega
  | succ c ih =>
    intro q hc
    by_cases hf : q ∈ inner (structHexes nx ny nz) ∧ q ∉ fixed
    · obtain ⟨x, y, z, rfl, hx, hy, hz⟩ := inner_interior_hex nx ny nz q h1 h2 h3 hf.1
      rw [hexCoord_eq nx ny (x + 1) (y + 1) (z + 1) (by omega) (by omega)] at hc
      have hc' : ((x + 1 : Nat) : Rat) = ((c + 1 : Nat) : Rat) := hc
      have hxc := Nat.cast_injective hc'
      apply Reach.step _ ((z + 1) * ((ny + 1) * (nx + 1)) + (y + 1) * (nx + 1) + x)
      · rw [interior_nbrs_hex nx ny nz x y z h2 hx hy hz]; simp
      · apply ih
        rw [hexCoord_eq nx ny x (y + 1) (z + 1) (by omega) (by omega)]
        show ((x : Nat) : Rat) = ((c : Nat) : Rat)
        congr 1; omega
    · exact Reach.base _ hf

end CBV.C15
