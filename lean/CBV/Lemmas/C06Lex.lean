/-
C06 — the tokenizer reads the un-tokenized text back: `lexText (unlex toks) = toks` for well-formed tokens.
-/
import CBV.Model.C06

namespace CBV.C06

theorem lex_word_run (w : List Char) : ∀ (acc rest : List Char), (∀ c ∈ w, plainChar c = true) →
    lex (.word acc) (w ++ ' ' :: rest) = mkWord (w.reverse ++ acc) :: lex .top rest := by
  induction w with
  | nil => intro acc rest _; simp [lex, isSpace]
  | cons c w ih =>
    intro acc rest h
    have hc := h c List.mem_cons_self
    simp only [plainChar, Bool.and_eq_true, Bool.not_eq_true'] at hc
    have := ih (c :: acc) rest (fun d hd => h d (List.mem_cons_of_mem _ hd))
    simp only [List.cons_append, lex, hc.1, hc.2, Bool.false_eq_true, if_false, this]
    simp

theorem lex_line_run (b : List Char) : ∀ (acc rest : List Char), (∀ c ∈ b, (c != '\n') = true) →
    lex (.line acc) (b ++ '\n' :: rest) = mkComment (b.reverse ++ acc) :: lex .top rest := by
  induction b with
  | nil => intro acc rest _; simp [lex]
  | cons c b ih =>
    intro acc rest h
    have hc := h c List.mem_cons_self
    have hc' : (c == '\n') = false := by simpa [bne] using hc
    have := ih (c :: acc) rest (fun d hd => h d (List.mem_cons_of_mem _ hd))
    simp only [List.cons_append, lex, hc', Bool.false_eq_true, if_false, this]
    simp

/-- one well-formed token followed by its separator -/
theorem lex_token (t : Tok) (h : t.wf = true) (rest : List Char) :
    lex .top (t.chars ++ t.sep :: rest) = t :: lex .top rest := by
  cases t with
  | lp => simp [Tok.chars, Tok.sep, lex, isSpace, isSpecial, punct]
  | rp => simp [Tok.chars, Tok.sep, lex, isSpace, isSpecial, punct]
  | lb => simp [Tok.chars, Tok.sep, lex, isSpace, isSpecial, punct]
  | rb => simp [Tok.chars, Tok.sep, lex, isSpace, isSpecial, punct]
  | semi => simp [Tok.chars, Tok.sep, lex, isSpace, isSpecial, punct]
  | word s =>
    simp only [Tok.wf, Bool.and_eq_true, Bool.not_eq_true', List.all_eq_true] at h
    obtain ⟨⟨hne, hall⟩, hcm⟩ := h
    simp only [Tok.chars, Tok.sep]
    have hs : String.ofList s.toList = s := String.ofList_toList
    cases hcs : s.toList with
    | nil => rw [hcs] at hne; simp at hne
    | cons c w =>
      rw [hcs] at hall hcm
      have hc := hall c List.mem_cons_self
      have hw : ∀ d ∈ w, plainChar d = true := fun d hd => hall d (List.mem_cons_of_mem _ hd)
      simp only [plainChar, Bool.and_eq_true, Bool.not_eq_true'] at hc
      by_cases hsl : c = '/'
      · subst hsl
        cases w with
        | nil =>
          have : s = String.ofList ['/'] := by rw [← hs, hcs]
          subst this
          simp [lex, isSpace, isSpecial, mkWord]
        | cons d w' =>
          have hd := hw d List.mem_cons_self
          simp only [plainChar, Bool.and_eq_true, Bool.not_eq_true'] at hd
          simp only [List.head?_cons, List.tail_cons, beq_self_eq_true, Bool.true_and, Bool.or_eq_false_iff,
            Option.some.injEq, beq_eq_false_iff_ne, ne_eq] at hcm
          have h1 : (d == '/') = false := by simpa using hcm.1
          have h2 : (d == '*') = false := by simpa using hcm.2
          have hrun := lex_word_run w' [d, '/'] rest (fun e he => hw e (List.mem_cons_of_mem _ he))
          have hsp : isSpace '/' = false := by decide
          have hsc : isSpecial '/' = false := by decide
          simp only [List.cons_append, lex, hsp, hsc, h1, h2, hd.1, hd.2, beq_self_eq_true, Bool.false_eq_true,
            if_false, if_true, hrun]
          congr 1
          simp only [mkWord, List.reverse_append, List.reverse_reverse, List.reverse_cons, List.reverse_nil,
            List.nil_append, List.cons_append]
          rw [← hs, hcs]
      · have h1 : (c == '/') = false := by simpa using hsl
        have hrun := lex_word_run w [c] rest hw
        simp only [List.cons_append, lex, hc.1, hc.2, h1, Bool.false_eq_true, if_false, hrun]
        congr 1
        simp only [mkWord, List.reverse_append, List.reverse_reverse, List.reverse_cons, List.reverse_nil,
          List.nil_append, List.singleton_append]
        rw [← hs, hcs]
  | comment s =>
    simp only [Tok.wf, Bool.and_eq_true, List.all_eq_true, beq_iff_eq] at h
    obtain ⟨⟨h2, hnl⟩, hrs⟩ := h
    simp only [Tok.chars, Tok.sep]
    have hs : String.ofList s.toList = s := String.ofList_toList
    cases hcs : s.toList with
    | nil => rw [hcs] at h2; simp at h2
    | cons a l =>
      cases l with
      | nil => rw [hcs] at h2; simp at h2
      | cons b body =>
        rw [hcs] at h2 hnl hrs
        simp only [List.take_succ_cons, List.take_zero, List.cons.injEq, and_true] at h2
        obtain ⟨rfl, rfl⟩ := h2
        have hbody : ∀ c ∈ body, (c != '\n') = true :=
          fun c hc => hnl c (List.mem_cons_of_mem _ (List.mem_cons_of_mem _ hc))
        have hrun := lex_line_run body ['/', '/'] rest hbody
        have hsp : isSpace '/' = false := by decide
        have hsc : isSpecial '/' = false := by decide
        simp only [List.cons_append, lex, hsp, hsc, beq_self_eq_true, Bool.false_eq_true, if_false, if_true, hrun]
        congr 1
        simp only [mkComment, List.reverse_append, List.reverse_reverse, List.reverse_cons, List.reverse_nil,
          List.nil_append, List.cons_append]
        rw [hrs, ← hs, hcs]

/-- the tokenizer reads back the text made of well-formed tokens -/
theorem lexText_unlex (toks : List Tok) (h : ∀ t ∈ toks, t.wf = true) : lexText (unlex toks) = toks := by
  unfold lexText
  induction toks with
  | nil => rfl
  | cons t ts ih =>
    simp only [unlex]
    rw [lex_token t (h t List.mem_cons_self), ih (fun u hu => h u (List.mem_cons_of_mem _ hu))]

end CBV.C06
