/-
C11 — helper lemma for handedness theorems: the validator accepts a list of eight points exactly when
all eight corner Jacobians are positive.
-/
import CBV.Model.C11
import Mathlib.Algebra.Order.Field.Rat
import Mathlib.Tactic.Linarith

namespace CBV.C11

theorem rightHanded_of_jac (pts : List V3) (hlen : pts.length = 8)
    (h : ∀ c, c < 8 → 0 < cornerJac pts c) : rightHanded pts = true := by
  unfold rightHanded badCorners
  have hnil : (List.range 8).filter (fun c => !decide (0 < cornerJac pts c)) = [] := by
    rw [List.filter_eq_nil_iff]
    intro c hc
    have := h c (List.mem_range.mp hc)
    simp [this]
  rw [hnil]
  simp [hlen]

/-- number of chopped axes in every wire family of the joint model with `n` branches, family by family -/
def jointFamilyCounts (n : Nat) : List Nat :=
  match families (jointBlocks n halfQuads) with
  | some labs => (chopsPerFamily labs (jointChopNodes n)).map (·.2)
  | none => []

theorem maxR_sub_minR_pos (a b : Rat) (h : a ≠ b) : 0 < maxR a b - minR a b := by
  unfold maxR minR
  by_cases hle : a ≤ b
  · simp only [hle, if_true]
    have : a < b := lt_of_le_of_ne hle h
    linarith
  · simp only [hle, if_false]
    have : b < a := not_le.mp hle
    linarith

end CBV.C11
