/-
C06 — the generator of `str(float)`: the decimal it chooses lies in the rounding interval of the double.
-/
import CBV.Lemmas.C06Repr
import CBV.Lemmas.C06Fmt
import Mathlib.Algebra.Order.Field.Power

namespace CBV.C06

theorem pow10R_eq_zpow (e : Int) : pow10R e = (10 : Rat) ^ e := by
  unfold pow10R
  cases e with
  | ofNat n =>
    have h : (0 : Int) ≤ Int.ofNat n := Int.natCast_nonneg n
    have ht : (Int.ofNat n).toNat = n := rfl
    simp only [h, if_true, ht, pow10_eq]
    push_cast
    exact (zpow_natCast (10 : Rat) n).symm
  | negSucc n =>
    have h : ¬ (0 : Int) ≤ Int.negSucc n := by simp
    simp only [h, if_false, pow10_eq]
    have : (-Int.negSucc n).toNat = n + 1 := by simp [Int.neg_negSucc]
    rw [this, zpow_negSucc]
    push_cast
    rw [one_div]

theorem pow10R_succ (e : Int) : pow10R (e + 1) = 10 * pow10R e := by
  rw [pow10R_eq_zpow, pow10R_eq_zpow, zpow_add_one₀ (by norm_num : (10 : Rat) ≠ 0), mul_comm]

/-- whatever `shortestFrom` returns is a decimal inside the rounding interval of `|x|` -/
theorem shortestFrom_sound (x ax : Rat) (dp : Int) : ∀ (f n : Nat) (m : Nat) (e : Int),
    shortestFrom x ax dp f n = some (m, e) → inRound (absR x) (((m : Nat) : Rat) * pow10R e) = true := by
  intro f
  induction f with
  | zero => intro n m e h; simp [shortestFrom] at h
  | succ f ih =>
    intro n m e h
    unfold shortestFrom at h
    simp only at h
    split at h
    · rename_i hin
      simp only [Option.some.injEq, Prod.mk.injEq] at h
      obtain ⟨rfl, rfl⟩ := h
      exact hin
    · exact ih _ _ _ h

/-- … and it has at most `n + f − 1` significant digits' worth of search behind it: it is the FIRST n that fits -/
theorem shortestFrom_first (x ax : Rat) (dp : Int) : ∀ (f n : Nat) (m : Nat) (e : Int),
    shortestFrom x ax dp f n = some (m, e) →
    ∃ k, n ≤ k ∧ k < n + f ∧ e = -((k : Int) - dp) ∧ m = roundHalfEven (ax * pow10R ((k : Int) - dp)) ∧
      ∀ j, n ≤ j → j < k →
        inRound (absR x) (((roundHalfEven (ax * pow10R ((j : Int) - dp)) : Nat) : Rat) * pow10R (-((j : Int) - dp))) = false := by
  intro f
  induction f with
  | zero => intro n m e h; simp [shortestFrom] at h
  | succ f ih =>
    intro n m e h
    unfold shortestFrom at h
    simp only at h
    split at h
    · simp only [Option.some.injEq, Prod.mk.injEq] at h
      obtain ⟨rfl, rfl⟩ := h
      exact ⟨n, le_refl _, by omega, rfl, rfl, fun j h1 h2 => by omega⟩
    · rename_i hnot
      obtain ⟨k, hk1, hk2, he, hm, hall⟩ := ih _ _ _ h
      refine ⟨k, by omega, by omega, he, hm, ?_⟩
      intro j hj1 hj2
      by_cases hjn : j = n
      · subst hjn; simpa using hnot
      · exact hall j (by omega) hj2

/-- stripping trailing zeros does not change the decimal -/
theorem stripZeros_value : ∀ (f m : Nat) (e : Int),
    (((stripZeros f m e).1 : Nat) : Rat) * pow10R (stripZeros f m e).2 = ((m : Nat) : Rat) * pow10R e := by
  intro f
  induction f with
  | zero => intro m e; rfl
  | succ f ih =>
    intro m e
    unfold stripZeros
    split
    · rename_i h
      rw [ih, pow10R_succ]
      have hm : m = m / 10 * 10 := by omega
      have : ((m : Nat) : Rat) = ((m / 10 : Nat) : Rat) * 10 := by
        conv_lhs => rw [hm]
        push_cast; ring
      rw [this]; ring
    · rfl

end CBV.C06
