/-
C14 — the `VSMALL` guard under scaling.

`CellBase.quality` divides by guarded norms: `n·c / ((|n| + ε)·|c|)` for the triangle normals of a hexahedron,
`s₁·s₂ / ((|s₁| + ε)(|s₂| + ε))` for its corner angles, `max edge / (min edge + ε)` for the aspect term.
Here: (1) the exact entries of the signature of a cell scaled by `k` (`(k³·nc, k⁴·nn, k²·cc)` for triangles,
`k²` for corners and edges); (2) for norms in any linearly ordered field (ℚ, ℝ): scaling the cell by `k` is the
same as shrinking the guard to `ε/k²` (normals), `ε/k` (corners, aspect), and the guarded quantity differs from
the unguarded one by at most `ε/|n|`, `ε/|s₁| + ε/|s₂|`, relative `ε / min edge`.
-/
import CBV.Lemmas.C14Sig
import Mathlib.Tactic.Ring
import Mathlib.Tactic.Linarith
import Mathlib.Tactic.FieldSimp
import Mathlib.Tactic.Positivity
import Mathlib.Algebra.Order.Field.Basic

namespace CBV.C14
open CBV

/-! ### entries of the signature of a scaled cell -/

/-- entries of a `Tri` whose first vector is scaled by `j`, the second by `k` -/
def Tri.scale (j k : Rat) (t : Tri) : Tri := ⟨j * k * t.nc, j * j * t.nn, k * k * t.cc⟩

theorem mkTri_smul (j k : Rat) (u v : V3) : mkTri (V3.smul j u) (V3.smul k v) = (mkTri u v).scale j k := by
  simp only [mkTri, Tri.scale, V3.norm2, V3.dot, V3.smul, Tri.mk.injEq]
  refine ⟨?_, ?_, ?_⟩ <;> ring

theorem hexSide_smul_entries (k : Rat) (sp : List V3) (h4 : sp.length = 4) (centre : V3) (nb : Option V3) :
    hexSide (sp.map (V3.smul k)) (V3.smul k centre) (nb.map (V3.smul k)) =
      ((hexSide sp centre nb).1.map (Tri.scale (k * k) k), (hexSide sp centre nb).2.map (Tri.scale k k)) := by
  obtain ⟨p, q, r, s, rfl⟩ := list4 sp h4
  unfold hexSide
  simp only [avg_map_smul, c2c_smul]
  simp only [List.map, rollL, rollR, List.zipWith, List.getLast?, List.getLast, List.dropLast,
    List.cons_append, List.nil_append, smul_sub, cross_smul_smul', mkTri_smul]

/-- the signature of a hexahedron scaled by `k` (neighbour centres scaled with it), entry by entry -/
theorem sigHexWith_smul_entries (sides : List (List Nat)) (pairs : List (Nat × Nat)) (pts : List V3)
    (nb : Nat → Option V3) (k : Rat) (hs : ∀ s ∈ sides, s.length = 4) :
    sigHexWith sides pairs (pts.map (V3.smul k)) (fun i => (nb i).map (V3.smul k)) =
      ⟨(sigHexWith sides pairs pts nb).tris.map (Tri.scale (k * k) k),
       (sigHexWith sides pairs pts nb).corners.map (Tri.scale k k),
       (sigHexWith sides pairs pts nb).edges.map (fun x => (k * k) * x)⟩ := by
  unfold sigHexWith
  simp only [List.map_flatMap, List.flatMap_map, edgeLens_smul]
  have hside : ∀ i ∈ List.range sides.length,
      hexSide ((sides.getD i []).map (pt (pts.map (V3.smul k)))) (avg (pts.map (V3.smul k)))
        ((nb i).map (V3.smul k)) =
      ((hexSide ((sides.getD i []).map (pt pts)) (avg pts) (nb i)).1.map (Tri.scale (k * k) k),
       (hexSide ((sides.getD i []).map (pt pts)) (avg pts) (nb i)).2.map (Tri.scale k k)) := by
    intro i hi
    have hm := getD_mem_of_lt sides [] i (List.mem_range.mp hi)
    rw [map_pt_map_smul, avg_map_smul]
    exact hexSide_smul_entries k _ (by rw [List.length_map]; exact hs _ hm) _ _
  congr 1
  · apply List.flatMap_congr; intro i hi; rw [hside i hi]
  · apply List.flatMap_congr; intro i hi; rw [hside i hi]

/-! ### guarded quotients in a linearly ordered field -/

section Field
variable {K : Type} [Field K] [LinearOrder K] [IsStrictOrderedRing K]

/-- the argument of `arccos` for a triangle normal of a hexahedron: `a = |n|`, `b = |c|`, guard `e` on `|n|` -/
def gcos (nc a b e : K) : K := nc / ((a + e) * b)

/-- the argument of `arccos` for a corner of a hexahedron's side: both side norms are guarded -/
def gcorner (nc a b e : K) : K := nc / ((a + e) * (b + e))

/-- the argument of `log10` in the aspect term: longest edge over guarded shortest edge -/
def gaspect (smax smin e : K) : K := smax / (smin + e)

/-- scaling the cell by `k` acts on a guarded normal cosine like shrinking the guard to `e / k²` -/
theorem gcos_scale (nc a b e k : K) (hk : 0 < k) :
    gcos (k * k * k * nc) (k * k * a) (k * b) e = gcos nc a b (e / (k * k)) := by
  unfold gcos
  have hk' : k ≠ 0 := ne_of_gt hk
  have h1 : (k * k * a + e) * (k * b) = (k * k * k) * ((a + e / (k * k)) * b) := by
    field_simp
  rw [h1, mul_div_mul_left _ _ (by positivity)]

theorem gcorner_scale (nc a b e k : K) (hk : 0 < k) :
    gcorner (k * k * nc) (k * a) (k * b) e = gcorner nc a b (e / k) := by
  unfold gcorner
  have hk' : k ≠ 0 := ne_of_gt hk
  have h1 : (k * a + e) * (k * b + e) = (k * k) * ((a + e / k) * (b + e / k)) := by
    field_simp
  rw [h1, mul_div_mul_left _ _ (by positivity)]

omit [IsStrictOrderedRing K] in
theorem gaspect_scale (smax smin e k : K) (hk : 0 < k) :
    gaspect (k * smax) (k * smin) e = gaspect smax smin (e / k) := by
  unfold gaspect
  have hk' : k ≠ 0 := ne_of_gt hk
  have h1 : k * smin + e = k * (smin + e / k) := by field_simp
  rw [h1, mul_div_mul_left _ _ hk']

/-- the guard changes a cosine by at most `e / |n|` (Cauchy–Schwarz `|n·c| ≤ |n||c|` as hypothesis) -/
theorem gcos_guard_bound (nc a b e : K) (ha : 0 < a) (hb : 0 < b) (he : 0 ≤ e) (hcs : |nc| ≤ a * b) :
    |gcos nc a b e - gcos nc a b 0| ≤ e / a := by
  unfold gcos
  have hae : 0 < a + e := by linarith
  have h1 : nc / ((a + e) * b) - nc / ((a + 0) * b) = - (nc / (a * b)) * (e / (a + e)) := by
    field_simp; ring
  rw [h1, abs_mul, abs_neg, abs_div, abs_of_pos (mul_pos ha hb), abs_of_nonneg (div_nonneg he (le_of_lt hae))]
  have h2 : |nc| / (a * b) ≤ 1 := (div_le_one (mul_pos ha hb)).mpr hcs
  have h3 : e / (a + e) ≤ e / a := div_le_div_of_nonneg_left he ha (by linarith)
  calc |nc| / (a * b) * (e / (a + e)) ≤ 1 * (e / a) :=
        mul_le_mul h2 h3 (div_nonneg he (le_of_lt hae)) (by norm_num)
    _ = e / a := one_mul _

theorem gcorner_guard_bound (nc a b e : K) (ha : 0 < a) (hb : 0 < b) (he : 0 ≤ e) (hcs : |nc| ≤ a * b) :
    |gcorner nc a b e - gcorner nc a b 0| ≤ e / a + e / b := by
  unfold gcorner
  have hae : 0 < a + e := by linarith
  have hbe : 0 < b + e := by linarith
  have h1 : nc / ((a + e) * (b + e)) - nc / ((a + 0) * (b + 0)) =
      - (nc / (a * b)) * (e * (a + b + e) / ((a + e) * (b + e))) := by
    field_simp; ring
  have hq : 0 ≤ e * (a + b + e) / ((a + e) * (b + e)) :=
    div_nonneg (mul_nonneg he (by linarith)) (le_of_lt (mul_pos hae hbe))
  rw [h1, abs_mul, abs_neg, abs_div, abs_of_pos (mul_pos ha hb), abs_of_nonneg hq]
  have h2 : |nc| / (a * b) ≤ 1 := (div_le_one (mul_pos ha hb)).mpr hcs
  have h3 : e * (a + b + e) / ((a + e) * (b + e)) ≤ e / a + e / b := by
    rw [div_add_div _ _ (ne_of_gt ha) (ne_of_gt hb), div_le_div_iff₀ (mul_pos hae hbe) (mul_pos ha hb)]
    have e2 : 0 ≤ e * e := mul_nonneg he he
    have e3 : 0 ≤ e * e * e := mul_nonneg e2 he
    nlinarith [mul_nonneg he (le_of_lt ha), mul_nonneg he (le_of_lt hb), mul_pos ha hb,
      mul_nonneg (mul_nonneg he (le_of_lt ha)) (le_of_lt ha), mul_nonneg (mul_nonneg he (le_of_lt hb)) (le_of_lt hb),
      mul_nonneg (mul_nonneg he (le_of_lt ha)) (le_of_lt hb), mul_nonneg e2 (le_of_lt ha), mul_nonneg e2 (le_of_lt hb),
      mul_nonneg (mul_nonneg e2 (le_of_lt ha)) (le_of_lt hb), mul_nonneg (mul_nonneg e2 (le_of_lt ha)) (le_of_lt ha),
      mul_nonneg (mul_nonneg e2 (le_of_lt hb)) (le_of_lt hb), mul_nonneg e3 (le_of_lt ha), mul_nonneg e3 (le_of_lt hb),
      mul_nonneg (mul_nonneg (mul_nonneg he (le_of_lt ha)) (le_of_lt ha)) (le_of_lt hb),
      mul_nonneg (mul_nonneg (mul_nonneg he (le_of_lt ha)) (le_of_lt hb)) (le_of_lt hb)]
  calc |nc| / (a * b) * (e * (a + b + e) / ((a + e) * (b + e))) ≤ 1 * (e / a + e / b) :=
        mul_le_mul h2 h3 hq (by norm_num)
    _ = e / a + e / b := one_mul _

/-- the guarded aspect ratio lies between `(1 - e/min)·(max/min)` and `max/min` -/
theorem gaspect_guard_bound (smax smin e : K) (hmax : 0 ≤ smax) (hmin : 0 < smin) (he : 0 ≤ e) :
    gaspect smax smin e ≤ gaspect smax smin 0 ∧
    gaspect smax smin 0 - gaspect smax smin e ≤ gaspect smax smin 0 * (e / smin) := by
  unfold gaspect
  have hme : 0 < smin + e := by linarith
  constructor
  · rw [add_zero]; exact div_le_div_of_nonneg_left hmax hmin (by linarith)
  · have h1 : smax / (smin + 0) - smax / (smin + e) = smax / smin * (e / (smin + e)) := by
      field_simp; ring
    rw [h1, add_zero]
    exact mul_le_mul_of_nonneg_left (div_le_div_of_nonneg_left he hmin (by linarith)) (div_nonneg hmax (le_of_lt hmin))

end Field

end CBV.C14
