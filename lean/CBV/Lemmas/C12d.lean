/-
C12 — helper lemmas, part d: write twice, delete, `Aligned` along quiet calls, the representation invariant.
-/
import CBV.Lemmas.C12c

namespace CBV.C12

attribute [local irreducible] addVerts addEdges addFaces patchItems faceItems

theorem gradeBlocks_idem (m : Mesh) : gradeBlocks (gradeBlocks m) = gradeBlocks m := by
  simp [gradeBlocks, List.map_map, Function.comp_def, gradeBlock]

theorem writeFrom_gradeBlocks (x : Mesh) (h : isAssembled x = true) :
    writeFrom (gradeBlocks x) = writeFrom x := by
  have hi : isAssembled (gradeBlocks x) = true := h
  unfold writeFrom
  simp only [hi, h, gradeBlocks_idem, Bool.not_true, Bool.false_eq_true, if_false]

theorem writeFrom_state (x : Mesh) (h : isAssembled x = true) : (writeFrom x).1 = gradeBlocks x := by
  unfold writeFrom
  simp only [h, Bool.not_true, Bool.false_eq_true, if_false]
  split <;> rfl

/-- the mesh that never held operation `id` -/
def without (m : Mesh) (id : Nat) : Mesh := { m with depot := m.depot.filter (fun o => decide (o.id ≠ id)) }

theorem liveOps_delete (m : Mesh) (id : Nat) : liveOps (delete m id) = liveOps (without m id) := by
  simp only [liveOps, delete, without, List.filter_filter]
  apply List.filter_congr
  intro o _
  by_cases h1 : o.id = id <;> by_cases h2 : o.id ∈ m.deleted <;> simp [h1, h2]

theorem aligned_step (t : Mesh) (s : Step) (hq : s.quiet = true) (hc : Canon t) (ha : Aligned t) : Aligned (step t s) := by
  cases s <;> simp [Step.quiet] at hq
  · exact ha
  · exact ha
  · show Aligned (write t).1
    by_cases hs : isAssembled t = true
    · rw [write_state_assembled t hs]
      intro p hp o ho hid
      simp only [gradeBlocks, List.zip_map_left, List.mem_map] at hp
      obtain ⟨p0, hp0, rfl⟩ := hp
      exact ha p0 hp0 o ho hid
    · have hs' : isAssembled t = false := by simpa using hs
      rw [write_state_unassembled t hs' (canon_not_assembled t hc hs')]; exact ha
  · exact ha

theorem aligned_run (t : Mesh) (q : List Step) (hq : ∀ s ∈ q, s.quiet = true) (hc : Canon t) (ha : Aligned t) :
    Aligned (run t q) := by
  induction q generalizing t with
  | nil => exact ha
  | cons s rest ih =>
    simp only [run, List.foldl_cons]
    apply ih
    · intro s' hs'; exact hq s' (by simp [hs'])
    · exact canon_step t s (hq s (by simp)) hc
    · exact aligned_step t s (hq s (by simp)) hc ha

theorem locOf_modify (vs : List Vtx) (i j : Nat) (loc : Pt) (hi : i < vs.length) :
    locOf (vs.modify i (fun v => { v with loc := loc })) j = if j = i then loc else locOf vs j := by
  unfold locOf
  rw [List.getElem?_modify]
  by_cases h : i = j
  · subst h
    simp [hi]
  · have : ¬ j = i := fun e => h e.symm
    simp [h, this]

/-- same identity ⇒ same object, operations have 8 points, blocks have 8 vertices, one `assembled` entry per block -/
def WF (m : Mesh) : Prop :=
  DepotWF m.depot ∧ (∀ b ∈ m.lists.blocks, b.verts.length = 8) ∧ m.lists.blocks.length = m.lists.assembled.length

/-- a history in which every `add` brings a new object with 8 points (an entity: new, pairwise different objects) -/
def Legal (m : Mesh) : List Step → Prop
  | [] => True
  | s :: h =>
    (match s with
      | .add o => o.corners.length = 8 ∧ ∀ o' ∈ m.depot, o'.id ≠ o.id
      | .addEntity ops => (∀ o ∈ ops, o.corners.length = 8 ∧ ∀ o' ∈ m.depot, o'.id ≠ o.id) ∧
          (∀ o1 ∈ ops, ∀ o2 ∈ ops, o1.id = o2.id → o1 = o2)
      | _ => True) ∧ Legal (step m s) h

theorem bpOne_len8 (vs : List Vtx) (pairs : List (Block × Nat)) (a : Op)
    (h8 : ∀ p ∈ pairs, p.1.verts.length = 8) (ha : a.corners.length = 8) :
    (bpOne vs pairs a).corners.length = 8 := by
  induction pairs generalizing a with
  | nil => exact ha
  | cons p rest ih =>
    obtain ⟨b, id⟩ := p
    simp only [bpOne]
    apply ih
    · intro p hp; exact h8 p (by simp [hp])
    · unfold setCorners
      split
      · simpa using h8 (b, id) (by simp)
      · exact ha

theorem wf_addOp (sl : List String) (l : Lists) (o : Op)
    (h : (∀ b ∈ l.blocks, b.verts.length = 8) ∧ l.blocks.length = l.assembled.length) :
    (∀ b ∈ (addOp sl l o).blocks, b.verts.length = 8) ∧ (addOp sl l o).blocks.length = (addOp sl l o).assembled.length := by
  obtain ⟨_, _, hlen, _, _⟩ := addVerts_spec sl o l.verts
  constructor
  · intro b hb
    simp only [addOp, List.mem_append, List.mem_singleton] at hb
    rcases hb with hb | hb
    · exact h.1 b hb
    · subst hb; exact hlen
  · simp [addOp, h.2]

theorem wf_foldl (sl : List String) (ops : List Op) (l : Lists)
    (h : (∀ b ∈ l.blocks, b.verts.length = 8) ∧ l.blocks.length = l.assembled.length) :
    (∀ b ∈ (ops.foldl (addOp sl) l).blocks, b.verts.length = 8) ∧
      (ops.foldl (addOp sl) l).blocks.length = (ops.foldl (addOp sl) l).assembled.length := by
  induction ops generalizing l with
  | nil => exact h
  | cons o rest ih => simp only [List.foldl_cons]; exact ih _ (wf_addOp sl l o h)

theorem wf_assemble (m : Mesh) (h : WF m) : WF (assemble m) := by
  refine ⟨h.1, ?_⟩
  rw [assemble_lists]
  exact wf_foldl _ _ _ h.2

theorem wf_clear (m : Mesh) (h : WF m) : WF (clear m) :=
  ⟨h.1, by intro b hb; simp [clear] at hb, rfl⟩

theorem wf_step (m : Mesh) (s : Step) (h : WF m)
    (hs : match s with
      | .add o => o.corners.length = 8 ∧ ∀ o' ∈ m.depot, o'.id ≠ o.id
      | .addEntity ops => (∀ o ∈ ops, o.corners.length = 8 ∧ ∀ o' ∈ m.depot, o'.id ≠ o.id) ∧
          (∀ o1 ∈ ops, ∀ o2 ∈ ops, o1.id = o2.id → o1 = o2)
      | _ => True) : WF (step m s) := by
  cases s with
  | add o =>
    obtain ⟨h8, hfresh⟩ := hs
    refine ⟨⟨?_, ?_⟩, h.2⟩
    · intro o1 h1 o2 h2 hid
      simp only [step, add, List.mem_append, List.mem_singleton] at h1 h2
      rcases h1 with h1 | h1 <;> rcases h2 with h2 | h2
      · exact h.1.1 o1 h1 o2 h2 hid
      · subst h2; exact absurd hid (hfresh o1 h1)
      · subst h1; exact absurd hid.symm (hfresh o2 h2)
      · rw [h1, h2]
    · intro o' ho'
      simp only [step, add, List.mem_append, List.mem_singleton] at ho'
      rcases ho' with ho' | ho'
      · exact h.1.2 o' ho'
      · subst ho'; exact h8
  | readd id =>
    simp only [step]
    split
    · rename_i o hf
      have hmem : o ∈ m.depot := List.mem_of_find?_eq_some hf
      refine ⟨⟨?_, ?_⟩, h.2⟩
      · intro o1 h1 o2 h2 hid
        simp only [add, List.mem_append, List.mem_singleton] at h1 h2
        have m1 : o1 ∈ m.depot := by rcases h1 with h1 | h1; exact h1; exact h1 ▸ hmem
        have m2 : o2 ∈ m.depot := by rcases h2 with h2 | h2; exact h2; exact h2 ▸ hmem
        exact h.1.1 o1 m1 o2 m2 hid
      · intro o' ho'
        simp only [add, List.mem_append, List.mem_singleton] at ho'
        rcases ho' with ho' | ho'
        · exact h.1.2 o' ho'
        · subst ho'; exact h.1.2 _ hmem
    · exact h
  | addEntity ops =>
    obtain ⟨hops, hdist⟩ := hs
    refine ⟨⟨?_, ?_⟩, h.2⟩
    · intro o1 h1 o2 h2 hid
      simp only [step, addEntity, List.mem_append] at h1 h2
      rcases h1 with h1 | h1 <;> rcases h2 with h2 | h2
      · exact h.1.1 o1 h1 o2 h2 hid
      · exact absurd hid ((hops o2 h2).2 o1 h1)
      · exact absurd hid.symm ((hops o1 h1).2 o2 h2)
      · exact hdist o1 h1 o2 h2 hid
    · intro o' ho'
      simp only [step, addEntity, List.mem_append] at ho'
      rcases ho' with ho' | ho'
      · exact h.1.2 o' ho'
      · exact (hops o' ho').1
  | delete id => exact h
  | assemble => exact wf_assemble m h
  | clear => exact wf_clear m h
  | backport =>
    simp only [step]
    cases hb : backport m with
    | none => exact h
    | some m' =>
      simp only [Option.getD_some]
      unfold backport at hb
      split at hb
      · cases hb
        apply wf_assemble
        apply wf_clear
        refine ⟨?_, h.2⟩
        show DepotWF (backportDepot _ _ _)
        rw [backportDepot_eq_map]
        -- identity and length are preserved whether or not `assembled` has duplicates
        constructor
        · intro o1 h1 o2 h2 hid
          obtain ⟨a, ha, rfl⟩ := List.mem_map.mp h1
          obtain ⟨b, hb', rfl⟩ := List.mem_map.mp h2
          rw [bpOne_id, bpOne_id] at hid
          rw [h.1.1 a ha b hb' hid]
        · intro o ho
          obtain ⟨a, ha, rfl⟩ := List.mem_map.mp ho
          have h8 : ∀ p ∈ m.lists.blocks.zip m.lists.assembled, p.1.verts.length = 8 :=
            fun p hp => h.2.1 p.1 (List.of_mem_zip hp).1
          exact bpOne_len8 _ _ a h8 (h.1.2 a ha)
      · cases hb
  | move r loc =>
    simp only [step, moveVertex]
    split
    · exact h
    · exact h
  | moveOnto r1 r2 =>
    simp only [step, moveOnto, moveVertex]
    split
    · exact h
    · exact h
  | translate r d =>
    simp only [step, translateVertex, moveVertex]
    split
    · exact h
    · exact h
  | modify n k st => exact h
  | setDefault n k => exact h
  | merge a b => exact h
  | addGeometry n ps => exact h
  | write =>
    show WF (write m).1
    rw [write_eq]
    have key : ∀ x, WF x → WF (writeFrom x).1 := by
      intro x hx
      unfold writeFrom
      have hg : WF (gradeBlocks x) := by
        refine ⟨hx.1, ?_, ?_⟩
        · intro b hb
          simp only [gradeBlocks, List.mem_map] at hb
          obtain ⟨b0, hb0, rfl⟩ := hb
          exact hx.2.1 b0 hb0
        · simpa [gradeBlocks] using hx.2.2
      split
      · exact hx
      · split <;> exact hg
    split
    · exact key m h
    · exact key _ (wf_assemble m h)

theorem wf_init : WF {} := ⟨⟨by intro o h; simp at h, by intro o h; simp at h⟩, by intro b h; simp at h, rfl⟩

end CBV.C12
