/-
C03 — a token decoder for the expression / condition trees of `Model/C03Trans.lean`, with `decode (enc t) = some t`:
the prefix encoding the Python translator follows is checked in Lean (it is injective on well-formed trees), and the ties
can be read as `decode generatedTokens = some modelTree`.
-/
import CBV.Model.C03Trans
import CBV.Gen.TC03

namespace CBV.C03

def undigit : String → Option Nat
  | "0" => some 0 | "1" => some 1 | "2" => some 2 | "3" => some 3 | "4" => some 4
  | "5" => some 5 | "6" => some 6 | "7" => some 7 | "8" => some 8 | "9" => some 9
  | _ => none

theorem undigit_digitTok {n : Nat} (h : n ≤ 9) : undigit (digitTok n) = some n := by
  match n, h with
  | 0, _ | 1, _ | 2, _ | 3, _ | 4, _ | 5, _ | 6, _ | 7, _ | 8, _ | 9, _ => rfl
  | n + 10, h => exact absurd h (by omega)

/-- prefix parser for expressions: the tree and the unread tokens -/
def decE : Nat → List String → Option (Expr × List String)
  | 0, _ => none
  | _ + 1, [] => none
  | f + 1, tok :: r =>
      let bin (mk : Expr → Expr → Expr) : Option (Expr × List String) :=
        match decE f r with
        | none => none
        | some (a, r1) =>
            match decE f r1 with
            | none => none
            | some (b, r2) => some (mk a b, r2)
      let un (mk : Expr → Expr) : Option (Expr × List String) :=
        match decE f r with
        | none => none
        | some (a, r1) => some (mk a, r1)
      if tok = "var" then (match r with | x :: r1 => some (.var x, r1) | [] => none)
      else if tok = "lit" then
        (match r with
         | d :: r1 => (match undigit d with | some n => some (.lit n, r1) | none => none)
         | [] => none)
      else if tok = "TOL" then some (.tol, r)
      else if tok = "R_MAX" then some (.rmax, r)
      else if tok = "+" then bin .add
      else if tok = "-" then bin .sub
      else if tok = "*" then bin .mul
      else if tok = "/" then bin .div
      else if tok = "**" then bin .pow
      else if tok = "abs" then un .abs
      else if tok = "log" then un .log
      else if tok = "int" then un .int
      else if tok = "ceil" then un .ceil
      else if tok = "call" then
        (match r with
         | g :: r0 => (match decE f r0 with | some (a, r1) => some (.call g a, r1) | none => none)
         | [] => none)
      else if tok = "brentq" then
        (match r with
         | g :: r0 =>
             (match decE f r0 with
              | some (a, r1) => (match decE f r1 with | some (b, r2) => some (.brentq g a b, r2) | none => none)
              | none => none)
         | [] => none)
      else none

def Expr.size : Expr → Nat
  | .var _ => 1 | .lit _ => 1 | .tol => 1 | .rmax => 1
  | .add a b => a.size + b.size + 1 | .sub a b => a.size + b.size + 1 | .mul a b => a.size + b.size + 1
  | .div a b => a.size + b.size + 1 | .pow a b => a.size + b.size + 1
  | .abs a => a.size + 1 | .log a => a.size + 1 | .int a => a.size + 1 | .ceil a => a.size + 1
  | .call _ a => a.size + 1 | .brentq _ a b => a.size + b.size + 1

/-- literals are single digits (what the translator emits; larger ones are refused there) -/
def Expr.wf : Expr → Prop
  | .var _ => True | .lit n => n ≤ 9 | .tol => True | .rmax => True
  | .add a b => a.wf ∧ b.wf | .sub a b => a.wf ∧ b.wf | .mul a b => a.wf ∧ b.wf
  | .div a b => a.wf ∧ b.wf | .pow a b => a.wf ∧ b.wf
  | .abs a => a.wf | .log a => a.wf | .int a => a.wf | .ceil a => a.wf
  | .call _ a => a.wf | .brentq _ a b => a.wf ∧ b.wf

theorem decE_enc : ∀ (e : Expr), e.wf → ∀ (fuel : Nat) (rest : List String), e.size ≤ fuel →
    decE fuel (e.enc ++ rest) = some (e, rest) := by
  intro e
  induction e with
  | var x => intro _ fuel rest h; cases fuel with | zero => simp [Expr.size] at h | succ f => simp [Expr.enc, decE]
  | lit n =>
    intro hw fuel rest h
    cases fuel with
    | zero => simp [Expr.size] at h
    | succ f => simp [Expr.enc, decE, undigit_digitTok hw]
  | tol => intro _ fuel rest h; cases fuel with | zero => simp [Expr.size] at h | succ f => simp [Expr.enc, decE]
  | rmax => intro _ fuel rest h; cases fuel with | zero => simp [Expr.size] at h | succ f => simp [Expr.enc, decE]
  | add a b iha ihb | sub a b iha ihb | mul a b iha ihb | div a b iha ihb | pow a b iha ihb =>
    intro hw fuel rest h
    cases fuel with
    | zero => simp [Expr.size] at h
    | succ f =>
      simp only [Expr.size] at h
      simp [Expr.enc, decE, List.append_assoc, iha hw.1 f _ (by omega), ihb hw.2 f _ (by omega)]
  | abs a iha | log a iha | int a iha | ceil a iha =>
    intro hw fuel rest h
    cases fuel with
    | zero => simp [Expr.size] at h
    | succ f =>
      simp only [Expr.size] at h
      simp [Expr.enc, decE, iha hw f _ (by omega)]
  | call g a iha =>
    intro hw fuel rest h
    cases fuel with
    | zero => simp [Expr.size] at h
    | succ f =>
      simp only [Expr.size] at h
      simp [Expr.enc, decE, iha hw f _ (by omega)]
  | brentq g a b iha ihb =>
    intro hw fuel rest h
    cases fuel with
    | zero => simp [Expr.size] at h
    | succ f =>
      simp only [Expr.size] at h
      simp [Expr.enc, decE, List.append_assoc, iha hw.1 f _ (by omega), ihb hw.2 f _ (by omega)]

/-! ### conditions -/

def Cmp.ofTok : String → Option Cmp
  | "<" => some .lt | "<=" => some .le | ">" => some .gt | ">=" => some .ge | "==" => some .eq | "!=" => some .ne
  | _ => none

theorem Cmp.ofTok_tok (op : Cmp) : Cmp.ofTok op.tok = some op := by cases op <;> rfl

def decC : Nat → List String → Option (Cond × List String)
  | 0, _ => none
  | _ + 1, [] => none
  | f + 1, tok :: r =>
      if tok = "cmp" then
        (match r with
         | op :: r0 =>
             (match Cmp.ofTok op with
              | none => none
              | some o =>
                  (match decE f r0 with
                   | none => none
                   | some (a, r1) => (match decE f r1 with | some (b, r2) => some (.cmp o a b, r2) | none => none)))
         | [] => none)
      else if tok = "and" then
        (match decC f r with
         | none => none
         | some (a, r1) => (match decC f r1 with | some (b, r2) => some (.and a b, r2) | none => none))
      else if tok = "not" then (match decC f r with | some (a, r1) => some (.not a, r1) | none => none)
      else if tok = "isnan" then (match decE f r with | some (a, r1) => some (.isnan a, r1) | none => none)
      else none

def Cond.size : Cond → Nat
  | .cmp _ a b => a.size + b.size + 1 | .and a b => a.size + b.size + 1 | .not c => c.size + 1 | .isnan e => e.size + 1

def Cond.wf : Cond → Prop
  | .cmp _ a b => a.wf ∧ b.wf | .and a b => a.wf ∧ b.wf | .not c => c.wf | .isnan e => e.wf

theorem decC_enc : ∀ (c : Cond), c.wf → ∀ (fuel : Nat) (rest : List String), c.size ≤ fuel →
    decC fuel (c.enc ++ rest) = some (c, rest) := by
  intro c
  induction c with
  | cmp op a b =>
    intro hw fuel rest h
    cases fuel with
    | zero => simp [Cond.size] at h
    | succ f =>
      simp only [Cond.size] at h
      simp [Cond.enc, decC, Cmp.ofTok_tok, List.append_assoc, decE_enc a hw.1 f _ (by omega), decE_enc b hw.2 f _ (by omega)]
  | and a b iha ihb =>
    intro hw fuel rest h
    cases fuel with
    | zero => simp [Cond.size] at h
    | succ f =>
      simp only [Cond.size] at h
      simp [Cond.enc, decC, List.append_assoc, iha hw.1 f _ (by omega), ihb hw.2 f _ (by omega)]
  | not c ih =>
    intro hw fuel rest h
    cases fuel with
    | zero => simp [Cond.size] at h
    | succ f =>
      simp only [Cond.size] at h
      simp [Cond.enc, decC, ih hw f _ (by omega)]
  | isnan e =>
    intro hw fuel rest h
    cases fuel with
    | zero => simp [Cond.size] at h
    | succ f =>
      simp only [Cond.size] at h
      simp [Cond.enc, decC, decE_enc e hw f _ (by omega)]

/-! ### statements and bodies -/

/-- `k` assignments `x e` -/
def decA (fuel : Nat) : Nat → List String → Option (List (String × Expr) × List String)
  | 0, r => some ([], r)
  | k + 1, x :: r =>
      (match decE fuel r with
       | none => none
       | some (e, r1) => (match decA fuel k r1 with | some (l, r2) => some ((x, e) :: l, r2) | none => none))
  | _ + 1, [] => none

def assignsSize : List (String × Expr) → Nat
  | [] => 0
  | (_, e) :: l => e.size + assignsSize l

def assignsWf : List (String × Expr) → Prop
  | [] => True
  | (_, e) :: l => e.wf ∧ assignsWf l

theorem decA_enc : ∀ (l : List (String × Expr)), assignsWf l → ∀ (fuel : Nat) (rest : List String),
    assignsSize l ≤ fuel → decA fuel l.length (encAssigns l ++ rest) = some (l, rest) := by
  intro l
  induction l with
  | nil => intro _ fuel rest _; rfl
  | cons p l ih =>
    obtain ⟨x, e⟩ := p
    intro hw fuel rest h
    simp only [assignsSize] at h
    simp [encAssigns, decA, List.append_assoc, decE_enc e hw.1 fuel _ (by omega), ih hw.2 fuel _ (by omega)]

def decS (f : Nat) : List String → Option (Stmt × List String)
  | [] => none
  | tok :: r =>
      if tok = "validate" then
        (match r with
         | fn :: d :: r0 =>
             (match undigit d with
              | some k => if k ≤ r0.length then some (.validate fn (r0.take k), r0.drop k) else none
              | none => none)
         | _ => none)
      else if tok = "raiseif" then (match decC f r with | some (c, r1) => some (.raiseIf c, r1) | none => none)
      else if tok = "retif" then
        (match decC f r with
         | none => none
         | some (c, r1) => (match decE f r1 with | some (e, r2) => some (.retIf c e, r2) | none => none))
      else if tok = "ite" then
        (match decC f r with
         | none => none
         | some (c, da :: r1) =>
             (match undigit da with
              | none => none
              | some ka =>
                  (match decA f ka r1 with
                   | none => none
                   | some (a, db :: r2) =>
                       (match undigit db with
                        | none => none
                        | some kb => (match decA f kb r2 with | some (b, r3) => some (.ite c a b, r3) | none => none))
                   | some (_, []) => none))
         | some (_, []) => none)
      else if tok = "assign" then
        (match r with
         | x :: r0 => (match decE f r0 with | some (e, r1) => some (.assign x e, r1) | none => none)
         | [] => none)
      else if tok = "ret" then (match decE f r with | some (e, r1) => some (.ret e, r1) | none => none)
      else if tok = "def" then
        (match r with
         | g :: p :: r0 => (match decE f r0 with | some (e, r1) => some (.defn g p e, r1) | none => none)
         | _ => none)
      else none

def Stmt.size : Stmt → Nat
  | .validate _ _ => 1 | .raiseIf c => c.size | .retIf c e => c.size + e.size
  | .ite c a b => c.size + assignsSize a + assignsSize b | .assign _ e => e.size | .ret e => e.size | .defn _ _ e => e.size

def Stmt.wf : Stmt → Prop
  | .validate _ args => args.length ≤ 9 | .raiseIf c => c.wf | .retIf c e => c.wf ∧ e.wf
  | .ite c a b => c.wf ∧ assignsWf a ∧ assignsWf b ∧ a.length ≤ 9 ∧ b.length ≤ 9
  | .assign _ e => e.wf | .ret e => e.wf | .defn _ _ e => e.wf

theorem decS_enc (s : Stmt) (hw : s.wf) (fuel : Nat) (rest : List String) (h : s.size ≤ fuel) :
    decS fuel (s.enc ++ rest) = some (s, rest) := by
  cases s with
  | validate fn args =>
    simp [Stmt.enc, decS, undigit_digitTok hw, List.take_left', List.drop_left']
  | raiseIf c => simp [Stmt.enc, decS, decC_enc c hw fuel _ h]
  | retIf c e =>
    simp only [Stmt.size] at h
    simp [Stmt.enc, decS, List.append_assoc, decC_enc c hw.1 fuel _ (by omega), decE_enc e hw.2 fuel _ (by omega)]
  | ite c a b =>
    simp only [Stmt.size] at h
    obtain ⟨hc, ha, hb, hla, hlb⟩ := hw
    simp [Stmt.enc, decS, List.append_assoc, decC_enc c hc fuel _ (by omega), undigit_digitTok hla, undigit_digitTok hlb,
      decA_enc a ha fuel _ (by omega), decA_enc b hb fuel _ (by omega)]
  | assign x e => simp [Stmt.enc, decS, decE_enc e hw fuel _ h]
  | ret e => simp [Stmt.enc, decS, decE_enc e hw fuel _ h]
  | defn g p e => simp [Stmt.enc, decS, decE_enc e hw fuel _ h]

/-- a whole body: statements until the tokens are used up (`n` bounds the number of statements) -/
def decBody (f : Nat) : Nat → List String → Option (List Stmt)
  | _, [] => some []
  | 0, _ :: _ => none
  | n + 1, t :: r =>
      (match decS f (t :: r) with
       | none => none
       | some (s, r1) => (match decBody f n r1 with | some l => some (s :: l) | none => none))

theorem Stmt.enc_ne_nil (s : Stmt) : s.enc ≠ [] := by cases s <;> simp [Stmt.enc]

theorem decBody_enc : ∀ (l : List Stmt), (∀ s ∈ l, s.wf) → ∀ (f n : Nat), (∀ s ∈ l, s.size ≤ f) → l.length ≤ n →
    decBody f n (encBody l) = some l := by
  intro l
  induction l with
  | nil => intro _ f n _ _; cases n <;> rfl
  | cons s l ih =>
    intro hw f n hs hn
    cases n with
    | zero => simp at hn
    | succ n =>
      have hdec := decS_enc s (hw s (by simp)) f (encBody l) (hs s (by simp))
      have ihl := ih (fun x hx => hw x (by simp [hx])) f n (fun x hx => hs x (by simp [hx])) (by simpa using hn)
      simp only [encBody]
      cases hse : s.enc with
      | nil => exact absurd hse (Stmt.enc_ne_nil s)
      | cons t r =>
        rw [hse] at hdec
        simp only [List.cons_append] at hdec ⊢
        simp only [decBody, hdec, ihl]

/-- decoding of a whole token list: fuel and statement bound are its length -/
def decodeBody (toks : List String) : Option (List Stmt) := decBody toks.length toks.length toks

/-! ### fuel: the length of the token list is always enough -/

theorem Expr.size_le (e : Expr) : e.size ≤ e.enc.length := by
  induction e <;> simp [Expr.size, Expr.enc, List.length_append] <;> omega

theorem Cond.size_le (c : Cond) : c.size ≤ c.enc.length := by
  induction c with
  | cmp op a b => have := a.size_le; have := b.size_le; simp [Cond.size, Cond.enc, List.length_append]; omega
  | and a b iha ihb => simp [Cond.size, Cond.enc, List.length_append]; omega
  | not c ih => simp [Cond.size, Cond.enc]; omega
  | isnan e => have := e.size_le; simp [Cond.size, Cond.enc]; omega

theorem assignsSize_le (l : List (String × Expr)) : assignsSize l ≤ (encAssigns l).length := by
  induction l with
  | nil => simp [assignsSize, encAssigns]
  | cons p l ih =>
    obtain ⟨x, e⟩ := p
    have := e.size_le
    simp [assignsSize, encAssigns, List.length_append]; omega

theorem Stmt.size_le (s : Stmt) : s.size ≤ s.enc.length := by
  cases s with
  | validate fn args => simp [Stmt.size, Stmt.enc]
  | raiseIf c => have := c.size_le; simp [Stmt.size, Stmt.enc]; omega
  | retIf c e => have := c.size_le; have := e.size_le; simp [Stmt.size, Stmt.enc, List.length_append]; omega
  | ite c a b =>
    have := c.size_le; have := assignsSize_le a; have := assignsSize_le b
    simp [Stmt.size, Stmt.enc, List.length_append]; omega
  | assign x e => have := e.size_le; simp [Stmt.size, Stmt.enc]; omega
  | ret e => have := e.size_le; simp [Stmt.size, Stmt.enc]; omega
  | defn g p e => have := e.size_le; simp [Stmt.size, Stmt.enc]; omega

theorem encBody_bounds : ∀ (l : List Stmt), l.length ≤ (encBody l).length ∧ ∀ s ∈ l, s.size ≤ (encBody l).length := by
  intro l
  induction l with
  | nil => simp [encBody]
  | cons s l ih =>
    have h1 := s.size_le
    have h0 : 1 ≤ s.enc.length := by
      cases hse : s.enc with
      | nil => exact absurd hse (Stmt.enc_ne_nil s)
      | cons t r => simp
    refine ⟨by simp [encBody, List.length_append]; omega, ?_⟩
    intro x hx
    simp only [List.mem_cons] at hx
    simp only [encBody, List.length_append]
    rcases hx with rfl | hx
    · omega
    · have := ih.2 x hx; omega

/-- the decoder inverts the encoding on every well-formed body (single-digit literals and arities, as the translator
    emits them): the prefix code is uniquely decodable, two different trees never share a token list -/
theorem decodeBody_encBody (l : List Stmt) (hw : ∀ s ∈ l, s.wf) : decodeBody (encBody l) = some l :=
  decBody_enc l hw _ _ (encBody_bounds l).2 (encBody_bounds l).1

theorem encBody_injective {l l' : List Stmt} (hw : ∀ s ∈ l, s.wf) (hw' : ∀ s ∈ l', s.wf)
    (h : encBody l = encBody l') : l = l' := by
  have h1 := decodeBody_encBody l hw
  rw [h, decodeBody_encBody l' hw'] at h1
  exact (Option.some.inj h1).symm

/-! ### the statements of `Chop.invert` -/

def decArms : Nat → List String → Option (List (String × String × String) × List String)
  | 0, r => some ([], r)
  | k + 1, c :: g :: n :: r => (match decArms k r with | some (l, r1) => some ((c, g, n) :: l, r1) | none => none)
  | _ + 1, _ => none

theorem decArms_enc : ∀ (l : List (String × String × String)) (rest : List String),
    decArms l.length (encArms l ++ rest) = some (l, rest) := by
  intro l
  induction l with
  | nil => intro rest; rfl
  | cons p l ih => obtain ⟨c, g, n⟩ := p; intro rest; simp [encArms, decArms, ih]

def decI : List String → Option (IStmt × List String)
  | "assign2" :: t1 :: t2 :: v1 :: v2 :: r => some (.assign2 t1 t2 v1 v2, r)
  | "ifset" :: x :: "recip" :: y :: z :: r => some (.ifsetRecip x y z, r)
  | "case" :: f :: d :: r =>
      (match undigit d with
       | some k => (match decArms k r with | some (l, r1) => some (.case f l, r1) | none => none)
       | none => none)
  | _ => none

def IStmt.wf : IStmt → Prop
  | .case _ arms => arms.length ≤ 9
  | _ => True

theorem decI_enc (s : IStmt) (hw : s.wf) (rest : List String) : decI (s.enc ++ rest) = some (s, rest) := by
  cases s with
  | assign2 t1 t2 v1 v2 => simp [IStmt.enc, decI]
  | ifsetRecip x y z => simp [IStmt.enc, decI]
  | case f arms => simp [IStmt.enc, decI, undigit_digitTok hw, decArms_enc]

def decIBody : Nat → List String → Option (List IStmt)
  | _, [] => some []
  | 0, _ :: _ => none
  | n + 1, t :: r =>
      (match decI (t :: r) with
       | none => none
       | some (s, r1) => (match decIBody n r1 with | some l => some (s :: l) | none => none))

theorem IStmt.enc_ne_nil (s : IStmt) : s.enc ≠ [] := by cases s <;> simp [IStmt.enc]

theorem decIBody_enc : ∀ (l : List IStmt), (∀ s ∈ l, s.wf) → ∀ (n : Nat), l.length ≤ n →
    decIBody n (encIBody l) = some l := by
  intro l
  induction l with
  | nil => intro _ n _; cases n <;> rfl
  | cons s l ih =>
    intro hw n hn
    cases n with
    | zero => simp at hn
    | succ n =>
      have hdec := decI_enc s (hw s (by simp)) (encIBody l)
      have ihl := ih (fun x hx => hw x (by simp [hx])) n (by simpa using hn)
      simp only [encIBody]
      cases hse : s.enc with
      | nil => exact absurd hse (IStmt.enc_ne_nil s)
      | cons t r =>
        rw [hse] at hdec
        simp only [List.cons_append] at hdec ⊢
        simp only [decIBody, hdec, ihl]

def decodeIBody (toks : List String) : Option (List IStmt) := decIBody toks.length toks

theorem encIBody_length : ∀ (l : List IStmt), l.length ≤ (encIBody l).length := by
  intro l
  induction l with
  | nil => simp [encIBody]
  | cons s l ih =>
    have h0 : 1 ≤ s.enc.length := by
      cases hse : s.enc with
      | nil => exact absurd hse (IStmt.enc_ne_nil s)
      | cons t r => simp
    simp [encIBody, List.length_append]; omega

theorem decodeIBody_encIBody (l : List IStmt) (hw : ∀ s ∈ l, s.wf) : decodeIBody (encIBody l) = some l :=
  decIBody_enc l hw _ (encIBody_length l)

/-! ### the ties read through the decoder: the generated tokens decode to the model's trees -/

theorem body_c2c_count_end_decoded : decodeBody CBV.Gen.c03Body_c2c_expansion__count__end_size = some body_c2c_count_end := by decide +kernel
theorem body_c2c_count_start_decoded : decodeBody CBV.Gen.c03Body_c2c_expansion__count__start_size = some body_c2c_count_start := by decide +kernel
theorem body_c2c_count_total_decoded : decodeBody CBV.Gen.c03Body_c2c_expansion__count__total_expansion = some body_c2c_count_total := by decide +kernel
theorem body_count_end_c2c_decoded : decodeBody CBV.Gen.c03Body_count__end_size__c2c_expansion = some body_count_end_c2c := by decide +kernel
theorem body_count_start_c2c_decoded : decodeBody CBV.Gen.c03Body_count__start_size__c2c_expansion = some body_count_start_c2c := by decide +kernel
theorem body_count_total_c2c_decoded : decodeBody CBV.Gen.c03Body_count__total_expansion__c2c_expansion = some body_count_total_c2c := by decide +kernel
theorem body_count_total_start_decoded : decodeBody CBV.Gen.c03Body_count__total_expansion__start_size = some body_count_total_start := by decide +kernel
theorem body_end_start_total_decoded : decodeBody CBV.Gen.c03Body_end_size__start_size__total_expansion = some body_end_start_total := by decide +kernel
theorem body_start_count_c2c_decoded : decodeBody CBV.Gen.c03Body_start_size__count__c2c_expansion = some body_start_count_c2c := by decide +kernel
theorem body_start_end_total_decoded : decodeBody CBV.Gen.c03Body_start_size__end_size__total_expansion = some body_start_end_total := by decide +kernel
theorem body_total_count_c2c_decoded : decodeBody CBV.Gen.c03Body_total_expansion__count__c2c_expansion = some body_total_count_c2c := by decide +kernel
theorem body_total_start_end_decoded : decodeBody CBV.Gen.c03Body_total_expansion__start_size__end_size = some body_total_start_end := by decide +kernel

theorem invertBody_decoded : decodeIBody CBV.Gen.c03InvertBody = some invertBody := by decide +kernel

theorem validatorBodies_decoded :
    CBV.Gen.c03ValidatorBodies.map (fun p => (p.1, p.2.1, decodeBody p.2.2)) =
      validatorBodies.map (fun p => (p.1, p.2.1, some p.2.2)) := by decide +kernel

end CBV.C03
