/-
C03 — `Chop.calculate` interpreted statement by statement (the interleaved loop of the source: names and values move
together) and proved equal to the model's two-phase `calculate` (plan on names, then the calls) for all chops.
-/
import CBV.Lemmas.C03Calc
import CBV.Gen.TC03

namespace CBV.C03

/-- one pass `for chop_rel in ChopRelation.get_possible_combinations()` as the source runs it: the set `calculated`
    and the dictionary `data` move together; a relation that raises aborts the method -/
def passGen (t : Tol) (L : ℚ) (o : Oracle) : List Rel → List Q × Vals → Except (Err × Rel) (List Q × Vals)
  | [], st => .ok st
  | rel :: rest, (known, v) =>
      if rel.out ∈ known then passGen t L o rest (known, v)                       -- `continue`
      else if rel.in1 ∈ known ∧ rel.in2 ∈ known then
        match applyRel t L o v rel with
        | .error e => .error (e, rel)
        | .ok v' => passGen t L o rest (rel.out :: known, v')                    -- `data[output] = …; calculated.add(output)`
      else passGen t L o rest (known, v)

/-- `for _ in range(N)`: the completeness test (return) first, then one pass; falling out of the loop raises -/
def loopGen (t : Tol) (L : ℚ) (o : Oracle) (rels : List Rel) (req : List Q) :
    Nat → List Q × Vals → Except (Err × Option Rel) Vals
  | 0, _ => .error (.value, none)
  | fuel + 1, (known, v) =>
      if req.all (fun q => decide (q ∈ known)) then .ok v
      else
        match passGen t L o rels (known, v) with
        | .error (e, rel) => .error (e, some rel)
        | .ok st => loopGen t L o rels req fuel st

/-- `Chop.calculate` from the translated table -/
def calcGen (tbl : Nat × List String × (String × String) × (String × String × String))
    (t : Tol) (L : ℚ) (o : Oracle) (v : Vals) : Option (Except (Err × Option Rel) Vals) :=
  match tbl with
  | (N, reqS, ret, args) => do
      let req ← reqS.mapM Q.ofString?
      if ret ≠ ("count", "total_expansion") ∨ args ≠ ("length", "input_1", "input_2") then none
      let rels ← relTable
      some (loopGen t L o rels req N (v.known, v))

/-! ### equivalence with the model -/

def rnStep (acc : List Q × List Rel) (rel : Rel) : List Q × List Rel :=
  if rel.out ∈ acc.1 then acc
  else if rel.in1 ∈ acc.1 ∧ rel.in2 ∈ acc.1 then (rel.out :: acc.1, acc.2 ++ [rel])
  else acc

theorem roundNames_eq (rels : List Rel) (known : List Q) : roundNames rels known = rels.foldl rnStep (known, []) := rfl

theorem rn_acc (rels : List Rel) : ∀ (K : List Q) (acc : List Rel),
    rels.foldl rnStep (K, acc) = ((rels.foldl rnStep (K, [])).1, acc ++ (rels.foldl rnStep (K, [])).2) := by
  induction rels with
  | nil => intro K acc; simp
  | cons rel rest ih =>
    intro K acc
    simp only [List.foldl_cons]
    by_cases h1 : rel.out ∈ K
    · simp only [rnStep, h1, if_true]; exact ih K acc
    · by_cases h2 : rel.in1 ∈ K ∧ rel.in2 ∈ K
      · simp only [rnStep, h1, h2, if_false, if_true, and_self, List.nil_append]
        rw [ih (rel.out :: K) (acc ++ [rel]), ih (rel.out :: K) [rel]]
        simp
      · simp only [rnStep, h1, h2, if_false]; exact ih K acc

theorem runSteps_append (t : Tol) (L : ℚ) (o : Oracle) : ∀ (a b : List Rel) (v : Vals),
    runSteps t L o (a ++ b) v =
      match runSteps t L o a v with
      | .error e => .error e
      | .ok v' => runSteps t L o b v' := by
  intro a
  induction a with
  | nil => intro b v; rfl
  | cons rel rest ih =>
    intro b v
    simp only [List.cons_append, runSteps]
    cases applyRel t L o v rel with
    | error e => rfl
    | ok v' => exact ih b v'

theorem passGen_eq (t : Tol) (L : ℚ) (o : Oracle) (rels : List Rel) : ∀ (K : List Q) (v : Vals),
    passGen t L o rels (K, v) =
      match runSteps t L o (rels.foldl rnStep (K, [])).2 v with
      | .error e => .error e
      | .ok v' => .ok ((rels.foldl rnStep (K, [])).1, v') := by
  induction rels with
  | nil => intro K v; rfl
  | cons rel rest ih =>
    intro K v
    simp only [List.foldl_cons, passGen]
    by_cases h1 : rel.out ∈ K
    · simp only [rnStep, h1, if_true]; exact ih K v
    · by_cases h2 : rel.in1 ∈ K ∧ rel.in2 ∈ K
      · simp only [rnStep, h1, h2, if_false, if_true, and_self, List.nil_append]
        rw [rn_acc rest (rel.out :: K) [rel]]
        simp only [List.cons_append, List.nil_append, runSteps]
        cases applyRel t L o v rel with
        | error e => rfl
        | ok v' => exact ih (rel.out :: K) v'
      · simp only [rnStep, h1, h2, if_false]; exact ih K v

/-- what `calculate` does with the outcome of the calls and the `done` flag of the plan -/
def finish (x : Except (Err × Rel) Vals) (done : Bool) : Except (Err × Option Rel) Vals :=
  match x with
  | .error (e, rel) => .error (e, some rel)
  | .ok v' => if done then .ok v' else .error (.value, none)

/-- the interleaved loop continued from an outcome of the calls made so far -/
def contGen (t : Tol) (L : ℚ) (o : Oracle) (rels : List Rel) (req : List Q) (fuel : Nat) (K : List Q)
    (x : Except (Err × Rel) Vals) : Except (Err × Option Rel) Vals :=
  match x with
  | .error (e, rel) => .error (e, some rel)
  | .ok v => loopGen t L o rels req fuel (K, v)

theorem loopGen_eq (t : Tol) (L : ℚ) (o : Oracle) (rels : List Rel) (req : List Q)
    (hreq : ∀ K, req.all (fun q => decide (q ∈ K)) = allFive K) (vs : Vals) :
    ∀ (fuel : Nat) (K : List Q) (acc : List Rel) (rounds : Nat),
      contGen t L o rels req fuel K (runSteps t L o acc vs) =
        finish (runSteps t L o (planLoop rels fuel K acc rounds).1 vs) (planLoop rels fuel K acc rounds).2.2 := by
  intro fuel
  induction fuel with
  | zero =>
    intro K acc rounds
    simp only [planLoop]
    cases runSteps t L o acc vs with
    | error e => rfl
    | ok v => rfl
  | succ fuel ih =>
    intro K acc rounds
    by_cases hall : allFive K = true
    · simp only [planLoop, hall, if_true]
      cases h : runSteps t L o acc vs with
      | error e => rfl
      | ok v => simp [contGen, loopGen, finish, hreq, hall]
    · simp only [planLoop, hall, if_false, Bool.false_eq_true]
      rw [← ih, roundNames_eq, runSteps_append]
      cases h : runSteps t L o acc vs with
      | error e => rfl
      | ok v =>
        simp only [contGen, loopGen, hreq, hall, if_false, Bool.false_eq_true, passGen_eq]
        cases runSteps t L o (List.foldl rnStep (K, []) rels).2 v with
        | error e => rfl
        | ok v' => rfl

theorem calcGen_eq (t : Tol) (L : ℚ) (o : Oracle) (v : Vals) :
    calcGen CBV.Gen.c03CalcLoop t L o v = some (calculate t L o v) := by
  have hreq : ∀ K, [Q.c2c, Q.count, Q.end_, Q.start, Q.total].all (fun q => decide (q ∈ K)) = allFive K := by
    intro K
    simp only [allFive, List.all_cons, List.all_nil, Bool.and_true]
    cases decide (Q.c2c ∈ K) <;> cases decide (Q.count ∈ K) <;> cases decide (Q.end_ ∈ K) <;>
      cases decide (Q.start ∈ K) <;> cases decide (Q.total ∈ K) <;> rfl
  have hN : calcRounds = CBV.Gen.c03CalcLoop.1 := by decide
  obtain ⟨rels, hrels⟩ : ∃ rels, relTable = some rels := by
    cases h : relTable with
    | none => exact absurd h (by decide)
    | some r => exact ⟨r, rfl⟩
  have key := loopGen_eq t L o rels _ hreq v CBV.Gen.c03CalcLoop.1 v.known [] 0
  simp only [CBV.Gen.c03CalcLoop] at hN key
  simp only [calcGen, CBV.Gen.c03CalcLoop, List.mapM_cons, List.mapM_nil, Q.ofString?, hrels, calculate, plan, hN,
    Option.map_some]
  simp only [runSteps, contGen, pure, Except.pure, finish] at key
  simp [key, pure, Except.pure]
  generalize runSteps t L o _ v = x
  cases x with
  | error e => rfl
  | ok v' => rfl

end CBV.C03
