/-
C06 — the text of a fixed-point number: `decValue` reads `fmtFixedChars` back to `± roundK / 10^k`,
the output is a well-formed token.
-/
import CBV.Lemmas.C06Num
import Mathlib.Tactic.FieldSimp
import Mathlib.Tactic.Positivity
import CBV.Gen.TC05

namespace CBV.C06

theorem pow10_eq (k : Nat) : pow10 k = 10 ^ k := by
  induction k with
  | zero => rfl
  | succ k ih => simp [pow10, ih, Nat.pow_succ, Nat.mul_comm]

theorem pow10_pos (k : Nat) : 0 < pow10 k := by rw [pow10_eq]; exact Nat.pow_pos (by decide)

theorem takeWhile_append_stop {p : Char → Bool} (l : List Char) (x : Char) (r : List Char)
    (hl : ∀ c ∈ l, p c = true) (hx : p x = false) : (l ++ x :: r).takeWhile p = l := by
  induction l with
  | nil => simp [hx]
  | cons a l ih =>
    have ha := hl a (List.mem_cons_self)
    simp only [List.cons_append, List.takeWhile, ha]
    rw [ih (fun c hc => hl c (List.mem_cons_of_mem _ hc))]

theorem dropWhile_append_stop {p : Char → Bool} (l : List Char) (x : Char) (r : List Char)
    (hl : ∀ c ∈ l, p c = true) (hx : p x = false) : (l ++ x :: r).dropWhile p = x :: r := by
  induction l with
  | nil => simp [hx]
  | cons a l ih =>
    have ha := hl a (List.mem_cons_self)
    simp only [List.cons_append, List.dropWhile, ha]
    exact ih (fun c hc => hl c (List.mem_cons_of_mem _ hc))

theorem digits_isDigit (n : Nat) : ∀ c ∈ Nat.toDigits 10 n, c.isDigit = true :=
  fun _ hc => Nat.isDigit_of_mem_toDigits (by decide) (by decide) hc

/-- the fraction digits: zero padding followed by the digits of `m` -/
def fracChars (k m : Nat) : List Char :=
  List.replicate (k - (Nat.toDigits 10 m).length) '0' ++ Nat.toDigits 10 m

theorem fracChars_length (k m : Nat) (hk : 0 < k) (hm : m < 10 ^ k) : (fracChars k m).length = k := by
  have h := (Nat.length_toDigits_le_iff (b := 10) (n := m) (by decide) hk).mpr hm
  simp only [fracChars, List.length_append, List.length_replicate]
  omega

theorem fracChars_isDigit (k m : Nat) : ∀ c ∈ fracChars k m, c.isDigit = true := by
  intro c hc
  simp only [fracChars, List.mem_append, List.mem_replicate] at hc
  rcases hc with ⟨_, rfl⟩ | hc
  · decide
  · exact digits_isDigit m c hc

theorem fracChars_value (k m : Nat) : Nat.ofDigitChars 10 (fracChars k m) 0 = m := by
  simp [fracChars, Nat.ofDigitChars_append]

theorem fracChars_ne_nil (k m : Nat) : fracChars k m ≠ [] := by
  simp [fracChars]

theorem head_digits_ne_minus (n : Nat) (r : List Char) : (Nat.toDigits 10 n ++ r).head? ≠ some '-' := by
  cases h : Nat.toDigits 10 n with
  | nil => exact absurd h Nat.toDigits_ne_nil
  | cons a l =>
    have ha : a.isDigit = true := digits_isDigit n a (by rw [h]; exact List.mem_cons_self)
    simp only [List.cons_append, List.head?_cons]
    intro hh
    have : a = '-' := by simpa using hh
    rw [this] at ha
    exact absurd ha (by decide)

/-- sign and body of the printed characters -/
theorem fmtFixedChars_eq (k : Nat) (neg : Bool) (q : Rat) :
    fmtFixedChars k neg q =
      (if neg then ['-'] else []) ++
        (Nat.toDigits 10 (roundK k q / pow10 k) ++ '.' :: fracChars k (roundK k q % pow10 k)) := rfl

private theorem body_split (k : Nat) (neg : Bool) (q : Rat) :
    let cs := fmtFixedChars k neg q
    (cs.head? == some '-') = neg ∧
    (if neg then cs.tail else cs) =
      Nat.toDigits 10 (roundK k q / pow10 k) ++ '.' :: fracChars k (roundK k q % pow10 k) := by
  intro cs
  cases neg with
  | true => exact ⟨by simp [cs, fmtFixedChars_eq], by simp [cs, fmtFixedChars_eq]⟩
  | false =>
    have h := head_digits_ne_minus (roundK k q / pow10 k) ('.' :: fracChars k (roundK k q % pow10 k))
    refine ⟨?_, by simp [cs, fmtFixedChars_eq]⟩
    simp only [cs, fmtFixedChars_eq, Bool.false_eq_true, if_false, List.nil_append]
    simpa using h

/-- **reading back.** `decValue` of the printed characters is `± roundK k q / 10^k`. -/
theorem decValue_fmtFixedChars (k : Nat) (hk : 0 < k) (neg : Bool) (q : Rat) :
    decValue (fmtFixedChars k neg q) =
      some ((if neg then -1 else 1) * (((roundK k q : Nat) : Rat) / ((pow10 k : Nat) : Rat))) := by
  obtain ⟨h1, h2⟩ := body_split k neg q
  have hm : roundK k q % pow10 k < 10 ^ k := by rw [← pow10_eq]; exact Nat.mod_lt _ (pow10_pos k)
  have hdot : Char.isDigit '.' = false := by decide
  have hT := takeWhile_append_stop (p := Char.isDigit) _ '.' (fracChars k (roundK k q % pow10 k))
    (digits_isDigit (roundK k q / pow10 k)) hdot
  have hD := dropWhile_append_stop (p := Char.isDigit) _ '.' (fracChars k (roundK k q % pow10 k))
    (digits_isDigit (roundK k q / pow10 k)) hdot
  unfold decValue
  simp only [h1, h2, hT, hD]
  have hne : (Nat.toDigits 10 (roundK k q / pow10 k)).isEmpty = false := by
    cases h : Nat.toDigits 10 (roundK k q / pow10 k) with
    | nil => exact absurd h Nat.toDigits_ne_nil
    | cons _ _ => rfl
  have hne2 : (fracChars k (roundK k q % pow10 k)).isEmpty = false := by
    cases h : fracChars k (roundK k q % pow10 k) with
    | nil => exact absurd h (fracChars_ne_nil _ _)
    | cons _ _ => rfl
  have hall : (fracChars k (roundK k q % pow10 k)).all Char.isDigit = true :=
    List.all_eq_true.mpr (fracChars_isDigit k _)
  simp only [hne, hne2, hall, Bool.not_false, Bool.and_self, if_true, Nat.ofDigitChars_ten_toDigits,
    fracChars_value, fracChars_length k _ hk hm]
  congr 2
  have hp : ((pow10 k : Nat) : Rat) ≠ 0 := by exact_mod_cast (pow10_pos k).ne'
  have hdm : ((roundK k q : Nat) : Rat) =
      ((roundK k q / pow10 k : Nat) : Rat) * ((pow10 k : Nat) : Rat) + ((roundK k q % pow10 k : Nat) : Rat) := by
    have := Nat.div_add_mod (roundK k q) (pow10 k)
    have h' : roundK k q = roundK k q / pow10 k * pow10 k + roundK k q % pow10 k := by
      rw [Nat.mul_comm]; exact this.symm
    exact_mod_cast congrArg (fun n : Nat => (n : Rat)) h'
  rw [hdm, add_div, mul_div_assoc, div_self hp, mul_one]

/-- **well-formed.** The printed characters are `[-]d…d.d…d` with exactly `k` decimals and an integer
    part without a superfluous leading zero. -/
theorem head_digits (n : Nat) : (Nat.toDigits 10 n).length = 1 ∨ (Nat.toDigits 10 n).head? ≠ some '0' := by
  induction n using Nat.strongRecOn with
  | _ n ih =>
    rw [Nat.toDigits_eq_if (by decide)]
    split
    · left; rfl
    · rename_i h
      right
      have hpos : 0 < n / 10 := Nat.div_pos (by omega) (by decide)
      rcases ih (n / 10) (by omega) with h1 | h1
      · -- a single digit `n / 10 < 10`, positive
        have hlt : n / 10 < 10 := by
          have := (Nat.length_toDigits_le_iff (b := 10) (n := n / 10) (by decide) (by decide : 0 < 1)).mp (by omega)
          simpa using this
        rw [Nat.toDigits_of_lt_base hlt]
        simp only [List.cons_append, List.nil_append, List.head?_cons]
        intro hh
        have h0 : (n / 10).digitChar = '0' := by simpa using hh
        have : (n / 10).digitChar.toNat = 48 := by rw [h0]; rfl
        rw [Nat.toNat_digitChar_of_lt_ten hlt] at this
        omega
      · cases hd : Nat.toDigits 10 (n / 10) with
        | nil => exact absurd hd Nat.toDigits_ne_nil
        | cons a l =>
          rw [hd] at h1
          simpa using h1

theorem isFixedToken_fmtFixedChars (k : Nat) (hk : 0 < k) (neg : Bool) (q : Rat) :
    isFixedToken k (fmtFixedChars k neg q) = true := by
  obtain ⟨h1, h2⟩ := body_split k neg q
  have hm : roundK k q % pow10 k < 10 ^ k := by rw [← pow10_eq]; exact Nat.mod_lt _ (pow10_pos k)
  have hdot : Char.isDigit '.' = false := by decide
  have hT := takeWhile_append_stop (p := Char.isDigit) _ '.' (fracChars k (roundK k q % pow10 k))
    (digits_isDigit (roundK k q / pow10 k)) hdot
  have hD := dropWhile_append_stop (p := Char.isDigit) _ '.' (fracChars k (roundK k q % pow10 k))
    (digits_isDigit (roundK k q / pow10 k)) hdot
  unfold isFixedToken
  simp only [h1, h2, hT, hD]
  have hne : (Nat.toDigits 10 (roundK k q / pow10 k)).isEmpty = false := by
    cases h : Nat.toDigits 10 (roundK k q / pow10 k) with
    | nil => exact absurd h Nat.toDigits_ne_nil
    | cons _ _ => rfl
  have hall : (fracChars k (roundK k q % pow10 k)).all Char.isDigit = true :=
    List.all_eq_true.mpr (fracChars_isDigit k _)
  have hlead : ((Nat.toDigits 10 (roundK k q / pow10 k)).length == 1 ||
      (Nat.toDigits 10 (roundK k q / pow10 k)).head? != some '0') = true := by
    rcases head_digits (roundK k q / pow10 k) with h | h
    · simp [h]
    · simp [h]
  simp only [hne, hall, hlead, fracChars_length k _ hk hm, Bool.not_false, Bool.and_self, beq_self_eq_true]

/-! ### the printed number as a value -/

/-- `neg` is the sign bit of a float whose exact value is `q` -/
def SignOk (neg : Bool) (q : Rat) : Prop := (neg = true → q ≤ 0) ∧ (neg = false → 0 ≤ q)

theorem signOk_decide (q : Rat) : SignOk (decide (q < 0)) q := by
  constructor
  · intro h; have : q < 0 := of_decide_eq_true h; linarith
  · intro h; have : ¬ q < 0 := of_decide_eq_false h; linarith

theorem pow10_cast_pos (k : Nat) : (0 : Rat) < ((pow10 k : Nat) : Rat) := by exact_mod_cast pow10_pos k

theorem roundK_spec (k : Nat) (q : Rat) :
    ((roundK k q : Nat) : Rat) - (if q < 0 then -q else q) * ((pow10 k : Nat) : Rat) ≤ 1 / 2 ∧
    (if q < 0 then -q else q) * ((pow10 k : Nat) : Rat) - ((roundK k q : Nat) : Rat) ≤ 1 / 2 :=
  roundHalfEven_spec _ (mul_nonneg (by split <;> linarith) (le_of_lt (pow10_cast_pos k)))

/-- the signed value `decValue` reads, scaled by `10^k`, is within 1/2 of `q·10^k` -/
theorem signed_round_close (k : Nat) (neg : Bool) (q : Rat) (hs : SignOk neg q) :
    let v := (if neg then (-1 : Rat) else 1) * (((roundK k q : Nat) : Rat) / ((pow10 k : Nat) : Rat))
    (v - q) * ((pow10 k : Nat) : Rat) ≤ 1 / 2 ∧ (q - v) * ((pow10 k : Nat) : Rat) ≤ 1 / 2 := by
  intro v
  have hP := pow10_cast_pos k
  obtain ⟨h1, h2⟩ := roundK_spec k q
  have hv : v * ((pow10 k : Nat) : Rat) = (if neg then (-1 : Rat) else 1) * ((roundK k q : Nat) : Rat) := by
    simp only [v]; field_simp
  cases neg with
  | true =>
    have hq : q ≤ 0 := hs.1 rfl
    have ha : (if q < 0 then -q else q) = -q := by
      split
      · rfl
      · have : q = 0 := le_antisymm hq (by linarith); rw [this]; simp
    rw [ha] at h1 h2
    simp only [if_true] at hv
    constructor <;> nlinarith
  | false =>
    have hq : 0 ≤ q := hs.2 rfl
    have ha : (if q < 0 then -q else q) = q := by
      split
      · linarith
      · rfl
    rw [ha] at h1 h2
    simp only [Bool.false_eq_true, if_false] at hv
    constructor <;> nlinarith

/-- two numbers whose printed characters are equal differ by at most one unit of the last decimal -/
theorem fmtFixedChars_separates (k : Nat) (hk : 0 < k) (n1 n2 : Bool) (q1 q2 : Rat)
    (h1 : SignOk n1 q1) (h2 : SignOk n2 q2) (h : fmtFixedChars k n1 q1 = fmtFixedChars k n2 q2) :
    (q1 - q2) * ((pow10 k : Nat) : Rat) ≤ 1 ∧ (q2 - q1) * ((pow10 k : Nat) : Rat) ≤ 1 := by
  have e1 := decValue_fmtFixedChars k hk n1 q1
  have e2 := decValue_fmtFixedChars k hk n2 q2
  rw [h, e2] at e1
  have hv := Option.some.inj e1
  obtain ⟨a1, a2⟩ := signed_round_close k n1 q1 h1
  obtain ⟨b1, b2⟩ := signed_round_close k n2 q2 h2
  rw [← hv] at a1 a2
  constructor <;> nlinarith

/-- three units of the 8th decimal stay below the merge tolerance (generated constant) -/
theorem three_units_lt_tol2 : (3 : Rat) / (((pow10 8 : Nat) : Rat) * ((pow10 8 : Nat) : Rat)) < C05.tol2 := by
  unfold C05.tol2 C05.tol
  simp only [CBV.Gen.c05TolNum, CBV.Gen.c05TolDen, pow10]
  norm_num

/-- positions whose `vector_format` texts are equal are within the merge tolerance of each other:
    two vertices that are *not* close are never written as the same `(x y z)` -/
theorem vectorTokens_eq_close (p r : V3) (np nr : List Bool)
    (hp : ∀ i, i < 3 → SignOk (np.getD i false) (V3.comp p i))
    (hr : ∀ i, i < 3 → SignOk (nr.getD i false) (V3.comp r i))
    (h : vectorTokens p np = vectorTokens r nr) : C05.closeV3 p r = true := by
  simp only [vectorTokens, vectorFormat, List.map_cons, List.map_nil, List.cons.injEq, and_true, fmtFixed,
    String.ofList_inj] at h
  obtain ⟨h0, h1, h2⟩ := h
  obtain ⟨x1, x2⟩ := fmtFixedChars_separates 8 (by decide) _ _ _ _ (hp 0 (by decide)) (hr 0 (by decide)) h0
  obtain ⟨y1, y2⟩ := fmtFixedChars_separates 8 (by decide) _ _ _ _ (hp 1 (by decide)) (hr 1 (by decide)) h1
  obtain ⟨z1, z2⟩ := fmtFixedChars_separates 8 (by decide) _ _ _ _ (hp 2 (by decide)) (hr 2 (by decide)) h2
  simp only [V3.comp, if_true, if_false, Nat.succ_ne_zero, OfNat.ofNat_ne_zero,
    OfNat.ofNat_ne_one, reduceCtorEq] at x1 x2 y1 y2 z1 z2
  have hP := pow10_cast_pos 8
  have key := three_units_lt_tol2
  unfold C05.closeV3
  apply decide_eq_true
  have hn : V3.norm2 (p - r) = (p.x - r.x) * (p.x - r.x) + (p.y - r.y) * (p.y - r.y) + (p.z - r.z) * (p.z - r.z) := rfl
  rw [hn]
  refine lt_of_le_of_lt ?_ key
  rw [le_div_iff₀ (mul_pos hP hP)]
  have sq : ∀ d : Rat, d * ((pow10 8 : Nat) : Rat) ≤ 1 → -d * ((pow10 8 : Nat) : Rat) ≤ 1 →
      d * d * (((pow10 8 : Nat) : Rat) * ((pow10 8 : Nat) : Rat)) ≤ 1 := by
    intro d a b
    have : (d * ((pow10 8 : Nat) : Rat)) * (d * ((pow10 8 : Nat) : Rat)) ≤ 1 := by nlinarith
    nlinarith
  have sx := sq (p.x - r.x) x1 (by linarith)
  have sy := sq (p.y - r.y) y1 (by linarith)
  have sz := sq (p.z - r.z) z1 (by linarith)
  nlinarith

/-- sign bits of the three coordinates, given one by one -/
theorem signOk_vec (p : V3) (a b c : Bool) (hx : SignOk a p.x) (hy : SignOk b p.y) (hz : SignOk c p.z) :
    ∀ i, i < 3 → SignOk ([a, b, c].getD i false) (V3.comp p i) := by
  intro i hi
  have : i = 0 ∨ i = 1 ∨ i = 2 := by omega
  rcases this with rfl | rfl | rfl
  · exact hx
  · exact hy
  · exact hz

end CBV.C06
