/-
C18 (round 6d) — what is guaranteed for EVERY input with twelve hull triangles, whatever the block and the view (in
particular for blocks whose adjacent sides are less than 60° apart, where `T_C18_returns_relabelling` does not apply):
a run either returns or raises `DegenerateGeometryError`; no other exception class leaves `reorient`.
-/
import CBV.Lemmas.C18Sides

namespace CBV.C18

theorem bestIdxAux_lt (d : V3) (n : Nat) : ∀ (ts : List Tri) (i bi : Nat) (bt : Tri), bi < n → i + ts.length ≤ n →
    bestIdxAux d ts i bi bt < n := by
  intro ts
  induction ts with
  | nil => intro i bi bt hb _; exact hb
  | cons t ts ih =>
    intro i bi bt hb hi
    simp only [List.length_cons] at hi
    unfold bestIdxAux
    split
    · exact ih (i + 1) i t (by omega) (by omega)
    · exact ih (i + 1) bi bt hb (by omega)

theorem bestIdx_lt {d : V3} {l : List Tri} (hl : 0 < l.length) : ∃ i, bestIdx d l = some i ∧ i < l.length := by
  cases l with
  | nil => simp at hl
  | cons t ts =>
    exact ⟨_, rfl, bestIdxAux_lt d (ts.length + 1) ts 1 0 t (by omega) (by omega)⟩

theorem pick2_some {d : V3} {l : List Tri} (hl : 2 ≤ l.length) : ∃ r, pick2 d l = some r := by
  obtain ⟨i, hi, hil⟩ := bestIdx_lt (d := d) (l := l) (by omega)
  have hlen : (l.eraseIdx i).length = l.length - 1 := List.length_eraseIdx_of_lt hil
  obtain ⟨j, hj, hjl⟩ := bestIdx_lt (d := d) (l := l.eraseIdx i) (by omega)
  refine ⟨((l.eraseIdx i)[j], l[i], (l.eraseIdx i).eraseIdx j), ?_⟩
  unfold pick2
  simp only [Option.bind_eq_bind, hi, Option.bind_some, List.getElem?_eq_getElem hil, hj,
    List.getElem?_eq_getElem hjl]

theorem mkQuad_error {t0 t1 : Tri} {e : Err} (h : mkQuad t0 t1 = .error e) : e = .degenerate := by
  unfold mkQuad at h
  split at h
  · cases h; rfl
  · simp only at h
    split at h
    · cases h; rfl
    · split at h
      · cases h; rfl
      · cases h

/-- one pass on a list of `n + 2` triangles: `DegenerateGeometryError`, or a quad and `n` triangles left -/
theorem quadStep_cases (d : V3) (rem : List Tri) (n : Nat) (hlen : rem.length = n + 2) :
    quadStep d rem = .error .degenerate ∨ ∃ q rest, quadStep d rem = .ok (q, rest) ∧ rest.length = n := by
  obtain ⟨⟨b, a, rest⟩, hp⟩ := pick2_some (d := d) (l := rem) (by omega)
  have hl := (pick2_perm hp).length_eq
  simp only [List.length_cons] at hl
  unfold quadStep
  rw [hp]
  simp only
  cases hq : mkQuad b a with
  | error e => left; rw [mkQuad_error hq]
  | ok q => right; exact ⟨q, rest, rfl, by omega⟩

theorem quadsOf_error {tris : List Tri} {d : Dirs} {e : Err} (hlen : tris.length = 12)
    (h : quadsOf tris d = .error e) : e = .degenerate := by
  unfold quadsOf at h
  rcases quadStep_cases d.o tris 10 hlen with h1 | ⟨q1, r1, h1, l1⟩
  · rw [h1] at h; cases h; rfl
  rw [h1] at h
  change (quadStep (-d.o) r1 >>= _) = _ at h
  rcases quadStep_cases (-d.o) r1 8 l1 with h2 | ⟨q2, r2, h2, l2⟩
  · rw [h2] at h; cases h; rfl
  rw [h2] at h
  change (quadStep d.t r2 >>= _) = _ at h
  rcases quadStep_cases d.t r2 6 l2 with h3 | ⟨q3, r3, h3, l3⟩
  · rw [h3] at h; cases h; rfl
  rw [h3] at h
  change (quadStep (-d.t) r3 >>= _) = _ at h
  rcases quadStep_cases (-d.t) r3 4 l3 with h4 | ⟨q4, r4, h4, l4⟩
  · rw [h4] at h; cases h; rfl
  rw [h4] at h
  change (quadStep d.l r4 >>= _) = _ at h
  rcases quadStep_cases d.l r4 2 l4 with h5 | ⟨q5, r5, h5, l5⟩
  · rw [h5] at h; cases h; rfl
  rw [h5] at h
  change (quadStep (-d.l) r5 >>= _) = _ at h
  rcases quadStep_cases (-d.l) r5 0 l5 with h6 | ⟨q6, r6, h6, _⟩
  · rw [h6] at h; cases h; rfl
  rw [h6] at h
  cases h

theorem commonPoint_error {q q1 q2 : List V3} {e : Err} (h : commonPoint q q1 q2 = .error e) : e = .degenerate := by
  unfold commonPoint at h
  simp only at h
  split at h
  · cases h; rfl
  · rename_i hlen
    split at h
    · rename_i heq
      rw [heq] at hlen
      exact absurd hlen (by simp)
    · cases h

theorem cornersOf_error {q : Quads} {e : Err} (h : cornersOf q = .error e) : e = .degenerate := by
  unfold cornersOf at h
  cases h0 : commonPoint q.bottom q.front q.left with
  | error e0 => rw [h0] at h; cases h; exact commonPoint_error h0
  | ok p0 =>
  rw [h0] at h; change (commonPoint q.bottom q.front q.right >>= _) = _ at h
  cases h1 : commonPoint q.bottom q.front q.right with
  | error e1 => rw [h1] at h; cases h; exact commonPoint_error h1
  | ok p1 =>
  rw [h1] at h; change (commonPoint q.bottom q.back q.right >>= _) = _ at h
  cases h2 : commonPoint q.bottom q.back q.right with
  | error e2 => rw [h2] at h; cases h; exact commonPoint_error h2
  | ok p2 =>
  rw [h2] at h; change (commonPoint q.bottom q.back q.left >>= _) = _ at h
  cases h3 : commonPoint q.bottom q.back q.left with
  | error e3 => rw [h3] at h; cases h; exact commonPoint_error h3
  | ok p3 =>
  rw [h3] at h; change (commonPoint q.top q.front q.left >>= _) = _ at h
  cases h4 : commonPoint q.top q.front q.left with
  | error e4 => rw [h4] at h; cases h; exact commonPoint_error h4
  | ok p4 =>
  rw [h4] at h; change (commonPoint q.top q.front q.right >>= _) = _ at h
  cases h5 : commonPoint q.top q.front q.right with
  | error e5 => rw [h5] at h; cases h; exact commonPoint_error h5
  | ok p5 =>
  rw [h5] at h; change (commonPoint q.top q.back q.right >>= _) = _ at h
  cases h6 : commonPoint q.top q.back q.right with
  | error e6 => rw [h6] at h; cases h; exact commonPoint_error h6
  | ok p6 =>
  rw [h6] at h; change (commonPoint q.top q.back q.left >>= _) = _ at h
  cases h7 : commonPoint q.top q.back q.left with
  | error e7 => rw [h7] at h; cases h; exact commonPoint_error h7
  | ok p7 => rw [h7] at h; cases h

/-- every rejection of `reorient` is a `DegenerateGeometryError` (`notConvex` and `degenerate` are the two messages of
    that class) — or the view is undefined (observer at the centre / ceiling on the observer's axis: `nan` in the code) -/
theorem reorient_error {pts : List V3} {sim : List (Nat × Nat × Nat)} {obs ceil : V3} {e : Err}
    (h : reorient pts sim obs ceil = .error e) : e = .notConvex ∨ e = .degenerate ∨
      (e = .badView ∧ ((dirsOf (average pts) obs ceil).o = V3.zero ∨ (dirsOf (average pts) obs ceil).t = V3.zero)) := by
  unfold reorient makeTriangles at h
  split at h
  · rename_i e' hm
    split at hm
    · cases hm; cases h; exact Or.inl rfl
    · cases hm
  · rename_i tris hm
    split at hm
    · cases hm
    · rename_i hlen
      cases hm
      have hl : ((sim.map (triOf pts)).map (fun t => t.orient (average pts))).length = 12 := by
        simp only [List.length_map]; omega
      unfold reorientCore at h
      simp only at h
      split at h
      · rename_i hv
        cases h; exact Or.inr (Or.inr ⟨rfl, hv⟩)
      · split at h
        · rename_i e' hq
          cases h
          exact Or.inr (Or.inl (quadsOf_error hl hq))
        · split at h
          · rename_i e' hc
            cases h
            exact Or.inr (Or.inl (cornersOf_error hc))
          · split at h
            · cases h
            · cases h; exact Or.inr (Or.inl rfl)

end CBV.C18
