/-
C15 — the structured `nx × ny` quad map (`structQuads`), for **every** `nx, ny ≥ 1`:
its border points are boundary junctions of the model's graph, the neighbours of a lattice-interior point
are its four lattice neighbours, hence the map is `LatticeLike` in its lattice coordinates and every
free junction reaches the frame along neighbour links.
-/
import CBV.Lemmas.C15Graph
import CBV.Lemmas.C15Max

namespace CBV.C15
open CBV

/-- addressing of the cell in column `i`, row `j` -/
def cellAt (nx i j : Nat) : List Nat :=
  [j * (nx + 1) + i, j * (nx + 1) + i + 1, (j + 1) * (nx + 1) + i + 1, (j + 1) * (nx + 1) + i]

theorem mem_structQuads (nx ny : Nat) (c : List Nat) :
    c ∈ (structQuads nx ny).cells ↔ ∃ j, j < ny ∧ ∃ i, i < nx ∧ c = cellAt nx i j := by
  unfold structQuads cellAt
  simp only [List.mem_flatMap, List.mem_map, List.mem_range]
  constructor
  · rintro ⟨j, hj, i, hi, rfl⟩; exact ⟨j, hj, i, hi, rfl⟩
  · rintro ⟨j, hj, i, hi, rfl⟩; exact ⟨j, hj, i, hi, rfl⟩

theorem mul_tri (j j' w : Nat) :
    (j = j' ∧ j * w = j' * w) ∨ (j < j' ∧ j * w + w ≤ j' * w) ∨ (j' < j ∧ j' * w + w ≤ j * w) := by
  rcases Nat.lt_trichotomy j j' with h | h | h
  · right; left; refine ⟨h, ?_⟩
    have := Nat.mul_le_mul_right w (Nat.succ_le_of_lt h)
    rw [Nat.succ_mul] at this; exact this
  · left; exact ⟨h, by rw [h]⟩
  · right; right; refine ⟨h, ?_⟩
    have := Nat.mul_le_mul_right w (Nat.succ_le_of_lt h)
    rw [Nat.succ_mul] at this; exact this

theorem quadSide_eq (s : Nat) (side : List Nat) (h : quadKind.sideIdx[s]? = some side) :
    (s = 0 ∧ side = [0, 1]) ∨ (s = 1 ∧ side = [1, 2]) ∨ (s = 2 ∧ side = [2, 3]) ∨ (s = 3 ∧ side = [3, 0]) := by
  have hlt : s < 4 := by
    by_contra hc
    rw [List.getElem?_eq_none (by simp [quadKind, CBV.Gen.quadSideIdx]; omega)] at h; simp at h
  have : s = 0 ∨ s = 1 ∨ s = 2 ∨ s = 3 := by omega
  rcases this with rfl | rfl | rfl | rfl <;>
    simp [quadKind, CBV.Gen.quadSideIdx] at h <;> simp [h]

/-- a side of a cell on the rim of the map is shared with no cell of the map -/
theorem border_side_no_nbr (nx ny i j s : Nat) (hi : i < nx) (_hj : j < ny)
    (hs : (s = 0 ∧ j = 0) ∨ (s = 1 ∧ i + 1 = nx) ∨ (s = 2 ∧ j + 1 = ny) ∨ (s = 3 ∧ i = 0))
    (c2 : List Nat) (hc2 : c2 ∈ (structQuads nx ny).cells) :
    commonSide quadKind (cellAt nx i j) c2 ≠ some s := by
  intro h
  obtain ⟨_, side, hside, h1, h2⟩ := commonSide_some _ _ _ _ h
  obtain ⟨j', _, i', hi', rfl⟩ := (mem_structQuads nx ny c2).mp hc2
  have tri := mul_tri j j' (nx + 1)
  have e0 := h2 ((cellAt nx i j).getD 0 0) (by simp [cellAt])
  have e1 := h2 ((cellAt nx i j).getD 1 0) (by simp [cellAt])
  have e2 := h2 ((cellAt nx i j).getD 2 0) (by simp [cellAt])
  have e3 := h2 ((cellAt nx i j).getD 3 0) (by simp [cellAt])
  rcases quadSide_eq s side hside with ⟨rfl, rfl⟩ | ⟨rfl, rfl⟩ | ⟨rfl, rfl⟩ | ⟨rfl, rfl⟩
  all_goals
    have a := h1
    simp only [List.mem_cons, List.not_mem_nil, or_false, forall_eq_or_imp, forall_eq, cellAt,
      List.getD_cons_zero, List.getD_cons_succ, Nat.add_mul, Nat.one_mul] at a e0 e1 e2 e3
    simp only [exists_eq_or_imp, exists_eq_left, List.getD_cons_zero, List.getD_cons_succ] at e0 e1 e2 e3
    omega

theorem getD_of_getElem? (l : List (List Nat)) (ci : Nat) (c : List Nat) (h : l[ci]? = some c) :
    l.getD ci [] = c := by
  simp [List.getD_eq_getElem?_getD, h]

/-- a corner of a rim side of a cell is a boundary junction of the model's graph -/
theorem isBoundary_of_side (nx ny i j s u q : Nat) (hi : i < nx) (hj : j < ny)
    (hs : (s = 0 ∧ j = 0) ∨ (s = 1 ∧ i + 1 = nx) ∨ (s = 2 ∧ j + 1 = ny) ∨ (s = 3 ∧ i = 0))
    (side : List Nat) (hside : quadKind.sideIdx[s]? = some side) (hu : u ∈ side)
    (hq : (cellAt nx i j).getD u 0 = q) (hqc : q ∈ cellAt nx i j) :
    isBoundary (structQuads nx ny) q = true := by
  rw [isBoundary_iff]
  have hmem : cellAt nx i j ∈ (structQuads nx ny).cells :=
    (mem_structQuads nx ny _).mpr ⟨j, hj, i, hi, rfl⟩
  obtain ⟨ci, hci⟩ := List.mem_iff_getElem?.mp hmem
  refine ⟨ci, cellAt nx i j, hci, hqc, (mem_cellBoundary _ ci q).mpr ⟨s, side, hside, ?_, u, hu, ?_⟩⟩
  · rw [cellNbrs_none_iff]
    refine ⟨?_, fun cj hlt _ => ?_⟩
    · by_contra hc
      have hc' : quadKind.sideIdx.length ≤ s := Nat.le_of_not_lt hc
      rw [List.getElem?_eq_none hc'] at hside; simp at hside
    · rw [getD_of_getElem? _ ci _ hci]
      apply border_side_no_nbr nx ny i j s hi hj hs
      rw [List.getD_eq_getElem?_getD, List.getElem?_eq_getElem hlt]
      exact List.getElem_mem hlt
  · rw [getD_of_getElem? _ ci _ hci]; exact hq

/-- every point on the rim of the lattice is a boundary junction (for all sizes `≥ 1 × 1`) -/
theorem border_isBoundary (nx ny x y : Nat) (h1 : 1 ≤ nx) (h2 : 1 ≤ ny) (hx : x ≤ nx) (hy : y ≤ ny)
    (hb : x = 0 ∨ x = nx ∨ y = 0 ∨ y = ny) :
    isBoundary (structQuads nx ny) (y * (nx + 1) + x) = true := by
  obtain ⟨nx, rfl⟩ : ∃ k, nx = k + 1 := ⟨nx - 1, by omega⟩
  obtain ⟨ny, rfl⟩ : ∃ k, ny = k + 1 := ⟨ny - 1, by omega⟩
  have s0 : quadKind.sideIdx[0]? = some [0, 1] := by decide
  have s1 : quadKind.sideIdx[1]? = some [1, 2] := by decide
  have s2 : quadKind.sideIdx[2]? = some [2, 3] := by decide
  have s3 : quadKind.sideIdx[3]? = some [3, 0] := by decide
  by_cases hxl : x < nx + 1 <;> by_cases hyl : y < ny + 1
  · -- a point with a cell to its upper right: cell (x, y), corner 0
    rcases hb with rfl | hb | rfl | hb
    · exact isBoundary_of_side _ _ 0 y 3 0 _ (by omega) hyl (by simp) _ s3 (by simp) (by simp [cellAt])
        (by simp [cellAt])
    · omega
    · exact isBoundary_of_side _ _ x 0 0 0 _ hxl (by omega) (by simp) _ s0 (by simp) (by simp [cellAt])
        (by simp [cellAt])
    · omega
  · -- top row, not the last column: cell (x, ny), corner 3
    have hy' : y = ny + 1 := by omega
    subst hy'
    exact isBoundary_of_side _ _ x ny 2 3 _ hxl (by omega) (by simp) _ s2 (by simp) (by simp [cellAt])
      (by simp [cellAt])
  · -- last column, not the top row: cell (nx, y), corner 1
    have hx' : x = nx + 1 := by omega
    subst hx'
    exact isBoundary_of_side _ _ nx y 1 1 _ (by omega) hyl (by simp) _ s1 (by simp)
      (by simp [cellAt]; omega) (by simp [cellAt]; omega)
  · -- the upper right corner: cell (nx, ny), corner 2
    have hx' : x = nx + 1 := by omega
    have hy' : y = ny + 1 := by omega
    subst hx' hy'
    exact isBoundary_of_side _ _ nx ny 1 2 _ (by omega) (by omega) (by simp) _ s1 (by simp)
      (by simp [cellAt]; omega) (by simp [cellAt]; omega)

/-- an inner junction of the map is a lattice-interior point -/
theorem inner_interior (nx ny q : Nat) (h1 : 1 ≤ nx) (h2 : 1 ≤ ny) (hq : q ∈ inner (structQuads nx ny)) :
    ∃ x y, q = (y + 1) * (nx + 1) + (x + 1) ∧ x + 2 ≤ nx ∧ y + 2 ≤ ny := by
  obtain ⟨hlt, hb⟩ := (mem_inner _ q).mp hq
  have hn : (structQuads nx ny).n = (nx + 1) * (ny + 1) := rfl
  rw [hn] at hlt
  have hY : q / (nx + 1) < ny + 1 := Nat.div_lt_of_lt_mul hlt
  have hX : q % (nx + 1) < nx + 1 := Nat.mod_lt _ (by omega)
  have hdm : q / (nx + 1) * (nx + 1) + q % (nx + 1) = q := by
    rw [Nat.mul_comm]; exact Nat.div_add_mod q (nx + 1)
  have hnb : ¬ (q % (nx + 1) = 0 ∨ q % (nx + 1) = nx ∨ q / (nx + 1) = 0 ∨ q / (nx + 1) = ny) := by
    intro hbd
    have := border_isBoundary nx ny (q % (nx + 1)) (q / (nx + 1)) h1 h2 (Nat.lt_succ_iff.mp hX)
      (Nat.lt_succ_iff.mp hY) hbd
    rw [hdm, hb] at this; exact Bool.noConfusion this
  generalize q % (nx + 1) = X at hX hdm hnb
  generalize q / (nx + 1) = Y at hY hdm hnb
  refine ⟨X - 1, Y - 1, ?_, by omega, by omega⟩
  have e1 : Y - 1 + 1 = Y := by omega
  have e2 : X - 1 + 1 = X := by omega
  rw [e1, e2, hdm]

/-- the neighbours of a lattice-interior point are its four lattice neighbours, in ascending order -/
theorem interior_nbrs (nx ny x y : Nat) (hx : x + 2 ≤ nx) (hy : y + 2 ≤ ny) :
    junctionNbrs (structQuads nx ny) ((y + 1) * (nx + 1) + (x + 1)) =
      [y * (nx + 1) + (x + 1), (y + 1) * (nx + 1) + x, (y + 1) * (nx + 1) + (x + 2),
       (y + 2) * (nx + 1) + (x + 1)] := by
  have hk : (structQuads nx ny).kind = quadKind := rfl
  have hn : (structQuads nx ny).n = (ny + 1) * (nx + 1) := by
    show (nx + 1) * (ny + 1) = _; exact Nat.mul_comm _ _
  have hN : (y + 2) * (nx + 1) + (nx + 1) ≤ (ny + 1) * (nx + 1) := by
    have := Nat.mul_le_mul_right (nx + 1) (show y + 2 + 1 ≤ ny + 1 by omega)
    rw [Nat.add_mul (y + 2) 1, Nat.one_mul] at this; exact this
  apply List.Perm.eq_of_pairwise (le := (· < ·))
  · intro a b _ _ hab hba; omega
  · exact junctionNbrs_sorted _ _
  · simp only [List.pairwise_cons, List.mem_cons, List.not_mem_nil, or_false, forall_eq_or_imp, forall_eq,
      List.Pairwise.nil, and_true, IsEmpty.forall_iff, implies_true, Nat.add_mul, Nat.one_mul]
    omega
  · rw [List.perm_ext_iff_of_nodup]
    · intro t
      rw [mem_junctionNbrs, hk, hn]
      constructor
      · rintro ⟨_, _, cell, hc, _, e, he, h⟩
        obtain ⟨j, _, i, _, rfl⟩ := (mem_structQuads nx ny cell).mp hc
        have he' : e = (0, 1) ∨ e = (1, 2) ∨ e = (2, 3) ∨ e = (3, 0) := by
          simpa [quadKind, CBV.Gen.quadEdgePairs] using he
        rcases he' with rfl | rfl | rfl | rfl <;>
          simp only [cellAt, List.getD_cons_zero, List.getD_cons_succ, Nat.add_mul, Nat.one_mul] at h <;>
          simp only [List.mem_cons, List.not_mem_nil, or_false, Nat.add_mul, Nat.one_mul] <;> omega
      · intro ht
        simp only [List.mem_cons, List.not_mem_nil, or_false] at ht
        simp only [Nat.add_mul, Nat.one_mul] at hN
        rcases ht with rfl | rfl | rfl | rfl
        · -- below: cell (x+1, y), edge (3, 0)
          refine ⟨by simp only [Nat.add_mul, Nat.one_mul]; omega,
            by simp only [Nat.add_mul, Nat.one_mul]; omega, cellAt nx (x + 1) y,
            (mem_structQuads nx ny _).mpr ⟨y, by omega, x + 1, by omega, rfl⟩, (by simp [cellAt]; try omega), (3, 0),
            by simp [quadKind, CBV.Gen.quadEdgePairs], Or.inl ⟨(by simp [cellAt]; try omega), (by simp [cellAt]; try omega)⟩⟩
        · -- left: cell (x, y+1), edge (0, 1)
          refine ⟨by simp only [Nat.add_mul, Nat.one_mul]; omega,
            by simp only [Nat.add_mul, Nat.one_mul]; omega, cellAt nx x (y + 1),
            (mem_structQuads nx ny _).mpr ⟨y + 1, by omega, x, by omega, rfl⟩, (by simp [cellAt]; try omega), (0, 1),
            by simp [quadKind, CBV.Gen.quadEdgePairs], Or.inr ⟨(by simp [cellAt]; try omega), (by simp [cellAt]; try omega)⟩⟩
        · -- right: cell (x+1, y+1), edge (0, 1)
          refine ⟨by simp only [Nat.add_mul, Nat.one_mul]; omega,
            by simp only [Nat.add_mul, Nat.one_mul]; omega, cellAt nx (x + 1) (y + 1),
            (mem_structQuads nx ny _).mpr ⟨y + 1, by omega, x + 1, by omega, rfl⟩, (by simp [cellAt]; try omega), (0, 1),
            by simp [quadKind, CBV.Gen.quadEdgePairs], Or.inl ⟨(by simp [cellAt]; try omega), (by simp [cellAt]; try omega)⟩⟩
        · -- above: cell (x+1, y+1), edge (3, 0)
          refine ⟨by simp only [Nat.add_mul, Nat.one_mul]; omega,
            by simp only [Nat.add_mul, Nat.one_mul]; omega, cellAt nx (x + 1) (y + 1),
            (mem_structQuads nx ny _).mpr ⟨y + 1, by omega, x + 1, by omega, rfl⟩, (by simp [cellAt]; try omega), (3, 0),
            by simp [quadKind, CBV.Gen.quadEdgePairs],
            Or.inr ⟨(by simp [cellAt, Nat.add_mul]; try omega), (by simp [cellAt]; try omega)⟩⟩
    · exact (junctionNbrs_sorted _ _).imp (fun h => Nat.ne_of_lt h)
    · simp only [List.nodup_cons, List.mem_cons, List.not_mem_nil, or_false, not_or, List.nodup_nil, and_true,
        not_false_eq_true, Nat.add_mul, Nat.one_mul]
      omega

theorem quadCoord_eq (nx x y : Nat) (hx : x ≤ nx) : quadCoord nx (y * (nx + 1) + x) = ⟨(x : Nat), (y : Nat), 0⟩ := by
  unfold quadCoord
  have h1 : (y * (nx + 1) + x) % (nx + 1) = x := by
    rw [Nat.add_comm, Nat.add_mul_mod_self_right]; exact Nat.mod_eq_of_lt (by omega)
  have h2 : (y * (nx + 1) + x) / (nx + 1) = y := by
    rw [Nat.add_comm, Nat.add_mul_div_right _ _ (by omega), Nat.div_eq_of_lt (by omega)]; omega
  rw [h1, h2]

/-- **the lattice hypothesis for all sizes**: the structured `nx × ny` map is lattice-like in its lattice
    coordinates, whatever is fixed -/
theorem structQuads_latticeLike (nx ny : Nat) (h1 : 1 ≤ nx) (h2 : 1 ≤ ny) (fixed : List Nat) :
    LatticeLike (structQuads nx ny) fixed (quadCoord nx) := by
  intro q hq _
  obtain ⟨x, y, rfl, hx, hy⟩ := inner_interior nx ny q h1 h2 hq
  rw [interior_nbrs nx ny x y hx hy]
  refine ⟨by simp, ?_⟩
  simp only [List.map_cons, List.map_nil, List.length_cons, List.length_nil]
  rw [quadCoord_eq nx (x + 1) y (by omega), quadCoord_eq nx x (y + 1) (by omega),
    quadCoord_eq nx (x + 2) (y + 1) (by omega), quadCoord_eq nx (x + 1) (y + 2) (by omega),
    quadCoord_eq nx (x + 1) (y + 1) (by omega)]
  apply V3.ext' <;> simp [vsum, V3.zero] <;> ring

/-- in the structured map every junction reaches a non-free junction along neighbour links (walk to the left) -/
theorem structQuads_reach (nx ny : Nat) (h1 : 1 ≤ nx) (h2 : 1 ≤ ny) (fixed : List Nat) (q : Nat) :
    Reach (junctionNbrs (structQuads nx ny)) (fun j => j ∈ inner (structQuads nx ny) ∧ j ∉ fixed) q := by
  -- induction on the column of `q`
  suffices H : ∀ c q, q % (nx + 1) = c →
      Reach (junctionNbrs (structQuads nx ny)) (fun j => j ∈ inner (structQuads nx ny) ∧ j ∉ fixed) q from
    H _ q rfl
  intro c
  induction c with
  | zero =>
    intro q hc
    apply Reach.base
    rintro ⟨hq, _⟩
    obtain ⟨x, y, rfl, _, _⟩ := inner_interior nx ny q h1 h2 hq
    rw [Nat.add_comm, Nat.add_mul_mod_self_right, Nat.mod_eq_of_lt (by omega)] at hc
    omega
  | succ c ih =>
    intro q hc
    by_cases hf : q ∈ inner (structQuads nx ny) ∧ q ∉ fixed
    · obtain ⟨x, y, rfl, hx, hy⟩ := inner_interior nx ny q h1 h2 hf.1
      rw [Nat.add_comm, Nat.add_mul_mod_self_right, Nat.mod_eq_of_lt (by omega)] at hc
      apply Reach.step _ ((y + 1) * (nx + 1) + x)
      · rw [interior_nbrs nx ny x y hx hy]; simp
      · apply ih
        rw [Nat.add_comm, Nat.add_mul_mod_self_right, Nat.mod_eq_of_lt (by omega)]
        omega
    · exact Reach.base _ hf

end CBV.C15
