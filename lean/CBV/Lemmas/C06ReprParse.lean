/-
C06 — reading the fixed-notation layouts of `repr(float)` back: `floatValue` of `digits.digits`.
-/
import CBV.Lemmas.C06ReprGen

namespace CBV.C06

theorem takeWhile_all {p : Char → Bool} (l : List Char) (h : ∀ c ∈ l, p c = true) : l.takeWhile p = l := by
  induction l with
  | nil => rfl
  | cons a l ih =>
    simp only [List.takeWhile, h a List.mem_cons_self]
    rw [ih (fun c hc => h c (List.mem_cons_of_mem _ hc))]

theorem dropWhile_all {p : Char → Bool} (l : List Char) (h : ∀ c ∈ l, p c = true) : l.dropWhile p = [] := by
  induction l with
  | nil => rfl
  | cons a l ih =>
    simp only [List.dropWhile, h a List.mem_cons_self]
    exact ih (fun c hc => h c (List.mem_cons_of_mem _ hc))

theorem head_digit_ne_minus (ip r : List Char) (hne : ip ≠ []) (hd : ∀ c ∈ ip, c.isDigit = true) :
    ((ip ++ r).head? == some '-') = false := by
  cases ip with
  | nil => exact absurd rfl hne
  | cons a l =>
    have ha := hd a List.mem_cons_self
    simp only [List.cons_append, List.head?_cons]
    by_cases h : a = '-'
    · subst h; exact absurd ha (by decide)
    · simpa using h

/-- the value of an unsigned fixed-notation token `ip.fp` -/
theorem floatValue_fixed (ip fp : List Char) (hi : ip ≠ []) (hf : fp ≠ [])
    (hid : ∀ c ∈ ip, c.isDigit = true) (hfd : ∀ c ∈ fp, c.isDigit = true) :
    floatValue (ip ++ '.' :: fp) =
      some (((Nat.ofDigitChars 10 ip 0 : Nat) : Rat) +
        ((Nat.ofDigitChars 10 fp 0 : Nat) : Rat) / ((pow10 fp.length : Nat) : Rat)) := by
  have hneg := head_digit_ne_minus ip ('.' :: fp) hi hid
  have hdot : Char.isDigit '.' = false := by decide
  have hT := takeWhile_append_stop (p := Char.isDigit) ip '.' fp hid hdot
  have hD := dropWhile_append_stop (p := Char.isDigit) ip '.' fp hid hdot
  have hfT := takeWhile_all (p := Char.isDigit) fp hfd
  have hfD := dropWhile_all (p := Char.isDigit) fp hfd
  have hie : ip.isEmpty = false := by cases ip <;> simp_all
  have hfe : fp.isEmpty = false := by cases fp <;> simp_all
  unfold floatValue
  simp only [hneg, Bool.false_eq_true, if_false, hT, hD, hfT, hfD, hie, hfe, Bool.not_false, Bool.not_true,
    Bool.or_self, one_mul]

theorem pow10R_nat (k : Nat) : pow10R (k : Int) = ((pow10 k : Nat) : Rat) := by
  unfold pow10R
  simp

theorem pow10R_neg (k : Nat) (hk : 0 < k) : pow10R (-(k : Int)) = 1 / ((pow10 k : Nat) : Rat) := by
  unfold pow10R
  have h : ¬ (0 : Int) ≤ -(k : Int) := by omega
  simp only [h, if_false, neg_neg, Int.toNat_natCast]

theorem pow10_cast_ne (k : Nat) : ((pow10 k : Nat) : Rat) ≠ 0 := by exact_mod_cast (pow10_pos k).ne'

theorem pow10_add (a b : Nat) : pow10 (a + b) = pow10 a * pow10 b := by
  rw [pow10_eq, pow10_eq, pow10_eq, Nat.pow_add]

/-- **the fixed-notation layouts read back**: for digits `ds` (value `M`, `n` of them) and a decimal point position
    `-4 < dp ≤ 16`, the text `reprLayout ds dp` denotes `M · 10^(dp − n)` -/
theorem floatValue_reprLayout_fixed (ds : List Char) (dp : Int) (hne : ds ≠ []) (hd : ∀ c ∈ ds, c.isDigit = true)
    (h1 : -4 < dp) (h2 : dp ≤ 16) :
    floatValue (reprLayout ds dp) =
      some (((Nat.ofDigitChars 10 ds 0 : Nat) : Rat) * pow10R (dp - (ds.length : Int))) := by
  have hn : 0 < ds.length := List.length_pos_iff.mpr hne
  unfold reprLayout
  simp only [h1, h2, and_self, if_true]
  by_cases hA : dp ≤ 0
  · -- 0.000ddd
    simp only [hA, if_true]
    have hfp : ∀ c ∈ List.replicate (-dp).toNat '0' ++ ds, c.isDigit = true := by
      intro c hc
      rcases List.mem_append.mp hc with hc | hc
      · rw [List.mem_replicate] at hc; rw [hc.2]; decide
      · exact hd c hc
    have := floatValue_fixed ['0'] (List.replicate (-dp).toNat '0' ++ ds) (by simp) (by simp [hne])
      (by intro c hc; simp at hc; rw [hc]; decide) hfp
    simp only [List.singleton_append] at this
    rw [this]
    have he : dp - (ds.length : Int) = -(((-dp).toNat + ds.length : Nat) : Int) := by omega
    rw [he, pow10R_neg _ (by omega)]
    simp only [Nat.ofDigitChars_append, Nat.ofDigitChars_replicate_zero, List.length_append, List.length_replicate,
      Nat.ofDigitChars_cons, Nat.ofDigitChars_nil]
    simp
    ring
  · simp only [hA, if_false]
    have hpos : 0 < dp := by omega
    by_cases hB : ds.length ≤ dp.toNat
    · -- ddd000.0
      simp only [hB, if_true]
      have hip : ∀ c ∈ ds ++ List.replicate (dp.toNat - ds.length) '0', c.isDigit = true := by
        intro c hc
        rcases List.mem_append.mp hc with hc | hc
        · exact hd c hc
        · rw [List.mem_replicate] at hc; rw [hc.2]; decide
      have := floatValue_fixed (ds ++ List.replicate (dp.toNat - ds.length) '0') ['0'] (by simp [hne]) (by simp)
        hip (by intro c hc; simp at hc; rw [hc]; decide)
      simp only [List.append_assoc] at this ⊢
      rw [this]
      have he : dp - (ds.length : Int) = ((dp.toNat - ds.length : Nat) : Int) := by omega
      rw [he, pow10R_nat]
      simp only [Nat.ofDigitChars_append, Nat.ofDigitChars_replicate_zero, Nat.ofDigitChars_cons, Nat.ofDigitChars_nil,
        pow10_eq]
      simp
      ring
    · -- dd.ddd
      simp only [hB, if_false]
      have hlt : dp.toNat < ds.length := by omega
      have htake : ds.take dp.toNat ≠ [] := by
        intro h
        have := congrArg List.length h
        simp only [List.length_take, List.length_nil] at this
        omega
      have hdrop : ds.drop dp.toNat ≠ [] := by
        intro h
        have := congrArg List.length h
        simp only [List.length_drop, List.length_nil] at this
        omega
      have := floatValue_fixed (ds.take dp.toNat) (ds.drop dp.toNat) htake hdrop
        (fun c hc => hd c (List.mem_of_mem_take hc)) (fun c hc => hd c (List.mem_of_mem_drop hc))
      rw [this]
      have he : dp - (ds.length : Int) = -((ds.length - dp.toNat : Nat) : Int) := by omega
      rw [he, pow10R_neg _ (by omega)]
      have hsplit : Nat.ofDigitChars 10 ds 0 =
          10 ^ (ds.drop dp.toNat).length * Nat.ofDigitChars 10 (ds.take dp.toNat) 0 +
            Nat.ofDigitChars 10 (ds.drop dp.toNat) 0 := by
        conv_lhs => rw [← List.take_append_drop dp.toNat ds]
        rw [Nat.ofDigitChars_append, Nat.ofDigitChars_eq_ofDigitChars_zero]
      rw [hsplit, List.length_drop, pow10_eq]
      have hp : ((10 ^ (ds.length - dp.toNat) : Nat) : Rat) ≠ 0 := by positivity
      push_cast
      field_simp

/-- the fixed-notation layout begins with a digit -/
theorem reprLayout_fixed_head (ds : List Char) (dp : Int) (hne : ds ≠ []) (hd : ∀ c ∈ ds, c.isDigit = true)
    (h1 : -4 < dp) (h2 : dp ≤ 16) : ((reprLayout ds dp).head? == some '-') = false := by
  unfold reprLayout
  simp only [h1, h2, and_self, if_true]
  by_cases hA : dp ≤ 0
  · simp only [hA, if_true, List.head?_cons]; decide
  · simp only [hA, if_false]
    by_cases hB : ds.length ≤ dp.toNat
    · simp only [hB, if_true, List.append_assoc]
      exact head_digit_ne_minus ds _ hne hd
    · simp only [hB, if_false]
      have htake : ds.take dp.toNat ≠ [] := by
        intro h
        have := congrArg List.length h
        simp only [List.length_take, List.length_nil] at this
        omega
      exact head_digit_ne_minus _ _ htake (fun c hc => hd c (List.mem_of_mem_take hc))

/-- **the generator's text is accepted (fixed notation, positive doubles)**: if the digit search finds a candidate and the decimal
    point position is in Python's fixed-notation range, `reprOk` accepts what `pyReprChars` prints -/
theorem reprOk_pyReprChars_fixed (x : Rat) (hx : 0 < x) (m : Nat) (e : Int)
    (h : shortestFrom x (absR x) (decPoint (absR x)) 17 1 = some (m, e))
    (h1 : -4 < ((Nat.toDigits 10 (stripZeros 20 m e).1).length : Int) + (stripZeros 20 m e).2)
    (h2 : ((Nat.toDigits 10 (stripZeros 20 m e).1).length : Int) + (stripZeros 20 m e).2 ≤ 16) :
    reprOk false x (pyReprChars false x) = true := by
  have hx0 : x ≠ 0 := ne_of_gt hx
  have habs : absR x = x := by unfold absR; simp [not_lt.mpr hx.le]
  have hchars : pyReprChars false x =
      reprLayout (Nat.toDigits 10 (stripZeros 20 m e).1)
        (((Nat.toDigits 10 (stripZeros 20 m e).1).length : Int) + (stripZeros 20 m e).2) := by
    unfold pyReprChars
    simp only [Bool.false_eq_true, if_false, hx0, List.nil_append, h]
  have hds : ∀ c ∈ Nat.toDigits 10 (stripZeros 20 m e).1, c.isDigit = true := digits_isDigit _
  have hval := floatValue_reprLayout_fixed _ _ Nat.toDigits_ne_nil hds h1 h2
  have hhead := reprLayout_fixed_head _ _ Nat.toDigits_ne_nil hds h1 h2
  have hq : ((Nat.ofDigitChars 10 (Nat.toDigits 10 (stripZeros 20 m e).1) 0 : Nat) : Rat) *
      pow10R (((Nat.toDigits 10 (stripZeros 20 m e).1).length : Int) + (stripZeros 20 m e).2 -
        ((Nat.toDigits 10 (stripZeros 20 m e).1).length : Int)) =
      ((m : Nat) : Rat) * pow10R e := by
    rw [Nat.ofDigitChars_ten_toDigits, add_sub_cancel_left]
    exact stripZeros_value 20 m e
  have hin := shortestFrom_sound x (absR x) _ 17 1 m e h
  rw [habs] at hin
  unfold reprOk
  rw [hchars, hval, hq]
  simp only [hhead, hx0, if_false, hin, Bool.and_true]
  rfl

end CBV.C06
