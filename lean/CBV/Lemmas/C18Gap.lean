/-
C18 (round 6f) — the rim / non-rim separation of the fan disk classes, so that the gap hypothesis of the finder's
stability theorem is discharged for them: every non-rim position of `diskPts` is at squared distance ≤ ρ²·r² from the
centre (ρ = the larger of core ratio and diagonal ratio, < 1), every rim position at r², hence they are at least (1 − ρ)·r
apart; and a stability theorem whose gap is asked per vertex only.
-/
import CBV.Lemmas.C18Stable

namespace CBV.C18
open CBV.C11 (P3 DiskCls diskPts diskL DiskOK frame)
open CBV.C11.P3
open CBV.C19 (rimStart nPositions)

variable {K : Type} [Field K] [LinearOrder K] [IsStrictOrderedRing K]

/-- local (unit-disk) coordinates of the non-rim positions: in the plane and within the radius `ρ` -/
theorem nonrim_local (cl : DiskCls) (h k dg ρ : K) (hok : DiskOK cl h k dg) (hh : h * h + h * h = 1)
    (hdρ : dg ≤ ρ) (hkρ : cl ≠ .oneCore → k ≤ ρ) (i : Nat) (hi : i < rimStart cl) :
    ((diskL cl h k dg).getD i ⟨0, 0, 0⟩).z = 0 ∧
    ((diskL cl h k dg).getD i ⟨0, 0, 0⟩).x * ((diskL cl h k dg).getD i ⟨0, 0, 0⟩).x +
      ((diskL cl h k dg).getD i ⟨0, 0, 0⟩).y * ((diskL cl h k dg).getD i ⟨0, 0, 0⟩).y ≤ ρ * ρ := by
  cases cl
  · have hd0 : 0 < dg := hok.1
    have hdd : dg * dg ≤ ρ * ρ := mul_self_le_mul_self hd0.le hdρ
    have hs : rimStart .oneCore = 4 := by decide
    rw [hs] at hi; rw [CBV.C11.diskL_oneCore]
    interval_cases i <;> refine ⟨rfl, ?_⟩ <;> simp only [List.getD_cons_zero, List.getD_cons_succ] <;> linarith [hdd]
  all_goals
    obtain ⟨hk0, hk1, hd0, hd1⟩ := CBV.C19.diskOK_bounds _ h k dg hok (by decide)
    have hkρ' : k ≤ ρ := hkρ (by decide)
    have hdd : dg * dg ≤ ρ * ρ := mul_self_le_mul_self hd0.le hdρ
    have hkk : k * k ≤ ρ * ρ := mul_self_le_mul_self hk0.le hkρ'
    have hdiag : dg * h * (dg * h) + dg * h * (dg * h) = dg * dg := by linear_combination (dg * dg) * hh
    have hρ : 0 ≤ ρ * ρ := mul_self_nonneg ρ
  · have hs : rimStart .quarter = 4 := by decide
    rw [hs] at hi; rw [CBV.C11.diskL_quarter]
    interval_cases i <;> refine ⟨rfl, ?_⟩ <;> simp only [List.getD_cons_zero, List.getD_cons_succ] <;>
      linarith [hdd, hkk, hdiag, hρ]
  · have hs : rimStart .half = 6 := by decide
    rw [hs] at hi; rw [CBV.C11.diskL_half]
    interval_cases i <;> refine ⟨rfl, ?_⟩ <;> simp only [List.getD_cons_zero, List.getD_cons_succ] <;>
      linarith [hdd, hkk, hdiag, hρ]
  · have hs : rimStart .fourCore = 9 := by decide
    rw [hs] at hi; rw [CBV.C11.diskL_fourCore]
    interval_cases i <;> refine ⟨rfl, ?_⟩ <;> simp only [List.getD_cons_zero, List.getD_cons_succ] <;>
      linarith [hdd, hkk, hdiag, hρ]

/-- **Radial bound.**  In every placement a non-rim position of the sketch is at squared distance ≤ ρ²·r² from the centre -/
theorem nonrim_radial (cl : DiskCls) (c rp u : P3 K) (h k dg ρ : K) (hok : DiskOK cl h k dg) (hh : h * h + h * h = 1)
    (hu : nsq u = 1) (hp : dot u (sub rp c) = 0) (hdρ : dg ≤ ρ) (hkρ : cl ≠ .oneCore → k ≤ ρ)
    (i : Nat) (hi : i < rimStart cl) :
    nsq (sub ((diskPts cl c rp u h k dg).getD i c) c) ≤ ρ * ρ * nsq (sub rp c) := by
  obtain ⟨hz, hb⟩ := nonrim_local cl h k dg ρ hok hh hdρ hkρ i hi
  rw [CBV.C11.diskPts_frame cl c rp u h k dg hp, CBV.C11.getD_map_frame, CBV.C11.nsq_frame _ _ _ _ hu hp, hz]
  have h0 := nsqK_nonneg (sub rp c)
  have h1 := mul_le_mul_of_nonneg_right hb h0
  have e : (0 : K) * 0 = 0 := mul_zero 0
  rw [e, add_zero]
  exact h1

/-- a point on the circle of radius `R` and a point within `ρ·R` of the centre are at least `(1 − ρ)·R` apart -/
theorem circle_inner_far {p q c : P3 K} {R ρ : K} (hR : 0 ≤ R) (hρ0 : 0 ≤ ρ) (hρ1 : ρ ≤ 1)
    (hp : nsq (sub p c) = R * R) (hq : nsq (sub q c) ≤ ρ * R * (ρ * R)) :
    (1 - ρ) * R * ((1 - ρ) * R) ≤ nsq (sub p q) := by
  by_contra hlt
  have hlt := not_le.mp hlt
  have h1 := nsq_add_lt (mul_nonneg hρ0 hR) (mul_nonneg (by linarith) hR) hq hlt
  have he : nsq (add (sub q c) (sub p q)) = nsq (sub p c) := by simp only [nsq, dot, add, sub]; ring
  rw [he, hp] at h1
  have : (ρ * R + (1 - ρ) * R) * (ρ * R + (1 - ρ) * R) = R * R := by ring
  linarith

/-- **The gap of the disk classes.**  `R` the radius (`R² = |rp − c|²`), `ρ < 1` an upper bound of the class's ratios: if
    `t + 2δ ≤ (1 − ρ)·R` then no non-rim position is within `t + 2δ` of a rim position, nor the other way round -/
theorem disk_gap (cl : DiskCls) (c rp u : P3 K) (h k dg ρ R t δ : K) (hok : DiskOK cl h k dg)
    (hh : h * h + h * h = 1) (hu : nsq u = 1) (hp : dot u (sub rp c) = 0) (hR : 0 < R) (hRR : nsq (sub rp c) = R * R)
    (hdρ : dg ≤ ρ) (hkρ : cl ≠ .oneCore → k ≤ ρ) (hρ1 : ρ ≤ 1) (htδ : 0 ≤ t + 2 * δ) (hgap : t + 2 * δ ≤ (1 - ρ) * R)
    (i j : Nat) (hi : i < rimStart cl) (hj : rimStart cl ≤ j) (hjn : j < nPositions cl) :
    ¬ nearK (t + 2 * δ) ((diskPts cl c rp u h k dg).getD i c) ((diskPts cl c rp u h k dg).getD j c) ∧
    ¬ nearK (t + 2 * δ) ((diskPts cl c rp u h k dg).getD j c) ((diskPts cl c rp u h k dg).getD i c) := by
  have hd0 : 0 < dg := by
    cases cl with
    | oneCore => exact hok.1
    | quarter => exact (CBV.C19.diskOK_bounds _ h k dg hok (by decide)).2.2.1
    | half => exact (CBV.C19.diskOK_bounds _ h k dg hok (by decide)).2.2.1
    | fourCore => exact (CBV.C19.diskOK_bounds _ h k dg hok (by decide)).2.2.1
  have hρ0 : 0 ≤ ρ := by linarith
  have hq := nonrim_radial cl c rp u h k dg ρ hok hh hu hp hdρ hkρ i hi
  have hpj := (CBV.C19.onCircle_iff cl c rp u h k dg hok hh hu hp (by rw [hRR]; exact mul_pos hR hR) j hjn).mpr hj
  rw [hRR] at hq hpj
  have hq' : nsq (sub ((diskPts cl c rp u h k dg).getD i c) c) ≤ ρ * R * (ρ * R) := by
    have e : ρ * ρ * (R * R) = ρ * R * (ρ * R) := by ring
    rw [← e]; exact hq
  have hfar := circle_inner_far hR.le hρ0 hρ1 hpj hq'
  have hsq : (t + 2 * δ) * (t + 2 * δ) ≤ (1 - ρ) * R * ((1 - ρ) * R) := mul_self_le_mul_self htδ hgap
  have hsym : nsq (sub ((diskPts cl c rp u h k dg).getD i c) ((diskPts cl c rp u h k dg).getD j c)) =
      nsq (sub ((diskPts cl c rp u h k dg).getD j c) ((diskPts cl c rp u h k dg).getD i c)) := by
    simp only [nsq, dot, sub]; ring
  unfold nearK
  constructor
  · rw [hsym]; exact not_lt.mpr (le_trans hsq hfar)
  · exact not_lt.mpr (le_trans hsq hfar)

/-! ### stability with the gap asked per vertex -/

/-- as `findK_stable`, but every vertex only has to be clearly within of SOME position or clearly away from ALL:
    a vertex that sits on a rim position may be at any distance from the other rim positions -/
theorem findK_stable_pv (t δ : K) (hδ : 0 ≤ δ) (ht : 2 * δ < t) (z : P3 K) (vs vs' ps ps' : List (P3 K))
    (hlv : vs'.length = vs.length) (hlp : ps'.length = ps.length)
    (hv : ∀ i, i < vs.length → nsq (sub (vs'.getD i z) (vs.getD i z)) ≤ δ * δ)
    (hp : ∀ k, k < ps.length → nsq (sub (ps'.getD k z) (ps.getD k z)) ≤ δ * δ)
    (gap : ∀ i, i < vs.length →
      (∃ k, k < ps.length ∧ nearK (t - 2 * δ) (vs.getD i z) (ps.getD k z)) ∨
      (∀ k, k < ps.length → ¬ nearK (t + 2 * δ) (vs.getD i z) (ps.getD k z))) :
    findK t z vs' ps' = findK t z vs ps := by
  unfold findK
  rw [hlv, hlp]
  apply List.filter_congr
  intro i hi
  have hi := List.mem_range.mp hi
  rw [Bool.eq_iff_iff]
  simp only [List.any_eq_true, List.mem_range, decide_eq_true_eq]
  have mono : ∀ {a b : P3 K}, nearK (t - 2 * δ) a b → nearK t a b := by
    intro a b hn
    unfold nearK at *
    have : (t - 2 * δ) * (t - 2 * δ) ≤ t * t := by nlinarith
    linarith
  rcases gap i hi with ⟨k, hk, hn⟩ | hfar
  · exact ⟨fun _ => ⟨k, hk, mono hn⟩, fun _ => ⟨k, hk, nearK_of_exact hδ ht (hv i hi) (hp k hk) hn⟩⟩
  · constructor
    · rintro ⟨k, hk, hn⟩
      exact absurd (nearK_exact_of_float hδ (by linarith) (hv i hi) (hp k hk) hn) (hfar k hk)
    · rintro ⟨k, hk, hn⟩
      exfalso
      apply hfar k hk
      unfold nearK at *
      have : t * t ≤ (t + 2 * δ) * (t + 2 * δ) := by nlinarith
      linarith

end CBV.C18
