/-
C12 — vertex identity by distance (round 6d).  The code merges two corners into one vertex when they are closer than
`constants.TOL` (`VertexList.find_duplicated`: `f.norm(position - dupe.point) < TOL`, C05's `closeV3` on the exact
coordinates, TOL re-read from the source); the C12 model merges them when their coordinates are equal.  Here: the
tolerance-based search, vertex creation and assembly loop, and the proof that they *are* the model's ones on every set of
points on which "closer than TOL" means "equal" — the separation the harness establishes (points closer than TOL are sent as
one triple, distinct points are ≥ 1e-3 apart).
-/
import CBV.Lemmas.C12X
import CBV.Model.C05
import CBV.Lemmas.C05First

namespace CBV.C12

/-- `VertexList.find_duplicated` as the code has it: the first entry closer than TOL with the same slave patches -/
def vfindT (loc : Pt) (sl : List String) : List Vtx → Option Nat
  | [] => none
  | v :: vs => if C05.closeV3 loc v.loc = true ∧ v.slaves = sl then some 0 else (vfindT loc sl vs).map (· + 1)

def vaddT (vs : List Vtx) (loc : Pt) (proj sl : List String) : List Vtx × Nat :=
  match vfindT loc sl vs with
  | some i => (vs, i)
  | none => (vs ++ [⟨loc, proj, sl⟩], vs.length)

def addVertsAuxT (slaves : List String) (o : Op) : List Nat → List Vtx → List Vtx × List Nat
  | [], vs => (vs, [])
  | c :: rest, vs =>
      let r := vaddT vs (o.corners.getD c 0) (o.cornerProj.getD c []) (cornerSlaves slaves o c)
      let r2 := addVertsAuxT slaves o rest r.1
      (r2.1, r.2 :: r2.2)

def addVertsT (slaves : List String) (o : Op) (vs : List Vtx) : List Vtx × List Nat :=
  addVertsAuxT slaves o [0, 1, 2, 3, 4, 5, 6, 7] vs

/-- the loop body of `Mesh.assemble` with the tolerance-based vertex search -/
def addOpT (slaves : List String) (l : Lists) (o : Op) : Lists :=
  let r := addVertsT slaves o l.verts
  let vi := r.2
  { verts := r.1
    edges := addEdges l.edges o vi
    blocks := l.blocks ++ [{ opId := o.id, verts := vi, chops := o.chops, zone := o.zone, aspec := [], wspec := [] }]
    assembled := l.assembled ++ [o.id]
    patches := addItems l.patches (patchItems o vi)
    faces := addFaces l.faces (faceItems o vi) }

def assembleLoopT (slaves : List String) (deleted : List Nat) : List Op → Lists → Lists
  | [], l => l
  | o :: rest, l => assembleLoopT slaves deleted rest (if o.id ∈ deleted then l else addOpT slaves l o)

/-- on the points `S`, closer than TOL means equal -/
def Separated (S : Pt → Prop) : Prop := ∀ p q, S p → S q → C05.closeV3 p q = true → p = q

theorem close_self (p : Pt) : C05.closeV3 p p = true := C05.closeV3_rs.1 p trivial

theorem vfindT_eq (S : Pt → Prop) (hS : Separated S) (loc : Pt) (sl : List String) (vs : List Vtx)
    (hl : S loc) (hv : ∀ v ∈ vs, S v.loc) : vfindT loc sl vs = vfind loc sl vs := by
  induction vs with
  | nil => rfl
  | cons v rest ih =>
    have hc : (C05.closeV3 loc v.loc = true ∧ v.slaves = sl) ↔ (v.loc = loc ∧ v.slaves = sl) := by
      constructor
      · intro ⟨h1, h2⟩; exact ⟨(hS loc v.loc hl (hv v (by simp)) h1).symm, h2⟩
      · intro ⟨h1, h2⟩; exact ⟨by rw [h1]; exact close_self loc, h2⟩
    unfold vfindT vfind
    rw [ih (fun v' hv' => hv v' (by simp [hv']))]
    by_cases h : v.loc = loc ∧ v.slaves = sl
    · rw [if_pos h, if_pos (hc.mpr h)]
    · rw [if_neg h, if_neg (fun h' => h (hc.mp h'))]

theorem vaddT_eq (S : Pt → Prop) (hS : Separated S) (vs : List Vtx) (loc : Pt) (proj sl : List String)
    (hl : S loc) (hv : ∀ v ∈ vs, S v.loc) :
    vaddT vs loc proj sl = vadd vs loc proj sl ∧ ∀ v ∈ (vadd vs loc proj sl).1, S v.loc := by
  unfold vaddT vadd
  rw [vfindT_eq S hS loc sl vs hl hv]
  refine ⟨rfl, ?_⟩
  cases vfind loc sl vs with
  | some i => exact hv
  | none =>
    intro v hv'
    simp only [List.mem_append, List.mem_singleton] at hv'
    rcases hv' with hv' | rfl
    · exact hv v hv'
    · exact hl

theorem addVertsAuxT_eq (S : Pt → Prop) (hS : Separated S) (sl : List String) (o : Op)
    (ho : ∀ c, S (o.corners.getD c 0)) (cs : List Nat) (vs : List Vtx) (hv : ∀ v ∈ vs, S v.loc) :
    addVertsAuxT sl o cs vs = addVertsAux sl o cs vs ∧ ∀ v ∈ (addVertsAux sl o cs vs).1, S v.loc := by
  induction cs generalizing vs with
  | nil => exact ⟨rfl, hv⟩
  | cons c rest ih =>
    obtain ⟨e1, h1⟩ := vaddT_eq S hS vs (o.corners.getD c 0) (o.cornerProj.getD c []) (cornerSlaves sl o c) (ho c) hv
    obtain ⟨e2, h2⟩ := ih _ h1
    unfold addVertsAuxT addVertsAux
    simp only [e1, e2]
    exact ⟨trivial, h2⟩

/-- the tolerance-based `_add_vertices` is the model's on separated points, and it keeps the vertex list inside them -/
theorem addVertsT_eq (S : Pt → Prop) (hS : Separated S) (sl : List String) (o : Op)
    (ho : ∀ c, S (o.corners.getD c 0)) (vs : List Vtx) (hv : ∀ v ∈ vs, S v.loc) :
    addVertsT sl o vs = addVerts sl o vs ∧ ∀ v ∈ (addVerts sl o vs).1, S v.loc :=
  addVertsAuxT_eq S hS sl o ho _ vs hv

theorem addOpT_eq (S : Pt → Prop) (hS : Separated S) (sl : List String) (l : Lists) (o : Op)
    (ho : ∀ c, S (o.corners.getD c 0)) (hv : ∀ v ∈ l.verts, S v.loc) :
    addOpT sl l o = addOp sl l o ∧ ∀ v ∈ (addOp sl l o).verts, S v.loc := by
  obtain ⟨e, h⟩ := addVertsT_eq S hS sl o ho l.verts hv
  unfold addOpT addOp
  simp only [e]
  exact ⟨trivial, h⟩

theorem assembleLoopT_eq (S : Pt → Prop) (hS : Separated S) (sl : List String) (del : List Nat) (ops : List Op)
    (l : Lists) (ho : ∀ o ∈ ops, ∀ c, S (o.corners.getD c 0)) (hv : ∀ v ∈ l.verts, S v.loc) :
    assembleLoopT sl del ops l = assembleLoop sl del ops l ∧ ∀ v ∈ (assembleLoop sl del ops l).verts, S v.loc := by
  induction ops generalizing l with
  | nil => exact ⟨rfl, hv⟩
  | cons o rest ih =>
    unfold assembleLoopT assembleLoop
    have hr : ∀ o' ∈ rest, ∀ c, S (o'.corners.getD c 0) := fun o' ho' => ho o' (by simp [ho'])
    by_cases hd : o.id ∈ del
    · simp only [hd, if_true]
      exact ih l hr hv
    · simp only [hd, if_false]
      obtain ⟨e, h⟩ := addOpT_eq S hS sl l o (ho o (by simp)) hv
      rw [e]
      exact ih _ hr h

/-- a finite set of points checked pair by pair -/
def SepList (pts : List Pt) : Bool :=
  pts.all (fun p => pts.all (fun q => !(C05.closeV3 p q) || decide (p = q)))

theorem separated_of_list (pts : List Pt) (h : SepList pts = true) : Separated (· ∈ pts) := by
  intro p q hp hq hc
  simp only [SepList, List.all_eq_true, Bool.or_eq_true, Bool.not_eq_eq_eq_not, Bool.not_true, decide_eq_true_eq] at h
  rcases h p hp q hq with h' | h'
  · rw [hc] at h'; cases h'
  · exact h'

end CBV.C12
