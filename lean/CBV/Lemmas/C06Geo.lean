/-
C06 — helper lemmas for the geometry clause: every label used by a `project` entry of the written
dictionary is a label of a non-deleted operation; every declared geometry name is defined.
-/
import CBV.Lemmas.C06Bnd

set_option linter.unusedSectionVars false

namespace CBV.C06

open CBV.C05 (VList Vertex Dup Op)

/-! ### where the positions of the vertices come from -/

section Src
variable {P N : Type} [DecidableEq N] [LE N] [DecidableLE N] (close : P → P → Bool)

def VAll (G : P → Prop) (vl : VList P N) : Prop := ∀ v ∈ vl.vertices, G v.pos

theorem add_vall {G : P → Prop} {vl : VList P N} (h : VAll G vl) (p : P) (hp : G p) (s : List N) :
    VAll G (C05.add close vl p (some s)).1 := by
  rw [add_some_eq']
  split
  · exact h
  · intro v hv
    rcases List.mem_append.mp hv with hv | hv
    · exact h v hv
    · simp only [List.mem_singleton] at hv; subst hv; exact hp

theorem runAdds_vall {G : P → Prop} (calls : List (P × List N)) :
    ∀ {vl : VList P N}, VAll G vl → (∀ c ∈ calls, G c.1) → VAll G (C05.runAdds close vl calls).1 := by
  induction calls with
  | nil => intro vl h _; exact h
  | cons c rest ih =>
    intro vl h hc
    obtain ⟨p, s⟩ := c
    simp only [C05.runAdds]
    exact ih (add_vall close h p (hc (p, s) List.mem_cons_self) s) (fun c hcm => hc c (List.mem_cons_of_mem _ hcm))

theorem assemble_vall {G : P → Prop} (slaves : List N) (ops : List (Op P N)) :
    ∀ {vl : VList P N}, VAll G vl → (∀ op ∈ ops, ∀ p ∈ op.pts, G p) → VAll G (C05.assemble close slaves vl ops).1 := by
  induction ops with
  | nil => intro vl h _; exact h
  | cons op rest ih =>
    intro vl h hG
    simp only [C05.assemble]
    refine ih (runAdds_vall close _ h ?_) (fun o ho => hG o (List.mem_cons_of_mem _ ho))
    intro c hc
    unfold C05.cornerCalls at hc
    rw [List.mem_map] at hc
    obtain ⟨⟨p, k⟩, hm, rfl⟩ := hc
    exact hG op List.mem_cons_self p ((List.mem_zipIdx hm).2.2 ▸ List.getElem_mem _)

end Src

/-! ### edges -/

def EAll (G : EEntry → Prop) (es : List EEntry) : Prop := ∀ e ∈ es, G e

theorem addEdge_all {G : EEntry → Prop} {es : List EEntry} (h : EAll G es) (v1 v2 : Nat) (d : EdgeDecl) (fw : Bool)
    (hg : ∀ pre payload, (payload = d.fwd ∨ payload = d.bwd) → G ⟨pre, d.repr, v1, v2, payload⟩) :
    EAll G (addEdge es v1 v2 d fw) := by
  unfold addEdge
  split
  · exact h
  · split
    · intro e he
      rcases List.mem_append.mp he with he | he
      · exact h e he
      · simp only [List.mem_singleton] at he
        subst he
        apply hg
        cases fw <;> simp
    · exact h

theorem addEdges_all {G : EEntry → Prop} {es : List EEntry} (h : EAll G es) (o : OpDecl) (verts : List Nat)
    (hg : ∀ d ∈ o.edges, ∀ pre v1 v2 payload, (payload = d.fwd ∨ payload = d.bwd) → G ⟨pre, d.repr, v1, v2, payload⟩) :
    EAll G (addEdges es o verts) := by
  unfold addEdges
  apply foldl_inv (EAll G) _ _ _ h
  intro acc x _ hacc
  obtain ⟨a, b⟩ := x
  simp only
  split
  · split
    · rename_i d hd
      exact addEdge_all hacc _ _ d _ (fun pre payload hp => hg d (List.mem_of_getElem? hd) pre _ _ payload hp)
    · exact hacc
  · exact hacc

theorem edgesOf_all (G : EEntry → Prop) (ob : List (OpDecl × List Nat))
    (hg : ∀ x ∈ ob, ∀ d ∈ x.1.edges, ∀ pre v1 v2 payload, (payload = d.fwd ∨ payload = d.bwd) →
      G ⟨pre, d.repr, v1, v2, payload⟩) : EAll G (edgesOf ob) :=
  foldl_inv (EAll G) _ ob [] (by intro e he; simp at he)
    (fun acc x hx hacc => addEdges_all hacc x.1 x.2 (hg x hx))

/-! ### geometry names -/

def HasName (n : String) (gs : List GEntry) : Prop := ∃ g ∈ gs, g.name = n

theorem addGeometry_has (gs : List GEntry) (g : GEntry) : HasName g.name (addGeometry gs g) := by
  unfold addGeometry
  split
  · rename_i h
    rw [List.any_eq_true] at h
    obtain ⟨x, hx, hn⟩ := h
    refine ⟨g, ?_, rfl⟩
    rw [List.mem_map]
    exact ⟨x, hx, by simp only [hn, ↓reduceIte]⟩
  · exact ⟨g, by simp, rfl⟩

theorem addGeometry_has_mono {n : String} {gs : List GEntry} (h : HasName n gs) (g : GEntry) :
    HasName n (addGeometry gs g) := by
  obtain ⟨x, hx, hn⟩ := h
  unfold addGeometry
  split
  · by_cases h1 : (x.name == g.name) = true
    · have : x.name = g.name := by simpa using h1
      refine ⟨g, ?_, by rw [← this, hn]⟩
      rw [List.mem_map]
      exact ⟨x, hx, by simp only [h1, ↓reduceIte]⟩
    · refine ⟨x, ?_, hn⟩
      rw [List.mem_map]
      exact ⟨x, hx, by simp [h1]⟩
  · exact ⟨x, List.mem_append_left _ hx, hn⟩

/-- all geometry names the user or an entity of the depot declares -/
def declGeomNames (d : Decl) : List String :=
  (d.geomBefore ++ d.depot.flatMap (·.geometry) ++ d.geomAfter).map (·.name)

theorem declGeometry_has (d : Decl) {n : String} (h : n ∈ declGeomNames d) : HasName n (declGeometry d) := by
  unfold declGeomNames at h
  rw [List.mem_map] at h
  obtain ⟨g, hg, rfl⟩ := h
  unfold declGeometry
  have mono : ∀ (l : List GEntry) (init : List GEntry), HasName g.name init → HasName g.name (l.foldl addGeometry init) :=
    fun l init hi => foldl_inv (HasName g.name) _ l init hi (fun acc y _ hacc => addGeometry_has_mono hacc y)
  have reach : ∀ (l : List GEntry), g ∈ l → ∀ init, HasName g.name (l.foldl addGeometry init) :=
    fun l hl init => foldl_reach (HasName g.name) _ g (fun acc => addGeometry_has acc g)
      (fun acc y hacc => addGeometry_has_mono hacc y) l hl init
  simp only [List.mem_append] at hg
  rcases hg with (hg | hg) | hg
  · exact mono _ _ (mono _ _ (mono _ _ (reach _ hg _)))
  · exact mono _ _ (mono _ _ (reach _ hg _))
  · exact mono _ _ (reach _ hg _)

/-! ### distinct names: nothing is overwritten -/

theorem addGeometry_new {gs : List GEntry} {g : GEntry} (h : g.name ∉ gs.map (·.name)) :
    addGeometry gs g = gs ++ [g] := by
  unfold addGeometry
  have : gs.any (·.name == g.name) = false := by
    rw [List.any_eq_false]
    intro x hx hn
    exact h (List.mem_map.mpr ⟨x, hx, by simpa using hn⟩)
  simp [this]

theorem addGeometry_same {gs : List GEntry} {g : GEntry} (hg : g ∈ gs) (hn : (gs.map (·.name)).Nodup) :
    addGeometry gs g = gs := by
  unfold addGeometry
  have hany : gs.any (·.name == g.name) = true := List.any_eq_true.mpr ⟨g, hg, by simp⟩
  simp only [hany, if_true]
  conv_rhs => rw [← List.map_id gs]
  apply List.map_congr_left
  intro x hx
  by_cases h1 : (x.name == g.name) = true
  · have : x = g := List.inj_on_of_nodup_map hn hx hg (by simpa using h1)
    simp [this]
  · simp [h1]

theorem foldl_addGeometry_new (l : List GEntry) : ∀ (init : List GEntry),
    ((init ++ l).map (·.name)).Nodup → l.foldl addGeometry init = init ++ l := by
  induction l with
  | nil => intro init _; simp
  | cons g rest ih =>
    intro init h
    have hg : g.name ∉ init.map (·.name) := by
      rw [List.map_append, List.map_cons] at h
      have := (List.nodup_append.mp h).2.2
      intro hin
      exact this _ hin _ List.mem_cons_self rfl
    simp only [List.foldl_cons, addGeometry_new hg]
    rw [ih (init ++ [g]) (by simpa using h)]
    simp

theorem foldl_addGeometry_same (l : List GEntry) (gs : List GEntry) (hl : ∀ g ∈ l, g ∈ gs)
    (hn : (gs.map (·.name)).Nodup) : l.foldl addGeometry gs = gs := by
  induction l with
  | nil => rfl
  | cons g rest ih =>
    simp only [List.foldl_cons, addGeometry_same (hl g List.mem_cons_self) hn]
    exact ih (fun x hx => hl x (List.mem_cons_of_mem _ hx))

/-- every geometry entry the user or an entity of the depot declares, in declaration order -/
def declGeomAll (d : Decl) : List GEntry := d.geomBefore ++ d.depot.flatMap (·.geometry) ++ d.geomAfter

theorem declGeometry_nodup (d : Decl) (h : ((declGeomAll d).map (·.name)).Nodup) :
    declGeometry d = declGeomAll d := by
  unfold declGeometry declGeomAll at *
  have h1 : ((d.geomBefore).map (·.name)).Nodup := by
    rw [List.map_append, List.map_append] at h
    exact (List.nodup_append.mp (List.nodup_append.mp h).1).1
  have h2 : ((d.geomBefore ++ d.depot.flatMap (·.geometry)).map (·.name)).Nodup := by
    rw [List.map_append] at h
    exact (List.nodup_append.mp h).1
  rw [foldl_addGeometry_new d.geomBefore [] (by simpa using h1)]
  rw [List.nil_append, foldl_addGeometry_new _ _ h2, foldl_addGeometry_new _ _ h]
  apply foldl_addGeometry_same _ _ _ h
  intro g hg
  split at hg
  · exact List.mem_append_left _ (List.mem_append_right _ hg)
  · simp at hg

/-! ### labels -/

/-- everything an operation is projected to -/
def OpDecl.labels (o : OpDecl) : List String :=
  o.corners.flatMap (·.proj) ++ o.sideProj.filterMap id ++ o.bottomProj.toList ++ o.topProj.toList ++
  (o.edges.filter (·.repr == "project")).flatMap (fun e => atomsDeep e.fwd ++ atomsDeep e.bwd)

theorem projAt_label {o : OpDecl} {orient label : String} (h : o.projAt orient label) : label ∈ o.labels := by
  unfold OpDecl.labels
  rcases h with h | ⟨_, h⟩ | ⟨_, h⟩
  · have : some label ∈ o.sideProj := (List.of_mem_zip h).2
    simp only [List.mem_append, List.mem_filterMap, id_eq, exists_eq_right]
    exact Or.inl (Or.inl (Or.inl (Or.inr this)))
  · simp [h]
  · simp [h]

theorem labelsUsed_dictOf (d : Decl) (ob : List (OpDecl × List Nat))
    (hob : ∀ x ∈ ob, x.1 ∈ declOps d) :
    ∀ l ∈ labelsUsed (dictOf d (declVA d).1 ob), ∃ o ∈ declOps d, l ∈ o.labels := by
  intro l hl
  unfold labelsUsed at hl
  simp only [List.mem_append] at hl
  rcases hl with (hl | hl) | hl
  · -- a projected vertex: its labels are those of a corner of an operation
    rw [List.mem_flatMap] at hl
    obtain ⟨ve, hve, hlv⟩ := hl
    have hve' : ve ∈ (declVA d).1.vertices.map vertexEntry := hve
    rw [List.mem_map] at hve'
    obtain ⟨v, hv, rfl⟩ := hve'
    have hsrc := assemble_vall closeCorner (G := fun p => ∃ o ∈ declOps d, p ∈ o.corners)
      (C05.slavePatches (declMerged d)) ((declOps d).map OpDecl.toC05) (vl := {})
      (by intro v hv; simp at hv)
      (by
        intro op hop p hp
        rw [List.mem_map] at hop
        obtain ⟨o, ho, rfl⟩ := hop
        exact ⟨o, ho, hp⟩)
    obtain ⟨o, ho, hp⟩ := hsrc v hv
    refine ⟨o, ho, ?_⟩
    unfold OpDecl.labels
    simp only [List.mem_append, List.mem_flatMap]
    exact Or.inl (Or.inl (Or.inl (Or.inl ⟨v.pos, hp, hlv⟩)))
  · -- a projected edge
    rw [List.mem_flatMap] at hl
    obtain ⟨e, he, hle⟩ := hl
    rw [List.mem_filter] at he
    have hall := edgesOf_all (fun e => ∃ x ∈ ob, ∃ dd ∈ x.1.edges, e.kind = dd.repr ∧
        (e.payload = dd.fwd ∨ e.payload = dd.bwd)) ob
      (fun x hx dd hdd pre v1 v2 payload hp => ⟨x, hx, dd, hdd, rfl, hp⟩)
    obtain ⟨x, hx, dd, hdd, hk, hp⟩ := hall e he.1
    refine ⟨x.1, hob x hx, ?_⟩
    unfold OpDecl.labels
    simp only [List.mem_append, List.mem_flatMap, List.mem_filter]
    refine Or.inr ⟨dd, ⟨hdd, by rw [← hk]; exact he.2⟩, ?_⟩
    rcases hp with hp | hp
    · exact Or.inl (hp ▸ hle)
    · exact Or.inr (hp ▸ hle)
  · -- a projected face
    rw [List.mem_map] at hl
    obtain ⟨f, hf, rfl⟩ := hl
    have hall := facesOf_fql (fun _ l => ∃ x ∈ ob, ∃ orient, x.1.projAt orient l) ob
      (fun x hx orient label h => ⟨x, hx, orient, h⟩)
    obtain ⟨x, hx, orient, h⟩ := hall f hf
    exact ⟨x.1, hob x hx, projAt_label h⟩

theorem geometryOk_dictOf (d : Decl) (ob : List (OpDecl × List Nat)) (hob : ∀ x ∈ ob, x.1 ∈ declOps d)
    (h : ∀ o ∈ declOps d, ∀ l ∈ o.labels, l ∈ declGeomNames d) :
    geometryOk (dictOf d (declVA d).1 ob) = true := by
  unfold geometryOk
  rw [List.all_eq_true]
  intro l hl
  obtain ⟨o, ho, hlo⟩ := labelsUsed_dictOf d ob hob l hl
  obtain ⟨g, hg, hn⟩ := declGeometry_has d (h o ho l hlo)
  rw [List.any_eq_true]
  exact ⟨g, hg, by simp [hn]⟩

end CBV.C06
