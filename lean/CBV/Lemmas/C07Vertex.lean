/-
C07 — helper lemmas about the numbering of corner locations (`vertexOf`, `vertexAll`,
`resolveAll`): the vertex a corner gets sits at that corner's location, and stays there.
-/
import CBV.Model.C07

namespace CBV.C07

theorem getElem?_append_some {vs t : List Nat} {i l : Nat} (h : vs[i]? = some l) : (vs ++ t)[i]? = some l := by
  have hi : i < vs.length := by
    by_cases hi : i < vs.length
    · exact hi
    · rw [List.getElem?_eq_none (by omega)] at h; cases h
  rw [List.getElem?_append_left hi]; exact h

theorem vertexOf_spec (vs : List Nat) (l : Nat) :
    (∃ t, (vertexOf vs l).1 = vs ++ t) ∧ (vertexOf vs l).1[(vertexOf vs l).2]? = some l := by
  unfold vertexOf
  split
  · rename_i h
    refine ⟨⟨[], by simp⟩, ?_⟩
    have hlt : List.idxOf l vs < vs.length := List.idxOf_lt_length_iff.mpr h
    simp only
    rw [List.getElem?_eq_getElem hlt, List.getElem_idxOf hlt]
  · refine ⟨⟨[l], rfl⟩, ?_⟩
    simp

theorem vertexAll_spec (vs ls : List Nat) :
    (∃ t, (vertexAll vs ls).1 = vs ++ t) ∧
    ∀ c, c < ls.length → (vertexAll vs ls).1[(vertexAll vs ls).2.getD c 0]? = ls[c]? := by
  induction ls generalizing vs with
  | nil => exact ⟨⟨[], by simp [vertexAll]⟩, fun c hc => by cases hc⟩
  | cons l ls ih =>
    obtain ⟨⟨t1, h1⟩, h2⟩ := vertexOf_spec vs l
    obtain ⟨⟨t2, h3⟩, h4⟩ := ih (vertexOf vs l).1
    have hfin : (vertexAll vs (l :: ls)).1 = (vertexAll (vertexOf vs l).1 ls).1 := rfl
    have hout : (vertexAll vs (l :: ls)).2 = (vertexOf vs l).2 :: (vertexAll (vertexOf vs l).1 ls).2 := rfl
    refine ⟨⟨t1 ++ t2, by rw [hfin, h3, h1, List.append_assoc]⟩, ?_⟩
    intro c hc
    rw [hfin, hout]
    cases c with
    | zero =>
      simp only [List.getD_cons_zero, List.getElem?_cons_zero]
      rw [h3]; exact getElem?_append_some h2
    | succ c =>
      simp only [List.getD_cons_succ, List.getElem?_cons_succ]
      exact h4 c (by simpa using hc)

/-- what `UOp.resolve` guarantees about the resolved operation w.r.t. a (later) vertex table -/
def Resolved (pos : Nat → V3) (vlocs : List Nat) (u : UOp) (o : ROp) : Prop :=
  let p := u.parts pos
  o.data = p.1.edges ++ p.2.1.edges ++ p.2.2 ∧
  ∀ c, c < (p.1.pts ++ p.2.1.pts).length → vlocs[o.verts.getD c 0]? = (p.1.pts ++ p.2.1.pts)[c]?

theorem Resolved.extend {pos : Nat → V3} {vlocs t : List Nat} {u : UOp} {o : ROp}
    (h : Resolved pos vlocs u o) : Resolved pos (vlocs ++ t) u o := by
  refine ⟨h.1, ?_⟩
  intro c hc
  have h2 := h.2 c hc
  rw [List.getElem?_eq_getElem hc] at h2 ⊢
  exact getElem?_append_some h2

theorem resolveAll_spec (pos : Nat → V3) (vs : List Nat) (us : List UOp) :
    (∃ t, (resolveAll pos vs us).1 = vs ++ t) ∧
    ∀ o ∈ (resolveAll pos vs us).2, ∃ u ∈ us, Resolved pos (resolveAll pos vs us).1 u o := by
  induction us generalizing vs with
  | nil => exact ⟨⟨[], by simp [resolveAll]⟩, fun o ho => by cases ho⟩
  | cons u us ih =>
    have hfin : (resolveAll pos vs (u :: us)).1 = (resolveAll pos (u.resolve pos vs).1 us).1 := rfl
    have hout : (resolveAll pos vs (u :: us)).2 = (u.resolve pos vs).2 :: (resolveAll pos (u.resolve pos vs).1 us).2 := rfl
    obtain ⟨⟨t2, h3⟩, h4⟩ := ih (u.resolve pos vs).1
    obtain ⟨⟨t1, h1⟩, h2⟩ := vertexAll_spec vs ((u.parts pos).1.pts ++ (u.parts pos).2.1.pts)
    have hr1 : (u.resolve pos vs).1 = vs ++ t1 := h1
    refine ⟨⟨t1 ++ t2, by rw [hfin, h3, hr1, List.append_assoc]⟩, ?_⟩
    intro o ho
    rw [hout] at ho
    rw [hfin]
    simp only [List.mem_cons] at ho
    rcases ho with rfl | ho
    · refine ⟨u, List.mem_cons_self, ?_⟩
      rw [h3]
      apply Resolved.extend
      exact ⟨rfl, h2⟩
    · obtain ⟨u', hu', hres⟩ := h4 o ho
      exact ⟨u', List.mem_cons_of_mem _ hu', hres⟩

end CBV.C07
