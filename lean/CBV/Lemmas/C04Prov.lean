/-
C04 — wire-level provenance, an invariant of every grading step of M-PROP (round 6d).

Every specification a wire ever holds is *realised on that wire's own geometric edge*: it is built from lists of chops
evaluated on the wire itself (`WireChopManager.grade`, `propagate_grading`) or taken — as it is, or inverted — from a
coincident wire (`copy_neighbours`), whose specification was realised in the same sense.  The predicate does not mention
the state, so no "defined wires never change" argument is needed: it is preserved by `setSpec` steps one at a time.
-/
import CBV.Lemmas.C01Own

namespace CBV.Prop

/-- `s` can be the specification of wire `w`: sections of chops evaluated on `w`, or the (possibly inverted)
    specification realised on a coincident wire -/
inductive Realised (inp : Inp) : Nat → Spec → Prop
  | nil (w : Nat) : Realised inp w []
  | app {w : Nat} {s : Spec} (cs : List Chop) : Realised inp w s → Realised inp w (s ++ cs.map (secOn inp w))
  | copy {w cw : Nat} {s : Spec} : cw ∈ inp.coinc w → Realised inp cw s →
      Realised inp w (if aligned inp cw w then s else invertSpec s)

/-- the invariant: every wire holds a realised specification -/
def Prov (inp : Inp) (st : St) : Prop := ∀ w, Realised inp w (specOf st w)

theorem prov_init (inp : Inp) : Prov inp (init inp) := fun w => .nil w

theorem prov_addChops {inp : Inp} {st : St} (h : Prov inp st) (x : Nat) (cs : List Chop) :
    Prov inp (addChops st x cs) := fun w => h w

theorem prov_setSpec {inp : Inp} {st : St} (h : Prov inp st) (w : Nat) (s : Spec) (hs : Realised inp w s) :
    Prov inp (setSpec st w s) := by
  intro w'
  rw [specOf_setSpec]
  split
  · next e => rw [e]; exact hs
  · exact h w'

theorem prov_gradeChopped {inp : Inp} {st : St} (h : Prov inp st) (x : Nat) : Prov inp (gradeChopped inp st x) := by
  intro w
  rw [gradeChopped_spec]
  split
  · exact .app _ (h w)
  · exact h w

theorem prov_copyFold {inp : Inp} (w : Nat) (cs : List Nat) (hcs : ∀ c ∈ cs, c ∈ inp.coinc w) :
    ∀ st : St, Prov inp st → Prov inp (cs.foldl (fun st cw =>
      if (specOf st cw).isEmpty then st
      else setSpec st w (if aligned inp cw w then specOf st cw else invertSpec (specOf st cw))) st) := by
  induction cs with
  | nil => intro st h; exact h
  | cons c cs ih =>
    intro st h
    simp only [List.foldl]
    have hc : c ∈ inp.coinc w := hcs c (List.mem_cons_self ..)
    have hrest : ∀ c' ∈ cs, c' ∈ inp.coinc w := fun c' hc' => hcs c' (List.mem_cons_of_mem _ hc')
    split
    · exact ih hrest st h
    · exact ih hrest _ (prov_setSpec h w _ (.copy hc (h c)))

theorem prov_copyWire {inp : Inp} {st : St} (h : Prov inp st) (w : Nat) : Prov inp (copyWire inp st w) :=
  prov_copyFold w (inp.coinc w) (fun _ hc => hc) st h

theorem prov_fillWire {inp : Inp} {st : St} (h : Prov inp st) (x w : Nat) : Prov inp (fillWire inp st x w) := by
  unfold fillWire
  split
  · have := Realised.app (inp := inp) (chopsOf st x) (.nil w)
    rw [List.nil_append] at this
    exact prov_setSpec h w _ this
  · exact h

theorem prov_gradePropagated {inp : Inp} {st : St} (h : Prov inp st) (x : Nat) :
    Prov inp (gradePropagated inp st x) := by
  unfold gradePropagated axisWires
  split
  · exact h
  · simp only [List.foldl]
    exact prov_fillWire (prov_fillWire (prov_fillWire (prov_fillWire
      (prov_copyWire (prov_copyWire (prov_copyWire (prov_copyWire h _) _) _) _) _ _) _ _) _ _) _ _

theorem prov_gradeAxis {inp : Inp} {st : St} (h : Prov inp st) (x : Nat) : Prov inp (gradeAxis inp st x) := by
  unfold gradeAxis
  split
  · exact prov_gradeChopped h x
  · exact prov_gradePropagated h x

theorem prov_gradeBlocks {inp : Inp} {st : St} (h : Prov inp st) : Prov inp (gradeBlocks inp st) := by
  unfold gradeBlocks
  generalize List.range (3 * inp.nBlocks) = l
  induction l generalizing st with
  | nil => exact h
  | cons x l ih => simp only [List.foldl]; exact ih (prov_gradeAxis h x)

theorem axisCopy_prov (inp : Inp) (st st' : St) (x : Nat) (b : Bool) (hi : Prov inp st)
    (h : axisCopy inp st x = .ok (st', b)) : Prov inp st' := by
  unfold axisCopy at h
  split at h
  · cases h; exact hi
  · split at h
    · cases h; exact hi
    · split at h
      · cases h
      · cases h; exact prov_gradeAxis (prov_addChops hi _ _) x
      · cases h; exact prov_gradeAxis (prov_addChops hi _ _) x

theorem blockCopy_prov (inp : Inp) (st st' : St) (b : Nat) (u : Bool) (hi : Prov inp st)
    (h : blockCopy inp st b = .ok (st', u)) : Prov inp st' := by
  unfold blockCopy at h
  split at h
  · cases h; exact hi
  · split at h
    · cases h
    · rename_i r0 h0
      split at h
      · cases h
      · rename_i r1 h1
        split at h
        · cases h
        · rename_i r2 h2
          cases h
          have i0 := axisCopy_prov inp st r0.1 _ r0.2 hi h0
          have i1 := axisCopy_prov inp r0.1 r1.1 _ r1.2 i0 h1
          exact axisCopy_prov inp r1.1 r2.1 _ r2.2 i1 h2

theorem pass_prov (inp : Inp) (wl : List Nat) : ∀ (st : St) (r : St × List Nat × Bool), Prov inp st →
    pass inp st wl = .ok r → Prov inp r.1 := by
  induction wl with
  | nil => intro st r hi h; unfold pass at h; cases h; exact hi
  | cons b rest ih =>
    intro st r hi h
    unfold pass at h
    split at h
    · cases h; exact hi
    · split at h
      · cases h
      · rename_i rb hb
        split at h
        · cases h
        · rename_i p hp
          cases h
          exact ih rb.1 p (blockCopy_prov inp st rb.1 b rb.2 hi hb) hp

theorem loop_prov (inp : Inp) : ∀ (fuel : Nat) (st st' : St) (wl : List Nat), Prov inp st →
    loop inp fuel st wl = .ok st' → Prov inp st' := by
  intro fuel
  induction fuel with
  | zero => intro st st' wl _ h; unfold loop at h; cases h
  | succ f ih =>
    intro st st' wl hi h
    unfold loop at h
    split at h
    · cases h; exact hi
    · split at h
      · cases h
      · rename_i r hr
        split at h
        · exact ih r.1 st' r.2.1 (pass_prov inp _ st r hi hr) h
        · cases h

theorem run_prov (inp : Inp) (st : St) (h : run inp = .ok st) : Prov inp st := by
  unfold run at h
  split at h
  · cases h
  · split at h
    · cases h
    · rename_i st0 hl
      split at h
      · cases h
        exact loop_prov inp _ _ st _ (prov_gradeBlocks (prov_init inp)) hl
      · cases h

/-! ### what a realised specification consists of -/

/-- wires joined by a chain of coincidences (the same geometric edge) -/
inductive SameEdge (inp : Inp) : Nat → Nat → Prop
  | refl (w : Nat) : SameEdge inp w w
  | step {w cw w0 : Nat} : cw ∈ inp.coinc w → SameEdge inp cw w0 → SameEdge inp w w0

/-- a section as it reads from the other end -/
def flipSec (d : Sec) : Sec := { d with exp := 1 / d.exp }

theorem mem_invertSpec {s : Spec} {d : Sec} (h : d ∈ invertSpec s) : ∃ d0 ∈ s, d = flipSec d0 := by
  unfold invertSpec at h
  obtain ⟨d0, hd0, rfl⟩ := List.mem_map.mp h
  exact ⟨d0, List.mem_reverse.mp hd0, rfl⟩

/-- read from the other end `k` times -/
def flipN : Nat → Sec → Sec
  | 0, d => d
  | k + 1, d => flipSec (flipN k d)

/-- every section of a realised specification is some chop evaluated on a wire of the same geometric edge, read from
    the other end some number of times -/
theorem realised_sections {inp : Inp} {w : Nat} {s : Spec} (h : Realised inp w s) :
    ∀ d ∈ s, ∃ (c : Chop) (w0 : Nat) (k : Nat), SameEdge inp w w0 ∧ d = flipN k (secOn inp w0 c) := by
  induction h with
  | nil w => intro d hd; cases hd
  | app cs _ ih =>
    intro d hd
    rcases List.mem_append.mp hd with hd | hd
    · exact ih d hd
    · obtain ⟨c, _, rfl⟩ := List.mem_map.mp hd
      exact ⟨c, _, 0, .refl _, rfl⟩
  | @copy w cw s hc _ ih =>
    intro d hd
    split at hd
    · obtain ⟨c, w0, k, he, rfl⟩ := ih d hd
      exact ⟨c, w0, k, .step hc he, rfl⟩
    · obtain ⟨d0, hd0, rfl⟩ := mem_invertSpec hd
      obtain ⟨c, w0, k, he, rfl⟩ := ih d0 hd0
      exact ⟨c, w0, k + 1, .step hc he, rfl⟩

end CBV.Prop
