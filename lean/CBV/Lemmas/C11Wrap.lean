/-
C11 — WrappedDisk and Grid in the generic point model: plane coordinates, convex counter-clockwise quads,
right-handed extrusions.
-/
import CBV.Lemmas.C11Loft

namespace CBV.C11
open P3

set_option linter.unusedSectionVars false
set_option linter.unusedSimpArgs false
set_option linter.unusedVariables false

theorem quads_wrapped : sketchQuads "WrappedDisk" =
    [[0, 1, 2, 3], [0, 4, 5, 1], [1, 5, 6, 2], [2, 6, 7, 3], [3, 7, 4, 0], [4, 8, 9, 5], [5, 9, 10, 6], [6, 10, 11, 7],
     [7, 11, 8, 4]] := by decide +kernel

theorem idx_quarter_turns : linspaceIdx 8 4 false = [0, 2, 4, 6] := by decide

variable {K : Type} [Field K] [LinearOrder K] [IsStrictOrderedRing K]

/-- `ExtrudedShape` of any position list given in a frame -/
theorem extrudeOf_frame (quads : List (List Nat)) (L : List (P3 K)) (c ρ u : P3 K) (a : K) :
    extrudeOf quads (L.map (frame c ρ u)) c u a
      = loftHexes quads (L.map (frame c ρ u)) ((L.map (liftZ a)).map (frame c ρ u))
          (frame c ρ u ⟨0, 0, 0⟩) (frame c ρ u (liftZ a ⟨0, 0, 0⟩)) := by
  unfold extrudeOf
  rw [translate_frame, frame_zero]
  congr 1
  have h0 := add_frame a c ρ u ⟨0, 0, 0⟩
  rw [frame_zero] at h0
  rw [h0]; simp only [liftZ, zero_add]

/-- plane coordinates of `WrappedDisk` in the frame of its fan (radius vector = centre → corner), `rr = radius / |corner − centre|` -/
def wrappedL (h dg rr : K) : List (P3 K) :=
  fanInnerFromL h [dg * rr] 0 (linspaceIdx 8 4 false) ++ fanInnerFromL h [rr] 0 (linspaceIdx 8 4 false) ++
    fanOuterL h (linspaceIdx 8 4 false)

theorem wrappedPts_frame (c corner u : P3 K) (h dg radius wn : K) (hp : dot u (sub corner c) = 0) :
    wrappedPts c corner u h dg radius wn = (wrappedL h dg (radius / wn)).map (frame c (sub corner c) u) := by
  simp only [wrappedPts, wrappedL, fanInner, List.map_append, fanOuter_frame c corner u h _ hp,
    fanInnerFrom_frame c corner u h _ hp]

theorem wrappedL_lit (h dg rr : K) : wrappedL h dg rr =
    [⟨dg * rr, 0, 0⟩, ⟨0, dg * rr, 0⟩, ⟨-(dg * rr), 0, 0⟩, ⟨0, -(dg * rr), 0⟩,
     ⟨rr, 0, 0⟩, ⟨0, rr, 0⟩, ⟨-rr, 0, 0⟩, ⟨0, -rr, 0⟩, ⟨1, 0, 0⟩, ⟨0, 1, 0⟩, ⟨-1, 0, 0⟩, ⟨0, -1, 0⟩] := by
  simp [wrappedL, idx_quarter_turns, fanInnerFromL, fanOuterL, fanPtL, dir8, ratioAt]

/-- `WrappedDisk`: `0 < diagonal_ratio < 1` and the circle inside the square (`0 < radius < |corner − centre|`) -/
theorem wrapped_convex (h dg rr : K) (hd0 : 0 < dg) (hd1 : dg < 1) (hr0 : 0 < rr) (hr1 : rr < 1) :
    ∀ q ∈ sketchQuads "WrappedDisk", convexCCW (quadOf (wrappedL h dg rr) q) := by
  rw [quads_wrapped]
  have a0 : 0 < dg * rr := mul_pos hd0 hr0
  have a1 : 0 < rr - dg * rr := by nlinarith
  have a2 : 0 < 1 - rr := by linarith
  intro q hq
  simp only [List.mem_cons, List.not_mem_nil, or_false] at hq
  rcases hq with rfl | rfl | rfl | rfl | rfl | rfl | rfl | rfl | rfl <;>
  · simp [quadOf, wrappedL_lit]
    unfold convexCCW cross2K
    dsimp only
    refine ⟨rfl, rfl, rfl, rfl, ?_, ?_, ?_, ?_⟩ <;>
      linarith [mul_pos a0 a0, mul_pos a0 a1, mul_pos a0 a2, mul_pos a0 hr0, mul_pos a1 a1, mul_pos a1 a2,
        mul_pos a1 hr0, mul_pos a2 a2, mul_pos a2 hr0, mul_pos hr0 hr0]

/-! ### Grid -/

theorem linCoord_step (a b : K) (n i : Nat) :
    linCoord a b n (i + 1) - linCoord a b n i = (b - a) / (n : K) := by
  simp only [linCoord, Nat.cast_add, Nat.cast_one]; ring

/-- every block of `ExtrudedShape(Grid(p1, p2, n, m), amount)` with `p1 < p2` coordinate-wise and `amount > 0` has
    eight positive corner Jacobians -/
theorem gridHex_RH (x1 y1 x2 y2 a : K) (n m ix iy : Nat) (hx : x1 < x2) (hy : y1 < y2) (hn : 0 < n) (hm : 0 < m)
    (ha : 0 < a) : (gridHex x1 y1 x2 y2 n m ix iy a).RH := by
  have hnK : (0 : K) < (n : K) := Nat.cast_pos.mpr hn
  have hmK : (0 : K) < (m : K) := Nat.cast_pos.mpr hm
  have dx : 0 < (x2 - x1) / (n : K) := div_pos (by linarith) hnK
  have dy : 0 < (y2 - y1) / (m : K) := div_pos (by linarith) hmK
  have sx := linCoord_step x1 x2 n ix
  have sy := linCoord_step y1 y2 m iy
  have key : 0 < ((x2 - x1) / (n : K)) * ((y2 - y1) / (m : K)) * a := mul_pos (mul_pos dx dy) ha
  generalize (x2 - x1) / (n : K) = ex at sx key
  generalize (y2 - y1) / (m : K) = ey at sy key
  have e1 : linCoord x1 x2 n (ix + 1) = linCoord x1 x2 n ix + ex := by linarith
  have e2 : linCoord y1 y2 m (iy + 1) = linCoord y1 y2 m iy + ey := by linarith
  unfold Hex.RH Hex.jacs gridHex
  rw [e1, e2]
  generalize linCoord x1 x2 n ix = X
  generalize linCoord y1 y2 m iy = Y
  intro j hj
  simp only [List.mem_cons, List.not_mem_nil, or_false] at hj
  rcases hj with rfl | rfl | rfl | rfl | rfl | rfl | rfl | rfl <;>
    (simp only [P3.triple, dot, cross, sub]; nlinarith [key])

end CBV.C11
