/-
C14 — the float post-processing as an abstract contract.

`CellBase.quality` = Σ over triangle cosines of `A`, + Σ over corner cosines of `B`, + `C` of the aspect ratio, where
`A = q_scale₀ ∘ deg ∘ acos`, `B = q_scale₁ ∘ |deg ∘ acos − 90|`, `C = q_scale₂ ∘ log10` are float functions the model
keeps opaque.  Here they are arbitrary functions; what is proved needs only the stated hypotheses (Lipschitz constant,
monotonicity), which the real functions satisfy on the stated ranges.
-/
import CBV.Lemmas.C14Guard

namespace CBV.C14
open CBV

/-! ### Lipschitz post-processing: argument bounds become a bound on the value -/

/-- sum of `f` over the first / second components of a list of (argument, perturbed argument, allowed difference) -/
theorem sum_lipschitz (f : Rat → Rat) (L : Rat) (hL : ∀ x y, |f x - f y| ≤ L * |x - y|) (hL0 : 0 ≤ L)
    (l : List (Rat × Rat × Rat)) (h : ∀ t ∈ l, |t.1 - t.2.1| ≤ t.2.2) :
    |(l.map (fun t => f t.1)).sum - (l.map (fun t => f t.2.1)).sum| ≤ L * (l.map (fun t => t.2.2)).sum := by
  induction l with
  | nil => simp
  | cons a l ih =>
    have h1 := h a (by simp)
    have h2 := ih (fun t ht => h t (by simp [ht]))
    simp only [List.map_cons, List.sum_cons]
    have h3 : |f a.1 - f a.2.1| ≤ L * a.2.2 := (hL _ _).trans (mul_le_mul_of_nonneg_left h1 hL0)
    have e : f a.1 + (l.map (fun t => f t.1)).sum - (f a.2.1 + (l.map (fun t => f t.2.1)).sum)
        = (f a.1 - f a.2.1) + ((l.map (fun t => f t.1)).sum - (l.map (fun t => f t.2.1)).sum) := by ring
    rw [e]
    calc |f a.1 - f a.2.1 + ((l.map (fun t => f t.1)).sum - (l.map (fun t => f t.2.1)).sum)|
        ≤ |f a.1 - f a.2.1| + |(l.map (fun t => f t.1)).sum - (l.map (fun t => f t.2.1)).sum| := abs_add_le _ _
      _ ≤ L * a.2.2 + L * (l.map (fun t => t.2.2)).sum := add_le_add h3 h2
      _ = L * (a.2.2 + (l.map (fun t => t.2.2)).sum) := by ring

/-- the value assembled from the arguments of the three kinds of terms -/
def valueOf (A B C : Rat → Rat) (tris corners : List Rat) (aspect : Rat) : Rat :=
  (tris.map A).sum + (corners.map B).sum + C aspect

/-- **argument bounds transfer to the value**: with `L`-Lipschitz `A`, `B`, `C`, perturbing every triangle argument by
    at most its `δ`, every corner argument by at most its `δ` and the aspect argument by at most `δa` changes the
    value by at most `L·(Σδ + Σδ + δa)` -/
theorem value_lipschitz (A B C : Rat → Rat) (L : Rat) (hL0 : 0 ≤ L)
    (hA : ∀ x y, |A x - A y| ≤ L * |x - y|) (hB : ∀ x y, |B x - B y| ≤ L * |x - y|)
    (hC : ∀ x y, |C x - C y| ≤ L * |x - y|)
    (tris corners : List (Rat × Rat × Rat)) (asp asp' δa : Rat)
    (ht : ∀ t ∈ tris, |t.1 - t.2.1| ≤ t.2.2) (hc : ∀ t ∈ corners, |t.1 - t.2.1| ≤ t.2.2) (ha : |asp - asp'| ≤ δa) :
    |valueOf A B C (tris.map (·.1)) (corners.map (·.1)) asp - valueOf A B C (tris.map (·.2.1)) (corners.map (·.2.1)) asp'|
      ≤ L * ((tris.map (·.2.2)).sum + (corners.map (·.2.2)).sum + δa) := by
  unfold valueOf
  simp only [List.map_map]
  have h1 := sum_lipschitz A L hA hL0 tris ht
  have h2 := sum_lipschitz B L hB hL0 corners hc
  have h3 : |C asp - C asp'| ≤ L * δa := (hC _ _).trans (mul_le_mul_of_nonneg_left ha hL0)
  have e : (List.map (A ∘ fun x => x.1) tris).sum + (List.map (B ∘ fun x => x.1) corners).sum + C asp -
      ((List.map (A ∘ fun x => x.2.1) tris).sum + (List.map (B ∘ fun x => x.2.1) corners).sum + C asp')
      = ((tris.map (fun t => A t.1)).sum - (tris.map (fun t => A t.2.1)).sum)
        + ((corners.map (fun t => B t.1)).sum - (corners.map (fun t => B t.2.1)).sum) + (C asp - C asp') := by
    simp only [Function.comp_def]; ring
  rw [e]
  calc _ ≤ |(tris.map (fun t => A t.1)).sum - (tris.map (fun t => A t.2.1)).sum
            + ((corners.map (fun t => B t.1)).sum - (corners.map (fun t => B t.2.1)).sum)| + |C asp - C asp'| := abs_add_le _ _
    _ ≤ |(tris.map (fun t => A t.1)).sum - (tris.map (fun t => A t.2.1)).sum|
          + |(corners.map (fun t => B t.1)).sum - (corners.map (fun t => B t.2.1)).sum| + |C asp - C asp'| :=
        add_le_add (abs_add_le _ _) le_rfl
    _ ≤ L * (tris.map (fun t => t.2.2)).sum + L * (corners.map (fun t => t.2.2)).sum + L * δa :=
        add_le_add (add_le_add h1 h2) h3
    _ = L * ((tris.map (·.2.2)).sum + (corners.map (·.2.2)).sum + δa) := by ring

/-! ### monotone terms -/

/-- one term of the measure with an abstract power function: `factor · pw base (exponent · x) − factor` -/
def qterm (pw : Rat → Rat → Rat) (b e f x : Rat) : Rat := f * pw b (e * x) - f

/-- a term is non-decreasing in `x` as soon as `base > 1`, `exponent > 0`, `factor > 0` and the power function is
    non-decreasing in its exponent for bases above 1 (as the real `b ^ x` is) -/
theorem qterm_mono (pw : Rat → Rat → Rat) (hpw : ∀ b, 1 < b → ∀ x y, x ≤ y → pw b x ≤ pw b y)
    (b e f : Rat) (hb : 1 < b) (he : 0 < e) (hf : 0 < f) (x y : Rat) (hxy : x ≤ y) :
    qterm pw b e f x ≤ qterm pw b e f y := by
  unfold qterm
  have h1 : e * x ≤ e * y := mul_le_mul_of_nonneg_left hxy (le_of_lt he)
  have h2 := hpw b hb _ _ h1
  have h3 : f * pw b (e * x) ≤ f * pw b (e * y) := mul_le_mul_of_nonneg_left h2 (le_of_lt hf)
  linarith

/-- the value of a scale-free signature for abstract term functions on (sign, squared cosine) and on the squared
    aspect ratio -/
def value0 (A B : Tri0 → Rat) (C : Rat → Rat) (s : Sig0) : Rat :=
  (s.tris.map A).sum + (s.corners.map B).sum + C s.aspect2

end CBV.C14
