/-
C05 — what `VertexList.add` guarantees when closeness is NOT assumed to be an equivalence on the points
that occur (near-chains: a–b and b–c within the tolerance, a–c not): first-match semantics.
Only reflexivity and symmetry of the closeness test are used; both hold for `norm(p − q) < TOL`
on all of space.
-/
import CBV.Lemmas.C05
import Mathlib.Tactic.Ring
import Mathlib.Tactic.NormNum
import Mathlib.Algebra.Order.Field.Rat
import CBV.Gen.TC05

set_option linter.unusedSectionVars false

namespace CBV.C05

section First
variable {P N : Type} [DecidableEq N] [LinearOrder N] (close : P → P → Bool)

/-- `close` is reflexive and symmetric on `S` (no transitivity: no clustering is assumed) -/
structure CloseRSOn (S : P → Prop) : Prop where
  refl : ∀ p, S p → close p p = true
  symm : ∀ p q, S p → S q → close p q = true → close q p = true

theorem CloseEquivOn.toRS {S : P → Prop} (h : CloseEquivOn close S) : CloseRSOn close S := ⟨h.refl, h.symm⟩

/-- the call is answered by the *first* registry entry (in creation order) that matches its key -/
def Found (vl : VList P N) (call : P × List N) (v : Vertex P) : Prop :=
  findDuplicated close vl call.1 (sort call.2) = some v

theorem Found.mono {a b : VList P N} (h : Ext a b) {call : P × List N} {v : Vertex P}
    (hf : Found close a call v) : Found close b call v := by
  obtain ⟨suf, hs⟩ := h
  unfold Found findDuplicated at *
  rw [Option.map_eq_some_iff] at hf
  obtain ⟨d, hd, rfl⟩ := hf
  rw [hs, List.find?_append, hd]
  rfl

theorem add_some_first {S : P → Prop} (hc : CloseRSOn close S) {vl : VList P N} (hi : Inv close S vl)
    (p : P) (hp : S p) (s : List N) :
    Inv close S (add close vl p (some s)).1 ∧ Ext vl (add close vl p (some s)).1 ∧
      Placed close (add close vl p (some s)).1 (p, s) (add close vl p (some s)).2 ∧
      Found close (add close vl p (some s)).1 (p, s) (add close vl p (some s)).2 := by
  rw [add_some_eq]
  cases hf : findDuplicated close vl p (sort s) with
  | some v =>
    refine ⟨hi, Ext.refl _, ?_, hf⟩
    unfold findDuplicated at hf
    rw [Option.map_eq_some_iff] at hf
    obtain ⟨d, hd, rfl⟩ := hf
    have hm := List.mem_of_find?_eq_some hd
    have hp := List.find?_some hd
    simp only [Bool.and_eq_true, decide_eq_true_eq] at hp
    exact ⟨d, hm, rfl, hp.1, hp.2⟩
  | none =>
    have hf0 := hf
    unfold findDuplicated at hf
    rw [Option.map_eq_none_iff, List.find?_eq_none] at hf
    have hlen : vl.duplicated.length = vl.vertices.length := by rw [← hi.reg, List.length_map]
    refine ⟨⟨?_, ?_, ?_, ?_⟩, ⟨[⟨newVertex vl p, sort s⟩], rfl⟩, ?_, ?_⟩
    · intro d hd
      rcases List.mem_append.mp hd with hd | hd
      · exact hi.inS d hd
      · simp only [List.mem_singleton] at hd; subst hd; exact hp
    · simp [hi.reg]
    · intro i d hd
      rw [List.getElem?_append] at hd
      split at hd
      · exact hi.dense i d hd
      · rename_i hlt
        have : i - vl.duplicated.length = 0 := by
          cases h : i - vl.duplicated.length with
          | zero => rfl
          | succ k => rw [h] at hd; simp at hd
        rw [this] at hd
        simp only [List.getElem?_cons_zero, Option.some.injEq] at hd
        subst hd
        simp only [newVertex]
        omega
    · rw [List.pairwise_append]
      refine ⟨hi.distinct, by simp, ?_⟩
      intro d hd e he
      simp only [List.mem_singleton] at he
      subst he
      intro ⟨h1, h2⟩
      have := hf d hd
      simp only [Bool.and_eq_true, decide_eq_true_eq, not_and] at this
      exact this (hc.symm _ _ (hi.inS d hd) hp h1) h2
    · exact ⟨⟨newVertex vl p, sort s⟩, by simp, rfl, hc.refl p hp, rfl⟩
    · show findDuplicated close _ p (sort s) = some (newVertex vl p)
      unfold findDuplicated at hf0 ⊢
      rw [Option.map_eq_none_iff] at hf0
      simp only [List.find?_append, hf0, Option.none_or]
      have hr : close p (newVertex vl p).pos = true := hc.refl p hp
      simp [List.find?, hr]

/-- zip-wise statement about a run of `add(point, list)` calls, no transitivity assumed -/
theorem runAdds_first {S : P → Prop} (hc : CloseRSOn close S) (calls : List (P × List N)) :
    ∀ {vl : VList P N}, Inv close S vl → (∀ c ∈ calls, S c.1) →
      Inv close S (runAdds close vl calls).1 ∧ Ext vl (runAdds close vl calls).1 ∧
      (runAdds close vl calls).2.length = calls.length ∧
      ∀ x ∈ calls.zip (runAdds close vl calls).2,
        Placed close (runAdds close vl calls).1 x.1 x.2 ∧ Found close (runAdds close vl calls).1 x.1 x.2 := by
  induction calls with
  | nil => intro vl hi _; exact ⟨hi, Ext.refl _, rfl, by simp [runAdds]⟩
  | cons c rest ih =>
    intro vl hi hS
    obtain ⟨p, s⟩ := c
    obtain ⟨h1, h2, h3, h3'⟩ := add_some_first close hc hi p (hS (p, s) List.mem_cons_self) s
    obtain ⟨k1, k2, k3, k4⟩ := ih h1 (fun c hcm => hS c (List.mem_cons_of_mem _ hcm))
    simp only [runAdds]
    refine ⟨k1, h2.trans k2, by simp [k3], ?_⟩
    intro x hx
    simp only [List.zip_cons_cons, List.mem_cons] at hx
    rcases hx with rfl | hx
    · exact ⟨h3.mono close k2, h3'.mono close k2⟩
    · exact k4 x hx

/-- zip-wise statement about the vertex part of `Mesh.assemble`, no transitivity assumed -/
theorem assemble_first {S : P → Prop} (hc : CloseRSOn close S) (slaves : List N) (ops : List (Op P N)) :
    ∀ {vl : VList P N}, Inv close S vl → (∀ op ∈ ops, ∀ p ∈ op.pts, S p) →
      Inv close S (assemble close slaves vl ops).1 ∧ Ext vl (assemble close slaves vl ops).1 ∧
      (assemble close slaves vl ops).2.length = ops.length ∧
      ∀ b ∈ ops.zip (assemble close slaves vl ops).2,
        b.2.length = (cornerCalls slaves b.1).length ∧
        ∀ x ∈ (cornerCalls slaves b.1).zip b.2,
          Placed close (assemble close slaves vl ops).1 x.1 x.2 ∧ Found close (assemble close slaves vl ops).1 x.1 x.2 := by
  induction ops with
  | nil => intro vl hi _; exact ⟨hi, Ext.refl _, rfl, by simp [assemble]⟩
  | cons op rest ih =>
    intro vl hi hS
    obtain ⟨h1, h2, h3, h4⟩ := runAdds_first close hc (cornerCalls slaves op) hi
      (fun c hcm => hS op List.mem_cons_self _ (cornerCalls_fst hcm))
    obtain ⟨k1, k2, k3, k4⟩ := ih (vl := (addVertices close slaves vl op).1) h1
      (fun o ho => hS o (List.mem_cons_of_mem _ ho))
    simp only [assemble]
    refine ⟨k1, h2.trans k2, by simp [k3], ?_⟩
    intro b hb
    simp only [List.zip_cons_cons, List.mem_cons] at hb
    rcases hb with rfl | hb
    · exact ⟨h3, fun x hx => ⟨(h4 x hx).1.mono close k2, (h4 x hx).2.mono close k2⟩⟩
    · exact k4 b hb

end First

/-! ### the instance of the line protocol: `norm(p − q) < TOL` on exact coordinates -/

theorem tol2_pos : (0 : Rat) < tol2 := by
  unfold tol2 tol
  simp only [CBV.Gen.c05TolNum, CBV.Gen.c05TolDen]
  norm_num

/-- the real closeness test is reflexive and symmetric on all of space -/
theorem closeV3_rs : CloseRSOn closeV3 (fun _ => True) := by
  constructor
  · intro p _
    unfold closeV3
    apply decide_eq_true
    have : V3.norm2 (p - p) = 0 := by
      show (p.x - p.x) * (p.x - p.x) + (p.y - p.y) * (p.y - p.y) + (p.z - p.z) * (p.z - p.z) = 0
      ring
    rw [this]; exact tol2_pos
  · intro p q _ _ h
    unfold closeV3 at *
    have h' := of_decide_eq_true h
    apply decide_eq_true
    have : V3.norm2 (q - p) = V3.norm2 (p - q) := by
      show (q.x - p.x) * (q.x - p.x) + (q.y - p.y) * (q.y - p.y) + (q.z - p.z) * (q.z - p.z) =
        (p.x - q.x) * (p.x - q.x) + (p.y - q.y) * (p.y - q.y) + (p.z - q.z) * (p.z - q.z)
      ring
    rw [this]; exact h'

end CBV.C05
