/-
C03 — the semantic tie for the closed-form relations: the tokens generated from the source decode to a body whose
semantics (`run`) is the model function, for all arguments.  The obligation is stated through semantic equality of
bodies (`SemEq`), so it does not require the decoded tree to be syntactically the model's.
-/
import CBV.Lemmas.C03Decode
import CBV.Lemmas.C03Trans

namespace CBV.C03

/-- two bodies mean the same: equal outcome for every slot interpretation and every environment -/
def SemEq (b₁ b₂ : List Stmt) : Prop := ∀ (P : Prims) (env : PEnv), run P env b₁ = run P env b₂

theorem SemEq.refl (b : List Stmt) : SemEq b b := fun _ _ => rfl
theorem SemEq.symm {b₁ b₂ : List Stmt} (h : SemEq b₁ b₂) : SemEq b₂ b₁ := fun P env => (h P env).symm
theorem SemEq.trans {b₁ b₂ b₃ : List Stmt} (h : SemEq b₁ b₂) (h' : SemEq b₂ b₃) : SemEq b₁ b₃ :=
  fun P env => (h P env).trans (h' P env)

/-- the shape of the semantic obligation: the generated tokens decode to *some* body `t` that means the same as the
    model's body, and the model's body evaluates to the model function -/
theorem semantic_tie {toks : List String} {t body : List Stmt} {P : Prims} {env : PEnv} {res : Except Err ℚ}
    (hdec : decodeBody toks = some t) (hsem : SemEq t body) (hrun : run P env body = res) :
    (decodeBody toks).map (fun b => run P env b) = some res := by
  rw [hdec, Option.map_some, hsem P env, hrun]

theorem semantic_start_count_c2c (P : Prims) (L r : ℚ) (n : ℕ) :
    (decodeBody CBV.Gen.c03Body_start_size__count__c2c_expansion).map
      (fun b => run P (relEnv ⟨.start, .count, .c2c⟩ L n r) b) = some (startCountC2c L n r) :=
  semantic_tie body_start_count_c2c_decoded (SemEq.refl _) (run_start_count_c2c P L r n)

theorem semantic_start_end_total (P : Prims) (L e T : ℚ) :
    (decodeBody CBV.Gen.c03Body_start_size__end_size__total_expansion).map
      (fun b => run P (relEnv ⟨.start, .end_, .total⟩ L e T) b) = some (startEndTotal L e T) :=
  semantic_tie body_start_end_total_decoded (SemEq.refl _) (run_start_end_total P L e T)

theorem semantic_end_start_total (P : Prims) (L s T : ℚ) :
    (decodeBody CBV.Gen.c03Body_end_size__start_size__total_expansion).map
      (fun b => run P (relEnv ⟨.end_, .start, .total⟩ L s T) b) = some (endStartTotal L s T) :=
  semantic_tie body_end_start_total_decoded (SemEq.refl _) (run_end_start_total P L s T)

theorem semantic_total_count_c2c (P : Prims) (L r : ℚ) (n : ℕ) :
    (decodeBody CBV.Gen.c03Body_total_expansion__count__c2c_expansion).map
      (fun b => run P (relEnv ⟨.total, .count, .c2c⟩ L n r) b) = some (totalCountC2c L n r) :=
  semantic_tie body_total_count_c2c_decoded (SemEq.refl _) (run_total_count_c2c P L r n)

theorem semantic_total_start_end (P : Prims) (L s e : ℚ) :
    (decodeBody CBV.Gen.c03Body_total_expansion__start_size__end_size).map
      (fun b => run P (relEnv ⟨.total, .start, .end_⟩ L s e) b) = some (totalStartEnd L s e) :=
  semantic_tie body_total_start_end_decoded (SemEq.refl _) (run_total_start_end P L s e)

end CBV.C03
