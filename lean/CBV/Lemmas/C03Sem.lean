/-
C03 — the semantic tie for the closed-form relations: the tokens generated from the source decode to a body whose
semantics (`run`) is the model function, for all arguments.  The obligation is stated through semantic equality of
bodies (`SemEq`), so it does not require the decoded tree to be syntactically the model's.
-/
import CBV.Lemmas.C03Decode
import CBV.Lemmas.C03Trans

namespace CBV.C03

/-- two bodies mean the same: equal outcome for every slot interpretation and every environment -/
def SemEq (b₁ b₂ : List Stmt) : Prop := ∀ (P : Prims) (env : PEnv), run P env b₁ = run P env b₂

theorem SemEq.refl (b : List Stmt) : SemEq b b := fun _ _ => rfl
theorem SemEq.symm {b₁ b₂ : List Stmt} (h : SemEq b₁ b₂) : SemEq b₂ b₁ := fun P env => (h P env).symm
theorem SemEq.trans {b₁ b₂ b₃ : List Stmt} (h : SemEq b₁ b₂) (h' : SemEq b₂ b₃) : SemEq b₁ b₃ :=
  fun P env => (h P env).trans (h' P env)

/-- the shape of the semantic obligation: the generated tokens decode to *some* body `t` that means the same as the
    model's body, and the model's body evaluates to the model function -/
theorem semantic_tie {toks : List String} {t body : List Stmt} {P : Prims} {env : PEnv} {res : Except Err ℚ}
    (hdec : decodeBody toks = some t) (hsem : SemEq t body) (hrun : run P env body = res) :
    (decodeBody toks).map (fun b => run P env b) = some res := by
  rw [hdec, Option.map_some, hsem P env, hrun]

theorem semantic_start_count_c2c (P : Prims) (L r : ℚ) (n : ℕ) :
    (decodeBody CBV.Gen.c03Body_start_size__count__c2c_expansion).map
      (fun b => run P (relEnv ⟨.start, .count, .c2c⟩ L n r) b) = some (startCountC2c L n r) :=
  semantic_tie body_start_count_c2c_decoded (SemEq.refl _) (run_start_count_c2c P L r n)

theorem semantic_start_end_total (P : Prims) (L e T : ℚ) :
    (decodeBody CBV.Gen.c03Body_start_size__end_size__total_expansion).map
      (fun b => run P (relEnv ⟨.start, .end_, .total⟩ L e T) b) = some (startEndTotal L e T) :=
  semantic_tie body_start_end_total_decoded (SemEq.refl _) (run_start_end_total P L e T)

theorem semantic_end_start_total (P : Prims) (L s T : ℚ) :
    (decodeBody CBV.Gen.c03Body_end_size__start_size__total_expansion).map
      (fun b => run P (relEnv ⟨.end_, .start, .total⟩ L s T) b) = some (endStartTotal L s T) :=
  semantic_tie body_end_start_total_decoded (SemEq.refl _) (run_end_start_total P L s T)

theorem semantic_total_count_c2c (P : Prims) (L r : ℚ) (n : ℕ) :
    (decodeBody CBV.Gen.c03Body_total_expansion__count__c2c_expansion).map
      (fun b => run P (relEnv ⟨.total, .count, .c2c⟩ L n r) b) = some (totalCountC2c L n r) :=
  semantic_tie body_total_count_c2c_decoded (SemEq.refl _) (run_total_count_c2c P L r n)

theorem semantic_total_start_end (P : Prims) (L s e : ℚ) :
    (decodeBody CBV.Gen.c03Body_total_expansion__start_size__end_size).map
      (fun b => run P (relEnv ⟨.total, .start, .end_⟩ L s e) b) = some (totalStartEnd L s e) :=
  semantic_tie body_total_start_end_decoded (SemEq.refl _) (run_total_start_end P L s e)



/-! ### a first normaliser: operands of `+` and `*` in canonical order (value-level soundness) -/

/-- lexicographic order on token lists -/
def leToks : List String → List String → Bool
  | [], _ => true
  | _ :: _, [] => false
  | a :: as, b :: bs => if a = b then leToks as bs else decide (a < b)

/-- operands of `+` and `*` sorted by their encodings, bottom up -/
def canonE : Expr → Expr
  | .add a b => let a' := canonE a; let b' := canonE b; if leToks a'.enc b'.enc then .add a' b' else .add b' a'
  | .mul a b => let a' := canonE a; let b' := canonE b; if leToks a'.enc b'.enc then .mul a' b' else .mul b' a'
  | .sub a b => .sub (canonE a) (canonE b)
  | .div a b => .div (canonE a) (canonE b)
  | .pow a b => .pow (canonE a) (canonE b)
  | .abs a => .abs (canonE a)
  | e => e

theorem toOption_bind2 {f : ℚ → ℚ → Except Err ℚ} {x x' y y' : Except Err ℚ}
    (hx : x.toOption = x'.toOption) (hy : y.toOption = y'.toOption) :
    (do let u ← x; let v ← y; f u v : Except Err ℚ).toOption = (do let u ← x'; let v ← y'; f u v : Except Err ℚ).toOption := by
  cases x <;> cases x' <;> cases y <;> cases y' <;>
    simp_all [Except.toOption, bind, Except.bind]

theorem toOption_comm {g : ℚ → ℚ → ℚ} (hg : ∀ u v, g u v = g v u) (x y : Except Err ℚ) :
    (do let u ← x; let v ← y; pure (g u v) : Except Err ℚ).toOption =
      (do let v ← y; let u ← x; pure (g v u) : Except Err ℚ).toOption := by
  cases x <;> cases y <;> simp [Except.toOption, bind, Except.bind, pure, Except.pure, hg]

/-- sorting the operands of sums and products does not change the value of an expression (when both operands fail the
    *kind* of error reported may differ, which is why this is stated on `toOption`) -/
theorem evalE_canonE (env : PEnv) : ∀ e : Expr, (evalE env (canonE e)).toOption = (evalE env e).toOption := by
  intro e
  induction e with
  | add a b iha ihb =>
    simp only [canonE]
    split
    · exact toOption_bind2 (f := fun u v => pure (u + v)) iha ihb
    · rw [show (evalE env (.add (canonE b) (canonE a))).toOption =
          (do let v ← evalE env (canonE b); let u ← evalE env (canonE a); pure (v + u) : Except Err ℚ).toOption from rfl,
        ← toOption_comm (g := fun u v => u + v) (fun u v => add_comm u v)]
      exact toOption_bind2 (f := fun u v => pure (u + v)) iha ihb
  | mul a b iha ihb =>
    simp only [canonE]
    split
    · exact toOption_bind2 (f := fun u v => pure (u * v)) iha ihb
    · rw [show (evalE env (.mul (canonE b) (canonE a))).toOption =
          (do let v ← evalE env (canonE b); let u ← evalE env (canonE a); pure (v * u) : Except Err ℚ).toOption from rfl,
        ← toOption_comm (g := fun u v => u * v) (fun u v => mul_comm u v)]
      exact toOption_bind2 (f := fun u v => pure (u * v)) iha ihb
  | sub a b iha ihb => exact toOption_bind2 (f := fun u v => pure (u - v)) iha ihb
  | div a b iha ihb => exact toOption_bind2 (f := fun u v => if v = 0 then .error .zeroDiv else pure (u / v)) iha ihb
  | pow a b iha ihb =>
    exact toOption_bind2 (f := fun u v => match natOf v with | some k => pure (u ^ k) | none => .error .unmodelled) iha ihb
  | abs a iha =>
    simp only [canonE, evalE]
    cases h1 : evalE env (canonE a) <;> cases h2 : evalE env a <;>
      simp_all [Except.toOption, bind, Except.bind, pure, Except.pure]
  | _ => rfl

end CBV.C03
