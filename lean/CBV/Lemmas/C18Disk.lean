/-
C18 (round 6d) — `RoundSolidFinder.find_core / find_shell` on the disk classes themselves, in every placement.

Rounds 1–6c judged "core" and "outer rim" on tables of PROBE instances (`c18Sketches`: one placement per class, squared
distances rounded to 1e-6).  Here the point numbers the two finders look up are computed from the class's own `quad_map`
and `grid` as the source states them (C19's `sketchFromSource`, `c19QuadMaps`) and from the slice of `find_shell`
(`c18ShellSlice`), and C19's exact characterisation of the rim (`onCircle_iff`: a position of the placed sketch lies on the
circle through the radius point iff it comes from `get_outer_points`, for every centre, radius point, normal and every ordered
field with `2h² = 1`) says which positions these are.  Only `Model`/`Lemmas` modules of C19 and C11 are imported.
-/
import CBV.Lemmas.C18
import CBV.Lemmas.C19Rim
import CBV.Gen.TC18
import CBV.Gen.TC19

namespace CBV.C18
open CBV.C19 (lookup sketchFromSource SketchIdx rimStart nPositions canonCells canonPoints onCircle_iff)
open CBV.C11 (DiskCls)

/-- the point numbers (positions of the class: `[centre,] *inner, *outer`) `find_shell` looks up: `face.points[lo:hi]` of
    the faces in `.shell`, with the slice bounds of the current source -/
def shellIds (quads : List (List Nat)) (s : SketchIdx) : List Nat :=
  s.shell.flatMap (fun f =>
    ((quads.getD f []).drop CBV.Gen.c18ShellSlice.1).take (CBV.Gen.c18ShellSlice.2 - CBV.Gen.c18ShellSlice.1))

/-- the point numbers `find_core` looks up: all points of the faces in `.core` -/
def coreIds (quads : List (List Nat)) (s : SketchIdx) : List Nat := s.core.flatMap (fun f => quads.getD f [])

/-- decided on the tables regenerated from the source: the shell finder's points are exactly the positions that come from
    `get_outer_points`, the core finder's points exactly the others -/
def diskIdsOk (cl : DiskCls) : Bool :=
  match lookup cl.name CBV.Gen.c19QuadMaps, sketchFromSource cl.name with
  | some quads, some s =>
      (List.range (nPositions cl)).all (fun i =>
          ((shellIds quads s).contains i == decide (rimStart cl ≤ i)) &&
          ((coreIds quads s).contains i == decide (i < rimStart cl))) &&
        (shellIds quads s).all (fun i => decide (i < nPositions cl)) &&
        (coreIds quads s).all (fun i => decide (i < nPositions cl))
  | _, _ => false

theorem diskIds_table : [DiskCls.oneCore, .quarter, .half, .fourCore].all diskIdsOk = true := by decide +kernel

theorem diskIds_spec (cl : DiskCls) (quads : List (List Nat)) (s : SketchIdx)
    (hq : lookup cl.name CBV.Gen.c19QuadMaps = some quads) (hs : sketchFromSource cl.name = some s) (k : Nat) :
    (k ∈ shellIds quads s ↔ rimStart cl ≤ k ∧ k < nPositions cl) ∧
    (k ∈ coreIds quads s ↔ k < rimStart cl ∧ k < nPositions cl) := by
  have hT : diskIdsOk cl = true := by
    have := diskIds_table
    simp only [List.all_cons, List.all_nil, Bool.and_true, Bool.and_eq_true] at this
    cases cl
    · exact this.1
    · exact this.2.1
    · exact this.2.2.1
    · exact this.2.2.2
  simp only [diskIdsOk, hq, hs, Bool.and_eq_true, List.all_eq_true, List.mem_range, decide_eq_true_eq, beq_iff_eq] at hT
  obtain ⟨⟨hall, hsh⟩, hco⟩ := hT
  constructor
  · constructor
    · intro hk
      have hlt := hsh k hk
      have := (hall k hlt).1
      rw [List.contains_iff_mem.mpr hk] at this
      exact ⟨of_decide_eq_true this.symm, hlt⟩
    · rintro ⟨h1, h2⟩
      have := (hall k h2).1
      rw [decide_eq_true h1] at this
      exact List.contains_iff_mem.mp this
  · constructor
    · intro hk
      have hlt := hco k hk
      have := (hall k hlt).2
      rw [List.contains_iff_mem.mpr hk] at this
      exact ⟨of_decide_eq_true this.symm, hlt⟩
    · rintro ⟨h1, h2⟩
      have := (hall k h2).2
      rw [decide_eq_true h1] at this
      exact List.contains_iff_mem.mp this

/-- the tables the executable model (and the correspondence) uses are the canonical renumbering (points by first
    appearance along the faces) of the class-level structure of the source -/
def probeAgrees (cl : DiskCls) : Bool :=
  match lookup cl.name CBV.Gen.c19QuadMaps, sketchFromSource cl.name, sketchOf cl.name with
  | some quads, some s, some s18 =>
      s18.quads == canonCells quads && s18.core == s.core && s18.shell == s.shell &&
      (List.range s18.nPts).all (fun i =>
        (s18.shellOuterPts.contains i == (canonPoints quads (shellIds quads s)).contains i) &&
        (s18.corePts.contains i == (canonPoints quads (coreIds quads s)).contains i))
  | _, _, _ => false

theorem probe_table : [DiskCls.oneCore, .quarter, .half, .fourCore].all probeAgrees = true := by decide +kernel

end CBV.C18
