/-
C13 — helper lemmas about the optimiser model: what `GridBase.update` writes, the invariant
principle (anything preserved by every `moveClamp` is preserved by the whole optimiser), restoring.
-/
import CBV.Model.C13
import Mathlib.Order.Basic
import Mathlib.Data.List.Nodup
import Mathlib.Data.List.Perm.Basic
import Mathlib.Tactic.Linarith
import Mathlib.Tactic.Ring
import Mathlib.Algebra.Order.Field.Rat

namespace CBV.C13

variable {P Prm Q S : Type}

/-! ### what an update writes -/

theorem applyLinks_length (cfg : Cfg P Prm) (ls : List Link) (p : P) (pts : List P) :
    (applyLinks cfg ls p pts).length = pts.length := by
  induction ls generalizing pts with
  | nil => rfl
  | cons l ls ih => simp [applyLinks, List.foldl_cons] at ih ⊢; rw [ih]; simp

theorem applyLinks_get_of_not_mem (cfg : Cfg P Prm) (ls : List Link) (p : P) (pts : List P) (k : Nat)
    (hk : ∀ l ∈ ls, l.follower ≠ k) : (applyLinks cfg ls p pts)[k]? = pts[k]? := by
  induction ls generalizing pts with
  | nil => rfl
  | cons l ls ih =>
      simp only [applyLinks, List.foldl_cons] at ih ⊢
      rw [ih _ (fun l' hl' => hk l' (List.mem_cons_of_mem _ hl'))]
      rw [List.getElem?_set]
      simp [hk l (List.mem_cons_self ..)]

theorem applyLinks_get_mem (cfg : Cfg P Prm) (ls : List Link) (p : P) (pts : List P)
    (hnd : (ls.map (·.follower)).Nodup) (l : Link) (hl : l ∈ ls) (hr : l.follower < pts.length) :
    (applyLinks cfg ls p pts)[l.follower]? = some (cfg.linkFn l.lid p) := by
  induction ls generalizing pts with
  | nil => cases hl
  | cons a ls ih =>
      simp only [applyLinks, List.foldl_cons] at ih ⊢
      simp only [List.map_cons, List.nodup_cons] at hnd
      rcases List.mem_cons.mp hl with rfl | hl'
      · have := applyLinks_get_of_not_mem cfg ls p (pts.set l.follower (cfg.linkFn l.lid p)) l.follower
          (fun l' hl' h => hnd.1 (h ▸ List.mem_map_of_mem hl'))
        simp only [applyLinks] at this
        rw [this, List.getElem?_set]; simp [hr]
      · exact ih _ hnd.2 hl' (by simpa using hr)

theorem applyLinks_id (cfg : Cfg P Prm) (ls : List Link) (p : P) (pts : List P)
    (h : ∀ l ∈ ls, pts[l.follower]? = some (cfg.linkFn l.lid p)) : applyLinks cfg ls p pts = pts := by
  induction ls with
  | nil => rfl
  | cons l ls ih =>
      simp only [applyLinks, List.foldl_cons] at ih ⊢
      have h1 : pts.set l.follower (cfg.linkFn l.lid p) = pts := by
        apply List.ext_getElem?; intro k
        rw [List.getElem?_set]
        split
        · next hk => subst hk; rw [h l (List.mem_cons_self ..)]; split <;> simp_all
        · rfl
      rw [h1]; exact ih (fun l' hl' => h l' (List.mem_cons_of_mem _ hl'))

theorem mem_linksOf {cfg : Cfg P Prm} {idx : Nat} {l : Link} :
    l ∈ linksOf cfg idx ↔ l ∈ cfg.links ∧ l.leader = idx := by
  simp [linksOf]

/-- the cells `GridBase.update(idx, ·)` writes -/
def touched (cfg : Cfg P Prm) (idx k : Nat) : Prop := k = idx ∨ ∃ l ∈ linksOf cfg idx, l.follower = k

theorem updPts_length (cfg : Cfg P Prm) (pts : List P) (idx : Nat) (p : P) :
    (updPts cfg pts idx p).length = pts.length := by
  simp [updPts, applyLinks_length]

theorem updPts_frame (cfg : Cfg P Prm) (pts : List P) (idx : Nat) (p : P) (k : Nat)
    (hk : ¬ touched cfg idx k) : (updPts cfg pts idx p)[k]? = pts[k]? := by
  unfold updPts
  rw [applyLinks_get_of_not_mem _ _ _ _ _ (fun l hl h => hk (Or.inr ⟨l, hl, h⟩)), List.getElem?_set]
  have : idx ≠ k := fun h => hk (Or.inl h.symm)
  simp [this]

theorem updPts_leader (cfg : Cfg P Prm) (pts : List P) (idx : Nat) (p : P) (hr : idx < pts.length)
    (hself : ∀ l ∈ linksOf cfg idx, l.follower ≠ idx) : (updPts cfg pts idx p)[idx]? = some p := by
  unfold updPts
  rw [applyLinks_get_of_not_mem _ _ _ _ _ hself, List.getElem?_set]; simp [hr]

theorem updPts_follower (cfg : Cfg P Prm) (pts : List P) (idx : Nat) (p : P)
    (hnd : ((linksOf cfg idx).map (·.follower)).Nodup) (l : Link) (hl : l ∈ linksOf cfg idx)
    (hr : l.follower < pts.length) : (updPts cfg pts idx p)[l.follower]? = some (cfg.linkFn l.lid p) := by
  unfold updPts
  exact applyLinks_get_mem cfg _ p _ hnd l hl (by simpa using hr)

theorem updPts_id (cfg : Cfg P Prm) (pts : List P) (idx : Nat) (p : P) (h0 : pts[idx]? = some p)
    (h : ∀ l ∈ linksOf cfg idx, pts[l.follower]? = some (cfg.linkFn l.lid p)) : updPts cfg pts idx p = pts := by
  unfold updPts
  have h1 : pts.set idx p = pts := by
    apply List.ext_getElem?; intro k
    rw [List.getElem?_set]
    split
    · next hk => subst hk; rw [h0]; split <;> simp_all
    · rfl
  rw [h1]; exact applyLinks_id cfg _ p pts h

@[simp] theorem gridUpdate_fst (cfg : Cfg P Prm) (o : Oracles P Q) (pts : List P) (idx : Nat) (p : P) :
    (gridUpdate cfg o pts idx p).1 = updPts cfg pts idx p := by
  unfold gridUpdate; split <;> rfl

theorem gridUpdate_snd (cfg : Cfg P Prm) (o : Oracles P Q) (pts : List P) (idx : Nat) (p : P) :
    (gridUpdate cfg o pts idx p).2 =
      if linksOf cfg idx = [] then o.jq idx (updPts cfg pts idx p) else o.gq (updPts cfg pts idx p) := by
  unfold gridUpdate; split <;> simp_all

@[simp] theorem moveClamp_pts (cfg : Cfg P Prm) (o : Oracles P Q) (st : St P Prm) (j idx : Nat) (p : Prm) :
    (moveClamp cfg o st j idx p).1.pts = updPts cfg st.pts idx (cfg.pos j p) := by
  simp [moveClamp]

@[simp] theorem moveClamp_prm (cfg : Cfg P Prm) (o : Oracles P Q) (st : St P Prm) (j idx : Nat) (p : Prm) :
    (moveClamp cfg o st j idx p).1.prm = st.prm.set j p := by
  simp [moveClamp]

theorem moveClamp_snd (cfg : Cfg P Prm) (o : Oracles P Q) (st : St P Prm) (j idx : Nat) (p : Prm) :
    (moveClamp cfg o st j idx p).2 =
      if linksOf cfg idx = [] then o.jq idx (updPts cfg st.pts idx (cfg.pos j p))
      else o.gq (updPts cfg st.pts idx (cfg.pos j p)) := by
  simp [moveClamp, gridUpdate_snd]

/-! ### the invariant principle: what every `moveClamp` (with an allowed parameter vector) preserves,
the whole optimiser preserves -/

/-- `I` is preserved by moving any clamp `j` (sitting on its junction `idx`) to an allowed parameter
    vector; the parameter vectors a state holds are allowed. -/
structure Preserved (cfg : Cfg P Prm) (o : Oracles P Q) (I : St P Prm → Prop) (A : Nat → Prm → Prop) : Prop where
  move : ∀ st j idx p, cfg.clampIdx[j]? = some idx → I st → A j p → I (moveClamp cfg o st j idx p).1
  cur : ∀ st j p, I st → st.prm[j]? = some p → A j p

section principle
variable {cfg : Cfg P Prm} {o : Oracles P Q} {I : St P Prm → Prop} {A : Nat → Prm → Prop}

theorem runEvals_pres (hp : Preserved cfg o I A) {j idx : Nat} (hj : cfg.clampIdx[j]? = some idx)
    (st : St P Prm) (evals : List Prm) (hI : I st) (hA : ∀ e ∈ evals, A j e) :
    I (runEvals cfg o j idx st evals).1 := by
  induction evals generalizing st with
  | nil => simpa [runEvals] using hI
  | cons e es ih =>
      unfold runEvals
      have h1 := hp.move st j idx e hj hI (hA e (List.mem_cons_self ..))
      split
      · next st' _ heq => rw [heq] at h1; exact ih st' h1 (fun e' he' => hA e' (List.mem_cons_of_mem _ he'))
      · next st' heq => rw [heq] at h1; exact h1

theorem runProbe_pres (hp : Preserved cfg o I A) {j idx : Nat} (hj : cfg.clampIdx[j]? = some idx)
    (st : St P Prm) (evals : List Prm) (hI : I st) (hA : ∀ e ∈ evals, A j e) :
    I (runProbe cfg o j idx st evals).1 := by
  induction evals generalizing st with
  | nil => simpa [runProbe] using hI
  | cons e es ih =>
      unfold runProbe
      have h1 := hp.move st j idx e hj hI (hA e (List.mem_cons_self ..))
      split
      · next st' _ heq =>
          rw [heq] at h1
          split
          · exact ih st' h1 (fun e' he' => hA e' (List.mem_cons_of_mem _ he'))
          · exact h1
      · next st' heq => rw [heq] at h1; exact h1

theorem restoreSkip_pres (hp : Preserved cfg o I A) {j idx : Nat} (hj : cfg.clampIdx[j]? = some idx)
    (st : St P Prm) (init : Prm) (gi : Q) (hI : I st) (hA : A j init) :
    I (restoreSkip cfg o st j idx init gi).st := by
  simpa [restoreSkip] using hp.move st j idx init hj hI hA

theorem optimizeClamp_pres [LE Q] [DecidableLE Q] (hp : Preserved cfg o I A) (st : St P Prm) (j : Nat)
    (evals : List Prm) (sr : Bool) (hI : I st) (hA : ∀ e ∈ evals, A j e) :
    I (optimizeClamp cfg o st j evals sr).st := by
  unfold optimizeClamp
  split
  · next idx init hj hinit =>
      have hAi : A j init := hp.cur st j init hI hinit
      have hr := runEvals_pres hp hj st evals hI hA
      split
      · dsimp only
        split
        · split
          · split
            · split
              · exact hp.move _ j idx init hj hr hAi
              · exact restoreSkip_pres hp hj _ init _ (hp.move _ j idx init hj hr hAi) hAi
            · exact hr
          · exact restoreSkip_pres hp hj _ init _ hr hAi
        · exact restoreSkip_pres hp hj _ init _ hr hAi
      · exact hI
  · exact hI

theorem probeClamp_pres (hp : Preserved cfg o I A) {j idx : Nat} (hj : cfg.clampIdx[j]? = some idx)
    (st : St P Prm) (evals : List Prm) (hI : I st) (hA : ∀ e ∈ evals, A j e) :
    I (probeClamp cfg o st j idx evals).1 := by
  unfold probeClamp
  split
  · exact hI
  · next init hinit =>
      exact hp.move _ j idx init hj (runProbe_pres hp hj st evals hI hA) (hp.cur st j init hI hinit)

/-- a probe / solve schedule that only contains allowed parameter vectors -/
def SchedOK (A : Nat → Prm → Prop) (sch : IterSched Prm S) : Prop :=
  (∀ j, ∀ e ∈ (sch.probe j).1, A j e) ∧ (∀ k j, ∀ e ∈ (sch.solve k j).1, A j e)

theorem probeAll_pres (hp : Preserved cfg o I A) (sch : IterSched Prm S) (hs : SchedOK A sch)
    (todo : List (Nat × Nat)) (htodo : ∀ x ∈ todo, cfg.clampIdx[x.2]? = some x.1) (st : St P Prm) (hI : I st) :
    I (probeAll cfg o sch todo st).1 := by
  induction todo generalizing st with
  | nil => simpa [probeAll] using hI
  | cons x rest ih =>
      obtain ⟨idx, j⟩ := x
      unfold probeAll
      have h1 := probeClamp_pres hp (htodo (idx, j) (List.mem_cons_self ..)) st (sch.probe j).1 hI (hs.1 j)
      split
      · next st' e heq => rw [heq] at h1; exact h1
      · next st' heq =>
          rw [heq] at h1
          exact ih (fun x hx => htodo x (List.mem_cons_of_mem _ hx)) st' h1

theorem solveAll_pres [LE Q] [DecidableLE Q] (hp : Preserved cfg o I A) (sch : IterSched Prm S) (hs : SchedOK A sch)
    (order : List Nat) (k : Nat) (st : St P Prm) (hI : I st) : I (solveAll cfg o sch order k st).st := by
  induction order generalizing k st with
  | nil => simpa [solveAll] using hI
  | cons j js ih =>
      unfold solveAll
      have h1 := optimizeClamp_pres hp st j (sch.solve k j).1 (sch.solve k j).2 hI (hs.2 k j)
      dsimp only
      split
      · exact h1
      · exact ih (k + 1) _ h1

theorem zipIdx_clampIdx (cfg : Cfg P Prm) : ∀ x ∈ cfg.clampIdx.zipIdx, cfg.clampIdx[x.2]? = some x.1 :=
  fun _ hx => List.mem_zipIdx_iff_getElem?.mp hx

theorem optimizeIteration_pres [LE Q] [DecidableLE Q] [LT S] [DecidableLT S] (hp : Preserved cfg o I A)
    (sch : IterSched Prm S) (hs : SchedOK A sch) (st : St P Prm) (hI : I st) :
    I (optimizeIteration cfg o sch st).st := by
  unfold optimizeIteration
  have h1 := probeAll_pres hp sch hs _ (zipIdx_clampIdx cfg) st hI
  split
  · next st' _ e heq => rw [heq] at h1; exact h1
  · next st' keys heq => rw [heq] at h1; exact solveAll_pres hp sch hs _ 0 st' h1

theorem optimizeLoop_pres [LE Q] [DecidableLE Q] [LT S] [DecidableLT S] (hp : Preserved cfg o I A)
    (conv : List (Q × Q) → Bool) (maxIter : Nat) (sched : Nat → IterSched Prm S) (hs : ∀ k, SchedOK A (sched k))
    (fuel : Nat) (hist : List (Q × Q)) (steps : List (List (Step Q))) (st : St P Prm) (hI : I st) :
    I (optimizeLoop cfg o conv maxIter sched fuel hist steps st).st := by
  induction fuel generalizing hist steps st with
  | zero => unfold optimizeLoop; split <;> exact hI
  | succ fuel ih =>
      unfold optimizeLoop
      split
      · exact hI
      · dsimp only
        split
        · exact hI
        · have h1 := optimizeIteration_pres hp (sched hist.length) (hs _) st hI
          split
          · exact h1
          · split
            · exact h1
            · exact ih _ _ _ h1

theorem optimize_pres [LE Q] [DecidableLE Q] [LT S] [DecidableLT S] (hp : Preserved cfg o I A)
    (conv : List (Q × Q) → Bool) (maxIter : Nat) (sched : Nat → IterSched Prm S) (hs : ∀ k, SchedOK A (sched k))
    (st : St P Prm) (hI : I st) : I (optimize cfg o conv maxIter sched st).st :=
  optimizeLoop_pres hp conv maxIter sched hs _ _ _ st hI

end principle

/-! ### well-formed configurations, consistency, restoring -/

/-- At most one clamp per junction (what `Junction.add_clamp` enforces), every clamp on a junction
    of the grid, and the followers of clamped leaders are junctions of the grid, unclamped and
    pairwise different. -/
structure WF (cfg : Cfg P Prm) (n : Nat) : Prop where
  nodup : cfg.clampIdx.Nodup
  inRange : ∀ i ∈ cfg.clampIdx, i < n
  folRange : ∀ l ∈ cfg.links, l.leader ∈ cfg.clampIdx → l.follower < n
  folFree : ∀ l ∈ cfg.links, l.leader ∈ cfg.clampIdx → l.follower ∉ cfg.clampIdx
  folNodup : ((cfg.links.filter (fun l => decide (l.leader ∈ cfg.clampIdx))).map (·.follower)).Nodup

theorem mem_of_getElem? {l : List Nat} {j idx : Nat} (h : l[j]? = some idx) : idx ∈ l :=
  List.mem_of_getElem? h

section wf
variable {cfg : Cfg P Prm} {n : Nat}

theorem WF.followers_nodup (h : WF cfg n) {idx : Nat} (hi : idx ∈ cfg.clampIdx) :
    ((linksOf cfg idx).map (·.follower)).Nodup := by
  refine List.Nodup.sublist (List.Sublist.map _ ?_) h.folNodup
  unfold linksOf
  apply List.monotone_filter_right
  intro a ha
  simp at ha ⊢
  rw [ha]; exact hi

theorem WF.follower_ne (h : WF cfg n) {idx idx' : Nat} (hi : idx ∈ cfg.clampIdx) (hi' : idx' ∈ cfg.clampIdx)
    (hne : idx ≠ idx') {l l' : Link} (hl : l ∈ linksOf cfg idx) (hl' : l' ∈ linksOf cfg idx') :
    l.follower ≠ l'.follower := by
  intro heq
  rw [mem_linksOf] at hl hl'
  have m1 : l ∈ cfg.links.filter (fun l => decide (l.leader ∈ cfg.clampIdx)) := by
    simp [hl.1, hl.2, hi]
  have m2 : l' ∈ cfg.links.filter (fun l => decide (l.leader ∈ cfg.clampIdx)) := by
    simp [hl'.1, hl'.2, hi']
  have := List.inj_on_of_nodup_map h.folNodup m1 m2 heq
  apply hne; rw [← hl.2, ← hl'.2, this]

theorem WF.idx_ne (h : WF cfg n) {j j' idx idx' : Nat} (hj : cfg.clampIdx[j]? = some idx)
    (hj' : cfg.clampIdx[j']? = some idx') (hne : j ≠ j') : idx ≠ idx' := by
  intro heq
  subst heq
  have hlt : j < cfg.clampIdx.length := by
    rcases Nat.lt_or_ge j cfg.clampIdx.length with h1 | h1
    · exact h1
    · rw [List.getElem?_eq_none h1] at hj; cases hj
  exact hne ((List.getElem?_inj hlt h.nodup).mp (hj.trans hj'.symm))

/-- an update of a clamped junction does not touch another clamped junction nor its followers -/
theorem WF.not_touched_other (h : WF cfg n) {idx idx' : Nat} (hi : idx ∈ cfg.clampIdx)
    (hi' : idx' ∈ cfg.clampIdx) (hne : idx ≠ idx') :
    ¬ touched cfg idx idx' ∧ ∀ l' ∈ linksOf cfg idx', ¬ touched cfg idx l'.follower := by
  constructor
  · rintro (h1 | ⟨l, hl, h1⟩)
    · exact hne h1.symm
    · have := h.folFree l (mem_linksOf.mp hl).1 (by rw [(mem_linksOf.mp hl).2]; exact hi)
      exact this (h1 ▸ hi')
  · intro l' hl'
    rintro (h1 | ⟨l, hl, h1⟩)
    · have := h.folFree l' (mem_linksOf.mp hl').1 (by rw [(mem_linksOf.mp hl').2]; exact hi')
      exact this (h1 ▸ hi)
    · exact h.follower_ne hi hi' hne hl hl' h1

end wf

/-- clamp `j`: its junction is at the clamp position and its followers are where the links put them -/
def ConsAt (cfg : Cfg P Prm) (st : St P Prm) (j : Nat) : Prop :=
  ∀ idx p, cfg.clampIdx[j]? = some idx → st.prm[j]? = some p →
    st.pts[idx]? = some (cfg.pos j p) ∧
      ∀ l ∈ linksOf cfg idx, st.pts[l.follower]? = some (cfg.linkFn l.lid (cfg.pos j p))

/-- every clamped junction is at its clamp's position and every follower of a clamped leader is
    where its link puts it -/
def Consistent (cfg : Cfg P Prm) (st : St P Prm) : Prop := ∀ j, ConsAt cfg st j

/-- `st'` differs from `st` at most in what moving clamp `j` (junction `idx`) writes -/
structure SameOff (cfg : Cfg P Prm) (idx j : Nat) (st st' : St P Prm) : Prop where
  plen : st'.pts.length = st.pts.length
  qlen : st'.prm.length = st.prm.length
  pts : ∀ k, ¬ touched cfg idx k → st'.pts[k]? = st.pts[k]?
  prm : ∀ i, i ≠ j → st'.prm[i]? = st.prm[i]?

section sameoff
variable {cfg : Cfg P Prm} {o : Oracles P Q}

theorem SameOff.refl (idx j : Nat) (st : St P Prm) : SameOff cfg idx j st st :=
  ⟨rfl, rfl, fun _ _ => rfl, fun _ _ => rfl⟩

theorem SameOff.move {idx j : Nat} {st st' : St P Prm} (h : SameOff cfg idx j st st') (p : Prm) :
    SameOff cfg idx j st (moveClamp cfg o st' j idx p).1 := by
  refine ⟨?_, ?_, ?_, ?_⟩
  · simp [updPts_length, h.plen]
  · simp [h.qlen]
  · intro k hk; rw [moveClamp_pts, updPts_frame _ _ _ _ _ hk]; exact h.pts k hk
  · intro i hi; rw [moveClamp_prm, List.getElem?_set]; simp [Ne.symm hi]; exact h.prm i hi

theorem runEvals_sameOff {idx j : Nat} {st : St P Prm} (st' : St P Prm) (h : SameOff cfg idx j st st')
    (evals : List Prm) : SameOff cfg idx j st (runEvals cfg o j idx st' evals).1 := by
  induction evals generalizing st' with
  | nil => simpa [runEvals] using h
  | cons e es ih =>
      unfold runEvals
      have h1 := h.move (o := o) e
      split
      · next s _ heq => rw [heq] at h1; exact ih s h1
      · next s heq => rw [heq] at h1; exact h1

theorem runProbe_sameOff {idx j : Nat} {st : St P Prm} (st' : St P Prm) (h : SameOff cfg idx j st st')
    (evals : List Prm) : SameOff cfg idx j st (runProbe cfg o j idx st' evals).1 := by
  induction evals generalizing st' with
  | nil => simpa [runProbe] using h
  | cons e es ih =>
      unfold runProbe
      have h1 := h.move (o := o) e
      split
      · next s _ heq =>
          rw [heq] at h1
          split
          · exact ih s h1
          · exact h1
      · next s heq => rw [heq] at h1; exact h1

/-- Restoring the parameters of clamp `j` after any sequence of moves of clamp `j` gives back the
    state exactly, when the state was consistent at `j`. -/
theorem restore_eq {n : Nat} (hwf : WF cfg n) {idx j : Nat} {st st' : St P Prm} {init : Prm}
    (hlen : st.pts.length = n) (hj : cfg.clampIdx[j]? = some idx) (hinit : st.prm[j]? = some init)
    (hc : ConsAt cfg st j) (h : SameOff cfg idx j st st') :
    (moveClamp cfg o st' j idx init).1 = st := by
  have hi : idx ∈ cfg.clampIdx := mem_of_getElem? hj
  obtain ⟨hc0, hcl⟩ := hc idx init hj hinit
  have hself : ∀ l ∈ linksOf cfg idx, l.follower ≠ idx := fun l hl heq =>
    hwf.folFree l (mem_linksOf.mp hl).1 (by rw [(mem_linksOf.mp hl).2]; exact hi) (heq ▸ hi)
  have e1 : (moveClamp cfg o st' j idx init).1.pts = st.pts := by
    rw [moveClamp_pts]
    apply List.ext_getElem?
    intro k
    by_cases hk : touched cfg idx k
    · rcases hk with rfl | ⟨l, hl, rfl⟩
      · rw [updPts_leader _ _ _ _ (by rw [h.plen, hlen]; exact hwf.inRange _ hi) hself, hc0]
      · rw [updPts_follower _ _ _ _ (hwf.followers_nodup hi) l hl, hcl l hl]
        rw [h.plen, hlen]
        exact hwf.folRange l (mem_linksOf.mp hl).1 (by rw [(mem_linksOf.mp hl).2]; exact hi)
    · rw [updPts_frame _ _ _ _ _ hk]; exact h.pts k hk
  have e2 : (moveClamp cfg o st' j idx init).1.prm = st.prm := by
    rw [moveClamp_prm]
    apply List.ext_getElem?
    intro i
    rw [List.getElem?_set]
    by_cases hij : j = i
    · subst hij
      have : j < st.prm.length := by
        rcases Nat.lt_or_ge j st.prm.length with h1 | h1
        · exact h1
        · rw [List.getElem?_eq_none h1] at hinit; cases hinit
      rw [hinit]; simp [h.qlen, this]
    · simp [hij]; exact h.prm i (Ne.symm hij)
  cases hs : (moveClamp cfg o st' j idx init).1
  rw [hs] at e1 e2
  simp only at e1 e2
  subst e1 e2
  cases st; rfl

end sameoff

/-! ### instances of the invariant principle -/

section instances
variable {cfg : Cfg P Prm} {o : Oracles P Q} {n : Nat}

/-- the junctions the optimiser may write: clamped ones and followers of clamped leaders -/
def movable (cfg : Cfg P Prm) (k : Nat) : Prop :=
  k ∈ cfg.clampIdx ∨ ∃ l ∈ cfg.links, l.leader ∈ cfg.clampIdx ∧ l.follower = k

theorem touched_movable {idx k : Nat} (hi : idx ∈ cfg.clampIdx) (h : touched cfg idx k) : movable cfg k := by
  rcases h with rfl | ⟨l, hl, rfl⟩
  · exact Or.inl hi
  · exact Or.inr ⟨l, (mem_linksOf.mp hl).1, by rw [(mem_linksOf.mp hl).2]; exact hi, rfl⟩

/-- frame: everything that is not movable keeps its value (relative to a reference state) -/
theorem preserved_frame (st0 : St P Prm) :
    Preserved cfg o (fun st => st.pts.length = st0.pts.length ∧ ∀ k, ¬ movable cfg k → st.pts[k]? = st0.pts[k]?)
      (fun _ _ => True) where
  move := by
    intro st j idx p hj hI _
    refine ⟨by simp [updPts_length, hI.1], fun k hk => ?_⟩
    rw [moveClamp_pts, updPts_frame _ _ _ _ _ (fun ht => hk (touched_movable (mem_of_getElem? hj) ht))]
    exact hI.2 k hk
  cur := fun _ _ _ _ _ => trivial

/-- sizes -/
theorem preserved_len (n m : Nat) :
    Preserved cfg o (fun st => st.pts.length = n ∧ st.prm.length = m) (fun _ _ => True) where
  move := by
    intro st j idx p _ hI _
    exact ⟨by simp [updPts_length, hI.1], by simp [hI.2]⟩
  cur := fun _ _ _ _ _ => trivial

/-- parameter vectors stay inside whatever set the held and the evaluated ones are in -/
theorem preserved_bounds (B : Nat → Prm → Prop) :
    Preserved cfg o (fun st => ∀ j p, st.prm[j]? = some p → B j p) B where
  move := by
    intro st j idx p _ hI hA j' p' h
    rw [moveClamp_prm, List.getElem?_set] at h
    split at h
    · next hjj =>
        subst hjj
        split at h
        · cases h; exact hA
        · cases h
    · exact hI j' p' h
  cur := fun _ j p hI h => hI j p h

theorem consAt_self (hwf : WF cfg n) {st : St P Prm} {j idx : Nat} (p : Prm) (hlen : st.pts.length = n)
    (hj : cfg.clampIdx[j]? = some idx) : ConsAt cfg (moveClamp cfg o st j idx p).1 j := by
  intro idx' p' hj' hp'
  rw [hj] at hj'; cases hj'
  have hi : idx ∈ cfg.clampIdx := mem_of_getElem? hj
  rw [moveClamp_prm, List.getElem?_set] at hp'
  simp only [if_true] at hp'
  have hp : p' = p := by
    split at hp'
    · cases hp'; rfl
    · cases hp'
  subst hp
  have hself : ∀ l ∈ linksOf cfg idx, l.follower ≠ idx := fun l hl heq =>
    hwf.folFree l (mem_linksOf.mp hl).1 (by rw [(mem_linksOf.mp hl).2]; exact hi) (heq ▸ hi)
  refine ⟨?_, fun l hl => ?_⟩
  · rw [moveClamp_pts, updPts_leader _ _ _ _ (by rw [hlen]; exact hwf.inRange _ hi) hself]
  · rw [moveClamp_pts, updPts_follower _ _ _ _ (hwf.followers_nodup hi) l hl]
    rw [hlen]
    exact hwf.folRange l (mem_linksOf.mp hl).1 (by rw [(mem_linksOf.mp hl).2]; exact hi)

theorem consAt_other (hwf : WF cfg n) {st : St P Prm} {j j' idx : Nat} (p : Prm)
    (hj : cfg.clampIdx[j]? = some idx) (hne : j' ≠ j) (hc : ConsAt cfg st j') :
    ConsAt cfg (moveClamp cfg o st j idx p).1 j' := by
  intro idx' p' hj' hp'
  rw [moveClamp_prm, List.getElem?_set] at hp'
  simp only [Ne.symm hne, if_false] at hp'
  obtain ⟨h0, hl⟩ := hc idx' p' hj' hp'
  have hi : idx ∈ cfg.clampIdx := mem_of_getElem? hj
  have hi' : idx' ∈ cfg.clampIdx := mem_of_getElem? hj'
  have hne' : idx ≠ idx' := hwf.idx_ne hj hj' (Ne.symm hne)
  obtain ⟨t1, t2⟩ := hwf.not_touched_other hi hi' hne'
  refine ⟨?_, fun l hl' => ?_⟩
  · rw [moveClamp_pts, updPts_frame _ _ _ _ _ t1]; exact h0
  · rw [moveClamp_pts, updPts_frame _ _ _ _ _ (t2 l hl')]; exact hl l hl'

/-- consistency at every clamp of a set `D` (and the sizes) is preserved by every move;
    with `D = everything` this is `Consistent` -/
theorem preserved_cons (hwf : WF cfg n) (D : Nat → Prop) :
    Preserved cfg o
      (fun st => st.pts.length = n ∧ st.prm.length = cfg.clampIdx.length ∧ ∀ j, D j → ConsAt cfg st j)
      (fun _ _ => True) where
  move := by
    intro st j idx p hj hI _
    refine ⟨by simp [updPts_length, hI.1], by simp [hI.2.1], fun j' hD => ?_⟩
    by_cases hjj : j' = j
    · subst hjj; exact consAt_self hwf p hI.1 hj
    · exact consAt_other hwf p hj hjj (hI.2.2 j' hD)
  cur := fun _ _ _ _ _ => trivial

end instances

/-! ### rest states: sizes right and consistent.  A probe gives the state back; `optimize_clamp`
gives the state back or a strictly better one. -/

/-- the state between two calls of `_get_sensitivity` / `optimize_clamp` -/
def Rest (cfg : Cfg P Prm) (n : Nat) (st : St P Prm) : Prop :=
  st.pts.length = n ∧ st.prm.length = cfg.clampIdx.length ∧ Consistent cfg st

section rest
variable {cfg : Cfg P Prm} {o : Oracles P Q} {n : Nat}

theorem Rest.prm_some {st : St P Prm} (h : Rest cfg n st) {j idx : Nat} (hj : cfg.clampIdx[j]? = some idx) :
    ∃ init, st.prm[j]? = some init := by
  have hlt : j < cfg.clampIdx.length := by
    rcases Nat.lt_or_ge j cfg.clampIdx.length with h1 | h1
    · exact h1
    · rw [List.getElem?_eq_none h1] at hj; cases hj
  exact ⟨st.prm[j]'(by rw [h.2.1]; exact hlt), List.getElem?_eq_getElem _⟩

theorem restore_quality (hwf : WF cfg n) {idx j : Nat} {st st' : St P Prm} {init : Prm}
    (hlen : st.pts.length = n) (hj : cfg.clampIdx[j]? = some idx) (hinit : st.prm[j]? = some init)
    (hc : ConsAt cfg st j) (h : SameOff cfg idx j st st') :
    (moveClamp cfg o st' j idx init).2 = if linksOf cfg idx = [] then o.jq idx st.pts else o.gq st.pts := by
  have := congrArg St.pts (restore_eq (o := o) hwf hlen hj hinit hc h)
  rw [moveClamp_pts] at this
  rw [moveClamp_snd, this]

/-- `T_C13_sens` in lemma form: the sensitivity probe gives back the state it started from -/
theorem probeClamp_eq (hwf : WF cfg n) {st : St P Prm} (hr : Rest cfg n st) {j idx : Nat}
    (hj : cfg.clampIdx[j]? = some idx) (evals : List Prm) : (probeClamp cfg o st j idx evals).1 = st := by
  obtain ⟨init, hinit⟩ := hr.prm_some hj
  unfold probeClamp
  rw [hinit]
  exact restore_eq hwf hr.1 hj hinit (hr.2.2 j) (runProbe_sameOff st (SameOff.refl idx j st) evals)

theorem probeClamp_raised (hwf : WF cfg n) {st : St P Prm} (hr : Rest cfg n st) {j idx : Nat}
    (hj : cfg.clampIdx[j]? = some idx) (evals : List Prm)
    (hq : (o.gq st.pts).isSome) (hcoh : ∀ i pts, (o.gq pts).isSome → (o.jq i pts).isSome) :
    (probeClamp cfg o st j idx evals).2 = none := by
  obtain ⟨init, hinit⟩ := hr.prm_some hj
  unfold probeClamp
  rw [hinit]
  dsimp only
  rw [restore_quality hwf hr.1 hj hinit (hr.2.2 j) (runProbe_sameOff st (SameOff.refl idx j st) evals)]
  split <;> simp [hcoh idx st.pts hq]

/-- what `optimize_clamp` can do from a state that is consistent at the clamp -/
theorem optimizeClamp_spec [LinearOrder Q] (hwf : WF cfg n) (st : St P Prm) (hlen : st.pts.length = n)
    (j : Nat) (hc : ConsAt cfg st j) (evals : List Prm) (sr : Bool) :
    ((optimizeClamp cfg o st j evals sr).st = st ∧
        ∀ s, (optimizeClamp cfg o st j evals sr).step = some s → s.flag ≠ .improved) ∨
      ∃ gi gf, o.gq st.pts = some gi ∧ o.gq (optimizeClamp cfg o st j evals sr).st.pts = some gf ∧ gf < gi ∧
        (optimizeClamp cfg o st j evals sr).raised = none ∧
        (optimizeClamp cfg o st j evals sr).step = some ⟨j, .improved, gi, gf⟩ := by
  unfold optimizeClamp
  split
  · next idx init hj hinit =>
      have hso : SameOff cfg idx j st (runEvals cfg o j idx st evals).1 :=
        runEvals_sameOff st (SameOff.refl idx j st) evals
      have hre : ∀ s, SameOff cfg idx j st s → (moveClamp cfg o s j idx init).1 = st :=
        fun s hs => restore_eq hwf hlen hj hinit hc hs
      split
      · next gi _ hgi _ =>
          dsimp only
          split
          · split
            · next _ gf _ hgf =>
                split
                · next hle =>
                    split
                    · left; exact ⟨hre _ hso, by intro s hs; cases hs; simp⟩
                    · left
                      refine ⟨?_, by intro s hs; simp [restoreSkip] at hs; subst hs; simp⟩
                      simp only [restoreSkip]
                      exact hre _ (hso.move init)
                · next hle =>
                    right
                    exact ⟨gi, gf, hgi, hgf, not_le.mp hle, rfl, rfl⟩
            · left
              refine ⟨?_, by intro s hs; simp [restoreSkip] at hs; subst hs; simp⟩
              simp only [restoreSkip]; exact hre _ hso
          · left
            refine ⟨?_, by intro s hs; simp [restoreSkip] at hs; subst hs; simp⟩
            simp only [restoreSkip]; exact hre _ hso
      · left; exact ⟨rfl, by intro s hs; cases hs⟩
  · left; exact ⟨rfl, by intro s hs; cases hs⟩

theorem optimizeClamp_noraise [LinearOrder Q] (hwf : WF cfg n) (st : St P Prm) (hr : Rest cfg n st)
    {j idx : Nat} (hj : cfg.clampIdx[j]? = some idx) (evals : List Prm) (sr : Bool)
    (hq : (o.gq st.pts).isSome) (hcoh : ∀ i pts, (o.gq pts).isSome → (o.jq i pts).isSome) :
    (optimizeClamp cfg o st j evals sr).raised = none := by
  obtain ⟨init, hinit⟩ := hr.prm_some hj
  have hso : SameOff cfg idx j st (runEvals cfg o j idx st evals).1 :=
        runEvals_sameOff st (SameOff.refl idx j st) evals
  have hrq : ∀ s, SameOff cfg idx j st s → ((moveClamp cfg o s j idx init).2).isSome := by
    intro s hs
    rw [restore_quality hwf hr.1 hj hinit (hr.2.2 j) hs]
    split <;> simp [hq, hcoh idx st.pts hq]
  unfold optimizeClamp
  rw [hj, hinit]
  dsimp only
  obtain ⟨gi, hgi⟩ := Option.isSome_iff_exists.mp hq
  obtain ⟨ji, hji⟩ := Option.isSome_iff_exists.mp (hcoh idx st.pts hq)
  rw [hgi, hji]
  dsimp only
  split
  · split
    · split
      · split
        · rfl
        · next hnone =>
            have := hrq _ hso
            rw [hnone] at this; cases this
      · rfl
    · simp [restoreSkip, hrq _ hso]
  · simp [restoreSkip, hrq _ hso]

end rest

/-! ### the rest-level principle: what a probe and an `optimize_clamp` preserve, the run preserves;
and no `ValueError` leaves the run when none leaves a probe / an `optimize_clamp` / the grid quality -/

structure RestPreserved [LE Q] [DecidableLE Q] (cfg : Cfg P Prm) (o : Oracles P Q) (R : St P Prm → Prop) : Prop where
  probe : ∀ st j idx evals, cfg.clampIdx[j]? = some idx → R st → R (probeClamp cfg o st j idx evals).1
  solve : ∀ st j evals sr, R st → R (optimizeClamp cfg o st j evals sr).st

structure NoRaise [LE Q] [DecidableLE Q] (cfg : Cfg P Prm) (o : Oracles P Q) (R : St P Prm → Prop) : Prop
    extends RestPreserved cfg o R where
  probeOk : ∀ st j idx evals, cfg.clampIdx[j]? = some idx → R st → (probeClamp cfg o st j idx evals).2 = none
  solveOk : ∀ st j idx evals sr, cfg.clampIdx[j]? = some idx → R st →
    (optimizeClamp cfg o st j evals sr).raised = none
  gqOk : ∀ st, R st → (o.gq st.pts).isSome

section restprinciple
variable [LE Q] [DecidableLE Q] {cfg : Cfg P Prm} {o : Oracles P Q} {R : St P Prm → Prop}

theorem probeAll_rest (hp : RestPreserved cfg o R) (sch : IterSched Prm S)
    (todo : List (Nat × Nat)) (htodo : ∀ x ∈ todo, cfg.clampIdx[x.2]? = some x.1) (st : St P Prm) (hR : R st) :
    R (probeAll cfg o sch todo st).1 := by
  induction todo generalizing st with
  | nil => simpa [probeAll] using hR
  | cons x rest ih =>
      obtain ⟨idx, j⟩ := x
      unfold probeAll
      have h1 := hp.probe st j idx (sch.probe j).1 (htodo (idx, j) (List.mem_cons_self ..)) hR
      split
      · next st' e heq => rw [heq] at h1; exact h1
      · next st' heq =>
          rw [heq] at h1
          exact ih (fun x hx => htodo x (List.mem_cons_of_mem _ hx)) st' h1

theorem solveAll_rest (hp : RestPreserved cfg o R) (sch : IterSched Prm S)
    (order : List Nat) (k : Nat) (st : St P Prm) (hR : R st) : R (solveAll cfg o sch order k st).st := by
  induction order generalizing k st with
  | nil => simpa [solveAll] using hR
  | cons j js ih =>
      unfold solveAll
      have h1 := hp.solve st j (sch.solve k j).1 (sch.solve k j).2 hR
      dsimp only
      split
      · exact h1
      · exact ih (k + 1) _ h1

theorem optimizeIteration_rest [LT S] [DecidableLT S] (hp : RestPreserved cfg o R)
    (sch : IterSched Prm S) (st : St P Prm) (hR : R st) : R (optimizeIteration cfg o sch st).st := by
  unfold optimizeIteration
  have h1 := probeAll_rest hp sch _ (zipIdx_clampIdx cfg) st hR
  split
  · next st' _ e heq => rw [heq] at h1; exact h1
  · next st' keys heq => rw [heq] at h1; exact solveAll_rest hp sch _ 0 st' h1

theorem optimizeLoop_rest [LT S] [DecidableLT S] (hp : RestPreserved cfg o R)
    (conv : List (Q × Q) → Bool) (maxIter : Nat) (sched : Nat → IterSched Prm S)
    (fuel : Nat) (hist : List (Q × Q)) (steps : List (List (Step Q))) (st : St P Prm) (hR : R st) :
    R (optimizeLoop cfg o conv maxIter sched fuel hist steps st).st := by
  induction fuel generalizing hist steps st with
  | zero => unfold optimizeLoop; split <;> exact hR
  | succ fuel ih =>
      unfold optimizeLoop
      split
      · exact hR
      · dsimp only
        split
        · exact hR
        · have h1 := optimizeIteration_rest hp (sched hist.length) st hR
          split
          · exact h1
          · split
            · exact h1
            · exact ih _ _ _ h1

/-! keys of the probes are clamp numbers of the to-do list; sorting keeps them -/

omit [LE Q] [DecidableLE Q] in
theorem probeAll_keys (sch : IterSched Prm S) (todo : List (Nat × Nat)) (st : St P Prm) :
    ∀ x ∈ (probeAll cfg o sch todo st).2.1, ∃ idx, (idx, x.1) ∈ todo := by
  induction todo generalizing st with
  | nil => intro x hx; simp [probeAll] at hx
  | cons y rest ih =>
      obtain ⟨idx, j⟩ := y
      unfold probeAll
      split
      · intro x hx; simp at hx
      · next st' heq =>
          intro x hx
          simp only [List.mem_cons] at hx
          rcases hx with rfl | hx
          · exact ⟨idx, List.mem_cons_self ..⟩
          · obtain ⟨i, hi⟩ := ih st' x hx
            exact ⟨i, List.mem_cons_of_mem _ hi⟩

theorem mem_insertDesc [LT S] [DecidableLT S] (x y : Nat × S) (ys : List (Nat × S)) :
    y ∈ insertDesc x ys ↔ y = x ∨ y ∈ ys := by
  induction ys with
  | nil => simp [insertDesc]
  | cons z zs ih =>
      unfold insertDesc
      split
      · simp
      · simp only [List.mem_cons, ih]; tauto

theorem mem_sortDesc [LT S] [DecidableLT S] (xs : List (Nat × S)) (y : Nat × S) : y ∈ sortDesc xs ↔ y ∈ xs := by
  unfold sortDesc
  suffices h : ∀ acc : List (Nat × S),
      y ∈ xs.foldl (fun acc x => insertDesc x acc) acc ↔ y ∈ xs ∨ y ∈ acc by simpa using h []
  induction xs with
  | nil => intro acc; simp
  | cons x xs ih => intro acc; simp only [List.foldl_cons, ih, mem_insertDesc, List.mem_cons]; tauto

theorem probeAll_noraise (hp : NoRaise cfg o R) (sch : IterSched Prm S)
    (todo : List (Nat × Nat)) (htodo : ∀ x ∈ todo, cfg.clampIdx[x.2]? = some x.1) (st : St P Prm) (hR : R st) :
    (probeAll cfg o sch todo st).2.2 = none := by
  induction todo generalizing st with
  | nil => simp [probeAll]
  | cons x rest ih =>
      obtain ⟨idx, j⟩ := x
      have hj := htodo (idx, j) (List.mem_cons_self ..)
      unfold probeAll
      have h1 := hp.probe st j idx (sch.probe j).1 hj hR
      have h2 := hp.probeOk st j idx (sch.probe j).1 hj hR
      split
      · next st' e heq => rw [heq] at h2; cases h2
      · next st' heq =>
          rw [heq] at h1
          exact ih (fun x hx => htodo x (List.mem_cons_of_mem _ hx)) st' h1

theorem solveAll_noraise (hp : NoRaise cfg o R) (sch : IterSched Prm S)
    (order : List Nat) (horder : ∀ j ∈ order, ∃ idx, cfg.clampIdx[j]? = some idx) (k : Nat) (st : St P Prm)
    (hR : R st) : (solveAll cfg o sch order k st).raised = none := by
  induction order generalizing k st with
  | nil => simp [solveAll]
  | cons j js ih =>
      obtain ⟨idx, hj⟩ := horder j (List.mem_cons_self ..)
      unfold solveAll
      have h1 := hp.solve st j (sch.solve k j).1 (sch.solve k j).2 hR
      have h2 := hp.solveOk st j idx (sch.solve k j).1 (sch.solve k j).2 hj hR
      dsimp only
      split
      · next e heq => rw [heq] at h2; cases h2
      · exact ih (fun j' hj' => horder j' (List.mem_cons_of_mem _ hj')) (k + 1) _ h1

theorem optimizeIteration_noraise [LT S] [DecidableLT S] (hp : NoRaise cfg o R)
    (sch : IterSched Prm S) (st : St P Prm) (hR : R st) : (optimizeIteration cfg o sch st).raised = none := by
  unfold optimizeIteration
  have h1 := probeAll_rest hp.toRestPreserved sch _ (zipIdx_clampIdx cfg) st hR
  have h2 := probeAll_noraise hp sch _ (zipIdx_clampIdx cfg) st hR
  have h3 := probeAll_keys (cfg := cfg) (o := o) sch cfg.clampIdx.zipIdx st
  split
  · next st' _ e heq => rw [heq] at h2; cases h2
  · next st' keys heq =>
      rw [heq] at h1 h3
      apply solveAll_noraise hp sch _ _ 0 st' h1
      intro j hj
      simp only [List.mem_map] at hj
      obtain ⟨x, hx, rfl⟩ := hj
      obtain ⟨idx, hi⟩ := h3 x ((mem_sortDesc keys x).mp hx)
      exact ⟨idx, zipIdx_clampIdx cfg _ hi⟩

theorem optimizeLoop_noraise [LT S] [DecidableLT S] (hp : NoRaise cfg o R)
    (conv : List (Q × Q) → Bool) (maxIter : Nat) (sched : Nat → IterSched Prm S)
    (fuel : Nat) (hist : List (Q × Q)) (steps : List (List (Step Q))) (st : St P Prm) (hR : R st) :
    (optimizeLoop cfg o conv maxIter sched fuel hist steps st).raised = none := by
  induction fuel generalizing hist steps st with
  | zero => unfold optimizeLoop; split <;> rfl
  | succ fuel ih =>
      unfold optimizeLoop
      split
      · rfl
      · dsimp only
        have hg := hp.gqOk st hR
        split
        · next hnone => rw [hnone] at hg; cases hg
        · have h1 := optimizeIteration_rest hp.toRestPreserved (sched hist.length) st hR
          have h2 := optimizeIteration_noraise hp (sched hist.length) st hR
          split
          · next e heq => rw [heq] at h2; cases h2
          · have hg' := hp.gqOk _ h1
            split
            · next hnone => rw [hnone] at hg'; cases hg'
            · exact ih _ _ _ h1

end restprinciple


/-! ### quality along the run, fuel, sorting, back-port -/

/-- rest state whose grid quality is defined and at most `q0` -/
def RestLe (cfg : Cfg P Prm) (o : Oracles P Q) [LE Q] (n : Nat) (q0 : Q) (st : St P Prm) : Prop :=
  Rest cfg n st ∧ ∃ q, o.gq st.pts = some q ∧ q ≤ q0

theorem restLe_preserved [LinearOrder Q] {cfg : Cfg P Prm} {n : Nat} (hwf : WF cfg n) (o : Oracles P Q) (q0 : Q) :
    RestPreserved cfg o (RestLe cfg o n q0) where
  probe := by
    intro st j idx evals hj hR
    rw [probeClamp_eq hwf hR.1 hj evals]; exact hR
  solve := by
    intro st j evals sr hR
    have hrest : Rest cfg n (optimizeClamp cfg o st j evals sr).st := by
      have := optimizeClamp_pres (preserved_cons (o := o) hwf (fun _ => True)) st j evals sr
        ⟨hR.1.1, hR.1.2.1, fun j _ => hR.1.2.2 j⟩ (fun _ _ => trivial)
      exact ⟨this.1, this.2.1, fun j => this.2.2 j trivial⟩
    refine ⟨hrest, ?_⟩
    rcases optimizeClamp_spec (o := o) hwf st hR.1.1 j (hR.1.2.2 j) evals sr with ⟨h, _⟩ | ⟨gi, gf, hgi, hgf, hlt, _, _⟩
    · rw [h]; exact hR.2
    · obtain ⟨q, hq, hle⟩ := hR.2
      rw [hgi] at hq; cases hq
      exact ⟨gf, hgf, le_trans (le_of_lt hlt) hle⟩

theorem optimizeLoop_fuel [LinearOrder Q] [LinearOrder S] (cfg : Cfg P Prm) (o : Oracles P Q)
    (conv : List (Q × Q) → Bool) (maxIter : Nat) (sched : Nat → IterSched Prm S) (fuel : Nat)
    (hist : List (Q × Q)) (steps : List (List (Step Q))) (st : St P Prm) (h : maxIter ≤ hist.length + fuel) :
    (optimizeLoop cfg o conv maxIter sched fuel hist steps st).outOfFuel = false ∧
      (hist.length ≤ maxIter →
        (optimizeLoop cfg o conv maxIter sched fuel hist steps st).hist.length ≤ maxIter) := by
  induction fuel generalizing hist steps st with
  | zero =>
      unfold optimizeLoop
      have : converged conv maxIter hist = true := by simp [converged]; left; omega
      simp [this]
  | succ fuel ih =>
      unfold optimizeLoop
      split
      · exact ⟨rfl, id⟩
      · next hc =>
          have hlt : hist.length < maxIter := by
            simp [converged] at hc; omega
          dsimp only
          split
          · exact ⟨rfl, id⟩
          · split
            · exact ⟨rfl, id⟩
            · split
              · exact ⟨rfl, id⟩
              · next _ q0 _ _ _ _ q1 _ =>
                have := ih (hist ++ [(q0, q1)]) (steps ++ [(optimizeIteration cfg o (sched hist.length) st).steps])
                  (optimizeIteration cfg o (sched hist.length) st).st (by simp; omega)
                exact ⟨this.1, fun _ => this.2 (by simp; omega)⟩

theorem insertDesc_perm [LinearOrder S] (x : Nat × S) (ys : List (Nat × S)) : (insertDesc x ys).Perm (x :: ys) := by
  induction ys with
  | nil => simp [insertDesc]
  | cons y ys ih =>
      unfold insertDesc
      split
      · exact List.Perm.refl _
      · exact (List.Perm.cons y ih).trans (List.Perm.swap x y ys)


/-- `for i, point in enumerate(points): vertices[i].move_to(point)` cell by cell -/
theorem foldl_set_zipIdx (pts : List P) (k : Nat) (verts : List P) (i : Nat) :
    ((pts.zipIdx k).foldl (fun vs x => vs.set x.2 x.1) verts)[i]? =
      if k ≤ i ∧ i < k + pts.length ∧ i < verts.length then pts[i - k]? else verts[i]? := by
  induction pts generalizing k verts with
  | nil =>
      have : ¬ (k ≤ i ∧ i < k + ([] : List P).length ∧ i < verts.length) := by simp; omega
      simp only [List.zipIdx_nil, List.foldl_nil, this, if_false]
  | cons p ps ih =>
      simp only [List.zipIdx_cons, List.foldl_cons, List.length_cons]
      rw [ih (k + 1) (verts.set k p), List.length_set, List.getElem?_set]
      by_cases hik : i = k
      · subst hik
        have h1 : ¬ i + 1 ≤ i := by omega
        by_cases hv : i < verts.length
        · have h2 : i < i + (ps.length + 1) := by omega
          simp [h1, hv, h2]
        · simp [h1, hv]
      · by_cases hlt : k < i
        · have h1 : k + 1 ≤ i := hlt
          have h2 : i - k = (i - (k + 1)) + 1 := by omega
          have h3 : (i < k + 1 + ps.length) = (i < k + (ps.length + 1)) := by
            apply propext; omega
          simp only [h1, Nat.le_of_lt hlt, true_and, h3, Ne.symm hik, if_false, h2, List.getElem?_cons_succ]
        · have h1 : ¬ k + 1 ≤ i := by omega
          have h2 : ¬ k ≤ i := by omega
          simp [h1, h2, Ne.symm hik]


/-! ### the first iteration makes any state consistent -/

section establish
variable {cfg : Cfg P Prm} {o : Oracles P Q} {n : Nat}

/-- sizes right and consistent at the clamps of `D` -/
def ConsOn (cfg : Cfg P Prm) (n : Nat) (D : Nat → Prop) (st : St P Prm) : Prop :=
  st.pts.length = n ∧ st.prm.length = cfg.clampIdx.length ∧ ∀ j, D j → ConsAt cfg st j

theorem probeClamp_consAt (hwf : WF cfg n) {st : St P Prm} (hlen : st.pts.length = n)
    (hplen : st.prm.length = cfg.clampIdx.length) {j idx : Nat} (hj : cfg.clampIdx[j]? = some idx)
    (evals : List Prm) : ConsAt cfg (probeClamp cfg o st j idx evals).1 j := by
  have hlt : j < cfg.clampIdx.length := by
    rcases Nat.lt_or_ge j cfg.clampIdx.length with h1 | h1
    · exact h1
    · rw [List.getElem?_eq_none h1] at hj; cases hj
  have hinit : st.prm[j]? = some (st.prm[j]'(by rw [hplen]; exact hlt)) := List.getElem?_eq_getElem _
  unfold probeClamp
  rw [hinit]
  dsimp only
  apply consAt_self hwf _ _ hj
  rw [(runProbe_sameOff (cfg := cfg) (o := o) st (SameOff.refl idx j st) evals).plen, hlen]

theorem probeAll_establish (hwf : WF cfg n) (sch : IterSched Prm S) (todo : List (Nat × Nat))
    (htodo : ∀ x ∈ todo, cfg.clampIdx[x.2]? = some x.1) (D : Nat → Prop) (st : St P Prm)
    (hI : ConsOn cfg n D st) (hnr : (probeAll cfg o sch todo st).2.2 = none) :
    ConsOn cfg n (fun j => D j ∨ ∃ idx, (idx, j) ∈ todo) (probeAll cfg o sch todo st).1 := by
  induction todo generalizing st D with
  | nil => simp only [probeAll]; exact ⟨hI.1, hI.2.1, fun j hj => hI.2.2 j (by simpa using hj)⟩
  | cons x rest ih =>
      obtain ⟨idx, j⟩ := x
      have hj := htodo (idx, j) (List.mem_cons_self ..)
      have h1 := probeClamp_pres (preserved_cons (o := o) hwf D) hj st (sch.probe j).1 hI (fun _ _ => trivial)
      have h2 := probeClamp_consAt (o := o) hwf hI.1 hI.2.1 hj (sch.probe j).1
      cases hpc : probeClamp cfg o st j idx (sch.probe j).1 with
      | mk st' e =>
        rw [hpc] at h1 h2
        cases e with
        | some e => simp [probeAll, hpc] at hnr
        | none =>
          simp only [probeAll, hpc] at hnr ⊢
          have hI' : ConsOn cfg n (fun x => D x ∨ x = j) st' :=
            ⟨h1.1, h1.2.1, fun j' hj' => by
              rcases hj' with h | rfl
              · exact h1.2.2 j' h
              · exact h2⟩
          have := ih (fun x hx => htodo x (List.mem_cons_of_mem _ hx)) _ st' hI' hnr
          refine ⟨this.1, this.2.1, fun j' hj' => this.2.2 j' ?_⟩
          rcases hj' with h | ⟨i, hi⟩
          · exact Or.inl (Or.inl h)
          · rcases List.mem_cons.mp hi with h | h
            · cases h; exact Or.inl (Or.inr rfl)
            · exact Or.inr ⟨i, h⟩

theorem optimizeIteration_establish [LE Q] [DecidableLE Q] [LT S] [DecidableLT S] (hwf : WF cfg n)
    (sch : IterSched Prm S) (st : St P Prm) (hlen : st.pts.length = n)
    (hplen : st.prm.length = cfg.clampIdx.length) (hnr : (optimizeIteration cfg o sch st).raised = none) :
    Rest cfg n (optimizeIteration cfg o sch st).st := by
  have h1 := fun h => probeAll_establish (o := o) hwf sch _ (zipIdx_clampIdx cfg) (fun _ => False) st
    ⟨hlen, hplen, fun _ h => h.elim⟩ h
  cases hpa : probeAll cfg o sch cfg.clampIdx.zipIdx st with
  | mk st' r =>
    obtain ⟨keys, e⟩ := r
    rw [hpa] at h1
    cases e with
    | some e => simp [optimizeIteration, hpa] at hnr
    | none =>
      simp only [optimizeIteration, hpa] at hnr ⊢
      have h2 := solveAll_pres (preserved_cons (o := o) hwf _) sch
        ⟨fun _ _ _ => trivial, fun _ _ _ _ => trivial⟩ ((sortDesc keys).map (·.1)) 0 st' (h1 rfl)
      refine ⟨h2.1, h2.2.1, fun j idx p hj hp => h2.2.2 j (Or.inr ⟨idx, ?_⟩) idx p hj hp⟩
      exact List.mem_zipIdx_iff_getElem?.mpr hj

theorem optimizeLoop_establish [LE Q] [DecidableLE Q] [LT S] [DecidableLT S] (hwf : WF cfg n)
    (conv : List (Q × Q) → Bool) (maxIter : Nat) (sched : Nat → IterSched Prm S)
    (fuel : Nat) (hist : List (Q × Q)) (steps : List (List (Step Q))) (st : St P Prm)
    (hlen : st.pts.length = n) (hplen : st.prm.length = cfg.clampIdx.length)
    (hnr : (optimizeLoop cfg o conv maxIter sched fuel hist steps st).raised = none)
    (hit : (optimizeLoop cfg o conv maxIter sched fuel hist steps st).hist ≠ hist) :
    Rest cfg n (optimizeLoop cfg o conv maxIter sched fuel hist steps st).st := by
  by_cases hc : converged conv maxIter hist = true
  · unfold optimizeLoop at hit; simp [hc] at hit
  · cases fuel with
    | zero => unfold optimizeLoop at hit; simp [hc] at hit
    | succ fuel =>
      unfold optimizeLoop at hnr hit ⊢
      simp only [hc, Bool.false_eq_true, if_false] at hnr hit ⊢
      cases hg : o.gq st.pts with
      | none => simp [hg] at hit
      | some q0 =>
        cases hrz : (optimizeIteration cfg o (sched hist.length) st).raised with
        | some e => simp [hg, hrz] at hit
        | none =>
          cases hg2 : o.gq (optimizeIteration cfg o (sched hist.length) st).st.pts with
          | none => simp [hg, hrz, hg2] at hit
          | some q1 =>
            have hr := optimizeIteration_establish hwf (sched hist.length) st hlen hplen hrz
            have := optimizeLoop_pres (preserved_cons (o := o) hwf (fun _ => True)) conv maxIter sched
              (fun _ => ⟨fun _ _ _ => trivial, fun _ _ _ _ => trivial⟩) fuel (hist ++ [(q0, q1)])
              (steps ++ [(optimizeIteration cfg o (sched hist.length) st).steps]) _
              ⟨hr.1, hr.2.1, fun j _ => hr.2.2 j⟩
            exact ⟨this.1, this.2.1, fun j => this.2.2 j trivial⟩

end establish


/-! ### `MappedSketch.update` / `positions` -/

theorem mapM_option_spec {α β : Type} (f : α → Option β) : ∀ (l : List α) (r : List β), l.mapM f = some r →
    r.length = l.length ∧ ∀ (k : Nat) (a : α), l[k]? = some a → ∃ b, r[k]? = some b ∧ f a = some b := by
  intro l
  induction l with
  | nil => intro r h; simp at h; subst h; simp
  | cons x xs ih =>
      intro r h
      simp only [List.mapM_cons, Option.bind_eq_bind, Option.pure_def, Option.bind_eq_some_iff] at h
      obtain ⟨b, hb, bs, hbs, hr⟩ := h
      cases hr
      obtain ⟨h1, h2⟩ := ih bs hbs
      refine ⟨by simp [h1], fun k a hk => ?_⟩
      cases k with
      | zero => simp at hk; subst hk; exact ⟨b, by simp, hb⟩
      | succ k => simp at hk ⊢; exact h2 k a hk

theorem mapM_option_isSome {α β : Type} (f : α → Option β) (l : List α) (h : ∀ a ∈ l, (f a).isSome) :
    (l.mapM f).isSome := by
  induction l with
  | nil => simp
  | cons x xs ih =>
      have hx := h x (List.mem_cons_self ..)
      have hxs := ih (fun a ha => h a (List.mem_cons_of_mem _ ha))
      obtain ⟨b, hb⟩ := Option.isSome_iff_exists.mp hx
      obtain ⟨bs, hbs⟩ := Option.isSome_iff_exists.mp hxs
      simp [List.mapM_cons, hb, hbs]


theorem flatten_mapM (g : Nat → Option P) : ∀ (quads : List (List Nat)) (faces : List (List P)),
    quads.mapM (fun q => q.mapM g) = some faces →
    faces.flatten.length = quads.flatten.length ∧
    ∀ (k i : Nat), quads.flatten[k]? = some i → ∃ b, faces.flatten[k]? = some b ∧ g i = some b := by
  intro quads
  induction quads with
  | nil => intro faces h; simp at h; subst h; simp
  | cons q qs ih =>
      intro faces h
      simp only [List.mapM_cons, Option.bind_eq_bind, Option.pure_def, Option.bind_eq_some_iff] at h
      obtain ⟨f, hf, fs, hfs, hr⟩ := h
      cases hr
      obtain ⟨l1, s1⟩ := mapM_option_spec g q f hf
      obtain ⟨l2, s2⟩ := ih fs hfs
      refine ⟨by simp [l1, l2], fun k i hk => ?_⟩
      simp only [List.flatten_cons] at hk ⊢
      by_cases hlt : k < q.length
      · rw [List.getElem?_append_left hlt] at hk
        rw [List.getElem?_append_left (by rw [l1]; exact hlt)]
        exact s1 k i hk
      · have hge : q.length ≤ k := Nat.le_of_not_lt hlt
        rw [List.getElem?_append_right hge] at hk
        rw [List.getElem?_append_right (by rw [l1]; exact hge), l1]
        exact s2 _ i hk



/-! ### quality from an arbitrary (not yet consistent) state -/

section general
variable {cfg : Cfg P Prm} {o : Oracles P Q} {n : Nat}

/-- if the first `optimize_clamp` of a non-empty order does not raise, the grid quality before it is defined -/
theorem solveAll_gq_defined [LE Q] [DecidableLE Q] (sch : IterSched Prm S) (order : List Nat) (k : Nat)
    (st : St P Prm) (hne : order ≠ []) (hnr : (solveAll cfg o sch order k st).raised = none) :
    (o.gq st.pts).isSome := by
  cases order with
  | nil => exact absurd rfl hne
  | cons j js =>
      unfold solveAll at hnr
      dsimp only at hnr
      cases hg : o.gq st.pts with
      | some q => rfl
      | none =>
          exfalso
          have hr : (optimizeClamp cfg o st j (sch.solve k j).1 (sch.solve k j).2).raised ≠ none := by
            unfold optimizeClamp
            split
            · simp [hg]
            · simp
          cases hrz : (optimizeClamp cfg o st j (sch.solve k j).1 (sch.solve k j).2).raised with
          | none => exact hr hrz
          | some e => simp [hrz] at hnr


theorem optimizeLoop_noworse_general [LinearOrder Q] [LT S] [DecidableLT S] (hwf : WF cfg n)
    (conv : List (Q × Q) → Bool) (maxIter : Nat) (sched : Nat → IterSched Prm S)
    (fuel : Nat) (hist : List (Q × Q)) (steps : List (List (Step Q))) (st : St P Prm)
    (hlen : st.pts.length = n) (hplen : st.prm.length = cfg.clampIdx.length)
    (hnr : (optimizeLoop cfg o conv maxIter sched fuel hist steps st).raised = none)
    (hit : (optimizeLoop cfg o conv maxIter sched fuel hist steps st).hist ≠ hist) :
    ∃ qn q1, o.gq (probeAll cfg o (sched hist.length) cfg.clampIdx.zipIdx st).1.pts = some qn ∧
      o.gq (optimizeLoop cfg o conv maxIter sched fuel hist steps st).st.pts = some q1 ∧ q1 ≤ qn := by
  by_cases hc : converged conv maxIter hist = true
  · unfold optimizeLoop at hit; simp [hc] at hit
  · cases fuel with
    | zero => unfold optimizeLoop at hit; simp [hc] at hit
    | succ fuel =>
      unfold optimizeLoop at hnr hit ⊢
      simp only [hc, Bool.false_eq_true, if_false] at hnr hit ⊢
      cases hg : o.gq st.pts with
      | none => simp [hg] at hit
      | some q0 =>
        cases hrz : (optimizeIteration cfg o (sched hist.length) st).raised with
        | some e => simp [hg, hrz] at hit
        | none =>
          cases hg2 : o.gq (optimizeIteration cfg o (sched hist.length) st).st.pts with
          | none => simp [hg, hrz, hg2] at hit
          | some q1 =>
            -- the iteration: probes, then the clamps
            have h1 := fun h => probeAll_establish (o := o) hwf (sched hist.length) _ (zipIdx_clampIdx cfg)
              (fun _ => False) st ⟨hlen, hplen, fun _ h => h.elim⟩ h
            cases hpa : probeAll cfg o (sched hist.length) cfg.clampIdx.zipIdx st with
            | mk st' r =>
              obtain ⟨keys, e⟩ := r
              rw [hpa] at h1
              cases e with
              | some e => simp [optimizeIteration, hpa] at hrz
              | none =>
                have hiter : optimizeIteration cfg o (sched hist.length) st =
                    solveAll cfg o (sched hist.length) ((sortDesc keys).map (·.1)) 0 st' := by
                  simp only [optimizeIteration, hpa]
                have hrest : Rest cfg n st' := by
                  have h2 := h1 rfl
                  refine ⟨h2.1, h2.2.1, fun j idx p hj hp => h2.2.2 j (Or.inr ⟨idx, ?_⟩) idx p hj hp⟩
                  exact List.mem_zipIdx_iff_getElem?.mpr hj
                have hq : (o.gq st'.pts).isSome := by
                  by_cases hord : (sortDesc keys).map (·.1) = []
                  · rw [hiter, hord] at hg2
                    simp only [solveAll] at hg2
                    simp [hg2]
                  · rw [hiter] at hrz
                    exact solveAll_gq_defined _ _ 0 st' hord hrz
                obtain ⟨qn, hqn⟩ := Option.isSome_iff_exists.mp hq
                have hp := restLe_preserved hwf o qn
                have h3 : RestLe cfg o n qn (optimizeIteration cfg o (sched hist.length) st).st := by
                  rw [hiter]
                  exact solveAll_rest hp _ _ 0 st' ⟨hrest, qn, hqn, le_refl _⟩
                have h4 := optimizeLoop_rest hp conv maxIter sched fuel (hist ++ [(q0, q1)])
                  (steps ++ [(optimizeIteration cfg o (sched hist.length) st).steps]) _ h3
                obtain ⟨qf, hqf, hle⟩ := h4.2
                exact ⟨qn, qf, hqn, hqf, hle⟩

end general


/-! ### set-up: `add_clamp`, `add_link` (round 5) -/

section setup
open CBV

theorem findFirstFrom_spec (tol2 : Rat) (pos : V3) : ∀ (qs : List V3) (i k : Nat),
    findFirstFrom tol2 pos qs i = some k →
      i ≤ k ∧ (∃ q, qs[k - i]? = some q ∧ near tol2 q pos = true) ∧
        ∀ m q, m < k - i → qs[m]? = some q → near tol2 q pos = false := by
  intro qs
  induction qs with
  | nil => intro i k h; simp [findFirstFrom] at h
  | cons q qs ih =>
      intro i k h
      unfold findFirstFrom at h
      split at h
      · next hq =>
          cases h
          refine ⟨Nat.le_refl _, ⟨q, by simp, hq⟩, fun m q' hm => by omega⟩
      · next hq =>
          obtain ⟨h1, ⟨q', hq', hn⟩, h3⟩ := ih (i + 1) k h
          have e : k - i = (k - (i + 1)) + 1 := by omega
          refine ⟨by omega, ⟨q', by rw [e, List.getElem?_cons_succ]; exact hq', hn⟩, fun m q'' hm hq'' => ?_⟩
          cases m with
          | zero => simp at hq''; subst hq''; simpa using hq
          | succ m => rw [List.getElem?_cons_succ] at hq''; exact h3 m q'' (by omega) hq''

theorem findFirstFrom_none (tol2 : Rat) (pos : V3) : ∀ (qs : List V3) (i : Nat),
    findFirstFrom tol2 pos qs i = none → ∀ q ∈ qs, near tol2 q pos = false := by
  intro qs
  induction qs with
  | nil => intro i _ q hq; cases hq
  | cons q qs ih =>
      intro i h q' hq'
      unfold findFirstFrom at h
      split at h
      · cases h
      · next hq =>
          rcases List.mem_cons.mp hq' with rfl | h'
          · simpa using hq
          · exact ih (i + 1) h q' h'

/-- two points both closer than TOL to a third are closer than 2·TOL to each other (squared form) -/
theorem near_near (tol2 : Rat) (a b p : V3) (ha : near tol2 a p = true) (hb : near tol2 b p = true) :
    V3.norm2 (a - b) < 4 * tol2 := by
  have ha' := of_decide_eq_true ha
  have hb' := of_decide_eq_true hb
  simp only [V3.norm2, V3.dot, V3.sub_x, V3.sub_y, V3.sub_z] at ha' hb' ⊢
  nlinarith [sq_nonneg (a.x - p.x + (b.x - p.x)), sq_nonneg (a.y - p.y + (b.y - p.y)), sq_nonneg (a.z - p.z + (b.z - p.z))]

/-- points of the grid pairwise at least 2·TOL apart -/
def Separated (tol2 : Rat) (pts : List V3) : Prop :=
  ∀ (i j : Nat) (a b : V3), pts[i]? = some a → pts[j]? = some b → i ≠ j → 4 * tol2 ≤ V3.norm2 (a - b)

theorem findFirst_unique (tol2 : Rat) (pts : List V3) (hs : Separated tol2 pts) (pos : V3) (k : Nat) (a : V3)
    (hk : pts[k]? = some a) (hn : near tol2 a pos = true) : findFirst tol2 pts pos = some k := by
  cases h : findFirst tol2 pts pos with
  | none => have := findFirstFrom_none tol2 pos pts 0 h a (List.mem_of_getElem? hk); rw [hn] at this; cases this
  | some i =>
      obtain ⟨_, ⟨b, hb, hnb⟩, _⟩ := findFirstFrom_spec tol2 pos pts 0 i h
      simp only [Nat.sub_zero] at hb
      by_cases hik : i = k
      · rw [hik]
      · have h1 := hs i k b a hb hk hik
        have h2 := near_near tol2 b a pos hnb hn
        exact absurd h1 (not_le.mpr h2)

theorem addClamp_spec (tol2 : Rat) (pts : List V3) (r : Reg) (cid : Nat) (pos : V3) :
    ((addClamp tol2 pts r cid pos).2 ≠ none → (addClamp tol2 pts r cid pos).1 = r) ∧
    ((addClamp tol2 pts r cid pos).2 = none → ∃ i q, findFirst tol2 pts pos = some i ∧ pts[i]? = some q ∧
        near tol2 q pos = true ∧ (∀ m q', m < i → pts[m]? = some q' → near tol2 q' pos = false) ∧
        (∀ c ∈ r.clamps, c.1 ≠ i) ∧ (addClamp tol2 pts r cid pos).1 = { r with clamps := r.clamps ++ [(i, cid)] }) := by
  unfold addClamp
  split
  · simp
  · next i hi =>
      obtain ⟨_, ⟨q, hq, hn⟩, hm⟩ := findFirstFrom_spec tol2 pos pts 0 i hi
      simp only [Nat.sub_zero] at hq hm
      split
      · simp
      · next hany =>
          refine ⟨by simp, fun _ => ⟨i, q, hi, hq, hn, hm, ?_, rfl⟩⟩
          intro c hc hci
          apply hany
          simp only [List.any_eq_true]
          exact ⟨c, hc, by simp [hci]⟩

theorem scanLink_spec (tol2 : Rat) (leader follower : V3) : ∀ (qs : List V3) (i : Nat) (acc : Option Nat × Option Nat)
    (pre : List V3), pre.length = i →
    (∀ li, acc.1 = some li → ∃ q, (pre ++ qs)[li]? = some q ∧ near tol2 leader q = true) →
    (∀ fi, acc.2 = some fi → ∃ q, (pre ++ qs)[fi]? = some q ∧ near tol2 follower q = true ∧ near tol2 leader q = false) →
    (∀ li, (scanLink tol2 leader follower qs i acc).1 = some li →
        ∃ q, (pre ++ qs)[li]? = some q ∧ near tol2 leader q = true) ∧
    (∀ fi, (scanLink tol2 leader follower qs i acc).2 = some fi →
        ∃ q, (pre ++ qs)[fi]? = some q ∧ near tol2 follower q = true ∧ near tol2 leader q = false) := by
  intro qs
  induction qs with
  | nil => intro i acc pre _ h1 h2; simp only [scanLink, List.append_nil] at h1 h2 ⊢; exact ⟨h1, h2⟩
  | cons q qs ih =>
      intro i acc pre hp h1 h2
      have hcur : (pre ++ q :: qs)[i]? = some q := by
        rw [List.getElem?_append_right (by omega)]; simp [hp]
      have hre : pre ++ q :: qs = (pre ++ [q]) ++ qs := by simp
      unfold scanLink
      split
      · next hl =>
          rw [hre]
          apply ih (i + 1) _ (pre ++ [q]) (by simp [hp])
          · intro li hli; cases hli; rw [← hre]; exact ⟨q, hcur, hl⟩
          · intro fi hfi; rw [← hre]; exact h2 fi hfi
      · next hl =>
          split
          · next hf =>
              rw [hre]
              apply ih (i + 1) _ (pre ++ [q]) (by simp [hp])
              · intro li hli; rw [← hre]; exact h1 li hli
              · intro fi hfi; cases hfi; rw [← hre]; exact ⟨q, hcur, hf, by simpa using hl⟩
          · rw [hre]
            apply ih (i + 1) acc (pre ++ [q]) (by simp [hp])
            · intro li hli; rw [← hre]; exact h1 li hli
            · intro fi hfi; rw [← hre]; exact h2 fi hfi

theorem addLink_spec (tol2 : Rat) (pts : List V3) (r : Reg) (lid : Nat) (leader follower : V3) :
    ((addLink tol2 pts r lid leader follower).2 ≠ none → (addLink tol2 pts r lid leader follower).1 = r) ∧
    ((addLink tol2 pts r lid leader follower).2 = none → ∃ li fi a b, li ≠ fi ∧ pts[li]? = some a ∧ pts[fi]? = some b ∧
        near tol2 leader a = true ∧ near tol2 follower b = true ∧
        (addLink tol2 pts r lid leader follower).1 = { r with links := r.links ++ [⟨li, fi, lid⟩] }) := by
  have hs := scanLink_spec tol2 leader follower pts 0 (none, none) [] rfl (by simp) (by simp)
  simp only [List.nil_append] at hs
  unfold addLink
  split
  · simp
  · simp
  · next li fi heq =>
      rw [heq] at hs
      split
      · simp
      · next hne =>
          obtain ⟨a, ha, hna⟩ := hs.1 li rfl
          obtain ⟨b, hb, hnb, _⟩ := hs.2 fi rfl
          exact ⟨by simp, fun _ => ⟨li, fi, a, b, hne, ha, hb, hna, hnb, rfl⟩⟩

end setup

end CBV.C13
