/-
C16 — lemmas about the sample lists of function curves (round 6): a `linspace` over n points is the `linspace` up to one of
its samples followed by the `linspace` from that sample on; polyline lengths are non-negative and grow with the list.
-/
import CBV.Lemmas.C16
import Mathlib.Tactic.FieldSimp
import Mathlib.Tactic.Push

namespace CBV.C16

variable {α : Type}

theorem polyLenD_cons2 (d : α → α → Rat) (p q : α) (rest : List α) :
    polyLenD d (p :: q :: rest) = d p q + polyLenD d (q :: rest) := rfl

theorem polyLenD_nonneg (d : α → α → Rat) (hd : ∀ x y, 0 ≤ d x y) : ∀ l : List α, 0 ≤ polyLenD d l
  | [] => by simp [polyLenD]
  | [_] => by simp [polyLenD]
  | p :: q :: rest => by
      have := polyLenD_nonneg d hd (q :: rest)
      rw [polyLenD_cons2]; linarith [hd p q]

/-- the `i`-th sample of `np.linspace(a, b, N + 1)` -/
def sample (a b : Rat) (N i : Nat) : Rat := a + (i : Rat) * ((b - a) / (N : Rat))

theorem linspace_eq (a b : Rat) (N : Nat) :
    linspace a b (N + 1) = (List.range N).map (sample a b N) ++ [b] := by
  unfold linspace
  simp only [Nat.add_sub_cancel]
  congr 1
  apply List.map_congr_left
  intro i _
  unfold sample
  push_cast
  ring_nf

theorem sample_left (a b : Rat) (N k i : Nat) (hk : k ≠ 0) :
    sample a (sample a b N k) k i = sample a b N i := by
  unfold sample
  have : (k : Rat) ≠ 0 := by exact_mod_cast hk
  field_simp
  ring

theorem sample_right (a b : Rat) (k m j : Nat) (hm : m ≠ 0) :
    sample (sample a b (k + m) k) b m j = sample a b (k + m) (k + j) := by
  unfold sample
  have hm' : (m : Rat) ≠ 0 := by exact_mod_cast hm
  have hkm : ((k + m : Nat) : Rat) ≠ 0 := by
    have : k + m ≠ 0 := by omega
    exact_mod_cast this
  push_cast at hkm ⊢
  field_simp
  ring

/-- `np.linspace(a, b, k + m + 1)` is `np.linspace(a, t_k, k + 1)` followed by `np.linspace(t_k, b, m + 1)` without its first
    point, `t_k` the k-th sample — exactly, over ℚ -/
theorem linspace_split (a b : Rat) (k m : Nat) (hk : 1 ≤ k) (hm : 1 ≤ m) :
    linspace a b (k + m + 1) =
      linspace a (sample a b (k + m) k) (k + 1) ++ (linspace (sample a b (k + m) k) b (m + 1)).tail := by
  obtain ⟨m', rfl⟩ : ∃ m', m = m' + 1 := ⟨m - 1, by omega⟩
  rw [linspace_eq, linspace_eq, linspace_eq]
  rw [List.range_add, List.map_append, List.range_succ_eq_map (n := m')]
  simp only [List.map_cons, List.map_map, List.cons_append, List.tail_cons, List.append_assoc, List.nil_append]
  have e1 : (List.range k).map (sample a b (k + (m' + 1))) =
      (List.range k).map (sample a (sample a b (k + (m' + 1)) k) k) := by
    apply List.map_congr_left
    intro i _
    exact (sample_left a b _ k i (by omega)).symm
  have e2 : sample a b (k + (m' + 1)) (k + 0) = sample a b (k + (m' + 1)) k := by simp
  have e3 : (List.range m').map (sample a b (k + (m' + 1)) ∘ (fun x => k + x) ∘ Nat.succ) =
      (List.range m').map (sample (sample a b (k + (m' + 1)) k) b (m' + 1) ∘ Nat.succ) := by
    apply List.map_congr_left
    intro j _
    simp only [Function.comp]
    exact (sample_right a b k (m' + 1) (j + 1) (by omega)).symm
  rw [e1, e2, e3]

/-- the samples of the model's `np.linspace(a, b, N + 1)` are ascending for `a ≤ b` -/
theorem linspace_sorted (a b : Rat) (hab : a ≤ b) (N : Nat) : (linspace a b (N + 1)).Pairwise (· ≤ ·) := by
  rw [linspace_eq, List.pairwise_append]
  have hstep : 0 ≤ (b - a) / (N : Rat) := div_nonneg (sub_nonneg.mpr hab) (Nat.cast_nonneg N)
  refine ⟨?_, by simp, ?_⟩
  · rw [List.pairwise_map]
    apply List.Pairwise.imp _ (List.pairwise_lt_range (n := N))
    intro i j hij
    unfold sample
    have : (i : Rat) ≤ (j : Rat) := by exact_mod_cast le_of_lt hij
    nlinarith
  · intro x hx y hy
    simp only [List.mem_singleton] at hy
    subst hy
    obtain ⟨i, hi, rfl⟩ := List.mem_map.mp hx
    have hiN : i < N := List.mem_range.mp hi
    have hN : (0 : Rat) < N := by exact_mod_cast (by omega : 0 < N)
    have hiN' : (i : Rat) ≤ N := by exact_mod_cast le_of_lt hiN
    unfold sample
    have e : y = a + (N : Rat) * ((y - a) / (N : Rat)) := by field_simp; ring
    have : (i : Rat) * ((y - a) / (N : Rat)) ≤ (N : Rat) * ((y - a) / (N : Rat)) :=
      mul_le_mul_of_nonneg_right hiN' hstep
    linarith

/-! ### round 6d: the samples in the other order -/

theorem linspace_length (a b : Rat) (N : Nat) : (linspace a b (N + 1)).length = N + 1 := by
  rw [linspace_eq]; simp

theorem linspace_getElem (a b : Rat) (N i : Nat) (hi : i < (linspace a b (N + 1)).length) :
    (linspace a b (N + 1))[i] = if i < N then sample a b N i else b := by
  have hlen := linspace_length a b N
  rw [List.getElem_of_eq (linspace_eq a b N) hi, List.getElem_append]
  by_cases h : i < N
  · simp [h]
  · have : i = N := by omega
    subst this
    simp

/-- `np.linspace(b, a, n)` is `np.linspace(a, b, n)` reversed — exactly, over ℚ (n ≥ 2) -/
theorem linspace_reverse (a b : Rat) (N : Nat) (hN : 1 ≤ N) :
    linspace b a (N + 1) = (linspace a b (N + 1)).reverse := by
  have hNq : (N : Rat) ≠ 0 := by exact_mod_cast (by omega : N ≠ 0)
  apply List.ext_getElem
  · rw [List.length_reverse, linspace_length, linspace_length]
  · intro i h1 h2
    have hi : i < N + 1 := by rw [linspace_length] at h1; exact h1
    rw [List.getElem_reverse, linspace_getElem, linspace_getElem, linspace_length]
    by_cases hiN : i < N
    · rw [if_pos hiN]
      by_cases h0 : i = 0
      · subst h0
        have : ¬ (N + 1 - 1 - 0 < N) := by omega
        rw [if_neg this]; simp [sample]
      · have hlt : N + 1 - 1 - i < N := by omega
        rw [if_pos hlt]
        unfold sample
        have hc : ((N + 1 - 1 - i : Nat) : Rat) = (N : Rat) - (i : Rat) := by
          have : N + 1 - 1 - i = N - i := by omega
          rw [this, Nat.cast_sub (by omega)]
        rw [hc]
        field_simp
        ring
    · have hiN' : i = N := by omega
      subst hiN'
      rw [if_neg (lt_irrefl _)]
      have hlt : i + 1 - 1 - i < i := by omega
      rw [if_pos hlt]
      have : i + 1 - 1 - i = 0 := by omega
      rw [this]; simp [sample]

end CBV.C16
